#!/bin/bash
# tools/seed_regress.sh [jobs]: re-run, for every seeded change whose patch applies to the current /repo HEAD, the quick tier of
# the check of its property against a scratch worktree with the change applied; writes seeded/REGRESSION.txt
# (<id> <property> <verdict>: VIOLATION / VIOLATION-nofailinginput / MISSED / SKIP-does-not-apply).  Not a registered check.
cd /verif || exit 2
J=${1:-3}
HEAD=$(git -C /repo rev-parse --short HEAD)
OUT=/verif/seeded/REGRESSION.txt
TMP=$(mktemp -d /tmp/seedreg.XXXX)
one() {
  id=$1; d=/verif/seeded/$id
  prop=$(python3 -c "import json;print(json.load(open('$d/meta.json')).get('property','${id%%_*}')[:3])")
  wt=$TMP/wt_$id
  git -C /repo worktree add -q --detach $wt HEAD 2>/dev/null || { echo "$id $prop SKIP-worktree"; return; }
  if ! git -C $wt apply $d/patch.diff 2>/dev/null; then echo "$id $prop SKIP-does-not-apply"; git -C /repo worktree remove --force $wt; return; fi
  out=$(VERIF_REPO=$wt timeout 1500 ./check $prop --tier quick 2>&1 | grep "^VIOLATION" | head -1)
  case "$out" in
    *no-failing-input-found) v=VIOLATION-nofailinginput;;
    VIOLATION*) v=VIOLATION;;
    *) v=MISSED;;
  esac
  echo "$id $prop $v"
  tag=$(python3 -c "import hashlib;print(hashlib.sha256('$wt'.encode()).hexdigest()[:8])")
  rm -rf /verif/.build/target_$tag /verif/.build/harness_$tag
  git -C /repo worktree remove --force $wt
}
export -f one; export TMP
ls /verif/seeded | grep -v REGRESSION | xargs -P $J -I{} bash -c 'one {}' > $TMP/res.txt
{ echo "# seeded changes re-run against /repo $HEAD with the checks of /verif $(git -C /verif rev-parse --short HEAD) ($(date -u +%FT%TZ)); quick tier of the property's own check"; sort $TMP/res.txt; } > $OUT
rm -rf $TMP; git -C /repo worktree prune
awk 'NR>1{print $3}' $OUT | sort | uniq -c
