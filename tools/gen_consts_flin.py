#!/usr/bin/env python3
"""Part of the constant translator (imported by tools/gen_consts.py): f64 literals of the float linear propagators
(props/linear.rs FloatLinEq/Le/Ne, exclude_value) as IEEE-754 bit patterns for coq/Generated/Consts.v.
Fails loudly (exit 1) when a literal is no longer found where it is expected or its occurrences disagree."""
import os, re, struct, sys
REPO = os.environ.get("VERIF_REPO", "/repo")

def src(rel):
    return open(os.path.join(REPO, rel)).read()

def f64bits(lit):
    return struct.unpack("<Q", struct.pack("<d", float(lit.replace("_", ""))))[0]

def float_lin_consts():
    """f64 literals of the float linear propagators (props/linear.rs FloatLinEq/Le/Ne, exclude_value), as bit patterns."""
    LN = "src/constraints/props/linear.rs"
    t = src(LN)
    F = r"([0-9][0-9_]*\.?[0-9_]*(?:e-?[0-9]+)?)"
    out = []
    def same(pattern, what, atleast):
        ms = re.findall(pattern, t)
        if len(ms) < atleast or len(set(ms)) != 1:
            sys.stderr.write("gen_consts: %s: found %r\n" % (what, ms)); sys.exit(1)
        return ms[0]
    v = same(r"coeff\.abs\(\) < " + F, "zero-coefficient threshold", 4)
    out.append(("flin_zero_coeff_bits", f64bits(v), "linear.rs FloatLin*: coeff.abs() < %s" % v))
    v = same(r"let tolerance = " + F + ";", "FloatLinEq clamp tolerance", 2)
    out.append(("flin_clamp_tol_bits", f64bits(v), "linear.rs FloatLinEq: let tolerance = %s" % v))
    v = same(r"\(current_max - current_min\)\.abs\(\) < " + F, "FloatLinEq is_fixed threshold", 2)
    out.append(("flin_fixed_thr_bits", f64bits(v), "linear.rs FloatLinEq: is_fixed = |max-min| < %s" % v))
    v = same(r"\(new_min - current_min\)\.abs\(\) < " + F, "FloatLinEq min_close threshold", 2)
    out.append(("flin_min_close_bits", f64bits(v), "linear.rs FloatLinEq: min_close = |new_min-min| < %s" % v))
    v = same(r"\(l - u\)\.abs\(\) < " + F, "FloatLinNe fixed threshold", 2)
    out.append(("flin_ne_fixed_bits", f64bits(v), "linear.rs FloatLinNe / compute_fixed_sum_float: (l - u).abs() < %s" % v))
    v = same(r"\((?:fixed_)?sum - (?:self\.)?constant\)\.abs\(\) < " + F, "FloatLinNe equality threshold (scan and leaf check)", 4)
    out.append(("flin_ne_eq_bits", f64bits(v), "linear.rs FloatLinNe: (fixed_sum - constant).abs() < %s" % v))
    # exclude_value moves a float bound by exclusion_delta: one step of a float variable, this literal for an integer one
    a = same(r"Var::VarI\(_\) => " + F + r",", "exclude_value delta for an integer variable (exclusion_delta)", 1)
    out.append(("excl_delta_bits", f64bits(a), "linear.rs exclusion_delta: f +- %s on an integer variable (interval.step on a float one)" % a))
    return out
