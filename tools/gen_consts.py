#!/usr/bin/env python3
"""Translator for constants: regenerates coq/Generated/Consts.v from /repo's current source.
Fails loudly (exit 1) when a constant is no longer found where it is expected."""
import os, re, sys
REPO = os.environ.get("VERIF_REPO", "/repo")
OUT = os.path.join(os.path.dirname(os.path.dirname(os.path.abspath(__file__))), "coq", "Generated", "Consts.v")

def src(rel):
    return open(os.path.join(REPO, rel)).read()

def need(rel, pattern, what):
    m = re.search(pattern, src(rel), re.M | re.S)
    if not m:
        sys.stderr.write("gen_consts: %s not found in %s (pattern %r)\n" % (what, rel, pattern))
        sys.exit(1)
    return m

def num(s):
    return int(s.replace("_", ""))

def f64bits(lit):
    """bit pattern of the f64 that rustc reads from a decimal literal (correctly rounded, as Python's float())"""
    import struct
    return struct.unpack("<Q", struct.pack("<d", float(lit.replace("_", ""))))[0]

def float_consts():
    """f64 literals of the float store, as bit patterns (Z): FloatInterval::new step ladder,
    precision table, tolerances of FloatInterval and of Context::try_set_min/max."""
    out = []
    FI = "src/variables/domain/float_interval.rs"
    VW = "src/variables/views.rs"
    UL = "src/optimization/ulp_utils.rs"
    F = r"([0-9][0-9_]*\.?[0-9_]*(?:e-?[0-9]+)?)"
    m = need(FI, r"pub fn new\(min: f64, max: f64\) -> Self \{(.*?)FloatInterval \{ min, max, step \}", "FloatInterval::new body")
    body = m.group(1)
    thr = re.findall(r"domain_range >= " + F, body)
    if len(thr) != 6:
        sys.stderr.write("gen_consts: FloatInterval::new ladder: expected 6 thresholds, found %r\n" % (thr,)); sys.exit(1)
    for i, t in enumerate(thr):
        out.append(("fi_new_thr%d_bits" % i, f64bits(t), "float_interval.rs new: domain_range >= %s" % t))
    m = need(FI, r"domain_range / " + F, "FloatInterval::new divisor")
    out.append(("fi_new_div_bits", f64bits(m.group(1)), "float_interval.rs new: domain_range / %s" % m.group(1)))
    steps = re.findall(r"\{\s*(?://[^\n]*\n\s*)?" + F + r"\s*//", body)
    if len(steps) != 6:
        sys.stderr.write("gen_consts: FloatInterval::new ladder: expected 6 fixed steps, found %r\n" % (steps,)); sys.exit(1)
    for i, t in enumerate(steps):
        out.append(("fi_new_step%d_bits" % (i + 1), f64bits(t), "float_interval.rs new: step %s" % t))
    tab = re.findall(r"^\s*(\d+) => (1e-\d+),", src(FI), re.M)
    if [int(a) for a, _ in tab] != list(range(1, 13)):
        sys.stderr.write("gen_consts: precision_to_step_size table changed: %r\n" % (tab,)); sys.exit(1)
    for a, t in tab:
        out.append(("prec_step_%s_bits" % a, f64bits(t), "float_interval.rs precision_to_step_size %s => %s" % (a, t)))
    m = need(FI, r"_ => (1e-\d+), // Default fallback", "precision_to_step_size fallback")
    out.append(("prec_step_default_bits", f64bits(m.group(1)), "float_interval.rs precision_to_step_size _ => %s" % m.group(1)))
    n = len(re.findall(r"let tolerance = self\.step / 2\.0;", src(FI)))
    if n < 3:
        sys.stderr.write("gen_consts: expected at least 3 `self.step / 2.0` tolerances in float_interval.rs (contains, remove_below, remove_above[, mid]), found %d\n" % n); sys.exit(1)
    out.append(("fi_tol_div_bits", f64bits("2.0"), "float_interval.rs contains/remove_below/remove_above/mid: self.step / 2.0"))
    n = len(re.findall(r"self\.max = self\.min - 1\.0;", src(FI)))
    if n < 4:
        sys.stderr.write("gen_consts: expected at least 4 `self.max = self.min - 1.0` in float_interval.rs (remove_below, remove_above[, fix_to]), found %d\n" % n); sys.exit(1)
    out.append(("fi_empty_sub_bits", f64bits("1.0"), "float_interval.rs remove_below/remove_above: self.min - 1.0"))
    need(FI, r"self\.min \+ \(self\.max - self\.min\) / 2\.0", "mid: (max-min)/2.0")
    need(FI, r"self\.max - 1\.0\s*\} else if self\.max\.is_infinite\(\) \{[^}]*self\.min \+ 1\.0", "mid: infinite-bound fallbacks +-1.0")
    out.append(("fi_mid_div_bits", f64bits("2.0"), "float_interval.rs mid: / 2.0"))
    out.append(("fi_mid_one_bits", f64bits("1.0"), "float_interval.rs mid: max - 1.0 / min + 1.0"))
    v = src(VW)
    n = len(re.findall(r"let tolerance = interval\.step / 2\.0;", v))
    if n != 4:
        sys.stderr.write("gen_consts: expected 4 `interval.step / 2.0` in views.rs, found %d\n" % n); sys.exit(1)
    out.append(("ctx_tol_div_bits", f64bits("2.0"), "views.rs try_set_min/max: interval.step / 2.0"))
    ms = re.findall(r"let abs_precision_tolerance = " + F + r" \* interval\.step;", v)
    if len(ms) != 2 or ms[0] != ms[1]:
        sys.stderr.write("gen_consts: abs_precision_tolerance factor: %r\n" % (ms,)); sys.exit(1)
    out.append(("ctx_abs_tol_factor_bits", f64bits(ms[0]), "views.rs abs_precision_tolerance = %s * step" % ms[0]))
    ms = re.findall(r"let rel_precision_tolerance = interval\.(?:max|min)\.abs\(\) \* " + F + ";", v)
    if len(ms) != 2 or ms[0] != ms[1]:
        sys.stderr.write("gen_consts: rel_precision_tolerance factor: %r\n" % (ms,)); sys.exit(1)
    out.append(("ctx_rel_tol_factor_bits", f64bits(ms[0]), "views.rs rel_precision_tolerance = |bound| * %s" % ms[0]))
    m = need("src/variables/core.rs", r"Val::ValF\(f\) => f\.abs\(\) >= f64::EPSILON \* " + F + ",", "Val::is_safe_divisor factor")
    out.append(("safe_div_factor_bits", f64bits(m.group(1)), "variables/core.rs Val::is_safe_divisor: |f| >= f64::EPSILON * %s" % m.group(1)))
    need(UL, r"if value == 0\.0 \{\s*f64::EPSILON", "ulp(0) = EPSILON")
    need(UL, r"0x8000_0000_0000_0001u64", "prev_float(0) bits")
    out.append(("ulp_prev_of_zero_bits", 0x8000000000000001, "ulp_utils.rs prev_float(0.0) bits"))
    m = need(UL, r"\} else if value == 0\.0 \{\s*0x([0-9a-fA-F_]+)u64 // smallest positive", "next_float(+-0) bits")
    out.append(("ulp_next_of_zero_bits", int(m.group(1).replace("_", ""), 16), "ulp_utils.rs next_float(+-0.0) bits"))
    return out

from gen_consts_flin import float_lin_consts

def main():
    defs = []
    m = need("src/variables/domain/sparse_set.rs", r"pub const MAX_SPARSE_SET_DOMAIN_SIZE:\s*u64\s*=\s*([\d_]+);", "MAX_SPARSE_SET_DOMAIN_SIZE")
    defs.append(("max_sparse_set_domain_size", num(m.group(1)), "sparse_set.rs MAX_SPARSE_SET_DOMAIN_SIZE"))
    # --- search engine: limit check interval and memory estimate (search/mod.rs Engine)
    sm = src("src/search/mod.rs")
    ivs = set(re.findall(r"timeout_check_interval:\s*([\d_]+)\s*,", sm))
    if len(ivs) != 1:
        sys.stderr.write("gen_consts: timeout_check_interval initialisers disagree or are missing: %s\n" % ivs); sys.exit(1)
    defs.append(("engine_check_interval", num(ivs.pop()), "search/mod.rs Engine timeout_check_interval"))
    m = need("src/search/mod.rs", r"fn get_memory_usage_mb\(&self\) -> usize \{\s*(?://[^\n]*\s*)*let base_memory_kb = (\d+);.*?self\.stack\.len\(\) \* (\d+);.*?let current_memory_kb = (\d+);.*?\(self\.iteration_count / (\d+)\) \* (\d+);.*?iteration_memory_kb\) / (\d+)\)\.max\((\d+)\)", "Engine::get_memory_usage_mb formula")
    for nm, g in zip(["mem_base_kb", "mem_frame_kb", "mem_current_kb", "mem_iter_div", "mem_iter_kb", "mem_kb_per_mb", "mem_min_mb"], m.groups()):
        defs.append((nm, int(g), "search/mod.rs Engine::get_memory_usage_mb"))
    # --- fluent API: auxiliary variables get computed bounds (expr_bounds); no placeholder may remain
    ra = src("src/runtime_api/mod.rs")
    if re.search(r"// Placeholder bounds", ra):
        sys.stderr.write("gen_consts: runtime_api/mod.rs still creates auxiliary variables with placeholder bounds\n"); sys.exit(1)
    need("src/runtime_api/mod.rs", r"fn expr_bounds\(model: &Model, expr: &ExprBuilder\) -> ExprBounds", "expr_bounds (bounds of auxiliary variables)")
    # --- functions::element on an empty array: the one remaining fixed-range value handle (Model/Routes.v aux_lo / aux_hi)
    m = need("src/constraints/functions.rs", r"None => model\.int\((-?\d+),\s*(-?\d+)\),\s*// empty array", "functions::element empty-array value handle")
    defs.append(("felement_empty_lo", int(m.group(1)), "constraints/functions.rs element(): value handle of an empty array")); defs.append(("felement_empty_hi", int(m.group(2)), "constraints/functions.rs element(): value handle of an empty array"))
    # --- all-different engines
    m = need("src/variables/domain/bitset_domain.rs", r"pub const MAX_BITSET_DOMAIN_SIZE:\s*usize\s*=\s*(\d+);", "MAX_BITSET_DOMAIN_SIZE")
    defs.append(("max_bitset_domain_size", int(m.group(1)), "bitset_domain.rs MAX_BITSET_DOMAIN_SIZE"))
    m = need("src/constraints/gac_bitset.rs", r"if variables\.len\(\) <= (\d+) \{[^\n]*\n\s*for subset_size in 2\.\.=variables\.len\(\)\.min\((\d+)\)", "Hall-set limits")
    defs.append(("hall_max_vars", int(m.group(1)), "gac_bitset.rs Hall sets only for <= this many variables")); defs.append(("hall_max_size", int(m.group(2)), "gac_bitset.rs largest Hall set size"))
    body = "(* GENERATED by tools/gen_consts.py from /repo — do not edit. *)\nRequire Import ZArith.\nOpen Scope Z_scope.\n"
    for name, val, where in defs:
        body += "Definition %s : Z := %d. (* %s *)\n" % (name, val, where)
    body += "(* f64 literals of the float store as IEEE-754 binary64 bit patterns *)\n"
    for name, val, where in float_consts() + float_lin_consts():
        body += "Definition %s : Z := 0x%016x. (* %s *)\n" % (name, val, where)
    old = open(OUT).read() if os.path.exists(OUT) else None
    if old != body:
        os.makedirs(os.path.dirname(OUT), exist_ok=True)
        open(OUT, "w").write(body)
        print("Consts.v rewritten")
    else:
        print("Consts.v unchanged")

if __name__ == "__main__":
    main()
