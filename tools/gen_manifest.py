#!/usr/bin/env python3
"""Writes MANIFEST.json from the table below (one place to keep it valid)."""
import json, os
ROOT = os.path.dirname(os.path.dirname(os.path.abspath(__file__)))
BASE_OFF = "cd /repo && cargo nextest run --workspace --no-fail-fast --tool-config-file pb:/w/lib/nextest.toml --profile pb --test-threads 8 --offline || cargo test --workspace --no-fail-fast --offline"
TB = ("Trusted base: Coq 8.16.1 kernel (+ its vm_compute machine for closed witnesses/finite sweeps; no native_compute); no axioms declared by the development "
      "(Print Assumptions of every property theorem is captured on each run and must be closed or inside the stdlib allowlist named in evidence); "
      "hand-written Gallina model of the anchored Rust code (modelled, not verified) tied by the differential correspondence run on every check "
      "(extraction with ExtrOcamlBasic only, no Extract Constant; OCaml driver; Rust harness built from /repo's working tree with --cfg selen_verif); tools/gen_consts.py constant translator. ")
CHECKS = {
 "C12": dict(text="Integer half proved in Coq for all domains/bounds/sequences: try_set_min/max leave exactly the values on the right side of the bound, fail iff none is left, report a change iff the domain shrank (Properties/C12.v, 9 theorems incl. the bridge to the verified SparseSet model); tied to views.rs Context::try_set_min/max through hook H1 by an exhaustive small-scope + random differential and an independent python judge. Float half: see level_note.",
             note=TB + "PARTIAL: the float half (FloatInterval primitives, float branches of try_set_min/max) is not yet part of this check in the committed state.",
             tech="Coq proofs about the bound setters over abstract domains + refinement bridge to the sparse set + differential through hook H1", ref="6/C12"),
 "C09": dict(text="Exact-rational LP model with certificate checkers proved sound in Coq for all dimensions (weak duality: check_opt => feasible and optimal; Farkas: check_infeasible => no feasible point; certified lp_solve; uniqueness of the optimal value, which is what warm = cold means; verified tolerant feasibility check). The real solver's status/objective/point are judged on every case by those verified, extracted functions (status vs exact status, objective within tolerance of the exact optimum, returned point through feasible_tol, reported objective = c.x, warm vs cold).",
             note=TB + "PARTIAL: the f64/LU arithmetic of lpsolver/* is not modelled (the model is an exact simplex, not a mirror of the pivoting), so the tie is a judged differential, not an operational correspondence; numerical error cannot be exhibited by the model. Three known-finding classes (phase1, warmstart, ratio_test) are listed in known_findings.txt.",
             tech="Coq proofs of LP certificate soundness (weak duality, Farkas) + extracted verified judge applied to the implementation's outputs", ref="6/C09"),
 "C13": dict(text="Coq theorems by induction on view terms, all integer scales/offsets (incl. 0 and negatives), all domains: the view's min/max are the least/greatest image of the domain; try_set_min/max on the view keeps exactly the values whose image satisfies the bound, fails iff none, reports a change iff the domain shrank; smart constructors (times sign dispatch) and the derived postings (sub, lt, gt, ge) denote what they say. Tied to views.rs through hook H1: exhaustive shapes to depth 2 (quick) / 3 (thorough) + random, judged by an independent python oracle.",
             note=TB + "Integer views only (float views are part of the C12-float/C06 work). The TimesPos rounding defect D6 was repaired in /repo (fix commit 1749b6d) and the model reflects the repaired code.",
             tech="Coq induction over view terms (exact bound transformation) + differential through hook H1", ref="6/C13"),
 "C11": dict(text="Refinement theorem (Coq, all histories, all universes): every SparseSet operation sequence incl. stack-disciplined save/restore agrees with a plain mathematical set on every observation; tied to sparse_set.rs by an exhaustive small-scope + seeded random differential of the extracted model against the real SparseSet.",
             note=TB + "Known class D7 (restore after an element-adding union_with) is excluded by hypothesis and refuted by witness; i32/u32 are unbounded Z/nat in the model.",
             tech="Coq refinement proof (sparse set -> mathematical set, induction over op lists) + extracted-model/implementation differential", ref="6/C11"),
}
NA_REASON = "no check is registered for this property yet (the Coq model does not cover its code in the committed state); see DESIGN.md section 6 for the planned theorems"
def main():
    props = [json.loads(l)["id"] for l in open(os.path.join(ROOT, "properties.jsonl"))]
    checks = []
    for pid in props:
        if pid not in CHECKS: continue
        c = CHECKS[pid]
        checks.append({
            "property_id": pid,
            "quick_cmd": "./check %s --tier quick" % pid,
            "thorough_cmd": "./check %s --tier thorough" % pid,
            "evidence_file": "/verif/evidence/%s.json" % pid,
            "replay_cmd_template": "./check %s --replay {path}" % pid,
            "engine": "coq-model+differential",
            "level_claimed": {"category": "proof", "text": c["text"], "design_ref": "DESIGN.md " + c["ref"]},
            "level_note": c["note"],
            "technique": c["tech"],
        })
    m = {
        "version": 1,
        "setup_cmd": "./check --setup",
        "hooks": {
            "guard": "selen_verif",
            "enable": "RUSTFLAGS=\"--cfg selen_verif\" cargo build --offline (harness crate /verif/harness with selen = { path = \"/repo\" })",
            "baseline_off_cmd": BASE_OFF,
            "source_commits": [l.strip() for l in open(os.path.join(ROOT, "hooks_commits.txt")) if l.strip()],
            "add_only": True,
        },
        "engines": [{"name": "coq-model+differential", "path": "/verif/check", "serves_properties": [c["property_id"] for c in checks],
                     "kind_free_text": "Coq 8.16.1 development (coq/) with hand-written executable model, theorems in coq/Properties, extraction to OCaml driver, Rust harness differential"}],
        "checks": checks,
        "not_applicable": [{"property_id": p, "reason": NA_REASON} for p in props if p not in CHECKS],
        "notes": "See DESIGN.md. known_findings.txt lists recorded defects; seeded/ holds confirmed breaking changes used to test the checks.",
    }
    json.dump(m, open(os.path.join(ROOT, "MANIFEST.json"), "w"), indent=1)
if __name__ == "__main__":
    main()
