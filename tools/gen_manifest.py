#!/usr/bin/env python3
"""Writes MANIFEST.json from the table below (one place to keep it valid)."""
import json, os
ROOT = os.path.dirname(os.path.dirname(os.path.abspath(__file__)))
BASE_OFF = "cd /repo && cargo nextest run --workspace --no-fail-fast --tool-config-file pb:/w/lib/nextest.toml --profile pb --test-threads 8 --offline || cargo test --workspace --no-fail-fast --offline"
TB = ("Trusted base: Coq 8.16.1 kernel (+ its vm_compute machine for closed witnesses/finite sweeps; no native_compute); no axioms declared by the development "
      "(Print Assumptions of every property theorem is captured on each run and must be closed or inside the stdlib allowlist named in evidence); "
      "hand-written Gallina model of the anchored Rust code (modelled, not verified) tied by the differential correspondence run on every check "
      "(extraction with ExtrOcamlBasic only, no Extract Constant; OCaml driver; Rust harness built from /repo's working tree with --cfg selen_verif); tools/gen_consts.py constant translator. ")
# the per-property texts live in tools/manifest_checks.json (id -> {text, note, tech, ref}); edit that file
CHECKS = json.load(open(os.path.join(ROOT, "tools", "manifest_checks.json")))
NA_REASON = "no check is registered for this property yet (the Coq model does not cover its code in the committed state); see DESIGN.md section 6 for the planned theorems"
def main():
    props = [json.loads(l)["id"] for l in open(os.path.join(ROOT, "properties.jsonl"))]
    checks = []
    for pid in props:
        if pid not in CHECKS: continue
        c = CHECKS[pid]
        checks.append({
            "property_id": pid,
            "quick_cmd": "./check %s --tier quick" % pid,
            "thorough_cmd": "./check %s --tier thorough" % pid,
            "evidence_file": "/verif/evidence/%s.json" % pid,
            "replay_cmd_template": "./check %s --replay {path}" % pid,
            "engine": "coq-model+differential",
            "level_claimed": {"category": "proof", "text": c["text"], "design_ref": "DESIGN.md " + c["ref"]},
            "level_note": c["note"],
            "technique": c["tech"],
        })
    m = {
        "version": 1,
        "setup_cmd": "./check --setup",
        "hooks": {
            "guard": "selen_verif",
            "enable": "RUSTFLAGS=\"--cfg selen_verif\" cargo build --offline (harness crate /verif/harness with selen = { path = \"/repo\" })",
            "baseline_off_cmd": BASE_OFF,
            "source_commits": [l.strip() for l in open(os.path.join(ROOT, "hooks_commits.txt")) if l.strip()],
            "add_only": True,
        },
        "engines": [{"name": "coq-model+differential", "path": "/verif/check", "serves_properties": [c["property_id"] for c in checks],
                     "kind_free_text": "Coq 8.16.1 development (coq/) with hand-written executable model, theorems in coq/Properties, extraction to OCaml driver, Rust harness differential"}],
        "checks": checks,
        "not_applicable": [{"property_id": p, "reason": NA_REASON} for p in props if p not in CHECKS],
        "notes": "See DESIGN.md. known_findings.txt lists recorded defects; seeded/ holds confirmed breaking changes used to test the checks.",
    }
    json.dump(m, open(os.path.join(ROOT, "MANIFEST.json"), "w"), indent=1)
if __name__ == "__main__":
    main()
