#!/bin/bash
# tools/seed_confirm.sh <ID> <worktree> : confirm a seeded change in its scratch worktree
#   (suite green with the change, demo red with it, demo green without it) and file it under seeded/<ID>/
set -u
ID=$1; WT=$2; OUT=/verif/seeded/$ID
mkdir -p $OUT
cp $WT/seeded_out/patch.diff $WT/seeded_out/seeded_demo.rs $OUT/ || exit 2
cp $WT/seeded_out/meta.json $OUT/agent_meta.json
cd $WT || exit 2
git checkout -q -- src 2>/dev/null
rm -f tests/seeded_demo.rs
git checkout -q --detach $(git -C /repo rev-parse HEAD)   # confirm against the CURRENT /repo HEAD (repairs may have landed since the agent started)
export CARGO_TARGET_DIR=$WT/target CARGO_NET_OFFLINE=true
git apply $OUT/patch.diff || { echo "patch does not apply"; exit 2; }
SUITE=$(cargo nextest run --workspace --no-fail-fast --offline 2>&1 | grep -E "Summary" | tail -1)
cp $OUT/seeded_demo.rs tests/seeded_demo.rs
DEMO_WITH=$(cargo test --offline --test seeded_demo 2>&1 | grep -E "^test result" | tail -1)
git apply -R $OUT/patch.diff
DEMO_WITHOUT=$(cargo test --offline --test seeded_demo 2>&1 | grep -E "^test result" | tail -1)
rm -f tests/seeded_demo.rs
git apply $OUT/patch.diff   # leave the change applied for VERIF_REPO pre-testing
echo "suite with change:   $SUITE"
echo "demo with change:    $DEMO_WITH"
echo "demo without change: $DEMO_WITHOUT"
python3 - "$ID" "$SUITE" "$DEMO_WITH" "$DEMO_WITHOUT" <<'PY'
import json, sys
ID, suite, dw, dwo = sys.argv[1:5]
a = json.load(open('/verif/seeded/%s/agent_meta.json' % ID))
meta = {"property": a.get("property", ID.split("_")[0]), "summary": a.get("summary"), "needs": a.get("needs"),
        "confirmed": {"suite_with_change": suite, "demo_with_change": dw, "demo_without_change": dwo},
        "agent_ran": a.get("ran")}
json.dump(meta, open('/verif/seeded/%s/meta.json' % ID, 'w'), indent=1)
PY
rm -f $OUT/agent_meta.json
