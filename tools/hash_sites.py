#!/usr/bin/env python3
"""Inventory of places where selen ITERATES a HashMap/HashSet (the only way hash seeds could reach a result).
usage: hash_sites.py [--write]   prints one site per line: file|ident|normalised statement
The committed, reviewed inventory is /verif/hash_inventory.txt (site|classification|reason)."""
import os, re, sys
REPO = os.environ.get("VERIF_REPO", "/repo")
FILES = ["src/model/core.rs", "src/core/validation.rs", "src/constraints/gac_bitset.rs", "src/constraints/gac_hybrid.rs",
         "src/constraints/gac_sparseset.rs", "src/optimization/constraint_metadata.rs", "src/variables/core.rs",
         "src/constraints/props/mod.rs", "src/constraints/props/alldiff.rs", "src/search/mod.rs", "src/search/agenda.rs",
         "src/search/branch.rs", "src/search/mode.rs", "src/runtime_api/mod.rs", "src/lpsolver/csp_integration.rs",
         "src/model/factory_internal.rs", "src/constraints/functions.rs", "src/solvers/sudoku.rs"]
DECL = re.compile(r"(?:let\s+(?:mut\s+)?|pub\s+|^\s*)(\w+)\s*(?::\s*[^=;]*?)?(?:=\s*)?(?:std::collections::)?Hash(?:Map|Set)\b")
FIELD = re.compile(r"^\s*(?:pub(?:\([a-z]+\))?\s+)?(\w+)\s*:\s*(?:&\s*(?:mut\s+)?)?(?:std::collections::)?Hash(?:Map|Set)<")
def strip_tests(src):
    i = src.find("#[cfg(test)]")
    return src if i < 0 else src[:i]
def sites():
    out = []
    for rel in FILES:
        p = os.path.join(REPO, rel)
        if not os.path.exists(p): continue
        src = strip_tests(open(p).read())
        lines = [l for l in src.splitlines()]
        idents = set()
        for l in lines:
            if l.strip().startswith("//"): continue
            m = FIELD.match(l)
            if m: idents.add(m.group(1))
            for m in re.finditer(r"let\s+(?:mut\s+)?(\w+)\s*(?::[^=]*)?=\s*(?:std::collections::)?Hash(?:Map|Set)(?:::|<)", l):
                idents.add(m.group(1))
            for m in re.finditer(r"let\s+(?:mut\s+)?(\w+)\s*:\s*(?:std::collections::)?Hash(?:Map|Set)<", l):
                idents.add(m.group(1))
            for m in re.finditer(r"(\w+)\s*:\s*&\s*(?:mut\s+)?(?:std::collections::)?Hash(?:Map|Set)<", l):
                idents.add(m.group(1))
        for l in lines:
            s = l.strip()
            if s.startswith("//") or not s: continue
            for ident in idents:
                pat = r"(?:self\.)?\b%s\b" % re.escape(ident)
                if re.search(r"\bfor\b[^{;]*\bin\b[^{;]*" + pat, s) or \
                   re.search(pat + r"\s*\.\s*(iter|iter_mut|keys|values|values_mut|drain|into_iter|into_keys|into_values|retain)\s*\(", s):
                    out.append("%s|%s|%s" % (rel, ident, re.sub(r"\s+", " ", s)))
    return sorted(set(out))
if __name__ == "__main__":
    for s in sites(): print(s)
