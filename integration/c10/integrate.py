#!/usr/bin/env python3
"""Apply the C10 integration edits to the shared files of a /verif tree (idempotent)."""
import sys, os
root = sys.argv[1] if len(sys.argv) > 1 else "/verif"
def edit(rel, fn):
    p = os.path.join(root, rel); s = open(p).read(); t = fn(s)
    if t != s: open(p, "w").write(t); print("edited", rel)
def coqproject(s):
    for line in ["Model/Api.v", "Model/Lower.v", "Proofs/LowerProofs.v", "Proofs/LowerSolve.v", "Properties/C10.v"]:
        if line not in s.split("\n"):
            s = s.rstrip("\n") + "\n" + line + "\n"
    return s
def extract(s):
    if "Selen.Model.Lower" in s: return s
    s = s.replace("Extraction Language OCaml.", "Require Import Selen.Model.Api Selen.Model.Lower.\nExtraction Language OCaml.", 1)
    s = s.replace("  mkLP lp_wf", "  fold fold_cons eval_expr eval_cons holds stmt_cons build lower validate psat to_linear linform\n"
                  "  kf_or_not kf_nested_ne kf_aux_bounds win_cons impl_cons exec_cons all_asgs asg_of_list or_eq_pattern\n  mkLP lp_wf", 1)
    return s
def order(s):
    return s if "mlevel_cmd.ml" in s else s.replace("driver.ml", "mlevel_cmd.ml\ndriver.ml")
def driver(s):
    if "Mlevel_cmd" in s: return s
    return s.replace('    | "lp" -> Lp_cmd.run_case', '    | "lower" -> Mlevel_cmd.run_lower\n    | "msolve" -> Mlevel_cmd.run_msolve\n    | "mspell" -> Mlevel_cmd.run_mspell\n    | "lp" -> Lp_cmd.run_case', 1)
def mainrs(s):
    if "mod mlevel;" in s: return s
    s = s.replace("mod lp;\n", "mod lp;\nmod mlevel;\n", 1)
    s = s.replace('"lp" => lp::run_case,', '"lp" => lp::run_case,\n        "lower" => mlevel::run_lower,\n        "msolve" => mlevel::run_msolve,\n        "mspell" => mlevel::run_mspell,', 1)
    return s
edit("coq/_CoqProject", coqproject)
edit("coq/Extract/Extract.v", extract)
edit("ocaml/ORDER", order)
edit("ocaml/driver.ml", driver)
edit("harness/src/main.rs", mainrs)
