(* C12 (float half) — bound tightening on float variables is outward-safe; FloatInterval primitives
   stay inside the interval and are monotone.  Only statements live here; each is closed by `exact`
   of a lemma from Proofs/FloatIntervalProofs.v.  All statements are about the bit-exact binary64
   model (Model/B64.v over Flocq) of float_interval.rs / views.rs.

   Vocabulary:  wf_b i        finite min/max/step, min <= max, 0 < step        (executable)
                magn_b i v    wf + finite v + 2^-60 <= step <= 2^60 + |min|,|max|,|v| <= 2^50*step
                inside i r    r finite and  min <= r <= max  (as decided by the f64 comparisons)
                no_widen i i' step unchanged, min <= min', max' <= max
                R_ x          the real value of a finite f64
   m50 = 2^-50, p50 = 2^50. *)
From Coq Require Import ZArith Bool Reals List Lia.
From Flocq Require Import Core.Core IEEE754.BinarySingleNaN IEEE754.Binary IEEE754.Bits.
Require Import Selen.Model.B64 Selen.Model.FloatInterval Selen.Model.CtxFloat.
Require Import Selen.Proofs.B64Facts Selen.Proofs.UlpBits Selen.Proofs.FloatIntervalProofs.
Open Scope R_scope.

(* ---------------------------------------------------------------- fi_prims_inside *)
(* round_to_step / floor_to_step / ceil_to_step / mid never panic and return a finite value in
   [min,max], for EVERY non-NaN argument (finite or infinite), every well-formed interval. *)
Theorem fi_prims_inside : forall i v, wf_b i = true -> fis_nan v = false ->
  (exists r, fi_round_to_step i v = Some r /\ inside i r) /\
  (exists r, fi_floor_to_step i v = Some r /\ inside i r) /\
  (exists r, fi_ceil_to_step i v = Some r /\ inside i r) /\
  (exists r, fi_mid i = Some r /\ inside i r).
Proof. intros i v W N. apply wf_b_wf in W.
  exact (conj (fi_round_inside i v W N) (conj (fi_floor_inside i v W N) (conj (fi_ceil_inside i v W N) (fi_mid_inside i W)))). Qed.
Print Assumptions fi_prims_inside.

(* fi_next_prev_mono: for every finite x in [min,max], prev(x) is finite, inside [min,max] and
   <= x; next(x) is finite, inside and >= x.  (Until /repo aed2bd1 next(-0.0) with step < ulp(-0.0) =
   f64::EPSILON was the exception: UlpUtils::next_float(-0.0) returned -5e-324; repaired, see
   fi_next_at_neg_zero below for the former witness.)  Both code paths are covered: `x +- step`
   (rounding monotonicity) and UlpUtils::next_float/prev_float = from_bits(to_bits(x) +- 1)
   (bit-level argument in Proofs/UlpBits.v).  Monotonicity in x (x <= y -> next x <= next y) is NOT
   proved (the branch taken depends on ulp(x) vs step). *)
Theorem fi_next_prev_mono : forall i x, wf_b i = true -> fis_finite x = true ->
  fle (imin i) x = true -> fle x (imax i) = true ->
  (inside i (fi_next i x) /\ fle x (fi_next i x) = true) /\
  inside i (fi_prev i x) /\ fle (fi_prev i x) x = true.
Proof. intros i x W F L1 L2. apply wf_b_wf in W. split.
  - exact (fi_next_full i x W F L1 L2).
  - exact (fi_prev_full i x W F L1 L2). Qed.
Print Assumptions fi_next_prev_mono.

(* UlpUtils::next_float / prev_float on finite inputs: never NaN, strictly above / below the argument
   (next_float(f64::MAX) = +inf, prev_float(f64::MIN) = -inf, prev_float(+-0.0) = -5e-324,
   next_float(+-0.0) = 5e-324). *)
Theorem ulp_next_prev_float_strict : forall x, fis_finite x = true ->
  fcmp x (next_float x) = Some Lt /\ fcmp (prev_float x) x = Some Lt.
Proof. intros x F. split. exact (UlpBits.next_float_gt x F). exact (UlpBits.prev_float_lt x F). Qed.
Print Assumptions ulp_next_prev_float_strict.

(* ---------------------------------------------------------------- fi_remove_below_above_no_widen *)
(* remove_below / remove_above never panic, never widen (also when they empty the interval:
   the "empty" encoding max := min - 1 keeps min and lowers max), for every non-NaN threshold. *)
Theorem fi_remove_below_above_no_widen : forall i th, wf_b i = true -> fis_nan th = false ->
  (exists i', fi_remove_below i th = Some i' /\ no_widen i i') /\
  (exists i', fi_remove_above i th = Some i' /\ no_widen i i').
Proof. intros i th W N. apply wf_b_wf in W.
  exact (conj (fi_remove_below_no_widen i th W N) (fi_remove_above_no_widen i th W N)). Qed.
Print Assumptions fi_remove_below_above_no_widen.

(* ---------------------------------------------------------------- int bound on a float variable *)
(* (VarF,ValI): no rounding is involved, so everything holds for ALL finite inputs (no Magn):
   never widens, the other bound is untouched, event iff the interval changed, the new bound is the
   integer itself, failure only when nothing is left.  The non-inversion guarantee is only
   "min <= max + step/2" (resp. "max >= min - step/2") — see tsm_f_no_invert_exact_refuted. *)
Theorem tsm_fi_spec : forall i c i' ev, wf_b i = true -> fis_finite (f64_of_Z c) = true ->
  (tsmin_fi i c = Some (i', ev) ->
     no_widen i i' /\ imax i' = imax i /\ fis_finite (imin i') = true /\
     fgt (imin i') (fadd (imax i') (ctx_tol i')) = false /\ (ev = true <-> i' <> i) /\ (ev = true -> imin i' = f64_of_Z c)) /\
  (tsmax_fi i c = Some (i', ev) ->
     no_widen i i' /\ imin i' = imin i /\ fis_finite (imax i') = true /\
     flt (imax i') (fsub (imin i') (ctx_tol i')) = false /\ (ev = true <-> i' <> i) /\ (ev = true -> imax i' = f64_of_Z c)) /\
  (tsmin_fi i c = None -> R_ (imax i) < R_ (f64_of_Z c)) /\
  (tsmax_fi i c = None -> R_ (f64_of_Z c) < R_ (imin i)).
Proof. intros i c i' ev W F. apply wf_b_wf in W. unfold tsmin_fi, tsmax_fi.
  exact (conj (tsmin_fv_spec i _ i' ev W F) (conj (tsmax_fv_spec i _ i' ev W F) (conj (tsmin_fv_fail i _ W F) (tsmax_fv_fail i _ W F)))). Qed.
Print Assumptions tsm_fi_spec.

(* ---------------------------------------------------------------- float bound on a float variable *)
(* tsm_f_no_invert: for ALL finite inputs (no magnitude hypothesis) a successful (VarF,ValF)
   try_set_min / try_set_max leaves min <= max EXACTLY (the clamp), never touches the step nor the
   opposite bound, never produces a NaN bound, and reports no event only if nothing changed. *)
Theorem tsm_f_no_invert : forall i v i' ev, wf_b i = true -> fis_finite v = true ->
  (tsmin_ff i v = Some (i', ev) ->
     istep i' = istep i /\ imax i' = imax i /\ fis_nan (imin i') = false /\ fle (imin i') (imax i') = true /\ (ev = false -> i' = i)) /\
  (tsmax_ff i v = Some (i', ev) ->
     istep i' = istep i /\ imin i' = imin i /\ fis_nan (imax i') = false /\ fle (imin i') (imax i') = true /\ (ev = false -> i' = i)).
Proof. intros i v i' ev W F. apply wf_b_wf in W.
  exact (conj (tsmin_ff_order i v i' ev W F) (tsmax_ff_order i v i' ev W F)). Qed.
Print Assumptions tsm_f_no_invert.

(* tsm_f_no_widen + tsm_f_event_iff_changed + tsm_f_loss_le_step for try_set_min, under Magn:
   never widens, max untouched, new min finite, event IFF the interval changed, and the new min is
   either the old min or at most v + step*(1+2^-50) + |v|*2^-50  ("never removes a value >= v beyond
   one step"). *)
Theorem tsm_f_min_magn : forall i v i' ev, magn_b i v = true -> tsmin_ff i v = Some (i', ev) ->
  no_widen i i' /\ imax i' = imax i /\ fis_finite (imin i') = true /\ (ev = true <-> i' <> i) /\
  (R_ (imin i') <= R_ (imin i) \/ R_ (imin i') <= R_ v + R_ (istep i) * (1 + m50) + Rabs (R_ v) * m50).
Proof. exact tsmin_ff_magn. Qed.
Print Assumptions tsm_f_min_magn.

(* Same for try_set_max (the quantization-mismatch branch views.rs:383-392, which sets max := min and
   always pushes an event, is shown unreachable with max already equal to min: the early return at
   views.rs:372 fires first). *)
Theorem tsm_f_max_magn : forall i v i' ev, magn_b i v = true -> tsmax_ff i v = Some (i', ev) ->
  no_widen i i' /\ imin i' = imin i /\ fis_finite (imax i') = true /\ (ev = true <-> i' <> i) /\
  (R_ (imax i) <= R_ (imax i') \/ R_ v - R_ (istep i) * (1 + m50) - Rabs (R_ v) * m50 <= R_ (imax i')).
Proof. exact tsmax_ff_magn. Qed.
Print Assumptions tsm_f_max_magn.

(* ---------------------------------------------------------------- sequences of tightenings *)
(* Any sequence of try_set_min / try_set_max calls with FLOAT bounds, each bound inside Magn w.r.t. the
   INITIAL interval: the run (as far as it succeeds) ends in a well-formed interval (finite, min <= max)
   that is not wider than the initial one, one event flag per call, and no event at all only if the
   interval is unchanged.  (Magn is an invariant of the run; int bounds are excluded because they can
   leave an inverted interval, see tsm_f_no_invert_exact_refuted.) *)
Theorem tsm_f_seq : forall l i i' evs, wf_b i = true ->
  forallb (fun o => fop_is_float o && magn_op_b i o) l = true ->
  fop_run i l = Some (i', evs) ->
  (fis_finite (imin i') = true /\ fis_finite (imax i') = true /\ fle (imin i') (imax i') = true) /\
  no_widen i i' /\ length evs = length l /\ (existsb (fun e => e) evs = false -> i' = i).
Proof. intros l i i' evs W Hall Hrun. apply wf_b_wf in W.
  destruct (FloatIntervalProofs.tsm_f_seq l i i' evs W Hall Hrun) as (W' & N & L & E).
  split; [|auto]. destruct W' as (A & B & _ & D & _). repeat split; auto. now apply fle_fin. Qed.
Print Assumptions tsm_f_seq.

(* ---------------------------------------------------------------- float bound on an int variable *)
(* (VarI,ValF), views.rs:275/450: `min_f.ceil() as i32`, `max_f.floor() as i32` in terms of the real
   value of the bound: exact ceiling / floor, saturated to the i32 range; NaN -> 0; +-inf saturate. *)
Theorem tsm_if_conversion :
  (forall v, fis_finite v = true ->
     ceil_as_i32 v = Z.max i32_lo (Z.min i32_hi (Zceil (R_ v))) /\
     floor_as_i32 v = Z.max i32_lo (Z.min i32_hi (Zfloor (R_ v)))) /\
  (forall v, fis_nan v = true -> ceil_as_i32 v = 0%Z /\ floor_as_i32 v = 0%Z) /\
  ceil_as_i32 (Binary.B754_infinity 53 1024 false) = i32_hi /\ floor_as_i32 (Binary.B754_infinity 53 1024 false) = i32_hi /\
  ceil_as_i32 (Binary.B754_infinity 53 1024 true) = i32_lo /\ floor_as_i32 (Binary.B754_infinity 53 1024 true) = i32_lo.
Proof. split. intros v F. exact (conj (ceil_as_i32_fin v F) (floor_as_i32_fin v F)). exact ceil_floor_as_i32_special. Qed.
Print Assumptions tsm_if_conversion.

(* i32 as f64 is exact, so the hypothesis `fis_finite (f64_of_Z c)` of tsm_fi_spec holds for every i32 *)
Theorem f64_of_i32_exact : forall c, (i32_lo <= c <= i32_hi)%Z -> fis_finite (f64_of_Z c) = true /\ R_ (f64_of_Z c) = IZR c.
Proof. intros c H. apply f64_of_Z_exact. unfold i32_lo, i32_hi in H. change (2 ^ 53)%Z with 9007199254740992%Z. lia. Qed.
Print Assumptions f64_of_i32_exact.

(* ---------------------------------------------------------------- refutations outside the hypotheses *)
(* The unrestricted statements ("for all finite inputs") are FALSE for the code.  Witnesses are
   stated through bit patterns (to_bits); fff0000000000000 = -inf, 7ff0000000000000 = +inf. *)

(* no_widen: [-1e301, 0] step 1e-12, try_set_min(-1e300): v/step overflows, min becomes -inf;
   mirrored for try_set_max: max becomes +inf.  Finite interval, finite bound, positive step. *)
Theorem tsm_f_no_widen_refuted :
  (exists i v i', wf_b i = true /\ fis_finite v = true /\ tsmin_ff i v = Some (i', true) /\
                  to_bits (imin i) = 0xfe6ddd4baa009303%Z /\ to_bits (imin i') = 0xfff0000000000000%Z) /\
  (exists i v i', wf_b i = true /\ fis_finite v = true /\ tsmax_ff i v = Some (i', true) /\
                  to_bits (imax i) = 0x7e6ddd4baa009303%Z /\ to_bits (imax i') = 0x7ff0000000000000%Z).
Proof. split.
  - destruct w1_ok as (A & B & C). destruct (obs_some _ _ _ _ _ _ C) as (j & E & E1 & _).
    exists w1_i, w1_v, j. repeat split; auto.
  - destruct w2_ok as (A & B & C). destruct (obs_some _ _ _ _ _ _ C) as (j & E & _ & E2 & _).
    exists w2_i, w2_v, j. repeat split; auto. Qed.
Print Assumptions tsm_f_no_widen_refuted.

(* event_iff_changed: an event is pushed although min, max and step are bitwise unchanged
   (|v| ~ 2^56 * step: floor(v/step)*step rounds back onto the old max). *)
Theorem tsm_f_event_iff_changed_refuted :
  exists i v i', wf_b i = true /\ fis_finite v = true /\ tsmax_ff i v = Some (i', true) /\
    to_bits (imin i') = to_bits (imin i) /\ to_bits (imax i') = to_bits (imax i) /\ to_bits (istep i') = to_bits (istep i).
Proof. destruct w3_ok as (A & B & C). destruct (obs_some _ _ _ _ _ _ C) as (j & E & E1 & E2 & E3 & _).
  exists w3_i, w3_v, j. repeat split; auto. Qed.
Print Assumptions tsm_f_event_iff_changed_refuted.

(* loss_le_step: with a subnormal step, v/step = +inf, inf*step = +inf, clamped to max: min jumps
   from below v = 0.0415 to max = 0.0574, far more than 100 steps above v. *)
Theorem tsm_f_loss_le_step_refuted :
  exists i v i', wf_b i = true /\ fis_finite v = true /\ tsmin_ff i v = Some (i', true) /\
    to_bits (imin i') = to_bits (imax i) /\
    flt (fadd v (fmul (of_bits 0x4059000000000000) (istep i))) (imax i) = true.
Proof. destruct w4_ok as (A & B & C & D). destruct (obs_some _ _ _ _ _ _ C) as (j & E & E1 & _).
  exists w4_i, w4_v, j. repeat split; auto. Qed.
Print Assumptions tsm_f_loss_le_step_refuted.

(* no_invert (exact form), INSIDE Magn: x in [0, 0.9999] step 1e-3, try_set_min(x, 1 : int)
   succeeds and leaves [1.0, 0.9999]: min > max without failing (accepted because 1 <= max + step/2). *)
Theorem tsm_f_no_invert_exact_refuted :
  exists i c i', wf_b i = true /\ magn_b i (f64_of_Z c) = true /\ tsmin_fi i c = Some (i', true) /\ fgt (imin i') (imax i') = true.
Proof. destruct w5_ok as (A & B & C). destruct (obs_some _ _ _ _ _ _ C) as (j & E & _ & _ & _ & G).
  exists w5_i, 1%Z, j. repeat split; auto. Qed.
Print Assumptions tsm_f_no_invert_exact_refuted.

(* the former witness of fi_next_prev_mono_refuted (next(-0.0) in [0,1], step 1e-17, went to -5e-324):
   on the repaired code the call returns 5e-324, inside the interval and above its argument. *)
Theorem fi_next_at_neg_zero :
  exists i x, wf_b i = true /\ fle (imin i) x = true /\ fle x (imax i) = true /\
    to_bits x = 0x8000000000000000%Z /\ flt (istep i) (ulp_of x) = true /\
    to_bits (fi_next i x) = 1%Z /\ flt x (fi_next i x) = true /\ fle (imin i) (fi_next i x) = true.
Proof. destruct w6_ok as (A & B & C & D & E & F & G & H). exists w6_i, w6_v. repeat split; auto. Qed.
Print Assumptions fi_next_at_neg_zero.

(* ---------------------------------------------------------------- non-vacuity *)
(* [-2.5, 10.5] with the default step 1e-6 and v = pi satisfy every hypothesis above (wf_b, magn_b),
   and both tightenings really move the bound (to 3.14159300000000018 / 3.14159199999999993). *)
Example c12f_hypotheses_inhabited :
  wf_b ex_iv = true /\ magn_b ex_iv ex_v = true /\
  obs (tsmin_ff ex_iv ex_v) = Some (0x400921fb82c2bd7f, 0x4025000000000000, 0x3eb0c6f7a0b5ed8d, true, false)%Z /\
  obs (tsmax_ff ex_iv ex_v) = Some (0xc004000000000000, 0x400921fafc8b0079, 0x3eb0c6f7a0b5ed8d, true, false)%Z.
Proof. exact ex_ok. Qed.
