(* C16 — solving is deterministic.  The executable model is a function of the declarations and
   postings, so the modelled path is deterministic by construction; what has to be shown is that
   the places where the CODE iterates a hash container (inventory: tools/hash_sites.py,
   hash_inventory.txt) compute order-independent results.  Statements only. *)
Require Import Selen.Model.Prelude Selen.Model.Dom Selen.Model.PropDefs Selen.Model.Propagate Selen.Model.Search Selen.Model.EngineSpec.
Require Import Selen.Proofs.DeterminismProofs Selen.Proofs.Props.BasicProofs Selen.Proofs.EngineProofs.
Require Import Coq.Sorting.Permutation.

(* removing a hash SET of values from a domain, in any iteration order *)
Theorem removal_order_irrelevant : forall vs vs' d,
  Permutation vs vs' -> remove_each vs d = remove_each vs' d.
Proof. exact DeterminismProofs.removal_order_irrelevant. Qed.
Print Assumptions removal_order_irrelevant.

(* collecting a hash set / the keys of a hash map and then sorting (and de-duplicating) *)
Theorem collect_sort_order_irrelevant : forall l l', Permutation l l' -> zsort l = zsort l'.
Proof. exact DeterminismProofs.collect_sort_order_irrelevant. Qed.
Print Assumptions collect_sort_order_irrelevant.

(* an iteration whose body has no effect and no early exit *)
Theorem effect_free_loop : forall (A S : Type) (l l' : list A) (s : S),
  fold_left (fun st _ => st) l s = fold_left (fun st _ => st) l' s.
Proof. exact DeterminismProofs.effect_free_loop. Qed.
Print Assumptions effect_free_loop.

(* and whatever order propagators are run in, the solution set, verdict and optimum are the same
   (C14): an order source that only perturbed scheduling could change the yielded ORDER at most *)
Theorem scheduling_cannot_change_results : forall pick1 pick2 ps s l1 b1 l2 b2,
  Forall good ps -> scoped ps (length s) -> wf_store s ->
  enumerate pick1 ps s = SOk l1 b1 -> enumerate pick2 ps s = SOk l2 b2 ->
  forall t, In t l1 <-> In t l2.
Proof.
  intros pick1 pick2 ps s l1 b1 l2 b2 Hg Hs Hw H1 H2.
  exact (EngineProofs.order_independent BasicProofs.mk_leq_good BasicProofs.mk_gt_good BasicProofs.mk_lt_good
           pick1 pick2 ps ps s l1 b1 l2 b2 Hg Hs Hw (Permutation_refl ps) H1 H2).
Qed.
Print Assumptions scheduling_cannot_change_results.
