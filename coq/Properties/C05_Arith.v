(* C05, group Arith: abs, min, max, mul, modulo (Model/Props/Arith.v).
   Versions: `mk_minof`, `mk_maxof`, `mk_mod` are the REPAIRED sources (fixes/minmax_step6.patch,
   fixes/modulo_sound.patch); `mk_abs`, `mk_mul` are unchanged by the patches; the `_prefix`
   records are the sources at the pinned commit, for which `sound` (and for modulo `checking`) is
   refuted on concrete witnesses (D2, D4 and three further Modulo defects). *)
Require Import Selen.Model.Prelude Selen.Model.Dom Selen.Model.Views Selen.Model.PropDefs
  Selen.Model.Props.Basic Selen.Model.Props.Arith.
Require Selen.Proofs.Props.ArithProofs Selen.Proofs.Props.ArithMulProofs Selen.Proofs.Props.ArithModProofs.

Theorem C05_abs_good : forall x s, view_ok x -> good (mk_abs x s).
Proof. exact ArithProofs.mk_abs_good. Qed.
Print Assumptions C05_abs_good.

Theorem C05_mul_good : forall x y s, view_ok x -> view_ok y -> good (mk_mul x y s).
Proof. exact ArithMulProofs.mk_mul_good. Qed.
Print Assumptions C05_mul_good.

Theorem C05_minof_good : forall xs r, xs <> [] -> good (mk_minof xs r).
Proof. exact ArithProofs.mk_minof_good. Qed.
Print Assumptions C05_minof_good.

Theorem C05_maxof_good : forall xs r, xs <> [] -> good (mk_maxof xs r).
Proof. exact ArithProofs.mk_maxof_good. Qed.
Print Assumptions C05_maxof_good.

Theorem C05_mod_good : forall x y s, view_ok x -> view_ok y -> good (mk_mod x y s).
Proof. exact ArithModProofs.mk_mod_good. Qed.
Print Assumptions C05_mod_good.

(* pinned sources *)
Theorem C05_minof_prefix_sound_refuted : exists xs r, xs <> [] /\ ~ sound (mk_minof_prefix xs r).
Proof. exact ArithProofs.mk_minof_prefix_sound_refuted. Qed.
Print Assumptions C05_minof_prefix_sound_refuted.

Theorem C05_maxof_prefix_sound_refuted : exists xs r, xs <> [] /\ ~ sound (mk_maxof_prefix xs r).
Proof. exact ArithProofs.mk_maxof_prefix_sound_refuted. Qed.
Print Assumptions C05_maxof_prefix_sound_refuted.

Theorem C05_mod_prefix_sound_refuted : exists x y s, view_ok x /\ view_ok y /\ ~ sound (mk_mod_prefix x y s).
Proof. exact ArithProofs.mk_mod_prefix_sound_refuted. Qed.
Print Assumptions C05_mod_prefix_sound_refuted.

Theorem C05_mod_prefix_sound_refuted_case3 : ~ sound (mk_mod_prefix (VVar 0) (VVar 1) 2).
Proof. exact ArithProofs.mk_mod_prefix_sound_refuted_case3. Qed.
Print Assumptions C05_mod_prefix_sound_refuted_case3.

Theorem C05_mod_prefix_sound_refuted_case4 : ~ sound (mk_mod_prefix (VVar 0) (VVar 1) 2).
Proof. exact ArithProofs.mk_mod_prefix_sound_refuted_case4. Qed.
Print Assumptions C05_mod_prefix_sound_refuted_case4.

Theorem C05_mod_prefix_checking_refuted : exists x y s, view_ok x /\ view_ok y /\ ~ checking (mk_mod_prefix x y s).
Proof. exact ArithProofs.mk_mod_prefix_checking_refuted. Qed.
Print Assumptions C05_mod_prefix_checking_refuted.

(* outside the decidable known classes a call of the pinned code equals a call of the repaired code *)
Theorem C05_kf_min_step6_complement : forall xs r c,
  kf_min_step6 xs r c = false -> prune_min_prefix xs r c = prune_min xs r c.
Proof. exact ArithProofs.kf_min_step6_complement. Qed.
Print Assumptions C05_kf_min_step6_complement.

Theorem C05_kf_max_step6_complement : forall xs r c,
  kf_max_step6 xs r c = false -> prune_max_prefix xs r c = prune_max xs r c.
Proof. exact ArithProofs.kf_max_step6_complement. Qed.
Print Assumptions C05_kf_max_step6_complement.

Theorem C05_kf_mod_prefix_complement : forall x y s c,
  kf_mod_prefix x y s c = false -> prune_mod_prefix x y s c = prune_mod x y s c.
Proof. exact ArithProofs.kf_mod_prefix_complement. Qed.
Print Assumptions C05_kf_mod_prefix_complement.

(* non-vacuity: hole-y, negative domains on which each propagator prunes *)
Example C05_arith_nonvacuous :
  prune (mk_mul (VVar 0) (VVar 1) 2) ([[-3; 2; 4]; [2; 5]; [7; 8; 12; 30]], []) = Some ([[2; 4]; [2; 5]; [7; 8; 12]], [2%nat; 0%nat])
  /\ prune (mk_mod (VVar 0) (VVar 1) 2) ([[-7; -6; -5]; [3]; [-5; -1; 0; 4]], []) = Some ([[-7; -6; -5]; [3]; [-1; 0]], [2%nat; 2%nat])
  /\ prune (mk_abs (VVar 0) 1) ([[-5; -2; 4]; [-3; 1; 3; 9]], []) = Some ([[-2]; [1; 3]], [1%nat; 1%nat; 0%nat; 0%nat])
  /\ prune (mk_minof [0%nat; 1%nat] 2) ([[1; 4; 10]; [5]; [-2; 0; 3; 5; 7]], []) = Some ([[4; 10]; [5]; [3; 5]], [2%nat; 2%nat; 0%nat])
  /\ prune (mk_maxof [0%nat; 1%nat] 2) ([[1; 4; 10]; [5]; [-2; 0; 3; 5; 7]], []) = Some ([[1; 4]; [5]; [5; 7]], [2%nat; 0%nat]).
Proof. vm_compute. repeat split. Qed.
