(* C18 — the specialised Sudoku solver returns a valid completion whenever one exists.
   Model: coq/Model/Sudoku.v (literal transcription of src/solvers/sudoku.rs: the range test of `solve`
   — a cell that is neither 0 nor 1..9 gives none —, 81 variables — singleton
   domain for a clue, 1..9 otherwise —, 27 alldiff propagators, then the equalities posted by the
   naked-single / hidden-single front end in up to 11 identical rounds, validation, Model::solve).
   A puzzle is the row-major list of the 81 cells of the `[[i32; 9]; 9]` argument (0 = empty);
   `solve_sudoku p : option (option grid)`: None = the model's recursion fuel ran out (never:
   sudoku_total), Some None = the code returns None, Some (Some g) = the code returns Some(g).
   `length p = 81` is the type of the Rust argument and the only premise: `clues_ok p` (every cell in 0..9,
   the documented input domain) is tested by the code itself since COMMIT_sudoku_clues
   (sudoku_out_of_range_none); before, the soundness clause failed outside it
   (sudoku_sound_out_of_range_refuted, about `solve_sudoku_prefix` = the code without the test).
   Statements only; proofs in Proofs/SudokuProofs.v. *)
Require Import Selen.Model.Prelude Selen.Model.Dom Selen.Model.Views Selen.Model.PropDefs.
Require Import Selen.Model.Props.Basic Selen.Model.Propagate Selen.Model.Search Selen.Model.EngineSpec.
Require Import Selen.Model.Props.AllDiff Selen.Model.Sudoku.
Require Import Selen.Proofs.SudokuProofs.

(* the boolean checks (verify_solution, agreement with the clues) mean what they should *)
Theorem valid_sudokub_spec : forall g, valid_sudokub g = true <-> valid_sudoku g.
Proof. exact SudokuProofs.valid_sudokub_spec. Qed.
Print Assumptions valid_sudokub_spec.

Theorem agreesb_spec : forall p g, agreesb p g = true <-> agrees p g.
Proof. exact SudokuProofs.agreesb_spec. Qed.
Print Assumptions agreesb_spec.

(* parse_string yields 81 cells, each 0..9 *)
Theorem parse_string_ok : forall bs p, parse_string bs = Some p -> length p = 81%nat /\ clues_ok p.
Proof. exact SudokuProofs.parse_string_ok. Qed.
Print Assumptions parse_string_ok.

(* the candidate table computed from the original puzzle over-approximates every completion *)
Theorem candidates_overapprox : forall p g i, valid_sudoku g /\ agrees p g -> (i < 81)%nat -> pcell p i = 0 ->
  In (pcell g i) (sget (new_cands p) i).
Proof. exact SudokuProofs.candidates_overapprox. Qed.
Print Assumptions candidates_overapprox.

(* every equality `cell = digit` the front end posts (naked singles, hidden singles of rows, columns and
   boxes, in every round) holds in EVERY completion of the puzzle: the added constraints are implied *)
Theorem sudoku_techniques_implied : forall p g q, valid_sudoku g /\ agrees p g -> In q (sudoku_posts p) ->
  pcell g (fst q) = snd q.
Proof. exact SudokuProofs.sudoku_techniques_implied. Qed.
Print Assumptions sudoku_techniques_implied.

(* ... and names a cell of the grid (so the propagator list is well scoped for every input) *)
Theorem posts_scope : forall p q, In q (sudoku_posts p) -> (fst q < 81)%nat.
Proof. exact SudokuProofs.posts_scope. Qed.
Print Assumptions posts_scope.

(* the elimination made by the naked-pairs step is discarded unless it is the only progress: when the
   step reports no progress the table is unchanged (and otherwise update_candidates recomputes it) *)
Theorem naked_pairs_nochange : forall p cs, snd (naked_pairs p cs) = false -> fst (naked_pairs p cs) = cs.
Proof. exact SudokuProofs.naked_pairs_nochange. Qed.
Print Assumptions naked_pairs_nochange.

(* the naked-pairs elimination is itself sound: a table that over-approximates a completion on the empty cells
   still does afterwards (so the eliminations the code throws away would have been safe to keep) *)
Theorem naked_pairs_sound : forall p g cs, valid_sudoku g /\ agrees p g -> length cs = 81%nat ->
  (forall i, (i < 81)%nat -> pcell p i = 0 -> In (pcell g i) (sget cs i)) ->
  forall i, (i < 81)%nat -> pcell p i = 0 -> In (pcell g i) (sget (fst (naked_pairs p cs)) i).
Proof. exact SudokuProofs.naked_pairs_sound. Qed.
Print Assumptions naked_pairs_sound.

(* the technique loop performs at most 11 rounds: the fuel of the model is never the limit *)
Theorem tech_loop_fuel : forall p n cs it, (it <= 10)%nat -> (11 - it <= n)%nat ->
  tech_loop n p cs it = tech_loop (S n) p cs it.
Proof. exact SudokuProofs.tech_loop_fuel. Qed.
Print Assumptions tech_loop_fuel.

(* a returned grid is a complete valid Sudoku agreeing with every clue *)
Theorem sudoku_sound : forall p g, length p = 81%nat ->
  solve_sudoku p = Some (Some g) -> valid_sudoku g /\ agrees p g.
Proof. exact SudokuProofs.sudoku_sound. Qed.
Print Assumptions sudoku_sound.

(* a grid is returned whenever the clues admit a completion *)
Theorem sudoku_complete : forall p, length p = 81%nat -> (exists g, valid_sudoku g /\ agrees p g) ->
  exists g', solve_sudoku p = Some (Some g').
Proof. exact SudokuProofs.sudoku_complete. Qed.
Print Assumptions sudoku_complete.

(* none is returned only when they do not (validation errors included) *)
Theorem sudoku_none_sound : forall p, length p = 81%nat -> solve_sudoku p = Some None ->
  forall g, ~ (valid_sudoku g /\ agrees p g).
Proof. exact SudokuProofs.sudoku_none_sound. Qed.
Print Assumptions sudoku_none_sound.

(* the model always answers *)
Theorem sudoku_total : forall p, length p = 81%nat -> solve_sudoku p <> None.
Proof. exact SudokuProofs.sudoku_total. Qed.
Print Assumptions sudoku_total.

(* same verdict as the general solver on the plain model (81 variables 1..9, 27 alldiff, one equality per clue) *)
Theorem agrees_general_solver : forall p, length p = 81%nat ->
  verdict (solve_sudoku p) = verdict (solve_general p).
Proof. exact SudokuProofs.agrees_general_solver. Qed.
Print Assumptions agrees_general_solver.

(* the general solver itself is sound, complete and total on every input *)
Theorem general_sound : forall p g, solve_general p = Some (Some g) -> valid_sudoku g /\ agrees p g.
Proof. exact SudokuProofs.general_sound. Qed.
Print Assumptions general_sound.
Theorem general_complete : forall p, (exists g, valid_sudoku g /\ agrees p g) -> exists g', solve_general p = Some (Some g').
Proof. exact SudokuProofs.general_complete. Qed.
Print Assumptions general_complete.
Theorem general_none_sound : forall p, solve_general p = Some None -> forall g, ~ (valid_sudoku g /\ agrees p g).
Proof. exact SudokuProofs.general_none_sound. Qed.
Print Assumptions general_none_sound.

(* the executable variants run by the correspondence check (stop at the first solution) are the same functions *)
Theorem solve_sudoku_exec_eq : forall p, length p = 81%nat -> solve_sudoku_exec p = solve_sudoku p.
Proof. exact SudokuProofs.solve_sudoku_exec_eq. Qed.
Print Assumptions solve_sudoku_exec_eq.
Theorem solve_general_exec_eq : forall p, solve_general_exec p = solve_general p.
Proof. exact SudokuProofs.solve_general_exec_eq. Qed.
Print Assumptions solve_general_exec_eq.

(* string entry point: a parse error gives none; otherwise as above (parse_string only produces clues 0..9) *)
Theorem sudoku_string_sound : forall bs g, solve_sudoku_string bs = Some (Some g) ->
  exists p, parse_string bs = Some p /\ valid_sudoku g /\ agrees p g.
Proof. exact SudokuProofs.sudoku_string_sound. Qed.
Print Assumptions sudoku_string_sound.
Theorem sudoku_string_complete : forall bs p, parse_string bs = Some p -> (exists g, valid_sudoku g /\ agrees p g) ->
  exists g', solve_sudoku_string bs = Some (Some g').
Proof. exact SudokuProofs.sudoku_string_complete. Qed.
Print Assumptions sudoku_string_complete.
Theorem sudoku_string_none : forall bs, solve_sudoku_string bs = Some None ->
  parse_string bs = None \/ exists p, parse_string bs = Some p /\ forall g, ~ (valid_sudoku g /\ agrees p g).
Proof. exact SudokuProofs.sudoku_string_none. Qed.
Print Assumptions sudoku_string_none.

(* a cell outside 0..9 (the argument type admits it) admits no completion and the answer is none *)
Theorem sudoku_out_of_range_none : forall p, length p = 81%nat -> ~ clues_ok p -> solve_sudoku p = Some None.
Proof. exact SudokuProofs.sudoku_out_of_range_none. Qed.
Print Assumptions sudoku_out_of_range_none.

(* former class kf_clue_out_of_range (repaired, COMMIT_sudoku_clues): WITHOUT the range test of `solve`
   (`solve_sudoku_prefix`), with a clue outside 0..9 (here 10 in the first cell) a grid containing it is
   returned — not a valid Sudoku — while the general solver reports no solution ... *)
Theorem sudoku_sound_out_of_range_refuted :
  exists p g, length p = 81%nat /\ solve_sudoku_prefix p = Some (Some g) /\ ~ valid_sudoku g /\ verdict (solve_general p) = Some false.
Proof. exact SudokuProofs.sudoku_sound_out_of_range_refuted. Qed.
Print Assumptions sudoku_sound_out_of_range_refuted.
(* ... and the repaired solver answers none on that puzzle, like the general solver *)
Theorem sudoku_out_of_range_repaired :
  solve_sudoku bad_puzzle = Some None /\ verdict (solve_general bad_puzzle) = Some false.
Proof. exact SudokuProofs.sudoku_out_of_range_repaired. Qed.
Print Assumptions sudoku_out_of_range_repaired.

(* non-vacuity: the documentation example is solved, after the front end posted 11 x 24 equalities *)
Theorem c18_nonvacuous :
  solve_sudoku example_puzzle =
  Some (Some [5;3;4;6;7;8;9;1;2; 6;7;2;1;9;5;3;4;8; 1;9;8;3;4;2;5;6;7; 8;5;9;7;6;1;4;2;3; 4;2;6;8;5;3;7;9;1;
              7;1;3;9;2;4;8;5;6; 9;6;1;5;3;7;2;8;4; 2;8;7;4;1;9;6;3;5; 3;4;5;2;8;6;1;7;9]) /\
  length (sudoku_posts example_puzzle) = 264%nat.
Proof. exact SudokuProofs.c18_nonvacuous. Qed.
Print Assumptions c18_nonvacuous.
