(* C08 — float / mixed optimisation returns a feasible point at the true optimum.  PROOF-PARTIAL: only the DISPATCH is a
   Coq object (Model/FloatDispatch.v: which optimiser answers), extracted and compared with the implementation through hook
   H5; the optimisers themselves (optimisation fast path, f64 simplex of the root LP step) are not modelled -- of the fast path
   only the ACCEPTANCE of its candidate is (FloatDispatch.fp_accepts, theorem fast_path_answers_are_checked) --, and the
   branch-and-bound over floats is modelled (Model/FloatSearch.v, bit-exact tie) but its optimality is not proved
   (`bb_float_bound` not reached).  The property itself is decided by the check against the VERIFIED exact-rational LP model
   (Properties/C09.v). *)
From Coq Require Import ZArith Bool List Lia.
Import ListNotations.
Require Import Selen.Model.Prelude Selen.Model.Propagate Selen.Model.FloatDispatch.
Require Import Selen.Model.B64 Selen.Model.FloatInterval Selen.Model.FloatStore Selen.Model.FloatProps Selen.Model.FloatSearch.
Require Import Selen.Proofs.FloatPropsProofs Selen.Proofs.FloatSearchProofs.

(* dispatch_model: the root LP step runs only when enabled, with >= 2 variables in the linear system and the objective among them *)
Theorem dispatch_root_lp_gate : forall lp ps obj, root_lp_gate lp ps obj = true ->
  lp = true /\ (2 <= length (lp_vars ps))%nat /\ memn obj (lp_vars ps) = true.
Proof. intros lp ps obj H. destruct (root_lp_gate_needs_two_vars lp ps obj H). repeat split; auto.
  eapply root_lp_gate_obj_in_system; eauto. Qed.
Print Assumptions dispatch_root_lp_gate.

(* after repair 12905e9 the fast path is not consulted while any constraint AST is pending; with the LP gate closed as well,
   the answer comes from propagation + bisection search alone *)
Theorem dispatch_model : forall lp fp ps obj, existsb pending_ast ps = true ->
  fast_path_consulted fp ps = false /\ (root_lp_gate lp ps obj = false -> dispatch lp fp ps obj = BySearchOnly).
Proof. intros lp fp ps obj H. split. apply fast_path_not_consulted_with_pending_ast; auto. apply dispatch_search_only; auto. Qed.
Print Assumptions dispatch_model.

(* a linear post that is lowered to IntLin* (integer literals over integer variables only, see linear_lowering) never
   contributes an LP row (no pending row for m.lin_*, and IntLin* propagators are not scanned) *)
Theorem dispatch_int_lin_no_row : forall rel vars, lp_rows_of (PLin false rel vars) = [].
Proof. exact lin_posts_give_no_lp_row_before_lowering. Qed.
Print Assumptions dispatch_int_lin_no_row.

(* non-vacuity / the three outcomes are all inhabited *)
Example c08_dispatch_inhabited :
  dispatch true true [PLin true RLe [0;1]%nat; PLin true RLe [0;1]%nat] 0%nat = ByRootLpThenSearch /\
  dispatch true true [PFlin RLe [0;1]%nat; PCmp RLe (Some 0%nat) (Some 1%nat)] 0%nat = ByFastPathOrSearch /\
  dispatch true false [PNew RGe [0%nat] false false] 0%nat = BySearchOnly.
Proof. repeat split; reflexivity. Qed.

(* the fast path's candidate is OPAQUE (any list of values); it becomes the answer of minimize / maximize only through
   fp_accepts = Model::accepts_candidate.  An accepted answer
     - gives every variable a value of its kind that lies in its domain,
     - has passed the ordinary propagation started from the store in which every variable is fixed to it: every
       propagator of the model was run, none of the runs failed (ran_ok: the propagator's own check on a store it was handed),
     - attains, within one step, the bound that the propagation of the model itself leaves for the objective.
   Nothing is assumed about the propagators or about the optimiser that produced the candidate. *)
Theorem fast_path_answers_are_checked : forall minimize pf ps s obj cand, fp_accepts minimize pf ps s obj cand = true ->
  exists s0 sf sr,
    Forall2 in_domain s cand /\ fix_all s cand = Some s0 /\ map var_value s0 = cand /\ map var_max s0 = cand /\
    fpropagate_all pf ps s0 = FPDone sf /\ (forall p, (p < length ps)%nat -> ran_ok ps p) /\
    fpropagate_all pf ps s = FPDone sr /\
    (if minimize then val_le (fv_min obj sf) (val_add (fv_min obj sr) (fp_slack obj s))
     else val_ge (val_add (fv_max obj sf) (fp_slack obj s)) (fv_max obj sr)) = true.
Proof. exact fp_accepts_checked. Qed.
Print Assumptions fast_path_answers_are_checked.

(* a candidate outside a domain, one that some propagator rejects, and a model whose own propagation fails: never accepted *)
Theorem fast_path_rejections : forall minimize pf ps s obj cand,
  (fix_all s cand = None \/ (exists s0, fix_all s cand = Some s0 /\ passes_propagation pf ps s0 = None) \/ passes_propagation pf ps s = None) ->
  fp_accepts minimize pf ps s obj cand = false.
Proof. exact fp_rejects. Qed.
Print Assumptions fast_path_rejections.

(* non-vacuity, on the former witness of known finding fast_path: x in [0,10] (precision 6), 4 <= x, minimize x.
   The fast path's old answer x = 0 is rejected (4 <= x fails on the fixed store); x = 10 is feasible but does not attain
   the propagated bound 4: rejected; x = 4 is accepted. *)
Definition w_fp_store : fstore := [VF (mkfi (of_bits 0) (of_bits 0x4024000000000000) (precision_to_step_size 6))].
Definition w_fp_props : list fprop := [mk_fleq (FConst (VlF (of_bits 0x4010000000000000))) (FVar 0%nat)].
Example c08_fast_path_acceptance :
  fp_accepts true 10 w_fp_props w_fp_store (FVar 0%nat) [VlF (of_bits 0)] = false /\
  fp_accepts true 10 w_fp_props w_fp_store (FVar 0%nat) [VlF (of_bits 0x4024000000000000)] = false /\
  fp_accepts true 10 w_fp_props w_fp_store (FVar 0%nat) [VlF (of_bits 0x4010000000000000)] = true /\
  fp_accepts false 10 w_fp_props w_fp_store (FVar 0%nat) [VlF (of_bits 0x4024000000000000)] = true /\
  fp_accepts true 10 w_fp_props w_fp_store (FVar 0%nat) [VlI 4] = false /\
  fp_accepts true 10 w_fp_props w_fp_store (FVar 0%nat) [] = false.
Proof. vm_compute. repeat split; reflexivity. Qed.
