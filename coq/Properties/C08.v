(* C08 — float / mixed optimisation returns a feasible point at the true optimum.  PROOF-PARTIAL: only the DISPATCH is a
   Coq object (Model/FloatDispatch.v: which optimiser answers), extracted and compared with the implementation through hook
   H5; the optimisers themselves (optimisation fast path, f64 simplex of the root LP step) are not modelled, and the
   branch-and-bound over floats is modelled (Model/FloatSearch.v, bit-exact tie) but its optimality is not proved
   (`bb_float_bound` not reached).  The property itself is decided by the check against the VERIFIED exact-rational LP model
   (Properties/C09.v). *)
From Coq Require Import ZArith Bool List Lia.
Import ListNotations.
Require Import Selen.Model.Prelude Selen.Model.Propagate Selen.Model.FloatDispatch.
Require Import Selen.Proofs.FloatPropsProofs.

(* dispatch_model: the root LP step runs only when enabled, with >= 2 variables in the linear system and the objective among them *)
Theorem dispatch_root_lp_gate : forall lp ps obj, root_lp_gate lp ps obj = true ->
  lp = true /\ (2 <= length (lp_vars ps))%nat /\ memn obj (lp_vars ps) = true.
Proof. intros lp ps obj H. destruct (root_lp_gate_needs_two_vars lp ps obj H). repeat split; auto.
  eapply root_lp_gate_obj_in_system; eauto. Qed.
Print Assumptions dispatch_root_lp_gate.

(* after repair 12905e9 the fast path is not consulted while any constraint AST is pending; with the LP gate closed as well,
   the answer comes from propagation + bisection search alone *)
Theorem dispatch_model : forall lp fp ps obj, existsb pending_ast ps = true ->
  fast_path_consulted fp ps = false /\ (root_lp_gate lp ps obj = false -> dispatch lp fp ps obj = BySearchOnly).
Proof. intros lp fp ps obj H. split. apply fast_path_not_consulted_with_pending_ast; auto. apply dispatch_search_only; auto. Qed.
Print Assumptions dispatch_model.

(* a linear post that is lowered to IntLin* (integer literals over integer variables only, see linear_lowering) never
   contributes an LP row (no pending row for m.lin_*, and IntLin* propagators are not scanned) *)
Theorem dispatch_int_lin_no_row : forall rel vars, lp_rows_of (PLin false rel vars) = [].
Proof. exact lin_posts_give_no_lp_row_before_lowering. Qed.
Print Assumptions dispatch_int_lin_no_row.

(* non-vacuity / the three outcomes are all inhabited *)
Example c08_dispatch_inhabited :
  dispatch true true [PLin true RLe [0;1]%nat; PLin true RLe [0;1]%nat] 0%nat = ByRootLpThenSearch /\
  dispatch true true [PFlin RLe [0;1]%nat; PCmp RLe (Some 0%nat) (Some 1%nat)] 0%nat = ByFastPathOrSearch /\
  dispatch true false [PNew RGe [0%nat] false false] 0%nat = BySearchOnly.
Proof. repeat split; reflexivity. Qed.
