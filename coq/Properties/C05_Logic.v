(* C05, group Logic — the four local contracts (PropDefs.good = contracting /\ sound /\ checking /\
   frame, over all parameters and all well-formed stores, holes and aliasing included) for
   bool_and / bool_or / bool_not / bool_xor, int_{eq,ne,lt,le,gt,ge}_reif, all_equal, between and
   if_then_else (integer values), as modelled in Model/Props/Logic.v.  Statements only. *)
Require Import Selen.Model.Prelude Selen.Model.Dom Selen.Model.Views Selen.Model.PropDefs.
Require Import Selen.Model.Props.Basic Selen.Model.Props.LinInt Selen.Model.Props.Logic Selen.Model.Propagate.
Require Import Selen.Proofs.Props.LogicProofs.

Theorem bool_and_good : forall xs r, good (mk_band xs r).
Proof. exact LogicProofs.mk_band_good. Qed.
Print Assumptions bool_and_good.
Theorem bool_or_good : forall xs r, good (mk_bor xs r).
Proof. exact LogicProofs.mk_bor_good. Qed.
Print Assumptions bool_or_good.
Theorem bool_not_good : forall o r, good (mk_bnot o r).
Proof. exact LogicProofs.mk_bnot_good. Qed.
Print Assumptions bool_not_good.
Theorem bool_xor_good : forall x y r, good (mk_bxor x y r).
Proof. exact LogicProofs.mk_bxor_good. Qed.
Print Assumptions bool_xor_good.

Theorem int_eq_reif_good : forall x y b, good (mk_eq_reif x y b).
Proof. exact LogicProofs.mk_eq_reif_good. Qed.
Print Assumptions int_eq_reif_good.
Theorem int_ne_reif_good : forall x y b, good (mk_ne_reif x y b).
Proof. exact LogicProofs.mk_ne_reif_good. Qed.
Print Assumptions int_ne_reif_good.
Theorem int_lt_reif_good : forall x y b, good (mk_lt_reif x y b).
Proof. exact LogicProofs.mk_lt_reif_good. Qed.
Print Assumptions int_lt_reif_good.
Theorem int_le_reif_good : forall x y b, good (mk_le_reif x y b).
Proof. exact LogicProofs.mk_le_reif_good. Qed.
Print Assumptions int_le_reif_good.
Theorem int_gt_reif_good : forall x y b, good (mk_gt_reif x y b).
Proof. exact LogicProofs.mk_gt_reif_good. Qed.
Print Assumptions int_gt_reif_good.
Theorem int_ge_reif_good : forall x y b, good (mk_ge_reif x y b).
Proof. exact LogicProofs.mk_ge_reif_good. Qed.
Print Assumptions int_ge_reif_good.

Theorem between_good : forall l m u, good (mk_between l m u).
Proof. exact LogicProofs.mk_between_good. Qed.
Print Assumptions between_good.
Theorem if_then_else_good : forall cd th el, good (mk_ite cd th el).
Proof. exact LogicProofs.mk_ite_good. Qed.
Print Assumptions if_then_else_good.

(* all_equal: good outside the known class alleq_empty (no variables); inside it the propagator
   fails every store although the documented meaning of an empty all-equal is TRUE *)
Theorem all_equal_good : forall xs, kf_alleq_empty xs = false -> good (mk_alleq xs).
Proof. exact LogicProofs.mk_alleq_good. Qed.
Print Assumptions all_equal_good.
Theorem all_equal_empty_sound_refuted : exists xs, kf_alleq_empty xs = true /\ ~ sound (mk_alleq xs).
Proof. exact LogicProofs.mk_alleq_empty_sound_refuted. Qed.
Print Assumptions all_equal_empty_sound_refuted.
Theorem all_equal_empty_others : contracting (mk_alleq []) /\ checking (mk_alleq []) /\ frame (mk_alleq []).
Proof. exact LogicProofs.mk_alleq_empty_others. Qed.
Print Assumptions all_equal_empty_others.

(* after the proposed repair fixes/alleq_empty.patch (model mk_alleq_fixed): full strength *)
Theorem all_equal_fixed_good : forall xs, good (mk_alleq_fixed xs).
Proof. exact LogicProofs.mk_alleq_fixed_good. Qed.
Print Assumptions all_equal_fixed_good.

(* the boolean kinds' `sat` is the plain truth table (true = 1) on 0/1 assignments *)
Theorem bool_and_sat01 : forall xs r a, is01 (a r) = true -> (forall x, In x xs -> is01 (a x) = true) ->
  sat (mk_band xs r) a = Bool.eqb (a r =? 1) (forallb (fun x => a x =? 1) xs).
Proof. exact LogicProofs.band_sat01. Qed.
Print Assumptions bool_and_sat01.
Theorem bool_or_sat01 : forall xs r a, is01 (a r) = true -> (forall x, In x xs -> is01 (a x) = true) ->
  sat (mk_bor xs r) a = Bool.eqb (a r =? 1) (existsb (fun x => a x =? 1) xs).
Proof. exact LogicProofs.bor_sat01. Qed.
Print Assumptions bool_or_sat01.
Theorem bool_not_sat01 : forall o r a, is01 (a o) = true -> is01 (a r) = true ->
  sat (mk_bnot o r) a = Bool.eqb (a r =? 1) (negb (a o =? 1)).
Proof. exact LogicProofs.bnot_sat01. Qed.
Print Assumptions bool_not_sat01.
Theorem bool_xor_sat01 : forall x y r a, is01 (a x) = true -> is01 (a y) = true -> is01 (a r) = true ->
  sat (mk_bxor x y r) a = Bool.eqb (a r =? 1) (xorb (a x =? 1) (a y =? 1)).
Proof. exact LogicProofs.bxor_sat01. Qed.
Print Assumptions bool_xor_sat01.
Theorem reif_sat01 : forall pr rel x y b a, is01 (a b) = true ->
  sat (mk_reif pr rel x y b) a = Bool.eqb (a b =? 1) (rel (a x) (a y)).
Proof. exact LogicProofs.reif_sat01. Qed.
Print Assumptions reif_sat01.

(* non-vacuity: hole-y, negative, aliased instances actually propagate *)
Example c05_logic_nonvacuous :
  propagate fifo 100
    [mk_eq_reif 0 1 2; mk_band [2%nat; 3%nat] 4; mk_ite (CGt, 4%nat, 0) (SNe, 0%nat, -2) (Some (SLe, 1%nat, 0)); mk_alleq [0%nat; 5%nat]]
    [[-2; 0; 3]; [-2; 3]; [1]; [1]; [0; 1]; [-5; -2; 3; 7]] [0%nat; 1%nat; 2%nat; 3%nat]
  = PDone [[3]; [3]; [1]; [1]; [1]; [3]].
Proof. vm_compute. reflexivity. Qed.
