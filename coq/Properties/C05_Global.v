(* C05, group Global — the four local contracts (contracting, sound, checking, frame) for the
   propagators of count.rs, cardinality.rs, element.rs, table.rs as modelled in
   Model/Props/Global.v.  All parameters (variable lists incl. repetitions and aliasing between
   array/index/value/count/target, constants, negative counts, empty arrays/tables, out-of-range
   indices) and all well-formed stores (holes included) are universally quantified.  Statements only. *)
Require Import Selen.Model.Prelude Selen.Model.Dom Selen.Model.Views Selen.Model.PropDefs.
Require Import Selen.Model.Props.Basic Selen.Model.Props.Global.
Require Import Selen.Proofs.Props.GlobalProofs.

Theorem count_good : forall xs t cv, view_ok t -> good (mk_count xs t cv).
Proof. exact GlobalProofs.mk_count_good. Qed.
Print Assumptions count_good.

Theorem at_least_good : forall xs k n, good (mk_at_least xs k n).
Proof. exact GlobalProofs.mk_at_least_good. Qed.
Print Assumptions at_least_good.

Theorem at_most_good : forall xs k n, good (mk_at_most xs k n).
Proof. exact GlobalProofs.mk_at_most_good. Qed.
Print Assumptions at_most_good.

Theorem exactly_good : forall xs k n, good (mk_exactly xs k n).
Proof. exact GlobalProofs.mk_exactly_good. Qed.
Print Assumptions exactly_good.

Theorem element_good : forall arr idx vl, good (mk_element arr idx vl).
Proof. exact GlobalProofs.mk_element_good. Qed.
Print Assumptions element_good.

(* rows of the arity of the variable list (Table::new debug_asserts it; a short row would panic) *)
Theorem table_good : forall xs tuples, table_okb xs tuples = true -> good (mk_table xs tuples).
Proof. exact GlobalProofs.mk_table_good_b. Qed.
Print Assumptions table_good.

(* the side condition is needed: a short row is read as a prefix by the model (`combine`) *)
Theorem table_short_row_checking_refuted : ~ checking (mk_table [0%nat; 1%nat] [[1]]).
Proof. exact GlobalProofs.mk_table_short_row_checking_refuted. Qed.
Print Assumptions table_short_row_checking_refuted.

(* the fuel of the model's table loop is an artefact that is never exhausted: any extra fuel gives
   the same result, so prune_table is the unbounded `loop` of table.rs *)
Theorem table_fuel_irrelevant : forall xs tuples extra c, wf_store (fst c) ->
  prune_table xs tuples c =
  (if has_supp xs tuples (fst c) then tab_loop (S (size_sum xs (fst c)) + extra) xs tuples c else None).
Proof. exact GlobalProofs.prune_table_fuel. Qed.
Print Assumptions table_fuel_irrelevant.

(* Count's own bound-removal loop is the Cardinality one *)
Theorem count_forbid_is_card_forbid : forall t xs c, count_forbid xs t c = card_forbid xs t c.
Proof. exact GlobalProofs.count_forbid_eq. Qed.
Print Assumptions count_forbid_is_card_forbid.

(* non-vacuity: hole-y, negative domains; every example prunes something or fails *)
Example count_ex : prune (mk_count [0%nat; 1%nat; 2%nat] (VVar 3) 4) ([[-2; 1]; [1]; [-1; 1; 3]; [1]; [0; 3; 5]], [])
  = Some ([[1]; [1]; [1]; [1]; [3]], [4%nat; 4%nat; 0%nat; 2%nat; 2%nat]).
Proof. vm_compute. reflexivity. Qed.
Example at_least_ex : prune (mk_at_least [0%nat; 1%nat; 2%nat] (-1) 2) ([[-3; -1; 2]; [0; 4]; [-1; 0]], [])
  = Some ([[-1]; [0; 4]; [-1]], [0%nat; 0%nat; 2%nat]).
Proof. vm_compute. reflexivity. Qed.
Example at_most_ex : prune (mk_at_most [0%nat; 1%nat; 2%nat] 2 1) ([[2]; [-1; 0; 2]; [2; 5; 7]], [])
  = Some ([[2]; [-1; 0]; [5; 7]], [1%nat; 2%nat]).
Proof. vm_compute. reflexivity. Qed.
Example exactly_ex : prune (mk_exactly [0%nat; 1%nat] 1 2) ([[0; 2]; [1]], []) = None.
Proof. vm_compute. reflexivity. Qed.
Example element_ex : prune (mk_element [0%nat; 1%nat; 2%nat] 3 4) ([[-5; -4]; [1; 3]; [2; 9]; [-1; 1; 2; 7]; [0; 3; 4]], [])
  = Some ([[-5; -4]; [1; 3]; [2; 9]; [1; 2]; [3; 4]], [3%nat; 3%nat; 4%nat]).
Proof. vm_compute. reflexivity. Qed.
Example table_ex : prune (mk_table [0%nat; 1%nat] [[-1; 5]; [2; 3]; [4; -2]; [7; 7]]) ([[-1; 0; 2; 4]; [-2; 1; 3; 6]], [])
  = Some ([[2; 4]; [-2; 1; 3]], [1%nat; 0%nat]).
Proof. vm_compute. reflexivity. Qed.
