(* C15 — time and memory limits yield explicit errors, never wrong answers.
   The clock is an arbitrary oracle on the index of the limit check (every interruption point),
   the check interval and the memory limit are arbitrary; `giveup` is an arbitrary oracle that
   turns any propagation (root or child) into "given up at the deadline" (search::propagate_until).
   The `_g` statements quantify over it; the statements without `_g` are their instances for the
   entry points the differential runs (no propagation given up).  Statements only. *)
Require Import Selen.Model.Prelude Selen.Model.Dom Selen.Model.Views Selen.Model.PropDefs.
Require Import Selen.Model.Props.Basic Selen.Model.Propagate Selen.Model.Search Selen.Model.EngineSpec Selen.Model.Limits.
Require Import Selen.Proofs.Props.BasicProofs Selen.Proofs.EngineProofs Selen.Proofs.LimitsProofs.

(* whatever fires, wherever: what was yielded so far is a prefix of the unlimited iteration, and
   an exhausted limited run IS the unlimited run *)
Theorem limits_prefix : forall pick m interval clock mlimit giveup resume fuel depth ps s best l sols b l' why d all ball,
  dfs_lim pick m interval clock mlimit giveup resume fuel depth ps s best l = LStop sols b l' why d ->
  dfs pick m fuel ps s best = SOk all ball ->
  (exists rest, all = sols ++ rest) /\ (why = SExhausted -> sols = all /\ b = ball).
Proof. exact LimitsProofs.limits_prefix. Qed.
Print Assumptions limits_prefix.

(* every assignment enumerate yields before a limit cuts it short is a genuine solution, no repeats *)
Theorem enumerate_lim_genuine : forall pick interval clock mlimit buildmem ps s sols ck,
  Forall good ps -> scoped ps (length s) -> wf_store s ->
  enumerate_lim pick interval clock mlimit buildmem ps s = Some (sols, ck) ->
  NoDup sols /\ forall t, In t sols -> all_fixed t = true /\ sub_store t s /\ sol ps s (asg_of t).
Proof. exact (LimitsProofs.enumerate_lim_genuine BasicProofs.mk_leq_good BasicProofs.mk_gt_good BasicProofs.mk_lt_good). Qed.
Print Assumptions enumerate_lim_genuine.

(* solve: a correct result or the corresponding limit error; never a false no-solution verdict,
   never an assignment violating a constraint; the model's recursion fuel never runs out *)
Theorem solve_lim_correct : forall pick interval clock mlimit buildmem late ps s o ck,
  Forall good ps -> scoped ps (length s) -> wf_store s -> 0 < interval ->
  solve_lim pick interval clock mlimit buildmem late ps s = (o, ck) ->
  match o with
  | OOk t => all_fixed t = true /\ sub_store t s /\ sol ps s (asg_of t)
  | ONoSolution => forall a, ~ sol ps s a
  | OTimeout | OMemory => True
  | OFuelOut => False
  end.
Proof. exact (LimitsProofs.solve_lim_correct BasicProofs.mk_leq_good BasicProofs.mk_gt_good BasicProofs.mk_lt_good). Qed.
Print Assumptions solve_lim_correct.

(* minimize/maximize: Ok only with the true optimum (an interrupted search never returns the last
   solution seen as if it were optimal) *)
Theorem minimize_lim_correct : forall pick interval clock mlimit buildmem late obj ps s o ck,
  Forall good ps -> scoped ps (length s) -> wf_store s -> view_ok obj -> 0 < interval ->
  (forall x, uvar obj = Some x -> (x < length s)%nat) ->
  minimize_lim pick interval clock mlimit buildmem late obj ps s = (o, ck) ->
  match o with
  | OOk t => sol ps s (asg_of t) /\ forall a, sol ps s a -> vsem obj (asg_of t) <= vsem obj a
  | ONoSolution => forall a, ~ sol ps s a
  | OTimeout | OMemory => True
  | OFuelOut => False
  end.
Proof. exact (LimitsProofs.minimize_lim_correct BasicProofs.mk_leq_good BasicProofs.mk_gt_good BasicProofs.mk_lt_good). Qed.
Print Assumptions minimize_lim_correct.

(* ... and the same with any propagation given up at the deadline: a given-up propagation is treated
   as a failed space by the engine, yet it never becomes a no-solution verdict, a non-optimal Ok, or
   a spurious solution — the run ends in Timeout *)
Theorem enumerate_lim_genuine_g : forall pick interval clock mlimit giveup buildmem ps s sols ck,
  Forall good ps -> scoped ps (length s) -> wf_store s ->
  enumerate_lim_g pick interval clock mlimit giveup buildmem ps s = Some (sols, ck) ->
  NoDup sols /\ forall t, In t sols -> all_fixed t = true /\ sub_store t s /\ sol ps s (asg_of t).
Proof. exact (LimitsProofs.enumerate_lim_genuine_g BasicProofs.mk_leq_good BasicProofs.mk_gt_good BasicProofs.mk_lt_good). Qed.
Print Assumptions enumerate_lim_genuine_g.

Theorem solve_lim_correct_g : forall pick interval clock mlimit giveup buildmem late ps s o ck,
  Forall good ps -> scoped ps (length s) -> wf_store s -> 0 < interval ->
  solve_lim_g pick interval clock mlimit giveup buildmem late ps s = (o, ck) ->
  match o with
  | OOk t => all_fixed t = true /\ sub_store t s /\ sol ps s (asg_of t)
  | ONoSolution => forall a, ~ sol ps s a
  | OTimeout | OMemory => True
  | OFuelOut => False
  end.
Proof. exact (LimitsProofs.solve_lim_correct_g BasicProofs.mk_leq_good BasicProofs.mk_gt_good BasicProofs.mk_lt_good). Qed.
Print Assumptions solve_lim_correct_g.

Theorem minimize_lim_correct_g : forall pick interval clock mlimit giveup buildmem late obj ps s o ck,
  Forall good ps -> scoped ps (length s) -> wf_store s -> view_ok obj -> 0 < interval ->
  (forall x, uvar obj = Some x -> (x < length s)%nat) ->
  minimize_lim_g pick interval clock mlimit giveup buildmem late obj ps s = (o, ck) ->
  match o with
  | OOk t => sol ps s (asg_of t) /\ forall a, sol ps s a -> vsem obj (asg_of t) <= vsem obj a
  | ONoSolution => forall a, ~ sol ps s a
  | OTimeout | OMemory => True
  | OFuelOut => False
  end.
Proof. exact (LimitsProofs.minimize_lim_correct_g BasicProofs.mk_leq_good BasicProofs.mk_gt_good BasicProofs.mk_lt_good). Qed.
Print Assumptions minimize_lim_correct_g.

(* the root propagation given up at the deadline (Search::TimedOut): Timeout from solve and
   minimize/maximize, nothing from enumerate, before any limit check *)
Theorem root_giveup_is_timeout : forall pick interval clock mlimit giveup late obj ps s,
  giveup ps s = true ->
  solve_lim_g pick interval clock mlimit giveup false late ps s = (OTimeout, 0) /\
  minimize_lim_g pick interval clock mlimit giveup false late obj ps s = (OTimeout, 0) /\
  enumerate_lim_g pick interval clock mlimit giveup false ps s = Some ([], 0).
Proof. exact LimitsProofs.root_giveup_is_timeout. Qed.
Print Assumptions root_giveup_is_timeout.

(* a model that exceeded its memory limit while being built reports MemoryLimit from every entry *)
Theorem buildmem_all_entries : forall pick interval clock mlimit late obj ps s,
  fst (solve_lim pick interval clock mlimit true late ps s) = OMemory /\
  fst (minimize_lim pick interval clock mlimit true late obj ps s) = OMemory /\
  enumerate_lim pick interval clock mlimit true ps s = Some ([], 0).
Proof. exact LimitsProofs.buildmem_all_entries. Qed.
Print Assumptions buildmem_all_entries.

Theorem buildmem_all_entries_g : forall pick interval clock mlimit giveup late obj ps s,
  fst (solve_lim_g pick interval clock mlimit giveup true late ps s) = OMemory /\
  fst (minimize_lim_g pick interval clock mlimit giveup true late obj ps s) = OMemory /\
  enumerate_lim_g pick interval clock mlimit giveup true ps s = Some ([], 0).
Proof. exact LimitsProofs.buildmem_all_entries_g. Qed.
Print Assumptions buildmem_all_entries_g.

(* with no limit configured and a clock that never expires the limit machinery is inert *)
Theorem no_limit_agrees : forall pick interval ps s,
  Forall good ps -> scoped ps (length s) -> wf_store s -> 0 < interval ->
  (forall t, fst (solve_lim pick interval never None false false ps s) = OOk t <-> solve pick ps s = Some (Some t)) /\
  (fst (solve_lim pick interval never None false false ps s) = ONoSolution <-> solve pick ps s = Some None) /\
  (forall sols ck, enumerate_lim pick interval never None false ps s = Some (sols, ck) ->
     exists b, enumerate pick ps s = SOk sols b).
Proof. exact (LimitsProofs.no_limit_agrees BasicProofs.mk_leq_good BasicProofs.mk_gt_good BasicProofs.mk_lt_good). Qed.
Print Assumptions no_limit_agrees.

(* x < y over 0..2: the first check is passed at the first next(), the second when the engine
   descends into x <= 0 (a stalled child: y in 1..2) — since the repair limits_deep a limit is seen
   there — and the solution x = 0, y = 1 is found below without a third check *)
Example c15_nonvacuous :
  solve_lim fifo 1 (from_check 1) None false false [mk_lt (VVar 0) (VVar 1)] [[0;1;2];[0;1;2]] = (OTimeout, 1) /\
  solve_lim fifo 1 (from_check 2) None false false [mk_lt (VVar 0) (VVar 1)] [[0;1;2];[0;1;2]] = (OTimeout, 2) /\
  solve_lim fifo 1 (from_check 3) None false false [mk_lt (VVar 0) (VVar 1)] [[0;1;2];[0;1;2]] = (OOk [[0];[1]], 2).
Proof. repeat split; vm_compute; reflexivity. Qed.

(* the propagation of the child x <= 0 is given up at the deadline: Timeout after the one check of
   the first next(); without the oracle the same model is solved *)
Example c15_giveup_nonvacuous :
  solve_lim_g fifo 1 never None (fun ps _ => (length ps =? 2)%nat) false false
              [mk_lt (VVar 0) (VVar 1)] [[0;1;2];[0;1;2]] = (OTimeout, 1) /\
  solve_lim_g fifo 1 never None nogiveup false false
              [mk_lt (VVar 0) (VVar 1)] [[0;1;2];[0;1;2]] = (OOk [[0];[1]], 2).
Proof. split; vm_compute; reflexivity. Qed.

(* the memory limit is seen while descending: 600 free 0/1 variables, no constraint, 1 MB.  The
   estimate crosses 1 MB with 512 frames on the stack; with a check at every step the search stops
   on the descent that pushes the 512th frame (513 checks: one at the first next(), one per push),
   long before the first solution at depth 600 *)
Example c15_memory_seen_on_descent :
  solve_lim fifo 1 never (Some 1) false false [] (repeat [0;1] 600) = (OMemory, 513).
Proof. vm_compute. reflexivity. Qed.
