(* C01 — returned solutions satisfy every posted constraint (props-level core).
   Every store yielded by the engine in either mode is fully assigned, inside the declared
   domains, and satisfies the documented meaning `sat` of every propagator.  Statements only. *)
Require Import Selen.Model.Prelude Selen.Model.Dom Selen.Model.Views Selen.Model.PropDefs.
Require Import Selen.Model.Props.Basic Selen.Model.Propagate Selen.Model.Search Selen.Model.EngineSpec.
Require Import Selen.Proofs.Props.BasicProofs Selen.Proofs.EngineProofs.

Definition mode_ok (m : mode) : Prop := match m with Some obj => view_ok obj | None => True end.

Theorem solutions_satisfy : forall pick m ps s sols best,
  Forall good ps -> scoped ps (length s) -> wf_store s -> mode_ok m ->
  search pick m ps s = SOk sols best ->
  forall t, In t sols -> all_fixed t = true /\ sub_store t s /\ sol ps s (asg_of t).
Proof. exact (EngineProofs.solutions_satisfy BasicProofs.mk_leq_good BasicProofs.mk_gt_good BasicProofs.mk_lt_good). Qed.
Print Assumptions solutions_satisfy.

(* entry points: solve = first of enumerate, minimize = last of the improving sequence,
   maximize = minimize of the opposite view *)
Theorem solve_result_satisfies : forall pick ps s t,
  Forall good ps -> scoped ps (length s) -> wf_store s ->
  solve pick ps s = Some (Some t) -> all_fixed t = true /\ sub_store t s /\ sol ps s (asg_of t).
Proof. exact (EngineProofs.solve_result_satisfies BasicProofs.mk_leq_good BasicProofs.mk_gt_good BasicProofs.mk_lt_good). Qed.
Print Assumptions solve_result_satisfies.

Theorem minimize_result_satisfies : forall pick obj ps s t,
  Forall good ps -> scoped ps (length s) -> wf_store s -> view_ok obj ->
  (minimize pick obj ps s = Some (Some t) \/ maximize pick obj ps s = Some (Some t)) ->
  all_fixed t = true /\ sub_store t s /\ sol ps s (asg_of t).
Proof. exact (EngineProofs.minimize_result_satisfies BasicProofs.mk_leq_good BasicProofs.mk_gt_good BasicProofs.mk_lt_good). Qed.
Print Assumptions minimize_result_satisfies.
