(* C13 — views transform bounds exactly (integer views).  Statements only. *)
Require Import Selen.Model.Prelude Selen.Model.Dom Selen.Model.Views Selen.Model.PropDefs Selen.Model.Props.Basic.
Require Import Selen.Proofs.ViewsProofs.

(* the view's bounds are the least and greatest image of the domain's values *)
Theorem view_bounds_exact : forall w s x, view_ok w -> uvar w = Some x -> wf_dom (sget s x) ->
  (forall v, In v (sget s x) -> vmin w s <= vfun w v <= vmax w s) /\
  (exists v, In v (sget s x) /\ vfun w v = vmin w s) /\
  (exists v, In v (sget s x) /\ vfun w v = vmax w s) /\
  vmin w s = Z.min (vfun w (dmin (sget s x))) (vfun w (dmax (sget s x))) /\
  vmax w s = Z.max (vfun w (dmin (sget s x))) (vfun w (dmax (sget s x))).
Proof. exact ViewsProofs.view_bounds_exact. Qed.
Print Assumptions view_bounds_exact.

Theorem view_bounds_const : forall w s, uvar w = None -> vmin w s = vfun w 0 /\ vmax w s = vfun w 0.
Proof. exact ViewsProofs.view_bounds_const. Qed.
Print Assumptions view_bounds_const.

(* tightening a bound of the view removes from x exactly the values whose image violates it *)
Definition keeps (w : view) (mx : bool) (b : Z) (v : Z) : bool :=
  if mx then vfun w v <=? b else b <=? vfun w v.
Theorem view_tighten_exact : forall w mx b s ev s' ev' x, view_ok w -> uvar w = Some x -> wf_dom (sget s x) ->
  vset w mx b (s, ev) = Some (s', ev') ->
  sget s' x = filter (keeps w mx b) (sget s x) /\ (forall u, u <> x -> sget s' u = sget s u) /\ length s' = length s.
Proof. exact ViewsProofs.view_tighten_exact. Qed.
Print Assumptions view_tighten_exact.

Theorem view_tighten_fail_iff : forall w mx b s ev x, view_ok w -> uvar w = Some x -> wf_dom (sget s x) ->
  (vset w mx b (s, ev) = None <-> filter (keeps w mx b) (sget s x) = []).
Proof. exact ViewsProofs.view_tighten_fail_iff. Qed.
Print Assumptions view_tighten_fail_iff.

Theorem view_tighten_const : forall w mx b c, view_ok w -> uvar w = None ->
  (vset w mx b c = Some c /\ keeps w mx b 0 = true) \/ (vset w mx b c = None /\ keeps w mx b 0 = false).
Proof. exact ViewsProofs.view_tighten_const. Qed.
Print Assumptions view_tighten_const.

(* events: reported exactly when x's domain shrank *)
Theorem view_tighten_event : forall w mx b s ev s' ev' x, view_ok w -> uvar w = Some x ->
  wf_dom (sget s x) -> (x < length s)%nat -> vset w mx b (s, ev) = Some (s', ev') ->
  (ev' = ev ++ [x] /\ sget s' x <> sget s x) \/ (ev' = ev /\ s' = s).
Proof. exact ViewsProofs.view_tighten_event. Qed.
Print Assumptions view_tighten_event.

(* the smart constructors denote what they say, for every integer scale incl. 0 and negatives *)
Theorem vtimes_sem : forall w k, view_ok w -> view_ok (vtimes w k) /\ forall v, vfun (vtimes w k) v = vfun w v * k.
Proof. exact ViewsProofs.vtimes_sem. Qed.
Print Assumptions vtimes_sem.

Theorem vsem_vfun : forall w a x, uvar w = Some x -> vsem w a = vfun w (a x).
Proof. exact ViewsProofs.vsem_vfun. Qed.
Print Assumptions vsem_vfun.

(* derived postings of props/mod.rs mean what they say *)
Theorem derived_postings_sem : forall x y s a,
  sat (mk_sub x y s) a = (vsem x a - vsem y a =? a s) /\
  sat (mk_lt x y) a = (vsem x a <? vsem y a) /\
  sat (mk_gt x y) a = (vsem y a <? vsem x a) /\
  sat (mk_geq x y) a = (vsem y a <=? vsem x a).
Proof. exact ViewsProofs.derived_postings_sem. Qed.
Print Assumptions derived_postings_sem.

Example c13_nonvacuous :
  view_ok (VPlus (vtimes (VNext (VVar 0)) (-2)) 3) /\
  vset (VPlus (vtimes (VNext (VVar 0)) (-2)) 3) false (-3) ([[-3;-1;0;2;4]], []) = Some ([[-3;-1;0;2]], [0%nat]).
Proof. split; [cbn; lia | vm_compute; reflexivity]. Qed.
