(* C05 — the repaired NotEquals propagator satisfies the four local contracts.  Statements only. *)
Require Import Selen.Model.Prelude Selen.Model.Dom Selen.Model.Views Selen.Model.PropDefs Selen.Model.Props.Basic Selen.Model.Props.Neq.
Require Import Selen.Proofs.Props.NeqProofs.

Theorem neq_good : forall x y, view_ok x -> view_ok y -> good (mk_neq x y).
Proof. exact NeqProofs.mk_neq_good. Qed.
Print Assumptions neq_good.

Example c05_neq_nonvacuous :
  prune (mk_neq (VVar 0) (VPlus (VVar 1) 1)) ([[2];[-3;1;4]], []) = Some ([[2];[-3;1;4]], []) /\
  prune (mk_neq (VVar 0) (VVar 1)) ([[2];[2;4]], []) = Some ([[2];[4]], [1%nat]) /\
  prune (mk_neq (VVar 0) (VVar 1)) ([[2];[2]], []) = None.
Proof. repeat split; vm_compute; reflexivity. Qed.
