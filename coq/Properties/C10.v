(* C10 — fluent expressions and combinators mean what their arithmetic reading means
   (integer fragment: int / intset / bool variables, integer constants, + - * mod; `/` creates float
   variables and is outside the fragment).
   Model: Model/Api.v (trees, the fluent methods' folding, evaluation), Model/Lower.v (posting,
   linear normalisation, lowering to propagator descriptions, validation, known-class predicates).
   Statements only; proofs in Proofs/LowerProofs.v and Proofs/LowerSolve.v.

   Repaired (D3, class or_not): materialize_constraint_kind lowers Or and Not through
   reification (reify_constraint_kind: a fresh boolean per comparison tied by an Int*Reif / IntLin*Reif
   propagator, bool_and / bool_or / bool_not for the combinators; Or: the bool_or's result is 1, Not:
   the boolean is 0; Model/Lower.v reify, materialize).  lower_denotes, spellings_agree and
   fluent_model_solutions hold for EVERY tree (no class premise); the hidden booleans are
   existentially quantified like the auxiliary variables of compound sub-expressions (reify_denotes).
   The pre-repair lowering (Or like And outside `x==a || x==b`, Not as the identity) is kept as
   Lower.materialize_prefix / lower_prefix with its class predicate kf_or_not for the refutation
   lemmas or_prefix_refuted, not_prefix_refuted, any_of_prefix_refuted.
   Repaired (D3, 106df3d): a `!=` reaching the Binary arm (nested under and/or/not, or between
   non-linear sides) is lowered to the NotEquals propagator, which used to be a no-op and now
   prunes (Props/Neq.v, good: C05_Neq; pneq_good): the former class kf_nested_ne is gone,
   `impl_cons` is at once the meaning of the descriptions and what the engine enforces
   (nested_ne_repaired; the pre-repair behaviour: nested_ne_prefix_refuted).
   plus, after lowering: the validator rejects every modulo whose divisor (variable or compound)
   has bounds that contain 0 (mod_rejected_refuted; a constant divisor is accepted:
   mod_const_accepted).
   Repaired (D5): the auxiliary variables of compound sub-expressions have bounds computed from
   their operands (Lower.ebounds; soundness: ebounds_sound, aux_dom_sound) instead of the
   placeholder -1000..1000, so the former class kf_aux_bounds is gone.  In its place the theorems
   about whole programs carry the in-range condition `doms_nonempty s = true` on the lowered store:
   no variable has an empty domain; in particular no auxiliary variable's computed range has more
   than max_sparse_set_domain_size values (Lower.aux_dom represents such a variable by the empty
   domain; the validator answers InvalidDomain: aux_range_too_large).  It follows from
   validate s ps = None (validate_none_nonempty) and from wf_store s (fluent_model_solutions).
   Repaired: posting Var==Var on an emptied domain no longer panics (eq_on_empty_invalid). *)
Require Import Selen.Model.Prelude Selen.Model.Dom Selen.Model.Views Selen.Model.PropDefs.
Require Import Selen.Model.Props.Basic Selen.Model.Props.LinInt Selen.Model.Props.Logic Selen.Model.Propagate Selen.Model.Search Selen.Model.EngineSpec.
Require Import Selen.Model.Api Selen.Model.Lower.
Require Import Selen.Proofs.LowerProofs Selen.Proofs.LowerSolve.

(* ---- constant folding and identity elimination (ExprBuilder::add/sub/mul/modulo) ---- *)
Theorem fold_correct : forall e a, eval_expr (fold e) a = eval_expr e a.
Proof. exact LowerProofs.fold_correct. Qed.
Print Assumptions fold_correct.

Theorem fold_cons_correct : forall c a, eval_cons (fold_cons c) a = eval_cons c a.
Proof. exact LowerProofs.fold_cons_correct. Qed.
Print Assumptions fold_cons_correct.

(* ---- normalisation to linear form (try_extract_linear_form, try_convert_to_linear_ast) ---- *)
Theorem linearise_correct : forall e t k a, linform e = Some (t, k) -> eval_expr e a = Some (lin_sem t a + k).
Proof. exact LowerProofs.linearise_correct. Qed.
Print Assumptions linearise_correct.

Theorem to_linear_correct : forall c a, eval_cons (to_linear c) a = eval_cons c a.
Proof. exact LowerProofs.to_linear_correct. Qed.
Print Assumptions to_linear_correct.

(* ---- the computed bounds of auxiliary variables are sound: every value the expression takes on an
   assignment inside the store lies in them, and (unless the range was too large to materialise) in
   the auxiliary variable's domain ---- *)
Theorem ebounds_sound : forall (s : store) a e x, inst a s -> escoped (length s) e ->
  eval_expr e a = Some x -> fst (ebounds s e) <= x <= snd (ebounds s e).
Proof. exact EBoundsSound.ebounds_sound. Qed.
Print Assumptions ebounds_sound.

Theorem aux_dom_sound : forall (s : store) a e x, inst a s -> escoped (length s) e ->
  eval_expr e a = Some x -> aux_dom s e <> [] -> In x (aux_dom s e).
Proof. exact EBoundsSound.aux_dom_sound. Qed.
Print Assumptions aux_dom_sound.

(* ---- reification (the repair of D3): reify_constraint_kind returns a boolean variable that
   carries the truth value of the tree.  `vspec R st v st'` (LowerProofs.v): every assignment of the
   extended store that satisfies the added propagators restricts to one of the old store and has
   R a (a v); every assignment of the old store with R a x extends (auxiliaries and hidden booleans)
   to one with a' v = x -- for final stores without an empty domain.  Rc c a x: the tree is defined
   at a and x is its truth value as 0 / 1 ---- *)
Theorem reify_denotes : forall c st, cscoped (nvars st) c ->
  vspec (Rc c) st (fst (reify c st)) (snd (reify c st)).
Proof. exact LowerProofs.reify_ok. Qed.
Print Assumptions reify_denotes.

(* ---- one tree: materialize_constraint_kind adds exactly `impl_cons c` (induction on trees;
   auxiliary variables, immediate Var==Val edits, the Or special case, Or / Not through reification).
   `step` (LowerProofs.v): soundness unconditionally; completeness for final stores without an
   empty domain.  impl_cons IS the arithmetic reading (impl_is_holds) ---- *)
Theorem materialize_denotes : forall c st, cscoped (nvars st) c ->
  step st (materialize c st) (fun a => impl_cons c a = true).
Proof. exact LowerProofs.materialize_ok. Qed.
Print Assumptions materialize_denotes.

Theorem impl_is_holds : forall c a, impl_cons c a = holds c a.
Proof. exact LowerProofs.impl_holds. Qed.
Print Assumptions impl_is_holds.

(* ---- whole programs (declarations, then any sequence of m.new / lin_eq / lin_le / lin_ne): exact denotation of
   the lowered model, known classes included; the last conjunct is the in-range condition ---- *)
Theorem lower_denotes_exact : forall decls posts,
  forallb is_decl decls = true -> Forall (post_wf (length decls)) posts ->
  forall s ps, lower (build (decls ++ posts)) = LOk s ps ->
  forall a, (exists a', agree (length decls) a a' /\ inst a' s /\ allsat ps a') <->
            (inst a (map decl_dom decls) /\ (forall c, In c (post_forms posts) -> impl_cons c a = true) /\
             doms_nonempty s = true).
Proof. exact LowerProofs.lower_denotes_exact. Qed.
Print Assumptions lower_denotes_exact.

Theorem validate_none_nonempty : forall s ps, validate s ps = None -> doms_nonempty s = true.
Proof. exact LowerProofs.validate_none_nonempty. Qed.
Print Assumptions validate_none_nonempty.

(* ---- the property: the lowered model means the trees -- comparisons and every and / or / not
   combination of them (no known-class premise since the repair of D3) ---- *)
Theorem lower_denotes : forall decls posts,
  forallb is_decl decls = true -> Forall (post_wf (length decls)) posts ->
  forall s ps, lower (build (decls ++ posts)) = LOk s ps -> doms_nonempty s = true ->
  forall a, (exists a', agree (length decls) a a' /\ inst a' s /\ allsat ps a') <->
            (inst a (map decl_dom decls) /\
             forall st c, In st posts -> stmt_cons st = Some c -> eval_cons c a = Some true).
Proof. exact LowerProofs.lower_denotes. Qed.
Print Assumptions lower_denotes.

Theorem spellings_agree : forall decls posts1 posts2 s1 ps1 s2 ps2,
  forallb is_decl decls = true ->
  Forall (post_wf (length decls)) posts1 -> Forall (post_wf (length decls)) posts2 ->
  (forall a, (forall st c, In st posts1 -> stmt_cons st = Some c -> eval_cons c a = Some true) <->
             (forall st c, In st posts2 -> stmt_cons st = Some c -> eval_cons c a = Some true)) ->
  lower (build (decls ++ posts1)) = LOk s1 ps1 -> lower (build (decls ++ posts2)) = LOk s2 ps2 ->
  doms_nonempty s1 = true -> doms_nonempty s2 = true ->
  forall a, (exists a', agree (length decls) a a' /\ inst a' s1 /\ allsat ps1 a') <->
            (exists a', agree (length decls) a a' /\ inst a' s2 /\ allsat ps2 a').
Proof. exact LowerProofs.spellings_agree. Qed.
Print Assumptions spellings_agree.

Theorem spelling_add_le : forall x y z a,
  eval_cons (CBin (EAdd (EVar x) (EVar y)) OLe (EVar z)) a = eval_cons (CLinInt [1; 1; -1] [x; y; z] OLe 0) a /\
  eval_cons (CBin (EVar z) OGe (EAdd (EVar y) (EVar x))) a = eval_cons (CLinInt [1; 1; -1] [x; y; z] OLe 0) a.
Proof. exact LowerProofs.spelling_add_le. Qed.
Print Assumptions spelling_add_le.

(* ---- C10 + C03: what enumerate returns for a fluent model.  `den` is any denotation of the
   descriptions into propagator records with `sat = psat` (Props/Basic.v, LinInt.v, Arith.v); the
   local contracts of those records are C05's theorems and enter as the premise Forall good ---- *)
Theorem fluent_model_solutions : forall (den : pdesc -> prop), (forall p a, sat (den p) a = psat p a) ->
  forall decls posts s ps pick sols best,
  forallb is_decl decls = true ->
  Forall (post_wf (length decls)) posts ->
  lower (build (decls ++ posts)) = LOk s ps ->
  Forall good (map den ps) -> scoped (map den ps) (length s) -> wf_store s ->
  enumerate pick (map den ps) s = SOk sols best ->
  let means a := inst a (map decl_dom decls) /\ forall st c, In st posts -> stmt_cons st = Some c -> eval_cons c a = Some true in
  NoDup sols /\
  (forall t, In t sols -> all_fixed t = true /\ means (asg_of t)) /\
  (forall a, means a -> exists t, In t sols /\ agree (length decls) a (asg_of t)).
Proof. exact LowerSolve.fluent_model_solutions. Qed.
Print Assumptions fluent_model_solutions.

(* ---- D3 before the repair: the pre-repair lowering (lower_prefix) lost assignments or let wrong ones through ---- *)
Theorem or_prefix_refuted : exists decls c a s ps,
  kf_or_not (fold_cons c) = true /\ lower_prefix (build (decls ++ [SNew c])) = LOk s ps /\
  inst a (map decl_dom decls) /\ eval_cons c a = Some true /\
  ~ (exists a', agree (length decls) a a' /\ inst a' s /\ allsat ps a').
Proof. exact LowerProofs.or_prefix_refuted. Qed.
Print Assumptions or_prefix_refuted.

Theorem not_prefix_refuted : exists decls c a s ps,
  kf_or_not (fold_cons c) = true /\ lower_prefix (build (decls ++ [SNew c])) = LOk s ps /\
  inst a (map decl_dom decls) /\ eval_cons c a = Some true /\
  ~ (exists a', agree (length decls) a a' /\ inst a' s /\ allsat ps a').
Proof. exact LowerProofs.not_prefix_refuted. Qed.
Print Assumptions not_prefix_refuted.

(* ---- D3 repaired: the same witnesses.  x in 0..3: x <= 1 \/ x >= 3 has exactly 0, 1, 3;
   not (x <= 1) exactly 2, 3; the lowered models are in range and valid ---- *)
Theorem or_repaired : exists s ps,
  lower (build ([SInt 0 3] ++ [SNew (COr (CBin x0 OLe (EVal 1)) (CBin x0 OGe (EVal 3)))])) = LOk s ps /\
  doms_nonempty s = true /\ validate s ps = None /\
  (forall k, In k [0; 1; 3] -> exists a', agree 1 (fun _ => k) a' /\ inst a' s /\ allsat ps a') /\
  ~ (exists a', agree 1 (fun _ => 2) a' /\ inst a' s /\ allsat ps a').
Proof. exact LowerProofs.or_repaired. Qed.
Print Assumptions or_repaired.

Theorem not_repaired : exists s ps,
  lower (build ([SInt 0 3] ++ [SNew (CNot (CBin x0 OLe (EVal 1)))])) = LOk s ps /\
  doms_nonempty s = true /\ validate s ps = None /\
  (forall k, In k [2; 3] -> exists a', agree 1 (fun _ => k) a' /\ inst a' s /\ allsat ps a') /\
  (forall k, In k [0; 1] -> ~ (exists a', agree 1 (fun _ => k) a' /\ inst a' s /\ allsat ps a')).
Proof. exact LowerProofs.not_repaired. Qed.
Print Assumptions not_repaired.

(* the propagators the reified lowering pushes meet the local contracts (C05_Logic, C05) *)
Theorem reified_kinds_good :
  (forall op x y b, good (den_basic (PCmpR op x y b))) /\
  (forall xs r, good (den_basic (PAndR xs r))) /\ (forall xs r, good (den_basic (POrR xs r))) /\
  (forall o r, good (den_basic (PNotR o r))) /\
  (forall cs xs k b, all_zero cs xs = false ->
     good (den_basic (PLinEqR cs xs k b)) /\ good (den_basic (PLinLeR cs xs k b)) /\ good (den_basic (PLinNeR cs xs k b))).
Proof.
  exact (conj LowerSolve.pcmpr_good (conj LowerSolve.pandr_good (conj LowerSolve.porr_good (conj LowerSolve.pnotr_good LowerSolve.plinr_good)))).
Qed.
Print Assumptions reified_kinds_good.

(* end to end through the engine model (enumerate, fifo): x in 0..3; x <= 1 \/ x >= 3 yields x = 0, 1, 3;
   not (x <= 1) yields 2, 3; not (x <= 0 \/ (x >= 2 /\ x != 3)) yields 1, 3 -- each once *)
Theorem or_not_repaired_enumerate :
  (exists s ps sols best,
    lower (build ([SInt 0 3] ++ [SNew (COr (CBin x0 OLe (EVal 1)) (CBin x0 OGe (EVal 3)))])) = LOk s ps /\
    enumerate fifo (map den_basic ps) s = SOk sols best /\ user0 sols = [0; 1; 3]) /\
  (exists s ps sols best,
    lower (build ([SInt 0 3] ++ [SNew (CNot (CBin x0 OLe (EVal 1)))])) = LOk s ps /\
    enumerate fifo (map den_basic ps) s = SOk sols best /\ user0 sols = [2; 3]) /\
  (exists s ps sols best,
    let c := CNot (COr (CBin x0 OLe (EVal 0)) (CAnd (CBin x0 OGe (EVal 2)) (CBin x0 ONe (EVal 3)))) in
    lower (build ([SInt 0 3] ++ [SNew c])) = LOk s ps /\
    enumerate fifo (map den_basic ps) s = SOk sols best /\ user0 sols = [1; 3]).
Proof. exact LowerSolve.or_not_repaired_enumerate. Qed.
Print Assumptions or_not_repaired_enumerate.

(* ---- repaired (D5): the product of x = y = 50 fits its auxiliary variable; the lowered model is
   in range, valid, and has the solution ---- *)
Theorem aux_bounds_repaired : exists s ps,
  lower (build ([SInt 50 50; SInt 50 50] ++ [SNew (CBin (EMul x0 x1) OEq (EVal 2500))])) = LOk s ps /\
  doms_nonempty s = true /\ validate s ps = None /\
  exists a', agree 2 (fun _ => 50) a' /\ inst a' s /\ allsat ps a'.
Proof. exact LowerProofs.aux_bounds_repaired. Qed.
Print Assumptions aux_bounds_repaired.

(* ---- the in-range condition is not vacuous: a computed range of more than
   max_sparse_set_domain_size values is rejected by the validator ---- *)
Theorem aux_range_too_large : exists s ps,
  lower (build ([SInt 0 1000; SInt 0 1001] ++ [SNew (CBin (EMul x0 x1) OEq (EVal 2500))])) = LOk s ps /\
  doms_nonempty s = false /\ validate s ps = Some EInvalidDomain /\
  eval_cons (CBin (EMul x0 x1) OEq (EVal 2500)) (fun _ => 50) = Some true.
Proof. exact LowerProofs.aux_range_too_large. Qed.
Print Assumptions aux_range_too_large.

(* ---- repaired (D3): a nested `!=` is enforced ---- *)
Theorem pneq_good : forall x y, view_ok x -> view_ok y -> good (den_basic (PNeq x y)).
Proof. exact LowerSolve.pneq_good. Qed.
Print Assumptions pneq_good.

Theorem nested_ne_repaired : exists s ps sols best,
  let c := CAnd (CBin x0 ONe x1) (CBin x0 OLe (EVal 1)) in
  lower (build ([SInt 0 1; SInt 0 1] ++ [SNew c])) = LOk s ps /\
  enumerate fifo (map den_basic ps) s = SOk sols best /\ length sols = 2%nat /\
  forall t, In t sols -> eval_cons c (asg_of t) = Some true.
Proof. exact LowerSolve.nested_ne_repaired. Qed.
Print Assumptions nested_ne_repaired.

(* the pre-repair NotEquals record (a no-op) on the same lowered model yields x = y = 0 *)
Theorem nested_ne_prefix_refuted : exists s ps sols best t,
  let c := CAnd (CBin x0 ONe x1) (CBin x0 OLe (EVal 1)) in
  lower (build ([SInt 0 1; SInt 0 1] ++ [SNew c])) = LOk s ps /\
  enumerate fifo (map den_basic_prefix ps) s = SOk sols best /\ In t sols /\ eval_cons c (asg_of t) = Some false.
Proof. exact LowerSolve.nested_ne_prefix_refuted. Qed.
Print Assumptions nested_ne_prefix_refuted.

Theorem mod_rejected_refuted : exists decls c a s ps,
  lower (build (decls ++ [SNew c])) = LOk s ps /\ validate s ps = Some EInvalidConstraint /\
  inst a (map decl_dom decls) /\ eval_cons c a = Some true.
Proof. exact LowerProofs.mod_rejected_refuted. Qed.
Print Assumptions mod_rejected_refuted.

Theorem mod_const_accepted : exists s ps,
  lower (build ([SInt 0 9] ++ [SNew (CBin (EMod x0 (EVal 3)) OEq (EVal 1))])) = LOk s ps /\ validate s ps = None.
Proof. exact LowerProofs.mod_const_accepted. Qed.
Print Assumptions mod_const_accepted.

(* ---- repaired: Var==Var on an emptied domain is an invalid model, not a panic ---- *)
Theorem eq_on_empty_invalid : exists s ps,
  lower (build [SInt 0 1; SNew (CBin x0 OEq (EVal 5)); SNew (CBin x0 OEq x0)]) = LOk s ps /\
  validate s ps = Some EInvalidDomain.
Proof. exact LowerProofs.eq_on_empty_invalid. Qed.
Print Assumptions eq_on_empty_invalid.

(* ---- non-vacuity: a tree with repeated variables, constants on both sides, a product and a
   conjunction lies outside the class; its lowering is the dump the tie compares ---- *)
Example c10_outside_classes :
  let c := CAnd (CBin (ESub (EMul x0 x1) (EMul (EVal 2) x0)) OGe (EAdd x1 (EVal (-3))))
                (CBin (EAdd x0 x0) OLt (EAdd (EMul x1 (EVal 3)) (EVal 1))) in
  kf_or_not (fold_cons c) = false.
Proof. exact LowerProofs.outside_classes. Qed.

Example c10_lowering_example :
  lower (build [SInt 0 3; SInt 0 3; SNew (CBin (EAdd x0 (EMul x1 (EVal 1))) OLe (EAdd (EVal 1) (EVal 2)));
                SNew (CBin (EMul x0 x1) OEq (EVal 2))])
  = LOk [drange 0 3; drange 0 3; drange 0 9; [2]]
        [PLinLe [1; 1] [0%nat; 1%nat] 3; PMul (VVar 0) (VVar 1) 2; PEq (VVar 2) (VVar 3)].
Proof. vm_compute. reflexivity. Qed.

(* the dump of a reified lowering: x0 in 0..3, not (x0 <= 1 \/ x0 * x0 == 4) *)
Example c10_reified_lowering_example :
  lower (build [SInt 0 3; SNew (CNot (COr (CBin x0 OLe (EVal 1)) (CBin (EMul x0 x0) OEq (EVal 4))))])
  = LOk [drange 0 3; [1]; drange 0 1; drange 0 9; [4]; drange 0 1; drange 0 1]
        [PCmpR OLe 0 1 2; PMul (VVar 0) (VVar 0) 3; PCmpR OEq 3 4 5; POrR [2%nat; 5%nat] 6; PEq (VVar 6) (VConst 0)].
Proof. vm_compute. reflexivity. Qed.

(* ---- the helpers over a Vec<Constraint>: and_all / or_all (Constraint::and_all / or_all and the free functions),
   all_of = and_all, any_of = or_all (Model/Api.v c_and_all ..): None exactly on the empty vector, otherwise a
   left-nested chain ---- *)
Theorem and_all_none : forall cs, c_and_all cs = None <-> cs = [].
Proof. exact LowerProofs.and_all_none. Qed.
Print Assumptions and_all_none.
Theorem or_all_none : forall cs, c_or_all cs = None <-> cs = [].
Proof. exact LowerProofs.or_all_none. Qed.
Print Assumptions or_all_none.
Theorem all_of_is_and_all : forall cs, c_all_of cs = c_and_all cs.
Proof. exact LowerProofs.all_of_is_and_all. Qed.
Print Assumptions all_of_is_and_all.
Theorem any_of_is_or_all : forall cs, c_any_of cs = c_or_all cs.
Proof. exact LowerProofs.any_of_is_or_all. Qed.
Print Assumptions any_of_is_or_all.
(* the arithmetic reading *)
Theorem and_all_holds : forall cs c a, c_and_all cs = Some c -> holds c a = forallb (fun x => holds x a) cs.
Proof. exact LowerProofs.and_all_holds. Qed.
Print Assumptions and_all_holds.
Theorem or_all_eval : forall cs c a, c_or_all cs = Some c ->
  eval_cons c a = if forallb (fun x => defined x a) cs then Some (existsb (fun x => holds x a) cs) else None.
Proof. exact LowerProofs.or_all_eval. Qed.
Print Assumptions or_all_eval.
(* lowering: and_all / all_of is faithful — the members are materialised one after the other, the chain is in the
   former class kf_or_not only if a member is, and what the lowering enforces is the conjunction *)
Theorem and_all_materialize : forall cs c st, c_and_all cs = Some c ->
  materialize c st = fold_left (fun st x => materialize x st) cs st.
Proof. exact LowerProofs.and_all_materialize. Qed.
Print Assumptions and_all_materialize.
Theorem and_all_kf : forall cs c, c_and_all cs = Some c -> kf_or_not c = existsb kf_or_not cs.
Proof. exact LowerProofs.and_all_kf. Qed.
Print Assumptions and_all_kf.
Theorem and_all_impl : forall cs c a, c_and_all cs = Some c -> impl_cons c a = forallb (fun x => impl_cons x a) cs.
Proof. exact LowerProofs.and_all_impl. Qed.
Print Assumptions and_all_impl.
(* or_all / any_of of three or more members always lay in the former class D3 (kf_or_not: the trees the
   pre-repair lowering got wrong); the repaired lowering handles the chain by nested reification *)
Theorem or_all_kf : forall c0 c1 c2 r c, c_or_all (c0 :: c1 :: c2 :: r) = Some c -> kf_or_not c = true.
Proof. exact LowerProofs.or_all_kf. Qed.
Print Assumptions or_all_kf.
Theorem any_of_prefix_refuted : exists decls cs c a s ps,
  c_any_of cs = Some c /\ kf_or_not (fold_cons c) = true /\ lower_prefix (build (decls ++ [SNew c])) = LOk s ps /\
  inst a (map decl_dom decls) /\ eval_cons c a = Some true /\
  ~ (exists a', agree (length decls) a a' /\ inst a' s /\ allsat ps a').
Proof. exact LowerProofs.any_of_prefix_refuted. Qed.
Print Assumptions any_of_prefix_refuted.
(* repaired: x in 0..3, any_of([x <= 0, x == 2, x >= 3]) has exactly 0, 2, 3 *)
Theorem any_of_repaired : exists cs s ps,
  c_any_of cs = Some (COr (COr (CBin x0 OLe (EVal 0)) (CBin x0 OEq (EVal 2))) (CBin x0 OGe (EVal 3))) /\
  lower (build ([SInt 0 3] ++ [SNew (COr (COr (CBin x0 OLe (EVal 0)) (CBin x0 OEq (EVal 2))) (CBin x0 OGe (EVal 3)))])) = LOk s ps /\
  doms_nonempty s = true /\ validate s ps = None /\
  (forall k, In k [0; 2; 3] -> exists a', agree 1 (fun _ => k) a' /\ inst a' s /\ allsat ps a') /\
  ~ (exists a', agree 1 (fun _ => 1) a' /\ inst a' s /\ allsat ps a').
Proof. exact LowerProofs.any_of_repaired. Qed.
Print Assumptions any_of_repaired.
