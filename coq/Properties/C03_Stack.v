(* C03 (engine shape) — the iterative engine refines the recursive search the other theorems are
   about.  The code's engine (search/mod.rs `impl Iterator for Engine`, search/branch.rs) is a
   loop over an explicit stack of suspended branch iterators, resumed once per `next()` call;
   Model/EngineStack.v is a literal model of it.  C01–C04, C14, C15 are proved over the recursive
   functions `dfs` (Model/Search.v) and `dfs_lim` (Model/Limits.v).  These theorems close the gap:
   for every scheduler, mode, check interval, clock, memory limit and propagation-deadline oracle
   (`giveup`, Model/Limits.v), and every propagator list
   and store (no contract needed), the machine yields the same solutions in the same order, ends
   with the same mode state, the same iteration / check counters, the same stop reason and the
   same stack depth as the recursion.  Statements only. *)
Require Import Selen.Model.Prelude Selen.Model.Dom Selen.Model.Views Selen.Model.PropDefs.
Require Import Selen.Model.Props.Basic Selen.Model.Props.LinInt Selen.Model.Propagate.
Require Import Selen.Model.Search Selen.Model.Limits Selen.Model.EngineStack.
Require Import Selen.Proofs.EngineStackProofs.

(* Model::minimize / enumerate_with_stats: next() is called until it returns None.  `l` = the
   counters before the first call, `l1` after the first pass through the head of the outer loop
   (search_lim does that tick before calling dfs_lim).  One call per solution plus the final one,
   and engine_fuel fuel = 4 * 2^fuel - 3 loop steps per call, always suffice. *)
Theorem engine_run_refines_dfs_lim :
  forall pick m interval clock mlimit giveup fuel ps s best l l1 sols b l' why d calls fuel',
  tick interval clock mlimit 0 l = inl l1 ->
  dfs_lim pick m interval clock mlimit giveup true fuel 0 ps s best l1 = LStop sols b l' why d ->
  (S (length sols) <= calls)%nat -> (engine_fuel fuel <= fuel')%nat ->
  lres_of (engine_run pick m interval clock mlimit giveup calls fuel' (engine_start ps s best l))
  = LStop sols b l' why d.
Proof. exact EngineStackProofs.engine_run_refines_dfs_lim. Qed.
Print Assumptions engine_run_refines_dfs_lim.

(* Model::solve: a single call of next() *)
Theorem engine_first_refines_dfs_lim :
  forall pick m interval clock mlimit giveup fuel ps s best l l1 sols b l' why d fuel',
  tick interval clock mlimit 0 l = inl l1 ->
  dfs_lim pick m interval clock mlimit giveup false fuel 0 ps s best l1 = LStop sols b l' why d ->
  (engine_fuel fuel <= fuel')%nat ->
  lres_of (engine_first pick m interval clock mlimit giveup fuel' (engine_start ps s best l))
  = LStop sols b l' why d.
Proof. exact EngineStackProofs.engine_first_refines_dfs_lim. Qed.
Print Assumptions engine_first_refines_dfs_lim.

(* a limit seen at the very first check stops both before anything is explored *)
Theorem engine_first_check :
  forall pick m interval clock mlimit giveup ps s best l w l' calls fuel,
  tick interval clock mlimit 0 l = inr (w, l') ->
  lres_of (engine_run pick m interval clock mlimit giveup (S calls) fuel (engine_start ps s best l))
  = LStop [] best l' (SLimit w) 0 /\
  lres_of (engine_first pick m interval clock mlimit giveup fuel (engine_start ps s best l))
  = LStop [] best l' (SLimit w) 0.
Proof.
  intros. split.
  - apply EngineStackProofs.engine_run_first_check; assumption.
  - apply EngineStackProofs.engine_first_first_check; assumption.
Qed.
Print Assumptions engine_first_check.

(* whenever neither runs out of fuel, with whatever fuels, they agree *)
Theorem engine_run_agrees_dfs_lim :
  forall pick m interval clock mlimit giveup fuel calls fuel' ps s best l l1 r,
  tick interval clock mlimit 0 l = inl l1 ->
  dfs_lim pick m interval clock mlimit giveup true fuel 0 ps s best l1 <> LFuel ->
  engine_run pick m interval clock mlimit giveup calls fuel' (engine_start ps s best l) = r -> r <> RFuel ->
  lres_of r = dfs_lim pick m interval clock mlimit giveup true fuel 0 ps s best l1.
Proof. exact EngineStackProofs.engine_run_agrees_dfs_lim. Qed.
Print Assumptions engine_run_agrees_dfs_lim.

Theorem engine_first_agrees_dfs_lim :
  forall pick m interval clock mlimit giveup fuel fuel' ps s best l l1 r,
  tick interval clock mlimit 0 l = inl l1 ->
  dfs_lim pick m interval clock mlimit giveup false fuel 0 ps s best l1 <> LFuel ->
  engine_first pick m interval clock mlimit giveup fuel' (engine_start ps s best l) = r -> r <> RFuel ->
  lres_of r = dfs_lim pick m interval clock mlimit giveup false fuel 0 ps s best l1.
Proof. exact EngineStackProofs.engine_first_agrees_dfs_lim. Qed.
Print Assumptions engine_first_agrees_dfs_lim.

(* the repair limits_deep at the level of the machine: an evaluation of the `while` test that
   leaves the stack one frame deeper (a descent into a stalled child) has counted an iteration and
   passed the periodic limit test with the deeper stack; when that test fires, next() returns None
   there.  Before the repair a descent counted nothing and tested nothing. *)
Theorem push_passes_limit_test :
  forall pick m interval clock mlimit giveup e e',
  while_step pick m interval clock mlimit giveup e = WCont e' ->
  length (stack e') = S (length (stack e)) ->
  tick interval clock mlimit (length (stack e')) (lst e) = inl (lst e') /\
  iters (lst e') = iters (lst e) + 1.
Proof. exact EngineStackProofs.push_passes_limit_test. Qed.
Print Assumptions push_passes_limit_test.

Theorem push_stopped_by_limit :
  forall pick m interval clock mlimit giveup e w e',
  while_step pick m interval clock mlimit giveup e = WLimit w e' ->
  length (stack e') = S (length (stack e)) ->
  tick interval clock mlimit (length (stack e')) (lst e) = inr (w, lst e') /\
  iters (lst e') = iters (lst e) + 1.
Proof. exact EngineStackProofs.push_stopped_by_limit. Qed.
Print Assumptions push_stopped_by_limit.

(* the whole entry point (root propagation, then the engine) against Limits.search_lim, which is
   what solve_lim / minimize_lim / enumerate_lim of C15 are defined on *)
Theorem engine_search_refines_search_lim :
  forall pick m interval clock mlimit giveup resume ps s r,
  search_lim pick m interval clock mlimit giveup resume ps s = r -> r <> inl LFuel ->
  exists calls0 fuel0, forall calls fuel, (calls0 <= calls)%nat -> (fuel0 <= fuel)%nat ->
    engine_search pick m interval clock mlimit giveup resume calls fuel ps s = r.
Proof. exact EngineStackProofs.engine_search_refines_search_lim. Qed.
Print Assumptions engine_search_refines_search_lim.

(* no timeout, no memory limit: the machine run to exhaustion yields exactly dfs's list and final
   mode state, and ends with an empty stack — for every interval and starting counters *)
Theorem engine_run_unlimited :
  forall pick m interval fuel ps s best l all ball calls fuel',
  dfs pick m fuel ps s best = SOk all ball ->
  (S (length all) <= calls)%nat -> (engine_fuel fuel <= fuel')%nat ->
  exists e', engine_run pick m interval never None nogiveup calls fuel' (engine_start ps s best l)
             = RStop all e' SExhausted /\ EngineStack.best e' = ball /\ stack e' = [].
Proof. exact EngineStackProofs.engine_run_unlimited. Qed.
Print Assumptions engine_run_unlimited.

(* ... and so for the entry points `enumerate` (m = None) and `minimize` (m = Some obj) *)
Theorem engine_run_enumerate : forall pick m ps s all ball,
  search pick m ps s = SOk all ball ->
  exists calls0 fuel0, forall calls fuel, (calls0 <= calls)%nat -> (fuel0 <= fuel)%nat ->
    engine_enumerate pick m calls fuel ps s = SOk all ball.
Proof. exact EngineStackProofs.engine_run_enumerate. Qed.
Print Assumptions engine_run_enumerate.

Theorem engine_enumerate_agrees : forall pick m calls fuel ps s,
  search pick m ps s <> SFuel ->
  engine_enumerate pick m calls fuel ps s <> SFuel ->
  engine_enumerate pick m calls fuel ps s = search pick m ps s.
Proof. exact EngineStackProofs.engine_enumerate_agrees. Qed.
Print Assumptions engine_enumerate_agrees.

(* ---------------------------------------------------------------------------------------------- *)
(* non-vacuity: x, y, z in 0..3 pairwise different with x + y + z = 5 *)
Definition c03s_ps : list prop :=
  [mk_lin_ne [1;-1] [0%nat;1%nat] 0; mk_lin_ne [1;-1] [1%nat;2%nat] 0; mk_lin_ne [1;-1] [0%nat;2%nat] 0;
   mk_lin_eq [1;1;1] [0%nat;1%nat;2%nat] 5].
Definition c03s_s : store := [[0;1;2;3];[0;1;2;3];[0;1;2;3]].

(* enumeration: six solutions; the machine pushes to depth 2, backtracks (pops) and meets failed
   children on the way, and yields what the recursion yields *)
Example c03_stack_nonvacuous :
  engine_enumerate fifo None 7 20 c03s_ps c03s_s
  = SOk [[[0];[2];[3]]; [[0];[3];[2]]; [[2];[0];[3]]; [[2];[3];[0]]; [[3];[0];[2]]; [[3];[2];[0]]] None /\
  enumerate fifo c03s_ps c03s_s = engine_enumerate fifo None 7 20 c03s_ps c03s_s /\
  engine_trace fifo None 1 never None nogiveup 30 (engine_init c03s_ps c03s_s)
  = [TPush; TPush; TYield; TYield; TPop; TFail; TPop; TPush; TPush; TYield; TYield; TPop;
     TPush; TPush; TYield; TFail; TPop; TYield; TPop; TPop; TEnd].
Proof. repeat split; vm_compute; reflexivity. Qed.

(* minimisation of z: the improving solutions, the final bound, and pruned (failed) children *)
Example c03_stack_minimize :
  engine_enumerate fifo (Some (VVar 2)) 4 20 c03s_ps c03s_s
  = SOk [[[0];[2];[3]]; [[0];[3];[2]]; [[2];[3];[0]]] (Some 0) /\
  search fifo (Some (VVar 2)) c03s_ps c03s_s = engine_enumerate fifo (Some (VVar 2)) 4 20 c03s_ps c03s_s /\
  engine_trace fifo (Some (VVar 2)) 1 never None nogiveup 30 (engine_init c03s_ps c03s_s)
  = [TPush; TPush; TYield; TYield; TPop; TFail; TPop; TPush; TYield; TFail; TPop; TEnd].
Proof. repeat split; vm_compute; reflexivity. Qed.

(* limits: a check every 2 iterations (pushes count), the clock expired from the 6th check on: both
   stop after four solutions, on the pop that brings the stack back to depth 1, with the same counters *)
Example c03_stack_limited :
  engine_search fifo None 2 (from_check 6) None nogiveup true 5 20 c03s_ps c03s_s
  = inl (LStop [[[0];[2];[3]]; [[0];[3];[2]]; [[2];[0];[3]]; [[2];[3];[0]]] None (mkl 12 6) (SLimit LTimeout) 1) /\
  search_lim fifo None 2 (from_check 6) None nogiveup true c03s_ps c03s_s
  = engine_search fifo None 2 (from_check 6) None nogiveup true 5 20 c03s_ps c03s_s /\
  engine_trace fifo None 2 (from_check 6) None nogiveup 30 (engine_init c03s_ps c03s_s)
  = [TPush; TPush; TYield; TYield; TPop; TFail; TPop; TPush; TPush; TYield; TYield; TPop; TLimit].
Proof. repeat split; vm_compute; reflexivity. Qed.

(* ... expired from the 4th check on: both stop after two solutions ON A DESCENT (the push that takes
   the stack from depth 0 to depth 1 is the 8th counted step), with the child already pushed *)
Example c03_stack_limited_on_descent :
  engine_search fifo None 2 (from_check 4) None nogiveup true 5 20 c03s_ps c03s_s
  = inl (LStop [[[0];[2];[3]]; [[0];[3];[2]]] None (mkl 8 4) (SLimit LTimeout) 1) /\
  search_lim fifo None 2 (from_check 4) None nogiveup true c03s_ps c03s_s
  = engine_search fifo None 2 (from_check 4) None nogiveup true 5 20 c03s_ps c03s_s /\
  engine_trace fifo None 2 (from_check 4) None nogiveup 30 (engine_init c03s_ps c03s_s)
  = [TPush; TPush; TYield; TYield; TPop; TFail; TPop; TPush; TLimit].
Proof. repeat split; vm_compute; reflexivity. Qed.

(* a propagation given up at the deadline (oracle: the child spaces with 6 propagators whose first
   variable has minimum 2): after two solutions the engine descends into x0 > 1 (push), the
   propagation of the next child is given up and next() returns None with that frame on the stack;
   machine and recursion agree on everything (check at every step: 8 steps, 8 checks) *)
Definition c03s_giveup : list prop -> store -> bool :=
  fun ps s => (length ps =? 6)%nat && (hd 0 (nth 0 s []) =? 2).
Example c03_stack_giveup :
  engine_search fifo None 1 never None c03s_giveup true 5 20 c03s_ps c03s_s
  = inl (LStop [[[0];[2];[3]]; [[0];[3];[2]]] None (mkl 8 8) (SLimit LTimeout) 1) /\
  search_lim fifo None 1 never None c03s_giveup true c03s_ps c03s_s
  = engine_search fifo None 1 never None c03s_giveup true 5 20 c03s_ps c03s_s /\
  engine_trace fifo None 1 never None c03s_giveup 30 (engine_init c03s_ps c03s_s)
  = [TPush; TPush; TYield; TYield; TPop; TFail; TPop; TPush; TFail; TLimit].
Proof. repeat split; vm_compute; reflexivity. Qed.

(* Model::solve: one call, the consumer stops at the first solution with two iterators suspended;
   three steps were counted (the first next() and two pushes), one of them a multiple of 3 *)
Example c03_stack_first :
  engine_search fifo None 3 never None nogiveup false 0 20 c03s_ps c03s_s
  = inl (LStop [[[0];[2];[3]]] None (mkl 3 1) SConsumer 2) /\
  search_lim fifo None 3 never None nogiveup false c03s_ps c03s_s
  = engine_search fifo None 3 never None nogiveup false 0 20 c03s_ps c03s_s.
Proof. repeat split; vm_compute; reflexivity. Qed.
