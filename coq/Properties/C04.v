(* C04 — minimize/maximize return a feasible assignment with the true optimum (branch and bound
   of search/mode.rs; the root LP step and the optimisation fast path are outside this model, see
   DESIGN.md known finding D10).  Statements only. *)
Require Import Selen.Model.Prelude Selen.Model.Dom Selen.Model.Views Selen.Model.PropDefs.
Require Import Selen.Model.Props.Basic Selen.Model.Propagate Selen.Model.Search Selen.Model.EngineSpec.
Require Import Selen.Proofs.Props.BasicProofs Selen.Proofs.EngineProofs.

Theorem minimize_optimal : forall pick obj ps s t,
  Forall good ps -> scoped ps (length s) -> wf_store s -> view_ok obj ->
  (forall x, uvar obj = Some x -> (x < length s)%nat) ->
  minimize pick obj ps s = Some (Some t) ->
  sol ps s (asg_of t) /\ forall a, sol ps s a -> vsem obj (asg_of t) <= vsem obj a.
Proof. exact (EngineProofs.minimize_optimal BasicProofs.mk_leq_good BasicProofs.mk_gt_good BasicProofs.mk_lt_good). Qed.
Print Assumptions minimize_optimal.

Theorem maximize_optimal : forall pick obj ps s t,
  Forall good ps -> scoped ps (length s) -> wf_store s -> view_ok obj ->
  (forall x, uvar obj = Some x -> (x < length s)%nat) ->
  maximize pick obj ps s = Some (Some t) ->
  sol ps s (asg_of t) /\ forall a, sol ps s a -> vsem obj a <= vsem obj (asg_of t).
Proof. exact (EngineProofs.maximize_optimal BasicProofs.mk_leq_good BasicProofs.mk_gt_good BasicProofs.mk_lt_good). Qed.
Print Assumptions maximize_optimal.

(* Ok exactly when satisfiable *)
Theorem minimize_ok_iff_sat : forall pick obj ps s,
  Forall good ps -> scoped ps (length s) -> wf_store s -> view_ok obj ->
  (minimize pick obj ps s = Some None <-> forall a, ~ sol ps s a) /\ minimize pick obj ps s <> None.
Proof. exact (EngineProofs.minimize_ok_iff_sat BasicProofs.mk_leq_good BasicProofs.mk_gt_good BasicProofs.mk_lt_good). Qed.
Print Assumptions minimize_ok_iff_sat.

(* iterating variants: only solutions, strictly improving, the last one optimal *)
Theorem iterate_strictly_improves : forall pick obj ps s sols best,
  Forall good ps -> scoped ps (length s) -> wf_store s -> view_ok obj ->
  (forall x, uvar obj = Some x -> (x < length s)%nat) ->
  search pick (Some obj) ps s = SOk sols best ->
  strictly_decreasing (objs obj sols) /\
  (forall t, In t sols -> sol ps s (asg_of t)) /\
  (forall a, sol ps s a -> exists t, last (map Some sols) None = Some t /\ vsem obj (asg_of t) <= vsem obj a).
Proof. exact (EngineProofs.iterate_strictly_improves BasicProofs.mk_leq_good BasicProofs.mk_gt_good BasicProofs.mk_lt_good). Qed.
Print Assumptions iterate_strictly_improves.

(* maximize(x) agrees with minimize of the negated objective *)
Theorem maximize_is_minimize_opp : forall pick obj ps s,
  maximize pick obj ps s = minimize pick (VOpp obj) ps s /\ forall a, vsem (VOpp obj) a = - vsem obj a.
Proof. exact EngineProofs.maximize_is_minimize_opp. Qed.
Print Assumptions maximize_is_minimize_opp.

Example c04_nonvacuous :
  minimize fifo (VOpp (VVar 2)) [mk_add (VVar 0) (VVar 1) 2; mk_lt (VVar 0) (VVar 1)] [[0;1;2;3];[-1;1;3];[0;1;2;3;4]]
  = Some (Some [[1]; [3]; [4]]).
Proof. vm_compute. reflexivity. Qed.
