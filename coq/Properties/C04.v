(* C04 — minimize/maximize return a feasible assignment with the true optimum (branch and bound
   of search/mode.rs).  Statements only.

   The root LP step of search_with_timeout_and_memory (finding D10, repaired: the LP vertex is tentative) enters as an
   ORACLE refinement, Model/LpRoot.v: the step proposes nothing or SOME store s_lp (the copy of the variables that
   apply_lp_solution fixed to the LP vertex); the engine searches s_lp first and falls back to the untouched root s when that
   yields nothing.  ORACLE ASSUMPTION: nothing is assumed about the f64 simplex, to_lp_problem or apply_lp_solution beyond
   `vertex_ok` (s_lp is a well-formed sub-store of s: the copy is changed through the contracting setters only).  For every
   such answer the result is a solution of the model, "no solution" is exact and the search terminates
   (lp_tentative_sound (a), minimize_lp_ok_iff_sat); an answer of the fallback phase is that of the plain search, hence optimal
   (lp_tentative_sound (c)); an answer of the FIRST phase is optimal provided the LP bound is valid for the model and attained
   (lp_tentative_sound (b), minimize_lp_optimal + lp_bound_attained) -- that proviso is the part of the repaired code that still
   trusts the LP (as does its early exit on an LP verdict `Infeasible`, which is outside this model: the oracle then answers
   before any search) and is judged by the check's brute-force oracle, not proved.  The optimisation fast path is outside
   this model. *)
Require Import Selen.Model.Prelude Selen.Model.Dom Selen.Model.Views Selen.Model.PropDefs.
Require Import Selen.Model.Props.Basic Selen.Model.Propagate Selen.Model.Search Selen.Model.EngineSpec Selen.Model.LpRoot.
Require Import Selen.Proofs.Props.BasicProofs Selen.Proofs.EngineProofs Selen.Proofs.LpRootProofs.

Theorem minimize_optimal : forall pick obj ps s t,
  Forall good ps -> scoped ps (length s) -> wf_store s -> view_ok obj ->
  (forall x, uvar obj = Some x -> (x < length s)%nat) ->
  minimize pick obj ps s = Some (Some t) ->
  sol ps s (asg_of t) /\ forall a, sol ps s a -> vsem obj (asg_of t) <= vsem obj a.
Proof. exact (EngineProofs.minimize_optimal BasicProofs.mk_leq_good BasicProofs.mk_gt_good BasicProofs.mk_lt_good). Qed.
Print Assumptions minimize_optimal.

Theorem maximize_optimal : forall pick obj ps s t,
  Forall good ps -> scoped ps (length s) -> wf_store s -> view_ok obj ->
  (forall x, uvar obj = Some x -> (x < length s)%nat) ->
  maximize pick obj ps s = Some (Some t) ->
  sol ps s (asg_of t) /\ forall a, sol ps s a -> vsem obj a <= vsem obj (asg_of t).
Proof. exact (EngineProofs.maximize_optimal BasicProofs.mk_leq_good BasicProofs.mk_gt_good BasicProofs.mk_lt_good). Qed.
Print Assumptions maximize_optimal.

(* Ok exactly when satisfiable *)
Theorem minimize_ok_iff_sat : forall pick obj ps s,
  Forall good ps -> scoped ps (length s) -> wf_store s -> view_ok obj ->
  (minimize pick obj ps s = Some None <-> forall a, ~ sol ps s a) /\ minimize pick obj ps s <> None.
Proof. exact (EngineProofs.minimize_ok_iff_sat BasicProofs.mk_leq_good BasicProofs.mk_gt_good BasicProofs.mk_lt_good). Qed.
Print Assumptions minimize_ok_iff_sat.

(* iterating variants: only solutions, strictly improving, the last one optimal *)
Theorem iterate_strictly_improves : forall pick obj ps s sols best,
  Forall good ps -> scoped ps (length s) -> wf_store s -> view_ok obj ->
  (forall x, uvar obj = Some x -> (x < length s)%nat) ->
  search pick (Some obj) ps s = SOk sols best ->
  strictly_decreasing (objs obj sols) /\
  (forall t, In t sols -> sol ps s (asg_of t)) /\
  (forall a, sol ps s a -> exists t, last (map Some sols) None = Some t /\ vsem obj (asg_of t) <= vsem obj a).
Proof. exact (EngineProofs.iterate_strictly_improves BasicProofs.mk_leq_good BasicProofs.mk_gt_good BasicProofs.mk_lt_good). Qed.
Print Assumptions iterate_strictly_improves.

(* maximize(x) agrees with minimize of the negated objective *)
Theorem maximize_is_minimize_opp : forall pick obj ps s,
  maximize pick obj ps s = minimize pick (VOpp obj) ps s /\ forall a, vsem (VOpp obj) a = - vsem obj a.
Proof. exact EngineProofs.maximize_is_minimize_opp. Qed.
Print Assumptions maximize_is_minimize_opp.

Example c04_nonvacuous :
  minimize fifo (VOpp (VVar 2)) [mk_add (VVar 0) (VVar 1) 2; mk_lt (VVar 0) (VVar 1)] [[0;1;2;3];[-1;1;3];[0;1;2;3;4]]
  = Some (Some [[1]; [3]; [4]]).
Proof. vm_compute. reflexivity. Qed.

(* ---- the repaired root LP step (tentative vertex with fallback), for EVERY answer of the LP oracle *)

(* (a) the answer is a solution of the model; (b) it is optimal when it attains a valid bound of the model (the LP bound);
   (c) when the oracle gave no vertex, or the first phase found nothing below it, the answer is that of the plain search on
   the root, to which minimize_optimal applies *)
Theorem lp_tentative_sound : forall pick vertex obj ps s t,
  Forall good ps -> scoped ps (length s) -> wf_store s -> view_ok obj ->
  (forall x, uvar obj = Some x -> (x < length s)%nat) ->
  vertex_ok vertex s ->
  minimize_lp pick vertex obj ps s = Some (Some t) ->
  sol ps s (asg_of t) /\
  (forall s_lp b, vertex = Some s_lp -> minimize pick obj ps s_lp = Some (Some t) ->
     (forall a, sol ps s a -> b <= vsem obj a) -> vsem obj (asg_of t) <= b ->
     forall a, sol ps s a -> vsem obj (asg_of t) <= vsem obj a) /\
  ((vertex = None \/ exists s_lp, vertex = Some s_lp /\ minimize pick obj ps s_lp = Some None) ->
     minimize pick obj ps s = Some (Some t) /\ forall a, sol ps s a -> vsem obj (asg_of t) <= vsem obj a).
Proof. exact (LpRootProofs.lp_tentative_sound BasicProofs.mk_leq_good BasicProofs.mk_gt_good BasicProofs.mk_lt_good). Qed.
Print Assumptions lp_tentative_sound.

(* what is answered: the first-phase solution if there is one, otherwise the plain search on the root *)
Theorem lp_tentative_cases : forall pick s_lp obj ps s,
  minimize_lp pick None obj ps s = minimize pick obj ps s /\
  minimize_lp pick (Some s_lp) obj ps s =
    match minimize pick obj ps s_lp with
    | None => None
    | Some None => minimize pick obj ps s
    | Some (Some t) => Some (Some t)
    end.
Proof. intros. split; [reflexivity|apply LpRootProofs.minimize_lp_cases]. Qed.
Print Assumptions lp_tentative_cases.

(* Ok exactly when satisfiable, and the search terminates, whatever the LP oracle proposed: what D10 violated *)
Theorem minimize_lp_ok_iff_sat : forall pick vertex obj ps s,
  Forall good ps -> scoped ps (length s) -> wf_store s -> view_ok obj -> vertex_ok vertex s ->
  (minimize_lp pick vertex obj ps s = Some None <-> forall a, ~ sol ps s a) /\ minimize_lp pick vertex obj ps s <> None.
Proof. exact (LpRootProofs.minimize_lp_ok_iff_sat BasicProofs.mk_leq_good BasicProofs.mk_gt_good BasicProofs.mk_lt_good). Qed.
Print Assumptions minimize_lp_ok_iff_sat.

(* full optimality under the one assumption left about the LP: a solution found below the vertex is optimal for the model;
   lp_bound_attained derives it from "b is a valid bound of the model and the vertex store holds the objective at or below b" *)
Theorem minimize_lp_optimal : forall pick vertex obj ps s t,
  Forall good ps -> scoped ps (length s) -> wf_store s -> view_ok obj ->
  (forall x, uvar obj = Some x -> (x < length s)%nat) ->
  vertex_ok vertex s -> first_phase_optimal pick vertex obj ps s ->
  minimize_lp pick vertex obj ps s = Some (Some t) ->
  sol ps s (asg_of t) /\ forall a, sol ps s a -> vsem obj (asg_of t) <= vsem obj a.
Proof. exact (LpRootProofs.minimize_lp_optimal BasicProofs.mk_leq_good BasicProofs.mk_gt_good BasicProofs.mk_lt_good). Qed.
Print Assumptions minimize_lp_optimal.

Theorem maximize_lp_optimal : forall pick vertex obj ps s t,
  Forall good ps -> scoped ps (length s) -> wf_store s -> view_ok obj ->
  (forall x, uvar obj = Some x -> (x < length s)%nat) ->
  vertex_ok vertex s -> first_phase_optimal pick vertex (VOpp obj) ps s ->
  maximize_lp pick vertex obj ps s = Some (Some t) ->
  sol ps s (asg_of t) /\ forall a, sol ps s a -> vsem obj a <= vsem obj (asg_of t).
Proof. exact (LpRootProofs.maximize_lp_optimal BasicProofs.mk_leq_good BasicProofs.mk_gt_good BasicProofs.mk_lt_good). Qed.
Print Assumptions maximize_lp_optimal.

Theorem lp_bound_attained : forall pick s_lp obj ps s b,
  Forall good ps -> scoped ps (length s) -> view_ok obj -> sub_store s_lp s -> wf_store s_lp ->
  (forall a, sol ps s a -> b <= vsem obj a) ->
  (forall a, inst a s_lp -> vsem obj a <= b) ->
  first_phase_optimal pick (Some s_lp) obj ps s.
Proof. exact (LpRootProofs.lp_bound_attained BasicProofs.mk_leq_good BasicProofs.mk_gt_good BasicProofs.mk_lt_good). Qed.
Print Assumptions lp_bound_attained.

(* D10's witness shape on the model: x, y in 0..5, 2x + 2y <= 5 (as x + y <= 2), maximize x; the fractional LP vertex (2.5, 0)
   cannot be applied to the integer domains, so the oracle answers None -- or, with an integral vertex that the remaining
   constraints refute ([[5];[0]] here), the first phase finds nothing: both ways the answer is the optimum (2,0);
   before the repair the implementation answered "no solution" *)
Example c04_lp_fallback_nonvacuous :
  maximize_lp fifo None (VVar 0) [mk_add (VVar 0) (VVar 1) 2; mk_leq (VVar 2) (VConst 2)] [[0;1;2;3;4;5];[0;1;2;3;4;5];[0;1;2;3;4;5;6;7;8;9;10]]
  = Some (Some [[2]; [0]; [2]]) /\
  maximize_lp fifo (Some [[5];[0];[0;1;2;3;4;5;6;7;8;9;10]]) (VVar 0) [mk_add (VVar 0) (VVar 1) 2; mk_leq (VVar 2) (VConst 2)] [[0;1;2;3;4;5];[0;1;2;3;4;5];[0;1;2;3;4;5;6;7;8;9;10]]
  = Some (Some [[2]; [0]; [2]]) /\
  (* a vertex that holds a solution is answered at once *)
  maximize_lp fifo (Some [[2];[0];[0;1;2;3;4;5;6;7;8;9;10]]) (VVar 0) [mk_add (VVar 0) (VVar 1) 2; mk_leq (VVar 2) (VConst 2)] [[0;1;2;3;4;5];[0;1;2;3;4;5];[0;1;2;3;4;5;6;7;8;9;10]]
  = Some (Some [[2]; [0]; [2]]).
Proof. vm_compute. repeat split; reflexivity. Qed.
