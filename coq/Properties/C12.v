(* C12 (integer half) — bound tightening is exact on integers.
   Statements only; proofs in Proofs/DomProofs.v.  The float half is Properties/C12F.v. *)
Require Import Selen.Model.Prelude Selen.Model.SparseSet Selen.Model.Dom.
Require Import Selen.Proofs.DomProofs.

(* try_set_min leaves exactly the previous values >= b, touches no other variable *)
Theorem tsm_int_exact : forall v b s ev s' ev', wf_dom (sget s v) ->
  cset_min v b (s, ev) = Some (s', ev') ->
  sget s' v = dbelow b (sget s v) /\ (forall u, u <> v -> sget s' u = sget s u) /\ length s' = length s.
Proof. exact DomProofs.cset_min_exact. Qed.
Print Assumptions tsm_int_exact.

Theorem tsmax_int_exact : forall v b s ev s' ev', wf_dom (sget s v) ->
  cset_max v b (s, ev) = Some (s', ev') ->
  sget s' v = dabove b (sget s v) /\ (forall u, u <> v -> sget s' u = sget s u) /\ length s' = length s.
Proof. exact DomProofs.cset_max_exact. Qed.
Print Assumptions tsmax_int_exact.

(* fails exactly when no value is left (for a well-formed, i.e. sorted non-empty, domain) *)
Theorem tsm_int_fail_iff : forall v b s ev, wf_dom (sget s v) ->
  (cset_min v b (s, ev) = None <-> dbelow b (sget s v) = []).
Proof. exact DomProofs.cset_min_fail_iff. Qed.
Print Assumptions tsm_int_fail_iff.

Theorem tsmax_int_fail_iff : forall v b s ev, wf_dom (sget s v) ->
  (cset_max v b (s, ev) = None <-> dabove b (sget s v) = []).
Proof. exact DomProofs.cset_max_fail_iff. Qed.
Print Assumptions tsmax_int_fail_iff.

(* reports a change exactly when the domain shrank *)
Theorem tsm_int_event_iff : forall v b s ev s' ev', wf_dom (sget s v) -> (v < length s)%nat ->
  cset_min v b (s, ev) = Some (s', ev') ->
  (ev' = ev ++ [v] /\ sget s' v <> sget s v) \/ (ev' = ev /\ s' = s).
Proof. exact DomProofs.cset_min_event_iff. Qed.
Print Assumptions tsm_int_event_iff.

Theorem tsmax_int_event_iff : forall v b s ev s' ev', wf_dom (sget s v) -> (v < length s)%nat ->
  cset_max v b (s, ev) = Some (s', ev') ->
  (ev' = ev ++ [v] /\ sget s' v <> sget s v) \/ (ev' = ev /\ s' = s).
Proof. exact DomProofs.cset_max_event_iff. Qed.
Print Assumptions tsmax_int_event_iff.

(* well-formedness is preserved, so the statements above apply along any sequence *)
Theorem tsm_int_wf : forall v b s ev s' ev', wf_store s ->
  (cset_min v b (s, ev) = Some (s', ev') \/ cset_max v b (s, ev) = Some (s', ev')) -> wf_store s'.
Proof. exact DomProofs.cset_wf. Qed.
Print Assumptions tsm_int_wf.

(* every sequence of tightenings of one variable: the result is the filter by the running bounds *)
Definition tighten (v : nat) (c : option ctx) (op : bool * Z) : option ctx :=
  match c with None => None | Some c => if fst op then cset_max v (snd op) c else cset_min v (snd op) c end.
Definition within (ops : list (bool * Z)) (x : Z) : bool :=
  forallb (fun op : bool * Z => if fst op then x <=? snd op else snd op <=? x) ops.
Theorem tsm_int_seq : forall v ops s ev, wf_dom (sget s v) -> (v < length s)%nat ->
  match fold_left (tighten v) ops (Some (s, ev)) with
  | Some (s', _) => sget s' v = filter (within ops) (sget s v) /\ filter (within ops) (sget s v) <> []
  | None => filter (within ops) (sget s v) = []
  end.
Proof. exact DomProofs.tighten_seq. Qed.
Print Assumptions tsm_int_seq.

(* the abstract domain operations are what the real sparse set does (through C11's invariant) *)
Definition abs_dom (s : sset) : dom := zsort (ss_iter s).
Theorem remove_below_refines : forall lo hi ops b,
  let s := fst (ss_run ops (ss_new lo hi, [])) in
  SetSpec.bad (SetSpec.spec_run ops (SetSpec.spec_init (ss_new lo hi))) = false ->
  abs_dom (ss_remove_below s b) = dbelow b (abs_dom s) /\
  abs_dom (ss_remove_above s b) = dabove b (abs_dom s) /\
  (ss_is_empty s = false -> ss_min s = dmin (abs_dom s) /\ ss_max s = dmax (abs_dom s)) /\
  sorted (abs_dom s).
Proof. exact DomProofs.remove_below_refines. Qed.
Print Assumptions remove_below_refines.

Example c12_nonvacuous :
  cset_min 1 0 ([[1;2]; [-3;-1;2;5]], []) = Some ([[1;2]; [2;5]], [1%nat]) /\ wf_store [[1;2]; [-3;-1;2;5]].
Proof. split; [vm_compute; reflexivity|]. intros v Hv. destruct v as [|[|v]]; cbn in *; try lia; split; try discriminate; cbn; lia. Qed.
