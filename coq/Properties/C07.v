(* C07 — robustly feasible float models are not reported infeasible.  PROOF-PARTIAL.
   Proved (bit-exact model, Magn): a witness value with margin step*(1+2^-50) + |v|*2^-50 inside the requested bound survives
   ONE try_set_min / try_set_max, whatever branch the setter takes (clamping, tolerance, quantisation).
   Proved after the repair of FloatInterval::mid: every split at a point that passes the code's own test makes progress in
   both children (bisect_progress); the stall of the unrepaired code is kept as bisect_stall_prefix_refuted.
   Proved (stage 1-3, Proofs/FloatSearchProofs.v): the lift of a per-propagator contract to the propagation loop and the bisection
   search (robust_never_nosolution), the contract for plain comparisons (integers exactly; floats with margin 2.01 / 4.02 steps),
   failure-freeness of the setters for a robust witness (inside near_setters), the reduction of FloatLinLe to an accuracy
   hypothesis on its computed bound, and the accumulation-error lemma.
   NOT proved (declared gap): the accuracy hypothesis flin_acc_ok from a margin on the exact row (composition of the rounding
   errors), FloatLinEq, strict comparisons and equality with a constant over floats, split_ok_hyp (fall-back mid passes the test;
   quantisation does not overshoot the mid), termination.  The check's witness-constructed families carry that part. *)
From Coq Require Import ZArith Bool Reals List Lia.
Import ListNotations.
From Flocq Require Import Core.Core IEEE754.BinarySingleNaN IEEE754.Binary IEEE754.Bits.
Require Import Selen.Model.Prelude Selen.Model.Dom.
Require Import Selen.Model.B64 Selen.Model.FloatInterval Selen.Model.CtxFloat Selen.Model.FloatStore Selen.Model.FloatProps Selen.Model.FloatSearch.
Require Import Selen.Proofs.B64Facts Selen.Proofs.FloatIntervalProofs Selen.Proofs.FloatPropsProofs Selen.Proofs.FloatSearchProofs.
Open Scope R_scope.

Theorem robust_witness_survives_partial : forall i v i' ev w, magn_b i v = true ->
  R_ (imin i) <= w -> w <= R_ (imax i) ->
  (tsmax_ff i v = Some (i', ev) -> w <= R_ v - (R_ (istep i) * (1 + m50) + Rabs (R_ v) * m50) -> R_ (imin i') <= w /\ w <= R_ (imax i')) /\
  (tsmin_ff i v = Some (i', ev) -> R_ v + (R_ (istep i) * (1 + m50) + Rabs (R_ v) * m50) <= w -> R_ (imin i') <= w /\ w <= R_ (imax i')).
Proof. intros i v i' ev w M L1 L2. split; intros H Mg.
  - eapply witness_survives_set_max; eauto. - eapply witness_survives_set_min; eauto. Qed.
Print Assumptions robust_witness_survives_partial.

(* ---------------------------------------------------------------- bisect_progress (after the repair of FloatInterval::mid) *)
(* Every split makes progress: a split point m that passes the test of the repaired FloatInterval::mid (more than step/2 away
   from both bounds, decided by the f64 comparisons: fi_split_ok) makes BOTH children of the bisection tighten the pivot's
   interval, inside Magn: the left child x <= m lowers max by more than 0.07*step and keeps min <= max, the right child x >= m
   raises min by more than 0.07*step and keeps min <= max; both raise an event and neither fails.  The repaired mid returns
   either such a point or (fall-back) the exact midpoint clamped into the interval.
   NOT proved: that the fall-back point passes fi_split_ok as well (true in real arithmetic because an interval that is not
   fixed is at least 1.5 steps wide; needs the rounding analysis of step_count's `round() as usize`); the check's families
   funconstrained / fsearch_exact cover it (no stall in 30000 single-variable intervals of width 1..6 steps). *)
Theorem bisect_progress : forall i m, magn_b i m = true -> fi_split_ok i m = true ->
  (exists mx, tsmax_ff i m = Some (mkfi (imin i) mx (istep i), true) /\ B64Facts.fin mx /\
     R_ (imin i) <= R_ mx /\ R_ mx < R_ (imax i) - 7/100 * R_ (istep i)) /\
  (exists mn, tsmin_ff i m = Some (mkfi mn (imax i) (istep i), true) /\ B64Facts.fin mn /\
     R_ (imin i) + 7/100 * R_ (istep i) < R_ mn /\ R_ mn <= R_ (imax i)).
Proof. intros i m M S. split. apply split_left_progress; auto. apply split_right_progress; auto. Qed.
Print Assumptions bisect_progress.

Theorem mid_is_split_point_or_exact : forall i m, fi_is_empty i = false -> fi_is_fixed i = false -> fi_mid i = Some m ->
  fi_split_ok i m = true \/ fclamp (fi_rough_mid i) (imin i) (imax i) = Some m.
Proof. exact fi_mid_split_ok_or_exact. Qed.
Print Assumptions mid_is_split_point_or_exact.

(* The stall of the code BEFORE the repair (fi_mid_prefix = the old mid), kept as a refutation of termination for that code:
   x in [0, 0.375], step 0.25, no constraint: not assigned, old mid = 0.25 fails fi_split_ok, and the left child `x <= 0.25` is
   bit-for-bit its parent with no event (the engine descended until memory was exhausted: Model::with_float_precision(2);
   m.float(0.0, 0.015); m.solve()).  With the repaired mid (0.1875) the same store is solved: the model of solve() returns 0.0. *)
Theorem bisect_stall_prefix_refuted :
  (wf_b w_stall_iv = true /\ fall_assigned w_stall_store = false /\ ffirst_unassigned w_stall_store 0 = Some 0%nat /\
   option_map to_bits (fi_mid_prefix w_stall_iv) = Some 0x3fd0000000000000%Z /\
   fi_split_ok w_stall_iv (of_bits 0x3fd0000000000000) = false /\
   obs_ctx (fprune (mk_fleq (FVar 0) (FConst w_stall_mid)) (w_stall_store, [])) = obs_ctx (Some (w_stall_store, []))) /\
  (option_map to_bits (fi_mid w_stall_iv) = Some 0x3fc8000000000000%Z /\
   fi_split_ok w_stall_iv (of_bits 0x3fc8000000000000) = true /\ magn_b w_stall_iv (of_bits 0x3fc8000000000000) = true /\
   (let r := fsolve_first 50 1000 [] w_stall_store in
    map (map (fun b => match b with VlF x => to_bits x | VlI z => z end)) (fs_sols r) = [[0%Z]] /\ fs_stop r = StopMore)).
Proof. split. exact bisect_stall_prefix_ok. exact bisect_repaired_ok. Qed.
Print Assumptions bisect_stall_prefix_refuted.

(* Strict comparison of an INTEGER variable with a FLOAT variable (props.less_than / greater_than).  BEFORE the repair
   (prune_flt_prefix: x.next() <= y with the integer successor) x1 = 5 < x0 with x0 in [-0.5, 5.5] failed although x0 = 5.25
   satisfies it with a margin of 2.5e7 steps; AFTER the repair (LessThan: x <= y.prev() for an integer view below a float
   variable) the same store is tightened to x0 in [5 + 1e-8, 5.5]. *)
Theorem mixed_strict_prefix_refuted :
  prune_flt_prefix (FVar 1) (FVar 0) (w_mix_store, []) = None /\
  obs_ctx (prune_flt (FVar 1) (FVar 0) (w_mix_store, [])) =
    Some ([[1; 0x4014000000abcc77; 0x4016000000000000; 0x3e45798ee2308c3a]%Z; [0; 5]%Z], [0%nat]).
Proof. exact mixed_strict_ok. Qed.
Print Assumptions mixed_strict_prefix_refuted.

(* Strict comparison of an INTEGER variable with a FLOAT CONSTANT (props.less_than(x, c) / greater_than(x, c)).  BETWEEN the two
   repairs (prune_flt_prefix_const: x.next() <= c) x = 6 < 6.625 and x = -1 < -0.5 failed (the value floor(c) was lost) and
   2.0 < x accepted x = 2 (the successor of a float constant is the constant); AFTER the repair (LessThan bounds the integer
   side directly: x <= ceil(c) - 1, x >= floor(c) + 1) x in 1..6 keeps 6 under x < 6.625, loses 6 under x < 6.0, becomes 3..6
   under 2.0 < x and under 2.25 < x, and x in {-1, 0} becomes -1 under x < -0.5. *)
Theorem strict_int_const_prefix_refuted :
  prune_flt_prefix_const (FVar 0) (FConst (VlF (of_bits 0x401a800000000000))) ([VI [6]%Z], []) = None /\
  prune_flt_prefix_const (FConst (VlF (of_bits 0x4000000000000000))) (FVar 0) ([VI [2]%Z], []) = Some ([VI [2]%Z], []) /\
  prune_flt_prefix_const (FVar 0) (FConst (VlF (of_bits 0xbfe0000000000000))) ([VI [-1; 0]%Z], []) = None /\
  prune_flt (FVar 0) (FConst (VlF (of_bits 0x401a800000000000))) (w_six, []) = Some (w_six, []) /\
  prune_flt (FVar 0) (FConst (VlF (of_bits 0x401a800000000000))) ([VI [6]%Z], []) = Some ([VI [6]%Z], []) /\
  prune_flt (FVar 0) (FConst (VlF (of_bits 0x4018000000000000))) (w_six, []) = Some ([VI [1; 2; 3; 4; 5]%Z], [0%nat]) /\
  prune_flt (FConst (VlF (of_bits 0x4000000000000000))) (FVar 0) (w_six, []) = Some ([VI [3; 4; 5; 6]%Z], [0%nat]) /\
  prune_flt (FConst (VlF (of_bits 0x4000000000000000))) (FVar 0) ([VI [2]%Z], []) = None /\
  prune_flt (FConst (VlF (of_bits 0x4002000000000000))) (FVar 0) (w_six, []) = Some ([VI [3; 4; 5; 6]%Z], [0%nat]) /\
  prune_flt (FVar 0) (FConst (VlF (of_bits 0xbfe0000000000000))) ([VI [-1; 0]%Z], []) = Some ([VI [-1]%Z], [0%nat]) /\
  prune_flt (FVar 0) (FConst (VlF (of_bits 0xc1e65a0bc0000000))) (w_six, []) = None /\
  prune_flt (FVar 0) (FConst (VlF (of_bits 0x7ff8000000000000))) (w_six, []) = None /\
  prune_flt (FVar 0) (FConst (VlF (of_bits 0x7ff0000000000000))) (w_six, []) = Some (w_six, []).
Proof. exact strict_int_const_ok. Qed.
Print Assumptions strict_int_const_prefix_refuted.

(* FloatLinEq over integer AND float variables.  BEFORE the repair (prune_flin_eq_prefix) the bounds of an integer variable were the
   exact ceiling / floor of the residual computed from float terms that are quantised to the step grid: 3*i + 0.75*x = 1.40625 at
   step 0.1 (x = 1.875 becomes 1.9) failed at the leaf x = 1.9, i = 0 and at every other leaf: NoSolution.  AFTER the repair the
   integer variable gets one step of every float term (weighted by its coefficient) plus 8 ulps of the row's magnitude as slack
   (FloatProps.integer_bound_slack) and the leaf is accepted; the residual it admits, 0.75 * 0.1, lies inside C06's tolerance of
   the row (5 steps per float term). *)
Theorem floatlineq_mixed_prefix_refuted :
  prune_flin_eq_prefix [of_bits 0x4008000000000000; of_bits 0x3fe8000000000000] [1%nat; 0%nat] (of_bits 0x3ff6800000000000) (w_eqmix_store, []) = None /\
  obs_ctx (prune_flin_eq [of_bits 0x4008000000000000; of_bits 0x3fe8000000000000] [1%nat; 0%nat] (of_bits 0x3ff6800000000000) (w_eqmix_store, []))
    = obs_ctx (Some (w_eqmix_store, [])).
Proof. exact floatlineq_mixed_ok. Qed.
Print Assumptions floatlineq_mixed_prefix_refuted.

(* A float variable against a float CONSTANT off its step grid (LessThanOrEquals / Eq, step 0.1).  BEFORE the repair the constant was
   re-tested exactly after the variable had been bounded (prune_fleq_plain / prune_feq_plain): x in [4.4, 6.5], x <= 4.375 and
   x in [-2, 6.5], x == 1.25 failed (classes bounds_pinch_offgrid, eq_const_offgrid of C08).  AFTER the repair only the variable's
   setters decide: x is fixed at 4.4 resp. 1.3; a constant beyond the opposite bound within the precision tolerance fixes the
   variable at that bound (1.625 <= x on [-2, 1.5]: x = 1.5), beyond the tolerance the space still fails (2.0 <= x). *)
Theorem offgrid_const_prefix_refuted :
  prune_fleq_plain (FVar 0) (FConst (VlF (of_bits 0x4011800000000000))) (w_og_s1, []) = None /\
  obs_ctx (prune_fleq (FVar 0) (FConst (VlF (of_bits 0x4011800000000000))) (w_og_s1, []))
    = Some ([[1; 0x401199999999999a; 0x401199999999999a; 0x3fb999999999999a]%Z], [0%nat]) /\
  prune_feq_plain (FVar 0) (FConst (VlF (of_bits 0x3ff4000000000000))) (w_og_s2, []) = None /\
  obs_ctx (prune_feq (FVar 0) (FConst (VlF (of_bits 0x3ff4000000000000))) (w_og_s2, []))
    = Some ([[1; 0x3ff4cccccccccccd; 0x3ff4cccccccccccd; 0x3fb999999999999a]%Z], [0%nat; 0%nat]) /\
  prune_fleq_plain (FConst (VlF (of_bits 0x3ffa000000000000))) (FVar 0) (w_og_s3, []) = None /\
  obs_ctx (prune_fleq (FConst (VlF (of_bits 0x3ffa000000000000))) (FVar 0) (w_og_s3, []))
    = Some ([[1; 0x3ff8000000000000; 0x3ff8000000000000; 0x3fb999999999999a]%Z], [0%nat]) /\
  prune_fleq (FConst (VlF (of_bits 0x4000000000000000))) (FVar 0) (w_og_s3, []) = None.
Proof. exact offgrid_const_ok. Qed.
Print Assumptions offgrid_const_prefix_refuted.

(* IntLinLe posted DIRECTLY on a float variable (props level) uses the integer rules: IntLinLe([-1],[x],-3), i.e. the integer
   reading of x > 2, fails x in [0, 2.5].  The runtime API no longer produces this propagator for float variables (repair
   "linear constraints with integer literals over float variables are posted as float linear constraints": x.gt(2) becomes
   FloatLinLe(-x <= -2 - step)); see C06.float_lowering_covers. *)
Theorem intlin_on_float_var_refuted :
  wf_b w_gt_iv = true /\ prune_ilin_le_mixed [-1]%Z [0%nat] (-3)%Z ([VF w_gt_iv], []) = None.
Proof. exact strict_int_literal_refuted_ok. Qed.
Print Assumptions intlin_on_float_var_refuted.

(* ================================================================ STAGE 1: a robust witness is never lost by the search *)
(* Vocabulary (Proofs/FloatSearchProofs.v), for a witness point w : nat -> R and a tolerance T >= 2.01 (in steps):
     near T w s         every int variable's (well-formed) domain contains w_v exactly; every float variable's (well-formed)
                        interval contains w_v up to T steps.  The slack is needed because the two children of a bisection
                        quantise the split point to floor(mid/step)*step and ceil(mid/step)*step: a witness strictly between the
                        two is in neither child exactly.
     sle s' s           s' is not wider than s (same kinds, int domains included, float bounds inwards, step kept)
     wsafe_below T w b p   THE PER-PROPAGATOR CONTRACT: on every store below b that is near w, p succeeds (never None),
                        the result is still near w and not wider
     split_hyp i m      what is needed of a split point on a float pivot, all decidable in f64: inside Magn, passes the code's
                        own test fi_split_ok (bisect_progress), and floor(m/step)*step <= m <= ceil(m/step)*step as COMPUTED
     split_ok_hyp T w s0   split_hyp holds for the mid of every non-fixed float interval of every store below s0 near w
     nosol r            the search ended normally (not on fuel / budget) without a solution: what Model::solve reports as NoSolution
   What is proved: (a) the propagation loop, from any agenda of valid PropIds in any order and with any fuel, never fails and
   keeps w; (b) on a store near w that is not assigned the pivot and its mid exist and at least one child (x <= mid if
   w_x <= mid, else x >= mid) succeeds on its first run, is still near w, and its branch propagator satisfies the contract
   from then on (it is the identity on every later store); (c) robust_never_nosolution.
   Hypotheses that remain: the contract for the model's own propagators (stage 2 / 3: proved below for integer comparisons
   with constants; for float rows it is the numeric part), and split_ok_hyp (Magn is preserved below a store inside Magn, but
   that the fall-back mid passes fi_split_ok and that the quantisation does not overshoot the mid by rounding are not proved;
   they are decidable per split and checked by the differential).  Termination (a solution IS returned for enough fuel) is
   not proved: every split strictly shrinks the pivot (bisect_progress), but propagation itself can creep for as long as the
   work budget lasts, and the result type does not distinguish depth fuel from work budget. *)
Theorem propagation_keeps_witness : forall T w s0 ps pf q, near T w s0 -> Forall (wsafe_below T w s0) ps ->
  qvalid (length ps) q ->
  match fpropagate pf ps s0 q with
  | (FPFail, _) => False
  | (FPFuel, _) => True
  | (FPDone s', _) => near T w s' /\ sle s' s0
  end.
Proof. exact propagation_keeps_witness_main. Qed.
Print Assumptions propagation_keeps_witness.

Theorem split_keeps_witness : forall T, 201/100 <= T -> forall w s0, split_ok_hyp T w s0 ->
  forall s ps, Good T w s0 s ps -> fall_assigned s = false ->
  exists pivot mid, ffirst_unassigned s 0 = Some pivot /\ var_mid (fget s pivot) = Some mid /\
    (child_ok (Good T w s0) s ps (mk_fleq (FVar pivot) (FConst mid)) \/
     child_ok (Good T w s0) s ps (mk_fgt (FVar pivot) (FConst mid))).
Proof. intros T HT w s0 Hs. exact (Good_HS T HT w s0 Hs). Qed.
Print Assumptions split_keeps_witness.

Theorem robust_never_nosolution : forall T, 201/100 <= T -> forall w s0 ps,
  near T w s0 -> Forall (wsafe_below T w s0) ps -> split_ok_hyp T w s0 ->
  forall maxsols fuel budget, ~ nosol (fsearch None maxsols fuel budget ps s0).
Proof. intros T HT w s0 ps. exact (robust_never_nosolution_main T HT w s0 ps). Qed.
Print Assumptions robust_never_nosolution.

(* STAGE 2, integer part: an integer variable against an integer constant satisfies the contract whenever the witness does *)
Theorem wsafe_int_comparisons : forall T w base v c,
  (forall s, sle s base -> (v < length s)%nat /\ exists d, fget s v = VI d) ->
  ((exists z, w v = IZR z /\ (z <= c)%Z) -> wsafe_below T w base (mk_fleq (FVar v) (FConst (VlI c)))) /\
  ((exists z, w v = IZR z /\ (c <= z)%Z) -> wsafe_below T w base (mk_fleq (FConst (VlI c)) (FVar v))).
Proof. intros T w base v c Hint. split; intro H.
  - apply wsafe_int_le_const; auto. - apply wsafe_int_ge_const; auto. Qed.
Print Assumptions wsafe_int_comparisons.

(* STAGE 2, float part.  The setters on a store that is near w (the witness may already be outside the interval by T steps):
   an upper bound v with  w + T*step <= v  (T >= 2.01, Magn) makes try_set_max succeed, stay well-formed, not widen and keep
   w near; mirrored for try_set_min.  Hence the contract for the plain comparisons, for EVERY base store inside Magn:
     x <= c, c <= x   (float variable, float constant)   with witness margin  T*step
     x <= y           (two float variables, same step)   with witness margin  2*T*step
   i.e. with T = 2.01: 2.01 resp. 4.02 steps, the relative term of robust_witness_survives_partial being absorbed by Magn
   (|v|*2^-50 <= step).  NOT covered: strict comparisons over float variables (x.next() <= y goes through FloatInterval::next /
   prev, whose step-or-ulp case split needs a bit-level bound on ulp under Magn), and x == c: Eq<VarId,Val> is NOT wsafe in
   this sense even for c on the grid -- on a store whose interval excludes c by less than T steps (which `near` allows after a
   split) both setters are absorbed by their tolerances and the exact test of the constant view (max >= c) fails. *)
Theorem near_setters : forall T i v r, 201/100 <= T -> magn_b i v = true -> near_iv T i r ->
  (r + T * R_ (istep i) <= R_ v -> exists i' e, tsmax_ff i v = Some (i', e) /\ near_iv T i' r /\ sle_var (VF i') (VF i)) /\
  (R_ v <= r - T * R_ (istep i) -> exists i' e, tsmin_ff i v = Some (i', e) /\ near_iv T i' r /\ sle_var (VF i') (VF i)).
Proof. intros T i v r HT M N. split; intro H. apply near_tsmax; auto. apply near_tsmin; auto. Qed.
Print Assumptions near_setters.

Theorem wsafe_float_comparisons : forall T w base, 201/100 <= T ->
  (forall v i0 c, (v < length base)%nat -> fget base v = VF i0 -> magn_b i0 c = true ->
     (w v + T * R_ (istep i0) <= R_ c -> wsafe_below T w base (mk_fleq (FVar v) (FConst (VlF c)))) /\
     (R_ c <= w v - T * R_ (istep i0) -> wsafe_below T w base (mk_fleq (FConst (VlF c)) (FVar v)))) /\
  (forall x y ix0 iy0, x <> y -> (x < length base)%nat -> (y < length base)%nat ->
     fget base x = VF ix0 -> fget base y = VF iy0 -> istep ix0 = istep iy0 ->
     magn_b ix0 (imin iy0) = true -> magn_b ix0 (imax iy0) = true -> magn_b iy0 (imin ix0) = true -> magn_b iy0 (imax ix0) = true ->
     w x + 2 * T * R_ (istep ix0) <= w y -> wsafe_below T w base (mk_fleq (FVar x) (FVar y))).
Proof. intros T w base HT. split.
  - intros v i0 c Hv Hg M. split; intro H. eapply wsafe_float_le_const; eauto. eapply wsafe_float_ge_const; eauto.
  - intros. eapply wsafe_float_le_var; eauto. Qed.
Print Assumptions wsafe_float_comparisons.

(* STAGE 3 (numeric), delivered as two separately proved halves.
   (i) REDUCTION  flin_le_wsafe_partial: FloatLinLe (repaired flin_le_step) over float variables inside Magn satisfies the
       contract whenever the bound it COMPUTES, on every store below the base that is near w, leaves the witness T steps of
       the variable (flin_acc_ok): all the case analysis of the propagator (zero coefficients, non-finite bounds, the
       "improves the current bound" guards, the loop over the positions, the event lists) and of the setters is discharged.
   (ii) ACCUMULATION ERROR  fsum_error_linear: the binary64 left-to-right accumulation `acc += term` of n finite terms, with
       no overflow (every partial sum finite) and n <= 2^52, is within  n*(2*2^-53*(|acc0| + sum|t_j|) + 2*2^-1075)  of the
       exact sum; sum_others_is_fsum: min_other of FloatLinLe IS such an accumulation.
   MISSING (the `_partial`): deriving flin_acc_ok from a margin on the exact row, i.e. chaining (ii) with the rounding of the
   n products c_j*b_j, of K - min_other and of the division by c_i, and with  b_j <= w_j + T*step_j  (near).  On paper this needs
       slack_w(row) >= T*sum_j |c_j|*step_j + (n+3)*2^-52*(|K| + sum_j |c_j|*B_j)        (T = 2.01, B_j = magnitude bound)
   which the generator's margin 4*tol(row) + 20*step*sum|c_j| exceeds (20 >= 2.01; 4*2^-40 >= (n+3)*2^-52 for n <= 16000). *)
Theorem flin_le_wsafe_partial : forall T w base cs vs k, 201/100 <= T -> row_float base vs -> flin_acc_ok T w base cs vs k ->
  wsafe_below T w base (mk_flin_le cs vs k).
Proof. exact FloatSearchProofs.flin_le_wsafe_partial. Qed.
Print Assumptions flin_le_wsafe_partial.

Theorem fsum_error_linear : forall ts acc, B64Facts.fin acc -> Forall B64Facts.fin ts -> fsum_fin ts acc ->
  2 * u53 * INR (length ts) <= 1 ->
  Rabs (R_ (fsum ts acc) - (R_ acc + rsum ts)) <= INR (length ts) * (2 * u53 * (Rabs (R_ acc) + rabs_sum ts) + 2 * eta0).
Proof. exact FloatSearchProofs.fsum_error_linear. Qed.
Print Assumptions fsum_error_linear.

Theorem sum_others_is_fsum : forall term cs vs i j acc, sum_others term cs vs i j acc = fsum (other_terms term cs vs i j) acc.
Proof. exact sum_others_fsum. Qed.
Print Assumptions sum_others_is_fsum.

(* the hypotheses of robust_never_nosolution are satisfiable: x0 float declared [0.5, 0.5] (step 0.25), x1 int in {0,1,2,3},
   constraint 1 <= x1, witness (0.5, 2), T = 3; and the model of solve() does return a solution, (0.5, 1) *)
Example c07_search_hypotheses_inhabited :
  near 3 ex7_w ex7_store /\ Forall (wsafe_below 3 ex7_w ex7_store) ex7_props /\ split_ok_hyp 3 ex7_w ex7_store /\
  map (map (fun b => match b with VlF x => to_bits x | VlI z => z end)) (fs_sols (fsolve_first 20 1000 ex7_props ex7_store))
    = [[0x3fe0000000000000; 1]%Z].
Proof. destruct ex7_hypotheses as (A & B & C). split; [exact A|split; [exact B|split; [exact C|exact ex7_search]]]. Qed.

(* non-vacuity: [-2.5, 10.5] step 1e-6, v = pi lies inside Magn and both tightenings succeed and really move the bound
   (to 3.141593 / 3.141592), so e.g. w = 0 survives try_set_max(pi) and w = 5 survives try_set_min(pi) by the theorem above *)
Example c07_hypotheses_inhabited :
  wf_b ex_iv = true /\ magn_b ex_iv ex_v = true /\
  obs (tsmin_ff ex_iv ex_v) = Some (0x400921fb82c2bd7f, 0x4025000000000000, 0x3eb0c6f7a0b5ed8d, true, false)%Z /\
  obs (tsmax_ff ex_iv ex_v) = Some (0xc004000000000000, 0x400921fafc8b0079, 0x3eb0c6f7a0b5ed8d, true, false)%Z.
Proof. exact ex_ok. Qed.
