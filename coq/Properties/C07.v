(* C07 — robustly feasible float models are not reported infeasible.  PROOF-PARTIAL.
   Proved (bit-exact model, Magn): a witness value with margin step*(1+2^-50) + |v|*2^-50 inside the requested bound survives
   ONE try_set_min / try_set_max, whatever branch the setter takes (clamping, tolerance, quantisation).
   NOT proved (declared gap): the lift to a whole FloatLinLe / FloatLinEq pruning step (needs the closeness of the binary64
   accumulation to its exact-rational reading), failure-freeness of the setters for such a witness, and termination of the
   bisection -- which is in fact FALSE (bisect_stall_refuted).  The check's witness-constructed families carry that part. *)
From Coq Require Import ZArith Bool Reals List Lia.
Import ListNotations.
From Flocq Require Import Core.Core IEEE754.BinarySingleNaN IEEE754.Binary IEEE754.Bits.
Require Import Selen.Model.Prelude Selen.Model.Dom.
Require Import Selen.Model.B64 Selen.Model.FloatInterval Selen.Model.CtxFloat Selen.Model.FloatStore Selen.Model.FloatProps Selen.Model.FloatSearch.
Require Import Selen.Proofs.B64Facts Selen.Proofs.FloatIntervalProofs Selen.Proofs.FloatPropsProofs.
Open Scope R_scope.

Theorem robust_witness_survives_partial : forall i v i' ev w, magn_b i v = true ->
  R_ (imin i) <= w -> w <= R_ (imax i) ->
  (tsmax_ff i v = Some (i', ev) -> w <= R_ v - (R_ (istep i) * (1 + m50) + Rabs (R_ v) * m50) -> R_ (imin i') <= w /\ w <= R_ (imax i')) /\
  (tsmin_ff i v = Some (i', ev) -> R_ v + (R_ (istep i) * (1 + m50) + Rabs (R_ v) * m50) <= w -> R_ (imin i') <= w /\ w <= R_ (imax i')).
Proof. intros i v i' ev w M L1 L2. split; intros H Mg.
  - eapply witness_survives_set_max; eauto. - eapply witness_survives_set_min; eauto. Qed.
Print Assumptions robust_witness_survives_partial.

(* Refuted: termination of the bisection.  x in [0, 0.375], step 0.25, no constraint at all: not assigned, mid = 0.25, and the
   left child `x <= 0.25` is bit-for-bit its parent with no event; the model of solve() runs out of every fuel without reaching
   the right child (which is a solution).  The implementation descends until memory is exhausted (the time limit is not
   checked while descending): through the public API, Model::with_float_precision(2); m.float(0.0, 0.015); m.solve(). *)
Theorem bisect_stall_refuted :
  (wf_b w_stall_iv = true /\ fall_assigned w_stall_store = false /\ ffirst_unassigned w_stall_store 0 = Some 0%nat /\
   option_map (fun b => match b with VlF x => to_bits x | VlI z => z end) (var_mid (fget w_stall_store 0)) = Some 0x3fd0000000000000%Z /\
   obs_ctx (fprune (mk_fleq (FVar 0) (FConst w_stall_mid)) (w_stall_store, [])) = obs_ctx (Some (w_stall_store, []))) /\
  (forall n, (n <= 12)%nat -> let r := fsolve_first n 1000 [] w_stall_store in fs_sols r = [] /\ fs_stop r = StopFuel).
Proof. split. exact bisect_stall_ok. exact bisect_stall_search. Qed.
Print Assumptions bisect_stall_refuted.

(* Refuted: a strict comparison of a float variable with an INTEGER literal is lowered with the integer rule c+1:
   x > 2 on x in [0, 2.5] (step 0.01) fails the space although x = 2.25 satisfies it with a margin of 25 steps. *)
Theorem strict_int_literal_refuted :
  wf_b w_gt_iv = true /\ prune_ilin_le_mixed [-1]%Z [0%nat] (-3)%Z ([VF w_gt_iv], []) = None.
Proof. exact strict_int_literal_refuted_ok. Qed.
Print Assumptions strict_int_literal_refuted.

(* non-vacuity: [-2.5, 10.5] step 1e-6, v = pi lies inside Magn and both tightenings succeed and really move the bound
   (to 3.141593 / 3.141592), so e.g. w = 0 survives try_set_max(pi) and w = 5 survives try_set_min(pi) by the theorem above *)
Example c07_hypotheses_inhabited :
  wf_b ex_iv = true /\ magn_b ex_iv ex_v = true /\
  obs (tsmin_ff ex_iv ex_v) = Some (0x400921fb82c2bd7f, 0x4025000000000000, 0x3eb0c6f7a0b5ed8d, true, false)%Z /\
  obs (tsmax_ff ex_iv ex_v) = Some (0xc004000000000000, 0x400921fafc8b0079, 0x3eb0c6f7a0b5ed8d, true, false)%Z.
Proof. exact ex_ok. Qed.
