(* C06 — float / mixed models: returned solutions stay in bounds and satisfy the constraints within the precision
   tolerance; integer variables stay exact; a constraint between two float variables is never silently ignored.
   PROOF-PARTIAL.  Statements only; each is closed by `exact` of a lemma of Proofs/FloatPropsProofs.v.  All statements are
   about the bit-exact binary64 model (Model/FloatStore.v, FloatProps.v, FloatSearch.v over Model/B64.v), which the check
   ties to the code bit for bit (families fprop_exact, fsearch_exact of vlib/props/c06.py).

   What is proved: (1) integer variables of a mixed model only ever lose values, through every setter, view, propagator,
   propagation and the whole bisection search, so an integer variable's reported value is a member of its declared domain
   (no float reasoning, closed under the global context); (2) float bounds: one tightening inside Magn never widens, and the
   value reported for a float variable lies in its declared interval whenever every float bound passed to its setters lies
   inside Magn (C12F lifted to the store); (3) refutations with closed witnesses of what the code does not guarantee.
   What is NOT proved (declared gap): that the bounds computed by FloatLinEq/Le (binary64 accumulation and division) stay
   inside Magn and close to their exact-rational reading, hence `float_lin_le_fixpoint_within_tol` is only validated by the
   exact-rational judge of the check (vlib/fmodel.py), not proved; of the runtime-API lowering only the
   decision IntLin* / FloatLin* is a Coq function (`float_lowering_covers`, tied by family flower_cover); expression folding
   and auxiliary variables are C10's subject. *)
From Coq Require Import ZArith Bool Reals List Lia.
Import ListNotations.
From Flocq Require Import Core.Core IEEE754.BinarySingleNaN IEEE754.Binary IEEE754.Bits.
Require Import Selen.Model.Prelude Selen.Model.Dom.
Require Import Selen.Model.B64 Selen.Model.FloatInterval Selen.Model.CtxFloat Selen.Model.FloatStore Selen.Model.FloatProps Selen.Model.FloatSearch Selen.Model.FloatDispatch.
Require Import Selen.Proofs.B64Facts Selen.Proofs.FloatIntervalProofs Selen.Proofs.FloatPropsProofs.

(* ---------------------------------------------------------------- mixed_ints_exact *)
(* For every mode (solve / minimize / maximize), every fuel, every model built from the propagator vocabulary of
   Model/FloatProps.v (FloatLinEq/Le/Ne and their reified forms, LessThanOrEquals / Eq over Var / Val / Opposite / Next views,
   IntLinLe on mixed stores) plus whatever the search itself posts (branching and objective propagators): every solution the
   search reports gives every INTEGER variable an integer value that is a member of the domain it was declared with. *)
Theorem mixed_ints_exact : forall m maxsols fuel budget ps s sol v d,
  Forall fvocab ps -> In sol (fs_sols (fsearch m maxsols fuel budget ps s)) ->
  (v < length s)%nat -> fget s v = VI d ->
  exists z, nth v sol (VlI 0) = VlI z /\ In z d.
Proof. exact mixed_ints_exact_main. Qed.
Print Assumptions mixed_ints_exact.

(* integer setters are exact: a successful try_set_min / try_set_max on an integer variable (with an integer OR a float bound)
   leaves a sub-list of the old domain; float variables stay float variables *)
Theorem mixed_setters_only_shrink_ints : forall v b c c',
  (xset_min v b c = Some c' -> store_ile (fst c') (fst c)) /\ (xset_max v b c = Some c' -> store_ile (fst c') (fst c)).
Proof. intros v b c c'. split. apply xset_min_isafe. apply xset_max_isafe. Qed.
Print Assumptions mixed_setters_only_shrink_ints.

(* ---------------------------------------------------------------- float_values_in_bounds *)
(* One float tightening of a float variable of a mixed store with a bound inside Magn: the variable stays a float variable,
   its interval does not widen, the other bound is untouched, and at most one step (+2^-50 relative) beyond the bound is lost. *)
Theorem float_setter_no_widen : forall v x c c' i, (v < length (fst c))%nat -> fget (fst c) v = VF i -> magn_b i x = true ->
  (xset_min v (VlF x) c = Some c' ->
     exists i', fget (fst c') v = VF i' /\ no_widen i i' /\ imax i' = imax i /\
       (R_ (imin i') <= R_ (imin i) \/ R_ (imin i') <= R_ x + R_ (istep i) * (1 + m50) + Rabs (R_ x) * m50)%R) /\
  (xset_max v (VlF x) c = Some c' ->
     exists i', fget (fst c') v = VF i' /\ no_widen i i' /\ imin i' = imin i /\
       (R_ (imax i) <= R_ (imax i') \/ R_ x - R_ (istep i) * (1 + m50) - Rabs (R_ x) * m50 <= R_ (imax i'))%R).
Proof. intros v x c c' i Hv Hg M. split. apply xset_min_float_no_widen; auto. apply xset_max_float_no_widen; auto. Qed.
Print Assumptions float_setter_no_widen.

(* The setters are the only writers of a variable.  Whatever sequence of float tightenings a float variable receives, if every
   bound lies inside Magn w.r.t. the DECLARED interval, the value finally reported for it (the interval minimum) lies inside
   the declared interval and its step is unchanged. *)
Theorem float_values_in_bounds : forall l i i' evs, wf_b i = true ->
  forallb (fun o => fop_is_float o && magn_op_b i o) l = true -> fop_run i l = Some (i', evs) ->
  (R_ (imin i) <= R_ (imin i') /\ R_ (imin i') <= R_ (imax i))%R /\ istep i' = istep i.
Proof. intros l i i' evs W H R. destruct (float_value_in_declared_bounds l i i' evs W H R) as (A & B & C). auto. Qed.
Print Assumptions float_values_in_bounds.

(* ---------------------------------------------------------------- refutations (closed witnesses / general no-op lemmas) *)
(* float_lowering_covers (after the repair): a linear constraint AST that ranges over at least one float variable is
   materialised as a FloatLin* propagator whatever its literals are; IntLin* is chosen only for integer literals over integer
   variables.  linear_lowering is compared with the implementation's lowered model on every case of family flower_cover. *)
Theorem float_lowering_covers : forall int_literals,
  linear_lowering int_literals true = KFloatLin /\
  (forall any_float, linear_lowering int_literals any_float = KIntLin -> int_literals = true /\ any_float = false).
Proof. intro il. split. unfold linear_lowering. destruct il; reflexivity.
  intros af. unfold linear_lowering. destruct il, af; simpl; intro H; try discriminate; auto. Qed.
Print Assumptions float_lowering_covers.

(* Why the repair was needed (the unrepaired lowering linear_lowering_prefix chose IntLin* for m.new(x.le(y)) over two float
   variables): IntLinLe([1,-1],[x,y],k) is the identity on EVERY store in which y is a float variable. *)
Theorem float_cmp_ignored_prefix_refuted :
  linear_lowering_prefix true true = KIntLin /\
  (forall s ev x y ix iy k, x <> y -> fget s x = VF ix -> fget s y = VF iy ->
     prune_ilin_le_mixed [1; -1]%Z [x; y] k (s, ev) = Some (s, ev)).
Proof. split. reflexivity. exact float_cmp_lowered_to_intlin_is_noop. Qed.
Print Assumptions float_cmp_ignored_prefix_refuted.

(* FloatLinLe and integer variables.  BEFORE the repair "FloatLinLe bounds integer variables too" a row over an integer variable
   was the identity (prune_flin_le_prefix); AFTER it the row bounds the integer variable (floor / ceiling of the float bound):
   1.5*x <= 4 fails on x in {3,4,5} and leaves {0,1,2} of {0..5}.  (mixed_ints_exact holds for both versions.) *)
Theorem int_in_floatlin_prefix_refuted : forall c v d coeff k, fget (fst c) v = VI d -> prune_flin_le_prefix [coeff] [v] k c = Some c.
Proof. exact flin_le_prefix_ignores_int_var. Qed.
Print Assumptions int_in_floatlin_prefix_refuted.
Theorem flin_le_bounds_int_var :
  prune_flin_le [of_bits 0x3ff8000000000000] [0%nat] (of_bits 0x4010000000000000) ([VI [3; 4; 5]%Z], []) = None /\
  obs_ctx (prune_flin_le [of_bits 0x3ff8000000000000] [0%nat] (of_bits 0x4010000000000000) ([VI [0; 1; 2; 3; 4; 5]%Z], []))
    = Some ([[0; 0; 1; 2]%Z], [0%nat]).
Proof. exact flin_le_bounds_int_var_ok. Qed.
Print Assumptions flin_le_bounds_int_var.

(* FloatLinNe: inert while two variables are not fixed in its own sense; and two ASSIGNED float variables (one step wide)
   are not fixed in that sense: x - y != 0 accepts x = y = 0 *)
Theorem float_ne_refuted :
  (forall c c0 c1 v0 v1 k, ne_fixed_val (fst c) v0 = None -> ne_fixed_val (fst c) v1 = None -> prune_flin_ne [c0; c1] [v0; v1] k c = Some c) /\
  (fall_assigned w_ne_store = true /\
   obs_ctx (prune_flin_ne [of_bits 0x3ff0000000000000; of_bits 0xbff0000000000000] [0%nat; 1%nat] (of_bits 0) (w_ne_store, [])) = obs_ctx (Some (w_ne_store, [])) /\
   map (fun b => match b with VlF x => to_bits x | VlI z => z end) (fsolution w_ne_store) = [0; 0]%Z).
Proof. split. exact flin_ne_two_unfixed_is_noop. exact float_ne_refuted_ok. Qed.
Print Assumptions float_ne_refuted.

(* ---------------------------------------------------------------- non-vacuity *)
(* x in [0,2] step 0.25 (float), y in {0,1,2} (int), x + y <= 2: the vocabulary hypothesis holds and the search returns (0.0, 0) *)
Example c06_hypotheses_inhabited : Forall fvocab ex_props /\
  map (map (fun b => match b with VlF x => to_bits x | VlI z => z end)) (fs_sols (fsolve_first 50 2000 ex_props ex_store)) = [[0; 0]%Z].
Proof. exact ex_search_ok. Qed.
