(* C06 — float / mixed models: returned solutions stay in bounds and satisfy the constraints within the precision
   tolerance; integer variables stay exact; a constraint between two float variables is never silently ignored.
   PROOF-PARTIAL.  Statements only; each is closed by `exact` of a lemma of Proofs/FloatPropsProofs.v.  All statements are
   about the bit-exact binary64 model (Model/FloatStore.v, FloatProps.v, FloatSearch.v over Model/B64.v), which the check
   ties to the code bit for bit (families fprop_exact, fsearch_exact of vlib/props/c06.py).

   What is proved: (1) integer variables of a mixed model only ever lose values, through every setter, view, propagator,
   propagation and the whole bisection search, so an integer variable's reported value is a member of its declared domain
   (no float reasoning, closed under the global context); (2) float bounds: one tightening inside Magn never widens, and the
   value reported for a float variable lies in its declared interval whenever every float bound passed to its setters lies
   inside Magn (C12F lifted to the store); (3) refutations with closed witnesses of what the code does not guarantee.
   What is NOT proved (declared gap): that the bounds computed by FloatLinEq/Le (binary64 accumulation and division) stay
   inside Magn and close to their exact-rational reading, hence `float_lin_le_fixpoint_within_tol` is only validated by the
   exact-rational judge of the check (vlib/fmodel.py), not proved; of the runtime-API lowering only the
   decision IntLin* / FloatLin* is a Coq function (`float_lowering_covers`, tied by family flower_cover); expression folding
   and auxiliary variables are C10's subject. *)
From Coq Require Import ZArith Bool Reals List Lia.
Import ListNotations.
From Flocq Require Import Core.Core IEEE754.BinarySingleNaN IEEE754.Binary IEEE754.Bits.
Require Import Selen.Model.Prelude Selen.Model.Dom.
Require Import Selen.Model.B64 Selen.Model.FloatInterval Selen.Model.CtxFloat Selen.Model.FloatStore Selen.Model.FloatProps Selen.Model.FloatSearch Selen.Model.FloatDispatch.
Require Import Selen.Proofs.B64Facts Selen.Proofs.FloatIntervalProofs Selen.Proofs.FloatPropsProofs Selen.Proofs.FloatArithProofs Selen.Proofs.FloatMulProofs.

(* ---------------------------------------------------------------- mixed_ints_exact *)
(* For every mode (solve / minimize / maximize), every fuel, every model built from the propagator vocabulary of
   Model/FloatProps.v (FloatLinEq/Le/Ne and their reified forms, LessThanOrEquals / Eq over Var / Val / Opposite / Next views,
   IntLinLe on mixed stores, Add / Sub over such views) plus whatever the search itself posts (branching and objective propagators): every solution the
   search reports gives every INTEGER variable an integer value that is a member of the domain it was declared with. *)
Theorem mixed_ints_exact : forall m maxsols fuel budget ps s sol v d,
  Forall fvocab ps -> In sol (fs_sols (fsearch m maxsols fuel budget ps s)) ->
  (v < length s)%nat -> fget s v = VI d ->
  exists z, nth v sol (VlI 0) = VlI z /\ In z d.
Proof. exact mixed_ints_exact_main. Qed.
Print Assumptions mixed_ints_exact.

(* integer setters are exact: a successful try_set_min / try_set_max on an integer variable (with an integer OR a float bound)
   leaves a sub-list of the old domain; float variables stay float variables *)
Theorem mixed_setters_only_shrink_ints : forall v b c c',
  (xset_min v b c = Some c' -> store_ile (fst c') (fst c)) /\ (xset_max v b c = Some c' -> store_ile (fst c') (fst c)).
Proof. intros v b c c'. split. apply xset_min_isafe. apply xset_max_isafe. Qed.
Print Assumptions mixed_setters_only_shrink_ints.

(* ---------------------------------------------------------------- float_values_in_bounds *)
(* One float tightening of a float variable of a mixed store with a bound inside Magn: the variable stays a float variable,
   its interval does not widen, the other bound is untouched, and at most one step (+2^-50 relative) beyond the bound is lost. *)
Theorem float_setter_no_widen : forall v x c c' i, (v < length (fst c))%nat -> fget (fst c) v = VF i -> magn_b i x = true ->
  (xset_min v (VlF x) c = Some c' ->
     exists i', fget (fst c') v = VF i' /\ no_widen i i' /\ imax i' = imax i /\
       (R_ (imin i') <= R_ (imin i) \/ R_ (imin i') <= R_ x + R_ (istep i) * (1 + m50) + Rabs (R_ x) * m50)%R) /\
  (xset_max v (VlF x) c = Some c' ->
     exists i', fget (fst c') v = VF i' /\ no_widen i i' /\ imin i' = imin i /\
       (R_ (imax i) <= R_ (imax i') \/ R_ x - R_ (istep i) * (1 + m50) - Rabs (R_ x) * m50 <= R_ (imax i'))%R).
Proof. intros v x c c' i Hv Hg M. split. apply xset_min_float_no_widen; auto. apply xset_max_float_no_widen; auto. Qed.
Print Assumptions float_setter_no_widen.

(* The setters are the only writers of a variable.  Whatever sequence of float tightenings a float variable receives, if every
   bound lies inside Magn w.r.t. the DECLARED interval, the value finally reported for it (the interval minimum) lies inside
   the declared interval and its step is unchanged. *)
Theorem float_values_in_bounds : forall l i i' evs, wf_b i = true ->
  forallb (fun o => fop_is_float o && magn_op_b i o) l = true -> fop_run i l = Some (i', evs) ->
  (R_ (imin i) <= R_ (imin i') /\ R_ (imin i') <= R_ (imax i))%R /\ istep i' = istep i.
Proof. intros l i i' evs W H R. destruct (float_value_in_declared_bounds l i i' evs W H R) as (A & B & C). auto. Qed.
Print Assumptions float_values_in_bounds.

(* ---------------------------------------------------------------- Add / Sub on float and mixed operands *)
(* Model: Model/FloatProps.v prune_fadd (props/add.rs:33-45; Sub = Add over Opposite, props/mod.rs:543-547), tied bit for bit by
   family fprop_exact (kinds `add`, `sub`).  mk_fadd / mk_fsub belong to the vocabulary fvocab, so mixed_ints_exact above covers
   models that contain them: an integer operand or result of a float addition keeps an integer value of its declared domain. *)
Theorem float_add_ints_only_shrink : forall x y s c c', prune_fadd x y s c = Some c' -> store_ile (fst c') (fst c).
Proof. exact (fun x y s => prune_fadd_isafe x y s). Qed.
Print Assumptions float_add_ints_only_shrink.

(* ---------------------------------------------------------------- Mul on float and mixed operands *)
(* Model: Model/FloatProps.v prune_fmul (props/mul.rs:18-95 with Val::{mul, div, safe_div, is_safe_divisor,
   range_contains_unsafe_divisor} of variables/core.rs), tied bit for bit by family fprop_exact (kind `mul`).  mk_fmul belongs to
   fvocab, so mixed_ints_exact covers models that contain it.  Proved: integers only shrink; the back-propagation block
   x = s / y is inert and cannot fail whenever y's box contains or touches zero (the divisor guard), integer guard exact;
   a float box strictly outside [-EPSILON, EPSILON] is a divisor range.  NOT proved: the forward product bounds and the quotient
   bounds are outward-safe within tolerance (no RN-level error analysis of the four corner products / quotients yet): for that
   part the oracle family farith_random and C07's fwitness_mul are tests, not theorems. *)
Theorem float_mul_ints_only_shrink : forall x y s c c', prune_fmul x y s c = Some c' -> store_ile (fst c') (fst c).
Proof. exact (fun x y s => prune_fmul_isafe x y s). Qed.
Print Assumptions float_mul_ints_only_shrink.
Theorem float_mul_guard_covers_zero : forall lo hi, fin lo -> fin hi -> (R_ lo <= 0)%R -> (0 <= R_ hi)%R ->
  range_unsafe (VlF lo) (VlF hi) = true.
Proof. exact range_unsafe_covers_zero_f. Qed.
Print Assumptions float_mul_guard_covers_zero.
Theorem float_mul_guard_int_exact : forall lo hi, range_unsafe (VlI lo) (VlI hi) = true <-> (lo <= 0 <= hi)%Z.
Proof. exact range_unsafe_i_iff. Qed.
Print Assumptions float_mul_guard_int_exact.
Theorem float_mul_guard_away : forall lo hi, fin lo -> fin hi -> (R_ c_epsilon < R_ lo \/ R_ hi < R_ (fneg c_epsilon))%R ->
  range_unsafe (VlF lo) (VlF hi) = false.
Proof. exact range_unsafe_away_f. Qed.
Print Assumptions float_mul_guard_away.
Theorem float_mul_no_division_over_zero : forall w smin smax lo hi c, fin lo -> fin hi -> (R_ lo <= 0)%R -> (0 <= R_ hi)%R ->
  mul_back w smin smax (VlF lo) (VlF hi) c = Some c.
Proof. exact mul_back_inert_over_zero. Qed.
Print Assumptions float_mul_no_division_over_zero.
(* the bounds handed to s.try_set_min / s.try_set_max (and the candidate quotients handed to x / y) are the least / greatest
   element of the list of finite f64 values they are folded from, whatever the order of the list *)
Theorem float_mul_fold_min_extremal : forall l a, fin a -> Forall fin l ->
  exists m, val_fold_min (VlF a) (map VlF l) = VlF m /\ fin m /\ In m (a :: l) /\ (R_ m <= R_ a)%R /\ Forall (fun x => (R_ m <= R_ x)%R) l.
Proof. exact fold_min_f. Qed.
Print Assumptions float_mul_fold_min_extremal.
Theorem float_mul_fold_max_extremal : forall l a, fin a -> Forall fin l ->
  exists m, val_fold_max (VlF a) (map VlF l) = VlF m /\ fin m /\ In m (a :: l) /\ (R_ a <= R_ m)%R /\ Forall (fun x => (R_ x <= R_ m)%R) l.
Proof. exact fold_max_f. Qed.
Print Assumptions float_mul_fold_max_extremal.
(* non-vacuity / closed witness: x in 5..20, y in [-5.0, 0.0], s in [-10.0, -1.0] (the demonstration of seeded change C07d) *)
Example float_mul_witness : range_unsafe (fv_min (FVar 1) w_mul_store) (fv_max (FVar 1) w_mul_store) = true /\
  match prune_fmul (FVar 0) (FVar 1) 2 (w_mul_store, []) with
  | Some c' => var_min (fget (fst c') 0) = VlI 5 /\ var_max (fget (fst c') 0) = VlI 20
  | None => False end.
Proof. exact w_mul_guard. Qed.

(* contracting: prune_fadd_g is prune_fadd with every setter call guarded by "a float variable receives a float bound inside
   Magn of its current interval" (it answers None otherwise).  Whenever the guarded run succeeds it IS the run of the model, and
   no variable gained a value: integer domains shrink, float intervals keep their step and do not widen (nw_store). *)
Theorem float_add_contracting : forall x y s c c', prune_fadd_g x y s c = Some c' ->
  prune_fadd x y s c = Some c' /\ nw_store (fst c) (fst c').
Proof. exact float_add_contracting_main. Qed.
Print Assumptions float_add_contracting.
Theorem float_sub_contracting : forall x y s c c', prune_fadd_g x (FOpp y) s c = Some c' ->
  fprune (mk_fsub x y s) c = Some c' /\ nw_store (fst c) (fst c').
Proof. intros x y s. exact (float_add_contracting_main x (FOpp y) s). Qed.
Print Assumptions float_sub_contracting.

(* fixpoint within tolerance (the float_add_ analogue of the planned float_lin_le_fixpoint_within_tol).  On a context that the two
   forward calls of Add leave unchanged -- s.try_set_min(lo), s.try_set_max(hi) with lo = x.min + y.min, hi = x.max + y.max as
   computed in binary64 -- and with none of the code's intermediate values overflowing:
     lo <= RN(s.min + step/2)   or  |RN(lo - s.min)| < ptol(s.max)   or  RN(lo - s.max) <= ptol(s.max)
     hi >= RN(s.max - step/2)   or  |RN(hi - s.max)| < ptol(s.min)   or  RN(s.min - hi) <= ptol(s.min)
   (ptol(b) = max(3*step, 1e-5*|b|) in binary64, ctx_ptol; RN(..) are the code's own roundings, here the B2R of the f64 results).
   With x.min + y.min <= x + y <= x.max + y.max and s.max - s.min < 3/2 step this is the tolerance
   3/2*step*[number of float operands] + 3/2*step + P(s) the check's judge uses for add / sub (vlib/fmodel.py). *)
Theorem float_add_fixpoint_within_tol : forall x y s st ev i lo hi,
  fget st s = VF i -> wf i ->
  val_add (fv_min x st) (fv_min y st) = VlF lo -> val_add (fv_max x st) (fv_max y st) = VlF hi ->
  xset_min s (VlF lo) (st, ev) = Some (st, ev) -> xset_max s (VlF hi) (st, ev) = Some (st, ev) ->
  fin lo -> fin hi ->
  fin (fadd (imin i) (ctx_tol i)) -> fin (fsub lo (imin i)) -> fin (fsub lo (imax i)) -> fin (ctx_ptol i (imax i)) ->
  fin (fsub (imax i) (ctx_tol i)) -> fin (fsub hi (imax i)) -> fin (fsub (imin i) hi) -> fin (ctx_ptol i (imin i)) ->
  ((R_ lo <= R_ (fadd (imin i) (ctx_tol i)) \/ Rabs (R_ (fsub lo (imin i))) < R_ (ctx_ptol i (imax i)) \/
     R_ (fsub lo (imax i)) <= R_ (ctx_ptol i (imax i))) /\
   (R_ (fsub (imax i) (ctx_tol i)) <= R_ hi \/ Rabs (R_ (fsub hi (imax i))) < R_ (ctx_ptol i (imin i)) \/
     R_ (fsub (imin i) hi) <= R_ (ctx_ptol i (imin i))))%R.
Proof. exact float_add_fixpoint_within_tol_main. Qed.
Print Assumptions float_add_fixpoint_within_tol.
(* ... and every successful run of Add begins with exactly these two calls *)
Theorem float_add_forward_calls : forall x y s c c', prune_fadd x y s c = Some c' ->
  exists c1 c2, xset_min s (val_add (fv_min x (fst c)) (fv_min y (fst c))) c = Some c1 /\
                xset_max s (val_add (fv_max x (fst c1)) (fv_max y (fst c1))) c1 = Some c2.
Proof. exact prune_fadd_forward. Qed.
Print Assumptions float_add_forward_calls.
(* non-vacuity of the guard: x in [1,2], y in [0.5,1], s in [0,10], step 0.25 *)
Example float_add_guard_inhabited :
  obs_fctx (prune_fadd_g (FVar 0) (FVar 1) 2 (w_add_store, [])) =
    Some ([[0x3ff0000000000000; 0x4000000000000000]; [0x3fe0000000000000; 0x3ff0000000000000]; [0x3ff8000000000000; 0x4008000000000000]]%Z, [2; 2]%nat) /\
  obs_fctx (prune_fadd_g (FVar 0) (FOpp (FVar 1)) 2 (w_add_store, [])) =
    Some ([[0x3ff0000000000000; 0x4000000000000000]; [0x3fe0000000000000; 0x3ff0000000000000]; [0; 0x3ff8000000000000]]%Z, [2]%nat).
Proof. exact float_add_guard_inhabited_ok. Qed.

(* ---------------------------------------------------------------- refutations (closed witnesses / general no-op lemmas) *)
(* float_lowering_covers (after the repair): a linear constraint AST that ranges over at least one float variable is
   materialised as a FloatLin* propagator whatever its literals are; IntLin* is chosen only for integer literals over integer
   variables.  linear_lowering is compared with the implementation's lowered model on every case of family flower_cover. *)
Theorem float_lowering_covers : forall int_literals,
  linear_lowering int_literals true = KFloatLin /\
  (forall any_float, linear_lowering int_literals any_float = KIntLin -> int_literals = true /\ any_float = false).
Proof. intro il. split. unfold linear_lowering. destruct il; reflexivity.
  intros af. unfold linear_lowering. destruct il, af; simpl; intro H; try discriminate; auto. Qed.
Print Assumptions float_lowering_covers.

(* Why the repair was needed (the unrepaired lowering linear_lowering_prefix chose IntLin* for m.new(x.le(y)) over two float
   variables): IntLinLe([1,-1],[x,y],k) is the identity on EVERY store in which y is a float variable. *)
Theorem float_cmp_ignored_prefix_refuted :
  linear_lowering_prefix true true = KIntLin /\
  (forall s ev x y ix iy k, x <> y -> fget s x = VF ix -> fget s y = VF iy ->
     prune_ilin_le_mixed [1; -1]%Z [x; y] k (s, ev) = Some (s, ev)).
Proof. split. reflexivity. exact float_cmp_lowered_to_intlin_is_noop. Qed.
Print Assumptions float_cmp_ignored_prefix_refuted.

(* FloatLinLe and integer variables.  BEFORE the repair "FloatLinLe bounds integer variables too" a row over an integer variable
   was the identity (prune_flin_le_prefix); AFTER it the row bounds the integer variable (floor / ceiling of the float bound):
   1.5*x <= 4 fails on x in {3,4,5} and leaves {0,1,2} of {0..5}.  (mixed_ints_exact holds for both versions.) *)
Theorem int_in_floatlin_prefix_refuted : forall c v d coeff k, fget (fst c) v = VI d -> prune_flin_le_prefix [coeff] [v] k c = Some c.
Proof. exact flin_le_prefix_ignores_int_var. Qed.
Print Assumptions int_in_floatlin_prefix_refuted.
Theorem flin_le_bounds_int_var :
  prune_flin_le [of_bits 0x3ff8000000000000] [0%nat] (of_bits 0x4010000000000000) ([VI [3; 4; 5]%Z], []) = None /\
  obs_ctx (prune_flin_le [of_bits 0x3ff8000000000000] [0%nat] (of_bits 0x4010000000000000) ([VI [0; 1; 2; 3; 4; 5]%Z], []))
    = Some ([[0; 0; 1; 2]%Z], [0%nat]).
Proof. exact flin_le_bounds_int_var_ok. Qed.
Print Assumptions flin_le_bounds_int_var.

(* FloatLinNe BEFORE the repair "disequalities are decided at the leaves of the search" (prune_flin_ne_prefix): inert while two
   variables are not fixed in its own sense (|max - min| < 1e-12); and two ASSIGNED float variables (one step wide) are not fixed
   in that sense: x - y != 0 accepted x = y = 0 *)
Theorem float_ne_refuted :
  (forall c c0 c1 v0 v1 k, ne_fixed_val (fst c) v0 = None -> ne_fixed_val (fst c) v1 = None -> prune_flin_ne_prefix [c0; c1] [v0; v1] k c = Some c) /\
  (fall_assigned w_ne_store = true /\
   obs_ctx (prune_flin_ne_prefix [of_bits 0x3ff0000000000000; of_bits 0xbff0000000000000] [0%nat; 1%nat] (of_bits 0) (w_ne_store, [])) = obs_ctx (Some (w_ne_store, [])) /\
   map (fun b => match b with VlF x => to_bits x | VlI z => z end) (fsolution w_ne_store) = [0; 0]%Z).
Proof. split. exact flin_ne_two_unfixed_is_noop. exact float_ne_refuted_ok. Qed.
Print Assumptions float_ne_refuted.

(* AFTER the repair: once every variable of the constraint is assigned in the SEARCH's sense (Var::is_assigned: the search will
   not split it any more; the value a solution reports is var_value = the minimum) FloatLinNe decides the constraint on exactly
   those values and changes nothing: it fails iff the binary64 sum of coeff * reported value lies within 1e-12 of the constant.
   Hence no solution the search reports can have that sum equal to the constant.  On the former witness: x = y = 0 is rejected,
   x = 0, y = 1e-6 is accepted. *)
Theorem float_ne_decided_at_leaves : forall cs vs k c, Forall (fun v => var_assigned (fget (fst c) v) = true) vs ->
  prune_flin_ne cs vs k c = if flt (fabs (fsub (reported_sum cs vs (fst c) c_zero) k)) c_ne_eq then None else Some c.
Proof. exact flin_ne_decides_leaf. Qed.
Print Assumptions float_ne_decided_at_leaves.
Theorem float_ne_repaired :
  prune_flin_ne [of_bits 0x3ff0000000000000; of_bits 0xbff0000000000000] [0%nat; 1%nat] (of_bits 0) (w_ne_store, []) = None /\
  fall_assigned [VF w_ne_iv; VF w_ne_iv2] = true /\
  obs_ctx (prune_flin_ne [of_bits 0x3ff0000000000000; of_bits 0xbff0000000000000] [0%nat; 1%nat] (of_bits 0) ([VF w_ne_iv; VF w_ne_iv2], []))
    = obs_ctx (Some ([VF w_ne_iv; VF w_ne_iv2], [])).
Proof. exact float_ne_repaired_ok. Qed.
Print Assumptions float_ne_repaired.

(* ---------------------------------------------------------------- non-vacuity *)
(* x in [0,2] step 0.25 (float), y in {0,1,2} (int), x + y <= 2: the vocabulary hypothesis holds and the search returns (0.0, 0) *)
Example c06_hypotheses_inhabited : Forall fvocab ex_props /\
  map (map (fun b => match b with VlF x => to_bits x | VlI z => z end)) (fs_sols (fsolve_first 50 2000 ex_props ex_store)) = [[0; 0]%Z].
Proof. exact ex_search_ok. Qed.
