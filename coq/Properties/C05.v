(* C05 — propagation removes only unsupported values; fails only if nothing is left.
   (a) the four local contracts for every modelled propagator kind (all parameters and all
       well-formed stores, holes included); (b) their lift to propagation to fixpoint under every
       scheduling order.  Statements only. *)
Require Import Selen.Model.Prelude Selen.Model.Dom Selen.Model.Views Selen.Model.PropDefs.
Require Import Selen.Model.Props.Basic Selen.Model.Props.LinInt Selen.Model.Propagate Selen.Model.Search Selen.Model.EngineSpec.
Require Import Selen.Proofs.Props.BasicProofs Selen.Proofs.Props.LinIntProofs Selen.Proofs.EngineProofs.

(* ---- (a) local contracts ---- *)
Theorem add_good : forall x y s, view_ok x -> view_ok y -> good (mk_add x y s).
Proof. exact BasicProofs.mk_add_good. Qed.
Print Assumptions add_good.
Theorem sub_good : forall x y s, view_ok x -> view_ok y -> good (mk_sub x y s).
Proof. exact BasicProofs.mk_sub_good. Qed.
Print Assumptions sub_good.
Theorem leq_good : forall x y, view_ok x -> view_ok y -> good (mk_leq x y).
Proof. exact BasicProofs.mk_leq_good. Qed.
Print Assumptions leq_good.
Theorem lt_good : forall x y, view_ok x -> view_ok y -> good (mk_lt x y).
Proof. exact BasicProofs.mk_lt_good. Qed.
Print Assumptions lt_good.
Theorem geq_good : forall x y, view_ok x -> view_ok y -> good (mk_geq x y).
Proof. exact BasicProofs.mk_geq_good. Qed.
Print Assumptions geq_good.
Theorem gt_good : forall x y, view_ok x -> view_ok y -> good (mk_gt x y).
Proof. exact BasicProofs.mk_gt_good. Qed.
Print Assumptions gt_good.
Theorem eq_good : forall x y, view_ok x -> view_ok y -> good (mk_eq x y).
Proof. exact BasicProofs.mk_eq_good. Qed.
Print Assumptions eq_good.
Theorem sum_good : forall xs s, Forall view_ok xs -> good (mk_sum xs s).
Proof. exact BasicProofs.mk_sum_good. Qed.
Print Assumptions sum_good.
Theorem lin_eq_good : forall cs xs k, all_zero cs xs = false -> good (mk_lin_eq cs xs k).
Proof. exact LinIntProofs.mk_lin_eq_good. Qed.
Print Assumptions lin_eq_good.
Theorem lin_le_good : forall cs xs k, all_zero cs xs = false -> good (mk_lin_le cs xs k).
Proof. exact LinIntProofs.mk_lin_le_good. Qed.
Print Assumptions lin_le_good.
Theorem lin_ne_good : forall cs xs k, good (mk_lin_ne cs xs k).
Proof. exact LinIntProofs.mk_lin_ne_good. Qed.
Print Assumptions lin_ne_good.
Theorem lin_eq_reif_good : forall cs xs k b, all_zero cs xs = false -> good (mk_lin_eq_reif cs xs k b).
Proof. exact LinIntProofs.mk_lin_eq_reif_good. Qed.
Print Assumptions lin_eq_reif_good.
Theorem lin_le_reif_good : forall cs xs k b, all_zero cs xs = false -> good (mk_lin_le_reif cs xs k b).
Proof. exact LinIntProofs.mk_lin_le_reif_good. Qed.
Print Assumptions lin_le_reif_good.
Theorem lin_ne_reif_good : forall cs xs k b, all_zero cs xs = false -> good (mk_lin_ne_reif cs xs k b).
Proof. exact LinIntProofs.mk_lin_ne_reif_good. Qed.
Print Assumptions lin_ne_reif_good.

(* known findings: the full-strength statements are false *)
Theorem neq_noop_checking_refuted : exists x y, ~ checking (mk_neq_noop x y).          (* D3 *)
Proof. exact BasicProofs.neq_noop_checking_refuted. Qed.
Print Assumptions neq_noop_checking_refuted.
Theorem lin_zero_coeffs_checking_refuted : exists cs xs k, all_zero cs xs = true /\ ~ checking (mk_lin_le cs xs k).  (* D11 *)
Proof. exact LinIntProofs.lin_zero_coeffs_checking_refuted. Qed.
Print Assumptions lin_zero_coeffs_checking_refuted.

(* ---- (b) propagation to fixpoint, every scheduler `pick`, every fuel ---- *)
Theorem propagate_shrinks : forall pick fuel ps s q s',
  Forall contracting ps -> wf_store s -> propagate pick fuel ps s q = PDone s' -> sub_store s' s /\ wf_store s'.
Proof. exact EngineProofs.propagate_shrinks. Qed.
Print Assumptions propagate_shrinks.

Theorem propagate_keeps_solutions : forall pick fuel ps s q a,
  Forall contracting ps -> Forall sound ps -> scoped ps (length s) -> wf_store s -> sol ps s a ->
  (forall i, In i q -> (i < length ps)%nat) ->
  propagate pick fuel ps s q <> PFail /\ forall s', propagate pick fuel ps s q = PDone s' -> inst a s'.
Proof. exact EngineProofs.propagate_keeps_solutions. Qed.
Print Assumptions propagate_keeps_solutions.

Theorem propagate_fixpoint : forall pick fuel ps s q s',
  Forall good ps -> scoped ps (length s) -> wf_store s -> stable ps s q ->
  propagate pick fuel ps s q = PDone s' -> stable ps s' [].
Proof. exact EngineProofs.propagate_fixpoint. Qed.
Print Assumptions propagate_fixpoint.

Theorem fixed_fixpoint_checks : forall ps s a,
  Forall good ps -> scoped ps (length s) -> wf_store s -> stable ps s [] -> all_fixed s = true -> inst a s ->
  forall p, In p ps -> sat p a = true.
Proof. exact EngineProofs.fixed_fixpoint_checks. Qed.
Print Assumptions fixed_fixpoint_checks.

Theorem propagate_terminates : forall pick fuel ps s q,
  Forall contracting ps -> wf_store s -> (prop_fuel ps s q <= fuel)%nat -> propagate pick fuel ps s q <> PFuel.
Proof. exact EngineProofs.propagate_terminates. Qed.
Print Assumptions propagate_terminates.

Example c05_nonvacuous :
  propagate fifo 100 [mk_add (VVar 0) (vtimes (VVar 1) (-2)) 2; mk_lin_le [2;-3] [0%nat;2%nat] 1] [[-2;0;3];[-1;1];[0;1;5]] [0%nat;1%nat]
  = PDone [[-2; 0; 3]; [-1; 1]; [0; 1; 5]].
Proof. vm_compute. reflexivity. Qed.
