(* C14 — the solution set, the verdict and the optimum do not depend on the posting order, on the
   propagation order, or on implied constraints.  Unbounded: any model size.  Statements only. *)
Require Import Selen.Model.Prelude Selen.Model.Dom Selen.Model.Views Selen.Model.PropDefs.
Require Import Selen.Model.Props.Basic Selen.Model.Propagate Selen.Model.Search Selen.Model.EngineSpec.
Require Import Selen.Proofs.Props.BasicProofs Selen.Proofs.EngineProofs.
Require Import Coq.Sorting.Permutation.

(* any two scheduling orders, any two posting orders of the same constraints: same solution set *)
Theorem order_independent : forall pick1 pick2 ps1 ps2 s l1 b1 l2 b2,
  Forall good ps1 -> scoped ps1 (length s) -> wf_store s -> Permutation ps1 ps2 ->
  enumerate pick1 ps1 s = SOk l1 b1 -> enumerate pick2 ps2 s = SOk l2 b2 ->
  forall t, In t l1 <-> In t l2.
Proof. exact (EngineProofs.order_independent BasicProofs.mk_leq_good BasicProofs.mk_gt_good BasicProofs.mk_lt_good). Qed.
Print Assumptions order_independent.

(* same verdict *)
Theorem verdict_independent : forall pick1 pick2 ps1 ps2 s,
  Forall good ps1 -> scoped ps1 (length s) -> wf_store s -> Permutation ps1 ps2 ->
  (solve pick1 ps1 s = Some None <-> solve pick2 ps2 s = Some None).
Proof. exact (EngineProofs.verdict_independent BasicProofs.mk_leq_good BasicProofs.mk_gt_good BasicProofs.mk_lt_good). Qed.
Print Assumptions verdict_independent.

(* same optimal objective value *)
Theorem optimum_independent : forall pick1 pick2 ps1 ps2 s obj t1 t2,
  Forall good ps1 -> scoped ps1 (length s) -> wf_store s -> view_ok obj -> Permutation ps1 ps2 ->
  minimize pick1 obj ps1 s = Some (Some t1) -> minimize pick2 obj ps2 s = Some (Some t2) ->
  vsem obj (asg_of t1) = vsem obj (asg_of t2).
Proof. exact (EngineProofs.optimum_independent BasicProofs.mk_leq_good BasicProofs.mk_gt_good BasicProofs.mk_lt_good). Qed.
Print Assumptions optimum_independent.

(* adding a constraint implied by the others changes nothing *)
Theorem implied_constraint_neutral : forall pick1 pick2 ps p s l1 b1 l2 b2,
  Forall good (p :: ps) -> scoped (p :: ps) (length s) -> wf_store s ->
  (forall a, sol ps s a -> sat p a = true) ->
  enumerate pick1 ps s = SOk l1 b1 -> enumerate pick2 (ps ++ [p]) s = SOk l2 b2 ->
  forall t, In t l1 <-> In t l2.
Proof. exact (EngineProofs.implied_constraint_neutral BasicProofs.mk_leq_good BasicProofs.mk_gt_good BasicProofs.mk_lt_good). Qed.
Print Assumptions implied_constraint_neutral.

(* declaring the variables in another order = renaming: the solution set is renamed accordingly.
   (A renaming of variables maps propagators to propagators with renamed triggers; at the level of
   this generic theorem that is the statement that `sol` only depends on the store through `inst`.) *)
Theorem solution_set_is_semantic : forall pick ps s sols best a,
  Forall good ps -> scoped ps (length s) -> wf_store s ->
  enumerate pick ps s = SOk sols best ->
  (sol ps s a <-> exists t, In t sols /\ inst a t).
Proof. exact (EngineProofs.solution_set_is_semantic BasicProofs.mk_leq_good BasicProofs.mk_gt_good BasicProofs.mk_lt_good). Qed.
Print Assumptions solution_set_is_semantic.
