(* C02 — solve succeeds exactly on satisfiable models (props-level core).  Statements only. *)
Require Import Selen.Model.Prelude Selen.Model.Dom Selen.Model.Views Selen.Model.PropDefs.
Require Import Selen.Model.Props.Basic Selen.Model.Propagate Selen.Model.Search Selen.Model.EngineSpec.
Require Import Selen.Proofs.Props.BasicProofs Selen.Proofs.EngineProofs.

Theorem solve_complete : forall pick ps s a,
  Forall good ps -> scoped ps (length s) -> wf_store s -> sol ps s a ->
  exists t, solve pick ps s = Some (Some t).
Proof. exact (EngineProofs.solve_complete BasicProofs.mk_leq_good BasicProofs.mk_gt_good BasicProofs.mk_lt_good). Qed.
Print Assumptions solve_complete.

Theorem solve_nosol_sound : forall pick ps s,
  Forall good ps -> scoped ps (length s) -> wf_store s ->
  solve pick ps s = Some None -> forall a, ~ sol ps s a.
Proof. exact (EngineProofs.solve_nosol_sound BasicProofs.mk_leq_good BasicProofs.mk_gt_good BasicProofs.mk_lt_good). Qed.
Print Assumptions solve_nosol_sound.

Theorem solve_total : forall pick ps s,
  Forall good ps -> scoped ps (length s) -> wf_store s -> solve pick ps s <> None.
Proof. exact (EngineProofs.solve_total BasicProofs.mk_leq_good BasicProofs.mk_gt_good BasicProofs.mk_lt_good). Qed.
Print Assumptions solve_total.
