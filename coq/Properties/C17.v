(* C17 — Invalid or extreme inputs produce errors, not panics.  Statements only; proofs in
   Proofs/CheckedProofs.v.  Model/Checked.v re-states the arithmetic of the integer core with the
   semantics of checked i32 (None = the Rust code panics in the profile the test suite uses).

   no_overflow_in_range_*   under the InRange predicates every checked definition returns Some and equals
                            the unbounded-Z model used by C01-C05/C10/C13/C14 (so: no arithmetic panic for
                            in-range arguments, and the Z model IS the i32 behaviour there)
   no_oob_index             `coefficients[i]`, i < variables.len(), stays inside the vector iff there is a
                            coefficient for every variable
   *_refuted                real panics: the reified linear postings accept a shorter coefficient vector;
                            and witnesses that the InRange hypotheses are needed
   invalid_*                the rows of the API error table that the lowering model covers *)
Require Import Selen.Model.Prelude Selen.Model.Dom Selen.Model.Views Selen.Model.PropDefs.
Require Import Selen.Model.Props.Basic Selen.Model.Props.LinInt Selen.Model.Api Selen.Model.Lower Selen.Model.Checked.
Require Selen.Proofs.CheckedProofs.

Local Open Scope Z_scope.

(* ---- scalars: inside the i32 range the checked operations are the Z operations ---- *)
Theorem checked_ops_agree : forall a b,
  (Z.abs a + Z.abs b <= i32_max -> cadd a b = Some (a + b) /\ csub a b = Some (a - b) /\ sadd a b = a + b /\ ssub a b = a - b) /\
  (Z.abs a * Z.abs b <= i32_max -> cmul a b = Some (a * b)) /\
  (Z.abs a <= i32_max -> cneg a = Some (- a)) /\
  (b <> 0 -> Z.abs a <= i32_max ->
     cediv a b = Some (ediv a b) /\ cerem a b = Some (erem a b) /\ ctdiv a b = Some (tdiv a b) /\ ctrem a b = Some (trem a b) /\
     div_ceil32 a b = cdiv a b /\ div_floor32 a b = fdiv a b).
Proof. exact CheckedProofs.checked_ops_agree_lemma. Qed.
Print Assumptions checked_ops_agree.

(* ---- views ---- *)
Theorem no_overflow_in_range_view_bounds : forall B s, 0 <= B -> bounded B s -> forall w, view_in_range B w -> forall mx,
  cvbnd w mx s = Some (vbnd w mx s) /\ Z.abs (vbnd w mx s) <= vmag B w.
Proof. exact CheckedProofs.cvbnd_ok. Qed.
Print Assumptions no_overflow_in_range_view_bounds.

Theorem no_overflow_in_range_view_tighten : forall B, 0 <= B -> B < i32_max -> forall w M, vset_in_range w M -> M <= i32_max ->
  forall mx b c, Z.abs b <= M -> bounded B (fst c) -> cvset w mx b c = Some (vset w mx b c).
Proof. exact CheckedProofs.cvset_ok. Qed.
Print Assumptions no_overflow_in_range_view_tighten.

(* the InRange invariant is kept by every tightening, so the theorems apply along a whole propagation *)
Theorem in_range_preserved : forall B w mx b c c', bounded B (fst c) -> vset w mx b c = Some c' -> bounded B (fst c').
Proof. exact CheckedProofs.vset_bounded. Qed.
Print Assumptions in_range_preserved.

(* ---- Add, Sum ---- *)
Theorem no_overflow_in_range_add : forall B x y s c, bounded B (fst c) -> add_in_range B x y ->
  cprune_add x y s c = Some (prune_add x y s c).
Proof. exact CheckedProofs.cprune_add_ok. Qed.
Print Assumptions no_overflow_in_range_add.

Theorem no_overflow_in_range_sum : forall B xs s c, bounded B (fst c) -> sum_in_range B xs ->
  cprune_sum xs s c = Some (prune_sum xs s c).
Proof. exact CheckedProofs.cprune_sum_ok. Qed.
Print Assumptions no_overflow_in_range_sum.

(* ---- IntLinEq / IntLinLe / IntLinNe and the reified forms ---- *)
Theorem no_overflow_in_range_lin_eq : forall B cs xs k c, bounded B (fst c) -> lin_in_range B cs xs k ->
  cprune_lin_eq cs xs k c = Some (prune_lin_eq cs xs k c).
Proof. exact CheckedProofs.cprune_lin_eq_ok. Qed.
Print Assumptions no_overflow_in_range_lin_eq.

Theorem no_overflow_in_range_lin_le : forall B cs xs k c, bounded B (fst c) -> lin_in_range B cs xs k ->
  cprune_lin_le cs xs k c = Some (prune_lin_le cs xs k c).
Proof. exact CheckedProofs.cprune_lin_le_ok. Qed.
Print Assumptions no_overflow_in_range_lin_le.

Theorem no_overflow_in_range_lin_ne : forall B cs xs k c, bounded B (fst c) -> lin_in_range B cs xs k ->
  cprune_lin_ne cs xs k c = Some (prune_lin_ne cs xs k c).
Proof. exact CheckedProofs.cprune_lin_ne_ok. Qed.
Print Assumptions no_overflow_in_range_lin_ne.

Theorem no_overflow_in_range_lin_eq_reif : forall B cs xs k b c, bounded B (fst c) -> lin_in_range B cs xs k ->
  cprune_lin_eq_reif cs xs k b c = Some (prune_lin_eq_reif cs xs k b c).
Proof. exact CheckedProofs.cprune_lin_eq_reif_ok. Qed.
Print Assumptions no_overflow_in_range_lin_eq_reif.

Theorem no_overflow_in_range_lin_le_reif : forall B cs xs k b c, bounded B (fst c) -> lin_in_range B cs xs k ->
  cprune_lin_le_reif cs xs k b c = Some (prune_lin_le_reif cs xs k b c).
Proof. exact CheckedProofs.cprune_lin_le_reif_ok. Qed.
Print Assumptions no_overflow_in_range_lin_le_reif.

Theorem no_overflow_in_range_lin_ne_reif : forall B cs xs k b c, bounded B (fst c) -> lin_in_range B cs xs k ->
  cprune_lin_ne_reif cs xs k b c = Some (prune_lin_ne_reif cs xs k b c).
Proof. exact CheckedProofs.cprune_lin_ne_reif_ok. Qed.
Print Assumptions no_overflow_in_range_lin_ne_reif.

(* ---- indexing ---- *)
Theorem no_oob_index : forall xs cs, (length xs <= length cs)%nat -> czip cs xs = Some (combine cs xs).
Proof. exact CheckedProofs.czip_ok. Qed.
Print Assumptions no_oob_index.

Theorem oob_index_when_short : forall xs cs, (length cs < length xs)%nat -> czip cs xs = None.
Proof. exact CheckedProofs.czip_short. Qed.
Print Assumptions oob_index_when_short.

(* ---- real panics reachable through the public API (finding reif_len_mismatch) ---- *)
(* x, y in 0..3, b fixed to 1, lin_eq_reif(&[1], &[x, y], 2, b): every value is tiny, the coefficient vector
   is shorter than the variable vector, the propagator indexes out of bounds; the Z model silently
   drops y instead (it reads the vectors through `combine`) *)
Theorem lin_reif_short_coeffs_refuted :
  exists cs xs k b c, boundedb 3 (fst c) = true /\ (length cs < length xs)%nat /\
    cprune_lin_eq_reif cs xs k b c = None /\ prune_lin_eq_reif cs xs k b c <> None.
Proof. exact CheckedProofs.lin_reif_short_coeffs_refuted_lemma. Qed.
Print Assumptions lin_reif_short_coeffs_refuted.

Theorem lin_le_ne_reif_short_coeffs_refuted :
  cprune_lin_le_reif [1] [0%nat; 1%nat] 2 2 ([[0; 1; 2; 3]; [0; 1; 2; 3]; [1]], []) = None /\
  cprune_lin_ne_reif [1] [0%nat; 1%nat] 2 2 ([[0]; [0; 1; 2; 3]; [1]], []) = None.
Proof. exact CheckedProofs.lin_le_ne_reif_short_coeffs_refuted_lemma. Qed.
Print Assumptions lin_le_ne_reif_short_coeffs_refuted.

(* ---- the InRange hypotheses are needed: outside them the checked model does panic ---- *)
Theorem out_of_range_panics_refuted :
  cvbnd (VOpp (VVar 0)) true [[i32_min]] = None /\
  ccset_max 0 2147483630 ([[2147483628; 2147483647]], []) = None /\
  cprune_lin_le [2; 2] [0%nat; 1%nat] 5 ([[1500000000]; [1500000000]], []) = None /\
  cprune_add (VVar 0) (VVar 1) 2 ([[2000000000]; [2000000000]; [0]], []) = None.
Proof. exact CheckedProofs.out_of_range_panics_refuted_lemma. Qed.
Print Assumptions out_of_range_panics_refuted.

(* ---- API error table (rows covered by Model/Lower.v; the other rows are checked by the `api` tie) ---- *)
Theorem invalid_empty_domain_is_error : forall s ps, existsb dempty s = true -> validate s ps = Some EInvalidDomain.
Proof. exact CheckedProofs.empty_domain_is_error. Qed.
Print Assumptions invalid_empty_domain_is_error.

Theorem invalid_reversed_bounds : forall lo hi prog, hi < lo ->
  existsb dempty (fst (mst (build (prog ++ [SInt lo hi])))) = true.
Proof. exact CheckedProofs.reversed_bounds_is_error. Qed.
Print Assumptions invalid_reversed_bounds.

Theorem invalid_empty_value_set : forall prog, existsb dempty (fst (mst (build (prog ++ [SSet []])))) = true.
Proof. exact CheckedProofs.empty_set_is_error. Qed.
Print Assumptions invalid_empty_value_set.

Theorem invalid_zero_divisor : forall s x y r ps,
  existsb dempty s = false -> existsb dom_too_large s = false -> memZ 0 (sget s y) = true ->
  validate s (PMod (VVar x) (VVar y) r :: ps) = Some EInvalidConstraint.
Proof. exact CheckedProofs.zero_divisor_is_error. Qed.
Print Assumptions invalid_zero_divisor.

Theorem invalid_lin_length_mismatch_posts_nothing : forall op cs xs k m,
  length cs <> length xs -> exec (SLin op cs xs k) m = m.
Proof. exact CheckedProofs.lin_length_mismatch_posts_nothing. Qed.
Print Assumptions invalid_lin_length_mismatch_posts_nothing.

(* ---- non-vacuity: ordinary models satisfy InRange, with room to spare ---- *)
(* domains within +-10^6, 2x + 3y - 5z (=, <=, !=) 1000: 10 * 10^6 + 1000 < 2^31 *)
Example ex_lin_in_range : lin_in_rangeb 1000000 [2; 3; -5] [0%nat; 1%nat; 2%nat] 1000 = true.
Proof. vm_compute. reflexivity. Qed.
Example ex_store_bounded : boundedb 1000000 [drange (-1000) 1000; [-999999; 0; 7; 1000000]; drange 0 1] = true.
Proof. vm_compute. reflexivity. Qed.
(* x - y = s as posted by Model::sub (y.times_neg(-1)), x + 5 and 3*x as operands *)
Example ex_add_in_range :
  add_in_rangeb 1000000 (VVar 0) (vtimes_neg (VVar 1) (-1)) = true /\
  add_in_rangeb 1000000 (VPlus (VVar 0) 5) (VTimesPos (VVar 1) 3) = true /\
  add_in_rangeb 1000000 (VNext (VVar 0)) (VOpp (VPrev (VVar 1))) = true.
Proof. vm_compute. repeat split; reflexivity. Qed.
Example ex_sum_in_range : sum_in_rangeb 100000 [VVar 0; VVar 1; VTimesPos (VVar 2) 7; VConst (-40); VOpp (VVar 0)] = true.
Proof. vm_compute. reflexivity. Qed.
(* and the conclusion is not trivial: the checked propagator really prunes *)
Example ex_lin_eq_runs :
  cprune_lin_eq [2; 3] [0%nat; 1%nat] 12 ([drange 0 10; drange 0 10], []) = Some (Some ([drange 0 6; drange 0 4], [0%nat; 1%nat])).
Proof. vm_compute. reflexivity. Qed.
(* the bound is sharp in kind: one more factor of 2 on the coefficients leaves InRange *)
Example ex_lin_out_of_range : lin_in_rangeb 1000000 [2000; 3000; -5000] [0%nat; 1%nat; 2%nat] 1000 = false.
Proof. vm_compute. reflexivity. Qed.
