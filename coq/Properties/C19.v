(* C19 — all-different engines prune only unsupported values and agree.  Statements only.
   Model: Model/Gac.v (BitSetGAC, HybridGAC, SparseSetGAC/SparseSetAllDiff, bugs included),
   Model/Props/AllDiff.v (the AllDiff propagator).  A family is a `store` = list of value lists,
   position i = Variable(i); `alldiff_sol doms a` = a picks one value per domain, pairwise
   different; `supported doms i v` = some such a gives v to position i. *)
Require Import Selen.Model.Prelude Selen.Model.Dom Selen.Model.PropDefs Selen.Model.Gac Selen.Model.Props.AllDiff.
Require Selen.Proofs.ConstsTie.   (* Hall-set limits 6/4 tied to the source *)
Require Import Selen.Proofs.GacProofs Selen.Proofs.Props.AllDiffProofs.
Require Import Coq.Sorting.Permutation.

(* what "sound" means for an engine result r on the family ds (None = inconsistent) *)
Definition engine_sound (ds : store) (r : option store) : Prop :=
  match r with
  | Some ds' =>
      length ds' = length ds /\
      (forall i v, In v (sget ds' i) -> In v (sget ds i)) /\          (* only removes *)
      (forall i v, supported ds i v -> In v (sget ds' i)) /\          (* removed => unsupported *)
      (forall a, alldiff_sol ds a -> alldiff_sol ds' a)
  | None => forall a, ~ alldiff_sol ds a                              (* inconsistent => no solution *)
  end.

(* bit-set engine: assigned-value elimination + Hall sets of size 2..4 (any number of variables,
   any finite domains) *)
Theorem bitset_alldiff_sound : forall ds, engine_sound ds (bitset_propagate ds).
Proof. exact GacProofs.bitset_alldiff_sound. Qed.
Print Assumptions bitset_alldiff_sound.

(* hybrid engine: creation by add_variable_with_values (representation chosen by universe width),
   per-group propagation, cross propagation *)
Theorem hybrid_alldiff_sound : forall ds, engine_sound ds (hybrid_propagate ds).
Proof. exact GacProofs.hybrid_alldiff_sound. Qed.
Print Assumptions hybrid_alldiff_sound.

(* the same for any assignment of representations to the variables (histories may leave a
   narrow domain in the sparse representation) *)
Theorem hybrid_alldiff_sound_tagged : forall tags ds,
  engine_sound ds (res_opt (hybrid_alldiff tags (all_vars ds) ds)).
Proof. exact GacProofs.hybrid_alldiff_sound_tagged. Qed.
Print Assumptions hybrid_alldiff_sound_tagged.

(* pigeonhole behind the Hall-set step *)
Theorem hall_sound : forall sub vars s a t,
  NoDup sub -> incl sub vars -> inj_on vars a -> inside sub a s ->
  length sub = length (union_vals sub s) ->
  In t vars -> ~ In t sub -> ~ In (a t) (union_vals sub s).
Proof. exact GacProofs.hall_pigeon. Qed.
Print Assumptions hall_sound.

(* all variables fixed: the verdict is "pairwise distinct" *)
Theorem engines_fixed_agree : forall ds, all_single ds ->
  (bitset_propagate ds <> None <-> NoDup (fixed_values ds)) /\
  (hybrid_propagate ds <> None <-> NoDup (fixed_values ds)).
Proof. intros ds H. split; [exact (GacProofs.bitset_fixed_agree ds H)|exact (GacProofs.hybrid_fixed_agree ds H)]. Qed.
Print Assumptions engines_fixed_agree.

(* sparse engine: `order` is the iteration order of its variable hash map.  Only the
   inconsistency verdict is sound *)
Theorem sparse_inconsistent_sound : forall order ds, Permutation order (all_vars ds) ->
  sparse_alldiff order ds = SpInc -> forall a, ~ alldiff_sol ds a.
Proof. exact GacProofs.sparse_inconsistent_sound. Qed.
Print Assumptions sparse_inconsistent_sound.

Theorem sparse_fixed_agree : forall ds order, all_single ds -> Permutation order (all_vars ds) ->
  (sparse_propagate order ds <> None <-> NoDup (fixed_values ds)).
Proof. exact GacProofs.sparse_fixed_agree. Qed.
Print Assumptions sparse_fixed_agree.

(* no engine calls a solvable family inconsistent; hence on solvable families all verdicts agree *)
Theorem engines_never_contradict : forall ds,
  (bitset_propagate ds = None \/ hybrid_propagate ds = None \/
   exists order, Permutation order (all_vars ds) /\ sparse_alldiff order ds = SpInc) ->
  forall a, ~ alldiff_sol ds a.
Proof. exact GacProofs.engines_never_contradict. Qed.
Print Assumptions engines_never_contradict.

(* known finding D13 (class sparse_matching): the sparse engine's pruning removes supported values *)
Theorem sparse_alldiff_refuted :
  ~ (forall order ds ds', Permutation order (all_vars ds) -> sparse_propagate order ds = Some ds' ->
       forall i v, supported ds i v -> In v (sget ds' i)).
Proof. exact GacProofs.sparse_alldiff_refuted. Qed.
Print Assumptions sparse_alldiff_refuted.

(* known findings engines_disagree / sparse_hash_order: on an unsolvable family the sparse engine
   answers "inconsistent" for one iteration order and "consistent" for another (the bit-set and
   hybrid engines answer "inconsistent", see the Example below) *)
Theorem sparse_order_dependent :
  let ds := [[1; 2]; [1; 2]; [1; 2]; [1; 3; 4]] in
  sparse_alldiff [0; 1; 2; 3]%nat ds = SpInc /\
  sparse_alldiff [3; 0; 1; 2]%nat ds = SpOk ds false /\
  forall a, ~ alldiff_sol ds a.
Proof. exact GacProofs.sparse_order_dependent. Qed.
Print Assumptions sparse_order_dependent.

(* the AllDiff propagator meets the four local contracts, for every variable list *)
Theorem mk_alldiff_good : forall xs, good (mk_alldiff xs).
Proof. exact AllDiffProofs.mk_alldiff_good. Qed.
Print Assumptions mk_alldiff_good.

(* ---- non-vacuity: hole-y domains, real pruning, real inconsistency ---- *)
Example bitset_prunes_hall : bitset_propagate [[1; 3]; [1; 3]; [1; 2; 3; 5]; [3; 5; 7]] = Some [[1; 3]; [1; 3]; [2; 5]; [5; 7]].
Proof. vm_compute. reflexivity. Qed.
Example bitset_supported_witness : supported [[1; 3]; [1; 3]; [1; 2; 3; 5]; [3; 5; 7]] 2 5.
Proof.
  exists [1; 3; 5; 7]. split; [|split; [cbn; lia|reflexivity]].
  split; [repeat constructor; cbn; tauto|]. repeat constructor; cbn; intuition discriminate.
Qed.
Example bitset_inconsistent : bitset_propagate [[1; 2]; [1; 2]; [1; 2]; [1; 3; 4]] = None.
Proof. vm_compute. reflexivity. Qed.
Example hybrid_inconsistent : hybrid_propagate [[1; 2]; [1; 2]; [1; 2]; [1; 3; 4]] = None.
Proof. vm_compute. reflexivity. Qed.
Example hybrid_switches_representation :
  hybrid_propagate [[0; 5; 200]; [5]; [5; 6]] = Some [[0; 200]; [5]; [6]] /\
  tag_of_values [0; 5; 200] = false /\ tag_of_values [5; 6] = true.
Proof. vm_compute. repeat split; reflexivity. Qed.
Example fixed_family_distinct : all_single [[4]; [-1]; [9]] /\ NoDup (fixed_values [[4]; [-1]; [9]]).
Proof.
  split; [intros d [<-|[<-|[<-|[]]]]; eexists; reflexivity|].
  repeat constructor; cbn; intuition discriminate.
Qed.
Example alldiff_prop_prunes :
  prune (mk_alldiff [0; 2]%nat) ([[1; 4]; [7]; [1; 2; 4]], []) = Some ([[1; 4]; [7]; [1; 2; 4]], []) /\
  prune (mk_alldiff [0; 2]%nat) ([[4]; [7]; [1; 2; 4]], []) = Some ([[4]; [7]; [1; 2]], [2%nat]) /\
  prune (mk_alldiff [0; 2]%nat) ([[4]; [7]; [4]], []) = None.
Proof. vm_compute. repeat split; reflexivity. Qed.
