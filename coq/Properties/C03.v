(* C03 — enumerate yields exactly the solution set, each solution once.
   For every propagator list whose members satisfy the local contracts (C05), every well-formed
   starting store (holes, negatives), every scheduler: the depth-first engine with the binary
   split of branch.rs, run to exhaustion, yields exactly the satisfying assignments, without
   repetition.  Statements only. *)
Require Import Selen.Model.Prelude Selen.Model.Dom Selen.Model.Views Selen.Model.PropDefs.
Require Import Selen.Model.Props.Basic Selen.Model.Propagate Selen.Model.Search Selen.Model.EngineSpec.
Require Import Selen.Proofs.Props.BasicProofs Selen.Proofs.EngineProofs.

Theorem enumerate_exact : forall pick ps s sols best,
  Forall good ps -> scoped ps (length s) -> wf_store s ->
  enumerate pick ps s = SOk sols best ->
  NoDup sols /\
  (forall t, In t sols -> all_fixed t = true /\ sub_store t s /\ sol ps s (asg_of t)) /\
  (forall a, sol ps s a -> exists t, In t sols /\ inst a t).
Proof. exact (EngineProofs.enumerate_exact BasicProofs.mk_leq_good BasicProofs.mk_gt_good BasicProofs.mk_lt_good). Qed.
Print Assumptions enumerate_exact.

(* the count of yielded assignments equals the number of solutions (as a list without repetition
   whose members are exactly the solutions) *)
Theorem enumerate_count : forall pick ps s sols best (l : list store),
  Forall good ps -> scoped ps (length s) -> wf_store s ->
  enumerate pick ps s = SOk sols best ->
  NoDup l -> (forall t, In t l <-> (all_fixed t = true /\ length t = length s /\ sol ps s (asg_of t))) ->
  length sols = length l.
Proof. exact (EngineProofs.enumerate_count BasicProofs.mk_leq_good BasicProofs.mk_gt_good BasicProofs.mk_lt_good). Qed.
Print Assumptions enumerate_count.

(* the recursion fuel supplied by `search` always suffices: the engine terminates *)
Theorem enumerate_terminates : forall pick ps s,
  Forall good ps -> scoped ps (length s) -> wf_store s -> enumerate pick ps s <> SFuel.
Proof. exact (EngineProofs.enumerate_terminates BasicProofs.mk_leq_good BasicProofs.mk_gt_good BasicProofs.mk_lt_good). Qed.
Print Assumptions enumerate_terminates.

(* the two children of a split partition the pivot's domain and are both strictly smaller *)
Theorem branch_partition : forall d, wf_dom d -> dfixed d = false ->
  let m := dmid d in
  dmin d <= m < dmax d /\
  (forall x, In x d -> (x <= m \/ m < x)) /\ dabove m d <> [] /\ dbelow (m + 1) d <> [] /\
  (length (dabove m d) < length d)%nat /\ (length (dbelow (m + 1) d) < length d)%nat.
Proof. exact EngineProofs.branch_partition. Qed.
Print Assumptions branch_partition.

Example c03_nonvacuous :
  enumerate fifo [mk_add (VVar 0) (VVar 1) 2; mk_lt (VVar 0) (VVar 1)] [[0;1;2;3];[-1;1;3];[0;1;2;3;4]]
  = SOk [[[0]; [1]; [1]]; [[0]; [3]; [3]]; [[1]; [3]; [4]]] None.
Proof. vm_compute. reflexivity. Qed.
