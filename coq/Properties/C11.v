(* C11 — Integer domain store behaves as a mathematical set under any history.
   Only statements live here; each is closed by `exact` of a lemma from Proofs/. *)
Require Import Selen.Model.Prelude Selen.Model.SparseSet Selen.Model.SetSpec.
Require Import Selen.Proofs.SparseSetProofs.

(* Every history of removals, bound cuts, assign-to-value, intersections, unions, differences
   and (stack-disciplined) save/restore, of any length, over any universe [lo,hi]: all
   observations agree with the plain set.  `bad = false` excludes exactly the known class D7
   (a snapshot restored after a union_with happened since it was taken). *)
Theorem ss_refines_set_range : forall lo hi ops,
  let s0 := ss_new lo hi in
  bad (spec_run ops (spec_init s0)) = false ->
  obs_agree (fst (ss_run ops (s0, []))) (spec_run ops (spec_init s0)).
Proof. exact SparseSetProofs.refines_range. Qed.
Print Assumptions ss_refines_set_range.

(* Same for a domain with holes built from an explicit value list. *)
Theorem ss_refines_set_values : forall l ops,
  let s0 := ss_new_from_values l in
  bad (spec_run ops (spec_init s0)) = false ->
  obs_agree (fst (ss_run ops (s0, []))) (spec_run ops (spec_init s0)).
Proof. exact SparseSetProofs.refines_values. Qed.
Print Assumptions ss_refines_set_values.

(* The initial states themselves are the intended sets. *)
Theorem ss_new_is_range : forall lo hi x,
  In x (ss_iter (ss_new lo hi)) <-> Z.min lo hi <= x <= Z.max lo hi.
Proof. exact SparseSetProofs.new_is_range. Qed.
Print Assumptions ss_new_is_range.

Theorem ss_new_from_values_is_list : forall l x,
  In x (ss_iter (ss_new_from_values l)) <-> In x l.
Proof. exact SparseSetProofs.new_from_values_is_list. Qed.
Print Assumptions ss_new_from_values_is_list.

(* Queries between two stores. *)
Theorem ss_subset_equals_spec : forall ops1 ops2 l1 l2,
  let s1 := fst (ss_run ops1 (ss_new_from_values l1, [])) in
  let s2 := fst (ss_run ops2 (ss_new_from_values l2, [])) in
  bad (spec_run ops1 (spec_init (ss_new_from_values l1))) = false ->
  bad (spec_run ops2 (spec_init (ss_new_from_values l2))) = false ->
  (ss_is_subset_of s1 s2 = true <-> forall x, In x (ss_iter s1) -> In x (ss_iter s2)) /\
  (ss_equals s1 s2 = true <-> forall x, In x (ss_iter s1) <-> In x (ss_iter s2)).
Proof. exact SparseSetProofs.subset_equals_spec. Qed.
Print Assumptions ss_subset_equals_spec.

(* Known finding D7: the full-strength statement (without `bad = false`) is false. *)
Theorem ss_restore_after_union_refuted :
  exists ops, let s0 := ss_new 1 5 in
    bad (spec_run ops (spec_init s0)) = true /\
    ~ (forall x, In x (ss_iter (fst (ss_run ops (s0, [])))) <-> In x (cur (spec_run ops (spec_init s0)))).
Proof. exact SparseSetProofs.restore_after_union_refuted. Qed.
Print Assumptions ss_restore_after_union_refuted.

(* Non-vacuity: a history with nested snapshots, holes, negative offset and a union that is
   NOT followed by a restore of an older snapshot satisfies the hypothesis. *)
Example c11_hypothesis_inhabited :
  bad (spec_run [ORemove (-1); OSave; OBelow 0; OSave; OOnly 2; ORestore 1; OAbove 2; ORestore 0; OUnion [-1; 7]; OSave; ODiff [0]; ORestore 1]
                (spec_init (ss_new (-3) 3))) = false.
Proof. vm_compute. reflexivity. Qed.
