(* C01 / C02 / C10 — "whichever posting route": the public posting routes other than fluent trees
   (Model::{add, sub, mul, modulo, abs, min, max, sum, alldiff, alleq, element, table, count, at_least,
   at_most, exactly, between, bool_and, bool_or, bool_not, bool_xor, eq_reif .. ge_reif, lin_*_reif,
   bool_lin_*} and the free functions and / or / not / bool2int / element of constraints::functions).
   Model: Model/Routes.v (what each call creates — result variables with their bounds, propagators in
   order —, argument validation, core/validation.rs, and the documented meaning route_sem / route_fun).
   Statements only; proofs in Proofs/RoutesProofs.v.

   Known-defect classes (decidable predicates of Model/Routes.v; witnesses below and in known_findings.txt):
     kf_mod_const, kf_const_const                    validation rejected satisfiable models (D12)   (C02; REPAIRED by d12_validation_operands:
                                                     mod_const_refuted / const_const_refuted speak about rvalidate_prefix; validate_accepts_more,
                                                     validate_add_mul_operands, validate_mod_divisor state the repaired validator rvalidate)
     kf_mod_zero_div                                 a divisor whose domain contains 0 is rejected   (scope, C17's documented invalid input)
     kf_felement_bounds                              functions::element result bounds -1000..1000  (C01/C02)
     kf_noop_route                                   functions::implies / cumulative enforce nothing (C01)
     kf_linreif_zero                                 D11 through the reified linear routes          (C01)
     kf_gcc_len                                      unvalidated length mismatch                    (C17; REPAIRED: gcc_len_fixed_records)
     kf_linreif_len, table arity                     REPAIRED in /repo (e45322d, e2596cd): the refutation
                                                     lemmas below speak about `rbuild` (the model of the tree
                                                     before the repairs); linreif_len_fixed_exact /
                                                     table_fixed_malformed state the repaired behaviour (C17)
     kf_nonbool_arg                                  boolean routes on non-0/1 operands (precondition)
   Routes with auxiliary variables hidden from the caller (implies, bool_clause, gcc, functions::xor) are
   modelled and tied (structurally and semantically) but not covered by the theorems below. *)
Require Import Selen.Model.Prelude Selen.Model.Dom Selen.Model.Views Selen.Model.PropDefs.
Require Import Selen.Model.Props.Basic Selen.Model.Props.LinInt Selen.Model.Propagate Selen.Model.Search Selen.Model.EngineSpec.
Require Import Selen.Model.Props.Global Selen.Model.Api Selen.Model.Lower Selen.Model.Routes.
Require Import Selen.Proofs.LowerProofs Selen.Proofs.RoutesProofs.

(* ---- the bounds given to a result variable contain every value the function takes on the operand
   domains (this is what makes a route complete) ---- *)
Theorem result_bounds_cover : forall r s b a v,
  sstore s -> inst a s -> route_bounds s r = Some b -> route_fun r a = Some v ->
  kf_felement_bounds r s = false -> kf_nonbool_arg r s = false -> rscoped (length s) r ->
  within b v.
Proof. exact RoutesProofs.result_bounds_cover. Qed.
Print Assumptions result_bounds_cover.

(* ---- one call returning a result variable: after the call, "inside the new store and satisfying the
   new propagator" is exactly "inside the old store and route_sem", i.e. the result variable has exactly
   the function value and every function value is available ---- *)
Theorem route_lower_denotes_ret : forall r m b,
  simple_ret r = true -> rscoped (rnvars (rst m)) r -> sstore (fst (rst m)) ->
  route_bounds (fst (rst m)) r = Some b -> not_oversize b ->
  kf_felement_bounds r (fst (rst m)) = false -> kf_nonbool_arg r (fst (rst m)) = false ->
  let n := rnvars (rst m) in
  ruser (call r m) = ruser m ++ [n] /\ rpanic (call r m) = rpanic m /\
  rexact (rst m) (rst (call r m)) (fun a => route_sem r n a = true).
Proof. exact RoutesProofs.call_ret_exact. Qed.
Print Assumptions route_lower_denotes_ret.

Theorem route_sem_is_function : forall r n a, simple_ret r = true -> bool_ok r a ->
  (route_fun r a = Some (a n) -> rsat (route_desc r n) a = true).
Proof. exact RoutesProofs.route_desc_complete. Qed.
Print Assumptions route_sem_is_function.

(* ---- one call posting a propagator on existing variables (globals, reified comparisons, between) ---- *)
Theorem route_lower_denotes_direct : forall r m, direct r = true -> rscoped (rnvars (rst m)) r ->
  ruser (call r m) = ruser m /\ rpanic (call r m) = rpanic m /\ rpend (call r m) = rpend m /\
  rexact (rst m) (rst (call r m)) (fun a => route_sem r 0%nat a = true).
Proof. exact RoutesProofs.call_direct_exact. Qed.
Print Assumptions route_lower_denotes_direct.

(* ---- lin_eq_reif / lin_le_reif / lin_ne_reif (bool_lin_*_reif): the pending AST as lowered by prepare_for_search ---- *)
Theorem route_lower_denotes_linreif : forall op cs xs k b st, linreif_ok op cs xs ->
  lt_all (rnvars st) xs -> (b < rnvars st)%nat ->
  rexact st (rmaterialize (CReifLin op cs xs k b) st) (fun a => route_sem (RLinReif op cs xs k b) 0%nat a = true).
Proof. exact RoutesProofs.linreif_lower_exact. Qed.
Print Assumptions route_lower_denotes_linreif.

(* ---- whole programs: declarations, then any sequence of covered calls outside the known classes ---- *)
Theorem routes_lower_denotes : forall decls calls,
  forallb is_decl decls = true ->
  let m0 := rbuild (map SB decls) in
  calls_ok calls m0 ->
  exists s ps, rlower (rbuild (map SB decls ++ map SCall calls)) = RLOk s ps /\
    Forall (rdscoped (length s)) ps /\ (length decls <= length s)%nat /\
    forall a, (inst a s /\ rallsat ps a) <-> (inst a (map decl_dom decls) /\ calls_means calls m0 a).
Proof. exact RoutesProofs.routes_lower_denotes. Qed.
Print Assumptions routes_lower_denotes.

(* ---- every description these routes produce denotes a record meeting the four local contracts (C05) ---- *)
Theorem denote_route_good : forall p, desc_ok p -> good (denote_route p).
Proof. exact RoutesProofs.denote_route_good. Qed.
Print Assumptions denote_route_good.

(* ---- C01 + C03 for route programs (Forall good discharged) ---- *)
Theorem routes_model_solutions : forall decls calls pick sols best,
  forallb is_decl decls = true ->
  let m0 := rbuild (map SB decls) in
  calls_ok calls m0 ->
  forall s ps, rlower (rbuild (map SB decls ++ map SCall calls)) = RLOk s ps ->
  rvalidate s ps = None ->
  enumerate pick (map denote_route ps) s = SOk sols best ->
  let means a := inst a (map decl_dom decls) /\ calls_means calls m0 a in
  NoDup sols /\
  (forall t, In t sols -> all_fixed t = true /\ means (asg_of t)) /\
  (forall a, means a -> exists t, In t sols /\ inst a t).
Proof. exact RoutesProofs.routes_model_solutions. Qed.
Print Assumptions routes_model_solutions.

(* ---- the known classes contain genuine counterexamples ---- *)
Theorem mod_const_refuted : exists prog r s ps a,
  kf_mod_const r = true /\ prog = [SB (SInt 0 3); SCall r] /\ lowered_of prog = Some (s, ps) /\
  rvalidate_prefix s ps = Some VInvalidConstraint /\ rvalidate s ps = None /\ inst a s /\ rallsatb ps a = true /\ route_sem r 1%nat a = true.
Proof. exact RoutesProofs.mod_const_refuted. Qed.
Print Assumptions mod_const_refuted.

Theorem mod_zero_div_refuted : exists prog r s ps a,
  prog = [SB (SInt 0 3); SB (SInt 0 3); SCall r] /\ kf_mod_zero_div r [drange 0 3; drange 0 3] = true /\
  lowered_of prog = Some (s, ps) /\ rvalidate s ps = Some VInvalidConstraint /\
  inst a s /\ rallsatb ps a = true /\ route_sem r 2%nat a = true.
Proof. exact RoutesProofs.mod_zero_div_refuted. Qed.
Print Assumptions mod_zero_div_refuted.

Theorem const_const_refuted : exists prog r s ps a,
  kf_const_const r = true /\ prog = [SCall r] /\ lowered_of prog = Some (s, ps) /\
  rvalidate_prefix s ps = Some VInvalidConstraint /\ rvalidate s ps = None /\ inst a s /\ rallsatb ps a = true /\ route_sem r 0%nat a = true.
Proof. exact RoutesProofs.const_const_refuted. Qed.
Print Assumptions const_const_refuted.

Theorem felement_bounds_refuted : exists r s a b v,
  kf_felement_bounds r s = true /\ inst a s /\ route_bounds s r = Some b /\ route_fun r a = Some v /\ ~ within b v.
Proof. exact RoutesProofs.felement_bounds_refuted. Qed.
Print Assumptions felement_bounds_refuted.

Theorem fimplies_noop_refuted : exists prog r s ps a,
  kf_noop_route r = true /\ prog = [SB SBool; SB SBool; SCall r] /\ lowered_of prog = Some (s, ps) /\
  rvalidate s ps = None /\ inst a s /\ rallsatb ps a = true /\ route_sem r 0%nat a = false.
Proof. exact RoutesProofs.fimplies_noop_refuted. Qed.
Print Assumptions fimplies_noop_refuted.

Theorem cumulative_noop_refuted : exists prog r s ps a,
  kf_noop_route r = true /\ prog = [SB (SInt 0 3); SB (SInt 0 3); SCall r] /\ lowered_of prog = Some (s, ps) /\
  rvalidate s ps = None /\ inst a s /\ rallsatb ps a = true /\ route_sem r 0%nat a = false.
Proof. exact RoutesProofs.cumulative_noop_refuted. Qed.
Print Assumptions cumulative_noop_refuted.

Theorem linreif_zero_refuted : exists prog r s ps sols best t,
  kf_linreif_zero r = true /\ prog = [SB (SInt 0 0); SCall r] /\ lowered_of prog = Some (s, ps) /\
  enumerate fifo (map denote_route ps) s = SOk sols best /\ In t sols /\ route_sem r 0%nat (asg_of t) = false.
Proof. exact RoutesProofs.linreif_zero_refuted. Qed.
Print Assumptions linreif_zero_refuted.

Theorem gcc_len_refuted : exists prog r s ps,
  kf_gcc_len r = true /\ prog = [SB (SInt 0 3); SB (SInt 0 3); SCall r] /\ lowered_of prog = Some (s, ps) /\
  rvalidate s ps = None /\ length ps = 1%nat.
Proof. exact RoutesProofs.gcc_len_refuted. Qed.
Print Assumptions gcc_len_refuted.

Theorem oversize_refuted : exists prog s ps,
  prog = [SB (SSet [-1000; 1000]); SB (SSet [-1000; 1000]); SCall (RMul (OV 0%nat) (OV 1%nat))] /\
  lowered_of prog = Some (s, ps) /\ rvalidate s ps = Some VInvalidDomain /\ existsb dempty s = false.
Proof. exact RoutesProofs.oversize_refuted. Qed.
Print Assumptions oversize_refuted.

Theorem verr_not_in_prepare : exists prog s ps,
  prog = [SB (SInt 0 3); SB (SInt 0 3); SB (SLin OEq [1] [0%nat; 1%nat] 2)] /\
  rverr (rbuild prog) = true /\ lowered_of prog = Some (s, ps) /\ rvalidate s ps = None /\ ps = [].
Proof. exact RoutesProofs.verr_not_in_prepare. Qed.
Print Assumptions verr_not_in_prepare.

(* pre-repair model only (`rbuild`); repaired by e2596cd, see table_fixed_malformed / table_arity_fixed_witness *)
Theorem table_arity_panics : rpanic (rbuild [SB (SInt 0 3); SB (SInt 0 3); SCall (RTable [0%nat; 1%nat] [[1; 2; 3]])]) = true.
Proof. exact RoutesProofs.table_arity_panics. Qed.
Print Assumptions table_arity_panics.

Theorem empty_domain_read_panics : rpanic (rbuild [SB (SInt 0 3); SB (SNew (CBin (EVar 0) OEq (EVal 7))); SCall (RAbs (OV 0%nat))]) = true.
Proof. exact RoutesProofs.empty_domain_read_panics. Qed.
Print Assumptions empty_domain_read_panics.

Theorem nonbool_arg_refuted : exists r s a,
  kf_nonbool_arg r s = true /\ inst a s /\ route_sem r 1%nat a = true /\ rsat (route_desc r 1%nat) a = false.
Proof. exact RoutesProofs.nonbool_arg_refuted. Qed.
Print Assumptions nonbool_arg_refuted.

(* ---- behaviour AFTER the proposed repairs fixes/routes_felement_bounds.patch and
   fixes/routes_implies_cumulative.patch (Model/Routes.v: felement_bounds_fixed, call_fixed; NOT the current tree) ---- *)
Theorem felement_fixed_cover : forall s arr i b a v, sstore s -> inst a s ->
  felement_bounds_fixed s arr = Some b -> route_fun (RFElement arr i) a = Some v -> within b v.
Proof. exact RoutesProofs.felement_fixed_cover. Qed.
Print Assumptions felement_fixed_cover.

Theorem fimplies_fixed_rejects : exists s ps,
  rlower (rbuild_fixed [SB SBool; SB SBool; SCall (RFImplies 0%nat 1%nat)]) = RLOk s ps /\
  rallsatb ps (asgl [1; 0; 0; 0]) = false.
Proof. exact RoutesProofs.fimplies_fixed_rejects. Qed.
Print Assumptions fimplies_fixed_rejects.

Theorem cumulative_fixed_rejects : exists s ps,
  rlower (rbuild_fixed [SB (SInt 0 3); SB (SInt 0 3); SCall (RCumulative [0%nat; 1%nat] [2; 2] [2; 2] 3)]) = RLOk s ps /\
  length s = 7%nat /\
  forallb (fun t => negb (rallsatb ps (asgl ([0; 0; 2; 2] ++ t)))) (all_asgs [[0; 1]; [0; 1]; [0; 1]]) = true.
Proof. exact RoutesProofs.cumulative_fixed_rejects. Qed.
Print Assumptions cumulative_fixed_rejects.

(* ---- the repairs e45322d / e2596cd (model of the current tree: call_fixed / rbuild_fixed) ---- *)
(* lin_*_reif / bool_lin_*_reif with |coeffs| <> |vars|: equals(b, 0) is posted; that is exactly the documented
   meaning of the malformed call (route_sem: "the reification is false") *)
Theorem linreif_len_fixed_exact : forall op cs xs k b m, length cs <> length xs -> (b < rnvars (rst m))%nat ->
  let m' := call_fixed (RLinReif op cs xs k b) m in
  rpanic m' = rpanic m /\ rverr m' = rverr m /\ rpend m' = rpend m /\ ruser m' = ruser m /\
  rexact (rst m) (rst m') (fun a => route_sem (RLinReif op cs xs k b) 0%nat a = true) /\
  (forall a, route_sem (RLinReif op cs xs k b) 0%nat a = true <-> a b = 0).
Proof. exact RoutesProofs.linreif_len_fixed_exact. Qed.
Print Assumptions linreif_len_fixed_exact.

(* Model::table with a tuple of the wrong arity: no panic, a validation error is recorded (returned by every
   solving call), the posted propagator keeps the well-formed tuples and means what the call means *)
Theorem table_fixed_malformed : forall xs ts m, table_okb xs ts = false ->
  let m' := call_fixed (RTable xs ts) m in
  rverr m' = true /\ rpanic m' = rpanic m /\ rcallerr m' = rcallerr m /\
  exists ts', snd (rst m') = snd (rst m) ++ [PTable xs ts'] /\ fst (rst m') = fst (rst m) /\
    table_okb xs ts' = true /\ forall a, rsat (PTable xs ts') a = route_sem (RTable xs ts) 0%nat a.
Proof. exact RoutesProofs.table_fixed_malformed. Qed.
Print Assumptions table_fixed_malformed.

(* on every call the repairs do not touch, the two models coincide; hence C01 + C03 for route programs on the current tree *)
Theorem rbuild_fixed_eq : forall prog, (forall r, In (SCall r) prog -> fixed_same r = true) ->
  rbuild_fixed prog = rbuild prog.
Proof. exact RoutesProofs.rbuild_fixed_eq. Qed.
Print Assumptions rbuild_fixed_eq.

Theorem routes_model_solutions_fixed : forall decls calls pick sols best,
  forallb is_decl decls = true -> forallb fixed_same calls = true ->
  let m0 := rbuild (map SB decls) in
  calls_ok calls m0 ->
  forall s ps, rlower (rbuild_fixed (map SB decls ++ map SCall calls)) = RLOk s ps ->
  rvalidate s ps = None ->
  enumerate pick (map denote_route ps) s = SOk sols best ->
  let means a := inst a (map decl_dom decls) /\ calls_means calls m0 a in
  NoDup sols /\
  (forall t, In t sols -> all_fixed t = true /\ means (asg_of t)) /\
  (forall a, means a -> exists t, In t sols /\ inst a t).
Proof. exact RoutesProofs.routes_model_solutions_fixed. Qed.
Print Assumptions routes_model_solutions_fixed.

Theorem linreif_len_fixed_witness :
  rlower (rbuild_fixed [SB (SInt 0 3); SB (SInt 0 3); SB SBool; SCall (RLinReif OEq [1] [0%nat; 1%nat] 2 2%nat)])
  = RLOk [drange 0 3; drange 0 3; drange 0 1] [PB (PEq (VVar 2) (VConst 0))].
Proof. exact RoutesProofs.linreif_len_fixed_witness. Qed.
Print Assumptions linreif_len_fixed_witness.

Theorem table_arity_fixed_witness :
  let m := rbuild_fixed [SB (SInt 0 3); SB (SInt 0 3); SCall (RTable [0%nat; 1%nat] [[1; 2; 3]; [1; 2]])] in
  rpanic m = false /\ rverr m = true /\ snd (rst m) = [PTable [0%nat; 1%nat] [[1; 2]]].
Proof. exact RoutesProofs.table_arity_fixed_witness. Qed.
Print Assumptions table_arity_fixed_witness.

(* ------------------------------------------------------------------------------------------------
   array_int_minimum / array_int_maximum / sum_iter, table_2d / table_3d, element_2d / element_3d and the array
   factories ints / ints_2d / ints_3d / bools / bools_2d / bools_3d (rstmt SArr).
   RArrMin / RArrMax / RSumIter are `simple_ret` routes: result_bounds_cover, route_lower_denotes_ret,
   route_sem_is_function, routes_lower_denotes and routes_model_solutions above cover them (calls_ok).
   Known-defect classes added here:
     kf_element_nd_index, kf_element_nd_dummy   element_2d / element_3d constrain only the linearised index   (C01/C02)
     kf_table_nd_arity                          table_2d / table_3d bypass Model::table's arity validation     (C17) *)
Theorem array_minimum_is_min : forall xs m, call (RArrMin xs) m = call (RMin xs) m.
Proof. exact RoutesProofs.arr_min_is_min. Qed.
Print Assumptions array_minimum_is_min.
Theorem array_maximum_is_max : forall xs m, call (RArrMax xs) m = call (RMax xs) m.
Proof. exact RoutesProofs.arr_max_is_max. Qed.
Print Assumptions array_maximum_is_max.
Theorem sum_is_sum_iter : forall xs m, call (RSum xs) m = call (RSumIter (map OV xs)) m.
Proof. exact RoutesProofs.sum_is_sum_iter. Qed.
Print Assumptions sum_is_sum_iter.

(* table_2d / table_3d on the current tree: no panic, nothing recorded, and the posted Table propagators mean
   exactly "every row is one of the tuples" — whatever the arities *)
Theorem table2d_lower_denotes : forall mat ts m, rscoped (rnvars (rst m)) (RTable2D mat ts) ->
  let m' := call_fixed (RTable2D mat ts) m in
  rpanic m' = rpanic m /\ rverr m' = rverr m /\ rcallerr m' = rcallerr m /\ rpend m' = rpend m /\ ruser m' = ruser m /\
  fst (rst m') = fst (rst m) /\
  rexact (rst m) (rst m') (fun a => route_sem (RTable2D mat ts) 0%nat a = true).
Proof. exact RoutesProofs.table2d_fixed_exact. Qed.
Print Assumptions table2d_lower_denotes.
Theorem table3d_lower_denotes : forall cube ts m, rscoped (rnvars (rst m)) (RTable3D cube ts) ->
  let m' := call_fixed (RTable3D cube ts) m in
  rpanic m' = rpanic m /\ rverr m' = rverr m /\ rcallerr m' = rcallerr m /\ rpend m' = rpend m /\ ruser m' = ruser m /\
  fst (rst m') = fst (rst m) /\
  rexact (rst m) (rst m') (fun a => route_sem (RTable3D cube ts) 0%nat a = true).
Proof. exact RoutesProofs.table3d_fixed_exact. Qed.
Print Assumptions table3d_lower_denotes.
(* finding (C17): Model::table records InvalidConstraint for a tuple of the wrong arity, table_2d / table_3d post the
   same propagator and record nothing *)
Theorem table2d_arity_refuted : exists row ts decls,
  kf_table_nd_arity (RTable2D [row] ts) = true /\ kf_table_nd_arity (RTable3D [[row]] ts) = true /\
  rverr (rbuild_fixed (decls ++ [SCall (RTable row ts)])) = true /\
  rverr (rbuild_fixed (decls ++ [SCall (RTable2D [row] ts)])) = false /\
  rverr (rbuild_fixed (decls ++ [SCall (RTable3D [[row]] ts)])) = false /\
  snd (rst (rbuild_fixed (decls ++ [SCall (RTable2D [row] ts)]))) = snd (rst (rbuild_fixed (decls ++ [SCall (RTable row ts)]))).
Proof. exact RoutesProofs.table2d_arity_refuted. Qed.
Print Assumptions table2d_arity_refuted.

(* element_2d / element_3d: the call + the lowering of its pending index equation enforce exactly the
   IMPLEMENTATION meaning element_nd_impl: the cell of the FLATTENED array at row * cols + col
   (depth * rows * cols + row * cols + col) equals value *)
Theorem element2d_lower_denotes : forall mat ri ci vl m, mat_cols mat <> 0%nat ->
  rscoped (rnvars (rst m)) (RElement2D mat ri ci vl) ->
  let n := rnvars (rst m) in let m' := call (RElement2D mat ri ci vl) m in
  exists c, rpend m' = rpend m ++ [CB c] /\ ruser m' = ruser m /\ rpanic m' = rpanic m /\ rverr m' = rverr m /\ rcallerr m' = rcallerr m /\
    rexact (rst m) (rmaterialize (CB c) (rst m')) (element_nd_impl (concat mat) (idx2 ri ci (mat_cols mat)) vl n).
Proof. exact RoutesProofs.element2d_lower_exact. Qed.
Print Assumptions element2d_lower_denotes.
Theorem element3d_lower_denotes : forall cube di ri ci vl m, cube_rows cube <> 0%nat -> cube_cols cube <> 0%nat ->
  rscoped (rnvars (rst m)) (RElement3D cube di ri ci vl) ->
  let n := rnvars (rst m) in let m' := call (RElement3D cube di ri ci vl) m in
  exists c, rpend m' = rpend m ++ [CB c] /\ ruser m' = ruser m /\ rpanic m' = rpanic m /\ rverr m' = rverr m /\ rcallerr m' = rcallerr m /\
    rexact (rst m) (rmaterialize (CB c) (rst m'))
      (element_nd_impl (concat (concat cube)) (idx3 di ri ci (cube_rows cube) (cube_cols cube)) vl n).
Proof. exact RoutesProofs.element3d_lower_exact. Qed.
Print Assumptions element3d_lower_denotes.
(* outside the class kf_element_nd_index (rectangular matrix, column index inside 0 .. cols - 1) the implementation
   meaning IS the documented one, matrix[row][col] == value *)
Theorem element2d_meaning : forall mat ri ci vl n a, mat_cols mat <> 0%nat -> rect mat = true ->
  0 <= a ci < Z.of_nat (mat_cols mat) -> a n = a ri * Z.of_nat (mat_cols mat) + a ci ->
  (element_nd_impl (concat mat) (idx2 ri ci (mat_cols mat)) vl n a <-> route_sem (RElement2D mat ri ci vl) 0%nat a = true).
Proof. exact RoutesProofs.element2d_meaning. Qed.
Print Assumptions element2d_meaning.
(* inside it: genuine counterexamples (the lowered model accepts an assignment the documented meaning rejects) *)
Theorem element2d_index_refuted : exists prog r s ps a,
  r = RElement2D [[0%nat; 1%nat]; [2%nat; 3%nat]] 4%nat 5%nat 6%nat /\ prog = prog_2x2 0 2 r /\
  kf_element_nd_index r [[0]; [0]; [1]; [0]; [0]; [2]; [0; 1]] = true /\
  lowered_of prog = Some (s, ps) /\ rvalidate s ps = None /\ inst a s /\ rallsatb ps a = true /\ route_sem r 0%nat a = false.
Proof. exact RoutesProofs.element2d_index_refuted. Qed.
Print Assumptions element2d_index_refuted.
Theorem element2d_negative_col_refuted : exists prog r s ps a,
  r = RElement2D [[0%nat; 2%nat]; [1%nat; 3%nat]] 4%nat 5%nat 6%nat /\ prog = prog_2x2 1 (-1) r /\
  lowered_of prog = Some (s, ps) /\ rvalidate s ps = None /\ inst a s /\ rallsatb ps a = true /\ route_sem r 0%nat a = false.
Proof. exact RoutesProofs.element2d_negative_col_refuted. Qed.
Print Assumptions element2d_negative_col_refuted.
Theorem element2d_ragged_refuted : exists prog r r' s ps a s' ps' a',
  r = RElement2D [[0%nat]; [1%nat; 2%nat]] 4%nat 5%nat 6%nat /\ prog = prog_2x2 2 0 r /\
  kf_element_nd_index r [[0]; [0]; [1]; [0]; [2]; [0]; [0; 1]] = true /\
  lowered_of prog = Some (s, ps) /\ inst a s /\ rallsatb ps a = true /\ route_sem r 0%nat a = false /\
  r' = RElement2D [[]; [2%nat; 3%nat]] 4%nat 5%nat 6%nat /\ kf_element_nd_dummy r' = true /\
  lowered_of (prog_2x2 1 0 r') = Some (s', ps') /\ inst a' s' /\ rallsatb ps' a' = true /\ route_sem r' 0%nat a' = false.
Proof. exact RoutesProofs.element2d_ragged_refuted. Qed.
Print Assumptions element2d_ragged_refuted.
Theorem element3d_index_refuted : exists prog r s ps a,
  r = RElement3D [[[0%nat; 1%nat]; [2%nat; 3%nat]]; [[4%nat; 5%nat]; [6%nat; 7%nat]]] 8%nat 9%nat 10%nat 11%nat /\
  prog = [SArr [2%nat; 2%nat; 2%nat] 0 1; SB (SInt 0 0); SB (SInt 2 2); SB (SInt 0 0); SB (SInt 0 1); SCall r] /\
  lowered_of prog = Some (s, ps) /\ kf_element_nd_index r s = true /\ rvalidate s ps = None /\
  inst a s /\ rallsatb ps a = true /\ route_sem r 0%nat a = false.
Proof. exact RoutesProofs.element3d_index_refuted. Qed.
Print Assumptions element3d_index_refuted.

(* the array factories create prod(dims) handles, each with the ORDERED bounds (Model::new_vars swaps them;
   Model::int does not: ints(2, 3, 1) gives two variables 1..3, int(3, 1) the empty domain) *)
Theorem factory_creates : forall dims lo hi m,
  exec_arr dims lo hi m = repeat_m (nprod dims) (declare_r (arr_dom lo hi)) m.
Proof. exact RoutesProofs.exec_arr_flat. Qed.
Print Assumptions factory_creates.
Theorem factory_bounds_ordered : forall lo hi, arr_dom lo hi = drange (Z.min lo hi) (Z.max lo hi).
Proof. exact RoutesProofs.arr_dom_ordered. Qed.
Print Assumptions factory_bounds_ordered.
Theorem ints_swaps_bounds :
  fst (rst (rbuild [SArr [2%nat] 3 1])) = [[1; 2; 3]; [1; 2; 3]] /\ fst (rst (rbuild [SB (SInt 3 1)])) = [[]].
Proof. exact RoutesProofs.ints_swaps_bounds. Qed.
Print Assumptions ints_swaps_bounds.

(* behaviour after the PROPOSED repairs fixes/routes_ext/routes_table_nd_arity.patch and routes_element_nd_index.patch
   (Model/Routes.v call_ext_fixed / rbuild_ext_fixed; NOT the current tree): the former witnesses are rejected *)
Theorem element2d_ext_fixed_rejects : exists s ps,
  rlower (rbuild_ext_fixed (prog_2x2 0 2 (RElement2D [[0%nat; 1%nat]; [2%nat; 3%nat]] 4%nat 5%nat 6%nat))) = RLOk s ps /\
  ps = [PB (PLeq (VConst 0) (VVar 5)); PB (PLeq (VVar 5) (VConst 1)); PElement [0%nat; 1%nat; 2%nat; 3%nat] 7 6; PB (PLinEq [2; 1; -1] [4%nat; 5%nat; 7%nat] 0)] /\
  rallsatb ps (asgl [0; 0; 1; 0; 0; 2; 1; 2]) = false /\
  rverr (rbuild_ext_fixed (prog_2x2 2 0 (RElement2D [[0%nat]; [1%nat; 2%nat]] 4%nat 5%nat 6%nat))) = true.
Proof. exact RoutesProofs.element2d_ext_fixed_rejects. Qed.
Print Assumptions element2d_ext_fixed_rejects.
Theorem table2d_ext_fixed_records :
  rverr (rbuild_ext_fixed [SB (SInt 0 2); SB (SInt 0 2); SCall (RTable2D [[0%nat; 1%nat]] [[0; 1; 2]; [1; 2]])]) = true /\
  rverr (rbuild_ext_fixed [SB (SInt 0 2); SB (SInt 0 2); SCall (RTable3D [[[0%nat; 1%nat]]] [[0; 1; 2]; [1; 2]])]) = true.
Proof. exact RoutesProofs.table2d_ext_fixed_records. Qed.
Print Assumptions table2d_ext_fixed_records.

(* ------------------------------------------------------------------------------------------------
   The repairs routes_gcc_len (Model::gcc records InvalidConstraint for |values| <> |counts|) and routes_empty_domain_read
   (posting methods that derive a result variable from their operands' bounds: Model::operand_bounds / empty_result_var).
   Model: call_fix2 / rbuild_fix2 (the driver's default); call_ext_fixed / rbuild_ext_fixed is the tree before them
   (gcc_len_refuted, empty_domain_read_panics above speak about the older models).  The former classes kf_gcc_len
   (C17) and empty_domain_panic / empty_domain_read (C17, C01, C10) are closed. *)
(* operands with non-empty domains: the repaired methods behave as before *)
Theorem posting_unchanged_on_nonempty : forall r m b, reads_bounds r = true -> route_bounds (fst (rst m)) r = Some b ->
  call_fix2 r m = call r m.
Proof. exact RoutesProofs.call_fix2_same. Qed.
Print Assumptions posting_unchanged_on_nonempty.
(* an operand with an EMPTY domain: no panic (the pre-repair model panics); the result variable gets the empty domain, the
   propagator is posted; validation answers InvalidDomain for this store and every extension of it *)
Theorem posting_on_empty_domain_is_invalid : forall r m, reads_bounds r = true -> route_bounds (fst (rst m)) r = None ->
  let n := rnvars (rst m) in let m' := call_fix2 r m in
  rpanic m' = rpanic m /\ rcallerr m' = rcallerr m /\ rverr m' = rverr m /\ rpend m' = rpend m /\ ruser m' = ruser m ++ [n] /\
  fst (rst m') = fst (rst m) ++ [[]] /\ snd (rst m') = snd (rst m) ++ [route_desc r n] /\
  (forall s' ps, (exists t, s' = fst (rst m') ++ t) -> rvalidate s' ps = Some VInvalidDomain) /\
  rpanic (call r m) = true.
Proof. exact RoutesProofs.call_fix2_empty_operand. Qed.
Print Assumptions posting_on_empty_domain_is_invalid.
Theorem posting_never_panics : forall r m, reads_bounds r = true -> rpanic (call_fix2 r m) = rpanic m.
Proof. exact RoutesProofs.call_fix2_no_panic. Qed.
Print Assumptions posting_never_panics.
Theorem gcc_len_fixed_records : forall xs vals cnts m, length vals <> length cnts ->
  let m' := call_fix2 (RGcc xs vals cnts) m in
  rverr m' = true /\ rpanic m' = rpanic m /\ rcallerr m' = rcallerr m /\ rst m' = rst (call (RGcc xs vals cnts) m) /\
  forall a, route_sem (RGcc xs vals cnts) 0%nat a = false.
Proof. exact RoutesProofs.gcc_fix2_records. Qed.
Print Assumptions gcc_len_fixed_records.
Theorem gcc_wellformed_unchanged : forall xs vals cnts m, length vals = length cnts ->
  call_fix2 (RGcc xs vals cnts) m = call (RGcc xs vals cnts) m.
Proof. exact RoutesProofs.gcc_fix2_same. Qed.
Print Assumptions gcc_wellformed_unchanged.
(* C01 + C03 for route programs on the repaired tree *)
Theorem routes_model_solutions_fix2 : forall decls calls pick sols best,
  forallb is_decl decls = true -> forallb fixed_same calls = true ->
  let m0 := rbuild (map SB decls) in
  calls_ok calls m0 ->
  forall s ps, rlower (rbuild_fix2 (map SB decls ++ map SCall calls)) = RLOk s ps ->
  rvalidate s ps = None ->
  enumerate pick (map denote_route ps) s = SOk sols best ->
  let means a := inst a (map decl_dom decls) /\ calls_means calls m0 a in
  NoDup sols /\
  (forall t, In t sols -> all_fixed t = true /\ means (asg_of t)) /\
  (forall a, means a -> exists t, In t sols /\ inst a t).
Proof. exact RoutesProofs.routes_model_solutions_fix2. Qed.
Print Assumptions routes_model_solutions_fix2.
(* the former witnesses *)
Theorem empty_domain_fixed_invalid : exists s ps,
  let m := rbuild_fix2 [SB (SInt 0 3); SB (SNew (CBin (EVar 0) OEq (EVal 7))); SCall (RAbs (OV 0%nat))] in
  rpanic m = false /\ rlower m = RLOk s ps /\ s = [[]; [7]; []] /\ rvalidate s ps = Some VInvalidDomain /\
  rpanic (rbuild_ext_fixed [SB (SInt 0 3); SB (SNew (CBin (EVar 0) OEq (EVal 7))); SCall (RAbs (OV 0%nat))]) = true.
Proof. exact RoutesProofs.empty_domain_fixed_invalid. Qed.
Print Assumptions empty_domain_fixed_invalid.
Theorem empty_domain_fixed_routes :
  forallb (fun r => let m := rbuild_fix2 [SB (SInt 3 1); SB (SInt 0 3); SCall r] in
                    negb (rpanic m) && match rlower m with RLOk s ps => match rvalidate s ps with Some VInvalidDomain => true | _ => false end | RLPanic => false end)
    [RAdd (OV 0%nat) (OV 1%nat); RSub (OV 1%nat) (OV 0%nat); RMul (OV 0%nat) (OC 2); RMod (OV 1%nat) (OV 0%nat); RAbs (OV 0%nat);
     RMin [1%nat; 0%nat]; RMax [0%nat]; RArrMin [0%nat; 1%nat]; RArrMax [1%nat; 0%nat]; RSum [1%nat; 0%nat]; RSumIter [OV 0%nat; OC 1];
     RFElement [1%nat; 0%nat] 1%nat; RCumulative [0%nat; 1%nat] [2; 2] [2; 2] 3] = true.
Proof. exact RoutesProofs.empty_domain_fixed_routes. Qed.
Print Assumptions empty_domain_fixed_routes.
Theorem api_on_empty_invalid : exists s ps,
  lower (build [SInt 3 1; SInt 0 3; SApi FAdd 0%nat 1%nat]) = LOk s ps /\ s = [[]; [0; 1; 2; 3]; []] /\ validate s ps = Some EInvalidDomain /\
  mpanic (api_call_prefix FAdd 0%nat 1%nat (build [SInt 3 1; SInt 0 3])) = true.
Proof. exact RoutesProofs.api_on_empty_invalid. Qed.
Print Assumptions api_on_empty_invalid.
Theorem gcc_len_fixed_witness :
  let m := rbuild_fix2 [SB (SInt 0 3); SB (SInt 0 3); SCall (RGcc [0%nat; 1%nat] [1; 2] [0%nat])] in
  rverr m = true /\ rpanic m = false /\ rverr (rbuild_ext_fixed [SB (SInt 0 3); SB (SInt 0 3); SCall (RGcc [0%nat; 1%nat] [1; 2] [0%nat])]) = false.
Proof. exact RoutesProofs.gcc_len_fixed_witness. Qed.
Print Assumptions gcc_len_fixed_witness.

(* ------------------------------------------------------------------------------------------------
   The repair d12_validation_operands (finding D12): validate_constraint_parameters counts OPERANDS for add / mul / div / modulo
   (1-3 registered variables) and takes the divisor from the second operand.  rvalidate is the repaired validator, rvalidate_prefix
   the one before (mod_const_refuted, const_const_refuted above). *)
Theorem validate_add_mul_operands : forall s x y r, bad_params s (PB (PAdd x y r)) = false /\ bad_params s (PB (PMul x y r)) = false /\
  bad_params s (PB (p_sub x y r)) = false.
Proof. exact RoutesProofs.add_mul_params_ok. Qed.
Print Assumptions validate_add_mul_operands.
Theorem validate_mod_divisor : forall s x y r, bad_params s (PB (PMod x y r)) = divisor_can_be_zero s y.
Proof. exact RoutesProofs.mod_params_divisor. Qed.
Print Assumptions validate_mod_divisor.
Theorem validate_mod_const_divisor : forall s x c r, bad_params s (PB (PMod x (VConst c) r)) = (c =? 0).
Proof. exact RoutesProofs.mod_const_divisor. Qed.
Print Assumptions validate_mod_const_divisor.
Theorem validate_mod_var_divisor : forall s x d r, bad_params s (PB (PMod x (VVar d) r)) = memZ 0 (sget s d).
Proof. exact RoutesProofs.mod_var_divisor. Qed.
Print Assumptions validate_mod_var_divisor.
(* the repair only accepts more *)
Theorem validate_accepts_more : forall s ps, rvalidate_prefix s ps = None -> rvalidate s ps = None.
Proof. exact RoutesProofs.rvalidate_accepts_more. Qed.
Print Assumptions validate_accepts_more.
Theorem d12_former_witnesses :
  forallb (fun r => match lowered_of [SB (SInt 0 3); SB (SInt 1 3); SCall r] with
                    | Some (s, ps) => match rvalidate s ps, rvalidate_prefix s ps with None, Some VInvalidConstraint => true | _, _ => false end
                    | None => false end)
    [RMod (OV 0%nat) (OC 2); RMod (OC 7) (OV 1%nat); RMod (OC 7) (OC 2); RMod (OV 0%nat) (OC (-3));
     RAdd (OC 1) (OC 2); RSub (OC 1) (OC 2); RMul (OC 1) (OC 2)] = true.
Proof. exact RoutesProofs.d12_former_witnesses. Qed.
Print Assumptions d12_former_witnesses.
Theorem d12_zero_divisor_rejected :
  forallb (fun r => match lowered_of [SB (SInt 0 3); SB (SInt 1 3); SCall r] with
                    | Some (s, ps) => match rvalidate s ps with Some VInvalidConstraint => true | _ => false end
                    | None => false end)
    [RMod (OV 0%nat) (OC 0); RMod (OV 1%nat) (OV 0%nat); RMod (OC 7) (OV 0%nat); RMod (OC 7) (OC 0)] = true.
Proof. exact RoutesProofs.d12_zero_divisor_rejected. Qed.
Print Assumptions d12_zero_divisor_rejected.

(* ---- non-vacuity: a program mixing arithmetic, global, reified and boolean routes lies inside calls_ok;
   its lowering is the dump the tie compares ---- *)
Example routes_example_ok :
  calls_ok [RAdd (OV 0%nat) (OV 1%nat); RAbs (OV 0%nat); RAllDiff [0%nat; 1%nat]; RReif OLe 0%nat 1%nat 2%nat; RBoolNot 2%nat; RMin [3%nat; 4%nat]]
           (rbuild (map SB [SInt (-2) 3; SInt 1 4; SBool])).
Proof. exact RoutesProofs.routes_example_ok. Qed.

Example routes_lowering_example :
  rlower (rbuild [SB (SInt 0 3); SB (SInt 1 4); SB SBool; SCall (RMod (OV 0%nat) (OV 1%nat)); SCall (RClause [2%nat] []);
                  SCall (RLinReif OLe [1; 2] [0%nat; 1%nat] 3 2%nat)])
  = RLOk [drange 0 3; drange 1 4; drange 0 1; drange (-3) 3; drange 0 1]
         [PB (PMod (VVar 0) (VVar 1) 3); PBor [2%nat] 4; PB (PEq (VVar 4) (VConst 1)); PLinReif OLe [1; 2] [0%nat; 1%nat] 3 2].
Proof. vm_compute. reflexivity. Qed.
