(* C09 — LP solver: Optimal means feasible and optimal; Infeasible means infeasible; the reported
   objective is c.x; a warm-started solve agrees with a cold solve.
   Only statements live here; each is closed by `exact` of a lemma from Proofs/LPProofs.v.

   Reading guide.  `LP` is the problem record of src/lpsolver/types.rs (maximise c.x subject to
   A x <= b, l <= x <= u, finite bounds, exact rationals).  `feasible P x` is the specification
   (all rows, all bounds, all lengths agree; false on any dimension mismatch, so no separate
   well-formedness hypothesis is needed).  `check_opt` / `check_infeasible` are the certificate
   checkers (dual multipliers / Farkas vector over the rows of A, the upper bounds and the lower
   bounds).  `lp_solve` is the exact two-phase simplex that only reports a status whose certificate
   re-checks.  The implementation's f64 answers are judged against these verified functions by the
   correspondence check (vlib/props/c09.py): status, value within tolerance of the certified
   optimum, returned point through `feasible_tol`, reported objective against c.x, warm against
   cold.  Floating-point rounding inside the implementation is not modelled. *)
Require Import Selen.Model.LP.
Require Import Selen.Proofs.LPProofs.
From Coq Require Import List QArith Qabs.
Import ListNotations.
Open Scope Q_scope.

(* Weak duality, every dimension: a point accepted together with multipliers y >= 0 such that
   y^T M = c and y.d = c.x is feasible and no feasible point has a larger objective. *)
Theorem cert_optimal_sound : forall P x y, check_opt P x y = true ->
  feasible P x = true /\
  forall x', feasible P x' = true -> objective P x' <= objective P x.
Proof. exact LPProofs.cert_optimal_sound. Qed.
Print Assumptions cert_optimal_sound.

(* Farkas: y >= 0 with y^T M = 0 and y.d < 0 excludes every point. *)
Theorem cert_infeasible_sound : forall P y, check_infeasible P y = true ->
  forall x, feasible P x = false.
Proof. exact LPProofs.cert_infeasible_sound. Qed.
Print Assumptions cert_infeasible_sound.

(* "Optimal" of the certified solver: feasible, optimal, and the reported value is c.x. *)
Theorem lp_optimal_certified : forall fuel P x z y, lp_solve fuel P = Optimal x z y ->
  feasible P x = true /\
  (forall x', feasible P x' = true -> objective P x' <= z) /\
  z == objective P x.
Proof. exact LPProofs.lp_optimal_certified. Qed.
Print Assumptions lp_optimal_certified.

(* "Infeasible" of the certified solver: no feasible point exists. *)
Theorem lp_infeasible_certified : forall fuel P y, lp_solve fuel P = Infeasible y ->
  forall x, feasible P x = false.
Proof. exact LPProofs.lp_infeasible_certified. Qed.
Print Assumptions lp_infeasible_certified.

(* The optimal value is unique: two certified optima have the same objective.  This is what makes
   "warm-started dual solve agrees with cold primal solve" a statement about one number. *)
Theorem optimum_unique_value : forall P x1 y1 x2 y2,
  check_opt P x1 y1 = true -> check_opt P x2 y2 = true ->
  objective P x1 == objective P x2.
Proof. exact LPProofs.optimum_unique_value. Qed.
Print Assumptions optimum_unique_value.

(* warm = cold for the model: whatever the fuel, hence whatever pivoting path was taken, two
   Optimal answers carry the same value, and Optimal and Infeasible exclude each other. *)
Theorem warm_eq_cold : forall f1 f2 P x1 z1 y1 x2 z2 y2,
  lp_solve f1 P = Optimal x1 z1 y1 -> lp_solve f2 P = Optimal x2 z2 y2 -> z1 == z2.
Proof. exact LPProofs.lp_optimal_value_unique. Qed.
Print Assumptions warm_eq_cold.

Theorem lp_status_exclusive : forall f1 f2 P x z y y',
  lp_solve f1 P = Optimal x z y -> lp_solve f2 P = Infeasible y' -> False.
Proof. exact LPProofs.lp_status_exclusive. Qed.
Print Assumptions lp_status_exclusive.

(* The certified optimum bounds the objective of every exactly feasible point (used by the judge:
   an implementation point cannot legitimately beat it). *)
Theorem lp_optimal_bounds_any_feasible : forall fuel P x z y x',
  lp_solve fuel P = Optimal x z y -> feasible P x' = true -> objective P x' <= z.
Proof. exact LPProofs.lp_optimal_bounds_any_feasible. Qed.
Print Assumptions lp_optimal_bounds_any_feasible.

(* What the tolerant check of an implementation-provided point guarantees: lengths agree, every
   row is violated by at most tol, every bound by at most tol. *)
Theorem feasible_tol_sound : forall P tol x, feasible_tol P tol x = true ->
  lp_wf P = true /\ length x = lp_nvars P /\
  Forall2 (fun r bi => qdot r x <= bi + tol) (lp_A P) (lp_b P) /\
  Forall2 (fun lj xj => lj - tol <= xj) (lp_l P) x /\
  Forall2 (fun xj uj => xj <= uj + tol) x (lp_u P).
Proof. exact LPProofs.feasible_tol_sound. Qed.
Print Assumptions feasible_tol_sound.

(* ... and with tolerance 0 it is the specification itself. *)
Theorem feasible_tol_zero : forall P x, feasible_tol P 0 x = feasible P x.
Proof. exact LPProofs.feasible_tol_zero. Qed.
Print Assumptions feasible_tol_zero.

(* The closeness test used for objectives. *)
Theorem close_rel_sound : forall tol a b, q_close_rel tol a b = true ->
  Qabs (a - b) <= tol * (1 + Qabs b).
Proof. exact LPProofs.close_rel_sound. Qed.
Print Assumptions close_rel_sound.

(* Non-vacuity: the certified solver does answer, on a problem that needs Phase I (negative
   right-hand side and negative lower bounds), on a degenerate one (duplicate and redundant rows
   tight at the optimum), and on an infeasible one. *)
Example c09_phase1_instance :
  lp_solve 100 (mkLP [1; 1] [[1; 1]; [1; -1]] [4; -1] [-2; -2] [3; 3])
  = Optimal [3 # 2; 5 # 2] 4 [1; 0; 0; 0; 0; 0].
Proof. exact LPProofs.ex_phase1_solved. Qed.

Example c09_degenerate_instance :
  exists x y, lp_solve 100 (mkLP [1; 2] [[1; 1]; [1; 1]; [1; 0]; [0; 1]] [2; 2; 2; 2] [0; 0] [2; 2])
              = Optimal x 4 y.
Proof. exact LPProofs.ex_degenerate_solved. Qed.

Example c09_infeasible_instance :
  lp_solve 100 (mkLP [1; 1] [[1; 1]; [-1; -1]] [1; -2] [-2; -2] [3; 3])
  = Infeasible [1 # 2; 1 # 2; 0; 0; 0; 0].
Proof. exact LPProofs.ex_infeasible_solved. Qed.

(* Known findings (see known_findings.txt).  These are facts about the IMPLEMENTATION's observed
   answers, checked against the verified specification; the theorems above are about the model and
   stay at full strength.  Class `phase1` is the decidable predicate `needs_phase1`. *)
Theorem c09_impl_phase1_refuted :
  needs_phase1 LPProofs.kf_phase1 = true /\
  (exists x y, lp_solve 100 LPProofs.kf_phase1 = Optimal x 2 y) /\
  f64_to_Q 1074266112 0 = Some 3 /\
  feasible_tol LPProofs.kf_phase1 (1 # 1000000) [3] = false /\
  q_close_rel (1 # 1000000) 3 2 = false.
Proof. exact LPProofs.kf_phase1_refuted. Qed.
Print Assumptions c09_impl_phase1_refuted.

Theorem c09_impl_ratio_refuted :
  needs_phase1 LPProofs.kf_ratio = false /\
  (exists x y, lp_solve 100 LPProofs.kf_ratio = Optimal x (1 # 2) y) /\
  match f64_to_Q 1072693248 2, f64_to_Q 1073217536 0 with
  | Some a, Some b => feasible_tol LPProofs.kf_ratio (1 # 1000000) [a; b] = false /\
                      q_close_rel (1 # 1000000) a (1 # 2) = false
  | _, _ => False
  end.
Proof. exact LPProofs.kf_ratio_refuted. Qed.
Print Assumptions c09_impl_ratio_refuted.

Example c09_phase1_complement_inhabited :
  needs_phase1 (mkLP [1; 2] [[1; 1]; [1; 1]; [1; 0]; [0; 1]] [2; 2; 2; 2] [0; 0] [2; 2]) = false.
Proof. exact LPProofs.kf_phase1_complement. Qed.
