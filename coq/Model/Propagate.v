(* search/agenda.rs and search::propagate (search/mod.rs:676-712).
   props: propagator list indexed by PropId; deps v: PropIds registered on variable v, in
   registration order (push_new_prop appends p to dependencies[v] for every trigger var, with
   repetitions when a variable is listed twice). *)
Require Import Selen.Model.Prelude Selen.Model.Dom Selen.Model.Views Selen.Model.PropDefs.

Definition memn (x : nat) (l : list nat) : bool := existsb (Nat.eqb x) l.

(* Agenda: FIFO queue without duplicates (the `scheduled` bitset = membership in q) *)
Definition schedule (q : list nat) (p : nat) : list nat := if memn p q then q else q ++ [p].
Definition agenda_with (ps : list nat) : list nat := fold_left schedule ps [].

(* dependencies[v] *)
Fixpoint deps_from (ps : list prop) (i : nat) (v : nat) : list nat :=
  match ps with
  | [] => []
  | p :: r => map (fun _ => i) (filter (Nat.eqb v) (trig p)) ++ deps_from r (S i) v
  end.
Definition deps (ps : list prop) (v : nat) : list nat := deps_from ps 0 v.

Definition schedule_events (ps : list prop) (q : list nat) (ev : list nat) : list nat :=
  fold_left (fun q v => fold_left schedule (deps ps v) q) ev q.

Inductive presult :=
| PFail                      (* a propagator failed the space *)
| PFuel                      (* model artefact: recursion fuel exhausted *)
| PDone (s : store).         (* agenda empty *)

(* Which queue position Agenda::pop takes.  FIFO (index 0) in production; hook H3 perturbs it
   with a stateless function of a seed and the queue.  Theorems hold for every scheduler. *)
Definition sched := list nat -> nat.
Definition fifo : sched := fun _ => 0%nat.
Fixpoint qdigest (q : list nat) (i : nat) : Z :=
  match q with [] => 0 | p :: r => (Z.of_nat p + 1) * (Z.of_nat i + 1) + qdigest r (S i) end.
Definition lcg_pick (seed : Z) : sched :=
  fun q => Z.to_nat ((((seed + qdigest q 0) * 1103515245 + 12345) mod 2147483648) mod Z.of_nat (length q)).

Fixpoint remove_nth {A} (i : nat) (l : list A) : list A :=
  match l, i with
  | [], _ => []
  | _ :: r, O => r
  | x :: r, S k => x :: remove_nth k r
  end.

Section Propagate.
  Variable pick : sched.

  Fixpoint propagate (fuel : nat) (ps : list prop) (s : store) (q : list nat) : presult :=
    match q with
    | [] => PDone s
    | p0 :: _ =>
      match fuel with
      | O => PFuel
      | S f =>
        let i := (pick q mod length q)%nat in
        let p := nth i q p0 in
        let q' := remove_nth i q in
        match nth_error ps p with
        | None => PFail   (* unreachable: PropIds are indices of ps (Rust would panic) *)
        | Some pr =>
          match prune pr (s, []) with
          | None => PFail
          | Some (s', ev) => propagate f ps s' (schedule_events ps q' ev)
          end
        end
      end
    end.
End Propagate.

(* enough fuel for any run: every pop either leaves the store unchanged (the queue shrinks) or
   removes at least one value *)
Definition prop_fuel (ps : list prop) (s : store) (q : list nat) : nat :=
  (length q + (S (total_size s)) * (S (length ps)))%nat.
