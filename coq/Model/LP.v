(* C09 — exact-rational model of the embedded LP solver (directory src/lpsolver).
   Definitions only (no proofs), so that the model still extracts and runs when a proof breaks.

   What is mirrored from the Rust code
   -----------------------------------
   * the problem record `LpProblem` (types.rs:122-149): maximise c.x s.t. A x <= b, l <= x <= u;
     `lp_wf` is `LpProblem::validate` restricted to the dimension checks (types.rs:173-222);
   * `to_standard_form` (simplex_primal.rs:113-178): shift x' = x - l, right-hand side
     b - A l, one extra row x'_j <= u_j - l_j per (finite) upper bound, one slack per row, and
     the way the answer is mapped back (x = x' + l, objective constant c.l re-added,
     simplex_primal.rs:94-106);
   * two phases (phase_one / lp_phase_two, simplex_primal.rs:184-632): Phase I only when the slack
     basis is infeasible (some shifted right-hand side negative).
   What is NOT mirrored: the pivoting order (the code uses Dantzig's most-positive reduced cost with
   first-index ties and one artificial per row, factorises the basis by LU in f64; the model is a
   dictionary simplex over Q with Bland's smallest-index rule and a single artificial column).
   Points are therefore never compared between model and code, only status and optimal value;
   the model's answer is accompanied by a certificate (dual multipliers / Farkas vector) which is
   re-checked by `check_opt` / `check_infeasible`, and those checkers are what is proved sound. *)
From Coq Require Import List ZArith QArith Qabs Bool.
Import ListNotations.
Open Scope Q_scope.

(* ---------------------------------------------------------------------------------------------- *)
(* vectors over Q as lists *)

Definition lp_qlt_bool (a b : Q) : bool := negb (Qle_bool b a).

Fixpoint qdot (a b : list Q) : Q :=
  match a, b with
  | x :: a', y :: b' => x * y + qdot a' b'
  | _, _ => 0
  end.

Fixpoint qvadd (a b : list Q) : list Q :=
  match a, b with
  | x :: a', y :: b' => (x + y) :: qvadd a' b'
  | _, _ => []
  end.

Definition qvscale (k : Q) (a : list Q) : list Q := map (fun x => k * x) a.
Definition qvopp (a : list Q) : list Q := map Qopp a.

(* equality of vectors (same length, componentwise ==) *)
Fixpoint qveq (a b : list Q) : bool :=
  match a, b with
  | [], [] => true
  | x :: a', y :: b' => Qeq_bool x y && qveq a' b'
  | _, _ => false
  end.

(* componentwise a <= b, same length *)
Fixpoint qvle (a b : list Q) : bool :=
  match a, b with
  | [], [] => true
  | x :: a', y :: b' => Qle_bool x y && qvle a' b'
  | _, _ => false
  end.

Definition qvnonneg (a : list Q) : bool := forallb (fun x => Qle_bool 0 x) a.

(* sum_i y_i * row_i, a vector of length n *)
Fixpoint qcomb (n : nat) (y : list Q) (rows : list (list Q)) : list Q :=
  match y, rows with
  | yi :: y', r :: rows' => qvadd (qvscale yi r) (qcomb n y' rows')
  | _, _ => repeat 0 n
  end.

(* the n x n identity as a list of rows *)
Fixpoint qident (n : nat) : list (list Q) :=
  match n with
  | O => []
  | S k => (1 :: repeat 0 k) :: map (cons 0) (qident k)
  end.

(* ---------------------------------------------------------------------------------------------- *)
(* the problem *)

Record LP := mkLP {
  lp_c : list Q;          (* objective, length n *)
  lp_A : list (list Q);   (* m rows of length n *)
  lp_b : list Q;          (* length m *)
  lp_l : list Q;          (* lower bounds, length n (finite) *)
  lp_u : list Q           (* upper bounds, length n (finite) *)
}.

Definition lp_nvars (P : LP) : nat := length (lp_c P).

(* LpProblem::validate, dimension part *)
Definition lp_wf (P : LP) : bool :=
  let n := lp_nvars P in
  (length (lp_l P) =? n)%nat && (length (lp_u P) =? n)%nat &&
  (length (lp_b P) =? length (lp_A P))%nat &&
  forallb (fun r => (length r =? n)%nat) (lp_A P).

(* every row a_i . x <= b_i *)
Fixpoint lp_rows_ok (A : list (list Q)) (b : list Q) (x : list Q) : bool :=
  match A, b with
  | [], [] => true
  | r :: A', bi :: b' => Qle_bool (qdot r x) bi && lp_rows_ok A' b' x
  | _, _ => false
  end.

(* The specification: x is a feasible point of P (false on any dimension mismatch). *)
Definition feasible (P : LP) (x : list Q) : bool :=
  lp_wf P && (length x =? lp_nvars P)%nat &&
  lp_rows_ok (lp_A P) (lp_b P) x && qvle (lp_l P) x && qvle x (lp_u P).

Definition objective (P : LP) (x : list Q) : Q := Qred (qdot (lp_c P) x).

(* ---------------------------------------------------------------------------------------------- *)
(* certificates.  All constraints of P as one system  M x <= d :
     rows of A            (right-hand side b)
     x_j <= u_j           (identity rows, right-hand side u)
     -x_j <= -l_j         (negated identity rows, right-hand side -l)
   A certificate vector y has one non-negative multiplier per row of that system, in this order. *)

Definition lp_sys_rows (P : LP) : list (list Q) :=
  lp_A P ++ qident (lp_nvars P) ++ map qvopp (qident (lp_nvars P)).
Definition lp_sys_rhs (P : LP) : list Q :=
  lp_b P ++ lp_u P ++ qvopp (lp_l P).

(* Optimality certificate (LP duality): x feasible, y >= 0, y^T M = c, y.d = c.x.
   Complete for problems with finite bounds: by strong duality every optimal x has such a y. *)
Definition check_opt (P : LP) (x y : list Q) : bool :=
  feasible P x &&
  (length y =? length (lp_sys_rows P))%nat &&
  qvnonneg y &&
  qveq (qcomb (lp_nvars P) y (lp_sys_rows P)) (lp_c P) &&
  Qeq_bool (qdot y (lp_sys_rhs P)) (qdot (lp_c P) x).

(* Farkas certificate: y >= 0, y^T M = 0, y.d < 0. *)
Definition check_infeasible (P : LP) (y : list Q) : bool :=
  lp_wf P &&
  (length y =? length (lp_sys_rows P))%nat &&
  qvnonneg y &&
  qveq (qcomb (lp_nvars P) y (lp_sys_rows P)) (repeat 0 (lp_nvars P)) &&
  lp_qlt_bool (qdot y (lp_sys_rhs P)) 0.

(* ---------------------------------------------------------------------------------------------- *)
(* tolerance-aware check of an implementation-provided point (the f64 values, as exact rationals) *)

Fixpoint lp_rows_ok_tol (tol : Q) (A : list (list Q)) (b : list Q) (x : list Q) : bool :=
  match A, b with
  | [], [] => true
  | r :: A', bi :: b' => Qle_bool (qdot r x) (bi + tol) && lp_rows_ok_tol tol A' b' x
  | _, _ => false
  end.

Fixpoint lp_lower_ok_tol (tol : Q) (l x : list Q) : bool :=
  match l, x with
  | [], [] => true
  | lj :: l', xj :: x' => Qle_bool (lj - tol) xj && lp_lower_ok_tol tol l' x'
  | _, _ => false
  end.

Fixpoint lp_upper_ok_tol (tol : Q) (x u : list Q) : bool :=
  match x, u with
  | [], [] => true
  | xj :: x', uj :: u' => Qle_bool xj (uj + tol) && lp_upper_ok_tol tol x' u'
  | _, _ => false
  end.

Definition feasible_tol (P : LP) (tol : Q) (x : list Q) : bool :=
  lp_wf P && (length x =? lp_nvars P)%nat &&
  lp_rows_ok_tol tol (lp_A P) (lp_b P) x && lp_lower_ok_tol tol (lp_l P) x && lp_upper_ok_tol tol x (lp_u P).

(* |a - b| <= tol * (1 + |b|) *)
Definition q_close_rel (tol a b : Q) : bool :=
  Qle_bool (Qabs (a - b)) (tol * (1 + Qabs b)).

(* ---------------------------------------------------------------------------------------------- *)
(* exact simplex on a dictionary (tableau) over Q *)

Inductive lp_result :=
| Optimal (x : list Q) (obj : Q) (ycert : list Q)
| Infeasible (ycert : list Q)
| Unbounded
| LpOutOfFuel
| LpError.

(* one equation  sum_j coef_j * x_j = rhs  whose basic variable is column `t_bv` (coef_bv = 1) *)
Record lp_trow := mkLpRow { t_bv : nat; t_coefs : list Q; t_rhs : Q }.
(* objective  z = t_oval + sum_j ocoefs_j * x_j  (coefficients of basic columns are 0) *)
Record lp_tab := mkLpTab { t_rows : list lp_trow; t_ocoefs : list Q; t_oval : Q }.

Definition lp_qnth (j : nat) (v : list Q) : Q := nth j v 0.

(* v - k * p, reduced *)
Fixpoint lp_vsubmul (v : list Q) (k : Q) (p : list Q) : list Q :=
  match v, p with
  | a :: v', b :: p' => Qred (a - k * b) :: lp_vsubmul v' k p'
  | _, _ => []
  end.

(* lp_pivot: column e enters the basis in row number r *)
Definition lp_pivot (t : lp_tab) (r e : nat) : lp_tab :=
  match nth_error (t_rows t) r with
  | None => t
  | Some pr =>
    let a := lp_qnth e (t_coefs pr) in
    let pc := map (fun x => Qred (x / a)) (t_coefs pr) in
    let pq := Qred (t_rhs pr / a) in
    let upd (i : nat) (rw : lp_trow) : lp_trow :=
      if (i =? r)%nat then mkLpRow e pc pq
      else let k := lp_qnth e (t_coefs rw) in
           if Qeq_bool k 0 then rw
           else mkLpRow (t_bv rw) (lp_vsubmul (t_coefs rw) k pc) (Qred (t_rhs rw - k * pq)) in
    let fix go (i : nat) (l : list lp_trow) : list lp_trow :=
      match l with [] => [] | rw :: l' => upd i rw :: go (S i) l' end in
    let oe := lp_qnth e (t_ocoefs t) in
    mkLpTab (go O (t_rows t)) (lp_vsubmul (t_ocoefs t) oe pc) (Qred (t_oval t + oe * pq))
  end.

(* Bland: the smallest column index < lim with a positive objective coefficient *)
Fixpoint lp_entering_from (j : nat) (lim : nat) (oc : list Q) : option nat :=
  match oc with
  | [] => None
  | c :: oc' =>
    if (lim <=? j)%nat then None
    else if lp_qlt_bool 0 c then Some j else lp_entering_from (S j) lim oc'
  end.

(* minimum ratio test on column e; ties broken by the smallest basic variable index (Bland).
   Returns the row number. *)
Fixpoint lp_leaving_from (i : nat) (e : nat) (l : list lp_trow) (best : option (nat * Q * nat)) : option nat :=
  match l with
  | [] => match best with Some (r, _, _) => Some r | None => None end
  | rw :: l' =>
    let a := lp_qnth e (t_coefs rw) in
    let best' :=
      if lp_qlt_bool 0 a then
        let ratio := Qred (t_rhs rw / a) in
        match best with
        | None => Some (i, ratio, t_bv rw)
        | Some (_, br, bb) =>
          if lp_qlt_bool ratio br then Some (i, ratio, t_bv rw)
          else if Qeq_bool ratio br && (t_bv rw <? bb)%nat then Some (i, ratio, t_bv rw)
          else best
        end
      else best in
    lp_leaving_from (S i) e l' best'
  end.

Inductive lp_loop_result := LpLOpt (t : lp_tab) | LpLUnb | LpLFuel.

(* simplex iterations; only columns < lim may enter *)
Fixpoint lp_simplex_loop (fuel : nat) (lim : nat) (t : lp_tab) : lp_loop_result :=
  match fuel with
  | O => LpLFuel
  | S f =>
    match lp_entering_from O lim (t_ocoefs t) with
    | None => LpLOpt t
    | Some e =>
      match lp_leaving_from O e (t_rows t) None with
      | None => LpLUnb
      | Some r => lp_simplex_loop f lim (lp_pivot t r e)
      end
    end
  end.

(* --- building the standard form (to_standard_form) --- *)

(* unit vector e_i of length k *)
Definition lp_unitv (k i : nat) : list Q := map (fun j => if (j =? i)%nat then 1 else 0) (seq 0 k).

(* shifted right-hand sides: b - A l, then u - l *)
Definition lp_std_rhs (P : LP) : list Q :=
  map (fun rb => Qred (snd rb - qdot (fst rb) (lp_l P))) (combine (lp_A P) (lp_b P)) ++
  map (fun ul => Qred (fst ul - snd ul)) (combine (lp_u P) (lp_l P)).

(* the slack basis is infeasible, i.e. the implementation has to run its Phase I *)
Definition needs_phase1 (P : LP) : bool := existsb (fun q => lp_qlt_bool q 0) (lp_std_rhs P).

(* structural parts of the rows: A, then the identity (upper-bound rows) *)
Definition lp_std_struct (P : LP) : list (list Q) := lp_A P ++ qident (lp_nvars P).

(* columns: [0,n) structural x', [n,n+mm) slacks, n+mm the single Phase-I artificial x0
   (coefficient -1 in every row) *)
Definition lp_initial_rows (P : LP) : list lp_trow :=
  let n := lp_nvars P in
  let st := lp_std_struct P in
  let mm := length st in
  map (fun irq => let '(i, r, q) := irq in mkLpRow (n + i) (r ++ lp_unitv mm i ++ [-1]) q)
      (combine (combine (seq 0 mm) st) (lp_std_rhs P)).

(* row number of the most negative right-hand side (first such row), if any is negative *)
Fixpoint lp_most_negative (i : nat) (l : list lp_trow) (best : option (nat * Q)) : option nat :=
  match l with
  | [] => match best with Some (r, _) => Some r | None => None end
  | rw :: l' =>
    let best' :=
      if lp_qlt_bool (t_rhs rw) 0 then
        match best with
        | None => Some (i, t_rhs rw)
        | Some (_, b) => if lp_qlt_bool (t_rhs rw) b then Some (i, t_rhs rw) else best
        end
      else best in
    lp_most_negative (S i) l' best'
  end.

(* first row whose basic variable is column j *)
Fixpoint lp_basic_row (i : nat) (j : nat) (l : list lp_trow) : option (nat * lp_trow) :=
  match l with
  | [] => None
  | rw :: l' => if (t_bv rw =? j)%nat then Some (i, rw) else lp_basic_row (S i) j l'
  end.

(* first column < lim with a non-zero coefficient *)
Fixpoint lp_first_nonzero (j lim : nat) (v : list Q) : option nat :=
  match v with
  | [] => None
  | a :: v' => if (lim <=? j)%nat then None
               else if Qeq_bool a 0 then lp_first_nonzero (S j) lim v' else Some j
  end.

(* express the objective c_ext . x in the current nonbasic variables *)
Definition lp_install_objective (rows : list lp_trow) (cext : list Q) : lp_tab :=
  fold_left (fun t rw =>
               let k := lp_qnth (t_bv rw) (t_ocoefs t) in
               if Qeq_bool k 0 then t
               else mkLpTab (t_rows t) (lp_vsubmul (t_ocoefs t) k (t_coefs rw)) (Qred (t_oval t + k * t_rhs rw)))
            rows (mkLpTab rows cext 0).

(* multipliers read off an objective row  (objrow = cost - sum_i y_i * original_row_i):
   y_i = - objrow[slack i]  for the rows of A and the upper-bound rows,
   w_j = - objrow[j]        for the constraints x'_j >= 0, i.e. -x_j <= -l_j *)
Definition lp_duals_of (P : LP) (oc : list Q) : list Q :=
  let n := lp_nvars P in
  let mm := length (lp_std_struct P) in
  map (fun j => Qred (- lp_qnth j oc)) (seq n mm) ++ map (fun j => Qred (- lp_qnth j oc)) (seq 0 n).

(* basic solution of the structural variables, shifted back: x = x' + l *)
Definition lp_point_of (P : LP) (t : lp_tab) : list Q :=
  map (fun jl => let '(j, lj) := jl in
                 match lp_basic_row O j (t_rows t) with
                 | Some (_, rw) => Qred (t_rhs rw + lj)
                 | None => Qred lj
                 end)
      (combine (seq 0 (lp_nvars P)) (lp_l P)).

Inductive lp_core_result := LpCOpt (x y : list Q) | LpCInf (y : list Q) | LpCUnb | LpCFuel | LpCErr.

Definition lp_phase_two (fuel : nat) (P : LP) (rows : list lp_trow) : lp_core_result :=
  let n := lp_nvars P in
  let mm := length (lp_std_struct P) in
  let cext := lp_c P ++ repeat 0 (mm + 1) in
  match lp_simplex_loop fuel (n + mm) (lp_install_objective rows cext) with
  | LpLOpt t => LpCOpt (lp_point_of P t) (lp_duals_of P (t_ocoefs t))
  | LpLUnb => LpCUnb
  | LpLFuel => LpCFuel
  end.

Definition lp_core (fuel : nat) (P : LP) : lp_core_result :=
  let n := lp_nvars P in
  let mm := length (lp_std_struct P) in
  let x0 := (n + mm)%nat in
  let rows := lp_initial_rows P in
  match lp_most_negative O rows None with
  | None => lp_phase_two fuel P rows                     (* slack basis feasible: no Phase I *)
  | Some r =>
    (* Phase I: maximise -x0 after pivoting x0 into the most violated row *)
    let t0 := lp_pivot (mkLpTab rows (repeat 0 x0 ++ [-1]) 0) r x0 in
    match lp_simplex_loop fuel (S x0) t0 with
    | LpLFuel => LpCFuel
    | LpLUnb => LpCErr
    | LpLOpt t =>
      if lp_qlt_bool (t_oval t) 0 then LpCInf (lp_duals_of P (t_ocoefs t))
      else
        (* x0 = 0; if it is still basic (degenerate) lp_pivot it out on any non-zero entry *)
        match lp_basic_row O x0 (t_rows t) with
        | None => lp_phase_two fuel P (t_rows t)
        | Some (r0, rw) =>
          match lp_first_nonzero O x0 (t_coefs rw) with
          | None => LpCErr
          | Some e => lp_phase_two fuel P (t_rows (lp_pivot t r0 e))
          end
        end
    end
  end.

(* simplex-then-check: a status is only reported together with a certificate that re-checks *)
Definition lp_solve (fuel : nat) (P : LP) : lp_result :=
  if negb (lp_wf P) then LpError else
  match lp_core fuel P with
  | LpCOpt x y => if check_opt P x y then Optimal x (objective P x) y else LpError
  | LpCInf y => if check_infeasible P y then Infeasible y else LpError
  | LpCUnb => Unbounded
  | LpCFuel => LpOutOfFuel
  | LpCErr => LpError
  end.

(* ---------------------------------------------------------------------------------------------- *)
(* decoding an IEEE-754 binary64 bit pattern (given as two 32-bit halves) to the exact rational it
   denotes; None for infinities and NaN *)
Definition f64_to_Q (hi lo : Z) : option Q :=
  let bits := (hi * 4294967296 + lo)%Z in
  let s := (bits / 9223372036854775808)%Z in
  let e := ((bits / 4503599627370496) mod 2048)%Z in
  let m := (bits mod 4503599627370496)%Z in
  if (e =? 2047)%Z then None else
  let mant := if (e =? 0)%Z then m else (m + 4503599627370496)%Z in
  let ex := if (e =? 0)%Z then (-1074)%Z else (e - 1075)%Z in
  let mag := if (0 <=? ex)%Z then inject_Z (mant * 2 ^ ex)
             else Qmake mant (Z.to_pos (2 ^ (- ex))) in
  Some (Qred (if (s =? 0)%Z then mag else - mag)).
