(* Abstract integer domains and the variable store of the integer fragment.
   A domain is the canonical (strictly increasing) list of the values of a SparseSet; C11's
   refinement theorem is what justifies reading SparseSet operations as these list operations
   (remove_below = filter (v <=), remove_above = filter (<= v), min/max = least/greatest). *)
Require Import Selen.Model.Prelude.

Definition dom := list Z.
Definition dmin (d : dom) : Z := hd 0 d.
Definition dmax (d : dom) : Z := last d 0.
Definition dempty (d : dom) : bool := match d with [] => true | _ => false end.
Definition dfixed (d : dom) : bool := match d with [_] => true | _ => false end.
Definition dbelow (v : Z) (d : dom) : dom := filter (fun x => v <=? x) d.   (* remove_below v *)
Definition dabove (v : Z) (d : dom) : dom := filter (fun x => x <=? v) d.   (* remove_above v *)
Definition drange (lo hi : Z) : dom := zrange lo (hi + 1).
Definition dof_values (l : list Z) : dom := zsort l.

Fixpoint sorted (d : dom) : Prop :=
  match d with
  | [] => True
  | x :: r => match r with [] => True | y :: _ => x < y /\ sorted r end
  end.

Definition store := list dom.
Definition sget (s : store) (v : nat) : dom := nth v s [].
Fixpoint supd (s : store) (v : nat) (d : dom) : store :=
  match s, v with
  | [], _ => []
  | _ :: r, O => d :: r
  | x :: r, S k => x :: supd r k d
  end.

(* Context = store + event list (views.rs Context{vars,events}) *)
Definition ctx := (store * list nat)%type.

(* Context::try_set_min / try_set_max, (VarI, ValI) branch (views.rs:190-214, 331-355).
   min()/max() on an empty domain is a debug_assert in Rust; an empty domain never reaches
   propagation (validation rejects it, every setter fails before leaving one), modelled as failure. *)
Definition cset_min (v : nat) (b : Z) (c : ctx) : option ctx :=
  let d := sget (fst c) v in
  if dempty d then None
  else if dmax d <? b then None
  else if dmin d <? b then
    let d' := dbelow b d in
    if dempty d' then None else Some (supd (fst c) v d', snd c ++ [v])
  else Some c.

Definition cset_max (v : nat) (b : Z) (c : ctx) : option ctx :=
  let d := sget (fst c) v in
  if dempty d then None
  else if b <? dmin d then None
  else if b <? dmax d then
    let d' := dabove b d in
    if dempty d' then None else Some (supd (fst c) v d', snd c ++ [v])
  else Some c.

(* well-formed store: every domain non-empty and strictly increasing *)
Definition wf_dom (d : dom) : Prop := d <> [] /\ sorted d.
Definition wf_store (s : store) : Prop := forall v, (v < length s)%nat -> wf_dom (sget s v).

Definition asg := nat -> Z.
Definition inst (a : asg) (s : store) : Prop := forall v, (v < length s)%nat -> In (a v) (sget s v).
Definition sub_store (s' s : store) : Prop :=
  length s' = length s /\ forall v x, In x (sget s' v) -> In x (sget s v).
Definition all_fixed (s : store) : bool := forallb dfixed s.
Fixpoint total_size (s : store) : nat :=
  match s with [] => O | d :: r => (length d + total_size r)%nat end.
