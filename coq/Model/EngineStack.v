(* The search engine as the ITERATIVE machine the code actually is: `impl Iterator for Engine`
   (search/mod.rs:597-689) driving `SplitOnUnassigned` (search/branch.rs) with an explicit stack of
   suspended branch iterators.  Model/Search.v (`dfs`) and Model/Limits.v (`dfs_lim`) describe the
   same exploration as a recursive function; Proofs/EngineStackProofs.v proves that this machine
   refines them.  Definitions only.

   Engine::limit_reached():
     iteration_count += 1; if iteration_count % interval == 0 { limit checks, may answer true }

   Engine::next():
     loop {
       if limit_reached() { return None }
       while let Some((space, p)) = branch_iter.next() {
         agenda = mode.on_branch(space) ++ [p];
         match propagate_until(space, agenda, deadline) {
           None                  => {}                                  // failed: next child
           Some((true,  space))  => { stack.push(replace(branch_iter, split(space)));
                                      if limit_reached() { return None }        // repair limits_deep
                                      continue }
           Some((false, space))  => { mode.on_solution(space); return Some(solution) }
         }
       }
       if let Some(parent) = stack.pop() { branch_iter = parent } else { return None }
     }
   propagate_until answering None because the deadline has passed (`else if deadline passed {
   trigger_cleanup(); return None }`) is the oracle `giveup` of Model/Limits.v; the LP block and its
   fallback root are off, as in Limits.search_lim                                               *)
Require Import Selen.Model.Prelude Selen.Model.Dom Selen.Model.Views Selen.Model.PropDefs.
Require Import Selen.Model.Props.Basic Selen.Model.Propagate Selen.Model.Search Selen.Model.Limits.

(* ---------------------------------------------------------------------------------------------- *)
(* search/branch.rs *)

(* BranchState::BinarySplit { space, checkpoint, pivot, mid, is_left }: `space` = propagator list
   and variable store; the trail is never written (Context never calls push_change), so the
   checkpoint restores nothing and is not modelled *)
Record bstate := mkbs {
  bps : list prop;
  bstore : store;
  pivot : nat;
  mid : Z;
  is_left : bool
}.

(* SplitOnUnassigned { branch: Option<BranchState> }; None = exhausted *)
Definition biter := option bstate.

(* split_on_unassigned(space) *)
Definition split_on_unassigned (ps : list prop) (s : store) : biter :=
  match first_unassigned s 0 with
  | Some pv => Some (mkbs ps s pv (dmid (sget s pv)) true)
  | None => None
  end.

(* <SplitOnUnassigned as Iterator>::next: `self.branch.take()?`; the left call stores the CLONE of
   the space (taken before the left propagator is pushed) for the right call; each call pushes its
   own branch propagator, whose PropId is the length of the list it is pushed on.
   Result: the item ((props, vars), PropId) and the iterator's new state. *)
Definition biter_next (b : biter) : option (list prop * store * nat) * biter :=
  match b with
  | None => (None, None)
  | Some st =>
    let bid := length (bps st) in
    if is_left st then
      (Some (bps st ++ [mk_leq (VVar (pivot st)) (VConst (mid st))], bstore st, bid),
       Some (mkbs (bps st) (bstore st) (pivot st) (mid st) false))
    else
      (Some (bps st ++ [mk_gt (VVar (pivot st)) (VConst (mid st))], bstore st, bid), None)
  end.

(* ---------------------------------------------------------------------------------------------- *)
(* search/mod.rs: Engine { branch_iter, stack, mode, iteration_count, .. }.  The head of `stack`
   is the top of the Vec (push/pop at the head); `best` is Minimize::minimum_opt; `lst` carries
   iteration_count and the number of limit checks done so far. *)
Record estate := mke {
  cur : biter;
  stack : list biter;
  best : option Z;
  lst : lstate
}.

(* what one call of next() can produce *)
Inductive eres :=
| EFuel                                   (* model artefact: loop fuel exhausted *)
| EYield (t : store) (e : estate)         (* return Some(solution) *)
| EDone (why : stop) (e : estate).        (* return None: SExhausted (stack empty) or SLimit w *)

(* the solutions a consumer collected, the engine state when it stopped calling, and why *)
Inductive rres :=
| RFuel
| RStop (sols : list store) (e : estate) (why : stop).

Definition rcons (t : store) (r : rres) : rres :=
  match r with RFuel => RFuel | RStop sols e why => RStop (t :: sols) e why end.

(* the shape of Model/Limits.v's result: solutions, mode state, limit state, stop reason and the
   stack depth at that moment *)
Definition lres_of (r : rres) : lres :=
  match r with
  | RFuel => LFuel
  | RStop sols e why => LStop sols (best e) (lst e) why (length (stack e))
  end.

Section EngineStack.
  Variable pick : sched.
  Variable m : mode.
  Variable interval : Z.
  Variable clock : Z -> bool.
  Variable mlimit : option Z.
  Variable giveup : list prop -> store -> bool.

  (* Engine::limit_reached, called at the head of `loop { .. }` and after a push: count the step
     and, on a multiple of the interval, check the clock and the memory estimate (which reads
     stack.len() and iteration_count) *)
  Definition loop_head (e : estate) : estate + (limit * estate) :=
    match tick interval clock mlimit (length (stack e)) (lst e) with
    | inl l' => inl (mke (cur e) (stack e) (best e) l')
    | inr (w, l') => inr (w, mke (cur e) (stack e) (best e) l')
    end.

  Inductive wstep :=
  | WFuel                                 (* model artefact: propagation fuel exhausted *)
  | WCont (e : estate)                    (* the inner `while` is evaluated again *)
  | WYield (t : store) (e : estate)
  | WLimit (w : limit) (e : estate)
  | WExhausted (e : estate).

  (* one evaluation of `while let Some(..) = self.branch_iter.next()`: either its body (which, on a
     stalled child, pushes and passes the limit test), or (the iterator is exhausted) the tail of the
     outer loop — pop — followed by the head of the next outer iteration *)
  Definition while_step (e : estate) : wstep :=
    match biter_next (cur e) with
    | (None, cur') =>
      match stack e with
      | [] => WExhausted (mke cur' [] (best e) (lst e))
      | parent :: st =>
        match loop_head (mke parent st (best e) (lst e)) with
        | inl e' => WCont e'
        | inr (w, e') => WLimit w e'
        end
      end
    | (Some (ps1, s, bid), cur') =>
      let mp := on_branch_props m (best e) in                       (* mode.on_branch(&mut space) *)
      let ps2 := ps1 ++ mp in
      let ag := agenda_with (seq (S bid) (length mp) ++ [bid]) in   (* .chain(once(p)) *)
      (* the propagation is given up at the deadline: cleanup, return None (is_timed_out() holds) *)
      if giveup ps2 s then WLimit LTimeout (mke cur' (stack e) (best e) (lst e)) else
      match propagate pick (prop_fuel ps2 s ag) ps2 s ag with
      | PFuel => WFuel
      | PFail => WCont (mke cur' (stack e) (best e) (lst e))
      | PDone s' =>
        if all_fixed s' then
          WYield s' (mke cur' (stack e) (on_solution m (best e) s') (lst e))
        else
          (* stalled: push the current iterator, branch on the new space, test the limits with the
             deeper stack, `continue` the while *)
          match loop_head (mke (split_on_unassigned ps2 s') (cur' :: stack e) (best e) (lst e)) with
          | inl e' => WCont e'
          | inr (w, e') => WLimit w e'
          end
      end
    end.

  (* the inner while loop together with the outer iterations it falls through to *)
  Fixpoint engine_while (fuel : nat) (e : estate) : eres :=
    match fuel with
    | O => EFuel
    | S f =>
      match while_step e with
      | WFuel => EFuel
      | WCont e' => engine_while f e'
      | WYield t e' => EYield t e'
      | WLimit w e' => EDone (SLimit w) e'
      | WExhausted e' => EDone SExhausted e'
      end
    end.

  (* one call of Engine::next() *)
  Definition engine_next (fuel : nat) (e : estate) : eres :=
    match loop_head e with
    | inr (w, e') => EDone (SLimit w) e'
    | inl e' => engine_while fuel e'
    end.

  (* the consumer loops of Model::minimize / enumerate_with_stats: call next() until it returns
     None, collecting what it yields (`calls` bounds the number of calls, `fuel` the loop steps
     inside each call) *)
  Fixpoint engine_run (calls fuel : nat) (e : estate) : rres :=
    match calls with
    | O => RFuel
    | S n =>
      match engine_next fuel e with
      | EFuel => RFuel
      | EYield t e' => rcons t (engine_run n fuel e')
      | EDone why e' => RStop [] e' why
      end
    end.

  (* Model::solve: a single call of next() *)
  Definition engine_first (fuel : nat) (e : estate) : rres :=
    match engine_next fuel e with
    | EFuel => RFuel
    | EYield t e' => RStop [t] e' SConsumer
    | EDone why e' => RStop [] e' why
    end.

  (* diagnostic used by the non-vacuity examples: what each evaluation of the `while` test did
     during engine_run (a failed child, a push on a stalled child, a pop, a yield) *)
  Inductive tev := TFail | TPush | TPop | TYield | TLimit | TEnd.
  Fixpoint engine_trace_while (fuel : nat) (e : estate) : list tev :=
    match fuel with
    | O => []
    | S f =>
      match while_step e with
      | WFuel => []
      | WCont e' =>
        (if (length (stack e') <? length (stack e))%nat then TPop
         else if (length (stack e) <? length (stack e'))%nat then TPush else TFail)
          :: engine_trace_while f e'
      | WYield _ e' =>
        TYield :: match loop_head e' with inl e'' => engine_trace_while f e'' | inr _ => [TLimit] end
      | WLimit _ e' =>
        [(if (length (stack e) <? length (stack e'))%nat then TPush
          else if (length (stack e') <? length (stack e))%nat then TPop else TFail); TLimit]
      | WExhausted _ => [TEnd]
      end
    end.
  Definition engine_trace (fuel : nat) (e : estate) : list tev :=
    match loop_head e with inl e' => engine_trace_while fuel e' | inr _ => [TLimit] end.

  (* enough `fuel` for one call of next() on a tree that the recursive dfs / dfs_lim explores with
     recursion fuel f (Proofs/EngineStackProofs.v): steps_bound f = 4 * (2^f - 1) *)
  Fixpoint steps_bound (f : nat) : nat :=
    match f with O => O | S f' => (2 * steps_bound f' + 4)%nat end.
  Definition engine_fuel (f : nat) : nat := S (steps_bound f).

  (* Engine::with_timeout_and_memory(space, mode, ..) on a stalled space, generalised over the
     mode state and the counters *)
  Definition engine_start (ps : list prop) (s : store) (best : option Z) (l : lstate) : estate :=
    mke (split_on_unassigned ps s) [] best l.
  Definition engine_init (ps : list prop) (s : store) : estate := engine_start ps s None (mkl 0 0).

  (* search_with_timeout_and_memory (LP block off) + the consumer: root propagation, then the
     machine; same shape as Limits.search_lim *)
  Definition engine_search (resume : bool) (calls fuel : nat) (ps : list prop) (s : store)
    : lres + option store :=
    let ag := agenda_with (seq 0 (length ps)) in
    if giveup ps s then inl (LStop [] None (mkl 0 0) (SLimit LTimeout) 0) else    (* Search::TimedOut *)
    match propagate pick (prop_fuel ps s ag) ps s ag with
    | PFuel => inl LFuel
    | PFail => inr None
    | PDone s' =>
      if all_fixed s' then inr (Some s')
      else inl (lres_of (if resume then engine_run calls fuel (engine_init ps s')
                         else engine_first fuel (engine_init ps s')))
    end.
End EngineStack.

(* the unlimited engine (no timeout, no memory limit; the interval is then irrelevant) *)
Definition engine_enumerate (pick : sched) (m : mode) (calls fuel : nat) (ps : list prop) (s : store)
  : sresult :=
  match engine_search pick m 1 never None nogiveup true calls fuel ps s with
  | inl LFuel => SFuel
  | inl (LStop sols b _ _ _) => SOk sols b
  | inr None => SOk [] None
  | inr (Some t) => SOk [t] (on_solution m None t)
  end.
