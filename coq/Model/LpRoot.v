(* The root LP step of search_with_timeout_and_memory (search/mod.rs) AFTER the repair of finding D10
   ("the LP vertex is tentative"), as an ORACLE refinement of Model/Search.v.

   What the code does: for minimize / maximize of a plain variable whose linear system is suitable, it solves an LP relaxation
   in f64, copies the variables, and fixes every LP variable OF THE COPY to the LP vertex (apply_lp_solution, through the
   Context setters only).  Then
     - no vertex (step not run, LP infeasible / error, a setter failed, or nothing changed)  ->  plain search on the root;
     - vertex-fixed copy fails its initial propagation                                        ->  plain search on the root;
     - vertex-fixed copy is a solution after propagation                                      ->  that solution (Search::Done);
     - otherwise the engine searches below the vertex with `fallback = Some(root)`; when its stack runs empty and it has not
       yielded any solution, it takes the fallback, propagates it with every propagator scheduled and goes on from there
       (Engine::next); after a first solution the fallback is dropped.

   ORACLE ASSUMPTION (the only thing assumed about the f64 simplex, to_lp_problem and apply_lp_solution): the step hands the
   engine either nothing or SOME store `s_lp`; the theorems quantify over every such answer.  Where a theorem needs more it
   says so in a hypothesis: `sub_store s_lp s /\ wf_store s_lp` (the copy was changed through the contracting setters only,
   Properties/C12.v) and, for optimality of a first-phase answer, that the claimed LP bound is a valid bound of the model which
   that answer attains.  Nothing is assumed about the LP's verdict: an "infeasible" LP is not trusted by the repaired code. *)
Require Import Selen.Model.Prelude Selen.Model.Dom Selen.Model.Views Selen.Model.PropDefs.
Require Import Selen.Model.Props.Basic Selen.Model.Propagate Selen.Model.Search.

Section EngineLp.
  Variable pick : sched.
  Variable m : mode.

  (* literal: the two root propagations and the engine with its fallback *)
  Definition search_lp (vertex : option store) (ps : list prop) (s : store) : sresult :=
    match vertex with
    | None => search pick m ps s
    | Some s_lp =>
      let ag := agenda_with (seq 0 (length ps)) in
      match propagate pick (prop_fuel ps s_lp ag) ps s_lp ag with
      | PFuel => SFuel
      | PFail => search pick m ps s                               (* vertex refuted by the initial propagation *)
      | PDone s' =>
        if all_fixed s' then SOk [s'] (on_solution m None s')     (* Search::Done(Some(space)) *)
        else
          match dfs pick m (S (total_size s')) ps s' None with
          | SFuel => SFuel
          | SOk [] _ => search pick m ps s                        (* engine.fallback.take(): nothing below the vertex *)
          | SOk sols best => SOk sols best                        (* fallback dropped at the first solution *)
          end
      end
    end.
End EngineLp.

Definition minimize_lp (pick : sched) (vertex : option store) (obj : view) (ps : list prop) (s : store) : option (option store) :=
  match search_lp pick (Some obj) vertex ps s with
  | SFuel => None
  | SOk sols _ => Some (last (map Some sols) None)
  end.
Definition maximize_lp (pick : sched) (vertex : option store) (obj : view) ps s := minimize_lp pick vertex (VOpp obj) ps s.

(* what the oracle may be asked to guarantee about its vertex *)
Definition vertex_ok (vertex : option store) (s : store) : Prop :=
  match vertex with None => True | Some s_lp => sub_store s_lp s /\ wf_store s_lp end.
