(* Literal executable model of src/variables/domain/float_interval.rs (every non-test method) and
   of src/optimization/ulp_utils.rs (ulp / next_float / prev_float), over the bit-exact binary64
   layer Model/B64.v.  Definitions only.  Constants come from Generated/Consts.v (bit patterns
   scraped from the Rust source by tools/gen_consts.py).
   A Rust panic (f64::clamp with lo > hi or NaN bounds) is modelled by `None`. *)
From Coq Require Import ZArith Bool.
From Flocq Require Import Core.Core IEEE754.BinarySingleNaN IEEE754.Binary IEEE754.Bits.
Require Import Selen.Generated.Consts Selen.Model.B64.
Open Scope Z_scope.

(* ---------------------------------------------------------------- ulp_utils.rs *)

(* UlpUtils::ulp (ulp_utils.rs:12-23) *)
Definition ulp_of (v : f64) : f64 :=
  if feq v c_zero then c_epsilon
  else if fis_inf v || fis_nan v then c_nan
  else
    let bits := to_bits v in
    let next_bits := if fgt v c_zero then bits + 1 else bits - 1 in
    fabs (fsub (of_bits next_bits) v).

(* UlpUtils::prev_float (ulp_utils.rs:26-42) *)
Definition prev_float (v : f64) : f64 :=
  if fis_inf v && fgt v c_zero then c_f64_max
  else if fis_nan v then c_nan
  else
    let bits := to_bits v in
    let prev_bits :=
      if fgt v c_zero && fne v c_zero then bits - 1
      else if feq v c_zero then ulp_prev_of_zero_bits
      else bits + 1 in
    of_bits prev_bits.

(* UlpUtils::next_float (ulp_utils.rs:45-60) *)
Definition next_float (v : f64) : f64 :=
  if fis_inf v && flt v c_zero then c_f64_min
  else if fis_nan v then c_nan
  else
    let bits := to_bits v in
    let next_bits :=
      if fgt v c_zero then bits + 1
      else if feq v c_zero then ulp_next_of_zero_bits
      else bits - 1 in
    of_bits next_bits.

(* ---------------------------------------------------------------- float_interval.rs *)

(* precision_to_step_size (float_interval.rs:6-24) *)
Definition precision_to_step_size (p : Z) : f64 :=
  of_bits (match p with
           | 1 => prec_step_1_bits | 2 => prec_step_2_bits | 3 => prec_step_3_bits
           | 4 => prec_step_4_bits | 5 => prec_step_5_bits | 6 => prec_step_6_bits
           | 7 => prec_step_7_bits | 8 => prec_step_8_bits | 9 => prec_step_9_bits
           | 10 => prec_step_10_bits | 11 => prec_step_11_bits | 12 => prec_step_12_bits
           | _ => prec_step_default_bits
           end).

Record fint : Set := mkfi { imin : f64; imax : f64; istep : f64 }.

(* FloatInterval::new (58-84).  The recursion `if min > max { return Self::new(max, min) }`
   unfolds at most once (after the swap `min > max` is false; with a NaN it is false at once). *)
Definition fi_new (mn mx : f64) : fint :=
  let '(mn, mx) := if fgt mn mx then (mx, mn) else (mn, mx) in
  let r := fsub mx mn in
  let step :=
    if fge r (of_bits fi_new_thr0_bits) then fdiv r (of_bits fi_new_div_bits)
    else if fge r (of_bits fi_new_thr1_bits) then of_bits fi_new_step1_bits
    else if fge r (of_bits fi_new_thr2_bits) then of_bits fi_new_step2_bits
    else if fge r (of_bits fi_new_thr3_bits) then of_bits fi_new_step3_bits
    else if fge r (of_bits fi_new_thr4_bits) then of_bits fi_new_step4_bits
    else if fge r (of_bits fi_new_thr5_bits) then of_bits fi_new_step5_bits
    else of_bits fi_new_step6_bits in
  mkfi mn mx step.

(* with_step (87-93), with_step_unchecked (97-99) *)
Definition fi_with_step (mn mx st : f64) : fint :=
  if fgt mn mx then mkfi mx mn st else mkfi mn mx st.
Definition fi_with_step_unchecked (mn mx st : f64) : fint := mkfi mn mx st.

(* next (102-123) *)
Definition fi_next (i : fint) (v : f64) : f64 :=
  let u := ulp_of v in
  if flt (istep i) u then
    let n := next_float v in
    if fgt n (imax i) then imax i else n
  else
    let nv := fadd v (istep i) in
    if fgt nv (imax i) then imax i else nv.

(* prev (126-147) *)
Definition fi_prev (i : fint) (v : f64) : f64 :=
  let u := ulp_of v in
  if flt (istep i) u then
    let p := prev_float v in
    if flt p (imin i) then imin i else p
  else
    let pv := fsub v (istep i) in
    if flt pv (imin i) then imin i else pv.

(* contains (150-153) *)
Definition fi_tol (i : fint) : f64 := fdiv (istep i) (of_bits fi_tol_div_bits).
Definition fi_contains (i : fint) (v : f64) : bool :=
  let t := fi_tol i in
  fge v (fsub (imin i) t) && fle v (fadd (imax i) t).

(* is_empty (156-158) *)
Definition fi_is_empty (i : fint) : bool := fgt (imin i) (imax i).

(* size (166-172) *)
Definition fi_size (i : fint) : f64 :=
  if fi_is_empty i then c_zero else fsub (imax i) (imin i).

(* step_count (175-182): `as usize` saturates, NaN -> 0 *)
Definition fi_step_count (i : fint) : Z :=
  if fi_is_empty i then 0
  else to_usize (fround (fdiv (fsub (imax i) (imin i)) (istep i))).

(* is_fixed (161-163) *)
Definition fi_is_fixed (i : fint) : bool := fi_step_count i <=? 1.

(* round_to_step / floor_to_step / ceil_to_step (185-203); None = clamp panicked *)
Definition fi_to_step (rnd : f64 -> f64) (i : fint) (v : f64) : option f64 :=
  let steps := rnd (fdiv (fsub v (imin i)) (istep i)) in
  let rounded := fadd (imin i) (fmul steps (istep i)) in
  fclamp rounded (imin i) (imax i).
Definition fi_round_to_step := fi_to_step fround.
Definition fi_floor_to_step := fi_to_step ffloor.
Definition fi_ceil_to_step  := fi_to_step fceil.

(* intersect (206-212), intersects (215-217) *)
Definition fi_intersect (a b : fint) : fint :=
  mkfi (fmaxr (imin a) (imin b)) (fminr (imax a) (imax b)) (fminr (istep a) (istep b)).
Definition fi_intersects (a b : fint) : bool :=
  fle (imin a) (imax b) && fge (imax a) (imin b).

(* assign (220-224) *)
Definition fi_assign (i : fint) (v : f64) : option fint :=
  match fi_round_to_step i v with
  | Some r => Some (mkfi r r (istep i))
  | None => None
  end.

Definition fi_make_empty (i : fint) : fint :=
  mkfi (imin i) (fsub (imin i) (of_bits fi_empty_sub_bits)) (istep i).

(* remove_below (227-241) *)
Definition fi_remove_below (i : fint) (th : f64) : option fint :=
  let t := fi_tol i in
  if fgt th (fadd (imax i) t) then Some (fi_make_empty i)
  else if fgt th (fadd (imin i) t) then
    match fi_ceil_to_step i th with
    | None => None
    | Some m =>
      let i1 := mkfi m (imax i) (istep i) in
      if fgt m (fadd (imax i) t) then Some (fi_make_empty i1) else Some i1
    end
  else Some i.

(* remove_above (244-258) *)
Definition fi_remove_above (i : fint) (th : f64) : option fint :=
  let t := fi_tol i in
  if flt th (fsub (imin i) t) then Some (fi_make_empty i)
  else if flt th (fsub (imax i) t) then
    match fi_floor_to_step i th with
    | None => None
    | Some m =>
      let i1 := mkfi (imin i) m (istep i) in
      if flt m (fsub (imin i) t) then Some (fi_make_empty i1) else Some i1
    end
  else Some i.

(* mid (float_interval.rs, `pub fn mid`).  After the repair "float bisection always makes progress": the midpoint rounded
   to the step grid is used only if it lies more than step/2 away from BOTH bounds (otherwise `x <= mid` or `x >= mid`
   would be absorbed by the tolerance of try_set_max / try_set_min); else the exact midpoint, clamped into the interval.
   fi_mid_prefix is the code before the repair (kept for the refutation lemma bisect_stall_prefix_refuted). *)
Definition fi_rough_mid (i : fint) : f64 :=
  if fis_inf (imin i) && fis_inf (imax i) then c_zero
  else if fis_inf (imin i) then fsub (imax i) (of_bits fi_mid_one_bits)
  else if fis_inf (imax i) then fadd (imin i) (of_bits fi_mid_one_bits)
  else fadd (imin i) (fdiv (fsub (imax i) (imin i)) (of_bits fi_mid_div_bits)).
Definition fi_mid_prefix (i : fint) : option f64 :=
  if fi_is_empty i then Some (imin i)
  else if fi_is_fixed i then Some (imin i)
  else fi_round_to_step i (fi_rough_mid i).
(* the test `mid > min + step/2 && mid < max - step/2` *)
Definition fi_split_ok (i : fint) (m : f64) : bool :=
  fgt m (fadd (imin i) (fi_tol i)) && flt m (fsub (imax i) (fi_tol i)).
Definition fi_mid (i : fint) : option f64 :=
  if fi_is_empty i then Some (imin i)
  else if fi_is_fixed i then Some (imin i)
  else
    match fi_round_to_step i (fi_rough_mid i) with
    | None => None
    | Some m => if fi_split_ok i m then Some m else fclamp (fi_rough_mid i) (imin i) (imax i)
    end.

(* save_state / restore_state (305-317): step is never restored *)
Definition fi_save (i : fint) : f64 * f64 := (imin i, imax i).
Definition fi_restore (i : fint) (s : f64 * f64) : fint := mkfi (fst s) (snd s) (istep i).
