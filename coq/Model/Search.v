(* search/branch.rs (split_on_unassigned), search/mode.rs (Enumerate, Minimize) and the
   depth-first engine of search/mod.rs:589-672, written as a recursive function that threads
   the mode state (the best objective so far) through the tree in the engine's visiting order.
   The root LP step (search/mod.rs:96-228) is not part of this model. *)
Require Import Selen.Model.Prelude Selen.Model.Dom Selen.Model.Views Selen.Model.PropDefs.
Require Import Selen.Model.Props.Basic Selen.Model.Propagate.

(* Vars::get_unassigned_var: first variable (by index) whose domain is not a singleton *)
Fixpoint first_unassigned (s : store) (i : nat) : option nat :=
  match s with
  | [] => None
  | d :: r => if dfixed d then first_unassigned r (S i) else Some i
  end.

(* Var::mid for integer variables: min + (max - min) / 2, truncating on a non-negative difference *)
Definition dmid (d : dom) : Z :=
  if dempty d then 0
  else if dmin d =? dmax d then dmin d
  else dmin d + tdiv (dmax d - dmin d) 2.

(* Mode: None = Enumerate; Some obj = Minimize{objective view}; state = minimum_opt *)
Definition mode := option view.
Definition on_branch_props (m : mode) (best : option Z) : list prop :=
  match m, best with
  | Some obj, Some b => [mk_lt obj (VConst b)]     (* space.props.less_than(objective, minimum) *)
  | _, _ => []
  end.
Definition on_solution (m : mode) (best : option Z) (s : store) : option Z :=
  match m with
  | Some obj => Some (vmin obj s)                  (* objective.min_raw(vars) *)
  | None => best
  end.

Inductive sresult := SFuel | SOk (sols : list store) (best : option Z).

(* One child of a split: `branchp` was pushed by the branch iterator (PropId = length ps), then
   the mode pushes its propagators; agenda = mode propagators followed by the branch one. *)
Section Engine.
  Variable pick : sched.
  Variable m : mode.

  Fixpoint dfs (fuel : nat) (ps : list prop) (s : store) (best : option Z) : sresult :=
    match fuel with
    | O => SFuel
    | S f =>
      match first_unassigned s 0 with
      | None => SOk [] best     (* unreachable: dfs is only called on stalled spaces *)
      | Some pivot =>
        let mid := dmid (sget s pivot) in
        let child (branchp : prop) (best : option Z) : sresult :=
          let ps1 := ps ++ [branchp] in
          let bid := length ps in
          let mp := on_branch_props m best in
          let ps2 := ps1 ++ mp in
          let ag := agenda_with (seq (S bid) (length mp) ++ [bid]) in
          match propagate pick (prop_fuel ps2 s ag) ps2 s ag with
          | PFuel => SFuel
          | PFail => SOk [] best
          | PDone s' =>
            if all_fixed s' then SOk [s'] (on_solution m best s')
            else dfs f ps2 s' best
          end in
        match child (mk_leq (VVar pivot) (VConst mid)) best with
        | SFuel => SFuel
        | SOk sols1 best1 =>
          match child (mk_gt (VVar pivot) (VConst mid)) best1 with
          | SFuel => SFuel
          | SOk sols2 best2 => SOk (sols1 ++ sols2) best2
          end
        end
      end
    end.

  (* search_with_timeout_and_memory without the LP block: initial propagation of every
     propagator, then the engine *)
  Definition search (ps : list prop) (s : store) : sresult :=
    let ag := agenda_with (seq 0 (length ps)) in
    match propagate pick (prop_fuel ps s ag) ps s ag with
    | PFuel => SFuel
    | PFail => SOk [] None
    | PDone s' =>
      if all_fixed s' then SOk [s'] (on_solution m None s')
      else dfs (S (total_size s')) ps s' None
    end.
End Engine.

Definition enumerate (pick : sched) (ps : list prop) (s : store) : sresult := search pick None ps s.
(* Model::minimize keeps the last solution the iterator yields; maximize x = minimize (opposite x) *)
Definition minimize (pick : sched) (obj : view) (ps : list prop) (s : store) : option (option store) :=
  match search pick (Some obj) ps s with
  | SFuel => None
  | SOk sols _ => Some (last (map Some sols) None)
  end.
Definition maximize (pick : sched) (obj : view) ps s := minimize pick (VOpp obj) ps s.
Definition solve (pick : sched) (ps : list prop) (s : store) : option (option store) :=
  match enumerate pick ps s with
  | SFuel => None
  | SOk sols _ => Some (hd_error sols)
  end.
