(* Propagators as records (shallow embedding): the pruning function, the documented meaning
   and the trigger variables (Prune::prune, list_trigger_vars).  The search engine is generic in
   these records; every concrete propagator is a constructor function mk_* in Model/Props/*.v. *)
Require Import Selen.Model.Prelude Selen.Model.Dom Selen.Model.Views.

Record prop := mkprop {
  prune : ctx -> option ctx;   (* None = the space fails *)
  sat : asg -> bool;           (* documented arithmetic / logical meaning *)
  trig : list nat }.           (* list_trigger_vars, in registration order *)

(* ---- the four local contracts (DESIGN.md section 6) ---- *)

(* only shrinks; every changed variable is reported as an event; only trigger variables are
   written; an event is reported only when some value was actually removed *)
Definition contracting (p : prop) : Prop :=
  forall s ev s' ev', wf_store s -> prune p (s, ev) = Some (s', ev') ->
    sub_store s' s /\ wf_store s' /\
    exists evn, ev' = ev ++ evn /\
      (forall v, sget s' v <> sget s v -> In v evn) /\
      (forall v, In v evn -> In v (trig p)) /\
      (evn <> [] -> (total_size s' < total_size s)%nat).

(* all trigger variables exist in the store *)
Definition in_scope (p : prop) (n : nat) : Prop := forall v, In v (trig p) -> (v < n)%nat.

(* never removes a value used by a satisfying assignment inside the domains; hence fails only
   when no such assignment exists *)
Definition sound (p : prop) : Prop :=
  forall s ev a, wf_store s -> in_scope p (length s) -> inst a s -> sat p a = true ->
    exists s' ev', prune p (s, ev) = Some (s', ev') /\ inst a s'.

(* when every trigger variable is fixed, success implies the constraint holds *)
Definition checking (p : prop) : Prop :=
  forall s ev a, wf_store s -> inst a s ->
    (forall v, In v (trig p) -> dfixed (sget s v) = true) ->
    prune p (s, ev) <> None -> sat p a = true.

(* reads only trigger variables: stores that agree on them give agreeing results *)
Definition agree_on (l : list nat) (s1 s2 : store) : Prop := forall v, In v l -> sget s1 v = sget s2 v.
Definition frame (p : prop) : Prop :=
  (forall s1 s2 ev, length s1 = length s2 -> agree_on (trig p) s1 s2 ->
     match prune p (s1, ev), prune p (s2, ev) with
     | Some (s1', e1), Some (s2', e2) => e1 = e2 /\ agree_on (trig p) s1' s2'
     | None, None => True
     | _, _ => False
     end) /\
  (forall a1 a2, (forall v, In v (trig p) -> a1 v = a2 v) -> sat p a1 = sat p a2).

Definition good (p : prop) : Prop := contracting p /\ sound p /\ checking p /\ frame p.
