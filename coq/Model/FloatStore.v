(* Mixed integer / float variable store and the parts of src/variables/{core,views}.rs that float and
   mixed models use, over the bit-exact binary64 layer (Model/B64.v) and the interval model
   (Model/FloatInterval.v, Model/CtxFloat.v).  Definitions only.

   Modelled literally:
     Var  = VarI(SparseSet) | VarF(FloatInterval)            -> fvar  (SparseSet read as its sorted value list, C11)
     Val  = ValI(i32) | ValF(f64), PartialEq / PartialOrd     -> fval, val_eq / val_lt / val_le ... (core.rs:199-221)
     Context::try_set_min / try_set_max, all four (Var,Val) combinations (views.rs:185-497) -> xset_min / xset_max
     views  Val, VarId, Opposite<V>, Next<V>, Prev<V>  with float bounds (views.rs:517-563, 631-800): min/max, result_type,
            try_set_min / try_set_max -> fview, fv_min ... fv_set_max
     Var::is_assigned, Var::mid, Var::get_assignment (core.rs:366-430)
   NOT modelled here: Plus / TimesPos views with float operands (not produced by the constructs
   of Model/FloatProps.v and Model/FloatSearch.v), i32 overflow (Z is unbounded; `as f64` is exact on i32). *)
From Coq Require Import ZArith Bool List.
Import ListNotations.
From Flocq Require Import Core.Core IEEE754.BinarySingleNaN IEEE754.Binary IEEE754.Bits.
Require Import Selen.Generated.Consts Selen.Model.Prelude Selen.Model.Dom.
Require Import Selen.Model.B64 Selen.Model.FloatInterval Selen.Model.CtxFloat.
Open Scope Z_scope.

Inductive fvar : Set := VI (d : dom) | VF (i : fint).
Inductive fval : Set := VlI (z : Z) | VlF (x : f64).

Definition fstore := list fvar.
Definition fget (s : fstore) (v : nat) : fvar := nth v s (VI []).
Fixpoint fupd (s : fstore) (v : nat) (x : fvar) : fstore :=
  match s, v with
  | [], _ => []
  | _ :: r, O => x :: r
  | y :: r, S k => y :: fupd r k x
  end.
(* Context{vars, events} *)
Definition fctx := (fstore * list nat)%type.

(* `i as f64` / the coercions of impl PartialOrd for Val *)
Definition as_f (b : fval) : f64 := match b with VlI z => f64_of_Z z | VlF x => x end.

(* impl PartialEq / PartialOrd for Val (core.rs:199-221): int-int exact, otherwise through f64;
   every comparison with a NaN is false *)
Definition val_eq (a b : fval) : bool :=
  match a, b with VlI x, VlI y => x =? y | _, _ => feq (as_f a) (as_f b) end.
Definition val_lt (a b : fval) : bool :=
  match a, b with VlI x, VlI y => x <? y | _, _ => flt (as_f a) (as_f b) end.
Definition val_le (a b : fval) : bool :=
  match a, b with VlI x, VlI y => x <=? y | _, _ => fle (as_f a) (as_f b) end.
Definition val_gt (a b : fval) : bool := val_lt b a.
Definition val_ge (a b : fval) : bool := val_le b a.

(* VarId::min_raw / max_raw (views.rs:541-555) *)
Definition var_min (x : fvar) : fval := match x with VI d => VlI (dmin d) | VF i => VlF (imin i) end.
Definition var_max (x : fvar) : fval := match x with VI d => VlI (dmax d) | VF i => VlF (imax i) end.
Definition var_is_float (x : fvar) : bool := match x with VF _ => true | VI _ => false end.

(* integer variable: the (VarI, ValI) logic of try_set_min / try_set_max on one domain
   (same text as Dom.cset_min / cset_max).  Some (d', event) *)
Definition dset_min (d : dom) (b : Z) : option (dom * bool) :=
  if dempty d then None
  else if dmax d <? b then None
  else if dmin d <? b then
    let d' := dbelow b d in if dempty d' then None else Some (d', true)
  else Some (d, false).
Definition dset_max (d : dom) (b : Z) : option (dom * bool) :=
  if dempty d then None
  else if b <? dmin d then None
  else if b <? dmax d then
    let d' := dabove b d in if dempty d' then None else Some (d', true)
  else Some (d, false).

(* Context::try_set_min / try_set_max: the four (Var, Val) branches *)
Definition var_set_min (x : fvar) (b : fval) : option (fvar * bool) :=
  match x, b with
  | VI d, VlI z => match dset_min d z with Some (d', e) => Some (VI d', e) | None => None end
  | VI d, VlF f => match dset_min d (ceil_as_i32 f) with Some (d', e) => Some (VI d', e) | None => None end
  | VF i, VlF f => match tsmin_ff i f with Some (i', e) => Some (VF i', e) | None => None end
  | VF i, VlI z => match tsmin_fi i z with Some (i', e) => Some (VF i', e) | None => None end
  end.
Definition var_set_max (x : fvar) (b : fval) : option (fvar * bool) :=
  match x, b with
  | VI d, VlI z => match dset_max d z with Some (d', e) => Some (VI d', e) | None => None end
  | VI d, VlF f => match dset_max d (floor_as_i32 f) with Some (d', e) => Some (VI d', e) | None => None end
  | VF i, VlF f => match tsmax_ff i f with Some (i', e) => Some (VF i', e) | None => None end
  | VF i, VlI z => match tsmax_fi i z with Some (i', e) => Some (VF i', e) | None => None end
  end.
Definition xset_min (v : nat) (b : fval) (c : fctx) : option fctx :=
  match var_set_min (fget (fst c) v) b with
  | None => None
  | Some (x', e) => Some (fupd (fst c) v x', if e then snd c ++ [v] else snd c)
  end.
Definition xset_max (v : nat) (b : fval) (c : fctx) : option fctx :=
  match var_set_max (fget (fst c) v) b with
  | None => None
  | Some (x', e) => Some (fupd (fst c) v x', if e then snd c ++ [v] else snd c)
  end.

(* ---------------------------------------------------------------- views *)
Inductive fview : Set :=
| FVar (v : nat)
| FConst (c : fval)
| FOpp (w : fview)
| FNext (w : fview)
| FPrev (w : fview).

Fixpoint fv_under (w : fview) : option nat :=
  match w with FVar v => Some v | FConst _ => None | FOpp u => fv_under u | FNext u => fv_under u | FPrev u => fv_under u end.

Definition val_neg (b : fval) : fval := match b with VlI z => VlI (- z) | VlF x => VlF (fneg x) end.

(* the FloatInterval of the underlying variable, if the view has one and it is a float variable *)
Definition under_interval (w : fview) (s : fstore) : option fint :=
  match fv_under w with
  | Some v => match fget s v with VF i => Some i | VI _ => None end
  | None => None
  end.

(* Next::min_raw / max_raw (views.rs:631-668): interval.next on a float bound of a float VARIABLE,
   i+1 on an int bound, a float bound without interval information is returned UNCHANGED *)
Definition next_bound (w : fview) (s : fstore) (b : fval) : fval :=
  match under_interval w s, b with
  | Some i, VlF f => VlF (fi_next i f)
  | _, VlI z => VlI (z + 1)
  | _, VlF _ => b
  end.

(* Prev::min_raw / max_raw (views.rs): interval.prev on a float bound of a float VARIABLE, i-1 on an int bound, a float
   bound without interval information is returned unchanged *)
Definition prev_bound (w : fview) (s : fstore) (b : fval) : fval :=
  match under_interval w s, b with
  | Some i, VlF f => VlF (fi_prev i f)
  | _, VlI z => VlI (z - 1)
  | _, VlF _ => b
  end.

Fixpoint fv_min (w : fview) (s : fstore) : fval :=
  match w with
  | FVar v => var_min (fget s v)
  | FConst c => c
  | FOpp u => val_neg (fv_max u s)
  | FNext u => next_bound u s (fv_min u s)
  | FPrev u => prev_bound u s (fv_min u s)
  end
with fv_max (w : fview) (s : fstore) : fval :=
  match w with
  | FVar v => var_max (fget s v)
  | FConst c => c
  | FOpp u => val_neg (fv_min u s)
  | FNext u => next_bound u s (fv_max u s)
  | FPrev u => prev_bound u s (fv_max u s)
  end.

(* result_type: true = ViewType::Float *)
Fixpoint fv_is_float (w : fview) (s : fstore) : bool :=
  match w with
  | FVar v => var_is_float (fget s v)
  | FConst (VlF _) => true
  | FConst (VlI _) => false
  | FOpp u => fv_is_float u s
  | FNext u => fv_is_float u s
  | FPrev u => fv_is_float u s
  end.

(* Next::try_set_min / try_set_max (views.rs:676-760): both compute the target with interval.PREV *)
Definition next_target (u : fview) (s : fstore) (b : fval) : fval :=
  match b, fv_is_float u s with
  | VlI m, true =>
    match under_interval u s with
    | Some i => VlF (fi_prev i (f64_of_Z m))
    | None => VlF (f64_of_Z m)
    end
  | VlF f, _ =>
    match under_interval u s with
    | Some i => VlF (fi_prev i f)
    | None => b
    end
  | VlI m, false => VlI (m - 1)
  end.

(* Prev::try_set_min / try_set_max (views.rs): both compute the target with interval.NEXT; after the repair "strict comparison
   of an integer view with a float variable" an INTEGER bound on a float variable becomes interval.next(i as f64) (it was i+1) *)
Definition prev_target (u : fview) (s : fstore) (b : fval) : fval :=
  match b with
  | VlF f => match under_interval u s with Some i => VlF (fi_next i f) | None => b end
  | VlI m => match under_interval u s with Some i => VlF (fi_next i (f64_of_Z m)) | None => VlI (m + 1) end
  end.

Fixpoint fv_set_min (w : fview) (b : fval) (c : fctx) : option fctx :=
  match w with
  | FVar v => xset_min v b c
  | FConst k => if val_le b k then Some c else None          (* Val::try_set_min: min <= self *)
  | FOpp u => fv_set_max u (val_neg b) c
  | FNext u => fv_set_min u (next_target u (fst c) b) c
  | FPrev u => fv_set_min u (prev_target u (fst c) b) c
  end
with fv_set_max (w : fview) (b : fval) (c : fctx) : option fctx :=
  match w with
  | FVar v => xset_max v b c
  | FConst k => if val_ge b k then Some c else None          (* Val::try_set_max: max >= self *)
  | FOpp u => fv_set_min u (val_neg b) c
  | FNext u => fv_set_max u (next_target u (fst c) b) c
  | FPrev u => fv_set_max u (prev_target u (fst c) b) c
  end.

(* ---------------------------------------------------------------- assignment *)
(* Var::is_assigned: FloatInterval::is_fixed (step_count <= 1) / SparseSet::is_fixed *)
Definition var_assigned (x : fvar) : bool := match x with VI d => dfixed d | VF i => fi_is_fixed i end.
Definition fall_assigned (s : fstore) : bool := forallb var_assigned s.
Fixpoint ffirst_unassigned (s : fstore) (k : nat) : option nat :=
  match s with
  | [] => None
  | x :: r => if var_assigned x then ffirst_unassigned r (S k) else Some k
  end.
(* Var::get_assignment: interval.min for floats *)
Definition var_value (x : fvar) : fval := var_min x.
(* Var::mid (core.rs:378-410); None = FloatInterval::mid panicked (clamp with min > max) *)
Definition var_mid (x : fvar) : option fval :=
  match x with
  | VF i => match fi_mid i with Some m => Some (VlF m) | None => None end
  | VI d =>
    Some (VlI (if dempty d then 0
               else if dmin d =? dmax d then dmin d
               else dmin d + tdiv (dmax d - dmin d) 2))
  end.
