(* Executable model of src/variables/domain/sparse_set.rs (struct SparseSet, lines 55-562).
   One Gallina function per Rust method, same order of reads and writes.  The two u32 vectors
   `ind` and `val` are total functions nat -> nat updated by override; every index the Rust code
   uses is < n for states satisfying the invariant (Proofs/SparseSetProofs.v), so the value of
   the functions outside [0,n) is never observed.  i32/u32 are modelled by unbounded Z/nat
   (overflow is a C17 matter, see Model/Checked.v). *)
Require Import Selen.Model.Prelude.

Definition ov (f : nat -> nat) (k v : nat) : nat -> nat :=
  fun x => if Nat.eqb x k then v else f x.

Record sset := mkss {
  off : Z;          (* the domain offset (fixed) *)
  n : nat;          (* total number of values in the universe *)
  smin : nat;       (* current minimum (internal, shifted) *)
  smax : nat;       (* current maximum (internal, shifted) *)
  size : nat;
  ind : nat -> nat;
  val : nat -> nat }.

Definition upd_size (s : sset) (k : nat) := mkss (off s) (n s) (smin s) (smax s) k (ind s) (val s).
Definition upd_min (s : sset) (k : nat) := mkss (off s) (n s) k (smax s) (size s) (ind s) (val s).
Definition upd_max (s : sset) (k : nat) := mkss (off s) (n s) (smin s) k (size s) (ind s) (val s).

(* SparseSet::new — swaps reversed bounds *)
Definition ss_new (lo hi : Z) : sset :=
  let lo' := if hi <? lo then hi else lo in
  let hi' := if hi <? lo then lo else hi in
  let maxmin := Z.to_nat (hi' - lo') in
  mkss lo' (S maxmin) 0 maxmin (S maxmin) (fun i => i) (fun i => i).

Definition ss_empty (o : Z) : sset := mkss o 0 0 0 0 (fun i => i) (fun i => i).

(* SparseSet::new_unchecked *)
Definition ss_new_unchecked (lo hi : Z) : sset :=
  if hi <? lo then ss_empty lo else ss_new lo hi.

Definition ss_is_empty (s : sset) : bool := Nat.eqb (size s) 0.
Definition ss_is_fixed (s : sset) : bool := Nat.eqb (size s) 1.
(* min()/max(): Rust debug_asserts non-emptiness; callers must guard *)
Definition ss_min (s : sset) : Z := Z.of_nat (smin s) + off s.
Definition ss_max (s : sset) : Z := Z.of_nat (smax s) + off s.

Definition contains_intl (s : sset) (v : nat) : bool :=
  if Nat.leb (n s) v then false else Nat.ltb (ind s v) (size s).
Definition ss_contains (s : sset) (x : Z) : bool :=
  if x <? off s then false else contains_intl s (Z.to_nat (x - off s)).

Definition exchange (s : sset) (v1 v2 : nat) : sset :=
  let i1 := ind s v1 in
  let i2 := ind s v2 in
  mkss (off s) (n s) (smin s) (smax s) (size s)
       (ov (ov (ind s) v1 i2) v2 i1)
       (ov (ov (val s) i1 v2) i2 v1).

(* (self.min..val).rev() first contained *)
Definition update_max_val_removed (s : sset) (v : nat) : sset :=
  if negb (ss_is_empty s) && Nat.eqb (smax s) v then
    match find (contains_intl s) (rev (seq (smin s) (v - smin s))) with
    | Some w => upd_max s w
    | None => s
    end
  else s.

(* (val+1 .. self.max+1) first contained *)
Definition update_min_val_removed (s : sset) (v : nat) : sset :=
  if negb (ss_is_empty s) && Nat.eqb (smin s) v then
    match find (contains_intl s) (seq (S v) (S (smax s) - S v)) with
    | Some w => upd_min s w
    | None => s
    end
  else s.

Definition update_bounds_val_removed (s : sset) (v : nat) : sset :=
  update_min_val_removed (update_max_val_removed s v) v.

Definition ss_remove (s : sset) (x : Z) : sset * bool :=
  if negb (ss_contains s x) then (s, false)
  else
    let v := Z.to_nat (x - off s) in
    let s1 := exchange s v (val s (size s - 1)) in
    let s2 := upd_size s1 (size s1 - 1) in
    (update_bounds_val_removed s2 v, true).

Definition ss_rm (s : sset) (x : Z) : sset := fst (ss_remove s x).

Definition ss_remove_all (s : sset) : sset := upd_size s 0.

Definition ss_remove_all_but (s : sset) (x : Z) : sset :=
  if negb (ss_contains s x) then ss_remove_all s
  else
    let v := Z.to_nat (x - off s) in
    let val0 := val s 0%nat in
    let index := ind s v in
    let ind1 := ov (ind s) v 0%nat in
    let val1 := ov (val s) 0%nat v in
    let ind2 := ov ind1 val0 index in
    let val2 := ov val1 index val0 in
    mkss (off s) (n s) v v 1 ind2 val2.

Definition ss_remove_below (s : sset) (x : Z) : sset :=
  if ss_is_empty s then s
  else if ss_max s <? x then ss_remove_all s
  else fold_left ss_rm (zrange (ss_min s) x) s.

Definition ss_remove_above (s : sset) (x : Z) : sset :=
  if ss_is_empty s then s
  else if x <? ss_min s then ss_remove_all s
  else fold_left ss_rm (zrange (x + 1) (ss_max s + 1)) s.

Definition ext (s : sset) (i : nat) : Z := Z.of_nat (val s i) + off s.
Definition ss_iter (s : sset) : list Z := map (ext s) (seq 0 (size s)).
Definition ss_complement_iter (s : sset) : list Z := map (ext s) (seq (size s) (n s - size s)).
Definition ss_first (s : sset) : option Z := if ss_is_empty s then None else Some (ext s 0%nat).
Definition ss_last (s : sset) : option Z := if ss_is_empty s then None else Some (ext s (size s - 1)%nat).
Definition ss_complement_size (s : sset) : nat := (n s - size s)%nat.
Definition ss_universe_min (s : sset) : Z := off s.
Definition ss_universe_max (s : sset) : Z := off s + Z.of_nat (n s) - 1.

(* SparseSet::new_from_values *)
Definition ss_new_from_values (l : list Z) : sset :=
  match l with
  | [] => ss_empty 0
  | x :: r =>
    let lo := list_min x r in
    let hi := list_max x r in
    fold_left ss_rm (filter (fun i => negb (memZ i l)) (zrange lo (hi + 1))) (ss_new lo hi)
  end.

Definition ss_intersect_with (s o : sset) : sset :=
  fold_left ss_rm (filter (fun x => negb (ss_contains o x)) (ss_iter s)) s.

Definition ss_diff_with (s o : sset) : sset :=
  fold_left ss_rm (filter (fun x => ss_contains o x) (ss_iter s)) s.

Definition union1 (s : sset) (x : Z) : sset :=
  if ss_contains s x then s
  else if (off s <=? x) && (x <? off s + Z.of_nat (n s)) then
    let vi := Z.to_nat (x - off s) in
    if contains_intl s vi then s
    else
      let s1 := exchange s vi (val s (size s)) in
      let s2 := upd_size s1 (S (size s1)) in
      if Nat.eqb (size s2) 1 then upd_max (upd_min s2 vi) vi
      else
        let s3 := if Nat.ltb vi (smin s2) then upd_min s2 vi else s2 in
        if Nat.ltb (smax s3) vi then upd_max s3 vi else s3
  else s.

Definition ss_union_with (s o : sset) : sset := fold_left union1 (ss_iter o) s.

Definition ss_is_subset_of (s o : sset) : bool := forallb (ss_contains o) (ss_iter s).
Definition ss_equals (s o : sset) : bool := Nat.eqb (size s) (size o) && forallb (ss_contains o) (ss_iter s).

(* Backtracking support *)
Record ssstate := mkst { st_size : nat; st_min : nat; st_max : nat }.
Definition ss_save (s : sset) : ssstate := mkst (size s) (smin s) (smax s).
Definition ss_restore (s : sset) (t : ssstate) : sset :=
  mkss (off s) (n s) (st_min t) (st_max t) (st_size t) (ind s) (val s).
Definition ss_restore_size (s : sset) (k : nat) : sset := upd_size s k.

(* ------------------------------------------------------------------------------------------ *)
(* Operation histories: the vocabulary of property C11.  The harness (Rust) and the driver
   (OCaml, extracted from this file) interpret the same op lists. *)
Inductive ssop :=
| ORemove (x : Z)
| ORemoveAll
| OOnly (x : Z)           (* remove_all_but *)
| OBelow (x : Z)
| OAbove (x : Z)
| OInter (l : list Z)     (* other = new_from_values l *)
| OUnion (l : list Z)
| ODiff (l : list Z)
| OSave
| ORestore (k : nat).     (* restore snapshot k (0 = oldest) and drop the snapshots taken after it *)

Definition cstate := (sset * list ssstate)%type.

Definition firstn_keep {A} (k : nat) (l : list A) : list A := firstn (S k) l.

Definition ss_step (c : cstate) (o : ssop) : cstate :=
  let (s, snaps) := c in
  match o with
  | ORemove x => (ss_rm s x, snaps)
  | ORemoveAll => (ss_remove_all s, snaps)
  | OOnly x => (ss_remove_all_but s x, snaps)
  | OBelow x => (ss_remove_below s x, snaps)
  | OAbove x => (ss_remove_above s x, snaps)
  | OInter l => (ss_intersect_with s (ss_new_from_values l), snaps)
  | OUnion l => (ss_union_with s (ss_new_from_values l), snaps)
  | ODiff l => (ss_diff_with s (ss_new_from_values l), snaps)
  | OSave => (s, snaps ++ [ss_save s])
  | ORestore k =>
    match nth_error snaps k with
    | Some t => (ss_restore s t, firstn_keep k snaps)
    | None => c
    end
  end.

Definition ss_run (ops : list ssop) (c : cstate) : cstate := fold_left ss_step ops c.
