(* Views (src/variables/views.rs:618-1264), integer fragment: every scale/offset/bound is ValI. *)
Require Import Selen.Model.Prelude Selen.Model.Dom.

Inductive view :=
| VVar (v : nat)
| VConst (c : Z)                 (* impl View for Val; also Times::ZeroI (behaves as ValI 0) *)
| VOpp (w : view)
| VPlus (w : view) (c : Z)
| VTimesPos (w : view) (k : Z)   (* k > 0 when built through vtimes *)
| VNext (w : view)
| VPrev (w : view).

(* Times::new sign dispatch; times_neg; minus *)
Definition vtimes (w : view) (k : Z) : view :=
  if k <? 0 then VTimesPos (VOpp w) (- k) else if k =? 0 then VConst 0 else VTimesPos w k.
Definition vtimes_neg (w : view) (k : Z) : view := VTimesPos (VOpp w) (- k).
Definition vminus (w : view) (c : Z) : view := VPlus w (- c).

Fixpoint uvar (w : view) : option nat :=
  match w with
  | VVar v => Some v
  | VConst _ => None
  | VOpp w' | VPlus w' _ | VTimesPos w' _ | VNext w' | VPrev w' => uvar w'
  end.
Definition uvarl (w : view) : list nat := match uvar w with Some v => [v] | None => [] end.

(* min_raw / max_raw: mx = true for the maximum *)
Fixpoint vbnd (w : view) (mx : bool) (s : store) : Z :=
  match w with
  | VVar v => if mx then dmax (sget s v) else dmin (sget s v)
  | VConst c => c
  | VOpp w' => - vbnd w' (negb mx) s
  | VPlus w' c => vbnd w' mx s + c
  | VTimesPos w' k => vbnd w' mx s * k
  | VNext w' => vbnd w' mx s + 1
  | VPrev w' => vbnd w' mx s - 1
  end.
Definition vmin (w : view) (s : store) : Z := vbnd w false s.
Definition vmax (w : view) (s : store) : Z := vbnd w true s.

(* try_set_min / try_set_max (mx = true for try_set_max).
   TimesPos: ceiling division for the minimum, floor division for the maximum
   (div_euclid + remainder test, views.rs TimesPos::try_set_min/max after fix 1749b6d). *)
Fixpoint vset (w : view) (mx : bool) (b : Z) (c : ctx) : option ctx :=
  match w with
  | VVar v => if mx then cset_max v b c else cset_min v b c
  | VConst k => if mx then (if k <=? b then Some c else None)
                else (if b <=? k then Some c else None)
  | VOpp w' => vset w' (negb mx) (- b) c
  | VPlus w' k => vset w' mx (b - k) c
  | VTimesPos w' k =>
      if mx then vset w' true (ediv b k) c
      else vset w' false (ediv b k + (if erem b k =? 0 then 0 else 1)) c
  | VNext w' => vset w' mx (b - 1) c
  | VPrev w' => vset w' mx (b + 1) c
  end.
Definition vset_min (w : view) (b : Z) (c : ctx) := vset w false b c.
Definition vset_max (w : view) (b : Z) (c : ctx) := vset w true b c.

(* the function a view denotes *)
Fixpoint vsem (w : view) (a : asg) : Z :=
  match w with
  | VVar v => a v
  | VConst c => c
  | VOpp w' => - vsem w' a
  | VPlus w' c => vsem w' a + c
  | VTimesPos w' k => vsem w' a * k
  | VNext w' => vsem w' a + 1
  | VPrev w' => vsem w' a - 1
  end.
(* on a single value of the underlying variable *)
Fixpoint vfun (w : view) (x : Z) : Z :=
  match w with
  | VVar _ => x
  | VConst c => c
  | VOpp w' => - vfun w' x
  | VPlus w' c => vfun w' x + c
  | VTimesPos w' k => vfun w' x * k
  | VNext w' => vfun w' x + 1
  | VPrev w' => vfun w' x - 1
  end.
(* every TimesPos scale is strictly positive *)
Fixpoint view_ok (w : view) : Prop :=
  match w with
  | VVar _ | VConst _ => True
  | VOpp w' | VPlus w' _ | VNext w' | VPrev w' => view_ok w'
  | VTimesPos w' k => 0 < k /\ view_ok w'
  end.
