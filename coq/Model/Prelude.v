(* Shared helpers for the executable model. Definitions only (no proofs) so that the model
   still extracts and runs when a proof elsewhere breaks. *)
From Coq Require Export List ZArith Lia Bool.
Export ListNotations.
Open Scope Z_scope.

(* Rust `lo..hi` over i32 (hi exclusive); empty when hi <= lo. *)
Fixpoint zrange_aux (lo : Z) (k : nat) : list Z :=
  match k with
  | O => []
  | S k' => lo :: zrange_aux (lo + 1) k'
  end.
Definition zrange (lo hi : Z) : list Z := zrange_aux lo (Z.to_nat (hi - lo)).

(* Option monad *)
Definition obind {A B} (o : option A) (f : A -> option B) : option B :=
  match o with Some a => f a | None => None end.
Notation "'do' x <- e ; k" := (obind e (fun x => k)) (at level 200, x pattern, e at level 100, k at level 200).

(* Rust integer division and remainder on i32 (truncating towards zero), div_euclid/rem_euclid. *)
Definition tdiv (a b : Z) : Z := Z.quot a b.
Definition trem (a b : Z) : Z := Z.rem a b.
Definition ediv (a b : Z) : Z := (* i32::div_euclid *)
  let q := Z.quot a b in
  if Z.rem a b <? 0 then (if 0 <? b then q - 1 else q + 1) else q.
Definition erem (a b : Z) : Z := (* i32::rem_euclid *)
  let r := Z.rem a b in
  if r <? 0 then (if b <? 0 then r - b else r + b) else r.

(* floor / ceil of the exact rational a/b, b <> 0 *)
Definition fdiv (a b : Z) : Z := Z.div a b.
Definition cdiv (a b : Z) : Z := - Z.div (- a) b.

Definition i32_min : Z := -2147483648.
Definition i32_max : Z := 2147483647.
Definition in_i32 (x : Z) : bool := (i32_min <=? x) && (x <=? i32_max).
Definition sat32 (x : Z) : Z := Z.max i32_min (Z.min i32_max x).

Fixpoint list_min (d : Z) (l : list Z) : Z :=
  match l with [] => d | x :: r => list_min (Z.min d x) r end.
Fixpoint list_max (d : Z) (l : list Z) : Z :=
  match l with [] => d | x :: r => list_max (Z.max d x) r end.

Definition memZ (x : Z) (l : list Z) : bool := existsb (Z.eqb x) l.

(* insertion into a strictly increasing list; sort+dedup *)
Fixpoint zinsert (x : Z) (l : list Z) : list Z :=
  match l with
  | [] => [x]
  | y :: r => if x <? y then x :: l else if x =? y then l else y :: zinsert x r
  end.
Definition zsort (l : list Z) : list Z := fold_right zinsert [] l.
