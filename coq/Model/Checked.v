(* C17: the integer core over CHECKED i32 arithmetic.

   The models of Model/Views.v and Model/Props/{Basic,LinInt}.v use unbounded Z.  Here every
   arithmetic operation of the Rust code is re-stated with the semantics of the profile the test
   suite uses (overflow-checks on, debug-assertions on):

     a + b, a - b, a * b, -a   on i32            panic when the result leaves [i32::MIN, i32::MAX]
     saturating_add / saturating_sub             never fail (clamp)
     div_euclid, rem_euclid, /, %                panic on a zero divisor and on i32::MIN / -1
     div_ceil_i32 / div_floor_i32                computed in i64 and clamped: never fail (linear.rs:1003-1020)
     v[i]                                        panics when i >= v.len()

   A checked computation returns `option`: None = the Rust code panics.  A checked pruning function
   returns `option (option ctx)`: None = panic, Some None = the space fails, Some (Some c) = result.
   Theorems (Proofs/CheckedProofs.v): under the InRange predicates below every checked definition
   equals `Some` of its unbounded-Z counterpart.

   What is re-stated (anchors):
     views            min_raw / max_raw: Opposite `-max`, Plus `min + offset`, TimesPos `min * scale`,
                      Next `i + 1`, Prev `i - 1` (views.rs:660-1264; Val::next/prev core.rs:49-69)
                      try_set_min/max: Opposite `-b`, Plus `b - offset`, TimesPos div_euclid/rem_euclid `+ 1`,
                      Next `b - 1`, Prev `b + 1`
     SparseSet        remove_above computes `(val + 1)..(self.max() + 1)` (sparse_set.rs:272-282): a tightening
                      try_set_max on a domain whose maximum is i32::MAX overflows
     Add / Sum        `Val + Val`, `Val - Val` plain (core.rs:229-262; add.rs:27-34; sum.rs:18-50)
     IntLinEq/Le/Ne   `coeff * bound` plain, accumulation saturating, `constant.saturating_sub`,
                      Le: `remaining.div_euclid(coeff)`, Ne: `%` and `/`, exclude_value `i + 1`, `i - 1`;
                      `coefficients[i]` for i < variables.len()   (linear.rs:20-260, 1036-1222)
     reified forms    dispatch on the reification variable; compute_fixed_sum / compute_sum_bounds use
                      zip (no indexing), `coeff * l` plain, saturating accumulation
   Not re-stated: reading min()/max() of an EMPTY SparseSet (a debug_assert): Dom.v models it as failure of
   the setter; the posting-time reads are covered by the `api` differential (finding empty_domain_read). *)
Require Import Selen.Model.Prelude Selen.Model.Dom Selen.Model.Views Selen.Model.PropDefs.
Require Import Selen.Model.Props.Basic Selen.Model.Props.LinInt Selen.Model.Api.

(* ---- checked scalar operations ---- *)
Definition ck (x : Z) : option Z := if in_i32 x then Some x else None.
Definition cadd (a b : Z) : option Z := ck (a + b).
Definition csub (a b : Z) : option Z := ck (a - b).
Definition cmul (a b : Z) : option Z := ck (a * b).
Definition cneg (a : Z) : option Z := ck (- a).
Definition sadd (a b : Z) : Z := sat32 (a + b).          (* i32::saturating_add *)
Definition ssub (a b : Z) : Z := sat32 (a - b).          (* i32::saturating_sub *)
Definition div_guard (a b : Z) : bool := negb (b =? 0) && negb ((a =? i32_min) && (b =? -1)).
Definition cediv (a b : Z) : option Z := if div_guard a b then Some (ediv a b) else None.   (* div_euclid *)
Definition cerem (a b : Z) : option Z := if div_guard a b then Some (erem a b) else None.   (* rem_euclid *)
Definition ctdiv (a b : Z) : option Z := if div_guard a b then Some (tdiv a b) else None.   (* `/` *)
Definition ctrem (a b : Z) : option Z := if div_guard a b then Some (trem a b) else None.   (* `%` *)
Definition div_ceil32 (a b : Z) : Z := sat32 (cdiv a b).     (* div_ceil_i32, b <> 0 *)
Definition div_floor32 (a b : Z) : Z := sat32 (fdiv a b).    (* div_floor_i32, b <> 0 *)

(* ---- panic-or-fail monad ---- *)
Definition pbind {A B} (m : option (option A)) (f : A -> option (option B)) : option (option B) :=
  match m with
  | None => None
  | Some None => Some None
  | Some (Some a) => f a
  end.
Notation "'pdo' x <- e ; k" := (pbind e (fun x => k)) (at level 200, x pattern, e at level 100, k at level 200).

(* ---- Context::try_set_max on an integer variable, with the arithmetic of SparseSet::remove_above ---- *)
Definition ccset_max (v : nat) (b : Z) (c : ctx) : option (option ctx) :=
  let d := sget (fst c) v in
  if negb (dempty d) && (dmin d <=? b) && (b <? dmax d) && (dmax d =? i32_max) then None
  else Some (cset_max v b c).
Definition ccset_min (v : nat) (b : Z) (c : ctx) : option (option ctx) := Some (cset_min v b c).

(* ---- views ---- *)
Fixpoint cvbnd (w : view) (mx : bool) (s : store) : option Z :=
  match w with
  | VVar v => Some (if mx then dmax (sget s v) else dmin (sget s v))
  | VConst c => Some c
  | VOpp w' => do b <- cvbnd w' (negb mx) s; cneg b
  | VPlus w' c => do b <- cvbnd w' mx s; cadd b c
  | VTimesPos w' k => do b <- cvbnd w' mx s; cmul b k
  | VNext w' => do b <- cvbnd w' mx s; cadd b 1
  | VPrev w' => do b <- cvbnd w' mx s; csub b 1
  end.

Fixpoint cvset (w : view) (mx : bool) (b : Z) (c : ctx) : option (option ctx) :=
  match w with
  | VVar v => if mx then ccset_max v b c else ccset_min v b c
  | VConst k => Some (if mx then (if k <=? b then Some c else None)
                      else (if b <=? k then Some c else None))
  | VOpp w' => do nb <- cneg b; cvset w' (negb mx) nb c
  | VPlus w' k => do nb <- csub b k; cvset w' mx nb c
  | VTimesPos w' k =>
      if mx then do q <- cediv b k; cvset w' true q c
      else do q <- cediv b k; do r <- cerem b k;
           do nb <- cadd q (if r =? 0 then 0 else 1); cvset w' false nb c
  | VNext w' => do nb <- csub b 1; cvset w' mx nb c
  | VPrev w' => do nb <- cadd b 1; cvset w' mx nb c
  end.

(* ---- Add::prune ---- *)
Definition cprune_add (x y : view) (s : nat) (c : ctx) : option (option ctx) :=
  do a <- cvbnd x false (fst c); do b <- cvbnd y false (fst c); do t <- cadd a b;
  pdo c <- ccset_min s t c;
  do a <- cvbnd x true (fst c); do b <- cvbnd y true (fst c); do t <- cadd a b;
  pdo c <- ccset_max s t c;
  do b <- cvbnd y true (fst c); do t <- csub (cvar_min s c) b;
  pdo c <- cvset x false t c;
  do b <- cvbnd y false (fst c); do t <- csub (cvar_max s c) b;
  pdo c <- cvset x true t c;
  do a <- cvbnd x true (fst c); do t <- csub (cvar_min s c) a;
  pdo c <- cvset y false t c;
  do a <- cvbnd x false (fst c); do t <- csub (cvar_max s c) a;
  cvset y true t c.

(* ---- Sum::prune ---- *)
Fixpoint csum_bnd (xs : list view) (mx : bool) (s : store) (acc : Z) : option Z :=
  match xs with
  | [] => Some acc
  | x :: r => do b <- cvbnd x mx s; do acc' <- cadd acc b; csum_bnd r mx s acc'
  end.

Fixpoint csum_terms (xs : list view) (smin smax mn mx : Z) (c : ctx) : option (option ctx) :=
  match xs with
  | [] => Some (Some c)
  | x :: r =>
    do xmin <- cvbnd x false (fst c);
    do xmax <- cvbnd x true (fst c);
    do mins_except <- csub mn xmin;
    do maxs_except <- csub mx xmax;
    do lo <- csub smin maxs_except;
    pdo c <- cvset x false lo c;
    do hi <- csub smax mins_except;
    pdo c <- cvset x true hi c;
    csum_terms r smin smax mn mx c
  end.

Definition cprune_sum (xs : list view) (s : nat) (c : ctx) : option (option ctx) :=
  do mn <- csum_bnd xs false (fst c) 0;
  do mx <- csum_bnd xs true (fst c) 0;
  pdo c <- ccset_min s mn c;
  pdo c <- ccset_max s mx c;
  csum_terms xs (cvar_min s c) (cvar_max s c) mn mx c.

(* ---- linear propagators ---- *)
(* coefficients[i] for i in 0..variables.len(): None = index out of bounds *)
Fixpoint czip (cs : list Z) (xs : list nat) : option (list (Z * nat)) :=
  match xs with
  | [] => Some []
  | x :: xr => match cs with
               | [] => None
               | c :: cr => do r <- czip cr xr; Some ((c, x) :: r)
               end
  end.

Definition cterm_min (s : store) (cf : Z) (v : nat) : option Z :=
  if 0 <? cf then cmul cf (dmin (sget s v)) else cmul cf (dmax (sget s v)).
Definition cterm_max (s : store) (cf : Z) (v : nat) : option Z :=
  if 0 <? cf then cmul cf (dmax (sget s v)) else cmul cf (dmin (sget s v)).

(* the inner loop: both products are computed for every j <> i (IntLinEq) *)
Fixpoint cothers2 (s : store) (l : list (Z * nat)) (i j : nat) (amin amax : Z) : option (Z * Z) :=
  match l with
  | [] => Some (amin, amax)
  | (cf, v) :: r =>
    if Nat.eqb i j then cothers2 s r i (S j) amin amax
    else do tmn <- cterm_min s cf v; do tmx <- cterm_max s cf v;
         cothers2 s r i (S j) (sadd amin tmn) (sadd amax tmx)
  end.
(* IntLinLe computes only the minimum term *)
Fixpoint cothers1 (s : store) (l : list (Z * nat)) (i j : nat) (amin : Z) : option Z :=
  match l with
  | [] => Some amin
  | (cf, v) :: r =>
    if Nat.eqb i j then cothers1 s r i (S j) amin
    else do tmn <- cterm_min s cf v; cothers1 s r i (S j) (sadd amin tmn)
  end.

Definition clin_eq_step (l : list (Z * nat)) (k : Z) (i : nat) (cf : Z) (x : nat) (c : ctx) : option (option ctx) :=
  if cf =? 0 then Some (Some c)
  else
    do mm <- cothers2 (fst c) l i 0 0 0;
    let mino := fst mm in let maxo := snd mm in
    let tmin := ssub k maxo in
    let tmax := ssub k mino in
    let nmin := if 0 <? cf then div_ceil32 tmin cf else div_ceil32 tmax cf in
    let nmax := if 0 <? cf then div_floor32 tmax cf else div_floor32 tmin cf in
    pdo c <- ccset_min x nmin c;
    ccset_max x nmax c.

Fixpoint clin_loop (step : nat -> Z -> nat -> ctx -> option (option ctx)) (l : list (Z * nat)) (i : nat) (c : ctx) : option (option ctx) :=
  match l with
  | [] => Some (Some c)
  | (cf, x) :: r => pdo c <- step i cf x c; clin_loop step r (S i) c
  end.

Definition cprune_lin_eq (cs : list Z) (xs : list nat) (k : Z) (c : ctx) : option (option ctx) :=
  do l <- czip cs xs; clin_loop (clin_eq_step l k) l 0 c.

Definition clin_le_step (l : list (Z * nat)) (k : Z) (i : nat) (cf : Z) (x : nat) (c : ctx) : option (option ctx) :=
  if cf =? 0 then Some (Some c)
  else
    do mino <- cothers1 (fst c) l i 0 0;
    let rem := ssub k mino in
    do q <- cediv rem cf;
    if 0 <? cf then ccset_max x q c else ccset_min x q c.

Definition cprune_lin_le (cs : list Z) (xs : list nat) (k : Z) (c : ctx) : option (option ctx) :=
  do l <- czip cs xs; clin_loop (clin_le_step l k) l 0 c.

(* exclude_value *)
Definition cexclude_value (x : nat) (f : Z) (c : ctx) : option (option ctx) :=
  let mn := cvar_min x c in
  let mx := cvar_max x c in
  if (f <? mn) || (mx <? f) then Some (Some c)
  else if (mn =? mx) && (mn =? f) then Some None
  else if mn =? f then do f1 <- cadd f 1; ccset_min x f1 c
  else if mx =? f then do f1 <- csub f 1; ccset_max x f1 c
  else Some (Some c).

(* the scan of IntLinNe::prune indexes coefficients[i] lazily: it returns as soon as a second
   unfixed variable is seen.  Result: None = panic; Some None = "two unfixed"; Some (Some (fs,u)) *)
Fixpoint cne_scan (s : store) (cs : list Z) (xs : list nat) (fs : Z) (u : option (Z * nat)) : option (option (Z * option (Z * nat))) :=
  match xs with
  | [] => Some (Some (fs, u))
  | x :: xr =>
    match cs with
    | [] => None                                      (* coefficients[i] out of bounds *)
    | cf :: cr =>
      let lo := dmin (sget s x) in
      let hi := dmax (sget s x) in
      if lo =? hi then do t <- cmul cf lo; cne_scan s cr xr (sadd fs t) u
      else match u with
           | Some _ => Some None
           | None => cne_scan s cr xr fs (Some (cf, x))
           end
    end
  end.

Definition cprune_lin_ne (cs : list Z) (xs : list nat) (k : Z) (c : ctx) : option (option ctx) :=
  do r <- cne_scan (fst c) cs xs 0 None;
  match r with
  | None => Some (Some c)
  | Some (fs, None) => Some (if fs =? k then None else Some c)
  | Some (fs, Some (cf, x)) =>
    if cf =? 0 then Some (if fs =? k then None else Some c)
    else
      let num := ssub k fs in
      do r <- ctrem num cf;
      if r =? 0 then do q <- ctdiv num cf; cexclude_value x q c else Some (Some c)
  end.

(* compute_fixed_sum / compute_sum_bounds: zip, no indexing *)
Fixpoint cfixed_sum (s : store) (l : list (Z * nat)) (acc : Z) : option (option Z) :=
  match l with
  | [] => Some (Some acc)
  | (cf, x) :: r =>
    let lo := dmin (sget s x) in
    if lo =? dmax (sget s x) then do t <- cmul cf lo; cfixed_sum s r (sadd acc t) else Some None
  end.
Fixpoint csum_bounds (s : store) (l : list (Z * nat)) (amin amax : Z) : option (Z * Z) :=
  match l with
  | [] => Some (amin, amax)
  | (cf, x) :: r =>
    do tmn <- cterm_min s cf x; do tmx <- cterm_max s cf x;
    csum_bounds s r (sadd amin tmn) (sadd amax tmx)
  end.

Definition cset_bool (b : nat) (v : Z) (c : ctx) : option (option ctx) :=
  pdo c <- ccset_min b v c; ccset_max b v c.

Definition cprune_lin_eq_reif (cs : list Z) (xs : list nat) (k : Z) (b : nat) (c : ctx) : option (option ctx) :=
  let l := combine cs xs in
  if reif_is b 1 c then cprune_lin_eq cs xs k c
  else if reif_is b 0 c then
    do r <- cfixed_sum (fst c) l 0;
    match r with
    | Some sm => Some (if sm =? k then None else Some c)
    | None => Some (Some c)
    end
  else do r <- cfixed_sum (fst c) l 0;
       match r with
       | Some sm => if sm =? k then cset_bool b 1 c else cset_bool b 0 c
       | None => Some (Some c)
       end.

Definition cprune_lin_le_reif (cs : list Z) (xs : list nat) (k : Z) (b : nat) (c : ctx) : option (option ctx) :=
  let l := combine cs xs in
  if reif_is b 1 c then cprune_lin_le cs xs k c
  else if reif_is b 0 c then
    do r <- cfixed_sum (fst c) l 0;
    match r with
    | Some sm => Some (if sm <=? k then None else Some c)
    | None => Some (Some c)
    end
  else do mm <- csum_bounds (fst c) l 0 0;
       if snd mm <=? k then cset_bool b 1 c
       else if k <? fst mm then cset_bool b 0 c
       else Some (Some c).

Definition cprune_lin_ne_reif (cs : list Z) (xs : list nat) (k : Z) (b : nat) (c : ctx) : option (option ctx) :=
  let l := combine cs xs in
  if reif_is b 1 c then cprune_lin_ne cs xs k c
  else if reif_is b 0 c then cprune_lin_eq cs xs k c
  else do r <- cfixed_sum (fst c) l 0;
       match r with
       | Some sm => if negb (sm =? k) then cset_bool b 1 c else cset_bool b 0 c
       | None => Some (Some c)
       end.

(* ================= InRange ================= *)
(* every value of every domain is within +-B *)
Definition bounded (B : Z) (s : store) : Prop := forall v x, In x (sget s v) -> Z.abs x <= B.
Definition boundedb (B : Z) (s : store) : bool := forallb (forallb (fun x => Z.abs x <=? B)) s.

(* magnitude of a view's bounds over a store bounded by B; the first component says that every
   intermediate result is an i32 *)
Fixpoint vmag (B : Z) (w : view) : Z :=
  match w with
  | VVar _ => B
  | VConst c => Z.abs c
  | VOpp w' => vmag B w'
  | VPlus w' c => vmag B w' + Z.abs c
  | VTimesPos w' k => vmag B w' * Z.abs k
  | VNext w' | VPrev w' => vmag B w' + 1
  end.
Fixpoint view_in_range (B : Z) (w : view) : Prop :=
  vmag B w <= i32_max /\
  match w with
  | VVar _ | VConst _ => True
  | VOpp w' | VPlus w' _ | VTimesPos w' _ | VNext w' | VPrev w' => view_in_range B w'
  end.
Fixpoint view_in_rangeb (B : Z) (w : view) : bool :=
  (vmag B w <=? i32_max) &&
  match w with
  | VVar _ | VConst _ => true
  | VOpp w' | VPlus w' _ | VTimesPos w' _ | VNext w' | VPrev w' => view_in_rangeb B w'
  end.

(* pushing a bound of magnitude <= M down a view (try_set_min/max): every scale is positive and
   every intermediate bound stays an i32 *)
Fixpoint vset_in_range (w : view) (M : Z) : Prop :=
  match w with
  | VVar _ | VConst _ => True
  | VOpp w' => vset_in_range w' M
  | VPlus w' k => M + Z.abs k <= i32_max /\ vset_in_range w' (M + Z.abs k)
  | VTimesPos w' k => 0 < k /\ vset_in_range w' M
  | VNext w' | VPrev w' => M + 1 <= i32_max /\ vset_in_range w' (M + 1)
  end.
Fixpoint vset_in_rangeb (w : view) (M : Z) : bool :=
  match w with
  | VVar _ | VConst _ => true
  | VOpp w' => vset_in_rangeb w' M
  | VPlus w' k => (M + Z.abs k <=? i32_max) && vset_in_rangeb w' (M + Z.abs k)
  | VTimesPos w' k => (0 <? k) && vset_in_rangeb w' M
  | VNext w' | VPrev w' => (M + 1 <=? i32_max) && vset_in_rangeb w' (M + 1)
  end.

(* Add: x + y = s over a store bounded by B *)
Definition add_in_range (B : Z) (x y : view) : Prop :=
  0 <= B /\ B < i32_max /\ view_in_range B x /\ view_in_range B y /\
  vmag B x + vmag B y <= i32_max /\
  B + vmag B y <= i32_max /\ B + vmag B x <= i32_max /\
  vset_in_range x (B + vmag B y) /\ vset_in_range y (B + vmag B x).
Definition add_in_rangeb (B : Z) (x y : view) : bool :=
  (0 <=? B) && (B <? i32_max) && view_in_rangeb B x && view_in_rangeb B y &&
  (vmag B x + vmag B y <=? i32_max) &&
  (B + vmag B y <=? i32_max) && (B + vmag B x <=? i32_max) &&
  vset_in_rangeb x (B + vmag B y) && vset_in_rangeb y (B + vmag B x).

(* Sum *)
Fixpoint smag (B : Z) (xs : list view) : Z :=
  match xs with [] => 0 | x :: r => vmag B x + smag B r end.
Definition sum_in_range (B : Z) (xs : list view) : Prop :=
  0 <= B /\ B < i32_max /\ Forall (view_in_range B) xs /\
  B + 2 * smag B xs <= i32_max /\
  Forall (fun x => vset_in_range x (B + 2 * smag B xs)) xs.
Definition sum_in_rangeb (B : Z) (xs : list view) : bool :=
  (0 <=? B) && (B <? i32_max) && forallb (view_in_rangeb B) xs &&
  (B + 2 * smag B xs <=? i32_max) &&
  forallb (fun x => vset_in_rangeb x (B + 2 * smag B xs)) xs.

(* linear: sum |c_i| * B + |k| <= i32::MAX, and a coefficient for every variable *)
Fixpoint sum_abs (l : list (Z * nat)) : Z :=
  match l with [] => 0 | (cf, _) :: r => Z.abs cf + sum_abs r end.
Definition lin_in_range (B : Z) (cs : list Z) (xs : list nat) (k : Z) : Prop :=
  0 <= B /\ B < i32_max /\ (length xs <= length cs)%nat /\
  sum_abs (combine cs xs) * B + Z.abs k <= i32_max.
Definition lin_in_rangeb (B : Z) (cs : list Z) (xs : list nat) (k : Z) : bool :=
  (0 <=? B) && (B <? i32_max) && (length xs <=? length cs)%nat &&
  (sum_abs (combine cs xs) * B + Z.abs k <=? i32_max).

(* ---- magnitude analysis of fluent trees (used by the `api` driver to classify a case) ---- *)
(* m v = a bound on |value| of user variable v *)
Fixpoint emag (m : nat -> Z) (e : expr) : Z :=
  match e with
  | EVar v => m v
  | EVal c => Z.abs c
  | EAdd a b | ESub a b => emag m a + emag m b
  | EMul a b => emag m a * emag m b
  | EMod a b => Z.max (emag m a) (emag m b)
  end.
Fixpoint expr_in_rangeb (m : nat -> Z) (e : expr) : bool :=
  (emag m e <=? i32_max) &&
  match e with
  | EVar _ | EVal _ => true
  | EAdd a b | ESub a b | EMul a b | EMod a b => expr_in_rangeb m a && expr_in_rangeb m b
  end.
(* a comparison is normalised to  lhs - rhs  op  -(c_l - c_r)  and  < / >  add 1 *)
Fixpoint cons_in_rangeb (m : nat -> Z) (c : cons) : bool :=
  match c with
  | CBin l _ r => expr_in_rangeb m l && expr_in_rangeb m r && (emag m l + emag m r + 1 <=? i32_max)
  | CAnd a b | COr a b => cons_in_rangeb m a && cons_in_rangeb m b
  | CNot a => cons_in_rangeb m a
  | CLinInt cs xs _ k => (length xs <=? length cs)%nat &&
      (fold_right (fun p acc => Z.abs (fst p) * m (snd p) + acc) 0 (combine cs xs) + Z.abs k + 1 <=? i32_max)
  end.
