(* src/solvers/sudoku.rs — the specialised Sudoku solver (property C18), modelled literally.

   A puzzle is the row-major list of the 81 cells of a `[[i32; 9]; 9]` (0 = empty); cell (row, col) has
   index row*9+col, which is also the index of its variable (SudokuSolver::new creates the variables
   row by row, nothing else creates variables).

   What the code does, in order (line numbers of sudoku.rs after the repair COMMIT_sudoku_clues):
   * `new` (176-228): one variable per cell — `model.int(clue, clue)` for a non-zero cell (a SINGLETON
     DOMAIN, no equality constraint is posted for clues), `model.int(1, 9)` for an empty cell; candidate
     sets `full()` for an empty cell, `single(clue)` for a clue 1..9, the EMPTY set `new()` for any other
     value (`is_valid_clue`, 231); then the 27 `alldiff`s (rows 0-8, columns 0-8, boxes by box_row then
     box_col: PropIds 0..26, posted immediately through `props.all_different`); then
     `update_candidates`.
   * `update_candidates` / `is_candidate_valid` (273-318): the candidates of every EMPTY cell are
     recomputed FROM THE ORIGINAL PUZZLE ONLY (digit d is kept iff no other cell of the row, the column
     and the box holds the clue d).  Nothing the techniques derived is ever taken into account.
   * `apply_advanced_techniques` (322-335): naked singles, hidden singles (rows, columns, boxes), naked
     pairs (rows, columns, boxes); all three always run (`|=`); if any made progress the candidate table
     is recomputed by `update_candidates` — which throws away every elimination the naked pairs made.
     Naked / hidden singles do not touch the candidate table; each found cell posts
     `model.props.equals(var, Val::int(digit))` (an `Eq` propagator, next free PropId).
   * `solve` (974-1033): FIRST `has_invalid_clue` (237: some cell of the original puzzle is neither 0 nor
     1..9) => `solution: None` at once; otherwise
     `while apply_advanced_techniques() && iterations < 10 { iterations += 1 }`
     (at most 11 calls; since the table at the start of every round is the same, every round posts the
     same equalities again), then `Model::solve` (validation, root propagation, depth-first search,
     first solution), any error (validation, NoSolution, timeout, memory) becomes `solution: None`.
   * `solve_sudoku` (1194) = `SudokuSolver::new(p).solve().solution`; `solve_sudoku_string` (1207) parses
     first (`parse_string`, 1115) and maps a parse error to None.

   Clues outside 0..9 (the argument type [[i32; 9]; 9] admits them).  Before COMMIT_sudoku_clues there was
   no range check: `new` called `SudokuCandidateSet::single(clue)` (a `debug_assert!(1 <= clue <= 9)`: a
   debug build panicked; a wrapping 16-bit shift in release builds) and `solve` searched the model with
   the singleton domain `[clue]`, returning a "solution" that contains the foreign value.  That behaviour
   (of the release build) is kept as `solve_sudoku_prefix` for the refutation theorem
   `sudoku_sound_out_of_range_refuted`; `solve_sudoku` is the repaired function: the range test of
   `solve` first, then the same pipeline.  `new` itself is unchanged on the model side except for the
   candidate set of such a cell (empty; candidate sets of clue cells are never read by the techniques),
   the variable keeps the singleton domain `[clue]` whatever the value. *)
Require Import Selen.Model.Prelude Selen.Model.Dom Selen.Model.Views Selen.Model.PropDefs.
Require Import Selen.Model.Props.Basic Selen.Model.Propagate Selen.Model.Search Selen.Model.Limits.
Require Import Selen.Model.Gac Selen.Model.Props.AllDiff.

Definition puzzle := list Z.
Definition grid := list Z.
Definition cands := list (list Z).        (* SudokuCandidateSet per cell: the digits of the mask, ascending *)

Definition pcell (p : list Z) (i : nat) : Z := nth i p 0.
Definition idx (r c : nat) : nat := (r * 9 + c)%nat.
Definition cells : list nat := seq 0 81.
Definition digits : list Z := [1; 2; 3; 4; 5; 6; 7; 8; 9].

(* ---- units, in the order add_basic_constraints posts them ---- *)
Definition row_cells (r : nat) : list nat := map (fun c => idx r c) (seq 0 9).
Definition col_cells (c : nat) : list nat := map (fun r => idx r c) (seq 0 9).
Definition box_cells (br bc : nat) : list nat :=
  flat_map (fun r => map (fun c => idx (br * 3 + r) (bc * 3 + c)) (seq 0 3)) (seq 0 3).
Definition rows : list (list nat) := map row_cells (seq 0 9).
Definition cols : list (list nat) := map col_cells (seq 0 9).
Definition boxes : list (list nat) := flat_map (fun br => map (fun bc => box_cells br bc) (seq 0 3)) (seq 0 3).
Definition units : list (list nat) := rows ++ cols ++ boxes.

(* ---- the specification: valid complete grids, agreement with the clues ---- *)
Definition in19 (v : Z) : bool := (1 <=? v) && (v <=? 9).
(* SudokuSolver::verify_solution (1019-1070): all values 1..9, no repetition in any unit *)
Definition valid_sudokub (g : grid) : bool :=
  Nat.eqb (length g) 81 && forallb in19 g && forallb (fun u => nodupb (map (pcell g) u)) units.
Definition agreesb (p : puzzle) (g : grid) : bool :=
  forallb (fun i => (pcell p i =? 0) || (pcell g i =? pcell p i)) cells.

Definition valid_sudoku (g : grid) : Prop :=
  length g = 81%nat /\ (forall i, (i < 81)%nat -> 1 <= pcell g i <= 9) /\
  (forall u, In u units -> NoDup (map (pcell g) u)).
Definition agrees (p : puzzle) (g : grid) : Prop :=
  forall i, (i < 81)%nat -> pcell p i <> 0 -> pcell g i = pcell p i.
Definition completion (p : puzzle) (g : grid) : Prop := valid_sudoku g /\ agrees p g.

(* documented input domain of solve_sudoku: 81 cells, each 0..9; `clues_okb p` = !has_invalid_clue()
   (a cell passes iff it is 0 or is_valid_clue) *)
Definition clues_okb (p : puzzle) : bool := forallb (fun v => (0 <=? v) && (v <=? 9)) p.
Definition clues_ok (p : puzzle) : Prop := forall i, (i < 81)%nat -> 0 <= pcell p i <= 9.

(* ---- parse_string (1084-1102) on the bytes of the string: exactly 81 bytes, '0' or '.' = empty,
        '1'..'9' = clue, anything else (incl. any byte of a multi-byte character) = Err ---- *)
Definition parse_byte (b : nat) : option Z :=
  if Nat.eqb b 48 || Nat.eqb b 46 then Some 0
  else if Nat.leb 49 b && Nat.leb b 57 then Some (Z.of_nat (b - 48))
  else None.
Fixpoint parse_bytes (bs : list nat) : option puzzle :=
  match bs with
  | [] => Some []
  | b :: r => do v <- parse_byte b; do p <- parse_bytes r; Some (v :: p)
  end.
Definition parse_string (bs : list nat) : option puzzle :=
  if negb (Nat.eqb (length bs) 81) then None else parse_bytes bs.

(* ---- candidate table ---- *)
(* one of the three loops of is_candidate_valid: no OTHER cell of the unit holds the clue d *)
Definition unit_free (p : puzzle) (u : list nat) (i : nat) (d : Z) : bool :=
  forallb (fun j => negb (negb (Nat.eqb j i) && (pcell p j =? d))) u.
Definition cand_valid (p : puzzle) (i : nat) (d : Z) : bool :=
  let r := (i / 9)%nat in
  let c := (i mod 9)%nat in
  unit_free p (row_cells r) i d && unit_free p (col_cells c) i d && unit_free p (box_cells (r / 3) (c / 3)) i d.

Definition init_cands (p : puzzle) : cands :=
  map (fun i => if pcell p i =? 0 then digits else if in19 (pcell p i) then [pcell p i] else []) cells.
Definition update_candidates (p : puzzle) (cs : cands) : cands :=
  map (fun i => if pcell p i =? 0 then filter (cand_valid p i) digits else sget cs i) cells.
(* the table SudokuSolver::new leaves behind *)
Definition new_cands (p : puzzle) : cands := update_candidates p (init_cands p).

(* ---- techniques: each posted equality is (cell index, digit) ---- *)
Definition post := (nat * Z)%type.

(* apply_naked_singles (319-335) *)
Definition naked_singles (p : puzzle) (cs : cands) : list post :=
  flat_map (fun i => if pcell p i =? 0 then match sget cs i with [d] => [(i, d)] | _ => [] end else []) cells.

(* apply_hidden_singles (338-402): per unit, per digit 1..9, the empty cells of the unit that still have
   the digit; exactly one -> post *)
Definition hidden_unit (p : puzzle) (cs : cands) (u : list nat) : list post :=
  flat_map (fun d =>
    match filter (fun i => (pcell p i =? 0) && memZ d (sget cs i)) u with
    | [i] => [(i, d)]
    | _ => []
    end) digits.
Definition hidden_singles (p : puzzle) (cs : cands) : list post := flat_map (hidden_unit p cs) units.

(* apply_naked_pairs (569-707).  State = (table, progress flag).  Within a unit: the empty cells in
   unit order; for each i with exactly two candidates and each later j with exactly two candidates and
   the same set, remove both digits from every other empty cell of the unit (progress iff a removal
   removed something).  All reads are from the current (already modified) table. *)
Definition cremove (d : Z) (l : list Z) : list Z := filter (fun x => negb (x =? d)) l.
Fixpoint zlist_eqb (a b : list Z) : bool :=
  match a, b with
  | [], [] => true
  | x :: a', y :: b' => (x =? y) && zlist_eqb a' b'
  | _, _ => false
  end.
Definition npstate := (cands * bool)%type.
Definition remove_digit (k : nat) (st : npstate) (d : Z) : npstate :=
  if memZ d (sget (fst st) k) then (supd (fst st) k (cremove d (sget (fst st) k)), true) else st.
Definition elim_pair (p : puzzle) (u : list nat) (i j : nat) (ds : list Z) (st : npstate) : npstate :=
  fold_left (fun st k =>
    if negb (Nat.eqb k i) && negb (Nat.eqb k j) && (pcell p k =? 0) then fold_left (remove_digit k) ds st else st) u st.
Fixpoint np_inner (p : puzzle) (u : list nat) (i : nat) (js : list nat) (st : npstate) : npstate :=
  match js with
  | [] => st
  | j :: r =>
    let cs := fst st in
    np_inner p u i r
      (if Nat.eqb (length (sget cs j)) 2 && zlist_eqb (sget cs i) (sget cs j)
       then elim_pair p u i j (sget cs i) st else st)
  end.
Fixpoint np_outer (p : puzzle) (u : list nat) (es : list nat) (st : npstate) : npstate :=
  match es with
  | [] => st
  | i :: r => np_outer p u r (if Nat.eqb (length (sget (fst st) i)) 2 then np_inner p u i r st else st)
  end.
Definition np_unit (p : puzzle) (st : npstate) (u : list nat) : npstate :=
  np_outer p u (filter (fun i => pcell p i =? 0) u) st.
Definition naked_pairs (p : puzzle) (cs : cands) : npstate := fold_left (np_unit p) units (cs, false).

Definition is_nil {A} (l : list A) : bool := match l with [] => true | _ => false end.

(* apply_advanced_techniques: (equalities posted, table afterwards, made_progress) *)
Definition apply_advanced (p : puzzle) (cs : cands) : list post * cands * bool :=
  let ns := naked_singles p cs in
  let hs := hidden_singles p cs in
  let np := naked_pairs p cs in
  let prog := negb (is_nil ns) || negb (is_nil hs) || snd np in
  (ns ++ hs, if prog then update_candidates p (fst np) else fst np, prog).

(* the loop of `solve`: `it` = technique_iterations; fuel 11 always suffices (it = 0..10) *)
Fixpoint tech_loop (fuel : nat) (p : puzzle) (cs : cands) (it : nat) : list post :=
  match fuel with
  | O => []
  | S f =>
    let '(posts, cs', prog) := apply_advanced p cs in
    if prog && Nat.ltb it 10 then posts ++ tech_loop f p cs' (S it) else posts
  end.
Definition sudoku_posts (p : puzzle) : list post := tech_loop 11 p (new_cands p) 0.

(* ---- the model the code builds: store in VarId order, propagators in PropId order ---- *)
Definition mk_post (q : post) : prop := mk_eq (VVar (fst q)) (VConst (snd q)).   (* props.equals(var, Val::int(d)) *)
Definition sudoku_store (p : puzzle) : store := map (fun v => if v =? 0 then drange 1 9 else [v]) p.
Definition sudoku_props (p : puzzle) : list prop := map mk_alldiff units ++ map mk_post (sudoku_posts p).
Definition sudoku_model (p : puzzle) : store * list prop := (sudoku_store p, sudoku_props p).

(* ---- ModelValidator::validate, the branches a model of integer variables and alldiffs can reach:
   empty domain; per alldiff with more than one variable: two variables fixed to the same value, fewer
   distinct values in the union of the domains than variables; a variable listed twice ---- *)
Definition fixed_vals (s : store) (xs : list nat) : list Z :=
  flat_map (fun x => match sget s x with [v] => [v] | _ => [] end) xs.
Definition val_alldiff (s : store) (xs : list nat) : bool :=
  if Nat.leb (length xs) 1 then true
  else nodupb (fixed_vals s xs) && Nat.leb (length xs) (length (nodup Z.eq_dec (flat_map (sget s) xs))).
Definition validate_ad (s : store) (ads : list (list nat)) : bool :=
  negb (existsb dempty s) && forallb (val_alldiff s) ads && forallb (fun xs => nodupb (map Z.of_nat xs)) ads.

(* ---- Model::solve = first solution of the depth-first engine.  [Search.solve] takes the head of the
   full enumeration; the executable version stops at the first solution (the limit-free instance of
   C15's engine, equal to Search.solve by no_limit_agrees) ---- *)
Definition first_solution (ps : list prop) (s : store) : option (option store) :=
  match fst (solve_lim fifo 10000 never None false false ps s) with
  | OOk t => Some (Some t)
  | ONoSolution => Some None
  | _ => None
  end.

Definition grid_of_store (t : store) : grid := map dmin t.    (* sol[var] of an all-fixed store *)

(* result: None = the model ran out of recursion fuel (never, sudoku_total); Some None = the code
   returns None; Some (Some g) = the code returns Some(g) *)
Definition run_model (slv : list prop -> store -> option (option store)) (s : store) (ps : list prop)
  : option (option grid) :=
  if negb (validate_ad s units) then Some None
  else match slv ps s with
       | None => None
       | Some None => Some None
       | Some (Some t) => Some (Some (grid_of_store t))
       end.

(* before COMMIT_sudoku_clues: no range test in `solve` (release-build behaviour; kept for the refutation) *)
Definition solve_sudoku_prefix (p : puzzle) : option (option grid) :=
  run_model (solve fifo) (sudoku_store p) (sudoku_props p).
Definition solve_sudoku_prefix_exec (p : puzzle) : option (option grid) :=
  run_model first_solution (sudoku_store p) (sudoku_props p).
(* SudokuSolver::solve: `if self.has_invalid_clue() { return SudokuResult { solution: None, .. } }` first *)
Definition solve_sudoku (p : puzzle) : option (option grid) :=
  if negb (clues_okb p) then Some None else solve_sudoku_prefix p.
Definition solve_sudoku_exec (p : puzzle) : option (option grid) :=
  if negb (clues_okb p) then Some None else solve_sudoku_prefix_exec p.
(* solve_sudoku_string *)
Definition solve_sudoku_string (bs : list nat) : option (option grid) :=
  match parse_string bs with None => Some None | Some p => solve_sudoku p end.
Definition solve_sudoku_string_exec (bs : list nat) : option (option grid) :=
  match parse_string bs with None => Some None | Some p => solve_sudoku_exec p end.

(* ---- the general solver on the same puzzle: 81 variables 1..9, the 27 alldiffs, one equality per
   clue (row-major), no front end ---- *)
Definition clue_posts (p : puzzle) : list post :=
  flat_map (fun i => if pcell p i =? 0 then [] else [(i, pcell p i)]) cells.
Definition general_store : store := map (fun _ => drange 1 9) cells.
Definition general_props (p : puzzle) : list prop := map mk_alldiff units ++ map mk_post (clue_posts p).
Definition solve_general (p : puzzle) : option (option grid) :=
  run_model (solve fifo) general_store (general_props p).
Definition solve_general_exec (p : puzzle) : option (option grid) :=
  run_model first_solution general_store (general_props p).

Definition verdict (r : option (option grid)) : option bool :=
  match r with None => None | Some None => Some false | Some (Some _) => Some true end.
