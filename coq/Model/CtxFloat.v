(* Literal model of the float branches of Context::try_set_min / try_set_max
   (src/variables/views.rs:185-497): (VarF,ValF), (VarF,ValI), and the conversion used by
   (VarI,ValF).  Result: None = the space fails (Rust returns None); Some (i', ev) = new
   interval and whether `events.push(v)` happened.  The Rust return value is always
   Some(ValF(i'.min)) for try_set_min and Some(ValF(i'.max)) for try_set_max.
   The DEBUG_FLOAT_LIN eprintln! calls are not modelled (no effect on the result). *)
From Coq Require Import ZArith Bool.
From Flocq Require Import Core.Core IEEE754.BinarySingleNaN IEEE754.Binary IEEE754.Bits.
Require Import Selen.Generated.Consts Selen.Model.B64 Selen.Model.FloatInterval.
Open Scope Z_scope.

Definition ctx_tol (i : fint) : f64 := fdiv (istep i) (of_bits ctx_tol_div_bits).
(* precision_tolerance = (3.0*step).max(|bound| * 1e-5) *)
Definition ctx_ptol (i : fint) (bound : f64) : f64 :=
  fmaxr (fmul (of_bits ctx_abs_tol_factor_bits) (istep i))
        (fmul (fabs bound) (of_bits ctx_rel_tol_factor_bits)).

(* (VarF, ValF) try_set_min, views.rs:215-269 *)
Definition tsmin_ff (i : fint) (v : f64) : option (fint * bool) :=
  let tol := ctx_tol i in
  let ptol := ctx_ptol i (imax i) in
  if flt (fabs (fsub (imax i) (imin i))) tol && flt (fabs (fsub v (imin i))) ptol then Some (i, false)
  else if fgt v (fadd (imax i) tol) then
    (if fgt (fsub v (imax i)) ptol then None else Some (i, false))
  else if fgt v (fadd (imin i) tol) then
    let steps := fceil (fdiv v (istep i)) in
    let nm := fmul steps (istep i) in
    let nm := if fgt nm (imax i) then imax i else nm in
    if fgt nm (fadd (imax i) tol) then None
    else Some (mkfi nm (imax i) (istep i), true)
  else Some (i, false).

(* (VarF, ValF) try_set_max, views.rs:356-444 *)
Definition tsmax_ff (i : fint) (v : f64) : option (fint * bool) :=
  let tol := ctx_tol i in
  let ptol := ctx_ptol i (imin i) in
  if flt (fabs (fsub (imax i) (imin i))) tol && flt (fabs (fsub v (imax i))) ptol then Some (i, false)
  else if flt v (imin i) then
    let diff := fsub (imin i) v in
    if fle diff (istep i) then Some (mkfi (imin i) (imin i) (istep i), true)
    else if fgt diff ptol then None
    else Some (i, false)
  else if flt v (fsub (imax i) tol) then
    let steps := ffloor (fdiv v (istep i)) in
    let nm := fmul steps (istep i) in
    let nm := if flt nm (imin i) then imin i else nm in
    if flt nm (fsub (imin i) tol) then None
    else Some (mkfi (imin i) nm (istep i), true)
  else Some (i, false).

(* (VarF, ValI) try_set_min / try_set_max, views.rs:298-320, 473-495; c = the i32 bound,
   converted first (`min_i as f64`), then compared with the tolerance *)
Definition tsmin_fv (i : fint) (v : f64) : option (fint * bool) :=
  let tol := ctx_tol i in
  if fgt v (fadd (imax i) tol) then None
  else if fgt v (fadd (imin i) tol) then Some (mkfi v (imax i) (istep i), true)
  else Some (i, false).
Definition tsmax_fv (i : fint) (v : f64) : option (fint * bool) :=
  let tol := ctx_tol i in
  if flt v (fsub (imin i) tol) then None
  else if flt v (fsub (imax i) tol) then Some (mkfi (imin i) v (istep i), true)
  else Some (i, false).
Definition tsmin_fi (i : fint) (c : Z) : option (fint * bool) := tsmin_fv i (f64_of_Z c).
Definition tsmax_fi (i : fint) (c : Z) : option (fint * bool) := tsmax_fv i (f64_of_Z c).

(* (VarI, ValF): `min_f.ceil() as i32`, `max_f.floor() as i32` (views.rs:275, 450) *)
Definition ceil_as_i32 (v : f64) : Z := to_i32 (fceil v).
Definition floor_as_i32 (v : f64) : Z := to_i32 (ffloor v).

(* (VarI, ValF) on an integer variable whose domain is the full range [lo,hi] (lo <= hi):
   the integer logic of views.rs:277-296 / 452-471 on a hole-free domain.  Domains with holes
   belong to the integer half of C12 (Model/Ctx.v). *)
Definition tsmin_range_f (lo hi : Z) (v : f64) : option (Z * Z * bool) :=
  let c := ceil_as_i32 v in
  if c >? hi then None
  else if c >? lo then Some (c, hi, true)
  else Some (lo, hi, false).
Definition tsmax_range_f (lo hi : Z) (v : f64) : option (Z * Z * bool) :=
  let c := floor_as_i32 v in
  if c <? lo then None
  else if c <? hi then Some (lo, c, true)
  else Some (lo, hi, false).

(* a sequence of tightenings on one float variable (Rust: `?` after each call) *)
Inductive fop : Set := OMinF (v : f64) | OMaxF (v : f64) | OMinI (c : Z) | OMaxI (c : Z).
Definition fop_apply (i : fint) (o : fop) : option (fint * bool) :=
  match o with
  | OMinF v => tsmin_ff i v | OMaxF v => tsmax_ff i v
  | OMinI c => tsmin_fi i c | OMaxI c => tsmax_fi i c
  end.
Fixpoint fop_run (i : fint) (l : list fop) : option (fint * list bool) :=
  match l with
  | nil => Some (i, nil)
  | cons o r =>
    match fop_apply i o with
    | None => None
    | Some (i1, e) =>
      match fop_run i1 r with
      | None => None
      | Some (i2, es) => Some (i2, cons e es)
      end
    end
  end.

(* The magnitude hypothesis `Magn` of the rounding-dependent theorems, as a decidable predicate
   (also extracted, so that the differential can tell which generated cases lie inside it):
   all four numbers finite, min <= max, 2^-60 <= step <= 2^60, |min|,|max|,|v| <= 2^50 * step.
   (2^50*step is computed exactly: a power-of-two scaling with no overflow for step <= 2^60.) *)
Definition c_2m60 : f64 := of_bits 0x3c30000000000000. (* 2^-60 *)
Definition c_2p60 : f64 := of_bits 0x43b0000000000000. (* 2^60 *)
Definition c_2p50 : f64 := of_bits 0x4310000000000000. (* 2^50 *)
Definition magn_b (i : fint) (v : f64) : bool :=
  fis_finite (imin i) && fis_finite (imax i) && fis_finite (istep i) && fis_finite v &&
  fle (imin i) (imax i) && fle c_2m60 (istep i) && fle (istep i) c_2p60 &&
  (let b := fmul c_2p50 (istep i) in
   fle (fabs (imin i)) b && fle (fabs (imax i)) b && fle (fabs v) b).
Definition fop_val (o : fop) : f64 :=
  match o with OMinF v => v | OMaxF v => v | OMinI c => f64_of_Z c | OMaxI c => f64_of_Z c end.
Definition magn_op_b (i : fint) (o : fop) : bool := magn_b i (fop_val o).
