(* Bit-exact models of the propagators float / mixed models use.  Definitions only.

   Modelled literally (bugs included), every f64 operation in the order the Rust code performs it:
     FloatLinEq::prune      props/linear.rs:489-617     -> prune_flin_eq
     FloatLinLe::prune      props/linear.rs:654-730     -> prune_flin_le
     FloatLinNe::prune      props/linear.rs:752-803 + exclude_value :1201-1240   -> prune_flin_ne
     FloatLinEqReif / FloatLinLeReif / FloatLinNeReif   props/linear.rs:830-961 with the helper versions
        prune_float_lin_eq (has the extra `has_unbounded_other` skip), prune_float_lin_le (a DIFFERENT algorithm, see below),
        prune_float_lin_ne, compute_sum_bounds_float, compute_fixed_sum_float (:1245-1460)
                                                        -> prune_flin_eq_reif / _le_reif / _ne_reif
     Add<U,V>::prune        props/add.rs:33-45          -> prune_fadd      (U, V any fview; Sub = Add over Opposite)
     LessThanOrEquals<U,V>::prune  props/leq.rs:25-31   -> prune_fleq      (U, V any fview)
     Eq<U,V>::prune                props/eq.rs:17-26    -> prune_feq
     Propagators::less_than / greater_than / greater_than_or_equals (props/mod.rs:823-882, 1249-1284):
        x < y  = LessThan(x, y) (see prune_flt),  x > y = LessThan(y, x),  x >= y = LessThanOrEquals(y, x)
   A propagator is a record {fprune; ftrig} (ftrig = list_trigger_vars in order); the engine of
   Model/FloatSearch.v is generic in such records.
   Coefficient and variable lists are assumed to have the same length (Model::lin_* validates it at post
   time; a shorter coefficient list would be an index panic in Rust).
   The DEBUG_FLOAT_LIN eprintln! calls are not modelled. *)
From Coq Require Import ZArith Bool List.
Import ListNotations.
From Flocq Require Import Core.Core IEEE754.BinarySingleNaN IEEE754.Binary IEEE754.Bits.
Require Import Selen.Generated.Consts Selen.Model.Prelude Selen.Model.Dom.
Require Import Selen.Model.B64 Selen.Model.FloatInterval Selen.Model.CtxFloat Selen.Model.FloatStore.
Open Scope Z_scope.

Record fprop : Type := mkfprop { fprune : fctx -> option fctx; ftrig : list nat }.

Definition c_zero_coeff : f64 := of_bits flin_zero_coeff_bits.   (* 1e-12 *)
Definition c_clamp_tol  : f64 := of_bits flin_clamp_tol_bits.    (* 1e-6 *)
Definition c_fixed_thr  : f64 := of_bits flin_fixed_thr_bits.    (* 1e-9 *)
Definition c_min_close  : f64 := of_bits flin_min_close_bits.    (* 1e-4 *)
Definition c_ne_fixed   : f64 := of_bits flin_ne_fixed_bits.     (* 1e-12 *)
Definition c_ne_eq      : f64 := of_bits flin_ne_eq_bits.        (* 1e-12 *)
Definition c_excl_delta : f64 := of_bits excl_delta_bits.        (* 1e-4: exclusion_delta of an integer variable *)

(* bounds of variable v as f64 (`l as f64` for integer variables) *)
Definition lb_f (s : fstore) (v : nat) : f64 := as_f (var_min (fget s v)).
Definition ub_f (s : fstore) (v : nat) : f64 := as_f (var_max (fget s v)).

(* (min_term, max_term) of `other_coeff * [lb, ub]` (linear.rs:516-534) *)
Definition term_min (c : f64) (s : fstore) (v : nat) : f64 :=
  if fgt c c_zero then fmul c (lb_f s v) else fmul c (ub_f s v).
Definition term_max (c : f64) (s : fstore) (v : nat) : f64 :=
  if fgt c c_zero then fmul c (ub_f s v) else fmul c (lb_f s v).

(* `for j in 0..n { if i == j { continue } ; acc += term(j) }`, acc starting at 0.0 *)
Fixpoint sum_others (term : f64 -> nat -> f64) (cs : list f64) (vs : list nat) (i j : nat) (acc : f64) : f64 :=
  match cs, vs with
  | c :: cs', v :: vs' => sum_others term cs' vs' i (S j) (if Nat.eqb i j then acc else fadd acc (term c v))
  | _, _ => acc
  end.

(* ---------------------------------------------------------------- FloatLinLe *)
(* flin_le_step is the code AFTER the repair "FloatLinLe bounds integer variables too": the current bound of the variable
   is read as f64 (`i as f64` for an integer variable) and the new bound is applied to integer variables as well
   (try_set_max floors / try_set_min takes the ceiling of a float bound).  flin_le_step_prefix is the code before the repair
   (`if let Val::ValF(..) = var.max(ctx)`: an integer variable was never tightened), kept for int_in_floatlin_prefix_refuted. *)
Definition flin_le_step (cs : list f64) (vs : list nat) (k : f64) (i : nat) (coeff : f64) (v : nat) (c : fctx) : option fctx :=
  if flt (fabs coeff) c_zero_coeff then Some c
  else
    let s := fst c in
    let min_other := sum_others (fun cj vj => term_min cj s vj) cs vs i 0 c_zero in
    let remaining := fsub k min_other in
    if fgt coeff c_zero then
      let max_val := fdiv remaining coeff in
      if fis_finite max_val then
        (if flt max_val (ub_f s v) then xset_max v (VlF max_val) c else Some c)
      else Some c
    else
      let min_val := fdiv remaining coeff in
      let normalized := if feq min_val c_zero then c_zero else min_val in
      if fis_finite normalized then
        (if fgt normalized (lb_f s v) then xset_min v (VlF normalized) c else Some c)
      else Some c.
Definition flin_le_step_prefix (cs : list f64) (vs : list nat) (k : f64) (i : nat) (coeff : f64) (v : nat) (c : fctx) : option fctx :=
  if flt (fabs coeff) c_zero_coeff then Some c
  else
    let s := fst c in
    let min_other := sum_others (fun cj vj => term_min cj s vj) cs vs i 0 c_zero in
    let remaining := fsub k min_other in
    if fgt coeff c_zero then
      let max_val := fdiv remaining coeff in
      if fis_finite max_val then
        match var_max (fget s v) with
        | VlF current_max => if flt max_val current_max then xset_max v (VlF max_val) c else Some c
        | VlI _ => Some c
        end
      else Some c
    else
      let min_val := fdiv remaining coeff in
      let normalized := if feq min_val c_zero then c_zero else min_val in
      if fis_finite normalized then
        match var_min (fget s v) with
        | VlF current_min => if fgt normalized current_min then xset_min v (VlF normalized) c else Some c
        | VlI _ => Some c
        end
      else Some c.

Fixpoint flin_loop (step : nat -> f64 -> nat -> fctx -> option fctx) (cs : list f64) (vs : list nat) (i : nat) (c : fctx) : option fctx :=
  match cs, vs with
  | coeff :: cs', v :: vs' =>
    match step i coeff v c with
    | None => None
    | Some c1 => flin_loop step cs' vs' (S i) c1
    end
  | _, _ => Some c
  end.

Definition prune_flin_le (cs : list f64) (vs : list nat) (k : f64) (c : fctx) : option fctx :=
  flin_loop (flin_le_step cs vs k) cs vs 0 c.
Definition prune_flin_le_prefix (cs : list f64) (vs : list nat) (k : f64) (c : fctx) : option fctx :=
  flin_loop (flin_le_step_prefix cs vs k) cs vs 0 c.
Definition mk_flin_le cs vs k : fprop := mkfprop (prune_flin_le cs vs k) vs.

(* ---------------------------------------------------------------- FloatLinEq *)
(* `unb` = the helper version prune_float_lin_eq used by the reified propagators: it skips variable i when
   some OTHER float variable has an infinite bound (the check stops the accumulation at that variable) *)
Fixpoint others_unbounded (vs : list nat) (s : fstore) (i j : nat) : bool :=
  match vs with
  | [] => false
  | v :: r =>
    if Nat.eqb i j then others_unbounded r s i (S j)
    else match fget s v with
         | VF iv => if fis_inf (imin iv) || fis_inf (imax iv) then true else others_unbounded r s i (S j)
         | VI _ => others_unbounded r s i (S j)
         end
  end.

(* integer_bound_slack (linear.rs, repair "a float linear equality gives integer variables the slack of its float terms"):
   over the OTHER positions j: steps += |c_j| * step_j for a float variable; magnitude += |c_j| * max(|l_j|, |u_j|), starting
   from |k|; result steps + (8 * f64::EPSILON) * magnitude = steps + 2^-49 * magnitude *)
Definition c_eps8 : f64 := of_bits 0x3ce0000000000000.   (* 8.0 * f64::EPSILON = 2^-49 *)
Fixpoint slack_loop (cs : list f64) (vs : list nat) (s : fstore) (i j : nat) (steps magnitude : f64) : f64 * f64 :=
  match cs, vs with
  | cj :: cs', vj :: vs' =>
    if Nat.eqb j i then slack_loop cs' vs' s i (S j) steps magnitude
    else
      let a := fabs cj in
      let steps' := match fget s vj with VF iv => fadd steps (fmul a (istep iv)) | VI _ => steps end in
      slack_loop cs' vs' s i (S j) steps' (fadd magnitude (fmul a (fmaxr (fabs (lb_f s vj)) (fabs (ub_f s vj)))))
  | _, _ => (steps, magnitude)
  end.
Definition integer_bound_slack (cs : list f64) (vs : list nat) (s : fstore) (i : nat) (k : f64) : f64 :=
  let '(steps, magnitude) := slack_loop cs vs s i 0 c_zero (fabs k) in
  fadd steps (fmul c_eps8 magnitude).
(* the widening applied to the bounds computed for an INTEGER variable *)
Definition widen_for_int (cs : list f64) (vs : list nat) (s : fstore) (k : f64) (i : nat) (coeff : f64) (v : nat) (b : f64 * f64) : f64 * f64 :=
  match fget s v with
  | VI _ =>
    let sl := fdiv (integer_bound_slack cs vs s i k) (fabs coeff) in
    if fis_finite sl then (fsub (fst b) sl, fadd (snd b) sl) else b
  | VF _ => b
  end.
(* flin_eq_step_prefix: the code before that repair (no widening), kept for floatlineq_mixed_prefix_refuted *)
Definition flin_eq_step_gen (widen : bool) (unb : bool) (cs : list f64) (vs : list nat) (k : f64) (i : nat) (coeff : f64) (v : nat) (c : fctx) : option fctx :=
  if flt (fabs coeff) c_zero_coeff then Some c
  else
    let s := fst c in
    if unb && others_unbounded vs s i 0 then Some c
    else
    let min_other := sum_others (fun cj vj => term_min cj s vj) cs vs i 0 c_zero in
    let max_other := sum_others (fun cj vj => term_max cj s vj) cs vs i 0 c_zero in
    let target_min := fsub k max_other in
    let target_max := fsub k min_other in
    let '(new_min, new_max) :=
      if fgt coeff c_zero then (fdiv target_min coeff, fdiv target_max coeff)
      else (fdiv target_max coeff, fdiv target_min coeff) in
    let '(new_min, new_max) := if fgt new_min new_max then (new_max, new_min) else (new_min, new_max) in
    let '(new_min, new_max) := if widen then widen_for_int cs vs s k i coeff v (new_min, new_max) else (new_min, new_max) in
    let current_min := lb_f s v in
    let current_max := ub_f s v in
    let new_max := if flt new_max current_min && flt (fsub current_min new_max) c_clamp_tol then current_min else new_max in
    let new_min := if fgt new_min current_max && flt (fsub new_min current_max) c_clamp_tol then current_max else new_min in
    let is_fixed := flt (fabs (fsub current_max current_min)) c_fixed_thr in
    let min_close := flt (fabs (fsub new_min current_min)) c_min_close in
    if is_fixed && min_close then Some c
    else
      match xset_min v (VlF new_min) c with
      | None => None
      | Some c1 => xset_max v (VlF new_max) c1
      end.

Definition flin_eq_step := flin_eq_step_gen true.
Definition flin_eq_step_prefix := flin_eq_step_gen false.
Definition prune_flin_eq_prefix (cs : list f64) (vs : list nat) (k : f64) (c : fctx) : option fctx :=
  flin_loop (flin_eq_step_prefix false cs vs k) cs vs 0 c.
Definition prune_flin_eq_gen (unb : bool) (cs : list f64) (vs : list nat) (k : f64) (c : fctx) : option fctx :=
  flin_loop (flin_eq_step unb cs vs k) cs vs 0 c.
Definition prune_flin_eq := prune_flin_eq_gen false.
Definition mk_flin_eq cs vs k : fprop := mkfprop (prune_flin_eq cs vs k) vs.

(* ---------------------------------------------------------------- FloatLinNe *)
(* exclude_value (linear.rs:1201-1240) *)
(* exclusion_delta: one step of a float variable (a fixed 1e-4 before the repair "disequalities are decided at the leaves of the
   search"; it emptied every float domain narrower than that), 1e-4 for an integer variable *)
Definition excl_delta (x : fvar) : f64 := match x with VF i => istep i | VI _ => c_excl_delta end.
Definition val_bump (x : fvar) (b : fval) (up : bool) : fval :=
  match b with
  | VlI z => VlI (if up then z + 1 else z - 1)
  | VlF f => VlF (if up then fadd f (excl_delta x) else fsub f (excl_delta x))
  end.
Definition exclude_value (v : nat) (forbidden : fval) (c : fctx) : option fctx :=
  let x := fget (fst c) v in
  let cmin := var_min x in
  let cmax := var_max x in
  if val_lt forbidden cmin || val_gt forbidden cmax then Some c
  else if val_eq cmin cmax && val_eq cmin forbidden then None
  else if val_eq cmin forbidden then xset_min v (val_bump x forbidden true) c
  else if val_eq cmax forbidden then xset_max v (val_bump x forbidden false) c
  else Some c.

(* is variable v "fixed" in the sense of FloatLinNe / compute_fixed_sum_float: |l - u| < 1e-12 for floats,
   l == u for ints; returns the term value l (as f64) when fixed *)
Definition ne_fixed_val (s : fstore) (v : nat) : option f64 :=
  match fget s v with
  | VF i => if flt (fabs (fsub (imin i) (imax i))) c_ne_fixed then Some (imin i) else None
  | VI d => if dmin d =? dmax d then Some (f64_of_Z (dmin d)) else None
  end.

Inductive ne_scan := NeTwo | NeScan (unfixed : option nat) (fixed_sum : f64).
Fixpoint ne_scan_loop (cs : list f64) (vs : list nat) (s : fstore) (i : nat) (unfixed : option nat) (fixed_sum : f64) : ne_scan :=
  match cs, vs with
  | coeff :: cs', v :: vs' =>
    match ne_fixed_val s v with
    | Some l => ne_scan_loop cs' vs' s (S i) unfixed (fadd fixed_sum (fmul coeff l))
    | None =>
      match unfixed with
      | Some _ => NeTwo
      | None => ne_scan_loop cs' vs' s (S i) (Some i) fixed_sum
      end
    end
  | _, _ => NeScan unfixed fixed_sum
  end.

(* FloatLinNe::prune / prune_float_lin_ne BEFORE the repair "disequalities are decided at the leaves of the search": only the
   scan below, whose notion of fixed (|max - min| < 1e-12) no interval the search has finished with satisfies *)
Definition prune_flin_ne_prefix (cs : list f64) (vs : list nat) (k : f64) (c : fctx) : option fctx :=
  match ne_scan_loop cs vs (fst c) 0 None c_zero with
  | NeTwo => Some c
  | NeScan None fixed_sum =>
    if flt (fabs (fsub fixed_sum k)) c_ne_eq then None else Some c
  | NeScan (Some idx) fixed_sum =>
    let coeff := nth idx cs c_zero in
    let v := nth idx vs O in
    if flt (fabs coeff) c_zero_coeff then
      (if flt (fabs (fsub fixed_sum k)) c_ne_eq then None else Some c)
    else exclude_value v (VlF (fdiv (fsub k fixed_sum) coeff)) c
  end.
(* assigned_sum_float (linear.rs): Some (sum of coeff * reported value) once every variable is assigned in the SEARCH's
   sense (Var::is_assigned: singleton integer domain, float interval at most one step wide); the reported value is the minimum *)
Fixpoint assigned_sum (cs : list f64) (vs : list nat) (s : fstore) (acc : f64) : option f64 :=
  match cs, vs with
  | coeff :: cs', v :: vs' =>
    if var_assigned (fget s v) then assigned_sum cs' vs' s (fadd acc (fmul coeff (as_f (var_min (fget s v))))) else None
  | _, _ => Some acc
  end.
(* FloatLinNe::prune = prune_float_lin_ne after the repair: at a leaf of the search the constraint is decided on the values a
   solution would report (|sum - k| < 1e-12 fails); otherwise the former scan *)
Definition prune_flin_ne (cs : list f64) (vs : list nat) (k : f64) (c : fctx) : option fctx :=
  match assigned_sum cs vs (fst c) c_zero with
  | Some sum => if flt (fabs (fsub sum k)) c_ne_eq then None else Some c
  | None => prune_flin_ne_prefix cs vs k c
  end.
Definition mk_flin_ne cs vs k : fprop := mkfprop (prune_flin_ne cs vs k) vs.

(* ---------------------------------------------------------------- reified forms *)
(* compute_fixed_sum_float (linear.rs:1281-1300) *)
Fixpoint fixed_sum_float (cs : list f64) (vs : list nat) (s : fstore) (acc : f64) : option f64 :=
  match cs, vs with
  | coeff :: cs', v :: vs' =>
    match ne_fixed_val s v with
    | Some l => fixed_sum_float cs' vs' s (fadd acc (fmul coeff l))
    | None => None
    end
  | _, _ => Some acc
  end.
(* compute_sum_bounds_float (linear.rs:1245-1278) *)
Fixpoint sum_bounds_float (cs : list f64) (vs : list nat) (s : fstore) (lo hi : f64) : f64 * f64 :=
  match cs, vs with
  | coeff :: cs', v :: vs' =>
    sum_bounds_float cs' vs' s (fadd lo (term_min coeff s v)) (fadd hi (term_max coeff s v))
  | _, _ => (lo, hi)
  end.
(* `reif_min == Val::ValI(1) && reif_max == Val::ValI(1)` through impl PartialEq for Val *)
Definition reif_is (s : fstore) (b : nat) (z : Z) : bool :=
  val_eq (var_min (fget s b)) (VlI z) && val_eq (var_max (fget s b)) (VlI z).
Definition set_reif (b : nat) (z : Z) (c : fctx) : option fctx :=
  match xset_min b (VlI z) c with None => None | Some c1 => xset_max b (VlI z) c1 end.

Definition prune_flin_eq_reif (cs : list f64) (vs : list nat) (k : f64) (b : nat) (c : fctx) : option fctx :=
  let s := fst c in
  if reif_is s b 1 then prune_flin_eq_gen true cs vs k c
  else if reif_is s b 0 then
    match fixed_sum_float cs vs s c_zero with
    | Some sum => if flt (fabs (fsub sum k)) c_ne_eq then None else Some c
    | None => Some c
    end
  else
    match fixed_sum_float cs vs s c_zero with
    | Some sum => if flt (fabs (fsub sum k)) c_ne_eq then set_reif b 1 c else set_reif b 0 c
    | None => Some c
    end.
(* the helper prune_float_lin_le (linear.rs:1410-1473) used by FloatLinLeReif is NOT FloatLinLe::prune: it skips a
   variable when another float variable is unbounded, and otherwise calls try_set_max / try_set_min unconditionally
   (no is_finite test, no "improves the bound" test, no -0.0 normalisation, integer variables ARE tightened) *)
Definition flin_le_helper_step (cs : list f64) (vs : list nat) (k : f64) (i : nat) (coeff : f64) (v : nat) (c : fctx) : option fctx :=
  if flt (fabs coeff) c_zero_coeff then Some c
  else
    let s := fst c in
    if others_unbounded vs s i 0 then Some c
    else
      let min_other := sum_others (fun cj vj => term_min cj s vj) cs vs i 0 c_zero in
      let remaining := fsub k min_other in
      if fgt coeff c_zero then xset_max v (VlF (fdiv remaining coeff)) c
      else xset_min v (VlF (fdiv remaining coeff)) c.
Definition prune_flin_le_helper (cs : list f64) (vs : list nat) (k : f64) (c : fctx) : option fctx :=
  flin_loop (flin_le_helper_step cs vs k) cs vs 0 c.

Definition prune_flin_le_reif (cs : list f64) (vs : list nat) (k : f64) (b : nat) (c : fctx) : option fctx :=
  let s := fst c in
  if reif_is s b 1 then prune_flin_le_helper cs vs k c
  else if reif_is s b 0 then
    match fixed_sum_float cs vs s c_zero with
    | Some sum => if fle sum k then None else Some c
    | None => Some c
    end
  else
    let '(min_sum, max_sum) := sum_bounds_float cs vs s c_zero c_zero in
    if fle max_sum k then set_reif b 1 c
    else if fgt min_sum k then set_reif b 0 c
    else Some c.
Definition prune_flin_ne_reif (cs : list f64) (vs : list nat) (k : f64) (b : nat) (c : fctx) : option fctx :=
  let s := fst c in
  if reif_is s b 1 then prune_flin_ne cs vs k c
  else if reif_is s b 0 then prune_flin_eq_gen true cs vs k c
  else
    match fixed_sum_float cs vs s c_zero with
    | Some sum => if fge (fabs (fsub sum k)) c_ne_eq then set_reif b 1 c else set_reif b 0 c
    | None => Some c
    end.
Definition mk_flin_eq_reif cs vs k b : fprop := mkfprop (prune_flin_eq_reif cs vs k b) (vs ++ [b]).
Definition mk_flin_le_reif cs vs k b : fprop := mkfprop (prune_flin_le_reif cs vs k b) (vs ++ [b]).
Definition mk_flin_ne_reif cs vs k b : fprop := mkfprop (prune_flin_ne_reif cs vs k b) (vs ++ [b]).

(* ---------------------------------------------------------------- comparisons over views *)
Definition under_list (w : fview) : list nat := match fv_under w with Some v => [v] | None => [] end.

(* LessThanOrEquals::prune: x.try_set_max(y.max)?; y.try_set_min(x.min)? *)
(* the two setter calls of LessThanOrEquals::prune for every operand pair but (float variable, float constant); also what
   LessThan::prune calls directly on its successor / predecessor views *)
Definition prune_fleq_plain (x y : fview) (c : fctx) : option fctx :=
  match fv_set_max x (fv_max y (fst c)) c with
  | None => None
  | Some c1 => fv_set_min y (fv_min x (fst c1)) c1
  end.
(* is_float_constant / is_float_variable (props/leq.rs) *)
Definition fv_is_const (w : fview) : bool := match fv_under w with Some _ => false | None => true end.
Definition fv_float_const (w : fview) (s : fstore) : bool := fv_is_float w s && fv_is_const w.
Definition fv_float_var (w : fview) (s : fstore) : bool := fv_is_float w s && negb (fv_is_const w).
(* bound_float_variable_above / _below (props/leq.rs, repair "a float variable is compared with a float constant through its own
   setters only"): the variable's setter decides; when the constant lies beyond the opposite bound within the setter's
   tolerance (the setter may then leave the variable as it is) the variable is fixed at that bound *)
Definition bound_above (x : fview) (k : fval) (c : fctx) : option fctx :=
  match fv_set_max x k c with
  | None => None
  | Some c1 => let mn := fv_min x (fst c1) in if val_lt k mn then fv_set_max x mn c1 else Some c1
  end.
Definition bound_below (x : fview) (k : fval) (c : fctx) : option fctx :=
  match fv_set_min x k c with
  | None => None
  | Some c1 => let mx := fv_max x (fst c1) in if val_gt k mx then fv_set_min x mx c1 else Some c1
  end.
(* LessThanOrEquals::prune.  prune_fleq_plain is also the code BEFORE that repair for every operand pair (the constant side
   re-tested exactly: Val::try_set_min / try_set_max) *)
Definition prune_fleq (x y : fview) (c : fctx) : option fctx :=
  if fv_float_const y (fst c) && fv_float_var x (fst c) then bound_above x (fv_max y (fst c)) c
  else if fv_float_const x (fst c) && fv_float_var y (fst c) then bound_below y (fv_min x (fst c)) c
  else prune_fleq_plain x y c.
Definition mk_fleq (x y : fview) : fprop := mkfprop (prune_fleq x y) (under_list x ++ under_list y).
(* LessThan::prune (props/leq.rs, after the repairs "strict comparison of an integer view with a float variable" and
   "... with a float constant"):
   x < y is x.next() <= y, except
     - for an integer-valued x below a float VARIABLE y, where it is x <= y.prev();
     - for an integer-valued x below a float CONSTANT c (a float-typed view without underlying variable), where the integer
       side is bounded directly: x <= ceil(c) - 1 (fails when no i32 lies below c, or c is NaN; `as i32` saturates upwards);
     - for a float CONSTANT c below an integer-valued y: y >= floor(c) + 1 (mirror image).
   prune_flt_prefix is the encoding before the first repair (always x.next() <= y), kept for mixed_strict_prefix_refuted;
   prune_flt_prefix_const the one between the two repairs, kept for strict_int_const_prefix_refuted. *)
Definition int_below_float_var (x y : fview) (s : fstore) : bool :=
  negb (fv_is_float x s) && fv_is_float y s && (match fv_under y with Some _ => true | None => false end).
Definition int_below_float_const (x y : fview) (s : fstore) : bool :=
  negb (fv_is_float x s) && fv_is_float y s && fv_is_const y.
Definition float_const_below_int (x y : fview) (s : fstore) : bool :=
  fv_is_float x s && fv_is_const x && negb (fv_is_float y s).
Definition prune_flt_prefix_const (x y : fview) (c : fctx) : option fctx :=
  if int_below_float_var x y (fst c) then prune_fleq_plain x (FPrev y) c else prune_fleq_plain (FNext x) y c.
Definition prune_flt (x y : fview) (c : fctx) : option fctx :=
  if int_below_float_var x y (fst c) then prune_fleq_plain x (FPrev y) c
  else if int_below_float_const x y (fst c) then
    let b := fsub (fceil (as_f (fv_max y (fst c)))) c_one in
    if fge b (f64_of_Z i32_lo) then fv_set_max x (VlI (to_i32 b)) c else None
  else if float_const_below_int x y (fst c) then
    let b := fadd (ffloor (as_f (fv_min x (fst c)))) c_one in
    if fle b (f64_of_Z i32_hi) then fv_set_min y (VlI (to_i32 b)) c else None
  else prune_fleq_plain (FNext x) y c.
Definition prune_flt_prefix (x y : fview) (c : fctx) : option fctx := prune_fleq_plain (FNext x) y c.
Definition mk_flt (x y : fview) : fprop := mkfprop (prune_flt x y) (under_list x ++ under_list y).   (* less_than *)
Definition mk_fgeq (x y : fview) : fprop := mk_fleq y x.               (* greater_than_or_equals *)
Definition mk_fgt (x y : fview) : fprop := mk_flt y x.                 (* greater_than: y < x *)

(* Eq::prune *)
Definition prune_feq_plain (x y : fview) (c : fctx) : option fctx :=
  match fv_set_min x (fv_min y (fst c)) c with
  | None => None
  | Some c1 =>
    match fv_set_max x (fv_max y (fst c1)) c1 with
    | None => None
    | Some c2 =>
      match fv_set_min y (fv_min x (fst c2)) c2 with
      | None => None
      | Some c3 => fv_set_max y (fv_max x (fst c3)) c3
      end
    end
  end.
Definition prune_feq (x y : fview) (c : fctx) : option fctx :=
  if fv_float_const y (fst c) && fv_float_var x (fst c) then
    match bound_below x (fv_min y (fst c)) c with None => None | Some c1 => bound_above x (fv_max y (fst c1)) c1 end
  else if fv_float_const x (fst c) && fv_float_var y (fst c) then
    match bound_below y (fv_min x (fst c)) c with None => None | Some c1 => bound_above y (fv_max x (fst c1)) c1 end
  else prune_feq_plain x y c.
Definition mk_feq (x y : fview) : fprop := mkfprop (prune_feq x y) (under_list x ++ under_list y).

(* ---------------------------------------------------------------- Add / Sub (float and mixed arms) *)
(* impl Add / Sub for Val (variables/core.rs:229-259): int (+/-) int stays an integer (i32 overflow is not modelled: Z),
   every other combination is computed in f64 after `i as f64` *)
Definition val_add (a b : fval) : fval :=
  match a, b with VlI x, VlI y => VlI (x + y) | _, _ => VlF (fadd (as_f a) (as_f b)) end.
Definition val_sub (a b : fval) : fval :=
  match a, b with VlI x, VlI y => VlI (x - y) | _, _ => VlF (fsub (as_f a) (as_f b)) end.

(* Add<U,V>::prune (props/add.rs:33-45), x + y == s with s a VarId: six setter calls, every bound read from the context
   as it is at that moment:
     s.try_set_min(x.min + y.min)?; s.try_set_max(x.max + y.max)?;
     x.try_set_min(s.min - y.max)?; x.try_set_max(s.max - y.min)?;
     y.try_set_min(s.min - x.max)?; y.try_set_max(s.max - x.min)?; *)
Definition prune_fadd (x y : fview) (s : nat) (c : fctx) : option fctx :=
  match xset_min s (val_add (fv_min x (fst c)) (fv_min y (fst c))) c with
  | None => None
  | Some c1 =>
    match xset_max s (val_add (fv_max x (fst c1)) (fv_max y (fst c1))) c1 with
    | None => None
    | Some c2 =>
      match fv_set_min x (val_sub (var_min (fget (fst c2) s)) (fv_max y (fst c2))) c2 with
      | None => None
      | Some c3 =>
        match fv_set_max x (val_sub (var_max (fget (fst c3) s)) (fv_min y (fst c3))) c3 with
        | None => None
        | Some c4 =>
          match fv_set_min y (val_sub (var_min (fget (fst c4) s)) (fv_max x (fst c4))) c4 with
          | None => None
          | Some c5 => fv_set_max y (val_sub (var_max (fget (fst c5) s)) (fv_min x (fst c5))) c5
          end
        end
      end
    end
  end.
(* list_trigger_vars: once(s).chain(x.get_underlying_var()).chain(y.get_underlying_var()) *)
Definition mk_fadd (x y : fview) (s : nat) : fprop := mkfprop (prune_fadd x y s) (s :: under_list x ++ under_list y).
(* Propagators::sub (props/mod.rs:543-547): x - y = s is posted as Add(x, y.times_neg(Val::ValI(-1)), s), and
   times_neg(-1) = TimesPos{ x: Opposite(y), scale: Val::ValI(1) } (views.rs:143-148).  TimesPos with the integer scale 1
   reads a float bound as `b * 1.0` and passes a float target on as `t / 1.0` (views.rs:1194-1275), an integer bound as
   `b * 1` / div_euclid(t, 1): the identity on every bit pattern (NaN payloads aside), so the view is modelled as
   Opposite(y).  The differential (family fprop_exact, kind `sub`) checks this bit for bit. *)
Definition mk_fsub (x y : fview) (s : nat) : fprop := mk_fadd x (FOpp y) s.

(* ---------------------------------------------------------------- Mul (float and mixed arms) *)
(* impl Mul / Div for Val (variables/core.rs:261-314): int * int stays an integer (i32 overflow is not modelled: Z); every
   other product is computed in f64.  Division always yields a float; a zero integer divisor or a float divisor with
   |b| < f64::EPSILON yields +-inf by the sign test `a >= 0`. *)
Definition c_pinf : f64 := of_bits 0x7ff0000000000000.
Definition c_ninf : f64 := of_bits 0xfff0000000000000.
Definition c_safe_div : f64 := fmul c_epsilon (of_bits safe_div_factor_bits).   (* f64::EPSILON * 1000.0 *)
Definition val_mul (a b : fval) : fval :=
  match a, b with VlI x, VlI y => VlI (x * y) | _, _ => VlF (fmul (as_f a) (as_f b)) end.
Definition val_div (a b : fval) : fval :=
  let tiny := match b with VlI y => y =? 0 | VlF y => flt (fabs y) c_epsilon end in
  let nonneg := match a with VlI x => 0 <=? x | VlF x => fge x c_zero end in
  if tiny then VlF (if nonneg then c_pinf else c_ninf) else VlF (fdiv (as_f a) (as_f b)).
(* Val::is_safe_divisor / safe_div (core.rs:88-103) *)
Definition val_safe_divisor (b : fval) : bool :=
  match b with VlI y => negb (y =? 0) | VlF y => fge (fabs y) c_safe_div end.
Definition val_safe_div (a b : fval) : option fval := if val_safe_divisor b then Some (val_div a b) else None.
(* Val::range_contains_unsafe_divisor (core.rs:113-120) *)
Definition range_unsafe (mn mx : fval) : bool :=
  match mn, mx with
  | VlI a, VlI b => (a <=? 0) && (0 <=? b)
  | _, _ => fle (as_f mn) c_epsilon && fge (as_f mx) (fneg c_epsilon)
  end.
(* `iter().fold(first, |acc, &x| if x < acc { x } else { acc })` and its mirror image (the first element is visited again) *)
Definition val_fold_min (first : fval) (l : list fval) : fval := fold_left (fun acc x => if val_lt x acc then x else acc) l first.
Definition val_fold_max (first : fval) (l : list fval) : fval := fold_left (fun acc x => if val_gt x acc then x else acc) l first.
Fixpoint somes (l : list (option fval)) : list fval :=
  match l with [] => [] | Some v :: t => v :: somes t | None :: t => somes t end.
(* the back-propagation block of Mul::prune (props/mul.rs:50-69 for x, 73-92 for y): candidates s/d for s in [s_min, s_max],
   d in [d_min, d_max] (in that order), divisions by an unsafe corner dropped, min and max of what is left *)
Definition mul_back (w : fview) (smin smax dmin dmax : fval) (c : fctx) : option fctx :=
  if range_unsafe dmin dmax then Some c else
  match somes [val_safe_div smin dmin; val_safe_div smin dmax; val_safe_div smax dmin; val_safe_div smax dmax] with
  | [] => Some c
  | c0 :: rest =>
    match fv_set_min w (val_fold_min c0 (c0 :: rest)) c with
    | None => None
    | Some c1 => fv_set_max w (val_fold_max c0 (c0 :: rest)) c1
    end
  end.
(* Mul<U,V>::prune (props/mul.rs:18-95), x * y == s with s a VarId.  The four operand bounds are read ONCE, before any
   setter call, and reused by both back-propagation blocks; s.min / s.max are re-read after the two forward calls. *)
Definition prune_fmul (x y : fview) (s : nat) (c : fctx) : option fctx :=
  let xmin := fv_min x (fst c) in let xmax := fv_max x (fst c) in
  let ymin := fv_min y (fst c) in let ymax := fv_max y (fst c) in
  let p0 := val_mul xmin ymin in
  let ps := [p0; val_mul xmin ymax; val_mul xmax ymin; val_mul xmax ymax] in
  match xset_min s (val_fold_min p0 ps) c with
  | None => None
  | Some c1 =>
    match xset_max s (val_fold_max p0 ps) c1 with
    | None => None
    | Some c2 =>
      let smin := var_min (fget (fst c2) s) in let smax := var_max (fget (fst c2) s) in
      match mul_back x smin smax ymin ymax c2 with
      | None => None
      | Some c3 => mul_back y smin smax xmin xmax c3
      end
    end
  end.
Definition mk_fmul (x y : fview) (s : nat) : fprop := mkfprop (prune_fmul x y s) (s :: under_list x ++ under_list y).

(* ---------------------------------------------------------------- IntLinLe on a mixed store *)
(* IntLinLe::prune (props/linear.rs:125-175) as it behaves when some of its variables are FLOAT variables -- which is
   what the runtime API produces for a fluent comparison whose coefficients and constant are all integer literals
   (x.le(y), x.lt(3), x.mul(2).le(5) ... with float x, y: try_convert_to_linear_ast, runtime_api/mod.rs:995-1083).
   While accumulating the OTHER terms, a float variable makes the whole prune return Some(()) (`_ => return Some(())`);
   the variable being tightened may itself be a float: it then receives an INTEGER bound computed with div_euclid. *)
Inductive ilin_others := IOFloat | IOSum (z : Z).
Fixpoint ilin_min_other (cs : list Z) (vs : list nat) (s : fstore) (i j : nat) (acc : Z) : ilin_others :=
  match cs, vs with
  | c :: cs', v :: vs' =>
    if Nat.eqb i j then ilin_min_other cs' vs' s i (S j) acc
    else match fget s v with
         | VF _ => IOFloat
         | VI d => ilin_min_other cs' vs' s i (S j) (acc + (if 0 <? c then c * dmin d else c * dmax d))
         end
  | _, _ => IOSum acc
  end.
(* result of one iteration: stop the whole prune (early return), or continue with a context / fail *)
Inductive ilin_step := ILStop (c : fctx) | ILNext (c : option fctx).
Definition ilin_le_step (cs : list Z) (vs : list nat) (k : Z) (i : nat) (coeff : Z) (v : nat) (c : fctx) : ilin_step :=
  if coeff =? 0 then ILNext (Some c)
  else match ilin_min_other cs vs (fst c) i 0 0 with
       | IOFloat => ILStop c
       | IOSum min_other =>
         let remaining := k - min_other in
         if 0 <? coeff then ILNext (xset_max v (VlI (ediv remaining coeff)) c)
         else ILNext (xset_min v (VlI (ediv remaining coeff)) c)
       end.
Fixpoint ilin_le_loop (cs0 : list Z) (vs0 : list nat) (k : Z) (cs : list Z) (vs : list nat) (i : nat) (c : fctx) : option fctx :=
  match cs, vs with
  | coeff :: cs', v :: vs' =>
    match ilin_le_step cs0 vs0 k i coeff v c with
    | ILStop c1 => Some c1
    | ILNext None => None
    | ILNext (Some c1) => ilin_le_loop cs0 vs0 k cs' vs' (S i) c1
    end
  | _, _ => Some c
  end.
Definition prune_ilin_le_mixed (cs : list Z) (vs : list nat) (k : Z) (c : fctx) : option fctx :=
  ilin_le_loop cs vs k cs vs 0 c.
Definition mk_ilin_le_mixed cs vs k : fprop := mkfprop (prune_ilin_le_mixed cs vs k) vs.
