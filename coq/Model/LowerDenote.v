(* Denotation of the propagator descriptions of Model/Lower.v into the propagator records of
   Model/Props/{Basic,LinInt,Arith}.v.  `sat (denote p) = psat p` (denote_sat): the theorems of
   Properties/C10.v about `psat` are theorems about these records; fluent_model_solutions is
   instantiated with den := denote.
   Mul / Modulo: the records of Props/Arith.v that transcribe the sources AS THEY ARE at the pinned
   commit (mk_mod_prefix); switch to mk_mod when fixes/modulo_sound.patch is applied to /repo. *)
Require Import Selen.Model.Prelude Selen.Model.Dom Selen.Model.Views Selen.Model.PropDefs.
Require Import Selen.Model.Props.Basic Selen.Model.Props.LinInt Selen.Model.Props.Arith Selen.Model.Props.Neq Selen.Model.Api Selen.Model.Lower.

Definition denote (p : pdesc) : prop :=
  match p with
  | PAdd x y s => mk_add x y s
  | PMul x y s => mk_mul x y s
  | PMod x y s => mk_mod_prefix x y s
  | PLeq x y => mk_leq x y
  | PEq x y => mk_eq x y
  | PNeq x y => mk_neq x y
  | PLinEq cs xs k => mk_lin_eq cs xs k
  | PLinLe cs xs k => mk_lin_le cs xs k
  | PLinNe cs xs k => mk_lin_ne cs xs k
  end.

Lemma denote_sat : forall p a, sat (denote p) a = psat p a.
Proof. intros p a; destruct p; reflexivity. Qed.

Lemma denote_basic_agrees : forall p q, denote_basic p = Some q -> denote p = q.
Proof. intros p q H; destruct p; simpl in H; inversion H; reflexivity. Qed.
