(* Time and memory limits (C15): Engine::next's periodic limit check (search/mod.rs:589-614), the
   memory estimate (get_memory_usage_mb), and the post-hoc error mapping of Model::solve /
   minimize / enumerate_with_stats (model/core.rs).  The depth-first search of Model/Search.v is
   re-run with an iteration counter.  Engine::limit_reached (the periodic limit test) is executed
   (i) at the first call of next(), (ii) when the consumer asks for the next solution after one was
   yielded, (iii) after a child subtree is exhausted and its parent iterator is popped — these
   three are the head of the engine's outer loop — and, since the repair `limits_deep`, (iv) when
   the engine DESCENDS: a stalled child has been pushed (the stack is one frame deeper) and the
   inner while loop is about to `continue` with the child's iterator.  Every execution increments
   iteration_count and, when it is a multiple of the check interval, consults the clock (an
   oracle `clock : Z -> bool` on the check index) and then the memory estimate.
   (Before the repair (iv) was missing: a search that only descends never looked at its limits.)
   The wall-clock deadline inside search::propagate_until (a propagation still running when the
   time limit has passed is given up and reported as a failed space; the engine then looks at the
   clock and returns None, search_with_timeout_and_memory answers Search::TimedOut) is modelled as
   what it is: a second oracle `giveup` that may turn ANY propagation — of the root or of a child —
   into "the deadline has passed".  It is a function of the space handed to the propagation (the
   spaces propagated in one run are pairwise different, so this is as general as an oracle on the
   index of the call).  `nogiveup` is the oracle of a run without time limit; the scripted clock of
   hook H4 never reaches propagate_until, so the differential runs the model with `nogiveup`. *)
Require Import Selen.Model.Prelude Selen.Model.Dom Selen.Model.Views Selen.Model.PropDefs.
Require Import Selen.Model.Props.Basic Selen.Model.Propagate Selen.Model.Search.
Require Import Selen.Generated.Consts.

Inductive limit := LTimeout | LMemory.

Record lstate := mkl { iters : Z; checks : Z }.

(* Engine::get_memory_usage_mb: ((512 + 3*stack + 2 + (iters/10000)*5) / 1024).max(1); the numbers are
   regenerated from the source on every run (Generated/Consts.v) *)
Definition mem_usage (depth : nat) (iters : Z) : Z :=
  Z.max mem_min_mb ((mem_base_kb + mem_frame_kb * Z.of_nat depth + mem_current_kb + (iters / mem_iter_div) * mem_iter_kb) / mem_kb_per_mb).
Definition mem_exceeded (mlimit : option Z) (depth : nat) (iters : Z) : bool :=
  match mlimit with Some l => l <? mem_usage depth iters | None => false end.

Section Limits.
  Variable pick : sched.
  Variable m : mode.
  Variable interval : Z.              (* timeout_check_interval, > 0 *)
  Variable clock : Z -> bool.        (* clock k = the time limit is seen as expired at the k-th check *)
  Variable mlimit : option Z.       (* memory_limit_mb *)
  (* giveup ps s = the propagation of the space (ps, s) is still running when the deadline passes
     (propagate_until answers None and the clock says "expired"), or fails after it has passed *)
  Variable giveup : list prop -> store -> bool.

  (* one entry of the engine's outer loop at stack depth `depth` *)
  Definition tick (depth : nat) (l : lstate) : lstate + (limit * lstate) :=
    let it := iters l + 1 in
    if it mod interval =? 0 then
      let ck := checks l + 1 in
      if clock ck then inr (LTimeout, mkl it ck)
      else if mem_exceeded mlimit depth it then inr (LMemory, mkl it ck)
      else inl (mkl it ck)
    else inl (mkl it (checks l)).

  Inductive stop := SExhausted | SLimit (w : limit) | SConsumer.

  (* result of exploring: the solutions yielded, the mode state, the limit state, why the
     iteration stopped and the stack depth at that moment *)
  Inductive lres :=
  | LFuel
  | LStop (sols : list store) (best : option Z) (l : lstate) (why : stop) (depth : nat).

  (* whether the consumer calls next() again after a solution (false for Model::solve) *)
  Variable resume : bool.

  Fixpoint dfs_lim (fuel : nat) (depth : nat) (ps : list prop) (s : store) (best : option Z) (l : lstate) : lres :=
    match fuel with
    | O => LFuel
    | S f =>
        match first_unassigned s 0 with
        | None => LStop [] best l SExhausted depth
        | Some pivot =>
          let mid := dmid (sget s pivot) in
          let child (branchp : prop) (best : option Z) (l : lstate) : lres :=
            let ps1 := ps ++ [branchp] in
            let bid := length ps in
            let mp := on_branch_props m best in
            let ps2 := ps1 ++ mp in
            let ag := agenda_with (seq (S bid) (length mp) ++ [bid]) in
            (* propagate_until gives up at the deadline: `trigger_cleanup(); return None`, and
               is_timed_out() is true from then on *)
            if giveup ps2 s then LStop [] best l (SLimit LTimeout) depth else
            match propagate pick (prop_fuel ps2 s ag) ps2 s ag with
            | PFuel => LFuel
            | PFail => LStop [] best l SExhausted depth
            | PDone s' =>
              if all_fixed s' then
                if resume then
                  (* the consumer asks again: the outer loop is entered again at this depth *)
                  match tick depth l with
                  | inr (w, l') => LStop [s'] (on_solution m best s') l' (SLimit w) depth
                  | inl l' => LStop [s'] (on_solution m best s') l' SExhausted depth
                  end
                else LStop [s'] (on_solution m best s') l SConsumer depth
              else
                (* stalled: the child is pushed (depth + 1 frames) and the limits are tested before the
                   inner while loop `continue`s with the new iterator *)
                match tick (S depth) l with
                | inr (w, l0) => LStop [] best l0 (SLimit w) (S depth)
                | inl l0 =>
                match dfs_lim f (S depth) ps2 s' best l0 with
                | LFuel => LFuel
                | LStop sols b l' SExhausted _ =>
                  (* subtree exhausted: its iterator is popped, the outer loop is entered again here *)
                  match tick depth l' with
                  | inr (w, l'') => LStop sols b l'' (SLimit w) depth
                  | inl l'' => LStop sols b l'' SExhausted depth
                  end
                | r => r
                end
                end
            end in
          match child (mk_leq (VVar pivot) (VConst mid)) best l with
          | LFuel => LFuel
          | LStop sols1 b1 l2 SExhausted _ =>
            match child (mk_gt (VVar pivot) (VConst mid)) b1 l2 with
            | LFuel => LFuel
            | LStop sols2 b2 l3 w d => LStop (sols1 ++ sols2) b2 l3 w d
            end
          | r => r
          end
        end
    end.

  (* search_with_timeout_and_memory (LP block off): root propagation, then the engine *)
  Definition search_lim (ps : list prop) (s : store) : lres + option store :=
    let ag := agenda_with (seq 0 (length ps)) in
    (* the root propagation is given up at the deadline: Search::TimedOut — yields nothing,
       is_timed_out() = true, no limit check was made *)
    if giveup ps s then inl (LStop [] None (mkl 0 0) (SLimit LTimeout) 0) else
    match propagate pick (prop_fuel ps s ag) ps s ag with
    | PFuel => inl LFuel
    | PFail => inr None                                (* Search::Done(None) *)
    | PDone s' =>
      if all_fixed s' then inr (Some s')               (* Search::Done(Some space) *)
      else
        (* first call of Engine::next: the outer loop is entered once *)
        match tick 0 (mkl 0 0) with
        | inr (w, l') => inl (LStop [] None l' (SLimit w) 0)
        | inl l1 => inl (dfs_lim (S (total_size s')) 0 ps s' None l1)
        end
    end.
End Limits.

Inductive outcome := OOk (t : store) | ONoSolution | OTimeout | OMemory | OFuelOut.

Definition timed_out (why : stop) (late : bool) : bool :=
  match why with SLimit LTimeout => true | _ => late end.

(* Model::solve: build-time memory flag, first solution, then is_timed_out / is_memory_limit_exceeded
   / result, in this order (core.rs:1501-1583).  `late` = what the real clock says when solve asks
   after the iterator returned (true whenever a check already saw the limit expired). *)
Definition solve_lim_g (pick : sched) (interval : Z) (clock : Z -> bool) (mlimit : option Z)
           (giveup : list prop -> store -> bool)
           (buildmem late : bool) (ps : list prop) (s : store) : outcome * Z :=
  if buildmem then (OMemory, 0) else
  match search_lim pick None interval clock mlimit giveup false ps s with
  | inr None => (ONoSolution, 0)
  | inr (Some t) => (OOk t, 0)
  | inl LFuel => (OFuelOut, 0)
  | inl (LStop sols _ l why depth) =>
    (if timed_out why late then OTimeout
     else if mem_exceeded mlimit depth (iters l) then OMemory
     else match sols with t :: _ => OOk t | [] => ONoSolution end, checks l)
  end.

(* Model::minimize (search path): iterate to the first None, keep the last solution (core.rs:432-557) *)
Definition minimize_lim_g (pick : sched) (interval : Z) (clock : Z -> bool) (mlimit : option Z)
           (giveup : list prop -> store -> bool)
           (buildmem late : bool) (obj : view) (ps : list prop) (s : store) : outcome * Z :=
  if buildmem then (OMemory, 0) else
  match search_lim pick (Some obj) interval clock mlimit giveup true ps s with
  | inr None => (ONoSolution, 0)
  | inr (Some t) => (OOk t, 0)
  | inl LFuel => (OFuelOut, 0)
  | inl (LStop sols _ l why depth) =>
    (if timed_out why late then OTimeout
     else if mem_exceeded mlimit depth (iters l) then OMemory
     else match last (map Some sols) None with Some t => OOk t | None => ONoSolution end, checks l)
  end.

(* Model::enumerate_with_stats / enumerate consumed until the first None: the solutions collected *)
Definition enumerate_lim_g (pick : sched) (interval : Z) (clock : Z -> bool) (mlimit : option Z)
           (giveup : list prop -> store -> bool)
           (buildmem : bool) (ps : list prop) (s : store) : option (list store * Z) :=
  if buildmem then Some ([], 0) else
  match search_lim pick None interval clock mlimit giveup true ps s with
  | inr None => Some ([], 0)
  | inr (Some t) => Some ([t], 0)
  | inl LFuel => None
  | inl (LStop sols _ l _ _) => Some (sols, checks l)
  end.

(* no propagation is ever given up (no time limit configured, or the scripted clock of hook H4) *)
Definition nogiveup : list prop -> store -> bool := fun _ _ => false.

(* the entry points under the periodic limit test alone: what hook H4 can script, and what the
   differential compares check for check *)
Definition solve_lim (pick : sched) (interval : Z) (clock : Z -> bool) (mlimit : option Z)
           (buildmem late : bool) (ps : list prop) (s : store) : outcome * Z :=
  solve_lim_g pick interval clock mlimit nogiveup buildmem late ps s.
Definition minimize_lim (pick : sched) (interval : Z) (clock : Z -> bool) (mlimit : option Z)
           (buildmem late : bool) (obj : view) (ps : list prop) (s : store) : outcome * Z :=
  minimize_lim_g pick interval clock mlimit nogiveup buildmem late obj ps s.
Definition enumerate_lim (pick : sched) (interval : Z) (clock : Z -> bool) (mlimit : option Z)
           (buildmem : bool) (ps : list prop) (s : store) : option (list store * Z) :=
  enumerate_lim_g pick interval clock mlimit nogiveup buildmem ps s.

Definition never : Z -> bool := fun _ => false.
(* the scripted clock of hook H4: expired from the k-th check on *)
Definition from_check (k : Z) : Z -> bool := fun n => k <=? n.
