(* Model-level API, integer fragment (src/runtime_api/mod.rs, src/model/factory.rs,
   src/constraints/api/{arithmetic,linear}.rs): syntax of fluent expression trees and constraints,
   the smart constructors of the public fluent methods (constant folding, x*1 / 1*x identities),
   model programs, and the SPECIFICATION side: evaluation of trees (DESIGN.md Appendix A).

   `expr` is ExprBuilder (runtime_api/mod.rs:88-103) without `Div`: Model::div / the Div arm create
   FLOAT result variables even for integer operands, so trees containing `/` are outside the integer
   fragment.  All values are Val::ValI; i32 arithmetic is unbounded Z (InRange, C17). *)
Require Import Selen.Model.Prelude Selen.Model.Dom.

Inductive expr :=
| EVar (v : nat)                 (* ExprBuilder::Var(VarId) *)
| EVal (c : Z)                   (* ExprBuilder::Val(Val::ValI c) *)
| EAdd (a b : expr)
| ESub (a b : expr)
| EMul (a b : expr)
| EMod (a b : expr).

Inductive cmp := OEq | ONe | OLt | OLe | OGt | OGe.    (* ComparisonOp *)

(* ConstraintKind, the arms reachable from fluent trees and from lin_eq / lin_le / lin_ne *)
Inductive cons :=
| CBin (l : expr) (op : cmp) (r : expr)
| CAnd (a b : cons)
| COr (a b : cons)
| CNot (a : cons)
| CLinInt (cs : list Z) (xs : list nat) (op : cmp) (k : Z).

(* ---- the public fluent methods ExprBuilder::{add,sub,mul,modulo} (runtime_api:546-626) ---- *)
Definition e_add (a b : expr) : expr :=
  match a, b with EVal x, EVal y => EVal (x + y) | _, _ => EAdd a b end.
Definition e_sub (a b : expr) : expr :=
  match a, b with EVal x, EVal y => EVal (x - y) | _, _ => ESub a b end.
Definition is_one (e : expr) : bool := match e with EVal c => c =? 1 | _ => false end.
Definition e_mul (a b : expr) : expr :=
  match a, b with
  | EVal x, EVal y => EVal (x * y)
  | _, _ => if is_one b then a else if is_one a then b else EMul a b
  end.
Definition e_mod (a b : expr) : expr := EMod a b.     (* no folding *)

(* A user's call tree is read as an `expr` (its arithmetic reading); the ExprBuilder value the
   calls actually produce is `fold e` (every node rebuilt through the method). *)
Fixpoint fold (e : expr) : expr :=
  match e with
  | EVar _ | EVal _ => e
  | EAdd a b => e_add (fold a) (fold b)
  | ESub a b => e_sub (fold a) (fold b)
  | EMul a b => e_mul (fold a) (fold b)
  | EMod a b => e_mod (fold a) (fold b)
  end.
(* eq/ne/lt/le/gt/ge, and/or/not build the node without any rewriting *)
Fixpoint fold_cons (c : cons) : cons :=
  match c with
  | CBin l op r => CBin (fold l) op (fold r)
  | CAnd a b => CAnd (fold_cons a) (fold_cons b)
  | COr a b => COr (fold_cons a) (fold_cons b)
  | CNot a => CNot (fold_cons a)
  | CLinInt _ _ _ _ => c
  end.

(* ---- the boolean-combinator helpers over a Vec<Constraint> (runtime_api/mod.rs:725-762) ----
   Constraint::and_all / or_all: None on an empty vector, otherwise
   `constraints.into_iter().reduce(|acc, c| acc.and(c))` — a LEFT-nested chain of And / Or nodes;
   the free functions and_all / or_all call them, all_of = and_all, any_of = or_all. *)
Definition c_and_all (cs : list cons) : option cons :=
  match cs with [] => None | c :: r => Some (fold_left CAnd r c) end.
Definition c_or_all (cs : list cons) : option cons :=
  match cs with [] => None | c :: r => Some (fold_left COr r c) end.
Definition c_all_of (cs : list cons) : option cons := c_and_all cs.
Definition c_any_of (cs : list cons) : option cons := c_or_all cs.

(* ---- model programs ---- *)
Inductive afn := FAdd | FSub | FMul.      (* Model::{add,sub,mul}(x, y) on two variables *)
Inductive stmt :=
| SInt (lo hi : Z)                         (* m.int(lo, hi) *)
| SSet (vs : list Z)                       (* m.intset(vs) *)
| SBool                                    (* m.bool() *)
| SNew (c : cons)                          (* m.new(<c built with the fluent methods>) *)
| SLin (op : cmp) (cs : list Z) (xs : list nat) (k : Z)   (* m.lin_eq / lin_le / lin_ne (op = OEq/OLe/ONe) *)
| SApi (f : afn) (x y : nat).              (* let r = m.add(x, y) etc.: r is the next user variable *)
(* Variables in statements are USER ORDINALS (the i-th variable handle the program obtained from
   int/intset/bool/add/sub/mul); `build` maps them to VarIds. *)

(* ---- specification: the arithmetic reading (asg = nat -> Z, Dom.v) ---- *)

Fixpoint eval_expr (e : expr) (a : asg) : option Z :=
  match e with
  | EVar v => Some (a v)
  | EVal c => Some c
  | EAdd x y => do p <- eval_expr x a; do q <- eval_expr y a; Some (p + q)
  | ESub x y => do p <- eval_expr x a; do q <- eval_expr y a; Some (p - q)
  | EMul x y => do p <- eval_expr x a; do q <- eval_expr y a; Some (p * q)
  | EMod x y => do p <- eval_expr x a; do q <- eval_expr y a;
                if q =? 0 then None else Some (trem p q)          (* Rust `%` *)
  end.

Definition cmp_sem (op : cmp) (x y : Z) : bool :=
  match op with
  | OEq => x =? y | ONe => negb (x =? y)
  | OLt => x <? y | OLe => x <=? y | OGt => y <? x | OGe => y <=? x
  end.

Fixpoint lin_val (cs : list Z) (xs : list nat) (a : asg) : Z :=
  match cs, xs with
  | c :: cr, x :: xr => c * a x + lin_val cr xr a
  | _, _ => 0
  end.

(* None = some modulo has a zero divisor: undefined, never a solution *)
Fixpoint eval_cons (c : cons) (a : asg) : option bool :=
  match c with
  | CBin l op r => do x <- eval_expr l a; do y <- eval_expr r a; Some (cmp_sem op x y)
  | CAnd p q => do x <- eval_cons p a; do y <- eval_cons q a; Some (x && y)
  | COr p q => do x <- eval_cons p a; do y <- eval_cons q a; Some (x || y)
  | CNot p => do x <- eval_cons p a; Some (negb x)
  | CLinInt cs xs op k => Some (cmp_sem op (lin_val cs xs a) k)
  end.

Definition holds (c : cons) (a : asg) : bool :=
  match eval_cons c a with Some true => true | _ => false end.

(* meaning of a posting statement (declarations mean `true`; SApi is a definition, see Lower.v) *)
Definition stmt_cons (s : stmt) : option cons :=
  match s with
  | SNew c => Some c
  | SLin op cs xs k => Some (CLinInt cs xs op k)
  | _ => None
  end.
