(* Specification-side definitions for the generic theorems about propagation and search. *)
Require Import Selen.Model.Prelude Selen.Model.Dom Selen.Model.Views Selen.Model.PropDefs.
Require Import Selen.Model.Props.Basic Selen.Model.Propagate Selen.Model.Search.

(* a solution of the constraint list inside the store *)
Definition sol (ps : list prop) (s : store) (a : asg) : Prop :=
  inst a s /\ forall p, In p ps -> sat p a = true.

(* the assignment a fully fixed store denotes *)
Definition asg_of (s : store) : asg := fun v => dmin (sget s v).

Definition scoped (ps : list prop) (n : nat) : Prop := Forall (fun p => in_scope p n) ps.

(* every propagator that is not scheduled is at its fixpoint on s *)
Definition stable (ps : list prop) (s : store) (q : list nat) : Prop :=
  forall i p, nth_error ps i = Some p -> ~ In i q -> prune p (s, []) = Some (s, []).

(* the objective values of a sequence of yielded stores *)
Definition objs (obj : view) (l : list store) : list Z := map (fun t => vsem obj (asg_of t)) l.
Fixpoint strictly_decreasing (l : list Z) : Prop :=
  match l with
  | [] => True
  | x :: r => match r with [] => True | y :: _ => y < x /\ strictly_decreasing r end
  end.
