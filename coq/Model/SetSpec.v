(* The specification side of C11: a plain mathematical set of integers (a list read as a set)
   inside a fixed universe [ulo, ulo+un), with snapshots that are simply remembered sets.
   This is the "simplest possible spec"; the refinement theorem is in Properties/C11.v. *)
Require Import Selen.Model.Prelude Selen.Model.SparseSet.

Record spec := mkspec {
  ulo : Z; un : nat;                 (* universe, fixed *)
  cur : list Z;                      (* current set *)
  snaps : list (list Z * bool);      (* remembered sets; flag = a union_with happened since it was taken *)
  bad : bool }.                      (* a flagged snapshot has been restored (known class D7) *)

Definition in_univ (sp : spec) (x : Z) : bool := (ulo sp <=? x) && (x <? ulo sp + Z.of_nat (un sp)).

Definition set_cur (sp : spec) (c : list Z) : spec := mkspec (ulo sp) (un sp) c (snaps sp) (bad sp).

Definition spec_step (sp : spec) (o : ssop) : spec :=
  match o with
  | ORemove x => set_cur sp (filter (fun y => negb (y =? x)) (cur sp))
  | ORemoveAll => set_cur sp []
  | OOnly x => set_cur sp (filter (fun y => y =? x) (cur sp))
  | OBelow x => set_cur sp (filter (fun y => x <=? y) (cur sp))
  | OAbove x => set_cur sp (filter (fun y => y <=? x) (cur sp))
  | OInter l => set_cur sp (filter (fun y => memZ y l) (cur sp))
  | ODiff l => set_cur sp (filter (fun y => negb (memZ y l)) (cur sp))
  | OUnion l =>
      let added := filter (fun y => in_univ sp y && negb (memZ y (cur sp))) l in
      mkspec (ulo sp) (un sp)
             (cur sp ++ added)
             (match added with [] => snaps sp | _ => map (fun p => (fst p, true)) (snaps sp) end)
             (bad sp)
  | OSave => mkspec (ulo sp) (un sp) (cur sp) (snaps sp ++ [(cur sp, false)]) (bad sp)
  | ORestore k =>
      match nth_error (snaps sp) k with
      | Some (c, fl) => mkspec (ulo sp) (un sp) c (firstn (S k) (snaps sp)) (bad sp || fl)
      | None => sp
      end
  end.

Definition spec_run (ops : list ssop) (sp : spec) : spec := fold_left spec_step ops sp.

Definition spec_init (s : sset) : spec := mkspec (off s) (n s) (ss_iter s) [] false.

(* observations on the spec side *)
Definition universe (sp : spec) : list Z := zrange (ulo sp) (ulo sp + Z.of_nat (un sp)).

(* What "agrees with the plain set" means for every observation the public API offers.
   min/max are only defined (Rust: debug_assert) on a non-empty set. *)
Definition obs_agree (s : sset) (sp : spec) : Prop :=
  (forall x, In x (ss_iter s) <-> In x (cur sp)) /\
  NoDup (ss_iter s) /\
  (forall x, ss_contains s x = true <-> In x (cur sp)) /\
  (ss_is_empty s = true <-> forall x, ~ In x (cur sp)) /\
  (ss_is_fixed s = true <-> exists v, In v (cur sp) /\ forall x, In x (cur sp) -> x = v) /\
  (ss_is_empty s = false ->
     In (ss_min s) (cur sp) /\ In (ss_max s) (cur sp) /\
     forall x, In x (cur sp) -> ss_min s <= x <= ss_max s) /\
  (forall x, In x (ss_complement_iter s) <-> In x (universe sp) /\ ~ In x (cur sp)) /\
  NoDup (ss_complement_iter s) /\
  (forall v, ss_first s = Some v -> In v (cur sp)) /\
  (forall v, ss_last s = Some v -> In v (cur sp)) /\
  (ss_first s = None <-> forall x, ~ In x (cur sp)).
