(* Propagation and depth-first bisection search over mixed float / integer stores: search::propagate
   (search/mod.rs:676-712), split_on_unassigned (search/branch.rs), Mode = Enumerate | Minimize
   (search/mode.rs) and Engine::next (search/mod.rs:589-672), with the float-specific pieces
     pivot  = first variable (by index) that is not assigned; a float variable is assigned when
              FloatInterval::is_fixed, i.e. round((max-min)/step) as usize <= 1
     mid    = Var::mid (FloatInterval::mid = round_to_step(min + (max-min)/2) for floats)
     left   = less_than_or_equals(pivot, mid)        = LessThanOrEquals(pivot, Val mid)
     right  = greater_than(pivot, mid)               = LessThanOrEquals(Next<Val>(mid), pivot)
              NB Next<Val> of a FLOAT constant is the constant itself (views.rs:652-655), so for a float pivot
              the right child is `mid <= pivot`, not `mid < pivot`
     Minimize::on_branch = less_than(objective, best) = LessThanOrEquals(Next(objective), Val best)
     value reported for a variable = Var::get_assignment = interval.min for floats
   The structure is that of Model/Search.v (recursive DFS threading the mode state in visiting order);
   the agenda is the FIFO queue without duplicates of Model/Propagate.v (hook H3 perturbation is not used
   for float models).  Fuel: `fuel` bounds the depth, `budget` is ONE global work budget (visited nodes + propagator runs, threaded
   through every propagation), `maxsols` the number of solutions after which the search is abandoned (StopMore; the tie collects at most 40).
   The root LP step (search/mod.rs:96-228) and the optimisation fast path are NOT part of this model. *)
From Coq Require Import ZArith Bool List.
Import ListNotations.
From Flocq Require Import Core.Core IEEE754.BinarySingleNaN IEEE754.Binary IEEE754.Bits.
Require Import Selen.Model.Prelude Selen.Model.Dom Selen.Model.Propagate.
Require Import Selen.Model.B64 Selen.Model.FloatInterval Selen.Model.CtxFloat Selen.Model.FloatStore Selen.Model.FloatProps.
Open Scope Z_scope.

(* dependencies[v]: PropIds whose trigger list contains v, in registration order, with repetitions *)
Fixpoint fdeps_from (ps : list fprop) (i : nat) (v : nat) : list nat :=
  match ps with
  | [] => []
  | p :: r => map (fun _ => i) (filter (Nat.eqb v) (ftrig p)) ++ fdeps_from r (S i) v
  end.
Definition fdeps (ps : list fprop) (v : nat) : list nat := fdeps_from ps 0 v.
Definition fschedule_events (ps : list fprop) (q : list nat) (ev : list nat) : list nat :=
  fold_left (fun q v => fold_left schedule (fdeps ps v) q) ev q.

Inductive fpresult := FPFail | FPFuel | FPDone (s : fstore).

(* returns the result and the fuel left (the search threads one global work budget through all propagations) *)
Fixpoint fpropagate (pf : nat) (ps : list fprop) (s : fstore) (q : list nat) : fpresult * nat :=
  match q with
  | [] => (FPDone s, pf)
  | p :: q' =>
    match pf with
    | O => (FPFuel, O)
    | S f =>
      match nth_error ps p with
      | None => (FPFail, f)
      | Some pr =>
        match fprune pr (s, []) with
        | None => (FPFail, f)
        | Some (s', ev) => fpropagate f ps s' (fschedule_events ps q' ev)
        end
      end
    end
  end.

(* propagate all: every propagator scheduled in PropId order (Agenda::with_props(get_prop_ids_iter)) *)
Definition fpropagate_all (pf : nat) (ps : list fprop) (s : fstore) : fpresult :=
  fst (fpropagate pf ps s (agenda_with (seq 0 (length ps)))).

(* Mode: None = Enumerate, Some obj = Minimize{objective}; state = minimum_opt *)
Definition fmode := option fview.
Definition fon_branch_props (m : fmode) (best : option fval) : list fprop :=
  match m, best with
  | Some obj, Some b => [mk_flt obj (FConst b)]
  | _, _ => []
  end.
Definition fon_solution (m : fmode) (best : option fval) (s : fstore) : option fval :=
  match m with Some obj => Some (fv_min obj s) | None => best end.

Definition fsolution (s : fstore) : list fval := map var_value s.

(* result: solutions in visiting order, mode state, node budget left, stop flag (fuel / budget / maxsols /
   a panic of FloatInterval::mid) *)
Inductive fstop := Running | StopMore | StopFuel | StopPanic.
Record fsres := mkfsres { fs_sols : list (list fval); fs_best : option fval; fs_budget : nat; fs_stop : fstop }.

Section FEngine.
  Variable m : fmode.
  Variable maxsols : nat.

  Fixpoint fdfs (fuel : nat) (ps : list fprop) (s : fstore) (best : option fval) (budget : nat) (nsol : nat) : fsres :=
    match fuel with
    | O => mkfsres [] best budget StopFuel
    | S f =>
      match ffirst_unassigned s 0 with
      | None => mkfsres [] best budget Running
      | Some pivot =>
        match var_mid (fget s pivot) with
        | None => mkfsres [] best budget StopPanic
        | Some mid =>
          let child (branchp : fprop) (best : option fval) (budget : nat) (nsol : nat) : fsres :=
            match budget with
            | O => mkfsres [] best O StopFuel
            | S budget' =>
              let ps1 := ps ++ [branchp] in
              let bid := length ps in
              let mp := fon_branch_props m best in
              let ps2 := ps1 ++ mp in
              let ag := agenda_with (seq (S bid) (length mp) ++ [bid]) in
              match fpropagate budget' ps2 s ag with
              | (FPFuel, _) => mkfsres [] best O StopFuel
              | (FPFail, lft) => mkfsres [] best lft Running
              | (FPDone s', lft) =>
                if fall_assigned s' then
                  mkfsres [fsolution s'] (fon_solution m best s') lft
                          (if Nat.leb maxsols (S nsol) then StopMore else Running)
                else fdfs f ps2 s' best lft nsol
              end
            end in
          let r1 := child (mk_fleq (FVar pivot) (FConst mid)) best budget nsol in
          match fs_stop r1 with
          | Running =>
            let r2 := child (mk_fgt (FVar pivot) (FConst mid)) (fs_best r1) (fs_budget r1) (nsol + length (fs_sols r1))%nat in
            mkfsres (fs_sols r1 ++ fs_sols r2) (fs_best r2) (fs_budget r2) (fs_stop r2)
          | _ => r1
          end
        end
      end
    end.

  Definition fsearch (fuel budget : nat) (ps : list fprop) (s : fstore) : fsres :=
    match fpropagate budget ps s (agenda_with (seq 0 (length ps))) with
    | (FPFuel, _) => mkfsres [] None O StopFuel
    | (FPFail, lft) => mkfsres [] None lft Running
    | (FPDone s', lft) =>
      if fall_assigned s' then mkfsres [fsolution s'] (fon_solution m None s') lft Running
      else fdfs fuel ps s' None lft 0
    end.
End FEngine.

(* entry points as the props-level harness uses them: first solution / the improving sequence of Minimize *)
Definition fsolve_first (fuel budget : nat) (ps : list fprop) (s : fstore) : fsres :=
  fsearch None 1 fuel budget ps s.
Definition fminimize_seq (fuel budget maxsols : nat) (obj : fview) (ps : list fprop) (s : fstore) : fsres :=
  fsearch (Some obj) maxsols fuel budget ps s.
