(* Which optimiser answers Model::minimize / Model::maximize on a float / mixed model: the decidable gate predicates
   of the dispatch (model/core.rs:432-473, 594-634, 1756-1805; search/mod.rs:140-212; constraints/props/mod.rs:144-219;
   runtime_api/mod.rs:264-373, 1269-1315).  Definitions only; extracted and compared with the implementation through
   hook H5 (`take_root_lp_ran`).  The optimisers themselves (the optimization and lpsolver modules) are NOT modelled.

   A model is described by what was posted, in order (vocabulary of the `solvef` sub-command minus conversions):
     PLin fl rel vars            m.lin_eq / lin_le / lin_ne: a pending AST, no LP row at post time; fl = it is lowered to
                                 FloatLinEq/Le/Ne (f64 coefficients, OR i32 coefficients over at least one float variable --
                                 see linear_lowering), otherwise to IntLinEq/Le/Ne
     PNew rel vars all_int vv    fluent m.new(l rel r); all_int = it is lowered to IntLin* (every literal of the comparison is an
                                 integer literal AND every variable is an integer variable, see linear_lowering);
                                 vv = the comparison is `Var == Val` / `Val == Var` (materialised at once, no AST, no LP row)
     PFlin rel vars              m.props.float_lin_eq / float_lin_le / float_lin_ne (a propagator, no AST)
     PCmp rel a b                m.props.less_than_or_equals / less_than / greater_than_or_equals / greater_than / equals;
                                 a, b = Some v for a plain variable operand, None for a constant or a Next view *)
From Coq Require Import ZArith Bool List.
Import ListNotations.
Require Import Selen.Model.Prelude Selen.Model.Propagate.

(* which propagator family a linear constraint AST is materialised as (materialize_constraint_kind, runtime_api/mod.rs,
   after the repair "linear constraints with integer literals over float variables are posted as float linear constraints"):
   IntLin* only when every literal is an integer literal and every variable is an integer variable *)
Inductive lin_kind : Set := KIntLin | KFloatLin.
Definition linear_lowering (int_literals any_float_var : bool) : lin_kind :=
  if int_literals && negb any_float_var then KIntLin else KFloatLin.
(* before the repair the variable types were not consulted *)
Definition linear_lowering_prefix (int_literals any_float_var : bool) : lin_kind :=
  if int_literals then KIntLin else KFloatLin.

Inductive frel : Set := RLe | RLt | RGe | RGt | REq | RNe.
Inductive fpost : Set :=
| PLin (fl : bool) (rel : frel) (vars : list nat)
| PNew (rel : frel) (vars : list nat) (all_int : bool) (vv : bool)
| PFlin (rel : frel) (vars : list nat)
| PCmp (rel : frel) (a b : option nat).

(* does the post leave a pending constraint AST (Model::pending_constraint_asts)? *)
Definition pending_ast (p : fpost) : bool :=
  match p with
  | PLin _ _ _ => true
  | PNew _ _ _ vv => negb vv
  | PFlin _ _ | PCmp _ _ _ => false
  end.

(* rows of the linear system assembled at the root of the search, as variable lists:
   (1) pending_lp_constraints pushed by post_constraint_kind for fluent comparisons with op in {=, <=, >=};
   (2) extract_linear_system over the LOWERED propagators: every FloatLinEq / FloatLinLe, every LessThanOrEquals<VarId,VarId> *)
Definition is_eq_le_ge (r : frel) : bool := match r with REq | RLe | RGe => true | _ => false end.
Definition lowers_to_flin_eq_le (r : frel) : bool := match r with RNe => false | _ => true end.
Definition lp_rows_of (p : fpost) : list (list nat) :=
  match p with
  | PLin true REq vars | PLin true RLe vars => [vars]
  | PLin _ _ _ => []
  | PNew rel vars all_int vv =>
    if vv then []
    else (if is_eq_le_ge rel then [vars] else []) ++ (if negb all_int && lowers_to_flin_eq_le rel then [vars] else [])
  | PFlin REq vars | PFlin RLe vars => [vars]
  | PFlin _ _ => []
  | PCmp RLe (Some a) (Some b) | PCmp RGe (Some a) (Some b) => [[a; b]]
  | PCmp _ _ _ => []
  end.
Definition lp_rows (ps : list fpost) : list (list nat) := flat_map lp_rows_of ps.
Fixpoint dedup (l : list nat) (acc : list nat) : list nat :=
  match l with [] => acc | x :: r => dedup r (if memn x acc then acc else acc ++ [x]) end.
Definition lp_vars (ps : list fpost) : list nat := dedup (concat (lp_rows ps)) [].

(* the root LP step runs iff it is enabled, the mode has an objective variable (minimize / maximize of a plain variable),
   the system has >= 1 row and >= 2 variables (is_suitable_for_lp) and the objective variable occurs in it *)
Definition root_lp_gate (lp_enabled : bool) (ps : list fpost) (obj : nat) : bool :=
  lp_enabled && (1 <=? length (lp_rows ps))%nat && (2 <=? length (lp_vars ps))%nat && memn obj (lp_vars ps).

(* the optimisation fast path is CONSULTED (and may answer before any search) iff it is enabled and no AST is pending *)
Definition fast_path_consulted (fp_enabled : bool) (ps : list fpost) : bool :=
  fp_enabled && forallb (fun p => negb (pending_ast p)) ps.

Inductive answered_by := ByFastPathOrSearch | ByRootLpThenSearch | BySearchOnly.
Definition dispatch (lp_enabled fp_enabled : bool) (ps : list fpost) (obj : nat) : answered_by :=
  if fast_path_consulted fp_enabled ps then ByFastPathOrSearch
  else if root_lp_gate lp_enabled ps obj then ByRootLpThenSearch
  else BySearchOnly.
