(* Which optimiser answers Model::minimize / Model::maximize on a float / mixed model: the decidable gate predicates
   of the dispatch (model/core.rs:432-473, 594-634, 1756-1805; search/mod.rs:140-212; constraints/props/mod.rs:144-219;
   runtime_api/mod.rs:264-373, 1269-1315).  Definitions only; extracted and compared with the implementation through
   hook H5 (`take_root_lp_ran`).  The optimisers themselves (the optimization and lpsolver modules) are NOT modelled;
   what IS modelled of the fast path is the ACCEPTANCE of its answer (Model::accepts_candidate, last section of this file):
   the candidate is opaque, it becomes the answer only if it passes the ordinary propagation.

   A model is described by what was posted, in order (vocabulary of the `solvef` sub-command minus conversions):
     PLin fl rel vars            m.lin_eq / lin_le / lin_ne: a pending AST, no LP row at post time; fl = it is lowered to
                                 FloatLinEq/Le/Ne (f64 coefficients, OR i32 coefficients over at least one float variable --
                                 see linear_lowering), otherwise to IntLinEq/Le/Ne
     PNew rel vars all_int vv    fluent m.new(l rel r); all_int = it is lowered to IntLin* (every literal of the comparison is an
                                 integer literal AND every variable is an integer variable, see linear_lowering);
                                 vv = the comparison is `Var == Val` / `Val == Var` (materialised at once, no AST, no LP row)
     PFlin rel vars              m.props.float_lin_eq / float_lin_le / float_lin_ne (a propagator, no AST)
     PCmp rel a b                m.props.less_than_or_equals / less_than / greater_than_or_equals / greater_than / equals;
                                 a, b = Some v for a plain variable operand, None for a constant or a Next view *)
From Coq Require Import ZArith Bool List.
Import ListNotations.
Require Import Selen.Model.Prelude Selen.Model.Propagate.

(* which propagator family a linear constraint AST is materialised as (materialize_constraint_kind, runtime_api/mod.rs,
   after the repair "linear constraints with integer literals over float variables are posted as float linear constraints"):
   IntLin* only when every literal is an integer literal and every variable is an integer variable *)
Inductive lin_kind : Set := KIntLin | KFloatLin.
Definition linear_lowering (int_literals any_float_var : bool) : lin_kind :=
  if int_literals && negb any_float_var then KIntLin else KFloatLin.
(* before the repair the variable types were not consulted *)
Definition linear_lowering_prefix (int_literals any_float_var : bool) : lin_kind :=
  if int_literals then KIntLin else KFloatLin.

Inductive frel : Set := RLe | RLt | RGe | RGt | REq | RNe.
Inductive fpost : Set :=
| PLin (fl : bool) (rel : frel) (vars : list nat)
| PNew (rel : frel) (vars : list nat) (all_int : bool) (vv : bool)
| PFlin (rel : frel) (vars : list nat)
| PCmp (rel : frel) (a b : option nat).

(* does the post leave a pending constraint AST (Model::pending_constraint_asts)? *)
Definition pending_ast (p : fpost) : bool :=
  match p with
  | PLin _ _ _ => true
  | PNew _ _ _ vv => negb vv
  | PFlin _ _ | PCmp _ _ _ => false
  end.

(* rows of the linear system assembled at the root of the search, as variable lists:
   (1) pending_lp_constraints pushed by post_constraint_kind for fluent comparisons with op in {=, <=, >=};
   (2) extract_linear_system over the LOWERED propagators: every FloatLinEq / FloatLinLe, every LessThanOrEquals<VarId,VarId> *)
Definition is_eq_le_ge (r : frel) : bool := match r with REq | RLe | RGe => true | _ => false end.
Definition lowers_to_flin_eq_le (r : frel) : bool := match r with RNe => false | _ => true end.
Definition lp_rows_of (p : fpost) : list (list nat) :=
  match p with
  | PLin true REq vars | PLin true RLe vars => [vars]
  | PLin _ _ _ => []
  | PNew rel vars all_int vv =>
    if vv then []
    else (if is_eq_le_ge rel then [vars] else []) ++ (if negb all_int && lowers_to_flin_eq_le rel then [vars] else [])
  | PFlin REq vars | PFlin RLe vars => [vars]
  | PFlin _ _ => []
  | PCmp RLe (Some a) (Some b) | PCmp RGe (Some a) (Some b) => [[a; b]]
  | PCmp _ _ _ => []
  end.
Definition lp_rows (ps : list fpost) : list (list nat) := flat_map lp_rows_of ps.
Fixpoint dedup (l : list nat) (acc : list nat) : list nat :=
  match l with [] => acc | x :: r => dedup r (if memn x acc then acc else acc ++ [x]) end.
Definition lp_vars (ps : list fpost) : list nat := dedup (concat (lp_rows ps)) [].

(* the root LP step runs iff it is enabled, the mode has an objective variable (minimize / maximize of a plain variable),
   the system has >= 1 row and >= 2 variables (is_suitable_for_lp) and the objective variable occurs in it *)
Definition root_lp_gate (lp_enabled : bool) (ps : list fpost) (obj : nat) : bool :=
  lp_enabled && (1 <=? length (lp_rows ps))%nat && (2 <=? length (lp_vars ps))%nat && memn obj (lp_vars ps).

(* the optimisation fast path is CONSULTED iff it is enabled and no AST is pending; when consulted it answers before any search
   only if its candidate is accepted (fp_accepts below), otherwise -- also on its verdicts Infeasible / Fallback -- the search runs *)
Definition fast_path_consulted (fp_enabled : bool) (ps : list fpost) : bool :=
  fp_enabled && forallb (fun p => negb (pending_ast p)) ps.

Inductive answered_by := ByFastPathOrSearch | ByRootLpThenSearch | BySearchOnly.
Definition dispatch (lp_enabled fp_enabled : bool) (ps : list fpost) (obj : nat) : answered_by :=
  if fast_path_consulted fp_enabled ps then ByFastPathOrSearch
  else if root_lp_gate lp_enabled ps obj then ByRootLpThenSearch
  else BySearchOnly.

(* ================================================================ acceptance of the fast path's candidate
   Model::accepts_candidate (model/core.rs), called by try_optimization_minimize / try_optimization_maximize on
   OptimizationAttempt::Success(candidate).  The candidate (one value per variable) is OPAQUE here: nothing is assumed
   about how the optimization module computed it.  It is returned as the answer iff
     (feasibility)  it has one value of the right kind per variable, every value lies in its variable's domain
                    (SparseSet::remove_all_but / FloatInterval::fix_to leave the domain non-empty), and the ordinary
                    propagation (search::propagate with every propagator of the model scheduled, in PropId order)
                    started from the store in which every variable is FIXED to its candidate value does not fail;
     (optimality)   the ordinary propagation of the model itself (nothing fixed) does not fail, and the objective of
                    the candidate attains the bound it leaves for the objective view: min_raw for minimize, max_raw for
                    maximize, within `slack` = one step of the objective's underlying float variable (0 for an integer one).
   Otherwise the answer is the search's.  `pf` is the fuel of the model's propagation loop (the implementation has none);
   running out of it counts as a rejection here.  This section is a definition read off the source; it is NOT compared
   with the implementation case by case (the method is private): its ingredients fpropagate / fv_min / fv_max are the
   ones tied bit-exactly through `propf` / `searchf`. *)
From Flocq Require Import Core.Core IEEE754.BinarySingleNaN IEEE754.Binary IEEE754.Bits.
Require Import Selen.Model.Dom Selen.Model.B64 Selen.Model.FloatInterval Selen.Model.CtxFloat Selen.Model.FloatStore
               Selen.Model.FloatProps Selen.Model.FloatSearch.
Open Scope Z_scope.

(* SparseSet::remove_all_but(value) / FloatInterval::fix_to(value) followed by the emptiness test; a value of the other
   kind is rejected (`_ => return false`) *)
Definition fix_var (x : fvar) (c : fval) : option fvar :=
  match x, c with
  | VI d, VlI z => if existsb (Z.eqb z) d then Some (VI [z]) else None
  | VF i, VlF v => if fi_contains i v && negb (fi_is_empty (mkfi v v (istep i))) then Some (VF (mkfi v v (istep i))) else None
  | _, _ => None
  end.
(* one value per variable (candidate.value_count() == vars.count()) *)
Fixpoint fix_all (s : fstore) (cand : list fval) : option fstore :=
  match s, cand with
  | [], [] => Some []
  | x :: s', c :: cand' =>
    match fix_var x c, fix_all s' cand' with
    | Some y, Some r => Some (y :: r)
    | _, _ => None
    end
  | _, _ => None
  end.

Definition passes_propagation (pf : nat) (ps : list fprop) (s : fstore) : option fstore :=
  match fpropagate_all pf ps s with FPDone s' => Some s' | _ => None end.

(* impl Add for Val (variables/core.rs:229-240) *)
Definition val_add (a b : fval) : fval :=
  match a, b with
  | VlI x, VlI y => VlI (x + y)
  | _, _ => VlF (fadd (as_f a) (as_f b))
  end.
Definition fp_slack (obj : fview) (s : fstore) : fval :=
  match under_interval obj s with Some i => VlF (istep i) | None => VlI 0 end.

Definition fp_feasible (pf : nat) (ps : list fprop) (s : fstore) (cand : list fval) : option fstore :=
  match fix_all s cand with
  | Some s0 => passes_propagation pf ps s0
  | None => None
  end.
Definition fp_accepts (minimize : bool) (pf : nat) (ps : list fprop) (s : fstore) (obj : fview) (cand : list fval) : bool :=
  match fp_feasible pf ps s cand with
  | None => false
  | Some sf =>
    match passes_propagation pf ps s with
    | None => false
    | Some sr =>
      if minimize then val_le (fv_min obj sf) (val_add (fv_min obj sr) (fp_slack obj s))
      else val_ge (val_add (fv_max obj sf) (fp_slack obj s)) (fv_max obj sr)
    end
  end.

(* what Model::minimize / maximize answer when the fast path is consulted: its candidate if accepted, else the search's answer *)
Definition fp_or_search {A : Type} (accepted : bool) (candidate search_answer : A) : A :=
  if accepted then candidate else search_answer.
