(* Posting and lowering of Model-level programs to propagator descriptions, integer fragment:
   runtime_api/mod.rs (post_constraint_kind 1269-1315, apply_var_eq_bounds 1203-1258,
   try_convert_to_linear_ast 995-1083, try_extract_linear_form 1116-1190, materialize_constraint_kind
   1321-1446, create_result_var / post_expression_constraint / get_expr_var 865-985,
   post_var_val_constraint / post_val_var_constraint 1696-1728), model/core.rs (materialize_pending_asts,
   apply_immediate_var_eq_bounds 163-251, infer_unbounded_from_asts 780-825 for bounded models,
   prepare_for_search 1717-1744), model/factory.rs (int, intset, bool), constraints/api/arithmetic.rs
   (Model::add/sub/mul), constraints/functions.rs (lin_eq/lin_le/lin_ne 290-365), core/validation.rs
   (the branches reachable from this vocabulary).  Transcribed as written, defects included. *)
Require Import Selen.Model.Prelude Selen.Model.Dom Selen.Model.Views Selen.Model.PropDefs.
Require Selen.Generated.Consts.
Require Import Selen.Model.Props.Basic Selen.Model.Props.LinInt Selen.Model.Props.Neq Selen.Model.Props.Logic Selen.Model.Api.

(* ---- propagator descriptions: what Propagators::{add,sub,mul,modulo,equals,not_equals,
   less_than*,greater_than*,int_lin_*} and, since the repair of D3 (Or / Not lowered through
   reification: reify_constraint_kind), Propagators::{int_*_reif,int_lin_*_reif,bool_and,bool_or,
   bool_not} push, as first-order data (printable, comparable with the Debug text of the Rust
   propagator) ---- *)
Inductive pdesc :=
| PAdd (x y : view) (s : nat)        (* Add { x, y, s } *)
| PMul (x y : view) (s : nat)        (* Mul { x, y, s } *)
| PMod (x y : view) (s : nat)        (* Modulo { x, y, s } *)
| PLeq (x y : view)                  (* LessThanOrEquals { x, y } *)
| PEq (x y : view)                   (* Eq { x, y } *)
| PNeq (x y : view)                  (* NotEquals { x, y } (neq.rs; prunes since the repair 106df3d) *)
| PLinEq (cs : list Z) (xs : list nat) (k : Z)
| PLinLe (cs : list Z) (xs : list nat) (k : Z)
| PLinNe (cs : list Z) (xs : list nat) (k : Z)
| PCmpR (op : cmp) (x y b : nat)     (* Int{Eq,Ne,Lt,Le,Gt,Ge}Reif { x, y, b }: b <=> x op y *)
| PLinEqR (cs : list Z) (xs : list nat) (k : Z) (b : nat)   (* IntLinEqReif *)
| PLinLeR (cs : list Z) (xs : list nat) (k : Z) (b : nat)   (* IntLinLeReif *)
| PLinNeR (cs : list Z) (xs : list nat) (k : Z) (b : nat)   (* IntLinNeReif *)
| PAndR (xs : list nat) (r : nat)    (* BoolAnd { operands, result } *)
| POrR (xs : list nat) (r : nat)     (* BoolOr { operands, result } *)
| PNotR (o r : nat).                 (* BoolNot { operand, result } *)

(* documented meaning of a description (DESIGN.md Appendix A); `denote` (Model/LowerDenote.v) maps a
   description to the propagator record whose `sat` is this function (denote_sat) *)
Definition psat (p : pdesc) (a : asg) : bool :=
  match p with
  | PAdd x y s => vsem x a + vsem y a =? a s
  | PMul x y s => vsem x a * vsem y a =? a s
  | PMod x y s => negb (vsem y a =? 0) && (a s =? trem (vsem x a) (vsem y a))
  | PLeq x y => vsem x a <=? vsem y a
  | PEq x y => vsem x a =? vsem y a
  | PNeq x y => negb (vsem x a =? vsem y a)
  | PLinEq cs xs k => lin_sem (combine cs xs) a =? k
  | PLinLe cs xs k => lin_sem (combine cs xs) a <=? k
  | PLinNe cs xs k => negb (lin_sem (combine cs xs) a =? k)
  (* the `sat` of the records of Props/Logic.v and Props/LinInt.v (tr z = 1 <=? z: non-zero is true) *)
  | PCmpR op x y b => Bool.eqb (tr (a b)) (cmp_sem op (a x) (a y))
  | PLinEqR cs xs k b => is01 (a b) && Bool.eqb (a b =? 1) (lin_sem (combine cs xs) a =? k)
  | PLinLeR cs xs k b => is01 (a b) && Bool.eqb (a b =? 1) (lin_sem (combine cs xs) a <=? k)
  | PLinNeR cs xs k b => is01 (a b) && Bool.eqb (a b =? 1) (negb (lin_sem (combine cs xs) a =? k))
  | PAndR xs r => (match xs with [] => is01 (a r) | _ => true end) && Bool.eqb (tr (a r)) (forallb (fun x => tr (a x)) xs)
  | POrR xs r => (match xs with [] => is01 (a r) | _ => true end) && Bool.eqb (tr (a r)) (existsb (fun x => tr (a x)) xs)
  | PNotR o r => is01 (a r) && (0 <=? a o) && Bool.eqb (tr (a r)) (negb (tr (a o)))
  end.

(* the kinds whose propagator records live in Props/Basic.v, Props/LinInt.v and Props/Logic.v; Mul
   and Modulo are in Props/Arith.v (LowerDenote.v) *)
Definition mk_cmp_reif (op : cmp) : nat -> nat -> nat -> prop :=
  match op with
  | OEq => mk_eq_reif | ONe => mk_ne_reif | OLt => mk_lt_reif
  | OLe => mk_le_reif | OGt => mk_gt_reif | OGe => mk_ge_reif
  end.
Definition denote_basic (p : pdesc) : option prop :=
  match p with
  | PAdd x y s => Some (mk_add x y s)
  | PLeq x y => Some (mk_leq x y)
  | PEq x y => Some (mk_eq x y)
  | PNeq x y => Some (mk_neq x y)
  | PLinEq cs xs k => Some (mk_lin_eq cs xs k)
  | PLinLe cs xs k => Some (mk_lin_le cs xs k)
  | PLinNe cs xs k => Some (mk_lin_ne cs xs k)
  | PCmpR op x y b => Some (mk_cmp_reif op x y b)
  | PLinEqR cs xs k b => Some (mk_lin_eq_reif cs xs k b)
  | PLinLeR cs xs k b => Some (mk_lin_le_reif cs xs k b)
  | PLinNeR cs xs k b => Some (mk_lin_ne_reif cs xs k b)
  | PAndR xs r => Some (mk_band xs r)
  | POrR xs r => Some (mk_bor xs r)
  | PNotR o r => Some (mk_bnot o r)
  | PMul _ _ _ | PMod _ _ _ => None
  end.

(* ---- lowering state: variables and propagators (Model.vars, Model.props) ---- *)
Definition lst := (store * list pdesc)%type.
Definition nvars (st : lst) : nat := length (fst st).
(* Model::int / intset: push a variable, return its VarId *)
Definition new_var (d : dom) (st : lst) : nat * lst := (nvars st, (fst st ++ [d], snd st)).
Definition push (p : pdesc) (st : lst) : lst := (fst st, snd st ++ [p]).
Definition set_dom (v : nat) (d : dom) (st : lst) : lst := (supd (fst st) v d, snd st).

(* var_bounds / expr_bounds (runtime_api): interval arithmetic on the tree from the CURRENT bounds of
   its variables.  SparseSet::min/max are the least/greatest element (dlo/dhi; = dmin/dmax on the
   sorted domains every reachable store has); an empty domain and an out-of-range id read as [0, 0].
   i32 is modelled as unbounded Z: the clamp of ExprBounds::int to [i32::MIN+1, i32::MAX-1] is the
   identity on this fragment. *)
Definition dlo (d : dom) : Z := match d with [] => 0 | x :: r => list_min x r end.
Definition dhi (d : dom) : Z := match d with [] => 0 | x :: r => list_max x r end.
Definition mul_bounds (ll lh rl rh : Z) : Z * Z :=
  let ps := [ll * rh; lh * rl; lh * rh] in (list_min (ll * rl) ps, list_max (ll * rl) ps).
(* remainder of a truncating division: sign of the dividend (or 0), magnitude at most the dividend's
   and smaller than the divisor's *)
Definition mod_bounds (ll lh rl rh : Z) : Z * Z :=
  let m := Z.max (Z.max (Z.abs rl) (Z.abs rh) - 1) 0 in
  ((if 0 <=? ll then 0 else Z.max ll (- m)), (if lh <=? 0 then 0 else Z.min lh m)).
Fixpoint ebounds (s : store) (e : expr) : Z * Z :=
  match e with
  | EVar v => (dlo (sget s v), dhi (sget s v))
  | EVal c => (c, c)
  | EAdd l r => let (ll, lh) := ebounds s l in let (rl, rh) := ebounds s r in (ll + rl, lh + rh)
  | ESub l r => let (ll, lh) := ebounds s l in let (rl, rh) := ebounds s r in (ll - rh, lh - rl)
  | EMul l r => let (ll, lh) := ebounds s l in let (rl, rh) := ebounds s r in mul_bounds ll lh rl rh
  | EMod l r => let (ll, lh) := ebounds s l in let (rl, rh) := ebounds s r in mod_bounds ll lh rl rh
  end.
(* domain of the auxiliary variable that holds e: the computed range.  A range of more than
   MAX_SPARSE_SET_DOMAIN_SIZE values is NOT materialised: the variable is represented by the empty
   domain.  ModelValidator reports InvalidDomain for it either way (validate below: an empty and a
   too-large domain give the same verdict, and validate_variable_domains runs before every other
   check), nothing reads an auxiliary variable's domain before validation, and no theorem speaks
   about a lowered model with an empty domain (doms_nonempty). *)
Definition range_too_large (lo hi : Z) : bool := Selen.Generated.Consts.max_sparse_set_domain_size <? hi - lo + 1.
Definition aux_dom (s : store) (e : expr) : dom :=
  let b := ebounds s e in
  if range_too_large (fst b) (snd b) then [] else drange (fst b) (snd b).

(* SparseSet::remove_all_but *)
Definition only (c : Z) (d : dom) : dom := if memZ c d then [c] else [].

(* Propagators::sub = add(x, y.times_neg(-1), s) *)
Definition p_sub (x y : view) (s : nat) : pdesc := PAdd x (vtimes_neg y (-1)) s.
(* equals / not_equals / less_than / less_than_or_equals / greater_than / greater_than_or_equals *)
Definition p_cmp (op : cmp) (x y : view) : pdesc :=
  match op with
  | OEq => PEq x y
  | ONe => PNeq x y
  | OLt => PLeq (VNext x) y
  | OLe => PLeq x y
  | OGt => PLeq (VNext y) x
  | OGe => PLeq y x
  end.

Definition is_var (e : expr) : bool := match e with EVar _ => true | _ => false end.

(* create_result_var *)
Definition create_result_var (e : expr) (st : lst) : nat * lst :=
  match e with
  | EVar v => (v, st)
  | _ => new_var (aux_dom (fst st) e) st
  end.

(* post_expression_constraint: the four binary arms share this body (rec = the function itself) *)
Definition bin_body (rec : expr -> nat -> lst -> lst) (l r : expr) (mk : nat -> nat -> pdesc) (st : lst) : lst :=
  let (lv, st) := create_result_var l st in
  let (rv, st) := create_result_var r st in
  let st := if is_var l then st else rec l lv st in
  let st := if is_var r then st else rec r rv st in
  push (mk lv rv) st.

Fixpoint post_expr (e : expr) (res : nat) (st : lst) : lst :=
  match e with
  | EVar v => push (PEq (VVar v) (VVar res)) st
  | EVal c => push (PEq (VConst c) (VVar res)) st
  | EAdd l r => bin_body post_expr l r (fun lv rv => PAdd (VVar lv) (VVar rv) res) st
  | ESub l r => bin_body post_expr l r (fun lv rv => p_sub (VVar lv) (VVar rv) res) st
  | EMul l r => bin_body post_expr l r (fun lv rv => PMul (VVar lv) (VVar rv) res) st
  | EMod l r => bin_body post_expr l r (fun lv rv => PMod (VVar lv) (VVar rv) res) st
  end.

(* get_expr_var *)
Definition get_expr_var (e : expr) (st : lst) : nat * lst :=
  match e with
  | EVar v => (v, st)
  | EVal c => new_var (drange c c) st
  | _ => let (rv, st) := create_result_var e st in (rv, post_expr e rv st)
  end.

(* LinearInt arm of materialize_constraint_kind *)
Definition lin_desc (cs : list Z) (xs : list nat) (op : cmp) (k : Z) : pdesc :=
  match op with
  | OEq => PLinEq cs xs k
  | OLe => PLinLe cs xs k
  | ONe => PLinNe cs xs k
  | OGe => PLinLe (map Z.opp cs) xs (- k)
  | OGt => PLinLe (map Z.opp cs) xs (- k - 1)
  | OLt => PLinLe cs xs (k - 1)
  end.

(* the Or-of-two-equalities special case (runtime_api:1396-1411): Some (x, l, r) *)
Definition or_eq_pattern (a b : cons) : option (nat * Z * Z) :=
  match a, b with
  | CBin (EVar x) OEq (EVal l), CBin (EVar y) OEq (EVal r) => if Nat.eqb x y then Some (x, l, r) else None
  | _, _ => None
  end.

(* the reified LinearInt: `>=`, `>` and `<` are rewritten to `<=` like the un-reified arm *)
Definition lin_cmp_reif (cs : list Z) (xs : list nat) (op : cmp) (k : Z) (b : nat) : pdesc :=
  match op with
  | OEq => PLinEqR cs xs k b
  | OLe => PLinLeR cs xs k b
  | ONe => PLinNeR cs xs k b
  | OGe => PLinLeR (map Z.opp cs) xs (- k) b
  | OGt => PLinLeR (map Z.opp cs) xs (- k - 1) b
  | OLt => PLinLeR cs xs (k - 1) b
  end.

(* Model::bool (= int(0, 1)) *)
Definition new_bool (st : lst) : nat * lst := new_var (drange 0 1) st.

(* reify_constraint_kind (the repair of D3): a fresh boolean variable that is 1 exactly when the
   constraint holds.  Binary: both sides through get_expr_var (their auxiliary variables and the
   arithmetic propagators defining them are posted unconditionally), then the boolean, then the
   Int*Reif propagator; And / Or / Not: the children, then Model::bool_and / bool_or / bool_not
   (result variable, then the propagator); LinearInt: the boolean, then IntLin*Reif.  No immediate
   `remove_all_but` here.  (Float operands take the FloatLin*Reif route: outside this fragment.) *)
Fixpoint reify (c : cons) (st : lst) : nat * lst :=
  match c with
  | CBin l op r =>
    let (lv, st) := get_expr_var l st in
    let (rv, st) := get_expr_var r st in
    let (b, st) := new_bool st in
    (b, push (PCmpR op lv rv b) st)
  | CAnd p q =>
    let (pb, st) := reify p st in
    let (qb, st) := reify q st in
    let (b, st) := new_bool st in
    (b, push (PAndR [pb; qb] b) st)
  | COr p q =>
    let (pb, st) := reify p st in
    let (qb, st) := reify q st in
    let (b, st) := new_bool st in
    (b, push (POrR [pb; qb] b) st)
  | CNot p =>
    let (pb, st) := reify p st in
    let (b, st) := new_bool st in
    (b, push (PNotR pb b) st)
  | CLinInt cs xs op k =>
    let (b, st) := new_bool st in
    (b, push (lin_cmp_reif cs xs op k b) st)
  end.

(* the Binary arm of materialize_constraint_kind *)
Definition materialize_bin (l : expr) (op : cmp) (r : expr) (st : lst) : lst :=
    (* immediate bounds for Var == Val / Val == Var (index guard as in the code) *)
    let st :=
      match op, l, r with
      | OEq, EVar v, EVal k | OEq, EVal k, EVar v =>
        if (v <? nvars st)%nat then set_dom v (only k (sget (fst st) v)) st else st
      | _, _, _ => st
      end in
    match l, r with
    | EVar v, EVal k =>           (* post_var_val_constraint *)
      let (n, st) := new_var (drange k k) st in push (p_cmp op (VVar v) (VVar n)) st
    | EVal k, EVar v =>           (* post_val_var_constraint *)
      let (n, st) := new_var (drange k k) st in push (p_cmp op (VVar n) (VVar v)) st
    | _, _ =>
      let (lv, st) := get_expr_var l st in
      let (rv, st) := get_expr_var r st in
      push (p_cmp op (VVar lv) (VVar rv)) st
    end.

(* materialize_constraint_kind (after the repair of D3: Or and Not through reification) *)
Fixpoint materialize (c : cons) (st : lst) : lst :=
  match c with
  | CBin l op r => materialize_bin l op r st
  | CAnd a b => materialize b (materialize a st)
  | COr a b =>
    match or_eq_pattern a b with
    | Some (x, l, r) => let (n, st) := new_var (dof_values [l; r]) st in push (PEq (VVar x) (VVar n)) st
    | None =>                                         (* reify both sides; bool_or; its result is 1 *)
      let (lb, st) := reify a st in
      let (rb, st) := reify b st in
      let (e, st) := new_bool st in
      push (PEq (VVar e) (VConst 1)) (push (POrR [lb; rb] e) st)
    end
  | CNot a =>                                         (* the reified constraint's boolean is 0 *)
    let (b, st) := reify a st in push (PEq (VVar b) (VConst 0)) st
  | CLinInt cs xs op k => push (lin_desc cs xs op k) st
  end.

(* the PRE-REPAIR materialize_constraint_kind (before the repair of D3), kept for the refutation
   lemmas: Or outside the special case posted both sides, Not posted its argument *)
Fixpoint materialize_prefix (c : cons) (st : lst) : lst :=
  match c with
  | CBin l op r => materialize_bin l op r st
  | CAnd a b => materialize_prefix b (materialize_prefix a st)
  | COr a b =>
    match or_eq_pattern a b with
    | Some (x, l, r) => let (n, st) := new_var (dof_values [l; r]) st in push (PEq (VVar x) (VVar n)) st
    | None => materialize_prefix b (materialize_prefix a st)       (* "fall back to posting both constraints" *)
    end
  | CNot a => materialize_prefix a st                               (* "simplified implementation" *)
  | CLinInt cs xs op k => push (lin_desc cs xs op k) st
  end.

(* ---- linear normalisation ---- *)
Definition lform := (list (Z * nat) * Z)%type.     (* (coefficient, variable) in Vec order; constant *)

(* position-or-push loop body of try_extract_linear_form / try_convert_to_linear_ast:
   `if let Some(idx) = vars.position(v) { coeffs[idx] = f(coeffs[idx], c) } else { push(v, g c) }` *)
Fixpoint merge1 (f : Z -> Z -> Z) (g : Z -> Z) (l : list (Z * nat)) (c : Z) (v : nat) : list (Z * nat) :=
  match l with
  | [] => [(g c, v)]
  | (c0, v0) :: r => if Nat.eqb v0 v then (f c0 c, v0) :: r else (c0, v0) :: merge1 f g r c v
  end.
Definition merge (f : Z -> Z -> Z) (g : Z -> Z) (l r : list (Z * nat)) : list (Z * nat) :=
  fold_left (fun acc p => merge1 f g acc (fst p) (snd p)) r l.

Fixpoint linform (e : expr) : option lform :=
  match e with
  | EVar v => Some ([(1, v)], 0)
  | EVal c => Some ([], c)
  | EMul (EVar v) (EVal c) => Some ([(c, v)], 0)
  | EMul (EVal c) (EVar v) => Some ([(c, v)], 0)
  | EMul _ _ => None
  | EAdd l r =>
    do lf <- linform l; do rf <- linform r;
    Some (merge Z.add (fun c => c) (fst lf) (fst rf), snd lf + snd rf)
  | ESub l r =>
    do lf <- linform l; do rf <- linform r;
    Some (merge Z.sub Z.opp (fst lf) (fst rf), snd lf - snd rf)
  | EMod _ _ => None
  end.

(* try_convert_to_linear_ast (all coefficients are Int in this fragment) *)
Definition to_linear (c : cons) : cons :=
  match c with
  | CBin l op r =>
    match linform l, linform r with
    | Some lf, Some rf =>
      let t := merge Z.sub Z.opp (fst lf) (fst rf) in
      CLinInt (map fst t) (map snd t) op (- (snd lf - snd rf))
    | _, _ => c
    end
  | _ => c
  end.

(* ---- model state while the program runs ---- *)
Record mstate := mkms {
  mst : lst;                 (* Model.vars, Model.props *)
  mpend : list cons;         (* Model.pending_constraint_asts *)
  muser : list nat;          (* VarIds of the handles the program holds, in creation order *)
  mpanic : bool }.           (* a debug_assert of SparseSet::min/max fired (empty domain read) *)

Definition ms0 : mstate := mkms ([], []) [] [] false.

(* apply_var_eq_bounds (also the body of apply_immediate_var_eq_bounds); an empty domain is left
   alone (is_empty_int guard): it stays empty and the validator reports it.  Never None. *)
Definition var_eq_bounds (v1 v2 : nat) (st : lst) : option lst :=
  if ((v1 <? nvars st) && (v2 <? nvars st))%nat then
    let d1 := sget (fst st) v1 in
    let d2 := sget (fst st) v2 in
    if dempty d1 || dempty d2 then Some st
    else
      let lo := if dmin d2 <? dmin d1 then dmin d1 else dmin d2 in
      let hi := if dmax d1 <? dmax d2 then dmax d1 else dmax d2 in
      if lo <=? hi then
        let keep := filter (fun x => negb ((x <? lo) || (hi <? x))) in
        let st := set_dom v1 (keep d1) st in
        Some (set_dom v2 (keep (sget (fst st) v2)) st)
      else Some st
  else Some st.

(* post_constraint_kind *)
Definition post (c : cons) (m : mstate) : mstate :=
  let m :=
    match c with
    | CBin (EVar v1) OEq (EVar v2) =>
      match var_eq_bounds v1 v2 (mst m) with
      | Some st => mkms st (mpend m) (muser m) (mpanic m)
      | None => mkms (mst m) (mpend m) (muser m) true
      end
    | _ => m
    end in
  match c with
  | CBin (EVar _) OEq (EVal _) | CBin (EVal _) OEq (EVar _) =>
    mkms (materialize c (mst m)) (mpend m) (muser m) (mpanic m)
  | _ => mkms (mst m) (mpend m ++ [to_linear c]) (muser m) (mpanic m)
  end.

(* user ordinals -> VarIds *)
Definition uv (m : mstate) (i : nat) : nat := nth i (muser m) i.
Fixpoint rn_expr (f : nat -> nat) (e : expr) : expr :=
  match e with
  | EVar v => EVar (f v)
  | EVal c => EVal c
  | EAdd a b => EAdd (rn_expr f a) (rn_expr f b)
  | ESub a b => ESub (rn_expr f a) (rn_expr f b)
  | EMul a b => EMul (rn_expr f a) (rn_expr f b)
  | EMod a b => EMod (rn_expr f a) (rn_expr f b)
  end.
Fixpoint rn_cons (f : nat -> nat) (c : cons) : cons :=
  match c with
  | CBin l op r => CBin (rn_expr f l) op (rn_expr f r)
  | CAnd a b => CAnd (rn_cons f a) (rn_cons f b)
  | COr a b => COr (rn_cons f a) (rn_cons f b)
  | CNot a => CNot (rn_cons f a)
  | CLinInt cs xs op k => CLinInt cs (map f xs) op k
  end.

Definition declare (d : dom) (m : mstate) : mstate :=
  let (v, st) := new_var d (mst m) in mkms st (mpend m) (muser m ++ [v]) (mpanic m).

(* Model::add / sub / mul on two variables: result bounds from the operands' CURRENT bounds *)
Definition api_call_prefix (f : afn) (x y : nat) (m : mstate) : mstate :=
  let s := fst (mst m) in
  let dx := sget s x in let dy := sget s y in
  if dempty dx || dempty dy then mkms (mst m) (mpend m) (muser m) true
  else
    let '(lo, hi, mk) :=
      match f with
      | FAdd => (dmin dx + dmin dy, dmax dx + dmax dy, fun r => PAdd (VVar x) (VVar y) r)
      | FSub => (dmin dx - dmax dy, dmax dx - dmin dy, fun r => p_sub (VVar x) (VVar y) r)
      | FMul =>
        let ps := [dmin dx * dmin dy; dmin dx * dmax dy; dmax dx * dmin dy; dmax dx * dmax dy] in
        (list_min (dmin dx * dmin dy) ps, list_max (dmin dx * dmin dy) ps, fun r => PMul (VVar x) (VVar y) r)
      end in
    let (r, st) := new_var (drange lo hi) (mst m) in
    mkms (push (mk r) st) (mpend m) (muser m ++ [r]) (mpanic m).
(* Model::add / sub / mul on two variables: result bounds from the operands' CURRENT bounds.
   Since the repair "posting methods do not read the bounds of an empty domain" (Model::operand_bounds /
   empty_result_var): an operand whose domain is empty (reversed bounds, empty value set, emptied by an
   earlier x == c) has no bounds; the result variable gets the empty domain (self.int(1, 0)), the
   propagator is posted, validation reports InvalidDomain.  Before the repair SparseSet::min()'s debug
   assertion fired: api_call_prefix. *)
Definition api_desc (f : afn) (x y r : nat) : pdesc :=
  match f with FAdd => PAdd (VVar x) (VVar y) r | FSub => p_sub (VVar x) (VVar y) r | FMul => PMul (VVar x) (VVar y) r end.
Definition api_call (f : afn) (x y : nat) (m : mstate) : mstate :=
  let s := fst (mst m) in
  let dx := sget s x in let dy := sget s y in
  if dempty dx || dempty dy then
    let (r, st) := new_var [] (mst m) in
    mkms (push (api_desc f x y r) st) (mpend m) (muser m ++ [r]) (mpanic m)
  else api_call_prefix f x y m.

Definition exec (s : stmt) (m : mstate) : mstate :=
  match s with
  | SInt lo hi => declare (drange lo hi) m
  | SSet vs => declare (dof_values vs) m
  | SBool => declare (drange 0 1) m
  | SNew c => post (rn_cons (uv m) (fold_cons c)) m
  | SLin op cs xs k =>
    (* LinearCoeff for i32: a length mismatch records a validation error and posts nothing *)
    if Nat.eqb (length cs) (length xs)
    then mkms (mst m) (mpend m ++ [CLinInt cs (map (uv m) xs) op k]) (muser m) (mpanic m)
    else m
  | SApi f x y => api_call f (uv m x) (uv m y) m
  end.

Definition build (prog : list stmt) : mstate := fold_left (fun m s => exec s m) prog ms0.

(* ---- prepare_for_search ---- *)
(* infer_unbounded_from_asts, the part that runs for every model: pending top-level Var == Val *)
Definition infer_eq (pend : list cons) (st : lst) : lst :=
  fold_left (fun st c =>
    match c with
    | CBin (EVar v) OEq (EVal k) | CBin (EVal k) OEq (EVar v) => set_dom v (only k (sget (fst st) v)) st
    | _ => st
    end) pend st.

(* apply_immediate_var_eq_bounds: pending top-level Var == Var *)
Definition immediate_var_eq (pend : list cons) (st : lst) : option lst :=
  fold_left (fun o c =>
    match o, c with
    | Some st, CBin (EVar v1) OEq (EVar v2) => var_eq_bounds v1 v2 st
    | _, _ => o
    end) pend (Some st).

Inductive verr := EInvalidDomain | EInvalidConstraint.
Inductive lowered :=
| LPanic
| LOk (s : store) (ps : list pdesc).

(* prepare_for_search without the validator: final variables and propagators in PropId order *)
Definition lower (m : mstate) : lowered :=
  if mpanic m then LPanic
  else
    let st := infer_eq (mpend m) (mst m) in
    match immediate_var_eq (mpend m) st with
    | None => LPanic
    | Some st =>
      let st := fold_left (fun st c => materialize c st) (mpend m) st in
      LOk (fst st) (snd st)
    end.

(* the same with the pre-repair lowering of the pending ASTs (D3), for the refutation lemmas *)
Definition lower_prefix (m : mstate) : lowered :=
  if mpanic m then LPanic
  else
    let st := infer_eq (mpend m) (mst m) in
    match immediate_var_eq (mpend m) st with
    | None => LPanic
    | Some st =>
      let st := fold_left (fun st c => materialize_prefix c st) (mpend m) st in
      LOk (fst st) (snd st)
    end.

(* ModelValidator::validate, the branches this vocabulary can reach: an empty integer domain or one
   with more than MAX_SPARSE_SET_DOMAIN_SIZE values (validate_variable_domains runs first; the code
   tests the universe size max - min + 1 fixed at creation, which is the size of an auxiliary
   variable's domain: nothing removes values from it before validation), then a Modulo whose second
   registered variable (the divisor) has 0 in its domain (validate_constraint_parameters).  Add/Mul
   always have 3 operands here; no alldiff. *)
Definition dom_too_large (d : dom) : bool := Selen.Generated.Consts.max_sparse_set_domain_size <? Z.of_nat (length d).
Definition mod_divisor_has_zero (s : store) (p : pdesc) : bool :=
  match p with
  | PMod x y r =>
    match nth_error (uvarl x ++ uvarl y ++ [r]) 1 with
    | Some v => memZ 0 (sget s v)
    | None => false
    end
  | _ => false
  end.
(* the in-range condition of the denotation theorems: no variable of the lowered model has an
   empty domain; in particular no auxiliary variable's computed range exceeded the size limit
   (aux_dom).  Implied by validate = None. *)
Definition doms_nonempty (s : store) : bool := forallb (fun d => negb (dempty d)) s.
Definition validate (s : store) (ps : list pdesc) : option verr :=
  if existsb dempty s then Some EInvalidDomain
  else if existsb dom_too_large s then Some EInvalidDomain
  else if existsb (mod_divisor_has_zero s) ps then Some EInvalidConstraint
  else None.

(* ---- the former known-defect class D3 (repaired: Or and Not are lowered through reification) ---- *)
(* the trees the PRE-REPAIR lowering got wrong: `Or` lowered like `And` (outside the special case),
   `Not` lowered as the identity.  Kept for the refutation lemmas about materialize_prefix. *)
Fixpoint kf_or_not (c : cons) : bool :=
  match c with
  | CBin _ _ _ | CLinInt _ _ _ _ => false
  | CAnd a b => kf_or_not a || kf_or_not b
  | COr a b => match or_eq_pattern a b with Some _ => false | None => true end
  | CNot _ => true
  end.
(* all assignments of a store, as value lists *)
Fixpoint all_asgs (s : store) : list (list Z) :=
  match s with
  | [] => [[]]
  | d :: r => flat_map (fun x => map (fun t => x :: t) (all_asgs r)) d
  end.
Definition asg_of_list (l : list Z) : asg := fun v => nth v l 0.
(* what the lowering of the stored AST `c` enforces on the variables of the tree (the auxiliary
   variables' computed bounds contain every value their expression takes on the current domains:
   ebounds_sound; the hidden booleans of a reified sub-tree are determined by the tree's value).
   This is the meaning of the propagator DESCRIPTIONS (`psat`, theorem lower_denotes_exact) and, every
   propagator enforcing its `sat` (C05), what the tie uses to predict enumerate's answer.  It is the
   arithmetic reading (impl_holds: impl_cons c a = holds c a): a comparison with an undefined side
   (a modulo by zero) is never satisfied; a conjunction is the conjunction of its sides; Or and Not
   hold when the tree is DEFINED and evaluates to true (the arithmetic under a reified comparison is
   posted unconditionally, so a zero divisor anywhere excludes the assignment). *)
Fixpoint impl_cons (c : cons) (a : asg) : bool :=
  match c with
  | CBin l op r =>
    match eval_expr l a, eval_expr r a with
    | Some x, Some y => cmp_sem op x y
    | _, _ => false
    end
  | CAnd p q => impl_cons p a && impl_cons q a
  | COr _ _ | CNot _ => holds c a
  | CLinInt cs xs op k => cmp_sem op (lin_val cs xs a) k
  end.
(* what the PRE-REPAIR lowering enforced: Or -> And, Not -> identity *)
Fixpoint impl_cons_prefix (c : cons) (a : asg) : bool :=
  match c with
  | CBin l op r =>
    match eval_expr l a, eval_expr r a with
    | Some x, Some y => cmp_sem op x y
    | _, _ => false
    end
  | CAnd p q => impl_cons_prefix p a && impl_cons_prefix q a
  | COr p q =>
    match or_eq_pattern p q with
    | Some (x, l, r) => (a x =? l) || (a x =? r)
    | None => impl_cons_prefix p a && impl_cons_prefix q a
    end
  | CNot p => impl_cons_prefix p a
  | CLinInt cs xs op k => cmp_sem op (lin_val cs xs a) k
  end.
