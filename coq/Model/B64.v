(* Bit-exact IEEE-754 binary64 arithmetic layer (Flocq 4.1.0), definitions only.
   Mirrors the Rust f64 operations used by selen's float store:
     + - * /            -> round-to-nearest-even (b64_plus/minus/mult/div mode_NE)
     f64::floor/ceil/round -> roundToIntegral toward -inf / +inf / ties-away (Bnearbyint mode_DN/UP/NA)
     < <= > >= == !=    -> Bcompare (every comparison with a NaN is false, != is true)
     f64::abs, unary -  -> Babs, Bopp
     f64::max/min       -> the non-NaN operand if one is NaN
     f64::clamp         -> panics (None) unless lo <= hi
     to_bits/from_bits  -> bits_of_b64 / b64_of_bits
     i32 as f64         -> exact (binary_normalize)
     f64 as i32 / usize -> truncate toward zero, saturate, NaN -> 0
   NaN payloads/signs are NOT modelled faithfully (hardware propagates payloads, and the x86
   default NaN is negative); every printer canonicalises NaN, and no modelled code path reads the
   bits of a NaN.
   This file deliberately imports Flocq; the integer fragment (Model/Prelude.v) does not. *)
From Coq Require Import ZArith Bool.
From Flocq Require Import Core.Core IEEE754.BinarySingleNaN IEEE754.Binary IEEE754.Bits.
Open Scope Z_scope.

Definition f64 : Set := binary64.

Lemma Hp : FLX.Prec_gt_0 53. Proof. reflexivity. Defined.
Lemma Hpe : Prec_lt_emax 53 1024. Proof. reflexivity. Defined.

Definition of_bits (z : Z) : f64 := b64_of_bits z.
Definition to_bits (x : f64) : Z := bits_of_b64 x.

Definition fadd : f64 -> f64 -> f64 := b64_plus mode_NE.
Definition fsub : f64 -> f64 -> f64 := b64_minus mode_NE.
Definition fmul : f64 -> f64 -> f64 := b64_mult mode_NE.
Definition fdiv : f64 -> f64 -> f64 := b64_div mode_NE.

Definition ffloor (x : f64) : f64 := @Binary.Bnearbyint 53 1024 Hpe unop_nan_pl64 mode_DN x.
Definition fceil  (x : f64) : f64 := @Binary.Bnearbyint 53 1024 Hpe unop_nan_pl64 mode_UP x.
Definition fround (x : f64) : f64 := @Binary.Bnearbyint 53 1024 Hpe unop_nan_pl64 mode_NA x.

Definition fabs : f64 -> f64 := b64_abs.
Definition fneg : f64 -> f64 := b64_opp.

Definition fcmp (a b : f64) : option comparison := b64_compare a b.
Definition flt (a b : f64) : bool := match fcmp a b with Some Lt => true | _ => false end.
Definition fle (a b : f64) : bool := match fcmp a b with Some Lt => true | Some Eq => true | _ => false end.
Definition fgt (a b : f64) : bool := match fcmp a b with Some Gt => true | _ => false end.
Definition fge (a b : f64) : bool := match fcmp a b with Some Gt => true | Some Eq => true | _ => false end.
Definition feq (a b : f64) : bool := match fcmp a b with Some Eq => true | _ => false end.
Definition fne (a b : f64) : bool := negb (feq a b).

Definition fis_nan (x : f64) : bool := Binary.is_nan 53 1024 x.
Definition fis_inf (x : f64) : bool := match x with Binary.B754_infinity _ _ _ => true | _ => false end.
Definition fis_finite (x : f64) : bool := Binary.is_finite 53 1024 x.

(* Rust f64::max / f64::min: if one operand is NaN the other is returned.  For operands that
   compare equal (+0.0 vs -0.0) the x86-64 code rustc emits returns the FIRST operand for
   max(a,b) when !(a < b), and the first for min(a,b) when !(b < a); checked by the `ar` op of
   the differential. *)
Definition fmaxr (a b : f64) : f64 :=
  if fis_nan a then b else if fis_nan b then a else if flt a b then b else a.
Definition fminr (a b : f64) : f64 :=
  if fis_nan a then b else if fis_nan b then a else if flt b a then b else a.

(* f64::clamp: assert!(min <= max); if self < min {min} else if self > max {max} else {self} *)
Definition fclamp (x lo hi : f64) : option f64 :=
  if fle lo hi then
    Some (let x1 := if flt x lo then lo else x in if fgt x1 hi then hi else x1)
  else None.

(* i32 as f64 (exact; 0 maps to +0.0) *)
Definition f64_of_Z (z : Z) : f64 := binary_normalize 53 1024 Hp Hpe mode_NE z 0 false.

Definition i32_lo : Z := -2147483648.
Definition i32_hi : Z := 2147483647.
Definition usize_hi : Z := 18446744073709551615.

(* f64 as i32 *)
Definition to_i32 (x : f64) : Z :=
  match x with
  | Binary.B754_nan _ _ _ _ _ => 0
  | Binary.B754_infinity _ _ s => if s then i32_lo else i32_hi
  | _ => Z.max i32_lo (Z.min i32_hi (Binary.Btrunc 53 1024 x))
  end.
(* f64 as usize (64-bit) *)
Definition to_usize (x : f64) : Z :=
  match x with
  | Binary.B754_nan _ _ _ _ _ => 0
  | Binary.B754_infinity _ _ s => if s then 0 else usize_hi
  | _ => Z.max 0 (Z.min usize_hi (Binary.Btrunc 53 1024 x))
  end.

(* exact value of a finite float as mantissa * 2^exponent *)
Definition to_ze (x : f64) : option (Z * Z) :=
  match x with
  | Binary.B754_zero _ _ _ => Some (0, 0)
  | Binary.B754_finite _ _ s m e _ => Some ((if s then Zneg m else Zpos m), e)
  | _ => None
  end.

(* named constants (bit patterns) *)
Definition c_zero     : f64 := of_bits 0x0000000000000000. (* 0.0 *)
Definition c_one      : f64 := of_bits 0x3ff0000000000000. (* 1.0 *)
Definition c_two      : f64 := of_bits 0x4000000000000000. (* 2.0 *)
Definition c_nan      : f64 := of_bits 0x7ff8000000000000. (* f64::NAN *)
Definition c_epsilon  : f64 := of_bits 0x3cb0000000000000. (* f64::EPSILON = 2^-52 *)
Definition c_f64_max  : f64 := of_bits 0x7fefffffffffffff. (* f64::MAX *)
Definition c_f64_min  : f64 := of_bits 0xffefffffffffffff. (* f64::MIN *)

(* probes used only by the differential (`fi` sub-command, ctor `ar`/`cv`): every arithmetic
   primitive of this layer on one pair of operands, so that the layer itself is compared with the
   hardware, not only the code built on it *)
Definition arith_probe (a b : f64) : list f64 :=
  (fadd a b :: fsub a b :: fmul a b :: fdiv a b :: fmaxr a b :: fminr a b :: fabs a :: fneg a ::
   ffloor a :: fceil a :: fround a :: nil)%list.
Definition cmp_probe (a b : f64) : list bool :=
  (flt a b :: fle a b :: fgt a b :: fge a b :: feq a b :: fne a b :: fis_nan a :: fis_inf a :: fis_finite a :: nil)%list.
Definition conv_probe (a : f64) : list Z :=
  (to_i32 a :: to_i32 (fceil a) :: to_i32 (ffloor a) :: to_usize a :: nil)%list.
