(* props/count.rs (Count<T>), cardinality.rs (CardinalityConstraint: at_least / at_most / exactly),
   element.rs (Element), table.rs (Table) -- literal transcriptions.  All four files read variables
   only through min()/max() and write only through try_set_min/try_set_max (no `contains`, no
   interior removal), so holes in domains are invisible to them except through the setters.
   None of them keeps mutable state between calls. *)
Require Import Selen.Model.Prelude Selen.Model.Dom Selen.Model.Views Selen.Model.PropDefs.
Require Import Selen.Model.Props.Basic.

(* number of positions of xs that satisfy f *)
Definition countb (f : nat -> bool) (xs : list nat) : Z := Z.of_nat (length (filter f xs)).

(* `if min != max && min <= t && t <= max` -- the guard of all four "touch the candidates" loops *)
Definition is_cand (x : nat) (t : Z) (c : ctx) : bool :=
  negb (cvar_min x c =? cvar_max x c) && (cvar_min x c <=? t) && (t <=? cvar_max x c).

(* "Force this variable to equal target": try_set_min(t); try_set_max(t)
   (count.rs:125-133, cardinality.rs:104-112 and 158-165) *)
Fixpoint force_loop (xs : list nat) (t : Z) (c : ctx) : option ctx :=
  match xs with
  | [] => Some c
  | x :: r =>
    do c <- (if is_cand x t c then (do c <- cset_min x t c; cset_max x t c) else Some c);
    force_loop r t c
  end.

(* ------------------------------------------------------------------------------------------ *)
(* Count<T>::propagate_count_bounds; the target is any view *)

(* count_definitely_equal: 0 while the target is not fixed *)
Definition count_def (xs : list nat) (t : view) (s : store) : Z :=
  let tmn := vmin t s in
  let tmx := vmax t s in
  if negb (tmn =? tmx) then 0
  else countb (fun x => (dmin (sget s x) =? dmax (sget s x)) && (dmin (sget s x) =? tmn)) xs.

(* count_possibly_equal: var_min <= target_max && var_max >= target_min *)
Definition count_pos (xs : list nat) (t : view) (s : store) : Z :=
  let tmn := vmin t s in
  let tmx := vmax t s in
  countb (fun x => (dmin (sget s x) <=? tmx) && (tmn <=? dmax (sget s x))) xs.

(* count.rs:99-118: remove the target only when it sits on a bound *)
Fixpoint count_forbid (xs : list nat) (t : Z) (c : ctx) : option ctx :=
  match xs with
  | [] => Some c
  | x :: r =>
    let mn := cvar_min x c in
    let mx := cvar_max x c in
    do c <- (if is_cand x t c then
               if (t =? mn) && (t <? mx) then cset_min x (t + 1) c
               else if (t =? mx) && (mn <? t) then cset_max x (t - 1) c
               else Some c
             else Some c);
    count_forbid r t c
  end.

Definition prune_count (xs : list nat) (t : view) (cv : nat) (c : ctx) : option ctx :=
  let de := count_def xs t (fst c) in
  let po := count_pos xs t (fst c) in
  do c <- cset_min cv de c;
  do c <- cset_max cv po c;
  let cmn := cvar_min cv c in
  let cmx := cvar_max cv c in
  let tmn := cmin t c in
  let tmx := cmax t c in
  if (cmn =? cmx) && (tmn =? tmx) then
    if de =? cmn then count_forbid xs tmn c
    else if po =? cmn then force_loop xs tmn c
    else Some c
  else Some c.

(* c = #{i | xs_i = t} *)
Definition occurrences (xs : list nat) (k : Z) (a : asg) : Z := countb (fun x => a x =? k) xs.

Definition mk_count (xs : list nat) (t : view) (cv : nat) : prop :=
  mkprop (prune_count xs t cv)
         (fun a => a cv =? occurrences xs (vsem t a) a)
         (xs ++ uvarl t ++ [cv]).

(* ------------------------------------------------------------------------------------------ *)
(* CardinalityConstraint *)

Definition card_must (xs : list nat) (k : Z) (s : store) : Z :=
  countb (fun x => (dmin (sget s x) =? dmax (sget s x)) && (dmin (sget s x) =? k)) xs.
Definition card_can (xs : list nat) (k : Z) (s : store) : Z :=
  countb (fun x => (dmin (sget s x) <=? k) && (k <=? dmax (sget s x))) xs.

(* cardinality.rs:124-138 and 168-180: "values in the middle" stay *)
Fixpoint card_forbid (xs : list nat) (k : Z) (c : ctx) : option ctx :=
  match xs with
  | [] => Some c
  | x :: r =>
    do c <- (if is_cand x k c then
               if k =? cvar_min x c then cset_min x (k + 1) c
               else if k =? cvar_max x c then cset_max x (k - 1) c
               else Some c
             else Some c);
    card_forbid r k c
  end.

Definition prune_at_least (xs : list nat) (k n : Z) (c : ctx) : option ctx :=
  let must := card_must xs k (fst c) in
  let can := card_can xs k (fst c) in
  if n <=? must then Some c
  else if can <? n then None
  else
    let needed := n - must in
    let cands := can - must in
    if (needed =? cands) && (0 <? needed) then force_loop xs k c else Some c.

Definition prune_at_most (xs : list nat) (k n : Z) (c : ctx) : option ctx :=
  let must := card_must xs k (fst c) in
  if n <? must then None
  else if must =? n then card_forbid xs k c
  else Some c.

Definition prune_exactly (xs : list nat) (k n : Z) (c : ctx) : option ctx :=
  let must := card_must xs k (fst c) in
  let can := card_can xs k (fst c) in
  if n <? must then None
  else if can <? n then None
  else
    let needed := n - must in
    let cands := can - must in
    if (needed =? cands) && (0 <? needed) then force_loop xs k c
    else if needed =? 0 then card_forbid xs k c
    else Some c.

Definition mk_at_least (xs : list nat) (k n : Z) : prop :=
  mkprop (prune_at_least xs k n) (fun a => n <=? occurrences xs k a) xs.
Definition mk_at_most (xs : list nat) (k n : Z) : prop :=
  mkprop (prune_at_most xs k n) (fun a => occurrences xs k a <=? n) xs.
Definition mk_exactly (xs : list nat) (k n : Z) : prop :=
  mkprop (prune_exactly xs k n) (fun a => occurrences xs k a =? n) xs.

(* ------------------------------------------------------------------------------------------ *)
(* Element *)

(* `if var.min(ctx) < b { var.try_set_min(b, ctx)? }` and the mirror image *)
Definition gset_min (x : nat) (b : Z) (c : ctx) : option ctx :=
  if cvar_min x c <? b then cset_min x b c else Some c.
Definition gset_max (x : nat) (b : Z) (c : ctx) : option ctx :=
  if b <? cvar_max x c then cset_max x b c else Some c.

(* get_valid_indices: [max(min,0) ..= min(max,len-1)] -- the bounds of the index, not its values *)
Definition el_valid (n : nat) (idx : nat) (c : ctx) : list Z :=
  let lo := Z.max (cvar_min idx c) 0 in
  let hi := Z.min (cvar_max idx c) (Z.of_nat n - 1) in
  if lo <=? hi then zrange lo (hi + 1) else [].

(* self.array.get(idx as usize) for idx >= 0 *)
Definition el_get (arr : list nat) (i : Z) : option nat := nth_error arr (Z.to_nat i).

(* new_min / new_max of the three "intersect array[index] with value" blocks *)
Definition el_meet (av vl : nat) (c : ctx) : Z * Z :=
  (Z.max (cvar_min av c) (cvar_min vl c), Z.min (cvar_max av c) (cvar_max vl c)).

(* compute_possible_values *)
Fixpoint el_possible (arr : list nat) (idxs : list Z) (s : store) (acc : option (Z * Z)) : option (Z * Z) :=
  match idxs with
  | [] => acc
  | i :: r =>
    match el_get arr i with
    | Some x =>
      let vmn := dmin (sget s x) in
      let vmx := dmax (sget s x) in
      el_possible arr r s
        (Some (match acc with
               | None => (vmn, vmx)
               | Some (a, b) => ((if vmn <? a then vmn else a), (if b <? vmx then vmx else b))
               end))
    | None => el_possible arr r s acc
    end
  end.

Definition el_from_value (arr : list nat) (idx vl : nat) (c : ctx) : option ctx :=
  let vmn := cvar_min vl c in
  let vmx := cvar_max vl c in
  let valid := el_valid (length arr) idx c in
  match valid with
  | [i] =>
    match el_get arr i with
    | Some av =>
      let (nmn, nmx) := el_meet av vl c in
      if nmx <? nmn then None
      else do c <- gset_min av nmn c; gset_max av nmx c
    | None => Some c
    end
  | _ =>
    let filt := filter (fun i => match el_get arr i with
                                 | Some av => negb ((cvar_max av c <? vmn) || (vmx <? cvar_min av c))
                                 | None => false
                                 end) valid in
    match filt with
    | [] => None
    | f :: _ =>
      let l := last filt 0 in
      do c <- gset_min idx f c; gset_max idx l c
    end
  end.

Definition el_from_index (arr : list nat) (idx vl : nat) (c : ctx) : option ctx :=
  let valid := el_valid (length arr) idx c in
  match valid with
  | [] => None
  | [i] =>
    match el_get arr i with
    | Some av =>
      let (nmn, nmx) := el_meet av vl c in
      if nmx <? nmn then None
      else
        do c <- gset_min vl nmn c;
        do c <- gset_max vl nmx c;
        do c <- gset_min av nmn c;
        gset_max av nmx c
    | None => Some c
    end
  | _ =>
    match el_possible arr valid (fst c) None with
    | Some (pmn, pmx) => do c <- gset_min vl pmn c; gset_max vl pmx c
    | None => Some c
    end
  end.

Definition prune_element (arr : list nat) (idx vl : nat) (c : ctx) : option ctx :=
  let n := Z.of_nat (length arr) in
  if (cvar_max idx c <? 0) || (n <=? cvar_min idx c) then None
  else
    do c <- (if cvar_min idx c <? 0 then cset_min idx 0 c else Some c);
    do c <- (if n <=? cvar_max idx c then cset_max idx (n - 1) c else Some c);
    let imn := cvar_min idx c in
    let imx := cvar_max idx c in
    if imn =? imx then
      match el_get arr imn with
      | Some av =>
        let (nmn, nmx) := el_meet av vl c in
        if nmx <? nmn then None
        else
          do c <- gset_min av nmn c;
          do c <- gset_max av nmx c;
          do c <- gset_min vl nmn c;
          gset_max vl nmx c
      | None => Some c
      end
    else
      do c <- el_from_value arr idx vl c;
      el_from_index arr idx vl c.

(* 0 <= i < |arr| /\ arr[i] = v *)
Definition mk_element (arr : list nat) (idx vl : nat) : prop :=
  mkprop (prune_element arr idx vl)
         (fun a => (0 <=? a idx) &&
                   match nth_error arr (Z.to_nat (a idx)) with
                   | Some x => a x =? a vl
                   | None => false
                   end)
         (arr ++ [idx; vl]).

(* ------------------------------------------------------------------------------------------ *)
(* Table.  Tuples are read through `combine vars tuple` (Table::new debug_asserts equal arity and
   tuple[i] would panic on a short tuple; the tie only posts tables whose rows have the arity of
   the variable list). *)

(* is_tuple_supported: every value within [min,max] of its variable *)
Definition tuple_supp (xs : list nat) (tp : list Z) (s : store) : bool :=
  forallb (fun p => negb ((snd p <? dmin (sget s (fst p))) || (dmax (sget s (fst p)) <? snd p)))
          (combine xs tp).
Definition has_supp (xs : list nat) (tuples : list (list Z)) (s : store) : bool :=
  existsb (fun tp => tuple_supp xs tp s) tuples.

(* narrow_domain_to_supported.  get_supported_values de-duplicates the collected values; only
   their minimum and maximum are used, so the de-duplication is not modelled. *)
Definition tab_narrow (xs : list nat) (tuples : list (list Z)) (i x : nat) (c : ctx) : option ctx :=
  let sv := map (fun tp => nth i tp 0) (filter (fun tp => tuple_supp xs tp (fst c)) tuples) in
  match sv with
  | [] => None
  | v0 :: _ =>
    let mn := list_min v0 sv in
    let mx := list_max v0 sv in
    let cmn := cvar_min x c in
    let cmx := cvar_max x c in
    do c <- (if cmn <? mn then cset_min x mn c else Some c);
    (if mx <? cmx then cset_max x mx c else Some c)
  end.

(* one sweep `for var_index in 0..self.vars.len()`; returns the `changed` flag *)
Fixpoint tab_pass (xs : list nat) (tuples : list (list Z)) (rest : list nat) (i : nat) (changed : bool)
                  (c : ctx) : option (bool * ctx) :=
  match rest with
  | [] => Some (changed, c)
  | x :: r =>
    let omn := cvar_min x c in
    let omx := cvar_max x c in
    do c <- tab_narrow xs tuples i x c;
    let ch := negb (omn =? cvar_min x c) || negb (omx =? cvar_max x c) in
    tab_pass xs tuples r (S i) (changed || ch) c
  end.

(* `loop { ... }` until a sweep changes no bound.  Every sweep that changes a bound removes a value
   from one of xs, so size_sum+1 sweeps suffice; running out of fuel is unreachable. *)
Fixpoint tab_loop (fuel : nat) (xs : list nat) (tuples : list (list Z)) (c : ctx) : option ctx :=
  match fuel with
  | O => Some c
  | S f =>
    do r <- tab_pass xs tuples xs 0 false c;
    let (ch, c) := r in
    if ch then (if has_supp xs tuples (fst c) then tab_loop f xs tuples c else None)
    else Some c
  end.

Definition size_sum (xs : list nat) (s : store) : nat :=
  fold_right (fun x acc => (length (sget s x) + acc)%nat) O xs.

Definition prune_table (xs : list nat) (tuples : list (list Z)) (c : ctx) : option ctx :=
  if has_supp xs tuples (fst c) then tab_loop (S (size_sum xs (fst c))) xs tuples c else None.

Definition tuple_eq (xs : list nat) (tp : list Z) (a : asg) : bool :=
  Nat.eqb (length xs) (length tp) && forallb (fun p => a (fst p) =? snd p) (combine xs tp).

(* side condition of the tie and of the theorems: every row has the arity of the variable list *)
Definition table_okb (xs : list nat) (tuples : list (list Z)) : bool :=
  forallb (fun tp => Nat.eqb (length tp) (length xs)) tuples.

Definition mk_table (xs : list nat) (tuples : list (list Z)) : prop :=
  mkprop (prune_table xs tuples) (fun a => existsb (fun tp => tuple_eq xs tp a) tuples) xs.
