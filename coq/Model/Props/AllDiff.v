(* props/alldiff.rs: AllDiff (what Propagators::all_different posts).  The propagator keeps no
   state besides `vars`: a fresh HybridGAC is built on every call from the CURRENT [min,max] of
   each variable (holes of the real domain are ignored), propagate_alldiff runs once over all
   variables, and the resulting bounds are written back with try_set_min / try_set_max.
   All bound reads happen before the first write (alldiff.rs:103-147), so they are taken from the
   incoming store.  Float variables (fallback `propagate_basic`) are outside the integer fragment.
   An empty integer domain makes `var.min(ctx)` a debug_assert failure in Rust; as in Dom.v
   (cset_min/cset_max) this is modelled as failure — it is unreachable from a well-formed store. *)
Require Import Selen.Model.Prelude Selen.Model.Dom Selen.Model.Views Selen.Model.PropDefs.
Require Import Selen.Model.Gac.

Definition ad_bounds (xs : list nat) (s : store) : list (Z * Z) :=
  map (fun x => (dmin (sget s x), dmax (sget s x))) xs.

(* AllDiff::quick_feasibility_check (integer variables): no reversed bounds, and the union of the
   intervals has at least as many values as there are variables *)
Definition quick_feasible (bs : list (Z * Z)) : bool :=
  negb (existsb (fun p => snd p <? fst p) bs) &&
  Nat.leb (length bs) (length (nodup Z.eq_dec (flat_map (fun p => drange (fst p) (snd p)) bs))).

(* write-back loop of propagate_gac (alldiff.rs:150-168); i = var_idx *)
Fixpoint ad_writeback (xs : list nat) (i : nat) (g : store) (c : ctx) : option ctx :=
  match xs with
  | [] => Some c
  | x :: r =>
    match sget g i with
    | [] => None                                                (* get_bounds = None *)
    | [v] =>                                                    (* is_assigned *)
      do c <- cset_min x v c; do c <- cset_max x v c; ad_writeback r (S i) g c
    | d =>
      do c <- cset_min x (dmin d) c; do c <- cset_max x (dmax d) c; ad_writeback r (S i) g c
    end
  end.

Definition prune_alldiff (xs : list nat) (c : ctx) : option ctx :=
  if Nat.leb (length xs) 1 then Some c
  else if existsb (fun x => dempty (sget (fst c) x)) xs then None
  else
    let bs := ad_bounds xs (fst c) in
    if negb (quick_feasible bs) then None
    else
      let st := map (fun p => hy_new (fst p) (snd p)) bs in
      match hybrid_alldiff (map fst st) (seq 0 (length xs)) (map snd st) with
      | (_, _, false) => None
      | (g, _, true) => ad_writeback xs 0 g c
      end.

Definition mk_alldiff (xs : list nat) : prop :=
  mkprop (prune_alldiff xs) (fun a => nodupb (map a xs)) xs.
