(* add.rs, leq.rs, eq.rs, neq.rs, sum.rs — and the derived postings of props/mod.rs
   (sub = add with times_neg(-1); lt/gt through Next; ge swaps operands). *)
Require Import Selen.Model.Prelude Selen.Model.Dom Selen.Model.Views Selen.Model.PropDefs.

Definition cvar_min (v : nat) (c : ctx) : Z := dmin (sget (fst c) v).
Definition cvar_max (v : nat) (c : ctx) : Z := dmax (sget (fst c) v).
Definition cmin (w : view) (c : ctx) : Z := vmin w (fst c).
Definition cmax (w : view) (c : ctx) : Z := vmax w (fst c).

(* Add::prune *)
Definition prune_add (x y : view) (s : nat) (c : ctx) : option ctx :=
  do c <- cset_min s (cmin x c + cmin y c) c;
  do c <- cset_max s (cmax x c + cmax y c) c;
  do c <- vset_min x (cvar_min s c - cmax y c) c;
  do c <- vset_max x (cvar_max s c - cmin y c) c;
  do c <- vset_min y (cvar_min s c - cmax x c) c;
  vset_max y (cvar_max s c - cmin x c) c.

Definition mk_add (x y : view) (s : nat) : prop :=
  mkprop (prune_add x y s)
         (fun a => vsem x a + vsem y a =? a s)
         ([s] ++ uvarl x ++ uvarl y).

(* Propagators::sub: x + (-y)*1 = s *)
Definition mk_sub (x y : view) (s : nat) : prop := mk_add x (vtimes_neg y (-1)) s.

(* LessThanOrEquals::prune *)
Definition prune_leq (x y : view) (c : ctx) : option ctx :=
  do c <- vset_max x (cmax y c) c;
  vset_min y (cmin x c) c.
Definition mk_leq (x y : view) : prop :=
  mkprop (prune_leq x y) (fun a => vsem x a <=? vsem y a) (uvarl x ++ uvarl y).
Definition mk_lt (x y : view) : prop := mk_leq (VNext x) y.     (* less_than_with_metadata *)
Definition mk_geq (x y : view) : prop := mk_leq y x.
Definition mk_gt (x y : view) : prop := mk_leq (VNext y) x.

(* Eq::prune *)
Definition prune_eq (x y : view) (c : ctx) : option ctx :=
  do c <- vset_min x (cmin y c) c;
  do c <- vset_max x (cmax y c) c;
  do c <- vset_min y (cmin x c) c;
  vset_max y (cmax x c) c.
Definition mk_eq (x y : view) : prop :=
  mkprop (prune_eq x y) (fun a => vsem x a =? vsem y a) (uvarl x ++ uvarl y).

(* NotEquals::prune is a no-op placeholder (neq.rs:26-31).  Its documented meaning is x <> y;
   `sat` is that documented meaning, which the pruning function does not enforce: this record
   does not satisfy `checking` (known finding D3, class neq_noop). *)
Definition mk_neq_noop (x y : view) : prop :=
  mkprop (fun c => Some c) (fun a => negb (vsem x a =? vsem y a)) (uvarl x ++ uvarl y).

(* Sum::prune *)
Fixpoint sum_bnd (xs : list view) (mx : bool) (s : store) : Z :=
  match xs with [] => 0 | x :: r => vbnd x mx s + sum_bnd r mx s end.

Fixpoint sum_terms (xs : list view) (smin smax mn mx : Z) (c : ctx) : option ctx :=
  match xs with
  | [] => Some c
  | x :: r =>
    let xmin := cmin x c in
    let xmax := cmax x c in
    do c <- vset_min x (smin - (mx - xmax)) c;
    do c <- vset_max x (smax - (mn - xmin)) c;
    sum_terms r smin smax mn mx c
  end.

Definition prune_sum (xs : list view) (s : nat) (c : ctx) : option ctx :=
  let mn := sum_bnd xs false (fst c) in
  let mx := sum_bnd xs true (fst c) in
  do c <- cset_min s mn c;
  do c <- cset_max s mx c;
  sum_terms xs (cvar_min s c) (cvar_max s c) mn mx c.

Fixpoint sum_sem (xs : list view) (a : asg) : Z :=
  match xs with [] => 0 | x :: r => vsem x a + sum_sem r a end.
Definition mk_sum (xs : list view) (s : nat) : prop :=
  mkprop (prune_sum xs s) (fun a => sum_sem xs a =? a s) (flat_map uvarl xs ++ [s]).
