(* props/neq.rs after the repair "fix: NotEquals prunes" (the propagator used to be a no-op
   placeholder, known finding D3/neq_noop): bounds reasoning on integer operands — once one side is
   fixed its value is cut off the other side's bounds; two sides fixed to the same value fail. *)
Require Import Selen.Model.Prelude Selen.Model.Dom Selen.Model.Views Selen.Model.PropDefs Selen.Model.Props.Basic.

Definition prune_neq (x y : view) (c : ctx) : option ctx :=
  let xlo := cmin x c in
  let xhi := cmax x c in
  let ylo := cmin y c in
  let yhi := cmax y c in
  if (xlo =? xhi) && (ylo =? yhi) then (if xlo =? ylo then None else Some c)
  else if xlo =? xhi then
    (if ylo =? xlo then vset_min y (ylo + 1) c
     else if yhi =? xlo then vset_max y (yhi - 1) c
     else Some c)
  else if ylo =? yhi then
    (if xlo =? ylo then vset_min x (xlo + 1) c
     else if xhi =? ylo then vset_max x (xhi - 1) c
     else Some c)
  else Some c.

Definition mk_neq (x y : view) : prop :=
  mkprop (prune_neq x y) (fun a => negb (vsem x a =? vsem y a)) (uvarl x ++ uvarl y).
