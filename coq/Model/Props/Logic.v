(* props/bool_logic.rs (BoolAnd, BoolOr, BoolNot, BoolXor), props/reification.rs (IntEqReif,
   IntNeReif, IntLtReif, IntLeReif, IntGtReif, IntGeReif), props/allequal.rs (AllEqual),
   props/between.rs (BetweenConstraint), props/conditional.rs (IfThenElseConstraint with
   Condition / SimpleConstraint), as posted by the constructors of props/mod.rs.

   Literal transcription: every `let x_min = self.x.min(ctx)` at the head of a Rust `prune` is a
   `let` on the ENTRY context c0 (these values are not re-read after writes: "stale" reads are
   part of the behaviour); every write threads the current context.  No propagator of this group
   keeps internal mutable state.

   Boolean reading used by the code (and by `sat`): a variable is TRUE iff its value is >= 1 and
   FALSE iff <= 0 (`tr`).  `is01` is added to `sat` exactly for the variables that the code
   forces to the exact values 0 / 1 (result of BoolNot and BoolXor, result of the empty
   BoolAnd / BoolOr); BoolNot also forces its operand to be exactly 0 when false (`0 <= o`).
   On 0/1 assignments every `sat` below is the plain truth table (lemmas *_sat01 in
   Proofs/Props/LogicProofs.v). *)
Require Import Selen.Model.Prelude Selen.Model.Dom Selen.Model.Views Selen.Model.PropDefs.
Require Import Selen.Model.Props.Basic Selen.Model.Props.LinInt.

Definition tr (z : Z) : bool := 1 <=? z.

(* ------------------------------------------------------------------------------------------ *)
(* bool_logic.rs *)

Fixpoint set_all_min (xs : list nat) (b : Z) (c : ctx) : option ctx :=
  match xs with [] => Some c | x :: r => do c <- cset_min x b c; set_all_min r b c end.
Fixpoint set_all_max (xs : list nat) (b : Z) (c : ctx) : option ctx :=
  match xs with [] => Some c | x :: r => do c <- cset_max x b c; set_all_max r b c end.

(* BoolAnd, result <= 0: (false_operands, undetermined_operands) *)
Fixpoint and_scan (s : store) (xs : list nat) (nf : nat) (und : list nat) : nat * list nat :=
  match xs with
  | [] => (nf, und)
  | x :: r =>
    let mn := dmin (sget s x) in
    let mx := dmax (sget s x) in
    if mx <=? 0 then and_scan s r (S nf) und
    else if (mn <=? 0) && (1 <=? mx) then and_scan s r nf (und ++ [x])
    else and_scan s r nf und
  end.
(* BoolAnd, operands -> result: (any_false, all_true), with the `break` *)
Fixpoint and_final (s : store) (xs : list nat) (all_true : bool) : bool * bool :=
  match xs with
  | [] => (false, all_true)
  | x :: r =>
    if dmax (sget s x) <=? 0 then (true, all_true)
    else if dmin (sget s x) <=? 0 then and_final s r false
    else and_final s r all_true
  end.

Definition prune_band (xs : list nat) (r : nat) (c0 : ctx) : option ctx :=
  match xs with
  | [] => do c <- cset_min r 1 c0; cset_max r 1 c
  | _ =>
    let rmin := cvar_min r c0 in
    let rmax := cvar_max r c0 in
    do c <- (if 1 <=? rmin then set_all_min xs 1 c0 else Some c0);
    do c <- (if rmax <=? 0 then
               match and_scan (fst c) xs 0 [] with
               | (O, [u]) => cset_max u 0 c
               | _ => Some c
               end
             else Some c);
    let (any_false, all_true) := and_final (fst c) xs true in
    if any_false then cset_max r 0 c
    else if all_true then cset_min r 1 c
    else Some c
  end.

(* BoolOr, result >= 1: (true_operands, undetermined_operands) *)
Fixpoint or_scan (s : store) (xs : list nat) (nt : nat) (und : list nat) : nat * list nat :=
  match xs with
  | [] => (nt, und)
  | x :: r =>
    let mn := dmin (sget s x) in
    let mx := dmax (sget s x) in
    if 1 <=? mn then or_scan s r (S nt) und
    else if (mn <=? 0) && (1 <=? mx) then or_scan s r nt (und ++ [x])
    else or_scan s r nt und
  end.
(* (any_true, all_false) *)
Fixpoint or_final (s : store) (xs : list nat) (all_false : bool) : bool * bool :=
  match xs with
  | [] => (false, all_false)
  | x :: r =>
    if 1 <=? dmin (sget s x) then (true, all_false)
    else if 1 <=? dmax (sget s x) then or_final s r false
    else or_final s r all_false
  end.

Definition prune_bor (xs : list nat) (r : nat) (c0 : ctx) : option ctx :=
  match xs with
  | [] => do c <- cset_min r 0 c0; cset_max r 0 c
  | _ =>
    let rmin := cvar_min r c0 in
    let rmax := cvar_max r c0 in
    do c <- (if rmax <=? 0 then set_all_max xs 0 c0 else Some c0);
    do c <- (if 1 <=? rmin then
               match or_scan (fst c) xs 0 [] with
               | (O, [u]) => cset_min u 1 c
               | _ => Some c
               end
             else Some c);
    let (any_true, all_false) := or_final (fst c) xs true in
    if any_true then cset_min r 1 c
    else if all_false then cset_max r 0 c
    else Some c
  end.

Definition prune_bnot (o r : nat) (c0 : ctx) : option ctx :=
  let omin := cvar_min o c0 in
  let omax := cvar_max o c0 in
  let rmin := cvar_min r c0 in
  let rmax := cvar_max r c0 in
  do c <- (if omax <=? 0 then set_bool r 1 c0
           else if 1 <=? omin then set_bool r 0 c0
           else Some c0);
  if rmax <=? 0 then cset_min o 1 c
  else if 1 <=? rmin then set_bool o 0 c
  else Some c.

Definition opt_if (b : bool) (f : ctx -> option ctx) (c : ctx) : option ctx := if b then f c else Some c.

Definition prune_bxor (x y r : nat) (c0 : ctx) : option ctx :=
  let xmin := cvar_min x c0 in
  let xmax := cvar_max x c0 in
  let ymin := cvar_min y c0 in
  let ymax := cvar_max y c0 in
  let rmin := cvar_min r c0 in
  let rmax := cvar_max r c0 in
  do c <- (if 1 <=? rmin then
             do c <- opt_if (xmax <=? 0) (cset_min y 1) c0;
             do c <- opt_if (1 <=? xmin) (cset_max y 0) c;
             do c <- opt_if (ymax <=? 0) (cset_min x 1) c;
             opt_if (1 <=? ymin) (cset_max x 0) c
           else Some c0);
  do c <- (if rmax <=? 0 then
             do c <- opt_if (xmax <=? 0) (cset_max y 0) c;
             do c <- opt_if (1 <=? xmin) (cset_min y 1) c;
             do c <- opt_if (ymax <=? 0) (cset_max x 0) c;
             opt_if (1 <=? ymin) (cset_min x 1) c
           else Some c);
  if (xmin =? xmax) && (ymin =? ymax) then
    if xorb (1 <=? xmin) (1 <=? ymin) then set_bool r 1 c else set_bool r 0 c
  else Some c.

Definition mk_band (xs : list nat) (r : nat) : prop :=
  mkprop (prune_band xs r)
         (fun a => (match xs with [] => is01 (a r) | _ => true end)
                   && Bool.eqb (tr (a r)) (forallb (fun x => tr (a x)) xs))
         (r :: xs).
Definition mk_bor (xs : list nat) (r : nat) : prop :=
  mkprop (prune_bor xs r)
         (fun a => (match xs with [] => is01 (a r) | _ => true end)
                   && Bool.eqb (tr (a r)) (existsb (fun x => tr (a x)) xs))
         (r :: xs).
Definition mk_bnot (o r : nat) : prop :=
  mkprop (prune_bnot o r)
         (fun a => is01 (a r) && (0 <=? a o) && Bool.eqb (tr (a r)) (negb (tr (a o))))
         [r; o].
Definition mk_bxor (x y r : nat) : prop :=
  mkprop (prune_bxor x y r)
         (fun a => is01 (a r) && Bool.eqb (tr (a r)) (xorb (tr (a x)) (tr (a y))))
         [r; x; y].

(* ------------------------------------------------------------------------------------------ *)
(* reification.rs *)

(* "enforce x = y by intersecting domains" (IntEqReif b>=1, IntNeReif b<=0) *)
Definition eq_bounds (x y : nat) (xmin xmax ymin ymax : Z) (c : ctx) : option ctx :=
  let nmin := if ymin <? xmin then xmin else ymin in
  let nmax := if xmax <? ymax then xmax else ymax in
  if nmax <? nmin then None
  else
    do c <- cset_min x nmin c;
    do c <- cset_max x nmax c;
    do c <- cset_min y nmin c;
    cset_max y nmax c.

(* "enforce x <> y": when one side is fixed, shave that value off a bound of the other *)
Definition ne_bounds (x y : nat) (xmin xmax ymin ymax : Z) (c : ctx) : option ctx :=
  if xmin =? xmax then
    if (ymin =? xmin) && (ymin <? ymax) then cset_min y (ymin + 1) c
    else if (ymax =? xmin) && (ymin <? ymax) then cset_max y (ymax - 1) c
    else Some c
  else if ymin =? ymax then
    if (xmin =? ymin) && (xmin <? xmax) then cset_min x (xmin + 1) c
    else if (xmax =? ymin) && (xmin <? xmax) then cset_max x (xmax - 1) c
    else Some c
  else Some c.

Definition prune_eq_reif (x y b : nat) (c0 : ctx) : option ctx :=
  let xmin := cvar_min x c0 in let xmax := cvar_max x c0 in
  let ymin := cvar_min y c0 in let ymax := cvar_max y c0 in
  let bmin := cvar_min b c0 in let bmax := cvar_max b c0 in
  do c <- (if (xmax <? ymin) || (ymax <? xmin) then cset_max b 0 c0
           else if (xmin =? xmax) && (ymin =? ymax) && (xmin =? ymin) then cset_min b 1 c0
           else Some c0);
  do c <- opt_if (1 <=? bmin) (eq_bounds x y xmin xmax ymin ymax) c;
  opt_if (bmax <=? 0) (ne_bounds x y xmin xmax ymin ymax) c.

Definition prune_ne_reif (x y b : nat) (c0 : ctx) : option ctx :=
  let xmin := cvar_min x c0 in let xmax := cvar_max x c0 in
  let ymin := cvar_min y c0 in let ymax := cvar_max y c0 in
  let bmin := cvar_min b c0 in let bmax := cvar_max b c0 in
  do c <- (if (xmax <? ymin) || (ymax <? xmin) then cset_min b 1 c0
           else if (xmin =? xmax) && (ymin =? ymax) && (xmin =? ymin) then cset_max b 0 c0
           else Some c0);
  do c <- opt_if (1 <=? bmin) (ne_bounds x y xmin xmax ymin ymax) c;
  opt_if (bmax <=? 0) (eq_bounds x y xmin xmax ymin ymax) c.

(* the four ordering propagators share one shape: two tests for direction 1, and for each value
   of b one bound on x and one on y computed from the ENTRY bounds.
   strict x<y : x <= ymax-1, y >= xmin+1      weak x<=y : x <= ymax, y >= xmin
   strict x>y : x >= ymin+1, y <= xmax-1      weak x>=y : x >= ymin, y <= xmax *)
Definition lt_bounds (x y : nat) (xmin ymax : Z) (c : ctx) : option ctx :=
  do c <- cset_max x (ymax - 1) c; cset_min y (xmin + 1) c.
Definition le_bounds (x y : nat) (xmin ymax : Z) (c : ctx) : option ctx :=
  do c <- cset_max x ymax c; cset_min y xmin c.
Definition gt_bounds (x y : nat) (xmax ymin : Z) (c : ctx) : option ctx :=
  do c <- cset_min x (ymin + 1) c; cset_max y (xmax - 1) c.
Definition ge_bounds (x y : nat) (xmax ymin : Z) (c : ctx) : option ctx :=
  do c <- cset_min x ymin c; cset_max y xmax c.

Definition prune_lt_reif (x y b : nat) (c0 : ctx) : option ctx :=
  let xmin := cvar_min x c0 in let xmax := cvar_max x c0 in
  let ymin := cvar_min y c0 in let ymax := cvar_max y c0 in
  let bmin := cvar_min b c0 in let bmax := cvar_max b c0 in
  do c <- (if xmax <? ymin then cset_min b 1 c0
           else if ymax <=? xmin then cset_max b 0 c0
           else Some c0);
  do c <- opt_if (1 <=? bmin) (lt_bounds x y xmin ymax) c;
  opt_if (bmax <=? 0) (ge_bounds x y xmax ymin) c.

Definition prune_le_reif (x y b : nat) (c0 : ctx) : option ctx :=
  let xmin := cvar_min x c0 in let xmax := cvar_max x c0 in
  let ymin := cvar_min y c0 in let ymax := cvar_max y c0 in
  let bmin := cvar_min b c0 in let bmax := cvar_max b c0 in
  do c <- (if xmax <=? ymin then cset_min b 1 c0
           else if ymax <? xmin then cset_max b 0 c0
           else Some c0);
  do c <- opt_if (1 <=? bmin) (le_bounds x y xmin ymax) c;
  opt_if (bmax <=? 0) (gt_bounds x y xmax ymin) c.

Definition prune_gt_reif (x y b : nat) (c0 : ctx) : option ctx :=
  let xmin := cvar_min x c0 in let xmax := cvar_max x c0 in
  let ymin := cvar_min y c0 in let ymax := cvar_max y c0 in
  let bmin := cvar_min b c0 in let bmax := cvar_max b c0 in
  do c <- (if ymax <? xmin then cset_min b 1 c0
           else if xmax <=? ymin then cset_max b 0 c0
           else Some c0);
  do c <- opt_if (1 <=? bmin) (gt_bounds x y xmax ymin) c;
  opt_if (bmax <=? 0) (le_bounds x y xmin ymax) c.

Definition prune_ge_reif (x y b : nat) (c0 : ctx) : option ctx :=
  let xmin := cvar_min x c0 in let xmax := cvar_max x c0 in
  let ymin := cvar_min y c0 in let ymax := cvar_max y c0 in
  let bmin := cvar_min b c0 in let bmax := cvar_max b c0 in
  do c <- (if ymax <=? xmin then cset_min b 1 c0
           else if xmax <? ymin then cset_max b 0 c0
           else Some c0);
  do c <- opt_if (1 <=? bmin) (ge_bounds x y xmax ymin) c;
  opt_if (bmax <=? 0) (lt_bounds x y xmin ymax) c.

Definition mk_reif (pr : nat -> nat -> nat -> ctx -> option ctx) (rel : Z -> Z -> bool) (x y b : nat) : prop :=
  mkprop (pr x y b) (fun a => Bool.eqb (tr (a b)) (rel (a x) (a y))) [x; y; b].
Definition mk_eq_reif := mk_reif prune_eq_reif Z.eqb.
Definition mk_ne_reif := mk_reif prune_ne_reif (fun u v => negb (u =? v)).
Definition mk_lt_reif := mk_reif prune_lt_reif Z.ltb.
Definition mk_le_reif := mk_reif prune_le_reif Z.leb.
Definition mk_gt_reif := mk_reif prune_gt_reif (fun u v => v <? u).
Definition mk_ge_reif := mk_reif prune_ge_reif (fun u v => v <=? u).

(* ------------------------------------------------------------------------------------------ *)
(* allequal.rs *)

(* compute_domain_intersection over vars[1..], starting from the bounds of vars[0] *)
Fixpoint inter_bounds (s : store) (xs : list nat) (lo hi : Z) : option (Z * Z) :=
  match xs with
  | [] => Some (lo, hi)
  | x :: r =>
    let lo' := if lo <? dmin (sget s x) then dmin (sget s x) else lo in
    let hi' := if dmax (sget s x) <? hi then dmax (sget s x) else hi in
    if hi' <? lo' then None else inter_bounds s r lo' hi'
  end.

Fixpoint alleq_apply (xs : list nat) (lo hi : Z) (c : ctx) : option ctx :=
  match xs with
  | [] => Some c
  | x :: r =>
    do c <- opt_if (cvar_min x c <? lo) (cset_min x lo) c;
    do c <- opt_if (hi <? cvar_max x c) (cset_max x hi) c;
    alleq_apply r lo hi c
  end.

(* vars.is_empty() => compute_domain_intersection returns None => `?` fails the space
   (known finding alleq_empty: the documented meaning of an empty all-equal is TRUE) *)
Definition prune_alleq (xs : list nat) (c : ctx) : option ctx :=
  match xs with
  | [] => None
  | x0 :: r =>
    match inter_bounds (fst c) r (cvar_min x0 c) (cvar_max x0 c) with
    | None => None
    | Some (lo, hi) => alleq_apply xs lo hi c
    end
  end.

Fixpoint all_eq_to (v : Z) (l : list Z) : bool :=
  match l with [] => true | x :: r => (x =? v) && all_eq_to v r end.
Definition all_equal_sem (l : list Z) : bool := match l with [] => true | x :: r => all_eq_to x r end.

Definition mk_alleq (xs : list nat) : prop :=
  mkprop (prune_alleq xs) (fun a => all_equal_sem (map a xs)) xs.
Definition kf_alleq_empty (xs : list nat) : bool := match xs with [] => true | _ => false end.

(* behaviour after the proposed repair fixes/alleq_empty.patch (early `return Some(())` when
   vars.is_empty()); NOT the behaviour of the current tree — kept next to the faithful model so
   that the full-strength theorem is ready when the patch is applied *)
Definition prune_alleq_fixed (xs : list nat) (c : ctx) : option ctx :=
  match xs with [] => Some c | _ :: _ => prune_alleq xs c end.
Definition mk_alleq_fixed (xs : list nat) : prop :=
  mkprop (prune_alleq_fixed xs) (fun a => all_equal_sem (map a xs)) xs.

(* ------------------------------------------------------------------------------------------ *)
(* between.rs *)

Definition prune_between (l m u : nat) (c0 : ctx) : option ctx :=
  let lmin := cvar_min l c0 in
  let mmin := cvar_min m c0 in
  let mmax := cvar_max m c0 in
  let umax := cvar_max u c0 in
  do c <- cset_max l mmax c0;
  do c <- cset_min m lmin c;
  do c <- cset_max m umax c;
  cset_min u mmin c.

Definition mk_between (l m u : nat) : prop :=
  mkprop (prune_between l m u) (fun a => (a l <=? a m) && (a m <=? a u)) [l; m; u].

(* ------------------------------------------------------------------------------------------ *)
(* conditional.rs (integer values only) *)

Inductive ccmp := CEq | CNe | CGt | CLt.
Inductive scmp := SEq | SNe | SGt | SLt | SGe | SLe.
Definition cond := (ccmp * nat * Z)%type.      (* Condition::{Equals,NotEquals,GreaterThan,LessThan}(var, ValI k) *)
Definition simple := (scmp * nat * Z)%type.    (* SimpleConstraint::…(var, ValI k) *)

Definition cond_true (cd : cond) (s : store) : bool :=
  let '(k, v, z) := cd in
  let mn := dmin (sget s v) in
  let mx := dmax (sget s v) in
  match k with
  | CEq => (mn =? mx) && (mn =? z)
  | CNe => (mx <? z) || (z <? mn)
  | CGt => z <? mn
  | CLt => mx <? z
  end.
Definition cond_false (cd : cond) (s : store) : bool :=
  let '(k, v, z) := cd in
  let mn := dmin (sget s v) in
  let mx := dmax (sget s v) in
  match k with
  | CEq => (mx <? z) || (z <? mn)
  | CNe => (mn =? mx) && (mn =? z)
  | CGt => mx <=? z
  | CLt => z <=? mn
  end.

Definition simple_apply (sc : simple) (c : ctx) : option ctx :=
  let '(k, v, z) := sc in
  match k with
  | SEq => do c <- cset_min v z c; cset_max v z c
  | SNe => if cvar_min v c =? z then cset_min v (z + 1) c
           else if cvar_max v c =? z then cset_max v (z - 1) c
           else Some c
  | SGt => cset_min v (z + 1) c
  | SLt => cset_max v (z - 1) c
  | SGe => cset_min v z c
  | SLe => cset_max v z c
  end.

Definition prune_ite (cd : cond) (th : simple) (el : option simple) (c : ctx) : option ctx :=
  if cond_true cd (fst c) then simple_apply th c
  else if cond_false cd (fst c) then
    match el with Some e => simple_apply e c | None => Some c end
  else Some c.

Definition cond_sem (cd : cond) (a : asg) : bool :=
  let '(k, v, z) := cd in
  match k with CEq => a v =? z | CNe => negb (a v =? z) | CGt => z <? a v | CLt => a v <? z end.
Definition simple_sem (sc : simple) (a : asg) : bool :=
  let '(k, v, z) := sc in
  match k with
  | SEq => a v =? z | SNe => negb (a v =? z) | SGt => z <? a v | SLt => a v <? z
  | SGe => z <=? a v | SLe => a v <=? z
  end.

(* Vec::dedup: removes consecutive repeated elements only *)
Fixpoint dedup_adj (l : list nat) : list nat :=
  match l with
  | [] => []
  | x :: r =>
    match r with
    | [] => [x]
    | y :: _ => if Nat.eqb x y then dedup_adj r else x :: dedup_adj r
    end
  end.

Definition cond_var (cd : cond) : nat := snd (fst cd).
Definition simple_var (sc : simple) : nat := snd (fst sc).
Definition ite_vars (cd : cond) (th : simple) (el : option simple) : list nat :=
  dedup_adj (cond_var cd :: simple_var th :: match el with Some e => [simple_var e] | None => [] end).

Definition mk_ite (cd : cond) (th : simple) (el : option simple) : prop :=
  mkprop (prune_ite cd th el)
         (fun a => if cond_sem cd a then simple_sem th a
                   else match el with Some e => simple_sem e a | None => true end)
         (ite_vars cd th el).
