(* abs.rs, min.rs, max.rs, mul.rs, modulo.rs as posted by Propagators::{abs,min,max,mul,modulo}
   (props/mod.rs:550-703).  Integer fragment: every bound is a ValI.

   VERSIONS.  The main definitions (`prune_min`, `prune_max`, `prune_mod`, `mk_minof`, `mk_maxof`,
   `mk_mod`) transcribe the REPAIRED sources (fixes/minmax_step6.patch, fixes/modulo_sound.patch).
   The definitions with suffix `_prefix` transcribe the sources as they are at the pinned commit
   (defects D2 and D4 included); the refutation lemmas in Proofs/Props/ArithProofs.v are about
   those.  `prune_abs` and `prune_mul` are the same before and after the patches.

   MODELLING ASSUMPTION (Int / Int through f64, DESIGN.md 3.2).  `Val::div` on two ValI gives
   `ValF(a as f64 / b as f64)`; the bound then reaches an integer variable through
   `Context::try_set_min(VarI, ValF)` = `ceil`, `try_set_max` = `floor` (views.rs:270-297,445-472), and a
   constant operand through `min <= self` / `max >= self` (views.rs:545-551).  The quotient is modelled
   as the exact rational a/b (a pair, compared by cross multiplication, `rceil`/`rfloor` through
   `cdiv`/`fdiv`).  For |a|,|b| < 2^31, b <> 0: RN is monotone, integers below 2^53 are exact, and a
   non-integer a/b is at distance >= 1/|b| from the nearest integer while ulp(a/b) <= 2^-20/|b|; so
   floor(RN(a/b)) = floor(a/b), ceil likewise, RN(a/b) <= k <-> a/b <= k for integer k, and the
   candidate selected by the strict `<` / `>` folds has the same floor/ceil on both sides (two distinct
   rationals may round to the same double; they then have the same floor and ceil).  The differential
   exercises this on every `mul` case.
   For operands that are composite views (Opposite, Plus, ...) the rational bound is modelled as the
   integer bound ceil/floor pushed through the integer setter `vset`; this is exact for plain variables
   and constants (the forms the generators use) and an extrapolation for composite views, whose ValF
   arithmetic (e.g. `ValF - ValI` in Plus, `Val::prev` on a float in Next) is not modelled. *)
Require Import Selen.Model.Prelude Selen.Model.Dom Selen.Model.Views Selen.Model.PropDefs Selen.Model.Props.Basic.

(* ---------------------------------------------------------------------------------------------- *)
(* selection folds: `iter().fold(v[0], |acc, &x| if x < acc { x } else { acc })` *)
Definition sel_min (l : list Z) (d : Z) : Z := fold_left (fun acc x => if x <? acc then x else acc) l d.
Definition sel_max (l : list Z) (d : Z) : Z := fold_left (fun acc x => if acc <? x then x else acc) l d.

(* Val::range_contains_unsafe_divisor on (ValI, ValI) *)
Definition unsafe_range (lo hi : Z) : bool := (lo <=? 0) && (0 <=? hi).

(* exact rationals standing for ValF(a as f64 / b as f64), b <> 0 *)
Definition rat := (Z * Z)%type.
Definition rnorm (q : rat) : rat := let (a, b) := q in if b <? 0 then (- a, - b) else (a, b).
Definition rlt (p q : rat) : bool :=
  let (a, b) := rnorm p in let (c, d) := rnorm q in a * d <? c * b.
Definition rceil (q : rat) : Z := cdiv (fst q) (snd q).
Definition rfloor (q : rat) : Z := fdiv (fst q) (snd q).
Definition rsel_min (l : list rat) (d : rat) : rat := fold_left (fun acc x => if rlt x acc then x else acc) l d.
Definition rsel_max (l : list rat) (d : rat) : rat := fold_left (fun acc x => if rlt acc x then x else acc) l d.

(* for &s_val in [..] { for &d_val in [..] { if let Some(q) = s_val.safe_div(d_val) { push } } } *)
Definition qcands (ss ds : list Z) : list rat :=
  flat_map (fun s => flat_map (fun d => if d =? 0 then [] else [(s, d)]) ds) ss.

(* ---------------------------------------------------------------------------------------------- *)
(* Mul::prune (mul.rs:19-97).  The divisor bounds used for the back-propagation are the ones read at
   entry (stale), the bounds of s are re-read after the forward step. *)
Definition back_div (w : view) (smin smax dlo dhi : Z) (c : ctx) : option ctx :=
  if unsafe_range dlo dhi then Some c
  else match qcands [smin; smax] [dlo; dhi] with
       | [] => Some c
       | q0 :: l =>   (* fold from candidates[0] over the remaining candidates; Rust's fold also visits
                         candidates[0] itself, which changes nothing (x < x and x > x are false) *)
         do c <- vset_min w (rceil (rsel_min l q0)) c;
         vset_max w (rfloor (rsel_max l q0)) c
       end.

Definition prune_mul (x y : view) (s : nat) (c : ctx) : option ctx :=
  let x_min := cmin x c in let x_max := cmax x c in
  let y_min := cmin y c in let y_max := cmax y c in
  let products := [x_min * y_min; x_min * y_max; x_max * y_min; x_max * y_max] in
  do c <- cset_min s (sel_min products (x_min * y_min)) c;
  do c <- cset_max s (sel_max products (x_min * y_min)) c;
  let s_min := cvar_min s c in let s_max := cvar_max s c in
  do c <- back_div x s_min s_max y_min y_max c;
  back_div y s_min s_max x_min x_max c.

Definition mk_mul (x y : view) (s : nat) : prop :=
  mkprop (prune_mul x y s)
         (fun a => vsem x a * vsem y a =? a s)
         ([s] ++ uvarl x ++ uvarl y).

(* ---------------------------------------------------------------------------------------------- *)
(* Abs::prune (abs.rs:18-125) *)
Definition prune_abs (x : view) (s : nat) (c : ctx) : option ctx :=
  let x_min := cmin x c in let x_max := cmax x c in
  do c <- cset_min s 0 c;
  let abs_x_min := if (x_min <=? 0) && (0 <=? x_max) then 0
                   else if 0 <? x_min then x_min else - x_max in
  let abs_x_max := if Z.abs x_max <? Z.abs x_min then Z.abs x_min else Z.abs x_max in
  do c <- cset_min s abs_x_min c;
  do c <- cset_max s abs_x_max c;
  let s_min := cvar_min s c in let s_max := cvar_max s c in
  do c <- vset_min x (- s_max) c;
  do c <- vset_max x s_max c;
  if (s_min =? s_max) && (0 <? s_min) then
    let x_min_new := cmin x c in let x_max_new := cmax x c in
    if 0 <=? x_min_new then
      do c <- vset_min x s_min c; vset_max x s_max c
    else if x_max_new <=? 0 then
      do c <- vset_min x (- s_max) c; vset_max x (- s_min) c
    else Some c
  else Some c.

Definition mk_abs (x : view) (s : nat) : prop :=
  mkprop (prune_abs x s) (fun a => Z.abs (vsem x a) =? a s) ([s] ++ uvarl x).

(* ---------------------------------------------------------------------------------------------- *)
(* Min::prune / Max::prune (min.rs, max.rs).  Steps 1-5 are common to both versions. *)
Fixpoint each_set_min (xs : list nat) (b : Z) (c : ctx) : option ctx :=
  match xs with [] => Some c | v :: r => do c <- cset_min v b c; each_set_min r b c end.
Fixpoint each_set_max (xs : list nat) (b : Z) (c : ctx) : option ctx :=
  match xs with [] => Some c | v :: r => do c <- cset_max v b c; each_set_max r b c end.

Definition can_be (t : Z) (c : ctx) (v : nat) : bool := (cvar_min v c <=? t) && (t <=? cvar_max v c).

(* steps 1-5; returns the context and result_min_updated / result_max_updated *)
Definition min_steps15 (xs : list nat) (r : nat) (c : ctx) : option (ctx * Z * Z) :=
  match xs with
  | [] => None (* unreachable: callers test for the empty list first *)
  | v0 :: rest =>
    let min_of_mins := fold_left (fun acc v => let m := cvar_min v c in if m <? acc then m else acc) rest (cvar_min v0 c) in
    let min_of_maxs := fold_left (fun acc v => let m := cvar_max v c in if m <? acc then m else acc) rest (cvar_max v0 c) in
    do c <- cset_min r min_of_mins c;
    do c <- cset_max r min_of_maxs c;
    let rmin := cvar_min r c in let rmax := cvar_max r c in
    do c <- each_set_min xs rmin c;
    if (rmin =? rmax) && negb (existsb (can_be rmin c) xs) then None
    else Some (c, rmin, rmax)
  end.

Definition max_steps15 (xs : list nat) (r : nat) (c : ctx) : option (ctx * Z * Z) :=
  match xs with
  | [] => None
  | v0 :: rest =>
    let max_of_mins := fold_left (fun acc v => let m := cvar_min v c in if acc <? m then m else acc) rest (cvar_min v0 c) in
    let max_of_maxs := fold_left (fun acc v => let m := cvar_max v c in if acc <? m then m else acc) rest (cvar_max v0 c) in
    do c <- cset_min r max_of_mins c;
    do c <- cset_max r max_of_maxs c;
    let rmin := cvar_min r c in let rmax := cvar_max r c in
    do c <- each_set_max xs rmax c;
    if (rmin =? rmax) && negb (existsb (can_be rmax c) xs) then None
    else Some (c, rmin, rmax)
  end.

(* repaired sources: step 6 removed *)
Definition prune_min (xs : list nat) (r : nat) (c : ctx) : option ctx :=
  match xs with
  | [] => Some c
  | _ => do t <- min_steps15 xs r c; Some (fst (fst t))
  end.
Definition prune_max (xs : list nat) (r : nat) (c : ctx) : option ctx :=
  match xs with
  | [] => Some c
  | _ => do t <- max_steps15 xs r c; Some (fst (fst t))
  end.

(* `None`-initialised running minimum of the values that pass a test *)
Definition opt_sel (lt : Z -> Z -> bool) (l : list Z) : option Z :=
  fold_left (fun acc m => match acc with None => Some m | Some cur => Some (if lt m cur then m else cur) end) l None.

(* sources at the pinned commit: step 6 (min.rs:91-145, max.rs:91-145) *)
Definition prune_min_prefix (xs : list nat) (r : nat) (c : ctx) : option ctx :=
  match xs with
  | [] => Some c
  | _ =>
    do t <- min_steps15 xs r c;
    let '(c, current_min, _) := t in
    let vars_that_can_be_min := filter (can_be current_min c) xs in
    let next_minimum :=
      opt_sel Z.ltb (filter (fun m => current_min <? m) (map (fun v => cvar_min v c) xs)) in
    match next_minimum, vars_that_can_be_min with
    | Some next_min, [only] =>
      let var_max := cvar_max only c in
      let new_result_max :=
        if var_max <? next_min then var_max
        else (if var_max <? next_min - 1 then var_max else next_min - 1) in
      cset_max r new_result_max c
    | _, _ => Some c
    end
  end.

Definition prune_max_prefix (xs : list nat) (r : nat) (c : ctx) : option ctx :=
  match xs with
  | [] => Some c
  | _ =>
    do t <- max_steps15 xs r c;
    let '(c, _, current_max) := t in
    let vars_that_can_be_max := filter (can_be current_max c) xs in
    let prev_maximum :=
      opt_sel (fun m cur => cur <? m) (filter (fun m => m <? current_max) (map (fun v => cvar_max v c) xs)) in
    match prev_maximum, vars_that_can_be_max with
    | Some prev_max, [only] =>
      let var_min := cvar_min only c in
      let new_result_min :=
        if prev_max <? var_min then var_min
        else (if prev_max + 1 <? var_min then var_min else prev_max + 1) in
      cset_min r new_result_min c
    | _, _ => Some c
    end
  end.

Definition min_sem (xs : list nat) (r : nat) (a : asg) : bool :=
  match xs with [] => false | v0 :: rest => a r =? list_min (a v0) (map a rest) end.
Definition max_sem (xs : list nat) (r : nat) (a : asg) : bool :=
  match xs with [] => false | v0 :: rest => a r =? list_max (a v0) (map a rest) end.

Definition mk_minof (xs : list nat) (r : nat) : prop := mkprop (prune_min xs r) (min_sem xs r) (r :: xs).
Definition mk_maxof (xs : list nat) (r : nat) : prop := mkprop (prune_max xs r) (max_sem xs r) (r :: xs).
Definition mk_minof_prefix (xs : list nat) (r : nat) : prop := mkprop (prune_min_prefix xs r) (min_sem xs r) (r :: xs).
Definition mk_maxof_prefix (xs : list nat) (r : nat) : prop := mkprop (prune_max_prefix xs r) (max_sem xs r) (r :: xs).

(* ---------------------------------------------------------------------------------------------- *)
(* Modulo::prune (modulo.rs:18-226) *)

(* the literal 10 of `y_max_int - y_min_int <= 10` and `x_max_int - x_min_int <= 10` *)
Definition mod_enum_limit : Z := 10.

(* for &a in outer { for &b in inner { push(f a b) } }, skipping unsafe (zero) divisors *)
Definition rems_xy (xs ys : list Z) : list Z :=
  flat_map (fun xv => flat_map (fun yv => if yv =? 0 then [] else [trem xv yv]) ys) xs.
Definition rems_yx (ys xs : list Z) : list Z :=
  flat_map (fun yv => flat_map (fun xv => if yv =? 0 then [] else [trem xv yv]) xs) ys.

Definition set_cands (s : nat) (cands : list Z) (c : ctx) : option ctx :=
  match cands with
  | [] => Some c
  | c0 :: _ => do c <- cset_min s (sel_min cands c0) c; cset_max s (sel_max cands c0) c
  end.

(* CASE 4 candidates: x = k*y + s for k in the given range, kept when inside [x_min, x_max] *)
Definition case4_cands (x_min x_max y_val s_val klo khi : Z) : list Z :=
  filter (fun cx => (x_min <=? cx) && (cx <=? x_max))
         (map (fun k => k * y_val + s_val) (zrange (klo - 1) (khi + 2))).
Definition set_vcands (x : view) (cands : list Z) (c : ctx) : option ctx :=
  match cands with
  | [] => Some c
  | c0 :: _ => do c <- vset_min x (sel_min cands c0) c; vset_max x (sel_max cands c0) c
  end.

(* ---- sources at the pinned commit ---- *)
Definition mod_case2_prefix (s : nat) (y_val s_min s_max : Z) (c : ctx) : option ctx :=
  let '(th_min, th_max) := if 0 <? y_val then (0, y_val - 1) else (y_val + 1, 0) in
  do c <- cset_min s (if s_min <? th_min then th_min else s_min) c;
  cset_max s (if th_max <? s_max then th_max else s_max) c.

Definition mod_case3_cands_prefix (x_min x_max y_min y_max : Z) : list Z :=
  if y_min =? y_max then rems_xy (zrange x_min (x_max + 1)) [y_min]
  else if y_max - y_min <=? mod_enum_limit then
    let x_samples := if x_max - x_min <=? mod_enum_limit then zrange x_min (x_max + 1) else [x_min; x_max] in
    rems_yx (zrange y_min (y_max + 1)) x_samples
  else
    rems_xy (if x_min =? x_max then [x_min] else [x_min; x_max]) [y_min; y_max].

Definition mod_case4_prefix (x : view) (x_min x_max y_val s_val : Z) (c : ctx) : option ctx :=
  let kmin := tdiv (x_min - s_val) y_val in
  let kmax := tdiv (x_max - s_val) y_val in
  set_vcands x (case4_cands x_min x_max y_val s_val kmin kmax) c.

Definition prune_mod_prefix (x y : view) (s : nat) (c : ctx) : option ctx :=
  let x_min := cmin x c in let x_max := cmax x c in
  let y_min := cmin y c in let y_max := cmax y c in
  let s_min := cvar_min s c in let s_max := cvar_max s c in
  if unsafe_range y_min y_max then Some c
  else if (x_min =? x_max) && (y_min =? y_max) && negb (y_min =? 0) then
    (* CASE 1 *)
    do c <- cset_min s (trem x_min y_min) c; cset_max s (trem x_min y_min) c
  else
    (* CASE 2 *)
    do c <- (if (y_min =? y_max) && negb (y_min =? 0) then mod_case2_prefix s y_min s_min s_max c else Some c);
    (* CASE 3 *)
    do c <- set_cands s (mod_case3_cands_prefix x_min x_max y_min y_max) c;
    (* CASE 4: s_min, s_max are the values read at entry *)
    if (y_min =? y_max) && (s_min =? s_max) && negb (y_min =? 0) && (0 <=? s_min) && (s_min <? Z.abs y_min)
    then mod_case4_prefix x x_min x_max y_min s_min c
    else Some c.

(* ---- repaired sources (fixes/modulo_sound.patch) ---- *)
(* CASE 2: the remainder has the sign of the dividend and magnitude below |y| *)
Definition mod_case2 (s : nat) (x_min x_max y_val s_min s_max : Z) (c : ctx) : option ctx :=
  let m := Z.abs y_val - 1 in
  let th_min := if 0 <=? x_min then 0 else - m in
  let th_max := if x_max <=? 0 then 0 else m in
  do c <- cset_min s (if s_min <? th_min then th_min else s_min) c;
  cset_max s (if th_max <? s_max then th_max else s_max) c.

(* CASE 3, ranges too wide to enumerate: enclosure from the sign of x, |s| <= |x| and |s| <= max|y| - 1 *)
Definition mod_enclosure (x_min x_max y_min y_max : Z) : list Z :=
  let m := (if Z.abs y_min <? Z.abs y_max then Z.abs y_max else Z.abs y_min) - 1 in
  [ (if 0 <=? x_min then 0 else (if x_min <? - m then - m else x_min));
    (if x_max <=? 0 then 0 else (if m <? x_max then m else x_max)) ].

Definition mod_case3_cands (x_min x_max y_min y_max : Z) : list Z :=
  if y_min =? y_max then rems_xy (zrange x_min (x_max + 1)) [y_min]
  else if (y_max - y_min <=? mod_enum_limit) && (x_max - x_min <=? mod_enum_limit) then
    rems_yx (zrange y_min (y_max + 1)) (zrange x_min (x_max + 1))
  else mod_enclosure x_min x_max y_min y_max.

Definition mod_case4 (x : view) (x_min x_max y_val s_val : Z) (c : ctx) : option ctx :=
  let k1 := tdiv (x_min - s_val) y_val in
  let k2 := tdiv (x_max - s_val) y_val in
  let '(klo, khi) := if k1 <=? k2 then (k1, k2) else (k2, k1) in
  set_vcands x (case4_cands x_min x_max y_val s_val klo khi) c.

Definition prune_mod (x y : view) (s : nat) (c : ctx) : option ctx :=
  let x_min := cmin x c in let x_max := cmax x c in
  let y_min := cmin y c in let y_max := cmax y c in
  let s_min := cvar_min s c in let s_max := cvar_max s c in
  if unsafe_range y_min y_max then
    (if (y_min =? y_max) && (y_min =? 0) then None else Some c)
  else if (x_min =? x_max) && (y_min =? y_max) && negb (y_min =? 0) then
    do c <- cset_min s (trem x_min y_min) c; cset_max s (trem x_min y_min) c
  else
    do c <- (if (y_min =? y_max) && negb (y_min =? 0) then mod_case2 s x_min x_max y_min s_min s_max c else Some c);
    do c <- set_cands s (mod_case3_cands x_min x_max y_min y_max) c;
    if (y_min =? y_max) && (s_min =? s_max) && negb (y_min =? 0) && (0 <=? s_min) && (s_min <? Z.abs y_min)
    then mod_case4 x x_min x_max y_min s_min c
    else Some c.

Definition mod_sem (x y : view) (s : nat) (a : asg) : bool :=
  negb (vsem y a =? 0) && (a s =? trem (vsem x a) (vsem y a)).

Definition mk_mod (x y : view) (s : nat) : prop :=
  mkprop (prune_mod x y s) (mod_sem x y s) ([s] ++ uvarl x ++ uvarl y).
Definition mk_mod_prefix (x y : view) (s : nat) : prop :=
  mkprop (prune_mod_prefix x y s) (mod_sem x y s) ([s] ++ uvarl x ++ uvarl y).

(* ---------------------------------------------------------------------------------------------- *)
(* Known classes of the sources at the pinned commit: a call lies in the class exactly when the
   pinned code and the repaired code give different results on it (decidable). *)
Fixpoint zlist_eqb (l1 l2 : list Z) : bool :=
  match l1, l2 with
  | [], [] => true
  | x :: r1, y :: r2 => (x =? y) && zlist_eqb r1 r2
  | _, _ => false
  end.
Fixpoint store_eqb (s1 s2 : store) : bool :=
  match s1, s2 with
  | [], [] => true
  | d1 :: r1, d2 :: r2 => zlist_eqb d1 d2 && store_eqb r1 r2
  | _, _ => false
  end.
Definition same_result (o1 o2 : option ctx) : bool :=
  match o1, o2 with
  | None, None => true
  | Some c1, Some c2 => store_eqb (fst c1) (fst c2) && zlist_eqb (map Z.of_nat (snd c1)) (map Z.of_nat (snd c2))
  | _, _ => false
  end.
(* D2 *)
Definition kf_min_step6 (xs : list nat) (r : nat) (c : ctx) : bool :=
  negb (same_result (prune_min_prefix xs r c) (prune_min xs r c)).
Definition kf_max_step6 (xs : list nat) (r : nat) (c : ctx) : bool :=
  negb (same_result (prune_max_prefix xs r c) (prune_max xs r c)).
(* D4 and the other Modulo defects (CASE 2 sign, CASE 3 boundary sampling, CASE 4 negative divisor,
   divisor fixed to zero) *)
Definition kf_mod_prefix (x y : view) (s : nat) (c : ctx) : bool :=
  negb (same_result (prune_mod_prefix x y s c) (prune_mod x y s c)).
