(* props/linear.rs: IntLinEq, IntLinLe, IntLinNe and their reified forms (lines 20-458, helpers
   965-1222).  i32 saturating_add/sub are plain Z operations here: under the InRange hypothesis
   of the theorems nothing saturates (C17 covers overflow).  Coefficient and variable vectors are
   read through `combine` (the API layer rejects vectors of different length before posting). *)
Require Import Selen.Model.Prelude Selen.Model.Dom Selen.Model.Views Selen.Model.PropDefs.
Require Import Selen.Model.Props.Basic.

Definition term_min (s : store) (cf : Z) (v : nat) : Z :=
  if 0 <? cf then cf * dmin (sget s v) else cf * dmax (sget s v).
Definition term_max (s : store) (cf : Z) (v : nat) : Z :=
  if 0 <? cf then cf * dmax (sget s v) else cf * dmin (sget s v).

(* sum over j <> i of f coeff_j var_j *)
Fixpoint others (f : Z -> nat -> Z) (l : list (Z * nat)) (i j : nat) : Z :=
  match l with
  | [] => 0
  | (cf, v) :: r => (if Nat.eqb i j then 0 else f cf v) + others f r i (S j)
  end.

(* one iteration of the loop of IntLinEq::prune for index i (after fix ef03fb9: ceil / floor) *)
Definition lin_eq_step (l : list (Z * nat)) (k : Z) (i : nat) (cf : Z) (x : nat) (c : ctx) : option ctx :=
  if cf =? 0 then Some c
  else
    let mino := others (term_min (fst c)) l i 0 in
    let maxo := others (term_max (fst c)) l i 0 in
    let tmin := k - maxo in
    let tmax := k - mino in
    let nmin := if 0 <? cf then cdiv tmin cf else cdiv tmax cf in
    let nmax := if 0 <? cf then fdiv tmax cf else fdiv tmin cf in
    do c <- cset_min x nmin c;
    cset_max x nmax c.

Fixpoint lin_loop (step : nat -> Z -> nat -> ctx -> option ctx) (l : list (Z * nat)) (i : nat) (c : ctx) : option ctx :=
  match l with
  | [] => Some c
  | (cf, x) :: r => do c <- step i cf x c; lin_loop step r (S i) c
  end.

Definition prune_lin_eq (cs : list Z) (xs : list nat) (k : Z) (c : ctx) : option ctx :=
  let l := combine cs xs in lin_loop (lin_eq_step l k) l 0 c.

Definition lin_le_step (l : list (Z * nat)) (k : Z) (i : nat) (cf : Z) (x : nat) (c : ctx) : option ctx :=
  if cf =? 0 then Some c
  else
    let mino := others (term_min (fst c)) l i 0 in
    let rem := k - mino in
    if 0 <? cf then cset_max x (ediv rem cf) c
    else cset_min x (ediv rem cf) c.

Definition prune_lin_le (cs : list Z) (xs : list nat) (k : Z) (c : ctx) : option ctx :=
  let l := combine cs xs in lin_loop (lin_le_step l k) l 0 c.

(* exclude_value (linear.rs:1183) on an integer variable *)
Definition exclude_value (x : nat) (f : Z) (c : ctx) : option ctx :=
  let mn := cvar_min x c in
  let mx := cvar_max x c in
  if (f <? mn) || (mx <? f) then Some c
  else if (mn =? mx) && (mn =? f) then None
  else if mn =? f then cset_min x (f + 1) c
  else if mx =? f then cset_max x (f - 1) c
  else Some c.

(* scan of IntLinNe::prune: (fixed_sum, unfixed index/coeff/var), None = two unfixed seen *)
Fixpoint ne_scan (s : store) (l : list (Z * nat)) (fs : Z) (u : option (Z * nat)) : option (Z * option (Z * nat)) :=
  match l with
  | [] => Some (fs, u)
  | (cf, x) :: r =>
    let lo := dmin (sget s x) in
    let hi := dmax (sget s x) in
    if lo =? hi then ne_scan s r (fs + cf * lo) u
    else match u with
         | Some _ => None
         | None => ne_scan s r fs (Some (cf, x))
         end
  end.

Definition prune_lin_ne (cs : list Z) (xs : list nat) (k : Z) (c : ctx) : option ctx :=
  match ne_scan (fst c) (combine cs xs) 0 None with
  | None => Some c
  | Some (fs, None) => if fs =? k then None else Some c
  | Some (fs, Some (cf, x)) =>
    if cf =? 0 then (if fs =? k then None else Some c)
    else
      let num := k - fs in
      if trem num cf =? 0 then exclude_value x (tdiv num cf) c else Some c
  end.

(* known class D11: every coefficient that is paired with a variable is zero (incl. no terms) *)
Definition all_zero (cs : list Z) (xs : list nat) : bool := forallb (fun p => fst p =? 0) (combine cs xs).

Fixpoint lin_sem (l : list (Z * nat)) (a : asg) : Z :=
  match l with [] => 0 | (cf, x) :: r => cf * a x + lin_sem r a end.

Definition mk_lin_eq (cs : list Z) (xs : list nat) (k : Z) : prop :=
  mkprop (prune_lin_eq cs xs k) (fun a => lin_sem (combine cs xs) a =? k) xs.
Definition mk_lin_le (cs : list Z) (xs : list nat) (k : Z) : prop :=
  mkprop (prune_lin_le cs xs k) (fun a => lin_sem (combine cs xs) a <=? k) xs.
Definition mk_lin_ne (cs : list Z) (xs : list nat) (k : Z) : prop :=
  mkprop (prune_lin_ne cs xs k) (fun a => negb (lin_sem (combine cs xs) a =? k)) xs.

(* ---- reified forms ---- *)
(* compute_fixed_sum: Some sum iff every variable is fixed *)
Fixpoint fixed_sum (s : store) (l : list (Z * nat)) (acc : Z) : option Z :=
  match l with
  | [] => Some acc
  | (cf, x) :: r =>
    let lo := dmin (sget s x) in
    if lo =? dmax (sget s x) then fixed_sum s r (acc + cf * lo) else None
  end.
Fixpoint sum_bounds (s : store) (l : list (Z * nat)) : Z * Z :=
  match l with
  | [] => (0, 0)
  | (cf, x) :: r => let (mn, mx) := sum_bounds s r in (term_min s cf x + mn, term_max s cf x + mx)
  end.

Definition set_bool (b : nat) (v : Z) (c : ctx) : option ctx :=
  do c <- cset_min b v c; cset_max b v c.

Definition reif_is (b : nat) (v : Z) (c : ctx) : bool := (cvar_min b c =? v) && (cvar_max b c =? v).

Definition prune_lin_eq_reif (cs : list Z) (xs : list nat) (k : Z) (b : nat) (c : ctx) : option ctx :=
  let l := combine cs xs in
  if reif_is b 1 c then prune_lin_eq cs xs k c
  else if reif_is b 0 c then
    match fixed_sum (fst c) l 0 with
    | Some sm => if sm =? k then None else Some c
    | None => Some c
    end
  else match fixed_sum (fst c) l 0 with
       | Some sm => if sm =? k then set_bool b 1 c else set_bool b 0 c
       | None => Some c
       end.

Definition prune_lin_le_reif (cs : list Z) (xs : list nat) (k : Z) (b : nat) (c : ctx) : option ctx :=
  let l := combine cs xs in
  if reif_is b 1 c then prune_lin_le cs xs k c
  else if reif_is b 0 c then
    match fixed_sum (fst c) l 0 with
    | Some sm => if sm <=? k then None else Some c
    | None => Some c
    end
  else let (mn, mx) := sum_bounds (fst c) l in
       if mx <=? k then set_bool b 1 c
       else if k <? mn then set_bool b 0 c
       else Some c.

Definition prune_lin_ne_reif (cs : list Z) (xs : list nat) (k : Z) (b : nat) (c : ctx) : option ctx :=
  let l := combine cs xs in
  if reif_is b 1 c then prune_lin_ne cs xs k c
  else if reif_is b 0 c then prune_lin_eq cs xs k c
  else match fixed_sum (fst c) l 0 with
       | Some sm => if negb (sm =? k) then set_bool b 1 c else set_bool b 0 c
       | None => Some c
       end.

(* b is a 0/1 variable (part of the meaning): true iff 1 *)
Definition is01 (x : Z) : bool := (x =? 0) || (x =? 1).
Definition mk_lin_eq_reif cs xs k b : prop :=
  mkprop (prune_lin_eq_reif cs xs k b) (fun a => is01 (a b) && Bool.eqb (a b =? 1) (lin_sem (combine cs xs) a =? k)) (xs ++ [b]).
Definition mk_lin_le_reif cs xs k b : prop :=
  mkprop (prune_lin_le_reif cs xs k b) (fun a => is01 (a b) && Bool.eqb (a b =? 1) (lin_sem (combine cs xs) a <=? k)) (xs ++ [b]).
Definition mk_lin_ne_reif cs xs k b : prop :=
  mkprop (prune_lin_ne_reif cs xs k b) (fun a => is01 (a b) && Bool.eqb (a b =? 1) (negb (lin_sem (combine cs xs) a =? k))) (xs ++ [b]).
