(* The public posting routes other than fluent trees, integer / boolean models:
   constraints/api/{arithmetic,array,boolean,global,linear,reified}.rs (methods of Model) and the
   free functions of constraints/functions.rs exported by `selen::prelude` (and, or, not, xor, implies,
   element, gcc, cumulative, bool2int).  For each route: the variables it creates (result variables with
   the bounds computed from the operands' CURRENT bounds, auxiliary variables), the propagators /
   pending ASTs it produces and in which order, argument validation, and what prepare_for_search and
   core/validation.rs do with the result.  Transcribed as written, defects included.

   Embeds Model/Api.v + Model/Lower.v (fluent trees, lin_eq/lin_le/lin_ne) unchanged: a base statement
   runs Lower.exec on the store and its new descriptions / pending ASTs are appended (Lower's functions
   never read the propagator list, only the variable store).

   SPECIFICATION side (DESIGN.md Appendix A): `route_sem r res a` — the documented meaning of the call,
   `res` = the handle the call returned (ignored by routes returning nothing) — and `route_fun r a`,
   the value the returned handle must have (None: the call has no solution at a, e.g. x mod 0). *)
Require Import Selen.Model.Prelude Selen.Model.Dom Selen.Model.Views Selen.Model.PropDefs.
Require Import Selen.Model.Props.Basic Selen.Model.Props.Neq Selen.Model.Props.LinInt Selen.Model.Props.Arith.
Require Import Selen.Model.Props.Logic Selen.Model.Props.Global Selen.Model.Gac Selen.Model.Props.AllDiff.
Require Import Selen.Model.Api Selen.Model.Lower.
Require Selen.Generated.Consts.

(* functions::element on an empty array creates its value handle with model.int(-1000, 1000)
   (constraints/functions.rs); before the repair b9ad7d3 every value handle of functions::element had
   this domain.  (These three definitions used to live in Model/Lower.v as the placeholder bounds of
   the fluent API's auxiliary variables, which now have computed bounds: Lower.ebounds.) *)
Definition aux_lo : Z := Selen.Generated.Consts.felement_empty_lo.
Definition aux_hi : Z := Selen.Generated.Consts.felement_empty_hi.
Definition in_aux (x : Z) : bool := (aux_lo <=? x) && (x <=? aux_hi).

(* an `impl View` argument in the integer fragment: a variable handle or a Val::ValI constant *)
Inductive opnd := OV (v : nat) | OC (c : Z).
Inductive ckind := KAtLeast | KAtMost | KExactly.

Inductive route :=
(* api/arithmetic.rs — each returns a result handle *)
| RAdd (x y : opnd) | RSub (x y : opnd) | RMul (x y : opnd) | RMod (x y : opnd) | RAbs (x : opnd)
| RMin (xs : list nat) | RMax (xs : list nat)          (* Err(InvalidInput) on an empty list *)
| RSum (xs : list nat)
(* api/global.rs *)
| RAllDiff (xs : list nat) | RAllEq (xs : list nat)
| RElement (arr : list nat) (idx vl : nat)             (* also array_int_element(index, array, result) *)
| RTable (xs : list nat) (tuples : list (list Z))
| RCount (xs : list nat) (t : opnd) (cv : nat)
| RCard (k : ckind) (xs : list nat) (value n : Z)      (* at_least / at_most / exactly *)
| RGcc (xs : list nat) (vals : list Z) (cnts : list nat)
| RBetween (l m u : nat)
(* api/boolean.rs — and/or/not/xor return a result handle *)
| RBoolAnd (xs : list nat) | RBoolOr (xs : list nat) | RBoolNot (x : nat) | RBoolXor (x y : nat)
| RImplies (a b : nat) | RClause (pos neg : list nat)
(* api/reified.rs, api/linear.rs (lin_*_reif, bool_lin_*_reif; op is OEq / OLe / ONe) *)
| RReif (op : cmp) (x y b : nat)
| RLinReif (op : cmp) (cs : list Z) (xs : list nat) (k : Z) (b : nat)
(* constraints/functions.rs *)
| RFAnd (a b : nat) | RFOr (a b : nat) | RFNot (a : nat) | RFXor (a b : nat)     (* return a handle *)
| RFImplies (a b : nat)
| RFElement (arr : list nat) (idx : nat)               (* returns the value handle *)
| RBool2Int (b : nat)                                   (* returns a handle *)
| RCumulative (starts : list nat) (durs dems : list Z) (cap : Z)
(* api/array.rs: array_int_minimum / array_int_maximum = self.min(array) / self.max(array) *)
| RArrMin (xs : list nat) | RArrMax (xs : list nat)
(* api/arithmetic.rs: sum_iter over an iterator of views (Model::sum(xs) = sum_iter(xs.iter().copied())) *)
| RSumIter (xs : list opnd)
(* api/global.rs: element_2d / element_3d (linearised index + element), table_2d / table_3d (one Table per row) *)
| RElement2D (mat : list (list nat)) (ri ci vl : nat)
| RElement3D (cube : list (list (list nat))) (di ri ci vl : nat)
| RTable2D (mat : list (list nat)) (tuples : list (list Z))
| RTable3D (cube : list (list (list nat))) (tuples : list (list Z)).

Inductive rstmt :=
| SB (s : stmt)            (* declarations, m.new, lin_eq/lin_le/lin_ne (= bool_lin_eq/le/ne), add/sub/mul on variables *)
| SCall (r : route)
(* model/factory.rs array factories: ints (dims = [n]), ints_2d ([rows; cols]), ints_3d ([depth; rows; cols]) and
   bools / bools_2d / bools_3d (= the same with bounds 0, 1).  Every handle is handed to the program, row-major. *)
| SArr (dims : list nat) (lo hi : Z).

(* does the call hand a variable back to the user? *)
Definition returns (r : route) : bool :=
  match r with
  | RAdd _ _ | RSub _ _ | RMul _ _ | RMod _ _ | RAbs _ | RMin _ | RMax _ | RSum _
  | RBoolAnd _ | RBoolOr _ | RBoolNot _ | RBoolXor _ _
  | RFAnd _ _ | RFOr _ _ | RFNot _ | RFXor _ _ | RFElement _ _ | RBool2Int _ => true
  | RArrMin _ | RArrMax _ | RSumIter _ => true
  | _ => false
  end.

(* ------------------------------------------------------------------------------------------ *)
(* propagator descriptions: Lower.pdesc plus the kinds these routes push *)
Inductive rdesc :=
| PB (p : pdesc)
| PSum (xs : list view) (s : nat)                       (* Sum { xs, s } *)
| PAbs (x : view) (s : nat)                             (* Abs { x, s } *)
| PMin (xs : list nat) (r : nat) | PMax (xs : list nat) (r : nat)
| PAllDiff (xs : list nat) | PAllEq (xs : list nat)
| PElement (arr : list nat) (idx vl : nat)
| PTable (xs : list nat) (tuples : list (list Z))
| PCount (xs : list nat) (t : view) (cv : nat)
| PCard (k : ckind) (xs : list nat) (value n : Z)
| PBetween (l m u : nat)
| PBand (xs : list nat) (r : nat) | PBor (xs : list nat) (r : nat)
| PBnot (o r : nat) | PBxor (x y r : nat)
| PReif (op : cmp) (x y b : nat)                        (* Int{Eq,Ne,Lt,Le,Gt,Ge}Reif *)
| PLinReif (op : cmp) (cs : list Z) (xs : list nat) (k : Z) (b : nat).   (* IntLin{Eq,Le,Ne}Reif *)

(* Lower.denote with the Modulo record of the CURRENT sources (fix eab5616 applied) *)
Definition denote_base (p : pdesc) : prop :=
  match p with
  | PAdd x y s => mk_add x y s
  | PMul x y s => mk_mul x y s
  | PMod x y s => mk_mod x y s
  | PLeq x y => mk_leq x y
  | PEq x y => mk_eq x y
  | PNeq x y => mk_neq x y                              (* NotEquals after fix 106df3d (Props/Neq.v) *)
  | PLinEq cs xs k => mk_lin_eq cs xs k
  | PLinLe cs xs k => mk_lin_le cs xs k
  | PLinNe cs xs k => mk_lin_ne cs xs k
  (* pushed by the reified lowering of Or / Not in fluent trees (repair of D3, Lower.reify) *)
  | PCmpR op x y b => mk_cmp_reif op x y b
  | PLinEqR cs xs k b => mk_lin_eq_reif cs xs k b
  | PLinLeR cs xs k b => mk_lin_le_reif cs xs k b
  | PLinNeR cs xs k b => mk_lin_ne_reif cs xs k b
  | PAndR xs r => mk_band xs r
  | POrR xs r => mk_bor xs r
  | PNotR o r => mk_bnot o r
  end.

Definition denote_route (p : rdesc) : prop :=
  match p with
  | PB q => denote_base q
  | PSum xs s => mk_sum xs s
  | PAbs x s => mk_abs x s
  | PMin xs r => mk_minof xs r
  | PMax xs r => mk_maxof xs r
  | PAllDiff xs => mk_alldiff xs
  | PAllEq xs => mk_alleq_fixed xs                      (* fix c1688a4 applied *)
  | PElement arr i v => mk_element arr i v
  | PTable xs ts => mk_table xs ts
  | PCount xs t c => mk_count xs t c
  | PCard KAtLeast xs k n => mk_at_least xs k n
  | PCard KAtMost xs k n => mk_at_most xs k n
  | PCard KExactly xs k n => mk_exactly xs k n
  | PBetween l m u => mk_between l m u
  | PBand xs r => mk_band xs r
  | PBor xs r => mk_bor xs r
  | PBnot o r => mk_bnot o r
  | PBxor x y r => mk_bxor x y r
  | PReif OEq x y b => mk_eq_reif x y b
  | PReif ONe x y b => mk_ne_reif x y b
  | PReif OLt x y b => mk_lt_reif x y b
  | PReif OLe x y b => mk_le_reif x y b
  | PReif OGt x y b => mk_gt_reif x y b
  | PReif OGe x y b => mk_ge_reif x y b
  | PLinReif ONe cs xs k b => mk_lin_ne_reif cs xs k b
  | PLinReif OLe cs xs k b => mk_lin_le_reif cs xs k b
  | PLinReif _ cs xs k b => mk_lin_eq_reif cs xs k b    (* only OEq / OLe / ONe are ever produced *)
  end.

Definition rsat (p : rdesc) (a : asg) : bool := sat (denote_route p) a.

(* pending ASTs: ConstraintKind of Lower.v plus ReifiedLinearInt *)
Inductive rcons :=
| CB (c : cons)
| CReifLin (op : cmp) (cs : list Z) (xs : list nat) (k : Z) (b : nat).

(* ------------------------------------------------------------------------------------------ *)
(* model state *)
Definition rlst := (store * list rdesc)%type.
Record rstate := mkrs {
  rst : rlst;                (* Model.vars, Model.props *)
  rpend : list rcons;        (* Model.pending_constraint_asts *)
  ruser : list nat;          (* VarIds of the handles the program holds, in creation order *)
  rpanic : bool;             (* a debug assertion fired while posting (empty domain read, table arity) *)
  rverr : bool;              (* Model.constraint_validation_errors is non-empty *)
  rcallerr : bool }.         (* some call returned Err to the caller (min / max of an empty list) *)

Definition rs0 : rstate := mkrs ([], []) [] [] false false false.

Definition rnvars (st : rlst) : nat := length (fst st).
Definition rnew_var (d : dom) (st : rlst) : nat * rlst := (rnvars st, (fst st ++ [d], snd st)).
Definition rpush (p : rdesc) (st : rlst) : rlst := (fst st, snd st ++ [p]).

Definition ruv (m : rstate) (i : nat) : nat := nth i (ruser m) i.

(* run a Lower.v statement on the embedded state *)
Definition lin_mismatch (s : stmt) : bool :=
  match s with SLin _ cs xs _ => negb (Nat.eqb (length cs) (length xs)) | _ => false end.
Definition exec_base (s : stmt) (m : rstate) : rstate :=
  let m0 := mkms (fst (rst m), []) [] (ruser m) (rpanic m) in
  let m1 := exec s m0 in
  mkrs (fst (mst m1), snd (rst m) ++ map PB (snd (mst m1)))
       (rpend m ++ map CB (mpend m1)) (muser m1) (mpanic m1)
       (rverr m || lin_mismatch s) (rcallerr m).

(* bounds of an operand on the current store: ViewRaw::min_raw / max_raw.  None = the variable's
   domain is empty (SparseSet::min() debug assertion) *)
Definition obounds (s : store) (o : opnd) : option (Z * Z) :=
  match o with
  | OC c => Some (c, c)
  | OV v => let d := sget s v in if dempty d then None else Some (dmin d, dmax d)
  end.
Definition oview (o : opnd) : view := match o with OV v => VVar v | OC c => VConst c end.
Definition ores (m : rstate) (o : opnd) : opnd := match o with OV u => OV (ruv m u) | OC c => OC c end.

Fixpoint var_bounds (s : store) (xs : list nat) : option (list (Z * Z)) :=
  match xs with
  | [] => Some []
  | x :: r => do b <- obounds s (OV x); do br <- var_bounds s r; Some (b :: br)
  end.

Fixpoint opnd_bounds (s : store) (xs : list opnd) : option (list (Z * Z)) :=
  match xs with
  | [] => Some []
  | x :: r => do b <- obounds s x; do br <- opnd_bounds s r; Some (b :: br)
  end.

(* ---- result bounds (api/arithmetic.rs) ---- *)
Definition add_bounds (bx by_ : Z * Z) : Z * Z := (fst bx + fst by_, snd bx + snd by_).
Definition sub_bounds (bx by_ : Z * Z) : Z * Z := (fst bx - snd by_, snd bx - fst by_).
Definition mul_bounds (bx by_ : Z * Z) : Z * Z :=
  let p0 := fst bx * fst by_ in
  let ps := [p0; fst bx * snd by_; snd bx * fst by_; snd bx * snd by_] in
  (list_min p0 ps, list_max p0 ps).
(* Model::modulo: corner samples through Val::safe_mod, then widened to +-(max|y| - 1); with no
   sample (the divisor's bounds are both 0) the "conservative" +-max|y| *)
Definition mod_bounds (bx by_ : Z * Z) : Z * Z :=
  let smp := flat_map (fun x => flat_map (fun y => if y =? 0 then [] else [trem x y]) [fst by_; snd by_]) [fst bx; snd bx] in
  let yam := Z.max (Z.abs (fst by_)) (Z.abs (snd by_)) in
  match smp with
  | [] => (- yam, yam)
  | v :: r =>
    let mn := list_min v r in let mx := list_max v r in
    if 0 <? yam then (Z.min mn (- (yam - 1)), Z.max mx (yam - 1)) else (mn, mx)
  end.
Definition abs_bounds (bx : Z * Z) : Z * Z :=
  ((if 0 <=? fst bx then fst bx else if snd bx <=? 0 then - snd bx else 0),
   Z.max (Z.abs (fst bx)) (Z.abs (snd bx))).
Definition min_bounds (b0 : Z * Z) (bs : list (Z * Z)) : Z * Z :=
  (list_min (fst b0) (map fst bs), list_min (snd b0) (map snd bs)).
Definition max_bounds (b0 : Z * Z) (bs : list (Z * Z)) : Z * Z :=
  (list_max (fst b0) (map fst bs), list_max (snd b0) (map snd bs)).
Definition sum_bounds_l (bs : list (Z * Z)) : Z * Z :=
  (fold_right Z.add 0 (map fst bs), fold_right Z.add 0 (map snd bs)).

(* ---- building blocks ---- *)
Definition with_st (m : rstate) (st : rlst) : rstate := mkrs st (rpend m) (ruser m) (rpanic m) (rverr m) (rcallerr m).
Definition panic (m : rstate) : rstate := mkrs (rst m) (rpend m) (ruser m) true (rverr m) (rcallerr m).
Definition callerr (m : rstate) : rstate := mkrs (rst m) (rpend m) (ruser m) (rpanic m) (rverr m) true.
Definition give (v : nat) (m : rstate) : rstate := mkrs (rst m) (rpend m) (ruser m ++ [v]) (rpanic m) (rverr m) (rcallerr m).
Definition pend (c : rcons) (m : rstate) : rstate := mkrs (rst m) (rpend m ++ [c]) (ruser m) (rpanic m) (rverr m) (rcallerr m).

(* result variable with bounds b, then the propagator `mk r`; the new VarId is returned *)
(* a range wider than MAX_SPARSE_SET_DOMAIN_SIZE is created in full by SparseSet::new and rejected
   later by validate_variable_domains; the model keeps only its end points (what later min_raw /
   max_raw reads see) and rvalidate tests the width *)
Definition rdrange (lo hi : Z) : dom :=
  if Selen.Generated.Consts.max_sparse_set_domain_size <? hi - lo + 1 then [lo; hi] else drange lo hi.
Definition result_var (b : Z * Z) (mk : nat -> rdesc) (st : rlst) : nat * rlst :=
  let (r, st) := rnew_var (rdrange (fst b) (snd b)) st in (r, rpush (mk r) st).

(* Model::bool_and / bool_or / bool_not / bool_xor: result = self.bool() *)
Definition st_band (xs : list nat) (st : rlst) := result_var (0, 1) (PBand xs) st.
Definition st_bor (xs : list nat) (st : rlst) := result_var (0, 1) (PBor xs) st.
Definition st_bnot (x : nat) (st : rlst) := result_var (0, 1) (PBnot x) st.
Definition st_bxor (x y : nat) (st : rlst) := result_var (0, 1) (PBxor x y) st.
Definition eq_one (v : nat) : rdesc := PB (PEq (VVar v) (VConst 1)).    (* props.equals(v, Val::ValI(1)) *)

(* Model::bool_clause *)
Definition st_clause (pos neg : list nat) (st : rlst) : rlst :=
  match pos, neg with
  | [], [] => rpush (PB (PEq (VConst 0) (VConst 1))) st
  | _, [] => let (r, st) := st_bor pos st in rpush (eq_one r) st
  | [], _ => let (a, st) := st_band neg st in let (n, st) := st_bnot a st in rpush (eq_one n) st
  | _, _ =>
    let (p, st) := st_bor pos st in
    let (a, st) := st_band neg st in
    let (n, st) := st_bnot a st in
    let (f, st) := st_bor [p; n] st in
    rpush (eq_one f) st
  end.

(* Model::gcc: zip(values, counts); one fixed variable and one Count per pair *)
Fixpoint st_gcc (xs : list nat) (vals : list Z) (cnts : list nat) (st : rlst) : rlst :=
  match vals, cnts with
  | v :: vr, c :: cr =>
    let (t, st) := rnew_var (drange v v) st in
    st_gcc xs vr cr (rpush (PCount xs (VVar t) c) st)
  | _, _ => st
  end.

(* functions::cumulative: for i < j with dems[i] + dems[j] > cap:
   end_i = m.add(start_i, dur_i); end_j = m.add(start_j, dur_j); b1 = bool; le_reif(end_i, start_j, b1);
   b2 = bool; le_reif(end_j, start_i, b2); b_result = bool; m.bool_or(&[b1, b2, b_result]);
   equals(b_result, 1) *)
Definition cum_pair (si sj : nat) (di dj : Z) (st : rlst) : option rlst :=
  do bi <- obounds (fst st) (OV si);
  let (ei, st) := result_var (add_bounds bi (di, di)) (fun r => PB (PAdd (VVar si) (VConst di) r)) st in
  do bj <- obounds (fst st) (OV sj);
  let (ej, st) := result_var (add_bounds bj (dj, dj)) (fun r => PB (PAdd (VVar sj) (VConst dj) r)) st in
  let (b1, st) := rnew_var (drange 0 1) st in
  let st := rpush (PReif OLe ei sj b1) st in
  let (b2, st) := rnew_var (drange 0 1) st in
  let st := rpush (PReif OLe ej si b2) st in
  let (br, st) := rnew_var (drange 0 1) st in
  let (_, st) := st_bor [b1; b2; br] st in
  Some (rpush (eq_one br) st).

Fixpoint cum_inner (si : nat) (di ei : Z) (rest : list (nat * (Z * Z))) (cap : Z) (st : rlst) : option rlst :=
  match rest with
  | [] => Some st
  | (sj, (dj, ej)) :: r =>
    do st <- (if cap <? ei + ej then cum_pair si sj di dj st else Some st);
    cum_inner si di ei r cap st
  end.
Fixpoint cum_outer (tasks : list (nat * (Z * Z))) (cap : Z) (st : rlst) : option rlst :=
  match tasks with
  | [] => Some st
  | (si, (di, ei)) :: r => do st <- cum_inner si di ei r cap st; cum_outer r cap st
  end.

(* a route returning the handle of `result_var b mk` *)
Definition ret_result (b : option (Z * Z)) (mk : nat -> rdesc) (m : rstate) : rstate :=
  match b with
  | None => panic m
  | Some b => let (r, st) := result_var b mk (rst m) in give r (with_st m st)
  end.
Definition ret_pair (p : nat * rlst) (m : rstate) : rstate := give (fst p) (with_st m (snd p)).

Definition bin_bounds (f : Z * Z -> Z * Z -> Z * Z) (s : store) (x y : opnd) : option (Z * Z) :=
  do bx <- obounds s x; do by_ <- obounds s y; Some (f bx by_).

(* m.new(c) with the operands of c already resolved to VarIds: Lower.post on the embedded state
   (Lower's functions never read the propagator list) *)
Definition post_base (c : cons) (m : rstate) : rstate :=
  let m0 := mkms (fst (rst m), []) [] (ruser m) (rpanic m) in
  let m1 := post c m0 in
  mkrs (fst (mst m1), snd (rst m) ++ map PB (snd (mst m1)))
       (rpend m ++ map CB (mpend m1)) (muser m1) (mpanic m1) (rverr m) (rcallerr m).

(* Model::element_2d / element_3d, the common tail: computed_idx = self.int(0, flat.len() - 1) (kept by the
   call, not handed out); self.new(linear_idx_expr.eq(computed_idx)) — functions::add / functions::mul build
   the raw Add / Mul nodes, no folding —; the LinearConstraint pushed to pending_lp_constraints is read only by
   the root LP step (outside this model, D10); props.element(flat, computed_idx, value).
   The Element propagator is pushed NOW, the index equation is a pending AST lowered by prepare_for_search. *)
Definition call_element_nd (flat : list nat) (idx_expr : expr) (vl : nat) (m : rstate) : rstate :=
  let (ci, st) := rnew_var (drange 0 (Z.of_nat (length flat) - 1)) (rst m) in
  let m := post_base (CBin idx_expr OEq (EVar ci)) (with_st m st) in
  with_st m (rpush (PElement flat ci vl) (rst m)).

(* `cols` of element_2d: matrix[0].len(), 0 for an empty matrix *)
Definition mat_cols (mat : list (list nat)) : nat := match mat with [] => 0%nat | r0 :: _ => length r0 end.
(* `rows`, `cols` of element_3d: cube[0].len() and cube[0][0].len() *)
Definition cube_rows (cube : list (list (list nat))) : nat := match cube with [] => 0%nat | m0 :: _ => length m0 end.
Definition cube_cols (cube : list (list (list nat))) : nat :=
  match cube with (r0 :: _) :: _ => length r0 | _ => 0%nat end.
Definition idx2 (ri ci : nat) (cols : nat) : expr := EAdd (EMul (EVar ri) (EVal (Z.of_nat cols))) (EVar ci).
Definition idx3 (di ri ci : nat) (rows cols : nat) : expr :=
  EAdd (EMul (EVar di) (EVal (Z.of_nat (rows * cols)))) (EAdd (EMul (EVar ri) (EVal (Z.of_nat cols))) (EVar ci)).

(* Model::table_2d / table_3d before the repair e2596cd: props.table_constraint per row; Table::new
   debug_assert!(every tuple has the arity of vars) — None = the assertion fired *)
Fixpoint st_tables (rows : list (list nat)) (ts : list (list Z)) (st : rlst) : option rlst :=
  match rows with
  | [] => Some st
  | row :: r => if table_okb row ts then st_tables r ts (rpush (PTable row ts) st) else None
  end.
Fixpoint st_tables3 (cube : list (list (list nat))) (ts : list (list Z)) (st : rlst) : option rlst :=
  match cube with
  | [] => Some st
  | mat :: r => do st <- st_tables mat ts st; st_tables3 r ts st
  end.

(* the call, arguments already resolved to VarIds *)
Definition call (r : route) (m : rstate) : rstate :=
  let s := fst (rst m) in
  match r with
  | RAdd x y => ret_result (bin_bounds add_bounds s x y) (fun r => PB (PAdd (oview x) (oview y) r)) m
  | RSub x y => ret_result (bin_bounds sub_bounds s x y) (fun r => PB (p_sub (oview x) (oview y) r)) m
  | RMul x y => ret_result (bin_bounds mul_bounds s x y) (fun r => PB (PMul (oview x) (oview y) r)) m
  | RMod x y => ret_result (bin_bounds mod_bounds s x y) (fun r => PB (PMod (oview x) (oview y) r)) m
  | RAbs x => ret_result (do bx <- obounds s x; Some (abs_bounds bx)) (fun r => PAbs (oview x) r) m
  | RMin xs =>
    match xs with
    | [] => callerr m
    | _ => ret_result (do bs <- var_bounds s xs; match bs with b0 :: br => Some (min_bounds b0 br) | [] => None end) (PMin xs) m
    end
  | RMax xs =>
    match xs with
    | [] => callerr m
    | _ => ret_result (do bs <- var_bounds s xs; match bs with b0 :: br => Some (max_bounds b0 br) | [] => None end) (PMax xs) m
    end
  | RSum xs => ret_result (do bs <- var_bounds s xs; Some (sum_bounds_l bs)) (PSum (map VVar xs)) m
  | RAllDiff xs => with_st m (rpush (PAllDiff xs) (rst m))
  | RAllEq xs => with_st m (rpush (PAllEq xs) (rst m))
  | RElement arr i v => with_st m (rpush (PElement arr i v) (rst m))
  | RTable xs ts =>
    (* Table::new: debug_assert!(every tuple has the arity of vars) *)
    if table_okb xs ts then with_st m (rpush (PTable xs ts) (rst m)) else panic m
  | RCount xs t c => with_st m (rpush (PCount xs (oview t) c) (rst m))
  | RCard k xs v n => with_st m (rpush (PCard k xs v n) (rst m))
  | RGcc xs vals cnts => with_st m (st_gcc xs vals cnts (rst m))
  | RBetween l md u => with_st m (rpush (PBetween l md u) (rst m))
  | RBoolAnd xs => ret_pair (st_band xs (rst m)) m
  | RBoolOr xs => ret_pair (st_bor xs (rst m)) m
  | RBoolNot x => ret_pair (st_bnot x (rst m)) m
  | RBoolXor x y => ret_pair (st_bxor x y (rst m)) m
  | RImplies a b => with_st m (st_clause [b] [a] (rst m))
  | RClause pos neg => with_st m (st_clause pos neg (rst m))
  | RReif op x y b =>
    (* functions::gt_reif / ge_reif post lt / le with the operands swapped *)
    let d := match op with OGt => PReif OLt y x b | OGe => PReif OLe y x b | _ => PReif op x y b end in
    with_st m (rpush d (rst m))
  | RLinReif op cs xs k b => pend (CReifLin op cs xs k b) m       (* no length validation *)
  | RFAnd a b => ret_pair (st_band [a; b] (rst m)) m
  | RFOr a b => ret_pair (st_bor [a; b] (rst m)) m
  | RFNot a => ret_pair (st_bnot a (rst m)) m
  | RFXor a b =>
    let (o, st) := st_bor [a; b] (rst m) in
    let (n, st) := st_band [a; b] st in
    let (nb, st) := st_bnot n st in
    ret_pair (st_band [o; nb] st) m
  | RFImplies a b =>
    (* `let _ = model.bool_or(&[not_b1, b2]);` — the disjunction is never required to hold *)
    let (n, st) := st_bnot a (rst m) in
    let (_, st) := st_bor [n; b] st in with_st m st
  | RFElement arr i =>
    let (r, st) := rnew_var (drange aux_lo aux_hi) (rst m) in       (* model.int(-1000, 1000) *)
    give r (with_st m (rpush (PElement arr i r) st))
  | RBool2Int b =>
    let (r, st) := rnew_var (drange 0 1) (rst m) in
    give r (with_st m (rpush (PB (PEq (VVar r) (VVar b))) st))
  | RCumulative starts durs dems cap =>
    if Nat.eqb (length starts) (length durs) && Nat.eqb (length starts) (length dems) then
      match cum_outer (combine starts (combine durs dems)) cap (rst m) with
      | Some st => with_st m st
      | None => panic m
      end
    else m
  | RArrMin xs =>                                        (* self.min(array) *)
    match xs with
    | [] => callerr m
    | _ => ret_result (do bs <- var_bounds s xs; match bs with b0 :: br => Some (min_bounds b0 br) | [] => None end) (PMin xs) m
    end
  | RArrMax xs =>                                        (* self.max(array) *)
    match xs with
    | [] => callerr m
    | _ => ret_result (do bs <- var_bounds s xs; match bs with b0 :: br => Some (max_bounds b0 br) | [] => None end) (PMax xs) m
    end
  | RSumIter xs => ret_result (do bs <- opnd_bounds s xs; Some (sum_bounds_l bs)) (PSum (map oview xs)) m
  | RElement2D mat ri ci vl =>
    let flat := concat mat in
    let cols := mat_cols mat in
    if Nat.eqb cols 0 then with_st m (rpush (PElement flat ri vl) (rst m))     (* "just create a dummy constraint" *)
    else call_element_nd flat (idx2 ri ci cols) vl m
  | RElement3D cube di ri ci vl =>
    let flat := concat (concat cube) in
    let rows := cube_rows cube in
    let cols := cube_cols cube in
    if Nat.eqb rows 0 || Nat.eqb cols 0 then with_st m (rpush (PElement flat di vl) (rst m))
    else call_element_nd flat (idx3 di ri ci rows cols) vl m
  | RTable2D mat ts =>
    match st_tables mat ts (rst m) with Some st => with_st m st | None => panic m end
  | RTable3D cube ts =>
    match st_tables3 cube ts (rst m) with Some st => with_st m st | None => panic m end
  end.

(* user ordinals -> VarIds *)
Definition rn_opnd (f : nat -> nat) (o : opnd) : opnd := match o with OV u => OV (f u) | OC c => OC c end.
Definition rn_route (f : nat -> nat) (r : route) : route :=
  let l := map f in
  match r with
  | RAdd x y => RAdd (rn_opnd f x) (rn_opnd f y) | RSub x y => RSub (rn_opnd f x) (rn_opnd f y)
  | RMul x y => RMul (rn_opnd f x) (rn_opnd f y) | RMod x y => RMod (rn_opnd f x) (rn_opnd f y)
  | RAbs x => RAbs (rn_opnd f x)
  | RMin xs => RMin (l xs) | RMax xs => RMax (l xs) | RSum xs => RSum (l xs)
  | RAllDiff xs => RAllDiff (l xs) | RAllEq xs => RAllEq (l xs)
  | RElement arr i v => RElement (l arr) (f i) (f v)
  | RTable xs ts => RTable (l xs) ts
  | RCount xs t c => RCount (l xs) (rn_opnd f t) (f c)
  | RCard k xs v n => RCard k (l xs) v n
  | RGcc xs vals cnts => RGcc (l xs) vals (l cnts)
  | RBetween a b c => RBetween (f a) (f b) (f c)
  | RBoolAnd xs => RBoolAnd (l xs) | RBoolOr xs => RBoolOr (l xs)
  | RBoolNot x => RBoolNot (f x) | RBoolXor x y => RBoolXor (f x) (f y)
  | RImplies a b => RImplies (f a) (f b) | RClause p n => RClause (l p) (l n)
  | RReif op x y b => RReif op (f x) (f y) (f b)
  | RLinReif op cs xs k b => RLinReif op cs (l xs) k (f b)
  | RFAnd a b => RFAnd (f a) (f b) | RFOr a b => RFOr (f a) (f b) | RFNot a => RFNot (f a)
  | RFXor a b => RFXor (f a) (f b) | RFImplies a b => RFImplies (f a) (f b)
  | RFElement arr i => RFElement (l arr) (f i)
  | RBool2Int b => RBool2Int (f b)
  | RCumulative st du de cap => RCumulative (l st) du de cap
  | RArrMin xs => RArrMin (l xs) | RArrMax xs => RArrMax (l xs)
  | RSumIter xs => RSumIter (map (rn_opnd f) xs)
  | RElement2D mat ri ci vl => RElement2D (map l mat) (f ri) (f ci) (f vl)
  | RElement3D cube di ri ci vl => RElement3D (map (map l) cube) (f di) (f ri) (f ci) (f vl)
  | RTable2D mat ts => RTable2D (map l mat) ts
  | RTable3D cube ts => RTable3D (map (map l) cube) ts
  end.

(* ---- array factories (model/factory.rs) ----
   ints(n, min, max) = int_vars(n, min, max).collect(): new_vars orders the bounds
   (`if min < max { (min, max) } else { (max, min) }` — unlike Model::int, which creates the empty domain
   for min > max) and creates n variables; ints_2d = rows x ints(cols, ..); ints_3d = depth x ints_2d;
   bools(n) = int_vars(n, 0, 1), bools_2d / bools_3d likewise. *)
Definition declare_r (d : dom) (m : rstate) : rstate :=
  let (v, st) := rnew_var d (rst m) in give v (with_st m st).
Fixpoint repeat_m (n : nat) (f : rstate -> rstate) (m : rstate) : rstate :=
  match n with O => m | S k => repeat_m k f (f m) end.
Definition arr_dom (lo hi : Z) : dom := if lo <? hi then drange lo hi else drange hi lo.
Fixpoint exec_arr (dims : list nat) (lo hi : Z) (m : rstate) : rstate :=
  match dims with
  | [] => declare_r (arr_dom lo hi) m
  | [n] => repeat_m n (declare_r (arr_dom lo hi)) m
  | n :: r => repeat_m n (exec_arr r lo hi) m
  end.

(* a panic unwinds and an Err returned by a call ends the program: later statements do not run *)
Definition rexec (s : rstmt) (m : rstate) : rstate :=
  if rpanic m || rcallerr m then m else
  match s with
  | SB b => exec_base b m
  | SCall r => call (rn_route (ruv m) r) m
  | SArr dims lo hi => exec_arr dims lo hi m
  end.
Definition rbuild (prog : list rstmt) : rstate := fold_left (fun m s => rexec s m) prog rs0.

(* ------------------------------------------------------------------------------------------ *)
(* prepare_for_search *)
Definition base_pend (l : list rcons) : list cons :=
  flat_map (fun c => match c with CB b => [b] | _ => [] end) l.

(* lift a Lower.v state transformer (reads only the store) *)
Definition lift (f : lst -> lst) (st : rlst) : rlst :=
  let r := f (fst st, []) in (fst r, snd st ++ map PB (snd r)).

Definition lin_reif_desc (op : cmp) (cs : list Z) (xs : list nat) (k : Z) (b : nat) : rdesc :=
  match op with
  | OEq | OLe | ONe => PLinReif op cs xs k b
  | _ => PLinReif OLe (map (fun _ => 0) xs) xs 1 b      (* "trivial constraint" arm; unreachable from the public routes *)
  end.
Definition rmaterialize (c : rcons) (st : rlst) : rlst :=
  match c with
  | CB b => lift (materialize b) st
  | CReifLin op cs xs k b => rpush (lin_reif_desc op cs xs k b) st
  end.

Inductive rverr_t := VInvalidDomain | VInvalidConstraint | VConflicting.
Inductive rlowered :=
| RLPanic
| RLOk (s : store) (ps : list rdesc).

Definition rlower (m : rstate) : rlowered :=
  if rpanic m then RLPanic
  else
    let bp := base_pend (rpend m) in
    let st0 := infer_eq bp (fst (rst m), []) in
    match immediate_var_eq bp st0 with
    | None => RLPanic
    | Some st1 =>
      let st := fold_left (fun st c => rmaterialize c st) (rpend m) (fst st1, snd (rst m)) in
      RLOk (fst st) (snd st)
    end.

(* ---- core/validation.rs on the lowered model ---- *)
(* metadata.variables registered by Propagators::{add,mul,modulo}: underlying variables of x, y, then s *)
Definition reg_vars3 (x y : view) (s : nat) : list nat := uvarl x ++ uvarl y ++ [s].

(* validate_alldiff_constraints (ConflictingConstraints): two variables fixed to the same value, or
   fewer distinct values in the union of the domains than variables *)
Fixpoint fixed_dup (s : store) (xs : list nat) (seen : list Z) : bool :=
  match xs with
  | [] => false
  | x :: r =>
    match sget s x with
    | [v] => if memZ v seen then true else fixed_dup s r (v :: seen)
    | _ => fixed_dup s r seen
    end
  end.
Definition union_size (s : store) (xs : list nat) : nat :=
  length (fold_right (fun x acc => fold_right zinsert acc (sget s x)) [] xs).
Definition alldiff_conflict (s : store) (p : rdesc) : bool :=
  match p with
  | PAllDiff xs =>
    if Nat.leb (length xs) 1 then false
    else fixed_dup s xs [] || Nat.ltb (union_size s xs) (length xs)
  | _ => false
  end.
Fixpoint has_dup (xs : list nat) : bool :=
  match xs with [] => false | x :: r => existsb (Nat.eqb x) r || has_dup r end.
(* validate_constraint_parameters (InvalidConstraint).
   BEFORE the repair d12_validation_operands (finding D12): the Addition | Multiplication arm demanded 2-3 registered VARIABLES
   (add / sub / mul of two constants registers only the result), the Division | Modulo arm exactly 3 registered variables (a
   constant dividend or divisor registers none) and looked for the divisor at variables[1]. *)
Definition bad_params_prefix (s : store) (p : rdesc) : bool :=
  match p with
  | PAllDiff xs => has_dup xs
  | PB (PAdd x y r) | PB (PMul x y r) => Nat.ltb (length (reg_vars3 x y r)) 2
  | PB (PMod x y r) =>
    let vs := reg_vars3 x y r in
    if negb (Nat.eqb (length vs) 3) then true
    else match nth_error vs 1 with Some d => memZ 0 (sget s d) | None => false end
  | _ => false
  end.
(* AFTER it (the current tree): both arms count OPERANDS (ConstraintData::NAry always records x, y and the result: never
   rejected on that account) and accept 1-3 variables; the divisor is the SECOND OPERAND (Propagators::analyze_view: a view with
   an underlying variable is recorded as that variable, any other view as the constant it evaluates to): a variable whose domain
   contains 0, or the constant 0, is rejected ("divisor that can be zero"). *)
Definition divisor_can_be_zero (s : store) (y : view) : bool :=
  match uvar y with
  | Some d => memZ 0 (sget s d)
  | None => vsem y (fun _ => 0) =? 0
  end.
Definition bad_params (s : store) (p : rdesc) : bool :=
  match p with
  | PAllDiff xs => has_dup xs
  | PB (PMod x y r) => divisor_can_be_zero s y
  | _ => false
  end.
Definition rvalidate_with (bad : store -> rdesc -> bool) (s : store) (ps : list rdesc) : option rverr_t :=
  if existsb dempty s then Some VInvalidDomain
  else if existsb (fun d => Selen.Generated.Consts.max_sparse_set_domain_size <? dmax d - dmin d + 1) s then Some VInvalidDomain
  else if existsb (alldiff_conflict s) ps then Some VConflicting
  else if existsb (bad s) ps then Some VInvalidConstraint
  else None.
Definition rvalidate (s : store) (ps : list rdesc) : option rverr_t :=
  if existsb dempty s then Some VInvalidDomain
  else if existsb (fun d => Selen.Generated.Consts.max_sparse_set_domain_size <? dmax d - dmin d + 1) s then Some VInvalidDomain
  else if existsb (alldiff_conflict s) ps then Some VConflicting
  else if existsb (bad_params s) ps then Some VInvalidConstraint
  else None.
Definition rvalidate_prefix (s : store) (ps : list rdesc) : option rverr_t := rvalidate_with bad_params_prefix s ps.

(* ------------------------------------------------------------------------------------------ *)
(* SPECIFICATION: the documented meaning of each call (Appendix A).  Variables are whatever index
   space the caller uses (user ordinals in the tie, VarIds in the theorems). *)
Definition osem (o : opnd) (a : asg) : Z := match o with OV v => a v | OC c => c end.
Definition b2z (b : bool) : Z := if b then 1 else 0.
Definition sumv (xs : list nat) (a : asg) : Z := fold_right (fun x acc => a x + acc) 0 xs.

(* cumulative: at the start of every task the running tasks' demands fit the capacity
   (an overload, if any, occurs at some task's start) *)
Definition cum_load (tasks : list (nat * (Z * Z))) (t : Z) (a : asg) : Z :=
  fold_right (fun p acc => let '(s, (d, e)) := p in
                           if (a s <=? t) && (t <? a s + d) then e + acc else acc) 0 tasks.
Definition cum_sem (starts : list nat) (durs dems : list Z) (cap : Z) (a : asg) : bool :=
  let tasks := combine starts (combine durs dems) in
  forallb (fun s => cum_load tasks (a s) a <=? cap) starts.

(* the value of the returned handle as a function of the operands; None = no value exists *)
Definition route_fun (r : route) (a : asg) : option Z :=
  match r with
  | RAdd x y => Some (osem x a + osem y a)
  | RSub x y => Some (osem x a - osem y a)
  | RMul x y => Some (osem x a * osem y a)
  | RMod x y => if osem y a =? 0 then None else Some (trem (osem x a) (osem y a))
  | RAbs x => Some (Z.abs (osem x a))
  | RMin (v0 :: rest) => Some (list_min (a v0) (map a rest))
  | RMax (v0 :: rest) => Some (list_max (a v0) (map a rest))
  | RSum xs => Some (sumv xs a)
  | RBoolAnd xs => Some (b2z (forallb (fun x => tr (a x)) xs))
  | RBoolOr xs => Some (b2z (existsb (fun x => tr (a x)) xs))
  | RBoolNot x => Some (b2z (negb (tr (a x))))
  | RBoolXor x y => Some (b2z (xorb (tr (a x)) (tr (a y))))
  | RFAnd x y => Some (b2z (tr (a x) && tr (a y)))
  | RFOr x y => Some (b2z (tr (a x) || tr (a y)))
  | RFNot x => Some (b2z (negb (tr (a x))))
  | RFXor x y => Some (b2z (xorb (tr (a x)) (tr (a y))))
  | RFElement arr i =>
    if 0 <=? a i then match nth_error arr (Z.to_nat (a i)) with Some x => Some (a x) | None => None end else None
  | RBool2Int b => Some (a b)
  | RArrMin (v0 :: rest) => Some (list_min (a v0) (map a rest))
  | RArrMax (v0 :: rest) => Some (list_max (a v0) (map a rest))
  | RSumIter xs => Some (fold_right (fun x acc => osem x a + acc) 0 xs)
  | _ => None
  end.

(* matrix[row][col] / cube[depth][row][col] with 0-based indices; None = some index is out of range *)
Definition nth_z {A} (l : list A) (i : Z) : option A := if 0 <=? i then nth_error l (Z.to_nat i) else None.
Definition mat_at (mat : list (list nat)) (r c : Z) : option nat := do row <- nth_z mat r; nth_z row c.
Definition cube_at (cube : list (list (list nat))) (d r c : Z) : option nat := do mat <- nth_z cube d; mat_at mat r c.
Definition row_in_table (ts : list (list Z)) (a : asg) (row : list nat) : bool := existsb (fun tp => tuple_eq row tp a) ts.

Definition route_sem (r : route) (res : nat) (a : asg) : bool :=
  if returns r then match route_fun r a with Some v => a res =? v | None => false end
  else
  match r with
  | RAllDiff xs => nodupb (map a xs)
  | RAllEq xs => all_equal_sem (map a xs)
  | RElement arr i v =>
    (0 <=? a i) && match nth_error arr (Z.to_nat (a i)) with Some x => a x =? a v | None => false end
  | RTable xs ts => existsb (fun tp => tuple_eq xs tp a) ts
  | RCount xs t c => a c =? occurrences xs (osem t a) a
  | RCard KAtLeast xs v n => n <=? occurrences xs v a
  | RCard KAtMost xs v n => occurrences xs v a <=? n
  | RCard KExactly xs v n => occurrences xs v a =? n
  | RGcc xs vals cnts =>
    Nat.eqb (length vals) (length cnts) &&
    forallb (fun p => a (snd p) =? occurrences xs (fst p) a) (combine vals cnts)
  | RBetween l m u => (a l <=? a m) && (a m <=? a u)
  | RImplies x y | RFImplies x y => implb (tr (a x)) (tr (a y))
  | RClause pos neg => existsb (fun x => tr (a x)) pos || existsb (fun x => negb (tr (a x))) neg
  | RReif op x y b => Bool.eqb (tr (a b)) (cmp_sem op (a x) (a y))
  | RLinReif op cs xs k b =>
    (* a relation whose coefficient and variable vectors differ in length is malformed and never
       holds: its reification is false (documented by fix e45322d; before it: class kf_linreif_len) *)
    if Nat.eqb (length cs) (length xs)
    then is01 (a b) && Bool.eqb (a b =? 1) (cmp_sem op (lin_val cs xs a) k)
    else a b =? 0
  | RCumulative st du de cap =>
    Nat.eqb (length st) (length du) && Nat.eqb (length st) (length de) && cum_sem st du de cap a
  | RElement2D mat ri ci vl =>
    match mat_at mat (a ri) (a ci) with Some x => a x =? a vl | None => false end
  | RElement3D cube di ri ci vl =>
    match cube_at cube (a di) (a ri) (a ci) with Some x => a x =? a vl | None => false end
  | RTable2D mat ts => forallb (row_in_table ts a) mat
  | RTable3D cube ts => forallb (forallb (row_in_table ts a)) cube
  | _ => false
  end.

(* ------------------------------------------------------------------------------------------ *)
(* decidable known-defect classes of the routes (predicates on the call, arguments resolved, and the
   store at call / validation time) *)

(* D12: Model::modulo with a constant operand registers two variables; validation demands three *)
Definition kf_mod_const (r : route) : bool :=
  match r with RMod (OC _) _ | RMod _ (OC _) => true | _ => false end.
(* validation rejects every modulo whose divisor's domain contains 0, although the non-zero divisors
   may satisfy the model *)
Definition kf_mod_zero_div (r : route) (s : store) : bool :=
  match r with RMod _ (OV y) => memZ 0 (sget s y) | _ => false end.
(* add / mul of two constants registers one variable; validation demands two *)
Definition kf_const_const (r : route) : bool :=
  match r with RAdd (OC _) (OC _) | RSub (OC _) (OC _) | RMul (OC _) (OC _) => true | _ => false end.
(* functions::element: the value handle is created with the placeholder domain -1000..1000 *)
Definition kf_felement_bounds (r : route) (s : store) : bool :=
  match r with
  | RFElement arr _ => existsb (fun x => existsb (fun v => negb (in_aux v)) (sget s x)) arr
  | _ => false
  end.
(* functions::implies never requires its disjunction to hold; functions::cumulative ORs the two
   orderings together with the variable it then fixes to 1 *)
Definition kf_noop_route (r : route) : bool :=
  match r with RFImplies _ _ | RCumulative _ _ _ _ => true | _ => false end.
(* D11 through the reified linear routes *)
Definition kf_linreif_zero (r : route) : bool :=
  match r with RLinReif _ cs xs _ _ => all_zero cs xs | _ => false end.
(* lin_*_reif / bool_lin_*_reif do not validate lengths: fewer coefficients than variables indexes out
   of bounds at propagation time, more coefficients are silently ignored *)
Definition kf_linreif_len (r : route) : bool :=
  match r with RLinReif _ cs xs _ _ => negb (Nat.eqb (length cs) (length xs)) | _ => false end.
(* gcc zips values with counts: a length mismatch is silently truncated *)
Definition kf_gcc_len (r : route) : bool :=
  match r with RGcc _ vals cnts => negb (Nat.eqb (length vals) (length cnts)) | _ => false end.
(* boolean routes are documented for 0/1 variables *)
Definition is_bool_dom (d : dom) : bool := forallb (fun v => is01 v) d.
Definition bool_args (r : route) : list nat :=
  match r with
  | RBoolAnd xs | RBoolOr xs => xs
  | RBoolNot x | RFNot x => [x]
  | RBoolXor x y | RImplies x y | RFAnd x y | RFOr x y | RFXor x y | RFImplies x y => [x; y]
  | RClause p n => p ++ n
  | RReif _ _ _ b | RLinReif _ _ _ _ b => [b]
  | RBool2Int b => [b]
  | _ => []
  end.
Definition kf_nonbool_arg (r : route) (s : store) : bool :=
  negb (forallb (fun x => is_bool_dom (sget s x)) (bool_args r)).

(* element_2d / element_3d constrain only the LINEARISED index row * cols + col (resp. depth * rows * cols +
   row * cols + col) to 0 .. flat.len() - 1; the individual indices are not constrained.  A column index
   outside 0 .. cols - 1 (3-D: also a row index outside 0 .. rows - 1) therefore addresses a cell of ANOTHER
   row (matrix [[p, q], [r, s]], row 0, col 2 reads r; row 1, col -1 reads q); on a ragged matrix / cube the
   linearisation uses the first row's length and reads the wrong cell even for valid indices. *)
Definition rect (mat : list (list nat)) : bool := forallb (fun row => Nat.eqb (length row) (mat_cols mat)) mat.
Definition rect3 (cube : list (list (list nat))) : bool :=
  forallb (fun mat => Nat.eqb (length mat) (cube_rows cube) && forallb (fun row => Nat.eqb (length row) (cube_cols cube)) mat) cube.
Definition idx_in (n : nat) (d : dom) : bool := forallb (fun v => (0 <=? v) && (v <? Z.of_nat n)) d.
Definition kf_element_nd_index (r : route) (s : store) : bool :=
  match r with
  | RElement2D mat _ ci _ =>
    negb (Nat.eqb (mat_cols mat) 0) && negb (rect mat && idx_in (mat_cols mat) (sget s ci))
  | RElement3D cube _ ri ci _ =>
    negb (Nat.eqb (cube_rows cube) 0 || Nat.eqb (cube_cols cube) 0) &&
    negb (rect3 cube && idx_in (cube_cols cube) (sget s ci) && idx_in (cube_rows cube) (sget s ri))
  | _ => false
  end.
(* the empty-matrix arm ("just create a dummy constraint") posts element([], row_idx, value): never satisfiable,
   as documented (no cell exists); a matrix whose FIRST row is empty but a later one is not takes the same arm with
   a non-empty flat array indexed by the ROW index *)
Definition kf_element_nd_dummy (r : route) : bool :=
  match r with
  | RElement2D mat _ _ _ => Nat.eqb (mat_cols mat) 0 && negb (Nat.eqb (length (concat mat)) 0)
  | RElement3D cube _ _ _ _ =>
    (Nat.eqb (cube_rows cube) 0 || Nat.eqb (cube_cols cube) 0) && negb (Nat.eqb (length (concat (concat cube))) 0)
  | _ => false
  end.
(* table_2d / table_3d call props.table_constraint directly: a tuple of the wrong arity is dropped silently
   (Table::new since e2596cd; a debug assertion before), no validation error is recorded — unlike Model::table *)
Definition kf_table_nd_arity (r : route) : bool :=
  match r with
  | RTable2D mat ts => negb (forallb (fun row => table_okb row ts) mat)
  | RTable3D cube ts => negb (forallb (forallb (fun row => table_okb row ts)) cube)
  | _ => false
  end.

(* ------------------------------------------------------------------------------------------ *)
(* Behaviour of the CURRENT tree, i.e. after the repairs a88ba19 (implies / cumulative), b9ad7d3
   (functions::element bounds), e45322d (length-mismatched reified linear postings force b = 0) and e2596cd
   (Model::table drops malformed tuples and records a validation error); 596c327 (prepare_for_search returns a
   recorded posting-time error) only changes which entry points report `rverr` and is handled in the driver.
   `call` / `rbuild` above describe the tree BEFORE these repairs and are kept for the refutation lemmas
   (driver switch SELEN_ROUTES_PREFIX=1). *)
Definition verr (m : rstate) : rstate := mkrs (rst m) (rpend m) (ruser m) (rpanic m) true (rcallerr m).
Definition cum_pair_fixed (si sj : nat) (di dj : Z) (st : rlst) : option rlst :=
  do bi <- obounds (fst st) (OV si);
  let (ei, st) := result_var (add_bounds bi (di, di)) (fun r => PB (PAdd (VVar si) (VConst di) r)) st in
  do bj <- obounds (fst st) (OV sj);
  let (ej, st) := result_var (add_bounds bj (dj, dj)) (fun r => PB (PAdd (VVar sj) (VConst dj) r)) st in
  let (b1, st) := rnew_var (drange 0 1) st in
  let st := rpush (PReif OLe ei sj b1) st in
  let (b2, st) := rnew_var (drange 0 1) st in
  let st := rpush (PReif OLe ej si b2) st in
  let (br, st) := st_bor [b1; b2] st in                  (* b_result = bool_or(&[b1, b2]) *)
  Some (rpush (eq_one br) st).
Fixpoint cum_inner_fixed (si : nat) (di ei : Z) (rest : list (nat * (Z * Z))) (cap : Z) (st : rlst) : option rlst :=
  match rest with
  | [] => Some st
  | (sj, (dj, ej)) :: r =>
    do st <- (if cap <? ei + ej then cum_pair_fixed si sj di dj st else Some st);
    cum_inner_fixed si di ei r cap st
  end.
Fixpoint cum_outer_fixed (tasks : list (nat * (Z * Z))) (cap : Z) (st : rlst) : option rlst :=
  match tasks with
  | [] => Some st
  | (si, (di, ei)) :: r => do st <- cum_inner_fixed si di ei r cap st; cum_outer_fixed r cap st
  end.
(* functions::element after the repair: the hull of the array entries' bounds *)
Definition felement_bounds_fixed (s : store) (arr : list nat) : option (Z * Z) :=
  do bs <- var_bounds s arr;
  match bs with
  | [] => Some (aux_lo, aux_hi)
  | b0 :: br => Some (list_min (fst b0) (map fst br), list_max (snd b0) (map snd br))
  end.
Definition st_tables_fixed (rows : list (list nat)) (ts : list (list Z)) (st : rlst) : rlst :=
  fold_left (fun st row => rpush (PTable row (filter (fun tp => Nat.eqb (length tp) (length row)) ts)) st) rows st.
Definition call_fixed (r : route) (m : rstate) : rstate :=
  match r with
  | RFImplies a b =>
    let (n, st) := st_bnot a (rst m) in
    let (h, st) := st_bor [n; b] st in with_st m (rpush (eq_one h) st)
  | RFElement arr i => ret_result (felement_bounds_fixed (fst (rst m)) arr) (PElement arr i) m
  | RCumulative starts durs dems cap =>
    if Nat.eqb (length starts) (length durs) && Nat.eqb (length starts) (length dems) then
      match cum_outer_fixed (combine starts (combine durs dems)) cap (rst m) with
      | Some st => with_st m st
      | None => panic m
      end
    else m
  | RLinReif op cs xs k b =>
    (* fix e45322d: a length mismatch posts equals(b, 0) at once and stores no AST *)
    if Nat.eqb (length cs) (length xs) then call r m
    else with_st m (rpush (PB (PEq (VVar b) (VConst 0))) (rst m))
  | RTable xs ts =>
    (* fix e2596cd: Table::new keeps the tuples of the right arity, Model::table records an
       InvalidConstraint validation error (returned by every solving call since 596c327) *)
    if table_okb xs ts then call r m
    else verr (with_st m (rpush (PTable xs (filter (fun tp => Nat.eqb (length tp) (length xs)) ts)) (rst m)))
  (* table_2d / table_3d -> props.table_constraint -> Table::new (e2596cd) keeps the tuples of the right arity;
     nothing is recorded *)
  | RTable2D mat ts => with_st m (st_tables_fixed mat ts (rst m))
  | RTable3D cube ts => with_st m (fold_left (fun st mat => st_tables_fixed mat ts st) cube (rst m))
  | _ => call r m
  end.
Definition rexec_fixed (s : rstmt) (m : rstate) : rstate :=
  if rpanic m || rcallerr m then m else
  match s with
  | SB b => exec_base b m
  | SCall r => call_fixed (rn_route (ruv m) r) m
  | SArr dims lo hi => exec_arr dims lo hi m
  end.
Definition rbuild_fixed (prog : list rstmt) : rstate := fold_left (fun m s => rexec_fixed s m) prog rs0.

(* ------------------------------------------------------------------------------------------ *)
(* Behaviour AFTER the proposed repairs fixes/routes_ext/routes_table_nd_arity.patch and
   fixes/routes_ext/routes_element_nd_index.patch (NOT the current tree; driver switch SELEN_ROUTES_EXT_FIXED=1):
   table_2d / table_3d go through Model::table (arity validation as there); element_2d / element_3d record an
   InvalidConstraint validation error for a ragged matrix / cube and bound the column index (3-D: row and column
   index) to its own dimension: greater_than_or_equals(idx, 0), less_than_or_equals(idx, n - 1) before the index
   equation and the Element propagator. *)
Definition idx_bounds (i : nat) (n : nat) (st : rlst) : rlst :=
  rpush (PB (PLeq (VVar i) (VConst (Z.of_nat n - 1)))) (rpush (PB (PLeq (VConst 0) (VVar i))) st).
Definition call_ext_fixed (r : route) (m : rstate) : rstate :=
  match r with
  | RTable2D mat ts => fold_left (fun m row => call_fixed (RTable row ts) m) mat m
  | RTable3D cube ts => fold_left (fun m mat => fold_left (fun m row => call_fixed (RTable row ts) m) mat m) cube m
  | RElement2D mat ri ci vl =>
    let m := if rect mat then m else verr m in
    let flat := concat mat in
    let cols := mat_cols mat in
    if Nat.eqb cols 0 then with_st m (rpush (PElement flat ri vl) (rst m))
    else call_element_nd flat (idx2 ri ci cols) vl (with_st m (idx_bounds ci cols (rst m)))
  | RElement3D cube di ri ci vl =>
    let m := if rect3 cube then m else verr m in
    let flat := concat (concat cube) in
    let rows := cube_rows cube in
    let cols := cube_cols cube in
    if Nat.eqb rows 0 || Nat.eqb cols 0 then with_st m (rpush (PElement flat di vl) (rst m))
    else call_element_nd flat (idx3 di ri ci rows cols) vl (with_st m (idx_bounds ci cols (idx_bounds ri rows (rst m))))
  | _ => call_fixed r m
  end.
Definition rexec_ext_fixed (s : rstmt) (m : rstate) : rstate :=
  if rpanic m || rcallerr m then m else
  match s with
  | SB b => exec_base b m
  | SCall r => call_ext_fixed (rn_route (ruv m) r) m
  | SArr dims lo hi => exec_arr dims lo hi m
  end.
Definition rbuild_ext_fixed (prog : list rstmt) : rstate := fold_left (fun m s => rexec_ext_fixed s m) prog rs0.

(* ------------------------------------------------------------------------------------------ *)
(* Behaviour AFTER the repairs fixes/routes_fix2/routes_gcc_len.patch and routes_empty_domain_read.patch
   (default of the driver; SELEN_ROUTES_FIX2_PREFIX=1 selects call_ext_fixed, the tree before them):
   * Model::gcc records an InvalidConstraint validation error when |values| <> |counts| (and still posts the
     zipped pairs); every solving call returns it.  Before: silent truncation (class kf_gcc_len, gcc_len_refuted).
   * the posting methods that derive a result variable from their operands' bounds (add, sub, mul, modulo, abs,
     min, max, sum / sum_iter, array_int_minimum / maximum, functions::element, functions::cumulative through
     Model::add) ask Model::operand_bounds, which is None for an operand whose integer domain is EMPTY; the result
     variable then gets the empty domain (Model::empty_result_var = new_var_unchecked(1, 0)), the propagator is
     posted as usual and validation reports InvalidDomain from the solving call.  Before: SparseSet::min()'s
     debug assertion (rpanic; empty_domain_read_panics), stale bounds in release builds. *)
Definition result_var_opt (b : option (Z * Z)) (mk : nat -> rdesc) (st : rlst) : nat * rlst :=
  match b with
  | Some b => result_var b mk st
  | None => let (r, st) := rnew_var [] st in (r, rpush (mk r) st)
  end.
Definition ret_result2 (b : option (Z * Z)) (mk : nat -> rdesc) (m : rstate) : rstate :=
  let (r, st) := result_var_opt b mk (rst m) in give r (with_st m st).
Definition end_bounds (s : store) (v : nat) (d : Z) : option (Z * Z) :=
  match obounds s (OV v) with Some b => Some (add_bounds b (d, d)) | None => None end.
Definition cum_pair_fix2 (si sj : nat) (di dj : Z) (st : rlst) : rlst :=
  let (ei, st) := result_var_opt (end_bounds (fst st) si di) (fun r => PB (PAdd (VVar si) (VConst di) r)) st in
  let (ej, st) := result_var_opt (end_bounds (fst st) sj dj) (fun r => PB (PAdd (VVar sj) (VConst dj) r)) st in
  let (b1, st) := rnew_var (drange 0 1) st in
  let st := rpush (PReif OLe ei sj b1) st in
  let (b2, st) := rnew_var (drange 0 1) st in
  let st := rpush (PReif OLe ej si b2) st in
  let (br, st) := st_bor [b1; b2] st in
  rpush (eq_one br) st.
Fixpoint cum_inner_fix2 (si : nat) (di ei : Z) (rest : list (nat * (Z * Z))) (cap : Z) (st : rlst) : rlst :=
  match rest with
  | [] => st
  | (sj, (dj, ej)) :: r =>
    cum_inner_fix2 si di ei r cap (if cap <? ei + ej then cum_pair_fix2 si sj di dj st else st)
  end.
Fixpoint cum_outer_fix2 (tasks : list (nat * (Z * Z))) (cap : Z) (st : rlst) : rlst :=
  match tasks with
  | [] => st
  | (si, (di, ei)) :: r => cum_outer_fix2 r cap (cum_inner_fix2 si di ei r cap st)
  end.
Definition minmax_bounds (f : Z * Z -> list (Z * Z) -> Z * Z) (s : store) (xs : list nat) : option (Z * Z) :=
  do bs <- var_bounds s xs; match bs with b0 :: br => Some (f b0 br) | [] => None end.
Definition call_fix2 (r : route) (m : rstate) : rstate :=
  let s := fst (rst m) in
  match r with
  | RAdd x y => ret_result2 (bin_bounds add_bounds s x y) (fun r => PB (PAdd (oview x) (oview y) r)) m
  | RSub x y => ret_result2 (bin_bounds sub_bounds s x y) (fun r => PB (p_sub (oview x) (oview y) r)) m
  | RMul x y => ret_result2 (bin_bounds mul_bounds s x y) (fun r => PB (PMul (oview x) (oview y) r)) m
  | RMod x y => ret_result2 (bin_bounds mod_bounds s x y) (fun r => PB (PMod (oview x) (oview y) r)) m
  | RAbs x => ret_result2 (do bx <- obounds s x; Some (abs_bounds bx)) (fun r => PAbs (oview x) r) m
  | RMin ((_ :: _) as xs) | RArrMin ((_ :: _) as xs) => ret_result2 (minmax_bounds min_bounds s xs) (PMin xs) m
  | RMax ((_ :: _) as xs) | RArrMax ((_ :: _) as xs) => ret_result2 (minmax_bounds max_bounds s xs) (PMax xs) m
  | RSum xs => ret_result2 (do bs <- var_bounds s xs; Some (sum_bounds_l bs)) (PSum (map VVar xs)) m
  | RSumIter xs => ret_result2 (do bs <- opnd_bounds s xs; Some (sum_bounds_l bs)) (PSum (map oview xs)) m
  | RFElement arr i => ret_result2 (felement_bounds_fixed s arr) (PElement arr i) m
  | RCumulative starts durs dems cap =>
    if Nat.eqb (length starts) (length durs) && Nat.eqb (length starts) (length dems)
    then with_st m (cum_outer_fix2 (combine starts (combine durs dems)) cap (rst m))
    else m
  | RGcc xs vals cnts =>
    let m := if Nat.eqb (length vals) (length cnts) then m else verr m in
    with_st m (st_gcc xs vals cnts (rst m))
  | _ => call_ext_fixed r m
  end.
Definition rexec_fix2 (s : rstmt) (m : rstate) : rstate :=
  if rpanic m || rcallerr m then m else
  match s with
  | SB b => exec_base b m
  | SCall r => call_fix2 (rn_route (ruv m) r) m
  | SArr dims lo hi => exec_arr dims lo hi m
  end.
Definition rbuild_fix2 (prog : list rstmt) : rstate := fold_left (fun m s => rexec_fix2 s m) prog rs0.
