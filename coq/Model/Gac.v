(* Executable model of the three all-different engines
     src/constraints/gac_bitset.rs     BitSetGAC   (+ src/variables/domain/bitset_domain.rs)
     src/constraints/gac_hybrid.rs     HybridGAC, BipartiteGraph, Matching
     src/constraints/gac_sparseset.rs  SparseSetGAC, SparseSetAllDiff
   Bugs included.  Conventions:
   - an engine's `domains : HashMap<Variable, _>` is only read by key: it is the position-indexed
     `store` of Dom.v (Variable(i) = position i, an absent key = a position >= length, whose
     `sget` is []);  a domain is the sorted list of its values (BitSetDomain: mask over a fixed
     universe, only ever shrunk after creation; SparseSet: C11 refinement);
   - every mutating call returns `res` = (state after, changed, consistent) — the state after an
     "inconsistent" verdict is what the Rust struct really contains (mutation in place);
   - hash maps / hash sets that are ITERATED:
       BitSetGAC::propagate_hall_sets iterates the HashSet `union_values` to remove each of its
         values from one domain: the result is the set difference whatever the order
         (order-insensitive model `filter`, nothing to prove);
       SparseSetGAC / BipartiteGraph / Matching iterate `graph.variables()` (HashMap keys):
         Matching::find_maximum_matching depends on that order -> explicit argument `order`;
         build_merged_graph and apply_bitwise_gac also iterate it but build a set of edges /
         take removal decisions that only read the (fixed) matching and the (fixed) bit matrix,
         so they are modelled order-insensitively;
       SparseSetGAC::propagate_gac / to_bipartite_graph iterate `self.domains`: per-key
         independent work, order-insensitive. *)
Require Import Selen.Model.Prelude Selen.Model.Dom Selen.Model.SparseSet.
Require Import Selen.Generated.Consts.   (* 128 / 6 / 4 below are regenerated from the source *)

Definition res := (store * bool * bool)%type.

Definition dhas (v : Z) (d : dom) : bool := memZ v d.
Definition drem (v : Z) (d : dom) : dom := filter (fun x => negb (x =? v)) d.
Definition dremall (u : list Z) (d : dom) : dom := filter (fun x => negb (memZ x u)) d.
Definition size_changed (d d' : dom) : bool := negb (Nat.eqb (length d') (length d)).

(* ------------------------------------------------------------------------------------------ *)
(* BitSetDomain creation (bitset_domain.rs:122-209): a universe wider than 128 values gives the
   "invalid" domain, which behaves as an empty one. *)
Definition bs_new (lo hi : Z) : dom :=
  let lo' := if hi <? lo then hi else lo in
  let hi' := if hi <? lo then lo else hi in
  if hi' - lo' + 1 <=? 128 then drange lo' hi' else [].
Definition bs_from_values (l : list Z) : dom :=
  match l with
  | [] => []
  | x :: r => if list_max x r - list_min x r + 1 <=? 128 then zsort l else []
  end.
(* SparseSet::new / new_from_values, as sets *)
Definition sp_new (lo hi : Z) : dom := if hi <? lo then drange hi lo else drange lo hi.
Definition sp_from_values (l : list Z) : dom := zsort l.

(* BitSetGAC::{remove_value, assign_variable, remove_above, remove_below} (gac_bitset.rs:80-137) *)
Definition bs_remove_value (i : nat) (v : Z) (s : store) : store * bool :=
  if dhas v (sget s i) then (supd s i (drem v (sget s i)), true) else (s, false).
Definition bs_assign (i : nat) (v : Z) (s : store) : store * bool :=
  let d := sget s i in
  let d' := if dhas v d then [v] else [] in
  (supd s i d', size_changed d d').
Definition bs_remove_above (i : nat) (t : Z) (s : store) : store * bool :=
  let d := sget s i in (supd s i (dabove t d), size_changed d (dabove t d)).
Definition bs_remove_below (i : nat) (t : Z) (s : store) : store * bool :=
  let d := sget s i in (supd s i (dbelow t d), size_changed d (dbelow t d)).

(* SparseSetGAC::{remove_value, assign_variable, remove_above, remove_below}
   (gac_sparseset.rs:424-476): assign_variable to an absent value is a no-op returning false,
   and returns true whenever the value is present (even if the domain was already fixed) *)
Definition sp_remove_value := bs_remove_value.
Definition sp_assign (i : nat) (v : Z) (s : store) : store * bool :=
  if dhas v (sget s i) then (supd s i [v], true) else (s, false).
Definition sp_remove_above := bs_remove_above.
Definition sp_remove_below := bs_remove_below.

(* ------------------------------------------------------------------------------------------ *)
(* assigned-value elimination.  `for &var in variables { if var != assigned_var { if
   remove_value(var, val) { changed = true; if is_inconsistent(var) { return (changed,false) }}}}`
   excl = Some a : the comparison `var != assigned_var` is made (within one group);
   excl = None   : cross propagation, no comparison. *)
Fixpoint pass_targets (excl : option nat) (v : Z) (ts : list nat) (s : store) (ch : bool) : res :=
  match ts with
  | [] => (s, ch, true)
  | t :: r =>
    if (match excl with Some a => Nat.eqb t a | None => false end) then pass_targets excl v r s ch
    else if dhas v (sget s t) then
      let d' := drem v (sget s t) in
      if dempty d' then (supd s t d', true, false) else pass_targets excl v r (supd s t d') true
    else pass_targets excl v r s ch
  end.

Fixpoint pass_pairs (ex : bool) (ps : list (nat * Z)) (ts : list nat) (s : store) (ch : bool) : res :=
  match ps with
  | [] => (s, ch, true)
  | (a, v) :: r =>
    match pass_targets (if ex then Some a else None) v ts s ch with
    | (s', ch', true) => pass_pairs ex r ts s' ch'
    | bad => bad
    end
  end.

(* the snapshot `assigned_values : Vec<(Variable, i32)>` *)
Definition assigned_of (vars : list nat) (s : store) : list (nat * Z) :=
  flat_map (fun x => match sget s x with [v] => [(x, v)] | _ => [] end) vars.

(* `combinations(items, k)` (gac_bitset.rs:21-43), same enumeration order *)
Fixpoint combs {A} (k : nat) (l : list A) {struct l} : list (list A) :=
  match k with
  | O => [[]]
  | S k' => match l with
            | [] => []
            | x :: r => map (cons x) (combs k' r) ++ combs k r
            end
  end.

Definition union_vals (sub : list nat) (s : store) : list Z := nodup Z.eq_dec (flat_map (sget s) sub).

(* removal of the union values from every variable outside the subset (gac_bitset.rs:266-283) *)
Fixpoint hall_targets (sub : list nat) (u : list Z) (ts : list nat) (s : store) (ch : bool) : res :=
  match ts with
  | [] => (s, ch, true)
  | t :: r =>
    if existsb (Nat.eqb t) sub then hall_targets sub u r s ch
    else
      let d := sget s t in
      let d' := dremall u d in
      if Nat.eqb (length d') (length d) then hall_targets sub u r s ch       (* removed_any = false *)
      else if dempty d' then (supd s t d', true, false)
      else hall_targets sub u r (supd s t d') true
  end.

Fixpoint hall_subsets (subs : list (list nat)) (vars : list nat) (s : store) (ch : bool) : res :=
  match subs with
  | [] => (s, ch, true)
  | sub :: r =>
    let u := union_vals sub s in
    if Nat.eqb (length sub) (length u) then
      match hall_targets sub u vars s ch with
      | (s', ch', true) => hall_subsets r vars s' ch'
      | bad => bad
      end
    else hall_subsets r vars s ch
  end.

(* subset_size in 2..=min(n,4) *)
Definition hall_sizes (n : nat) : list nat := seq 2 (Nat.min n 4 - 1).

(* BitSetGAC::propagate_hall_sets *)
Definition hall (vars : list nat) (s : store) : res :=
  if Nat.leb (length vars) 6 then
    hall_subsets (flat_map (fun k => combs k vars) (hall_sizes (length vars))) vars s false
  else (s, false, true).

(* BitSetGAC::propagate_alldiff (gac_bitset.rs:190-238) *)
Definition bitset_alldiff (vars : list nat) (s : store) : res :=
  if Nat.leb (length vars) 1 then (s, false, true)
  else
    match pass_pairs true (assigned_of vars s) vars s false with
    | (s1, ch, true) =>
      match hall vars s1 with
      | (s2, hch, true) => (s2, ch || hch, true)
      | (s2, _, false) => (s2, ch, false)
      end
    | bad => bad
    end.

Definition all_vars (s : store) : list nat := seq 0 (length s).
Definition res_opt (r : res) : option store := let '(s, _, ok) := r in if ok then Some s else None.
Definition bitset_propagate (s : store) : option store := res_opt (bitset_alldiff (all_vars s) s).

(* ------------------------------------------------------------------------------------------ *)
(* HybridGAC.  tags: Some true = bitset_vars, Some false = sparseset_vars (decided once, at
   add_variable time, from the width of the initial universe). *)
Definition tag_of_range (lo hi : Z) : bool := hi - lo + 1 <=? 128.
Definition tag_of_values (l : list Z) : bool :=
  match l with [] => true | x :: r => list_max x r - list_min x r + 1 <=? 128 end.
Definition hy_new (lo hi : Z) : bool * dom :=                  (* requires lo <= hi, else Err *)
  if tag_of_range lo hi then (true, bs_new lo hi) else (false, sp_new lo hi).
Definition hy_from_values (l : list Z) : bool * dom :=          (* requires l <> [], else Err *)
  if tag_of_values l then (true, bs_from_values l) else (false, sp_from_values l).

Definition is_b (tags : list bool) (i : nat) : bool := match nth_error tags i with Some b => b | None => false end.
Definition is_s (tags : list bool) (i : nat) : bool := match nth_error tags i with Some b => negb b | None => false end.

Definition hy_op (fb fs : nat -> Z -> store -> store * bool) (tags : list bool) (i : nat) (v : Z) (s : store) : store * bool :=
  if is_b tags i then fb i v s else if is_s tags i then fs i v s else (s, false).
Definition hy_remove_value := hy_op bs_remove_value sp_remove_value.
Definition hy_assign := hy_op bs_assign sp_assign.
Definition hy_remove_above := hy_op bs_remove_above sp_remove_above.
Definition hy_remove_below := hy_op bs_remove_below sp_remove_below.

Definition nonempty {A} (l : list A) : bool := match l with [] => false | _ => true end.

(* HybridGAC::propagate_alldiff (gac_hybrid.rs:852-983) *)
Definition hybrid_alldiff (tags : list bool) (vars : list nat) (s : store) : res :=
  match vars with
  | [] => (s, false, true)
  | _ =>
    let bv := filter (is_b tags) vars in
    let sv := filter (is_s tags) vars in
    let r1 := if nonempty bv then bitset_alldiff bv s else (s, false, true) in
    match r1 with
    | (s1, _, false) => (s1, false, false)
    | (s1, ch1, true) =>
      (* propagate_sparseset_alldiff: assigned-value elimination only *)
      let r2 := if nonempty sv then pass_pairs true (assigned_of sv s1) sv s1 false else (s1, false, true) in
      match r2 with
      | (s2, _, false) => (s2, ch1, false)
      | (s2, ch2, true) =>
        let ch := ch1 || ch2 in
        if nonempty bv && nonempty sv then
          (* cross_propagate_alldiff *)
          match pass_pairs false (assigned_of bv s2) sv s2 false with
          | (s3, _, false) => (s3, ch, false)
          | (s3, ch3, true) =>
            match pass_pairs false (assigned_of sv s3) bv s3 ch3 with
            | (s4, _, false) => (s4, ch, false)
            | (s4, ch4, true) => (s4, ch || ch4, true)
            end
          end
        else (s2, ch, true)
      end
    end
  end.

Definition tags_of (s : store) : list bool := map tag_of_values s.
(* the engine on a family given as value lists (add_variable_with_values for each, then
   propagate_alldiff over all variables) *)
Definition hybrid_propagate (s : store) : option store :=
  let st := map hy_from_values s in
  res_opt (hybrid_alldiff (map fst st) (all_vars s) (map snd st)).

(* ------------------------------------------------------------------------------------------ *)
(* Sparse engine: SparseSetGAC::propagate_alldiff -> propagate_gac -> SparseSetAllDiff::propagate
   over all variables 0..n-1 of the store. *)

(* iteration order of `graph.domain_iter(var)`: the graph is rebuilt from the value vectors by
   DomainType::new_from_values (gac_hybrid.rs:55-71): BitSet (ascending) when the range is <= 128
   and more than half full, otherwise SparseSet::new_from_values(values).iter() *)
Definition dt_iter (d : dom) : list Z :=
  match d with
  | [] => []
  | x :: r =>
    let range := list_max x r - list_min x r + 1 in
    if (range <=? 128) && (range / 2 <? Z.of_nat (length d)) then d
    else ss_iter (ss_new_from_values d)
  end.

(* Matching{var_to_val, val_to_var}: association list; add_edge keeps the two maps inverse of each
   other because it is only called with an unmatched variable and a free value *)
Definition matching := list (nat * Z).
Definition m_val (m : matching) (x : nat) : option Z :=
  match find (fun p => Nat.eqb (fst p) x) m with Some p => Some (snd p) | None => None end.
Definition m_var (m : matching) (v : Z) : option nat :=
  match find (fun p => snd p =? v) m with Some p => Some (fst p) | None => None end.
Definition memN (x : nat) (l : list nat) : bool := existsb (Nat.eqb x) l.

(* inner `for val_int in graph.domain_iter(current_var)` of find_augmenting_path_{bitset,hashmap}
   (the two variants differ only in the representation of the visited sets; the bitset variant
   shifts 1u128 by the VALUE and so needs 0 <= value < 128: outside that range the debug build
   panics with a shift overflow — not modelled, see the final report).
   Result: Some v = free value found. *)
Fixpoint scan_vals (m : matching) (vals : list Z) (q vv : list nat) (vz : list Z)
  : option Z * list nat * list nat * list Z :=
  match vals with
  | [] => (None, q, vv, vz)
  | v :: r =>
    if memZ v vz then scan_vals m r q vv vz
    else
      match m_var m v with
      | None => (Some v, q, vv, v :: vz)
      | Some w => if memN w vv then scan_vals m r q vv (v :: vz)
                  else scan_vals m r (q ++ [w]) (w :: vv) (v :: vz)
      end
  end.

Inductive bfs_res := BFound (v : Z) | BNone | BFuel.
Fixpoint bfs (fuel : nat) (g : store) (m : matching) (q vv : list nat) (vz : list Z) : bfs_res :=
  match fuel with
  | O => BFuel
  | S f =>
    match q with
    | [] => BNone
    | cur :: q' =>
      match scan_vals m (dt_iter (sget g cur)) q' vv vz with
      | (Some v, _, _, _) => BFound v
      | (None, q2, vv2, vz2) => bfs f g m q2 vv2 vz2
      end
    end
  end.

(* greedy phase of find_maximum_matching: assigned variables, in iteration order *)
Fixpoint match_assigned (g : store) (order : list nat) (m : matching) : matching :=
  match order with
  | [] => m
  | x :: r =>
    match sget g x with
    | [v] => match m_var m v with
             | None => match_assigned g r ((x, v) :: m)
             | Some _ => match_assigned g r m
             end
    | _ => match_assigned g r m
    end
  end.

(* augmenting phase.  apply_augmenting_path(matching, start_var, end_val, parent_var, parent_val)
   starts with `add_edge(start_var, end_val)` and then looks up parent_var[start_var]; start_var is
   marked visited before the search begins and therefore never receives a parent, so the loop
   stops there: the net effect is add_edge(start_var, end_val) and nothing else — the edge need
   not belong to the graph. *)
Fixpoint match_augment (g : store) (order : list nat) (m : matching) : option matching :=
  match order with
  | [] => Some m
  | x :: r =>
    match m_val m x with
    | Some _ => match_augment g r m
    | None =>
      match bfs (S (length g)) g m [x] [x] [] with
      | BFound v => match_augment g r ((x, v) :: m)
      | BNone => match_augment g r m
      | BFuel => None
      end
    end
  end.

Definition find_matching (g : store) (order : list nat) : option matching :=
  match_augment g order (match_assigned g order []).

(* build_merged_graph: edge x -> t when x is matched to a value that t (<> x) can take *)
Definition adj (g : store) (m : matching) (x : nat) : list nat :=
  match m_val m x with
  | Some v => filter (fun t => negb (Nat.eqb t x) && dhas v (sget g t)) (all_vars g)
  | None => []
  end.

(* OptimizedBitMatrix::is_connected: level BFS *)
Fixpoint connected (fuel : nat) (g : store) (m : matching) (frontier visited : list nat) (target : nat) : bool :=
  match fuel with
  | O => false
  | S f =>
    match frontier with
    | [] => false
    | _ =>
      if memN target frontier then true
      else
        let visited' := frontier ++ visited in
        let nf := nodup Nat.eq_dec (filter (fun t => negb (memN t visited')) (flat_map (adj g m) frontier)) in
        connected f g m nf visited' target
    end
  end.

Definition value_reachable (g : store) (m : matching) (x : nat) (v : Z) : bool :=
  match m_var m v with
  | None => true                                              (* "free values are always consistent" *)
  | Some w => connected (S (length g)) g m [x] [] w
  end.

(* apply_bitwise_gac: pruning as a function of (graph, matching) *)
Fixpoint prune_from (g0 : store) (m : matching) (x : nat) (g : store) : store :=
  match g with
  | [] => []
  | d :: r =>
    filter (fun v => (match m_val m x with Some w => w =? v | None => false end) || value_reachable g0 m x v) d
      :: prune_from g0 m (S x) r
  end.
Definition sparse_prune (g : store) (m : matching) : store := prune_from g m 0%nat g.

Inductive sp_res := SpOk (s : store) (changed : bool) | SpInc | SpFuel.
Definition store_changed (s s' : store) : bool :=
  existsb (fun p => size_changed (fst p) (snd p)) (combine s s').

(* SparseSetGAC::propagate_alldiff over all variables; `order` = iteration order of the graph's
   variable map (a permutation of 0..n-1) *)
Definition sparse_alldiff (order : list nat) (s : store) : sp_res :=
  if Nat.leb (length s) 1 then SpOk s false
  else
    match find_matching s order with
    | None => SpFuel
    | Some m =>
      if negb (Nat.eqb (length m) (length s)) then SpInc        (* !matching.is_complete(graph) *)
      else let s' := sparse_prune s m in SpOk s' (store_changed s s')
    end.

Definition sparse_propagate (order : list nat) (s : store) : option store :=
  match sparse_alldiff order s with SpOk s' _ => Some s' | _ => None end.

(* the relation the design asked for: M is a matching of the graph / a maximum one *)
Definition is_matching (g : store) (m : matching) : Prop :=
  NoDup (map fst m) /\ NoDup (map snd m) /\ forall x v, In (x, v) m -> In v (sget g x).
Definition is_max_matching (g : store) (m : matching) : Prop :=
  is_matching g m /\ forall m', is_matching g m' -> (length m' <= length m)%nat.

(* ------------------------------------------------------------------------------------------ *)
(* Specification *)
Definition alldiff_sol (doms : store) (a : list Z) : Prop := Forall2 (@In Z) a doms /\ NoDup a.
Definition supported (doms : store) (i : nat) (v : Z) : Prop :=
  exists a, alldiff_sol doms a /\ (i < length a)%nat /\ nth i a 0 = v.

(* executable brute force used by the driver as the specification side *)
Fixpoint all_tuples (doms : store) : list (list Z) :=
  match doms with
  | [] => [[]]
  | d :: r => flat_map (fun v => map (cons v) (all_tuples r)) d
  end.
Fixpoint nodupb (l : list Z) : bool :=
  match l with [] => true | x :: r => negb (memZ x r) && nodupb r end.
Definition all_sols (doms : store) : list (list Z) := filter nodupb (all_tuples doms).

(* Known-finding classes (decidable):
   kf_sparse_matching      = every call of the sparse engine's propagation (its pruning is D13);
   kf_sparse_value_range ds = the graph takes the bit-tracked search (<= 64 variables and <= 128
     distinct values) and some value lies outside 0..127: there find_augmenting_path_bitset shifts
     1u128 by the value itself; the debug build panics, the release build wraps the shift and
     then wrongly skips values (e.g. [0] | [0;128] is declared inconsistent).  Model/Gac.v models
     the visited set as a set, i.e. the behaviour outside this class. *)
Definition kf_sparse_matching (s : store) : bool := true.
Definition kf_sparse_value_range (s : store) : bool :=
  let vals := nodup Z.eq_dec (flat_map (fun d => d) s) in
  Nat.leb (length s) 64 && Nat.leb (length vals) 128 &&
  existsb (fun v => (v <? 0) || (127 <? v)) vals.

(* certificate check used by the driver's search oracle on large families: a is a solution *)
Fixpoint sol_members (a : list Z) (doms : store) : bool :=
  match a, doms with
  | [], [] => true
  | v :: ar, d :: dr => memZ v d && sol_members ar dr
  | _, _ => false
  end.
Definition sol_check (doms : store) (a : list Z) : bool := sol_members a doms && nodupb a.
