(* C18 — proofs about the model of the specialised Sudoku solver (Model/Sudoku.v).
   Plan: (A) closed facts about the 27 units, by computation; (B) boolean checks = Prop readings;
   (C) solutions of the built constraint model = completions of the puzzle; (D) the front end only posts
   equalities that hold in every completion; (E) the propagator list is `good`, scoped, the store
   well-formed; (F) validation never rejects a completable puzzle; (G) the corollaries of the generic
   engine theorems (C01/C02) and of no_limit_agrees (C15). *)
Require Import Selen.Model.Prelude Selen.Model.Dom Selen.Model.Views Selen.Model.PropDefs.
Require Import Selen.Model.Props.Basic Selen.Model.Propagate Selen.Model.Search Selen.Model.Limits Selen.Model.EngineSpec.
Require Import Selen.Model.Gac Selen.Model.Props.AllDiff Selen.Model.Sudoku.
Require Import Selen.Proofs.DomProofs Selen.Proofs.Props.BasicProofs Selen.Proofs.Props.AllDiffProofs.
Require Import Selen.Proofs.EngineProofs Selen.Proofs.LimitsProofs.

(* ------------------------------------------------------------------------------------------------ *)
(* A. the units                                                                                      *)

Fixpoint nl_eqb (a b : list nat) : bool :=
  match a, b with
  | [], [] => true
  | x :: a', y :: b' => Nat.eqb x y && nl_eqb a' b'
  | _, _ => false
  end.
Lemma nl_eqb_eq : forall a b, nl_eqb a b = true -> a = b.
Proof.
  induction a as [|x a IH]; destruct b as [|y b]; cbn; try discriminate; auto.
  intros H. apply andb_true_iff in H. destruct H as [H1 H2]. apply Nat.eqb_eq in H1. f_equal; auto.
Qed.
Definition in_units (u : list nat) : bool := existsb (nl_eqb u) units.
Lemma in_units_In : forall u, in_units u = true -> In u units.
Proof.
  intros u H. apply existsb_exists in H. destruct H as [u' [Hin E]]. apply nl_eqb_eq in E. subst. exact Hin.
Qed.

Definition row_of (i : nat) := row_cells (i / 9).
Definition col_of (i : nat) := col_cells (i mod 9).
Definition box_of (i : nat) := box_cells (i / 9 / 3) (i mod 9 / 3).

Lemma units_tbl :
  forallb (fun u => forallb (fun i => Nat.ltb i 81) u && Nat.eqb (length u) 9 && nodupb (map Z.of_nat u) &&
                    forallb (fun i => nl_eqb u (row_of i) || nl_eqb u (col_of i) || nl_eqb u (box_of i)) u) units = true.
Proof. vm_compute. reflexivity. Qed.
Lemma cells_tbl :
  forallb (fun i => in_units (row_of i) && in_units (col_of i) && in_units (box_of i) &&
                    memn i (row_of i) && memn i (col_of i) && memn i (box_of i)) cells = true.
Proof. vm_compute. reflexivity. Qed.

Lemma cells_In : forall i, In i cells <-> (i < 81)%nat.
Proof. intros i. unfold cells. rewrite in_seq. lia. Qed.

Lemma unit_lt : forall u i, In u units -> In i u -> (i < 81)%nat.
Proof.
  intros u i Hu Hi. pose proof units_tbl as T. rewrite forallb_forall in T. specialize (T u Hu).
  repeat (apply andb_true_iff in T; destruct T as [T ?]).
  rewrite forallb_forall in T. apply Nat.ltb_lt. apply T. exact Hi.
Qed.
Lemma unit_len : forall u, In u units -> length u = 9%nat.
Proof.
  intros u Hu. pose proof units_tbl as T. rewrite forallb_forall in T. specialize (T u Hu).
  repeat (apply andb_true_iff in T; destruct T as [T ?]). apply Nat.eqb_eq. assumption.
Qed.
Lemma unit_nodupb : forall u, In u units -> nodupb (map Z.of_nat u) = true.
Proof.
  intros u Hu. pose proof units_tbl as T. rewrite forallb_forall in T. specialize (T u Hu).
  repeat (apply andb_true_iff in T; destruct T as [T ?]). assumption.
Qed.
Lemma unit_NoDup : forall u, In u units -> NoDup u.
Proof.
  intros u Hu. pose proof (unit_nodupb u Hu) as H. apply nodupb_NoDup in H.
  apply NoDup_map_inv in H. exact H.
Qed.
Lemma unit_is_of_cell : forall u i, In u units -> In i u -> u = row_of i \/ u = col_of i \/ u = box_of i.
Proof.
  intros u i Hu Hi. pose proof units_tbl as T. rewrite forallb_forall in T. specialize (T u Hu).
  repeat (apply andb_true_iff in T; destruct T as [T ?]).
  match goal with H : forallb _ u = true |- _ => rewrite forallb_forall in H; specialize (H i Hi);
    apply orb_true_iff in H; destruct H as [H|H]; [apply orb_true_iff in H; destruct H as [H|H]|];
    apply nl_eqb_eq in H; auto end.
Qed.
Lemma cell_units : forall i, (i < 81)%nat ->
  In (row_of i) units /\ In (col_of i) units /\ In (box_of i) units /\
  In i (row_of i) /\ In i (col_of i) /\ In i (box_of i).
Proof.
  intros i Hi. pose proof cells_tbl as T. rewrite forallb_forall in T. specialize (T i (proj2 (cells_In i) Hi)).
  repeat (apply andb_true_iff in T; destruct T as [T ?]).
  repeat split; try (apply in_units_In; assumption); apply memn_In; assumption.
Qed.

(* ------------------------------------------------------------------------------------------------ *)
(* B. boolean checks = Prop readings; lists of 81 cells                                              *)

Lemma pcell_map_cells : forall (a : nat -> Z) i, (i < 81)%nat -> pcell (map a cells) i = a i.
Proof.
  intros a i Hi. unfold pcell, cells.
  rewrite (nth_indep _ 0 (a 0%nat)) by (rewrite map_length, seq_length; exact Hi).
  rewrite map_nth. rewrite seq_nth by exact Hi. reflexivity.
Qed.

Lemma list_as_map : forall (A : Type) (l : list A) d, l = map (fun i => nth i l d) (seq 0 (length l)).
Proof.
  intros A l d. apply (nth_ext _ _ d (nth 0 l d)).
  - rewrite map_length, seq_length. reflexivity.
  - intros n Hn. rewrite (map_nth (fun i => nth i l d)). rewrite seq_nth by exact Hn. reflexivity.
Qed.

Lemma grid_as_map : forall g, length g = 81%nat -> g = map (pcell g) cells.
Proof. intros g H. unfold cells. rewrite <- H. apply list_as_map. Qed.

Lemma in19_iff : forall v, in19 v = true <-> 1 <= v <= 9.
Proof. intros v. unfold in19. rewrite andb_true_iff, !Z.leb_le. tauto. Qed.

Lemma forallb_cells : forall (f : Z -> bool) g, length g = 81%nat ->
  (forallb f g = true <-> forall i, (i < 81)%nat -> f (pcell g i) = true).
Proof.
  intros f g Hl. rewrite forallb_forall. split.
  - intros H i Hi. apply H. unfold pcell. apply nth_In. lia.
  - intros H x Hx. destruct (In_nth _ _ 0 Hx) as [i [Hi E]]. rewrite <- E. apply H. lia.
Qed.

Theorem valid_sudokub_spec : forall g, valid_sudokub g = true <-> valid_sudoku g.
Proof.
  intros g. unfold valid_sudokub, valid_sudoku. rewrite !andb_true_iff, Nat.eqb_eq. split.
  - intros [[Hl Hr] Hu]. split; [exact Hl|]. split.
    + intros i Hi. apply in19_iff. apply (proj1 (forallb_cells in19 g Hl) Hr). exact Hi.
    + intros u Hin. rewrite forallb_forall in Hu. apply nodupb_NoDup. apply Hu. exact Hin.
  - intros [Hl [Hr Hu]]. split; [split; [exact Hl|]|].
    + apply (forallb_cells in19 g Hl). intros i Hi. apply in19_iff. apply Hr. exact Hi.
    + apply forallb_forall. intros u Hin. apply nodupb_NoDup. apply Hu. exact Hin.
Qed.

Theorem agreesb_spec : forall p g, agreesb p g = true <-> agrees p g.
Proof.
  intros p g. unfold agreesb, agrees. rewrite forallb_forall. split.
  - intros H i Hi Hne. specialize (H i (proj2 (cells_In i) Hi)). apply orb_true_iff in H. destruct H as [H|H].
    + apply Z.eqb_eq in H. contradiction.
    + apply Z.eqb_eq in H. exact H.
  - intros H i Hi. apply cells_In in Hi. apply orb_true_iff.
    destruct (Z.eq_dec (pcell p i) 0) as [E|E]; [left; apply Z.eqb_eq; exact E|right; apply Z.eqb_eq; apply H; assumption].
Qed.

Theorem clues_okb_spec : forall p, length p = 81%nat -> (clues_okb p = true <-> clues_ok p).
Proof.
  intros p Hl. unfold clues_okb, clues_ok. rewrite (forallb_cells _ p Hl). split; intros H i Hi; specialize (H i Hi).
  - apply andb_true_iff in H. rewrite !Z.leb_le in H. exact H.
  - apply andb_true_iff. rewrite !Z.leb_le. exact H.
Qed.

(* parse_string yields 81 cells, each 0..9 *)
Lemma parse_byte_range : forall b v, parse_byte b = Some v -> 0 <= v <= 9.
Proof.
  intros b v. unfold parse_byte. destruct (_ || _); [intros H; injection H as <-; lia|].
  destruct (Nat.leb 49 b && Nat.leb b 57) eqn:E; [|discriminate].
  apply andb_true_iff in E. destruct E as [E1 E2]. apply Nat.leb_le in E1, E2. intros H; injection H as <-. lia.
Qed.
Lemma parse_bytes_spec : forall bs p, parse_bytes bs = Some p ->
  length p = length bs /\ Forall (fun v => 0 <= v <= 9) p.
Proof.
  induction bs as [|b r IH]; cbn [parse_bytes]; intros p H.
  - injection H as <-. split; [reflexivity|constructor].
  - destruct (parse_byte b) as [v|] eqn:Eb; cbn [obind] in H; [|discriminate].
    destruct (parse_bytes r) as [q|] eqn:Er; cbn [obind] in H; [|discriminate].
    injection H as <-. destruct (IH q eq_refl) as [Hl Hf]. split; [cbn; congruence|].
    constructor; [eapply parse_byte_range; eassumption|exact Hf].
Qed.
Theorem parse_string_ok : forall bs p, parse_string bs = Some p -> length p = 81%nat /\ clues_ok p.
Proof.
  intros bs p. unfold parse_string. destruct (Nat.eqb (length bs) 81) eqn:E; cbn [negb]; [|discriminate].
  apply Nat.eqb_eq in E. intros H. destruct (parse_bytes_spec bs p H) as [Hl Hf]. split; [congruence|].
  intros i Hi. rewrite Forall_forall in Hf. apply Hf. unfold pcell. apply nth_In. lia.
Qed.

(* ------------------------------------------------------------------------------------------------ *)
(* C. solutions of the built model = completions                                                     *)

Definition eng_sat := EngineProofs.solve_result_satisfies BasicProofs.mk_leq_good BasicProofs.mk_gt_good BasicProofs.mk_lt_good.
Definition eng_complete := EngineProofs.solve_complete BasicProofs.mk_leq_good BasicProofs.mk_gt_good BasicProofs.mk_lt_good.
Definition eng_nosol := EngineProofs.solve_nosol_sound BasicProofs.mk_leq_good BasicProofs.mk_gt_good BasicProofs.mk_lt_good.
Definition eng_total := EngineProofs.solve_total BasicProofs.mk_leq_good BasicProofs.mk_gt_good BasicProofs.mk_lt_good.
Definition eng_nolimit := LimitsProofs.no_limit_agrees BasicProofs.mk_leq_good BasicProofs.mk_gt_good BasicProofs.mk_lt_good.

Lemma memZ_In : forall x l, memZ x l = true <-> In x l.
Proof. exact SparseSetProofs.memZ_In. Qed.

Lemma digits_In : forall v, In v digits <-> 1 <= v <= 9.
Proof. intros v. unfold digits. cbn [In]. lia. Qed.

Lemma sget_map_store : forall (f : Z -> dom) (p : list Z) i, (i < length p)%nat -> sget (map f p) i = f (pcell p i).
Proof.
  intros f p i Hi. unfold sget, pcell.
  rewrite (nth_indep _ [] (f 0)) by (rewrite map_length; exact Hi). apply map_nth.
Qed.

Lemma sget_map_cells : forall (F : nat -> list Z) i, (i < 81)%nat -> sget (map F cells) i = F i.
Proof.
  intros F i Hi. unfold sget, cells.
  rewrite (nth_indep _ [] (F 0%nat)) by (rewrite map_length, seq_length; exact Hi).
  rewrite map_nth, seq_nth by exact Hi. reflexivity.
Qed.

Lemma sudoku_store_length : forall p, length (sudoku_store p) = length p.
Proof. intros. unfold sudoku_store. apply map_length. Qed.

Lemma inst_sudoku_store : forall p a, length p = 81%nat ->
  (inst a (sudoku_store p) <->
   forall i, (i < 81)%nat -> if pcell p i =? 0 then 1 <= a i <= 9 else a i = pcell p i).
Proof.
  intros p a Hl. unfold inst. rewrite sudoku_store_length, Hl.
  split; intros H i Hi; specialize (H i Hi); unfold sudoku_store in *;
    rewrite sget_map_store in * by lia; destruct (pcell p i =? 0).
  - apply drange_In. exact H.
  - destruct H as [H|[]]. congruence.
  - apply drange_In. exact H.
  - left. congruence.
Qed.

Lemma general_store_length : length general_store = 81%nat.
Proof. reflexivity. Qed.
Lemma inst_general_store : forall a, inst a general_store <-> forall i, (i < 81)%nat -> 1 <= a i <= 9.
Proof.
  intros a. unfold inst. rewrite general_store_length.
  split; intros H i Hi; specialize (H i Hi); unfold general_store in *; rewrite sget_map_cells in * by exact Hi;
    apply drange_In; exact H.
Qed.

Lemma sat_post : forall q a, sat (mk_post q) a = (a (fst q) =? snd q).
Proof. reflexivity. Qed.
Lemma sat_alldiff : forall u a, sat (mk_alldiff u) a = nodupb (map a u).
Proof. reflexivity. Qed.

Lemma sol_model_iff : forall s posts a,
  sol (map mk_alldiff units ++ map mk_post posts) s a <->
  inst a s /\ (forall u, In u units -> NoDup (map a u)) /\ (forall q, In q posts -> a (fst q) = snd q).
Proof.
  intros s posts a. unfold sol. split.
  - intros [Hi Hs]. split; [exact Hi|]. split.
    + intros u Hu. apply nodupb_NoDup. rewrite <- sat_alldiff. apply Hs. apply in_or_app. left. apply in_map. exact Hu.
    + intros q Hq. apply Z.eqb_eq. rewrite <- sat_post. apply Hs. apply in_or_app. right. apply in_map. exact Hq.
  - intros [Hi [Hu Hq]]. split; [exact Hi|]. intros pr Hin. apply in_app_or in Hin.
    destruct Hin as [Hin|Hin]; apply in_map_iff in Hin; destruct Hin as [x [<- Hx]].
    + rewrite sat_alldiff. apply nodupb_NoDup. apply Hu. exact Hx.
    + rewrite sat_post. apply Z.eqb_eq. apply Hq. exact Hx.
Qed.

Lemma map_pcell_units : forall a u, In u units -> map (pcell (map a cells)) u = map a u.
Proof.
  intros a u Hu. apply map_ext_in. intros i Hi. apply pcell_map_cells. eapply unit_lt; eassumption.
Qed.

(* an assignment satisfying the row/column/box constraints inside 1..9 and matching the clues is a completion *)
Lemma asg_completion : forall p a,
  (forall i, (i < 81)%nat -> 1 <= a i <= 9) -> (forall i, (i < 81)%nat -> pcell p i <> 0 -> a i = pcell p i) ->
  (forall u, In u units -> NoDup (map a u)) -> completion p (map a cells).
Proof.
  intros p a Hr Hc Hu. split; [split; [|split]|].
  - unfold cells. rewrite map_length, seq_length. reflexivity.
  - intros i Hi. rewrite pcell_map_cells by exact Hi. apply Hr. exact Hi.
  - intros u Hin. rewrite map_pcell_units by exact Hin. apply Hu. exact Hin.
  - intros i Hi Hne. rewrite pcell_map_cells by exact Hi. apply Hc; assumption.
Qed.

(* ------------------------------------------------------------------------------------------------ *)
(* D. the front end                                                                                  *)

(* the table every round starts from: on empty cells exactly the clue-free digits *)
Definition Inv (p : puzzle) (cs : cands) : Prop :=
  forall i, (i < 81)%nat -> pcell p i = 0 -> sget cs i = filter (cand_valid p i) digits.

Lemma sget_update : forall p cs i, (i < 81)%nat ->
  sget (update_candidates p cs) i = if pcell p i =? 0 then filter (cand_valid p i) digits else sget cs i.
Proof. intros p cs i Hi. unfold update_candidates. rewrite sget_map_cells by exact Hi. reflexivity. Qed.

Lemma update_inv : forall p cs, Inv p (update_candidates p cs).
Proof. intros p cs i Hi E. rewrite sget_update by exact Hi. rewrite E. reflexivity. Qed.

Lemma new_cands_inv : forall p, Inv p (new_cands p).
Proof. intros p. apply update_inv. Qed.

(* naked pairs: the progress flag is raised by every modification and never lowered *)
Definition nochg (f : npstate -> npstate) : Prop := forall st, snd (f st) = false -> f st = st.

Lemma nochg_fold : forall (A : Type) (step : npstate -> A -> npstate) l,
  (forall x, nochg (fun st => step st x)) -> nochg (fun st => fold_left step l st).
Proof.
  intros A step l H. induction l as [|x r IH]; intros st Hs; cbn [fold_left] in *; [reflexivity|].
  pose proof (IH (step st x) Hs) as E. rewrite E in Hs |- *. apply (H x). exact Hs.
Qed.

Lemma remove_digit_nochg : forall k d, nochg (fun st => remove_digit k st d).
Proof. intros k d st. unfold remove_digit. destruct (memZ d (sget (fst st) k)); cbn [snd]; [discriminate|reflexivity]. Qed.

Lemma elim_pair_nochg : forall p u i j ds, nochg (elim_pair p u i j ds).
Proof.
  intros p u i j ds. unfold elim_pair. apply (nochg_fold nat). intros k st.
  destruct (negb (Nat.eqb k i) && negb (Nat.eqb k j) && (pcell p k =? 0)); [|reflexivity].
  apply (nochg_fold Z (remove_digit k)). intros d. apply remove_digit_nochg.
Qed.

Lemma np_inner_nochg : forall p u i js, nochg (np_inner p u i js).
Proof.
  intros p u i js. induction js as [|j r IH]; intros st Hs; cbn [np_inner] in *; [reflexivity|].
  pose proof (IH _ Hs) as E. rewrite E in Hs |- *.
  destruct (Nat.eqb (length (sget (fst st) j)) 2 && zlist_eqb (sget (fst st) i) (sget (fst st) j)); [|reflexivity].
  apply elim_pair_nochg. exact Hs.
Qed.

Lemma np_outer_nochg : forall p u es, nochg (np_outer p u es).
Proof.
  intros p u es. induction es as [|i r IH]; intros st Hs; cbn [np_outer] in *; [reflexivity|].
  pose proof (IH _ Hs) as E. rewrite E in Hs |- *.
  destruct (Nat.eqb (length (sget (fst st) i)) 2); [|reflexivity].
  apply np_inner_nochg. exact Hs.
Qed.

Lemma naked_pairs_nochange : forall p cs, snd (naked_pairs p cs) = false -> fst (naked_pairs p cs) = cs.
Proof.
  intros p cs H. unfold naked_pairs in *.
  assert (N : nochg (fun st => fold_left (np_unit p) units st)).
  { apply (nochg_fold (list nat)). intros u st. unfold np_unit. apply np_outer_nochg. }
  rewrite (N (cs, false) H). reflexivity.
Qed.

Lemma apply_inv : forall p cs, Inv p cs -> Inv p (snd (fst (apply_advanced p cs))).
Proof.
  intros p cs H. unfold apply_advanced. cbn [fst snd].
  destruct (negb (is_nil (naked_singles p cs)) || negb (is_nil (hidden_singles p cs)) || snd (naked_pairs p cs)) eqn:E.
  - apply update_inv.
  - apply orb_false_iff in E. destruct E as [_ E]. rewrite (naked_pairs_nochange p cs E). exact H.
Qed.

(* candidates over-approximate every completion *)
Lemma NoDup_map_neq : forall (A : Type) (f : A -> Z) l x y,
  NoDup (map f l) -> In x l -> In y l -> x <> y -> f x <> f y.
Proof.
  intros A f l. induction l as [|z r IH]; intros x y Hn Hx Hy Hne; [destruct Hx|].
  cbn [map] in Hn. inversion Hn as [|? ? Hnin Hn']; subst.
  destruct Hx as [->|Hx]; destruct Hy as [->|Hy].
  - congruence.
  - intros E. apply Hnin. rewrite E. apply in_map. exact Hy.
  - intros E. apply Hnin. rewrite <- E. apply in_map. exact Hx.
  - apply IH; assumption.
Qed.

Lemma unit_free_completion : forall p g u i, completion p g -> In u units -> In i u ->
  unit_free p u i (pcell g i) = true.
Proof.
  intros p g u i [[Hl [Hr Hu]] Ha] Hin Hi. unfold unit_free. apply forallb_forall. intros j Hj.
  destruct (Nat.eqb j i) eqn:E; [reflexivity|]. cbn [negb andb]. apply negb_true_iff. apply Z.eqb_neq.
  apply Nat.eqb_neq in E. intros Ep.
  assert (Hi81 : (i < 81)%nat) by (eapply unit_lt; eassumption).
  assert (Hj81 : (j < 81)%nat) by (eapply unit_lt; eassumption).
  pose proof (Hr i Hi81) as Ri.
  assert (Hgj : pcell g j = pcell p j) by (apply Ha; [exact Hj81|lia]).
  apply (NoDup_map_neq nat (pcell g) u j i (Hu u Hin) Hj Hi E). congruence.
Qed.

Lemma cand_valid_units : forall p i d, cand_valid p i d = true <->
  unit_free p (row_of i) i d = true /\ unit_free p (col_of i) i d = true /\ unit_free p (box_of i) i d = true.
Proof. intros p i d. unfold cand_valid, row_of, col_of, box_of. rewrite !andb_true_iff. tauto. Qed.

Lemma cand_valid_completion : forall p g i, completion p g -> (i < 81)%nat -> cand_valid p i (pcell g i) = true.
Proof.
  intros p g i Hc Hi. destruct (cell_units i Hi) as [H1 [H2 [H3 [H4 [H5 H6]]]]].
  apply cand_valid_units. repeat split; eapply unit_free_completion; eassumption.
Qed.

Lemma inv_over : forall p cs g i, Inv p cs -> completion p g -> (i < 81)%nat -> pcell p i = 0 ->
  In (pcell g i) (sget cs i).
Proof.
  intros p cs g i HI Hc Hi E. rewrite (HI i Hi E). apply filter_In. split.
  - apply digits_In. destruct Hc as [[_ [Hr _]] _]. apply Hr. exact Hi.
  - apply cand_valid_completion; assumption.
Qed.

Theorem candidates_overapprox : forall p g i, completion p g -> (i < 81)%nat -> pcell p i = 0 ->
  In (pcell g i) (sget (new_cands p) i).
Proof. intros p g i Hc Hi E. eapply inv_over; try eassumption. apply new_cands_inv. Qed.

(* posted equalities name cells of the grid *)
Lemma naked_scope : forall p cs q, In q (naked_singles p cs) -> (fst q < 81)%nat.
Proof.
  intros p cs q H. unfold naked_singles in H. apply in_flat_map in H. destruct H as [i [Hi H]].
  apply cells_In in Hi. destruct (pcell p i =? 0); [|destruct H].
  destruct (sget cs i) as [|d [|? ?]]; try destruct H as [<-|[]]; try destruct H. exact Hi.
Qed.
Lemma hidden_unit_In : forall p cs u q, In q (hidden_unit p cs u) ->
  In (snd q) digits /\ filter (fun i => (pcell p i =? 0) && memZ (snd q) (sget cs i)) u = [fst q].
Proof.
  intros p cs u q H. unfold hidden_unit in H. apply in_flat_map in H. destruct H as [d [Hd H]].
  destruct (filter (fun i => (pcell p i =? 0) && memZ d (sget cs i)) u) as [|i [|? ?]] eqn:EF; try destruct H as [<-|[]]; try destruct H.
  cbn [fst snd]. split; assumption.
Qed.
Lemma hidden_scope : forall p cs q, In q (hidden_singles p cs) -> (fst q < 81)%nat.
Proof.
  intros p cs q H. unfold hidden_singles in H. apply in_flat_map in H. destruct H as [u [Hu H]].
  apply hidden_unit_In in H. destruct H as [_ EF].
  assert (Hin : In (fst q) (filter (fun i => (pcell p i =? 0) && memZ (snd q) (sget cs i)) u)) by (rewrite EF; left; reflexivity).
  apply filter_In in Hin. eapply unit_lt; [exact Hu|apply Hin].
Qed.

(* naked singles: the only candidate of an empty cell is its value in every completion *)
Lemma naked_implied : forall p cs g q, Inv p cs -> completion p g -> In q (naked_singles p cs) ->
  pcell g (fst q) = snd q.
Proof.
  intros p cs g q HI Hc H. unfold naked_singles in H. apply in_flat_map in H. destruct H as [i [Hi H]].
  apply cells_In in Hi. destruct (pcell p i =? 0) eqn:E; [|destruct H]. apply Z.eqb_eq in E.
  pose proof (inv_over p cs g i HI Hc Hi E) as Hin.
  destruct (sget cs i) as [|d [|? ?]]; try destruct H as [<-|[]]; try destruct H.
  cbn [fst snd]. destruct Hin as [<-|[]]. reflexivity.
Qed.

(* in a completion every unit carries every digit *)
Lemma unit_has_digit : forall p g u d, completion p g -> In u units -> In d digits ->
  exists k, In k u /\ pcell g k = d.
Proof.
  intros p g u d [[Hl [Hr Hu]] _] Hin Hd.
  assert (Hincl : incl digits (map (pcell g) u)).
  { apply NoDup_length_incl.
    - apply Hu. exact Hin.
    - rewrite map_length, (unit_len u Hin). cbn. lia.
    - intros x Hx. apply in_map_iff in Hx. destruct Hx as [k [<- Hk]]. apply digits_In. apply Hr. eapply unit_lt; eassumption. }
  specialize (Hincl d Hd). apply in_map_iff in Hincl. destruct Hincl as [k [E Hk]]. exists k. auto.
Qed.

(* hidden singles: if a digit has one possible place among the empty cells of a unit, it is there *)
Lemma hidden_implied : forall p cs g q, Inv p cs -> completion p g -> In q (hidden_singles p cs) ->
  pcell g (fst q) = snd q.
Proof.
  intros p cs g [i d] HI Hc H. unfold hidden_singles in H. apply in_flat_map in H. destruct H as [u [Hu H]].
  apply hidden_unit_In in H. cbn [fst snd] in *. destruct H as [Hd EF].
  set (F := fun i => (pcell p i =? 0) && memZ d (sget cs i)) in *.
  assert (Hi : In i (filter F u)) by (rewrite EF; left; reflexivity).
  apply filter_In in Hi. destruct Hi as [Hiu HF]. unfold F in HF. apply andb_true_iff in HF. destruct HF as [Ei Hm].
  apply Z.eqb_eq in Ei. apply memZ_In in Hm.
  assert (Hi81 : (i < 81)%nat) by (eapply unit_lt; eassumption).
  destruct (unit_has_digit p g u d Hc Hu Hd) as [k [Hk Eg]].
  assert (Hk81 : (k < 81)%nat) by (eapply unit_lt; eassumption).
  destruct (Z.eq_dec (pcell p k) 0) as [Ek|Ek].
  - (* k is empty: it is a possible place, hence the only one *)
    assert (Hkf : In k (filter F u)).
    { apply filter_In. split; [exact Hk|]. unfold F. apply andb_true_iff. split; [apply Z.eqb_eq; exact Ek|].
      apply memZ_In. rewrite <- Eg. apply (inv_over p cs g k); assumption. }
    rewrite EF in Hkf. destruct Hkf as [<-|[]]. exact Eg.
  - (* k is a clue with value d in a unit of i: then d is not a candidate of i *)
    exfalso. destruct Hc as [Hv Ha]. pose proof (Ha k Hk81 Ek) as Epk.
    rewrite (HI i Hi81 Ei) in Hm. apply filter_In in Hm. destruct Hm as [_ Hcv].
    apply cand_valid_units in Hcv.
    assert (Huf : unit_free p u i d = true).
    { destruct (unit_is_of_cell u i Hu Hiu) as [->|[->| ->]]; tauto. }
    unfold unit_free in Huf. rewrite forallb_forall in Huf. specialize (Huf k Hk).
    assert (Hne : k <> i) by (intros ->; contradiction).
    apply Nat.eqb_neq in Hne. rewrite Hne in Huf. cbn [negb andb] in Huf.
    apply negb_true_iff in Huf. apply Z.eqb_neq in Huf. congruence.
Qed.

Lemma tech_loop_ind : forall p (I : cands -> Prop) (P : post -> Prop),
  (forall cs, I cs -> I (snd (fst (apply_advanced p cs)))) ->
  (forall cs q, I cs -> In q (fst (fst (apply_advanced p cs))) -> P q) ->
  forall fuel cs it, I cs -> forall q, In q (tech_loop fuel p cs it) -> P q.
Proof.
  intros p I P Hstep Hpost. induction fuel as [|f IH]; intros cs it HI q Hq; cbn [tech_loop] in Hq; [destruct Hq|].
  pose proof (Hstep cs HI) as H1. pose proof (Hpost cs q HI) as H2.
  destruct (apply_advanced p cs) as [[posts cs'] prog]. cbn [fst snd] in *.
  destruct (prog && Nat.ltb it 10).
  - apply in_app_or in Hq. destruct Hq as [Hq|Hq]; [apply H2; exact Hq|]. eapply IH; eassumption.
  - apply H2. exact Hq.
Qed.

Lemma apply_posts : forall p cs q, In q (fst (fst (apply_advanced p cs))) ->
  In q (naked_singles p cs) \/ In q (hidden_singles p cs).
Proof. intros p cs q H. unfold apply_advanced in H. cbn [fst] in H. apply in_app_or in H. exact H. Qed.

Theorem posts_scope : forall p q, In q (sudoku_posts p) -> (fst q < 81)%nat.
Proof.
  intros p q H. unfold sudoku_posts in H.
  apply (tech_loop_ind p (fun _ => True) (fun q => (fst q < 81)%nat)) with (fuel := 11%nat) (cs := new_cands p) (it := 0%nat); auto.
  intros cs q0 _ Hq. apply apply_posts in Hq. destruct Hq; [eapply naked_scope|eapply hidden_scope]; eassumption.
Qed.

(* every equality the front end posts holds in every completion *)
Theorem sudoku_techniques_implied : forall p g q, completion p g -> In q (sudoku_posts p) -> pcell g (fst q) = snd q.
Proof.
  intros p g q Hc H. unfold sudoku_posts in H.
  apply (tech_loop_ind p (Inv p) (fun q => pcell g (fst q) = snd q)) with (fuel := 11%nat) (cs := new_cands p) (it := 0%nat).
  - intros cs. apply apply_inv.
  - intros cs q0 HI Hq. apply apply_posts in Hq. destruct Hq; [eapply naked_implied|eapply hidden_implied]; eassumption.
  - apply new_cands_inv.
  - exact H.
Qed.

(* the loop never runs out of its fuel: 11 rounds are the most the code performs, more fuel changes nothing *)
Theorem tech_loop_fuel : forall p n cs it, (it <= 10)%nat -> (11 - it <= n)%nat ->
  tech_loop n p cs it = tech_loop (S n) p cs it.
Proof.
  intros p n. induction n as [|m IH]; intros cs it H1 H2; [lia|].
  cbn [tech_loop]. destruct (apply_advanced p cs) as [[posts cs'] prog].
  destruct prog; cbn [andb]; [|reflexivity].
  destruct (Nat.ltb it 10) eqn:E; [|reflexivity]. apply Nat.ltb_lt in E.
  f_equal. apply IH; lia.
Qed.

(* ------------------------------------------------------------------------------------------------ *)
(* E. the propagator list is good and scoped, the stores are well-formed                             *)

Definition model_props (posts : list post) : list prop := map mk_alldiff units ++ map mk_post posts.

Lemma post_good : forall q, good (mk_post q).
Proof. intros q. apply mk_eq_good; exact I. Qed.

Lemma model_props_good : forall posts, Forall good (model_props posts).
Proof.
  intros posts. apply Forall_app. split; apply Forall_forall; intros x Hx; apply in_map_iff in Hx;
    destruct Hx as [y [<- _]]; [apply mk_alldiff_good|apply post_good].
Qed.

Lemma model_props_scoped : forall posts, (forall q, In q posts -> (fst q < 81)%nat) -> scoped (model_props posts) 81.
Proof.
  intros posts H. apply Forall_app. split; apply Forall_forall; intros x Hx; apply in_map_iff in Hx;
    destruct Hx as [y [<- Hy]]; intros v Hv.
  - cbn in Hv. eapply unit_lt; eassumption.
  - cbn in Hv. destruct Hv as [<-|[]]. apply H. exact Hy.
Qed.

Lemma wf_drange19 : wf_dom (drange 1 9).
Proof. split; [discriminate|apply drange_sorted]. Qed.

Lemma wf_sudoku_store : forall p, wf_store (sudoku_store p).
Proof.
  intros p v Hv. rewrite sudoku_store_length in Hv. unfold sudoku_store. rewrite sget_map_store by exact Hv.
  destruct (pcell p v =? 0); [apply wf_drange19|split; [discriminate|exact I]].
Qed.
Lemma wf_general_store : wf_store general_store.
Proof.
  intros v Hv. rewrite general_store_length in Hv. unfold general_store. rewrite sget_map_cells by exact Hv.
  apply wf_drange19.
Qed.

(* ------------------------------------------------------------------------------------------------ *)
(* F. validation accepts every store whose domains contain a valid grid                              *)

Lemma flat_map_opt_In : forall (A : Type) (f : A -> Z) (F : A -> list Z) l,
  (forall x, In x l -> F x = [] \/ F x = [f x]) -> forall z, In z (flat_map F l) -> In z (map f l).
Proof.
  intros A f F l H z Hz. apply in_flat_map in Hz. destruct Hz as [x [Hx Hz]].
  destruct (H x Hx) as [E|E]; rewrite E in Hz; [destruct Hz|]. destruct Hz as [<-|[]]. apply in_map. exact Hx.
Qed.
Lemma flat_map_opt_NoDup : forall (A : Type) (f : A -> Z) (F : A -> list Z) l,
  (forall x, In x l -> F x = [] \/ F x = [f x]) -> NoDup (map f l) -> NoDup (flat_map F l).
Proof.
  intros A f F l. induction l as [|x r IH]; intros H Hn; cbn [flat_map]; [constructor|].
  cbn [map] in Hn. inversion Hn as [|? ? Hnin Hn']; subst.
  assert (Hr : forall y, In y r -> F y = [] \/ F y = [f y]) by (intros y Hy; apply H; right; exact Hy).
  destruct (H x (or_introl eq_refl)) as [E|E]; rewrite E; cbn [app]; [apply IH; assumption|].
  constructor; [|apply IH; assumption].
  intros Hin. apply Hnin. eapply flat_map_opt_In; eassumption.
Qed.

Lemma validate_ok : forall s g, valid_sudoku g -> length s = 81%nat ->
  (forall i, (i < 81)%nat -> sget s i = drange 1 9 \/ sget s i = [pcell g i]) -> validate_ad s units = true.
Proof.
  intros s g [Hl [Hr Hu]] Hs Hd. unfold validate_ad. rewrite !andb_true_iff. split; [split|].
  - apply negb_true_iff. destruct (existsb dempty s) eqn:E; [|reflexivity].
    apply existsb_exists in E. destruct E as [d [Hin He]]. destruct (In_nth _ _ [] Hin) as [i [Hi En]].
    assert (Hi' : (i < 81)%nat) by (rewrite <- Hs; exact Hi).
    change (sget s i = d) in En. destruct (Hd i Hi') as [E|E]; rewrite E in En; subst d; discriminate.
  - apply forallb_forall. intros u Hin. unfold val_alldiff.
    replace (Nat.leb (length u) 1) with false by (rewrite (unit_len u Hin); reflexivity).
    assert (Hmem : forall x, In x u -> In (pcell g x) (sget s x)).
    { intros x Hx. assert (Hx81 : (x < 81)%nat) by (eapply unit_lt; eassumption).
      destruct (Hd x Hx81) as [E|E]; rewrite E; [apply drange_In; apply Hr; exact Hx81|left; reflexivity]. }
    apply andb_true_iff. split.
    + apply nodupb_NoDup. unfold fixed_vals. apply (flat_map_opt_NoDup nat (pcell g)); [|apply Hu; exact Hin].
      intros x Hx. assert (Hx81 : (x < 81)%nat) by (eapply unit_lt; eassumption).
      destruct (Hd x Hx81) as [E|E]; rewrite E; [left; reflexivity|right; reflexivity].
    + apply Nat.leb_le. rewrite <- (map_length (pcell g) u).
      apply NoDup_incl_length; [apply Hu; exact Hin|].
      intros z Hz. apply in_map_iff in Hz. destruct Hz as [x [<- Hx]]. apply nodup_In. apply in_flat_map.
      exists x. split; [exact Hx|apply Hmem; exact Hx].
  - apply forallb_forall. intros u Hin. apply unit_nodupb. exact Hin.
Qed.

(* ------------------------------------------------------------------------------------------------ *)
(* G. corollaries of the engine theorems                                                             *)

Lemma first_solution_eq : forall ps s, Forall good ps -> scoped ps (length s) -> wf_store s ->
  first_solution ps s = solve fifo ps s.
Proof.
  intros ps s Hg Hsc Hwf. unfold first_solution.
  assert (H0 : 0 < 10000) by lia.
  destruct (eng_nolimit fifo 10000 ps s Hg Hsc Hwf H0) as [H1 [H2 _]].
  pose proof (eng_total fifo ps s Hg Hsc Hwf) as Ht.
  destruct (fst (solve_lim fifo 10000 never None false false ps s)) as [t| | | |] eqn:E.
  - symmetry. apply H1. reflexivity.
  - symmetry. apply H2. reflexivity.
  - destruct (solve fifo ps s) as [[t|]|] eqn:Es; [pose proof (proj2 (H1 t) eq_refl); discriminate|pose proof (proj2 H2 eq_refl); discriminate|congruence].
  - destruct (solve fifo ps s) as [[t|]|] eqn:Es; [pose proof (proj2 (H1 t) eq_refl); discriminate|pose proof (proj2 H2 eq_refl); discriminate|congruence].
  - destruct (solve fifo ps s) as [[t|]|] eqn:Es; [pose proof (proj2 (H1 t) eq_refl); discriminate|pose proof (proj2 H2 eq_refl); discriminate|congruence].
Qed.

Lemma grid_of_fixed_store : forall t, length t = 81%nat -> grid_of_store t = map (asg_of t) cells.
Proof.
  intros t Hl. unfold grid_of_store.
  assert (Et : t = map (sget t) cells) by (unfold cells; rewrite <- Hl; apply (list_as_map _ t [])).
  transitivity (map dmin (map (sget t) cells)); [f_equal; exact Et|]. rewrite map_map. reflexivity.
Qed.

Section Run.
  Variable p : puzzle.
  Variable s : store.
  Variable posts : list post.
  Hypothesis Hlen : length s = 81%nat.
  Hypothesis Hwf : wf_store s.
  Hypothesis Hscope : forall q, In q posts -> (fst q < 81)%nat.
  (* a completion lies inside the store, satisfies the posted equalities, passes validation *)
  Hypothesis Hcompl : forall g, completion p g ->
    inst (pcell g) s /\ (forall q, In q posts -> pcell g (fst q) = snd q) /\ validate_ad s units = true.

  Lemma run_good : Forall good (model_props posts) /\ scoped (model_props posts) (length s).
  Proof using Hlen Hscope. split; [apply model_props_good|rewrite Hlen; apply model_props_scoped; exact Hscope]. Qed.

  Lemma run_exec_eq : run_model first_solution s (model_props posts) = run_model (solve fifo) s (model_props posts).
  Proof using Hlen Hwf Hscope.
    destruct run_good as [Hg Hsc]. unfold run_model. rewrite (first_solution_eq _ _ Hg Hsc Hwf). reflexivity.
  Qed.

  Lemma run_total : run_model (solve fifo) s (model_props posts) <> None.
  Proof using Hlen Hwf Hscope.
    destruct run_good as [Hg Hsc]. unfold run_model. destruct (negb (validate_ad s units)); [discriminate|].
    pose proof (eng_total fifo _ s Hg Hsc Hwf) as Ht.
    destruct (solve fifo (model_props posts) s) as [[t|]|]; [discriminate|discriminate|congruence].
  Qed.

  Lemma completion_sol : forall g, completion p g -> sol (model_props posts) s (pcell g).
  Proof using Hcompl.
    intros g Hc. destruct (Hcompl g Hc) as [Hi [Hp _]]. apply sol_model_iff. split; [exact Hi|]. split; [|exact Hp].
    destruct Hc as [[_ [_ Hu]] _]. exact Hu.
  Qed.

  Lemma run_complete : (exists g, completion p g) -> exists g', run_model (solve fifo) s (model_props posts) = Some (Some g').
  Proof using Hlen Hwf Hscope Hcompl.
    intros [g Hc]. destruct run_good as [Hg Hsc]. destruct (Hcompl g Hc) as [_ [_ Hv]].
    destruct (eng_complete fifo _ s (pcell g) Hg Hsc Hwf (completion_sol g Hc)) as [t Et].
    exists (grid_of_store t). unfold run_model. rewrite Hv, Et. reflexivity.
  Qed.

  Lemma run_none : run_model (solve fifo) s (model_props posts) = Some None -> forall g, ~ completion p g.
  Proof using Hlen Hwf Hscope Hcompl.
    intros H g Hc. destruct run_good as [Hg Hsc]. destruct (Hcompl g Hc) as [_ [_ Hv]].
    unfold run_model in H. rewrite Hv in H. cbn [negb] in H.
    destruct (solve fifo (model_props posts) s) as [[t|]|] eqn:E; try discriminate.
    exact (eng_nosol fifo _ s Hg Hsc Hwf E (pcell g) (completion_sol g Hc)).
  Qed.

  Lemma run_sound :
    (forall a, inst a s -> (forall q, In q posts -> a (fst q) = snd q) ->
       (forall i, (i < 81)%nat -> 1 <= a i <= 9) /\ (forall i, (i < 81)%nat -> pcell p i <> 0 -> a i = pcell p i)) ->
    forall g, run_model (solve fifo) s (model_props posts) = Some (Some g) -> completion p g.
  Proof using Hlen Hwf Hscope.
    intros Hs g H. destruct run_good as [Hg Hsc]. unfold run_model in H.
    destruct (negb (validate_ad s units)); [discriminate|].
    destruct (solve fifo (model_props posts) s) as [[t|]|] eqn:E; try discriminate. injection H as <-.
    destruct (eng_sat fifo _ s t Hg Hsc Hwf E) as [_ [Hsub Hsol]].
    assert (Hlt : length t = 81%nat) by (destruct Hsub as [Hl _]; congruence).
    rewrite (grid_of_fixed_store t Hlt). apply sol_model_iff in Hsol. destruct Hsol as [Hi [Hu Hp]].
    destruct (Hs (asg_of t) Hi Hp) as [Hr Hc]. apply asg_completion; assumption.
  Qed.
End Run.

(* ---- the specialised solver ---- *)
Lemma sudoku_props_eq : forall p, sudoku_props p = model_props (sudoku_posts p).
Proof. reflexivity. Qed.

Lemma sudoku_Hcompl : forall p, length p = 81%nat -> forall g, completion p g ->
  inst (pcell g) (sudoku_store p) /\ (forall q, In q (sudoku_posts p) -> pcell g (fst q) = snd q) /\
  validate_ad (sudoku_store p) units = true.
Proof.
  intros p Hl g Hc. pose proof Hc as [[Hlg [Hr Hu]] Ha]. split; [|split].
  - apply inst_sudoku_store; [exact Hl|]. intros i Hi. destruct (pcell p i =? 0) eqn:E; [apply Hr; exact Hi|].
    apply Ha; [exact Hi|apply Z.eqb_neq; exact E].
  - intros q Hq. apply (sudoku_techniques_implied p g q); assumption.
  - apply (validate_ok _ g); [exact (proj1 Hc)|rewrite sudoku_store_length; exact Hl|].
    intros i Hi. unfold sudoku_store. rewrite sget_map_store by lia.
    destruct (pcell p i =? 0) eqn:E; [left; reflexivity|right]. rewrite (Ha i Hi) by (apply Z.eqb_neq; exact E). reflexivity.
Qed.

(* -- the pipeline without the range test of `solve` (= the code before COMMIT_sudoku_clues) -- *)
Lemma sudoku_prefix_total : forall p, length p = 81%nat -> solve_sudoku_prefix p <> None.
Proof.
  intros p Hl. unfold solve_sudoku_prefix. rewrite sudoku_props_eq.
  apply run_total; [rewrite sudoku_store_length; exact Hl|apply wf_sudoku_store|apply posts_scope].
Qed.

Lemma sudoku_prefix_complete : forall p, length p = 81%nat -> (exists g, valid_sudoku g /\ agrees p g) ->
  exists g', solve_sudoku_prefix p = Some (Some g').
Proof.
  intros p Hl H. unfold solve_sudoku_prefix. rewrite sudoku_props_eq.
  apply (run_complete p); [rewrite sudoku_store_length; exact Hl|apply wf_sudoku_store|apply posts_scope|apply sudoku_Hcompl; exact Hl|exact H].
Qed.

Lemma sudoku_prefix_none_sound : forall p, length p = 81%nat -> solve_sudoku_prefix p = Some None ->
  forall g, ~ (valid_sudoku g /\ agrees p g).
Proof.
  intros p Hl H. unfold solve_sudoku_prefix in H. rewrite sudoku_props_eq in H.
  apply (run_none p (sudoku_store p) (sudoku_posts p)); [rewrite sudoku_store_length; exact Hl|apply wf_sudoku_store|apply posts_scope|apply sudoku_Hcompl; exact Hl|exact H].
Qed.

Lemma sudoku_prefix_sound : forall p g, length p = 81%nat -> clues_ok p ->
  solve_sudoku_prefix p = Some (Some g) -> valid_sudoku g /\ agrees p g.
Proof.
  intros p g Hl Hok H. unfold solve_sudoku_prefix in H. rewrite sudoku_props_eq in H.
  apply (run_sound p (sudoku_store p) (sudoku_posts p)) in H; [exact H|rewrite sudoku_store_length; exact Hl|apply wf_sudoku_store|apply posts_scope|].
  intros a Hi0 _. pose proof (proj1 (inst_sudoku_store p a Hl) Hi0) as Hi. split; intros i Hi81; [|intros Hne]; specialize (Hi i Hi81).
  - destruct (pcell p i =? 0) eqn:E; [exact Hi|]. apply Z.eqb_neq in E. specialize (Hok i Hi81). lia.
  - destruct (pcell p i =? 0) eqn:E; [apply Z.eqb_eq in E; contradiction|exact Hi].
Qed.

Lemma solve_sudoku_prefix_exec_eq : forall p, length p = 81%nat -> solve_sudoku_prefix_exec p = solve_sudoku_prefix p.
Proof.
  intros p Hl. unfold solve_sudoku_prefix_exec, solve_sudoku_prefix. rewrite sudoku_props_eq.
  apply run_exec_eq; [rewrite sudoku_store_length; exact Hl|apply wf_sudoku_store|apply posts_scope].
Qed.

(* -- the repaired solver: the range test of `solve`, then the pipeline -- *)
(* a puzzle that has a completion has all its cells in 0..9: a non-empty cell is the digit of the completion *)
Lemma completion_clues_ok : forall p g, valid_sudoku g /\ agrees p g -> clues_ok p.
Proof.
  intros p g [[_ [Hr _]] Ha] i Hi. destruct (Z.eq_dec (pcell p i) 0) as [E|E]; [lia|].
  rewrite <- (Ha i Hi E). specialize (Hr i Hi). lia.
Qed.

Lemma clues_okb_false : forall p, length p = 81%nat -> clues_okb p = false -> ~ clues_ok p.
Proof. intros p Hl E H. apply (clues_okb_spec p Hl) in H. congruence. Qed.

(* a cell outside 0..9 => none, whatever the rest of the grid *)
Theorem sudoku_out_of_range_none : forall p, length p = 81%nat -> ~ clues_ok p -> solve_sudoku p = Some None.
Proof.
  intros p Hl H. unfold solve_sudoku. destruct (clues_okb p) eqn:E; [|reflexivity].
  exfalso. apply H. apply (clues_okb_spec p Hl). exact E.
Qed.

Lemma solve_sudoku_in_range : forall p, clues_okb p = true -> solve_sudoku p = solve_sudoku_prefix p.
Proof. intros p E. unfold solve_sudoku. rewrite E. reflexivity. Qed.

Theorem sudoku_total : forall p, length p = 81%nat -> solve_sudoku p <> None.
Proof.
  intros p Hl. unfold solve_sudoku. destruct (clues_okb p); cbn [negb]; [apply sudoku_prefix_total; exact Hl|discriminate].
Qed.

Theorem sudoku_complete : forall p, length p = 81%nat -> (exists g, valid_sudoku g /\ agrees p g) ->
  exists g', solve_sudoku p = Some (Some g').
Proof.
  intros p Hl H. assert (Hok : clues_okb p = true).
  { destruct H as [g Hc]. apply (clues_okb_spec p Hl). exact (completion_clues_ok p g Hc). }
  rewrite (solve_sudoku_in_range p Hok). apply sudoku_prefix_complete; assumption.
Qed.

Theorem sudoku_none_sound : forall p, length p = 81%nat -> solve_sudoku p = Some None ->
  forall g, ~ (valid_sudoku g /\ agrees p g).
Proof.
  intros p Hl H g Hc. destruct (clues_okb p) eqn:E.
  - rewrite (solve_sudoku_in_range p E) in H. exact (sudoku_prefix_none_sound p Hl H g Hc).
  - exact (clues_okb_false p Hl E (completion_clues_ok p g Hc)).
Qed.

Theorem sudoku_sound : forall p g, length p = 81%nat ->
  solve_sudoku p = Some (Some g) -> valid_sudoku g /\ agrees p g.
Proof.
  intros p g Hl H. unfold solve_sudoku in H. destruct (clues_okb p) eqn:E; cbn [negb] in H; [|discriminate].
  apply (sudoku_prefix_sound p g Hl); [apply (clues_okb_spec p Hl); exact E|exact H].
Qed.

Theorem solve_sudoku_exec_eq : forall p, length p = 81%nat -> solve_sudoku_exec p = solve_sudoku p.
Proof.
  intros p Hl. unfold solve_sudoku_exec, solve_sudoku. destruct (clues_okb p); cbn [negb]; [|reflexivity].
  apply solve_sudoku_prefix_exec_eq. exact Hl.
Qed.

(* ---- the general solver on the same puzzle ---- *)
Lemma general_props_eq : forall p, general_props p = model_props (clue_posts p).
Proof. reflexivity. Qed.

Lemma clue_posts_In : forall p q, In q (clue_posts p) <-> (fst q < 81)%nat /\ pcell p (fst q) <> 0 /\ snd q = pcell p (fst q).
Proof.
  intros p q. unfold clue_posts. rewrite in_flat_map. split.
  - intros [i [Hi H]]. apply cells_In in Hi. destruct (pcell p i =? 0) eqn:E; [destruct H|].
    destruct H as [<-|[]]. cbn [fst snd]. apply Z.eqb_neq in E. auto.
  - intros [Hi [Hne E]]. exists (fst q). split; [apply cells_In; exact Hi|].
    destruct (pcell p (fst q) =? 0) eqn:E0; [apply Z.eqb_eq in E0; contradiction|]. left. destruct q; cbn [fst snd] in *. congruence.
Qed.

Lemma general_Hcompl : forall p g, completion p g ->
  inst (pcell g) general_store /\ (forall q, In q (clue_posts p) -> pcell g (fst q) = snd q) /\
  validate_ad general_store units = true.
Proof.
  intros p g Hc. pose proof Hc as [[Hlg [Hr Hu]] Ha]. split; [|split].
  - apply inst_general_store. exact Hr.
  - intros q Hq. apply clue_posts_In in Hq. destruct Hq as [Hi [Hne E]]. rewrite E. apply Ha; assumption.
  - apply (validate_ok _ g); [exact (proj1 Hc)|reflexivity|].
    intros i Hi. left. unfold general_store. apply sget_map_cells. exact Hi.
Qed.

Lemma general_scope : forall p q, In q (clue_posts p) -> (fst q < 81)%nat.
Proof. intros p q H. apply clue_posts_In in H. apply H. Qed.

Theorem general_total : forall p, solve_general p <> None.
Proof.
  intros p. unfold solve_general. rewrite general_props_eq.
  apply run_total; [reflexivity|apply wf_general_store|apply general_scope].
Qed.
Theorem general_complete : forall p, (exists g, valid_sudoku g /\ agrees p g) -> exists g', solve_general p = Some (Some g').
Proof.
  intros p H. unfold solve_general. rewrite general_props_eq.
  apply (run_complete p); [reflexivity|apply wf_general_store|apply general_scope|apply general_Hcompl|exact H].
Qed.
Theorem general_none_sound : forall p, solve_general p = Some None -> forall g, ~ (valid_sudoku g /\ agrees p g).
Proof.
  intros p H. unfold solve_general in H. rewrite general_props_eq in H.
  apply (run_none p general_store (clue_posts p)); [reflexivity|apply wf_general_store|apply general_scope|apply general_Hcompl|exact H].
Qed.
Theorem general_sound : forall p g, solve_general p = Some (Some g) -> valid_sudoku g /\ agrees p g.
Proof.
  intros p g H. unfold solve_general in H. rewrite general_props_eq in H.
  apply (run_sound p general_store (clue_posts p)) in H; [exact H|reflexivity|apply wf_general_store|apply general_scope|].
  intros a Hi Hp. split; [apply inst_general_store; exact Hi|].
  intros i Hi81 Hne. apply (Hp (i, pcell p i)). apply clue_posts_In. cbn [fst snd]. auto.
Qed.
Theorem solve_general_exec_eq : forall p, solve_general_exec p = solve_general p.
Proof.
  intros p. unfold solve_general_exec, solve_general. rewrite general_props_eq.
  apply run_exec_eq; [reflexivity|apply wf_general_store|apply general_scope].
Qed.

(* same verdict as the general solver *)
Theorem agrees_general_solver : forall p, length p = 81%nat ->
  verdict (solve_sudoku p) = verdict (solve_general p).
Proof.
  intros p Hl.
  pose proof (sudoku_total p Hl) as T1. pose proof (general_total p) as T2.
  destruct (solve_sudoku p) as [[g|]|] eqn:E1; [| |congruence];
  destruct (solve_general p) as [[g'|]|] eqn:E2; try congruence; try reflexivity; exfalso.
  - apply (general_none_sound p E2 g). apply (sudoku_sound p g Hl E1).
  - apply (sudoku_none_sound p Hl E1 g'). apply (general_sound p g' E2).
Qed.

(* ---- string entry point ---- *)
Theorem sudoku_string_sound : forall bs g, solve_sudoku_string bs = Some (Some g) ->
  exists p, parse_string bs = Some p /\ valid_sudoku g /\ agrees p g.
Proof.
  intros bs g H. unfold solve_sudoku_string in H. destruct (parse_string bs) as [p|] eqn:E; [|discriminate].
  destruct (parse_string_ok bs p E) as [Hl Hok]. exists p. split; [reflexivity|]. apply sudoku_sound; assumption.
Qed.
Theorem sudoku_string_complete : forall bs p, parse_string bs = Some p -> (exists g, valid_sudoku g /\ agrees p g) ->
  exists g', solve_sudoku_string bs = Some (Some g').
Proof.
  intros bs p E H. unfold solve_sudoku_string. rewrite E. apply sudoku_complete; [apply (parse_string_ok bs p E)|exact H].
Qed.
Theorem sudoku_string_none : forall bs, solve_sudoku_string bs = Some None ->
  parse_string bs = None \/ exists p, parse_string bs = Some p /\ forall g, ~ (valid_sudoku g /\ agrees p g).
Proof.
  intros bs H. unfold solve_sudoku_string in H. destruct (parse_string bs) as [p|] eqn:E; [right|left; reflexivity].
  exists p. split; [reflexivity|]. apply sudoku_none_sound; [apply (parse_string_ok bs p E)|exact H].
Qed.

(* ---- before COMMIT_sudoku_clues (no range test): the premise clues_ok of sudoku_prefix_sound cannot be
   dropped, a clue 10 is returned as such; the repaired solver answers none on the same puzzle ---- *)
Definition bad_puzzle : puzzle := 10 :: repeat 0 80.
Lemma sudoku_sound_out_of_range_refuted :
  exists p g, length p = 81%nat /\ solve_sudoku_prefix p = Some (Some g) /\ ~ valid_sudoku g /\ verdict (solve_general p) = Some false.
Proof.
  exists bad_puzzle.
  assert (E : exists g, solve_sudoku_prefix_exec bad_puzzle = Some (Some g) /\ valid_sudokub g = false /\
                        verdict (solve_general_exec bad_puzzle) = Some false).
  { vm_compute. eexists. split; [reflexivity|split; reflexivity]. }
  destruct E as [g [E1 [E2 E3]]]. exists g. split; [reflexivity|].
  rewrite <- solve_sudoku_prefix_exec_eq by reflexivity. rewrite <- solve_general_exec_eq. split; [exact E1|]. split; [|exact E3].
  intros Hv. apply valid_sudokub_spec in Hv. congruence.
Qed.
Lemma sudoku_out_of_range_repaired : solve_sudoku bad_puzzle = Some None /\ verdict (solve_general bad_puzzle) = Some false.
Proof.
  split; [apply sudoku_out_of_range_none; [reflexivity|]|rewrite <- solve_general_exec_eq; vm_compute; reflexivity].
  intros H. specialize (H 0%nat ltac:(lia)). vm_compute in H. destruct H as [_ H]. apply H. reflexivity.
Qed.

(* non-vacuity: the first doc example of sudoku.rs *)
Definition example_puzzle : puzzle :=
  [5;3;0;0;7;0;0;0;0; 6;0;0;1;9;5;0;0;0; 0;9;8;0;0;0;0;6;0; 8;0;0;0;6;0;0;0;3; 4;0;0;8;0;3;0;0;1;
   7;0;0;0;2;0;0;0;6; 0;6;0;0;0;0;2;8;0; 0;0;0;4;1;9;0;0;5; 0;0;0;0;8;0;0;7;9].
Example c18_nonvacuous :
  solve_sudoku example_puzzle =
  Some (Some [5;3;4;6;7;8;9;1;2; 6;7;2;1;9;5;3;4;8; 1;9;8;3;4;2;5;6;7; 8;5;9;7;6;1;4;2;3; 4;2;6;8;5;3;7;9;1;
              7;1;3;9;2;4;8;5;6; 9;6;1;5;3;7;2;8;4; 2;8;7;4;1;9;6;3;5; 3;4;5;2;8;6;1;7;9]) /\
  length (sudoku_posts example_puzzle) = 264%nat.
Proof. rewrite <- solve_sudoku_exec_eq by reflexivity. vm_compute. split; reflexivity. Qed.

(* ------------------------------------------------------------------------------------------------ *)
(* H. the naked-pairs elimination itself is sound (although the code discards its effect): a table that
   over-approximates a completion on the empty cells still does after apply_naked_pairs               *)

Definition over (p : puzzle) (g : grid) (cs : cands) : Prop :=
  forall i, (i < 81)%nat -> pcell p i = 0 -> In (pcell g i) (sget cs i).
Definition okst (p : puzzle) (g : grid) (st : npstate) : Prop := length (fst st) = 81%nat /\ over p g (fst st).

Lemma zlist_eqb_eq : forall a b, zlist_eqb a b = true -> a = b.
Proof.
  induction a as [|x a IH]; destruct b as [|y b]; cbn; try discriminate; auto.
  intros H. apply andb_true_iff in H. destruct H as [H1 H2]. apply Z.eqb_eq in H1. f_equal; auto.
Qed.

Lemma cremove_In : forall d l x, In x (cremove d l) <-> In x l /\ x <> d.
Proof.
  intros d l x. unfold cremove. rewrite filter_In, negb_true_iff, Z.eqb_neq. tauto.
Qed.

Lemma remove_digit_ok : forall p g k d st, okst p g st ->
  ((k < 81)%nat -> pcell p k = 0 -> pcell g k <> d) -> okst p g (remove_digit k st d).
Proof.
  intros p g k d [cs b] [Hl Ho] Hk. unfold remove_digit. cbn [fst] in *.
  destruct (memZ d (sget cs k)); [|split; assumption]. unfold okst. cbn [fst]. split; [etransitivity; [apply supd_length|exact Hl]|].
  intros i Hi Ei. destruct (Nat.eq_dec i k) as [->|Hne].
  - rewrite sget_supd_same by (apply (Nat.lt_le_trans _ 81); [exact Hi|apply Nat.eq_le_incl; symmetry; exact Hl]). apply cremove_In. split; [apply Ho; assumption|apply Hk; assumption].
  - rewrite sget_supd_other by exact Hne. apply Ho; assumption.
Qed.

Lemma fold_remove_ok : forall p g k ds st, okst p g st ->
  (forall d, In d ds -> (k < 81)%nat -> pcell p k = 0 -> pcell g k <> d) -> okst p g (fold_left (remove_digit k) ds st).
Proof.
  intros p g k ds. induction ds as [|d r IH]; intros st Hst H; cbn [fold_left]; [exact Hst|].
  apply IH; [apply remove_digit_ok; [exact Hst|apply H; left; reflexivity]|intros d' Hd'; apply H; right; exact Hd'].
Qed.

Lemma elim_pair_ok : forall p g u i j ds st, okst p g st ->
  (forall k d, In k u -> k <> i -> k <> j -> In d ds -> pcell g k <> d) -> okst p g (elim_pair p u i j ds st).
Proof.
  intros p g u i j ds st Hst H. unfold elim_pair.
  assert (G : forall l st0, okst p g st0 -> (forall k, In k l -> In k u) ->
    okst p g (fold_left (fun st k => if negb (Nat.eqb k i) && negb (Nat.eqb k j) && (pcell p k =? 0)
                                      then fold_left (remove_digit k) ds st else st) l st0)).
  { induction l as [|k r IH]; intros st0 H0 Hin; cbn [fold_left]; [exact H0|].
    apply IH; [|intros k' Hk'; apply Hin; right; exact Hk'].
    destruct (negb (Nat.eqb k i) && negb (Nat.eqb k j) && (pcell p k =? 0)) eqn:E; [|exact H0].
    apply andb_true_iff in E. destruct E as [E _]. apply andb_true_iff in E. destruct E as [E1 E2].
    apply negb_true_iff in E1, E2. apply Nat.eqb_neq in E1, E2.
    apply fold_remove_ok; [exact H0|]. intros d Hd _ _. apply (H k d); [apply Hin; left; reflexivity|assumption..]. }
  apply G; [exact Hst|auto].
Qed.

(* two distinct empty cells of a unit that both have the candidate list [x; y] take x and y: nobody else does *)
Lemma pair_excludes : forall p g u cs i j k d, completion p g -> In u units -> over p g cs ->
  In i u -> In j u -> In k u -> i <> j -> k <> i -> k <> j -> pcell p i = 0 -> pcell p j = 0 ->
  length (sget cs j) = 2%nat -> sget cs i = sget cs j -> In d (sget cs i) -> pcell g k <> d.
Proof.
  intros p g u cs i j k d Hc Hu Ho Hi Hj Hk Hij Hki Hkj Ei Ej Hlen Heq Hd.
  assert (Hi81 : (i < 81)%nat) by (eapply unit_lt; eassumption).
  assert (Hj81 : (j < 81)%nat) by (eapply unit_lt; eassumption).
  pose proof (Ho i Hi81 Ei) as Gi. pose proof (Ho j Hj81 Ej) as Gj. rewrite Heq in Gi, Hd.
  destruct Hc as [[_ [_ Hnd]] _]. pose proof (Hnd u Hu) as N.
  pose proof (NoDup_map_neq nat (pcell g) u i j N Hi Hj Hij) as Dij.
  pose proof (NoDup_map_neq nat (pcell g) u k i N Hk Hi Hki) as Dki.
  pose proof (NoDup_map_neq nat (pcell g) u k j N Hk Hj Hkj) as Dkj.
  destruct (sget cs j) as [|x [|y [|? ?]]]; try discriminate Hlen.
  cbn [In] in Gi, Gj, Hd. intuition congruence.
Qed.

Section NakedPairs.
  Variables (p : puzzle) (g : grid) (u : list nat).
  Hypothesis Hc : completion p g.
  Hypothesis Hu : In u units.

  Lemma np_inner_ok : forall js i st, okst p g st -> In i u -> pcell p i = 0 ->
    (forall j, In j js -> In j u /\ pcell p j = 0 /\ j <> i) -> okst p g (np_inner p u i js st).
  Proof using Hc Hu.
    induction js as [|j r IH]; intros i st Hst Hi Ei Hjs; cbn [np_inner]; [exact Hst|].
    apply IH; [|exact Hi|exact Ei|intros j' Hj'; apply Hjs; right; exact Hj'].
    destruct (Nat.eqb (length (sget (fst st) j)) 2 && zlist_eqb (sget (fst st) i) (sget (fst st) j)) eqn:E; [|exact Hst].
    apply andb_true_iff in E. destruct E as [E1 E2]. apply Nat.eqb_eq in E1. apply zlist_eqb_eq in E2.
    destruct (Hjs j (or_introl eq_refl)) as [Hj [Ej Hji]].
    apply elim_pair_ok; [exact Hst|]. intros k d Hk Hki Hkj Hd.
    apply (pair_excludes p g u (fst st) i j k d); try assumption; try (apply Hst); auto.
  Qed.

  Lemma np_outer_ok : forall es st, okst p g st -> NoDup es -> (forall i, In i es -> In i u /\ pcell p i = 0) ->
    okst p g (np_outer p u es st).
  Proof using Hc Hu.
    induction es as [|i r IH]; intros st Hst Hnd Hes; cbn [np_outer]; [exact Hst|].
    inversion Hnd as [|? ? Hnin Hnd']; subst.
    apply IH; [|exact Hnd'|intros i' Hi'; apply Hes; right; exact Hi'].
    destruct (Nat.eqb (length (sget (fst st) i)) 2); [|exact Hst].
    destruct (Hes i (or_introl eq_refl)) as [Hi Ei].
    apply np_inner_ok; [exact Hst|exact Hi|exact Ei|].
    intros j Hj. destruct (Hes j (or_intror Hj)) as [Hju Ej]. repeat split; try assumption.
    intros ->. contradiction.
  Qed.

  Lemma np_unit_ok : forall st, okst p g st -> okst p g (np_unit p st u).
  Proof using Hc Hu.
    intros st Hst. unfold np_unit. apply np_outer_ok; [exact Hst| |].
    - apply NoDup_filter. apply unit_NoDup. exact Hu.
    - intros i Hi. apply filter_In in Hi. destruct Hi as [Hi E]. apply Z.eqb_eq in E. auto.
  Qed.
End NakedPairs.

Theorem naked_pairs_sound : forall p g cs, completion p g -> length cs = 81%nat -> over p g cs ->
  over p g (fst (naked_pairs p cs)).
Proof.
  intros p g cs Hc Hl Ho. unfold naked_pairs.
  assert (G : forall l st, okst p g st -> (forall u, In u l -> In u units) -> okst p g (fold_left (np_unit p) l st)).
  { induction l as [|u r IH]; intros st Hst Hin; cbn [fold_left]; [exact Hst|].
    apply IH; [apply np_unit_ok; [exact Hc|apply Hin; left; reflexivity|exact Hst]|intros u' Hu'; apply Hin; right; exact Hu']. }
  apply G; [split; assumption|auto].
Qed.

Lemma new_cands_length : forall p, length (new_cands p) = 81%nat.
Proof. intros p. unfold new_cands, update_candidates, cells. rewrite map_length, seq_length. reflexivity. Qed.

(* in particular on the table the code actually uses *)
Theorem naked_pairs_sound_new : forall p g i, completion p g -> (i < 81)%nat -> pcell p i = 0 ->
  In (pcell g i) (sget (fst (naked_pairs p (new_cands p))) i).
Proof.
  intros p g i Hc Hi E. apply (naked_pairs_sound p g (new_cands p) Hc (new_cands_length p)); [|exact Hi|exact E].
  intros k Hk Ek. apply candidates_overapprox; assumption.
Qed.
