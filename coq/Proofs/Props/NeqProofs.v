(* The four local contracts (Model/PropDefs.v) for the repaired NotEquals propagator of
   Model/Props/Neq.v: bounds reasoning once one side is fixed; two sides fixed to the same value
   fail.  Built from the single-setter lemmas of Proofs/ViewsProofs.v and the chaining library of
   Proofs/Props/BasicProofs.v. *)
Require Import Selen.Model.Prelude Selen.Model.Dom Selen.Model.Views Selen.Model.PropDefs Selen.Model.Props.Basic Selen.Model.Props.Neq.
Require Import Selen.Proofs.DomProofs Selen.Proofs.ViewsProofs Selen.Proofs.Props.BasicProofs.

Section Neq.
  Variables (x y : view) (T : list nat).
  Hypotheses (Hx : view_ok x) (Hy : view_ok y) (Ux : uin x T) (Uy : uin y T).

  (* contraction: every leaf is a failure, the identity, or one setter on x or y *)
  Lemma prune_neq_ctr : forall c c', wf_store (fst c) -> prune_neq x y c = Some c' -> ctr T c c'.
  Proof.
    intros c c' W H. unfold prune_neq in H. cbv zeta in H. unfold vset_min, vset_max in H.
    repeat match type of H with
    | context [if ?b then _ else _] => destruct b
    end;
    first [ discriminate H
          | (inversion H; subst; apply ctr_refl; exact W)
          | exact (vset_ctr x _ _ T c c' Hx Ux W H)
          | exact (vset_ctr y _ _ T c c' Hy Uy W H) ].
  Qed.

  (* soundness: a fixed side's value is a bound of the other side only if the other side's value
     lies strictly inside, because the two values differ *)
  Lemma prune_neq_snd : forall a n c, uscope x n -> uscope y n -> okc a n c ->
    vsem x a <> vsem y a -> exists c2, prune_neq x y c = Some c2 /\ okc a n c2.
  Proof.
    intros a n c Sx Sy O Hs. unfold prune_neq. cbv zeta. unfold vset_min, vset_max.
    pose proof (cbnd_bounds x a n c Hx Sx O) as Bx.
    pose proof (cbnd_bounds y a n c Hy Sy O) as By.
    destruct (Z.eqb_spec (cmin x c) (cmax x c)) as [Ex|Nx];
      destruct (Z.eqb_spec (cmin y c) (cmax y c)) as [Ey|Ny]; cbn [andb].
    - destruct (Z.eqb_spec (cmin x c) (cmin y c)) as [E|N]; [exfalso; lia|].
      exists c. split; [reflexivity|exact O].
    - destruct (Z.eqb_spec (cmin y c) (cmin x c)) as [E1|N1].
      + refine (snd_last a n y false _ c Hy Sy O _). unfold bnd_ok. lia.
      + destruct (Z.eqb_spec (cmax y c) (cmin x c)) as [E2|N2].
        * refine (snd_last a n y true _ c Hy Sy O _). unfold bnd_ok. lia.
        * exists c. split; [reflexivity|exact O].
    - destruct (Z.eqb_spec (cmin x c) (cmin y c)) as [E1|N1].
      + refine (snd_last a n x false _ c Hx Sx O _). unfold bnd_ok. lia.
      + destruct (Z.eqb_spec (cmax x c) (cmin y c)) as [E2|N2].
        * refine (snd_last a n x true _ c Hx Sx O _). unfold bnd_ok. lia.
        * exists c. split; [reflexivity|exact O].
    - exists c. split; [reflexivity|exact O].
  Qed.

  (* checking: with every trigger variable fixed both views have min = max = value, so the first
     branch decides (constant views are fixed by vbnd_fixed) *)
  Lemma prune_neq_chk : forall s0 ev a, inst a s0 ->
    (forall v, In v T -> dfixed (sget s0 v) = true) ->
    prune_neq x y (s0, ev) <> None -> vsem x a <> vsem y a.
  Proof.
    intros s0 ev a Hi Hf H E.
    destruct (cbnd_fixed x T a s0 ev Hi Ux Hf) as [E1 E2].
    destruct (cbnd_fixed y T a s0 ev Hi Uy Hf) as [E3 E4].
    apply H. unfold prune_neq. cbv zeta. rewrite E1, E2, E3, E4, E.
    rewrite !Z.eqb_refl. reflexivity.
  Qed.

  (* frame: every read is a bound of x or y, every write a setter on x or y *)
  Lemma prune_neq_frm : forall c1 c2, agr T c1 c2 ->
    orel (agr T) (prune_neq x y c1) (prune_neq x y c2).
  Proof.
    intros c1 c2 Ha. unfold prune_neq. cbv zeta. unfold vset_min, vset_max.
    rewrite (cmin_frame x T c1 c2 Ux Ha), (cmax_frame x T c1 c2 Ux Ha),
            (cmin_frame y T c1 c2 Uy Ha), (cmax_frame y T c1 c2 Uy Ha).
    repeat match goal with
    | |- context [if ?b then _ else _] => destruct b
    end;
    first [ exact I | exact Ha | (apply vset_frame; assumption) ].
  Qed.
End Neq.

Lemma mk_neq_good : forall x y, view_ok x -> view_ok y -> good (mk_neq x y).
Proof.
  intros x y Hx Hy. set (T := trig (mk_neq x y)).
  assert (Ux : uin x T) by (apply uin_app_l, uin_self).
  assert (Uy : uin y T) by (apply uin_app_r, uin_self).
  split; [|split; [|split]].
  - apply contracting_of_ctr. intros c c' W H. exact (prune_neq_ctr x y T Hx Hy Ux Uy c c' W H).
  - apply sound_of_okc. intros a n c Hsc O Hs. cbn [sat mk_neq] in Hs.
    apply Bool.negb_true_iff, Z.eqb_neq in Hs.
    apply (prune_neq_snd x y Hx Hy a n c); try assumption.
    + intros v Hv. apply Hsc, Ux, Hv.
    + intros v Hv. apply Hsc, Uy, Hv.
  - intros s0 ev a W Hi Hf H. cbn [sat mk_neq]. apply Bool.negb_true_iff, Z.eqb_neq.
    exact (prune_neq_chk x y T Ux Uy s0 ev a Hi Hf H).
  - apply frame_of_agr.
    + intros c1 c2 Ha. exact (prune_neq_frm x y T Ux Uy c1 c2 Ha).
    + intros a1 a2 H. cbn [sat mk_neq].
      rewrite (vsem_frame x T a1 a2 Ux H), (vsem_frame y T a1 a2 Uy H). reflexivity.
Qed.
