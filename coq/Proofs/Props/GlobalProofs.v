(* The four local contracts (Model/PropDefs.v) for the propagators of Model/Props/Global.v:
   count, at_least, at_most, exactly, element, table.  All six are `good` (table: for tables whose
   rows have the arity of the variable list; count: for a well-formed target view). *)
Require Import Selen.Model.Prelude Selen.Model.Dom Selen.Model.Views Selen.Model.PropDefs.
Require Import Selen.Model.Props.Basic Selen.Model.Props.Global.
Require Import Selen.Proofs.DomProofs Selen.Proofs.ViewsProofs Selen.Proofs.Props.BasicProofs.

(* ------------------------------------------------------------------------------------------ *)
(* counting positions *)

Lemma filter_len_sub : forall (f g : nat -> bool) xs,
  (forall x, In x xs -> f x = true -> g x = true) ->
  (length (filter f xs) <= length (filter g xs))%nat.
Proof.
  intros f g. induction xs as [|y r IH]; intros H; cbn [filter length]; [lia|].
  assert (IH' := IH (fun x Hx => H x (or_intror Hx))).
  destruct (f y) eqn:Ef.
  - rewrite (H y (or_introl eq_refl) Ef). cbn [length]. lia.
  - destruct (g y); cbn [length]; lia.
Qed.

Lemma filter_len_all : forall (f g : nat -> bool) xs,
  (forall x, In x xs -> f x = true -> g x = true) ->
  (length (filter g xs) <= length (filter f xs))%nat ->
  forall x, In x xs -> g x = true -> f x = true.
Proof.
  intros f g. induction xs as [|y r IH]; intros H L x Hx Hg; [destruct Hx|].
  cbn [filter] in L.
  pose proof (filter_len_sub f g r (fun z Hz => H z (or_intror Hz))) as S.
  assert (Hr : forall z, In z r -> f z = true -> g z = true) by (intros z Hz; apply H; right; exact Hz).
  destruct (f y) eqn:Ef.
  - rewrite (H y (or_introl eq_refl) Ef) in L. cbn [length] in L.
    destruct Hx as [<-|Hx]; [exact Ef|]. apply IH; [exact Hr|lia|exact Hx|exact Hg].
  - destruct (g y) eqn:Eg; cbn [length] in L; [lia|].
    destruct Hx as [<-|Hx]; [congruence|]. apply IH; [exact Hr|lia|exact Hx|exact Hg].
Qed.

Lemma countb_sub : forall f g xs, (forall x, In x xs -> f x = true -> g x = true) -> countb f xs <= countb g xs.
Proof. intros f g xs H. unfold countb. pose proof (filter_len_sub f g xs H). lia. Qed.

Lemma countb_all : forall f g xs, (forall x, In x xs -> f x = true -> g x = true) ->
  countb g xs <= countb f xs -> forall x, In x xs -> g x = true -> f x = true.
Proof. intros f g xs H L. apply filter_len_all; [exact H|]. unfold countb in L. lia. Qed.

Lemma countb_ext : forall f g xs, (forall x, In x xs -> f x = g x) -> countb f xs = countb g xs.
Proof.
  intros f g xs H. unfold countb. f_equal. f_equal.
  induction xs as [|y r IH]; [reflexivity|]. cbn [filter].
  rewrite (H y (or_introl eq_refl)), IH; [reflexivity|]. intros x Hx. apply H. right. exact Hx.
Qed.

Lemma countb_nonneg : forall f xs, 0 <= countb f xs.
Proof. intros. unfold countb. lia. Qed.

Lemma countb_none : forall f xs, countb f xs <= 0 -> forall x, In x xs -> f x = false.
Proof.
  intros f xs H x Hx. destruct (f x) eqn:E; [|reflexivity]. exfalso.
  assert (In x (filter f xs)) as Hi by (apply filter_In; split; assumption).
  unfold countb in H. destruct (filter f xs); [destruct Hi|cbn [length] in H; lia].
Qed.

(* ------------------------------------------------------------------------------------------ *)
(* stores only shrink: invariants carried through a pruning function *)

Lemma bounds_sub : forall s s0 x, wf_store s -> wf_store s0 -> sub_store s s0 ->
  dmin (sget s0 x) <= dmin (sget s x) /\ dmax (sget s x) <= dmax (sget s0 x).
Proof. intros s s0 x W W0 S. exact (vbnd_sub (VVar x) s0 s I W0 W S). Qed.

Definition oks (a : asg) (n : nat) (s0 : store) (c : ctx) : Prop :=
  okc a n c /\ sub_store (fst c) s0 /\ wf_store s0.

Lemma oks_init : forall a n c, okc a n c -> oks a n (fst c) c.
Proof. intros a n c O. split; [exact O|]. split; [apply sub_store_refl|apply O]. Qed.

Lemma oks_ret : forall a n s0 c, oks a n s0 c -> exists c2, Some c = Some c2 /\ oks a n s0 c2.
Proof. intros. exists c. split; [reflexivity|assumption]. Qed.

Lemma bind_oks : forall a n s0 (r : option ctx) (k : ctx -> option ctx),
  (exists c1, r = Some c1 /\ oks a n s0 c1) ->
  (forall c1, oks a n s0 c1 -> exists c2, k c1 = Some c2 /\ oks a n s0 c2) ->
  exists c2, obind r k = Some c2 /\ oks a n s0 c2.
Proof. intros a n s0 r k (c1 & -> & O1) Hk. cbn [obind]. apply Hk. exact O1. Qed.

Lemma cset_min_oks : forall a n s0 x b c, oks a n s0 c -> (x < n)%nat -> b <= a x ->
  exists c1, cset_min x b c = Some c1 /\ oks a n s0 c1.
Proof.
  intros a n s0 x b c (O & S & W0) Hx Hb.
  destruct (vset_ok (VVar x) false b a n c I (uscope_var x n Hx) O Hb) as (c1 & E & O1 & S1).
  exists c1. split; [exact E|]. split; [exact O1|]. split; [|exact W0].
  eapply sub_store_trans; eassumption.
Qed.

Lemma cset_max_oks : forall a n s0 x b c, oks a n s0 c -> (x < n)%nat -> a x <= b ->
  exists c1, cset_max x b c = Some c1 /\ oks a n s0 c1.
Proof.
  intros a n s0 x b c (O & S & W0) Hx Hb.
  destruct (vset_ok (VVar x) true b a n c I (uscope_var x n Hx) O Hb) as (c1 & E & O1 & S1).
  exists c1. split; [exact E|]. split; [exact O1|]. split; [|exact W0].
  eapply sub_store_trans; eassumption.
Qed.

Lemma oks_bounds : forall a n s0 c x, oks a n s0 c -> (x < n)%nat ->
  dmin (sget s0 x) <= cvar_min x c /\ cvar_min x c <= a x <= cvar_max x c /\ cvar_max x c <= dmax (sget s0 x).
Proof.
  intros a n s0 c x (O & S & W0) Hx. pose proof (cvar_bounds x a n c Hx O) as B.
  destruct O as (W & _ & _). destruct (bounds_sub (fst c) s0 x W W0 S) as [B1 B2].
  unfold cvar_min, cvar_max in *. lia.
Qed.

(* ------------------------------------------------------------------------------------------ *)
(* generic contraction / frame combinators *)

Lemma bind_ctr : forall T (r : option ctx) (k : ctx -> option ctx) c c2,
  obind r k = Some c2 ->
  (forall c1, r = Some c1 -> ctr T c c1) ->
  (forall c1, wf_store (fst c1) -> k c1 = Some c2 -> ctr T c1 c2) -> ctr T c c2.
Proof.
  intros T r k c c2 H H1 H2. destruct r as [c1|]; [|discriminate H]. cbn [obind] in H.
  pose proof (H1 c1 eq_refl) as C1. apply (ctr_trans T c c1 c2 C1). apply H2; [exact (ctr_wf _ _ _ C1)|exact H].
Qed.

Lemma cset_min_ctr : forall T x b c c1, In x T -> wf_store (fst c) -> cset_min x b c = Some c1 -> ctr T c c1.
Proof. intros T x b c c1 Hx W H. exact (vset_ctr (VVar x) false b T c c1 I (uin_var x T Hx) W H). Qed.
Lemma cset_max_ctr : forall T x b c c1, In x T -> wf_store (fst c) -> cset_max x b c = Some c1 -> ctr T c c1.
Proof. intros T x b c c1 Hx W H. exact (vset_ctr (VVar x) true b T c c1 I (uin_var x T Hx) W H). Qed.

Lemma some_ctr : forall T c c1, wf_store (fst c) -> Some c = Some c1 -> ctr T c c1.
Proof. intros T c c1 W H. inversion H; subst. apply ctr_refl. exact W. Qed.

Lemma agr_refl_some : forall T c1 c2, agr T c1 c2 -> orel (agr T) (Some c1) (Some c2).
Proof. intros. exact H. Qed.

Lemma bind_frm : forall T (r1 r2 : option ctx) (k1 k2 : ctx -> option ctx),
  orel (agr T) r1 r2 -> (forall d1 d2, agr T d1 d2 -> orel (agr T) (k1 d1) (k2 d2)) ->
  orel (agr T) (obind r1 k1) (obind r2 k2).
Proof. intros. apply (obind_orel (agr T) (agr T)); assumption. Qed.

(* ------------------------------------------------------------------------------------------ *)
(* the candidate guard and the two loops shared by Count and Cardinality *)

Lemma is_cand_spec : forall x t c, is_cand x t c = true <->
  cvar_min x c <> cvar_max x c /\ cvar_min x c <= t <= cvar_max x c.
Proof.
  intros x t c. unfold is_cand. rewrite !andb_true_iff, negb_true_iff, Z.eqb_neq, !Z.leb_le. tauto.
Qed.

Lemma is_cand_scope : forall x t c, is_cand x t c = true -> (x < length (fst c))%nat.
Proof.
  intros x t c H. apply is_cand_spec in H. destruct H as [N _].
  destruct (Nat.lt_ge_cases x (length (fst c))) as [L|L]; [exact L|].
  exfalso. apply N. unfold cvar_min, cvar_max. rewrite sget_oob by exact L. reflexivity.
Qed.

Lemma is_cand_orig : forall a n s0 c x t, oks a n s0 c -> is_cand x t c = true ->
  (x < n)%nat /\ dmin (sget s0 x) <> dmax (sget s0 x) /\ dmin (sget s0 x) <= t <= dmax (sget s0 x).
Proof.
  intros a n s0 c x t O H. pose proof (is_cand_scope x t c H) as Hx.
  assert (Hn : (x < n)%nat) by (destruct O as ((_ & _ & L) & _); rewrite <- L; exact Hx).
  apply is_cand_spec in H. pose proof (oks_bounds a n s0 c x O Hn). split; [exact Hn|]. lia.
Qed.

Lemma is_cand_frame : forall T x t c1 c2, In x T -> agr T c1 c2 -> is_cand x t c1 = is_cand x t c2.
Proof.
  intros T x t c1 c2 Hx Ha. unfold is_cand.
  rewrite (cvar_min_frame x T c1 c2 Hx Ha), (cvar_max_frame x T c1 c2 Hx Ha). reflexivity.
Qed.

(* force_loop *)
Lemma force_loop_ctr : forall T t xs c c2, incl xs T -> wf_store (fst c) ->
  force_loop xs t c = Some c2 -> ctr T c c2.
Proof.
  intros T t. induction xs as [|x r IH]; intros c c2 HI W H; cbn [force_loop] in H.
  - apply some_ctr; assumption.
  - assert (Hx : In x T) by (apply HI; left; reflexivity).
    assert (Hr : incl r T) by (intros z Hz; apply HI; right; exact Hz).
    eapply bind_ctr; [exact H| |].
    + intros c1 E. destruct (is_cand x t c); [|apply some_ctr; assumption].
      eapply bind_ctr; [exact E| |].
      * intros d E1. eapply cset_min_ctr; eassumption.
      * intros d Wd E1. eapply cset_max_ctr; eassumption.
    + intros c1 W1 E. apply IH; assumption.
Qed.

Lemma force_loop_oks : forall a n s0 t xs c,
  (forall x, In x xs -> dmin (sget s0 x) <> dmax (sget s0 x) ->
             dmin (sget s0 x) <= t <= dmax (sget s0 x) -> a x = t) ->
  oks a n s0 c -> exists c2, force_loop xs t c = Some c2 /\ oks a n s0 c2.
Proof.
  intros a n s0 t. induction xs as [|x r IH]; intros c H O; cbn [force_loop].
  - apply oks_ret. exact O.
  - apply bind_oks.
    + destruct (is_cand x t c) eqn:E; [|apply oks_ret; exact O].
      destruct (is_cand_orig a n s0 c x t O E) as (Hx & N & R).
      assert (Ea : a x = t) by (apply H; [left; reflexivity|exact N|exact R]).
      apply bind_oks; [apply cset_min_oks; [exact O|exact Hx|lia]|].
      intros c1 O1. apply cset_max_oks; [exact O1|exact Hx|lia].
    + intros c1 O1. apply IH; [|exact O1]. intros z Hz. apply H. right. exact Hz.
Qed.

Lemma force_loop_frm : forall T t xs c1 c2, incl xs T -> agr T c1 c2 ->
  orel (agr T) (force_loop xs t c1) (force_loop xs t c2).
Proof.
  intros T t. induction xs as [|x r IH]; intros c1 c2 HI Ha; cbn [force_loop]; [exact Ha|].
  assert (Hx : In x T) by (apply HI; left; reflexivity).
  assert (Hr : incl r T) by (intros z Hz; apply HI; right; exact Hz).
  apply bind_frm.
  - rewrite (is_cand_frame T x t c1 c2 Hx Ha). destruct (is_cand x t c2); [|exact Ha].
    apply bind_frm; [apply cset_min_frame; assumption|].
    intros d1 d2 Hd. apply cset_max_frame; assumption.
  - intros d1 d2 Hd. apply IH; assumption.
Qed.

(* card_forbid *)
Lemma card_forbid_ctr : forall T t xs c c2, incl xs T -> wf_store (fst c) ->
  card_forbid xs t c = Some c2 -> ctr T c c2.
Proof.
  intros T t. induction xs as [|x r IH]; intros c c2 HI W H; cbn [card_forbid] in H.
  - apply some_ctr; assumption.
  - assert (Hx : In x T) by (apply HI; left; reflexivity).
    assert (Hr : incl r T) by (intros z Hz; apply HI; right; exact Hz).
    eapply bind_ctr; [exact H| |].
    + intros c1 E. destruct (is_cand x t c); [|apply some_ctr; assumption].
      destruct (t =? cvar_min x c); [eapply cset_min_ctr; eassumption|].
      destruct (t =? cvar_max x c); [eapply cset_max_ctr; eassumption|apply some_ctr; assumption].
    + intros c1 W1 E. apply IH; assumption.
Qed.

Lemma card_forbid_oks : forall a n s0 t xs c,
  (forall x, In x xs -> dmin (sget s0 x) <> dmax (sget s0 x) ->
             dmin (sget s0 x) <= t <= dmax (sget s0 x) -> a x <> t) ->
  oks a n s0 c -> exists c2, card_forbid xs t c = Some c2 /\ oks a n s0 c2.
Proof.
  intros a n s0 t. induction xs as [|x r IH]; intros c H O; cbn [card_forbid].
  - apply oks_ret. exact O.
  - apply bind_oks.
    + destruct (is_cand x t c) eqn:E; [|apply oks_ret; exact O].
      destruct (is_cand_orig a n s0 c x t O E) as (Hx & N & R).
      assert (Ea : a x <> t) by (apply H; [left; reflexivity|exact N|exact R]).
      pose proof (oks_bounds a n s0 c x O Hx) as B.
      destruct (Z.eqb_spec t (cvar_min x c)) as [E1|E1]; [apply cset_min_oks; [exact O|exact Hx|lia]|].
      destruct (Z.eqb_spec t (cvar_max x c)) as [E2|E2]; [apply cset_max_oks; [exact O|exact Hx|lia]|].
      apply oks_ret; exact O.
    + intros c1 O1. apply IH; [|exact O1]. intros z Hz. apply H. right. exact Hz.
Qed.

Lemma card_forbid_frm : forall T t xs c1 c2, incl xs T -> agr T c1 c2 ->
  orel (agr T) (card_forbid xs t c1) (card_forbid xs t c2).
Proof.
  intros T t. induction xs as [|x r IH]; intros c1 c2 HI Ha; cbn [card_forbid]; [exact Ha|].
  assert (Hx : In x T) by (apply HI; left; reflexivity).
  assert (Hr : incl r T) by (intros z Hz; apply HI; right; exact Hz).
  apply bind_frm.
  - rewrite (is_cand_frame T x t c1 c2 Hx Ha), (cvar_min_frame x T c1 c2 Hx Ha), (cvar_max_frame x T c1 c2 Hx Ha).
    destruct (is_cand x t c2); [|exact Ha].
    destruct (t =? cvar_min x c2); [apply cset_min_frame; assumption|].
    destruct (t =? cvar_max x c2); [apply cset_max_frame; assumption|exact Ha].
  - intros d1 d2 Hd. apply IH; assumption.
Qed.

(* Count's variant of the loop is the same function *)
Lemma count_forbid_eq : forall t xs c, count_forbid xs t c = card_forbid xs t c.
Proof.
  intros t. induction xs as [|x r IH]; intros c; cbn [count_forbid card_forbid]; [reflexivity|].
  assert (E : (if is_cand x t c
               then if (t =? cvar_min x c) && (t <? cvar_max x c) then cset_min x (t + 1) c
                    else if (t =? cvar_max x c) && (cvar_min x c <? t) then cset_max x (t - 1) c else Some c
               else Some c) =
              (if is_cand x t c
               then if t =? cvar_min x c then cset_min x (t + 1) c
                    else if t =? cvar_max x c then cset_max x (t - 1) c else Some c
               else Some c)).
  { destruct (is_cand x t c) eqn:Ec; [|reflexivity]. apply is_cand_spec in Ec.
    destruct (Z.eqb_spec t (cvar_min x c)) as [E1|E1].
    - destruct (Z.ltb_spec t (cvar_max x c)); [reflexivity|lia].
    - cbn [andb]. destruct (Z.eqb_spec t (cvar_max x c)) as [E2|E2]; [|reflexivity].
      destruct (Z.ltb_spec (cvar_min x c) t); [reflexivity|lia]. }
  rewrite E. match goal with |- obind ?r0 _ = _ => destruct r0 as [c1|] end; cbn [obind]; [apply IH|reflexivity].
Qed.

(* ------------------------------------------------------------------------------------------ *)
(* Cardinality: at_least / at_most / exactly *)

Definition mustp (k : Z) (s : store) (x : nat) : bool :=
  (dmin (sget s x) =? dmax (sget s x)) && (dmin (sget s x) =? k).
Definition canp (k : Z) (s : store) (x : nat) : bool :=
  (dmin (sget s x) <=? k) && (k <=? dmax (sget s x)).

Lemma mustp_occ : forall a n c k x, okc a n c -> (x < n)%nat -> mustp k (fst c) x = true -> (a x =? k) = true.
Proof.
  intros a n c k x O Hx H. pose proof (cvar_bounds x a n c Hx O) as B. unfold cvar_min, cvar_max in B.
  unfold mustp in H. apply andb_true_iff in H. destruct H as [H1 H2].
  apply Z.eqb_eq in H1, H2. apply Z.eqb_eq. lia.
Qed.

Lemma occ_canp : forall a n c k x, okc a n c -> (x < n)%nat -> (a x =? k) = true -> canp k (fst c) x = true.
Proof.
  intros a n c k x O Hx H. pose proof (cvar_bounds x a n c Hx O) as B. unfold cvar_min, cvar_max in B.
  apply Z.eqb_eq in H. unfold canp. apply andb_true_iff. rewrite !Z.leb_le. lia.
Qed.

Lemma must_le_occ : forall a n c k xs, okc a n c -> (forall x, In x xs -> (x < n)%nat) ->
  card_must xs k (fst c) <= occurrences xs k a.
Proof. intros a n c k xs O Hs. apply countb_sub. intros x Hx. apply (mustp_occ a n c k x O (Hs x Hx)). Qed.

Lemma occ_le_can : forall a n c k xs, okc a n c -> (forall x, In x xs -> (x < n)%nat) ->
  occurrences xs k a <= card_can xs k (fst c).
Proof. intros a n c k xs O Hs. apply countb_sub. intros x Hx. apply (occ_canp a n c k x O (Hs x Hx)). Qed.

(* occurrences >= can: every candidate position carries k *)
Lemma occ_all_can : forall a n c k xs, okc a n c -> (forall x, In x xs -> (x < n)%nat) ->
  card_can xs k (fst c) <= occurrences xs k a ->
  forall x, In x xs -> dmin (sget (fst c) x) <= k <= dmax (sget (fst c) x) -> a x = k.
Proof.
  intros a n c k xs O Hs L x Hx R. apply Z.eqb_eq.
  apply (countb_all (fun x => a x =? k) (canp k (fst c)) xs); [|exact L|exact Hx|].
  - intros z Hz. apply (occ_canp a n c k z O (Hs z Hz)).
  - unfold canp. apply andb_true_iff. rewrite !Z.leb_le. lia.
Qed.

(* occurrences <= must: every position that carries k is already fixed to k *)
Lemma occ_all_must : forall a n c k xs, okc a n c -> (forall x, In x xs -> (x < n)%nat) ->
  occurrences xs k a <= card_must xs k (fst c) ->
  forall x, In x xs -> dmin (sget (fst c) x) <> dmax (sget (fst c) x) -> a x <> k.
Proof.
  intros a n c k xs O Hs L x Hx N E. apply Z.eqb_eq in E.
  pose proof (countb_all (mustp k (fst c)) (fun x => a x =? k) xs
                (fun z Hz => mustp_occ a n c k z O (Hs z Hz)) L x Hx E) as M.
  unfold mustp in M. apply andb_true_iff in M. destruct M as [M _]. apply Z.eqb_eq in M. contradiction.
Qed.

Lemma okc_of_oks : forall a n s0 (r : option ctx), (exists c2, r = Some c2 /\ oks a n s0 c2) ->
  exists c2, r = Some c2 /\ okc a n c2.
Proof. intros a n s0 r (c2 & E & O). exists c2. split; [exact E|apply O]. Qed.

Section Card.
  Variables (xs : list nat) (k m : Z).

  Lemma prune_at_least_snd : forall a n c, (forall x, In x xs -> (x < n)%nat) -> okc a n c ->
    m <= occurrences xs k a -> exists c2, prune_at_least xs k m c = Some c2 /\ okc a n c2.
  Proof.
    intros a n c Hs O Hsat. unfold prune_at_least.
    pose proof (occ_le_can a n c k xs O Hs) as H1.
    destruct (Z.leb_spec m (card_must xs k (fst c))) as [E1|E1]; [exists c; split; [reflexivity|exact O]|].
    destruct (Z.ltb_spec (card_can xs k (fst c)) m) as [E2|E2]; [lia|].
    destruct ((m - card_must xs k (fst c) =? card_can xs k (fst c) - card_must xs k (fst c)) &&
              (0 <? m - card_must xs k (fst c))) eqn:E3; [|exists c; split; [reflexivity|exact O]].
    apply andb_true_iff in E3. destruct E3 as [E3 _]. apply Z.eqb_eq in E3.
    apply (okc_of_oks a n (fst c)). apply force_loop_oks; [|apply oks_init; exact O].
    intros x Hx _ R. apply (occ_all_can a n c k xs O Hs); [lia|exact Hx|exact R].
  Qed.

  Lemma prune_at_most_snd : forall a n c, (forall x, In x xs -> (x < n)%nat) -> okc a n c ->
    occurrences xs k a <= m -> exists c2, prune_at_most xs k m c = Some c2 /\ okc a n c2.
  Proof.
    intros a n c Hs O Hsat. unfold prune_at_most.
    pose proof (must_le_occ a n c k xs O Hs) as H1.
    destruct (Z.ltb_spec m (card_must xs k (fst c))) as [E1|E1]; [lia|].
    destruct (Z.eqb_spec (card_must xs k (fst c)) m) as [E2|E2]; [|exists c; split; [reflexivity|exact O]].
    apply (okc_of_oks a n (fst c)). apply card_forbid_oks; [|apply oks_init; exact O].
    intros x Hx N _. apply (occ_all_must a n c k xs O Hs); [lia|exact Hx|exact N].
  Qed.

  Lemma prune_exactly_snd : forall a n c, (forall x, In x xs -> (x < n)%nat) -> okc a n c ->
    occurrences xs k a = m -> exists c2, prune_exactly xs k m c = Some c2 /\ okc a n c2.
  Proof.
    intros a n c Hs O Hsat. unfold prune_exactly.
    pose proof (must_le_occ a n c k xs O Hs) as H1. pose proof (occ_le_can a n c k xs O Hs) as H2.
    destruct (Z.ltb_spec m (card_must xs k (fst c))) as [E1|E1]; [lia|].
    destruct (Z.ltb_spec (card_can xs k (fst c)) m) as [E2|E2]; [lia|].
    destruct ((m - card_must xs k (fst c) =? card_can xs k (fst c) - card_must xs k (fst c)) &&
              (0 <? m - card_must xs k (fst c))) eqn:E3.
    - apply andb_true_iff in E3. destruct E3 as [E3 _]. apply Z.eqb_eq in E3.
      apply (okc_of_oks a n (fst c)). apply force_loop_oks; [|apply oks_init; exact O].
      intros x Hx _ R. apply (occ_all_can a n c k xs O Hs); [lia|exact Hx|exact R].
    - destruct (Z.eqb_spec (m - card_must xs k (fst c)) 0) as [E4|E4]; [|exists c; split; [reflexivity|exact O]].
      apply (okc_of_oks a n (fst c)). apply card_forbid_oks; [|apply oks_init; exact O].
      intros x Hx N _. apply (occ_all_must a n c k xs O Hs); [lia|exact Hx|exact N].
  Qed.

  Lemma prune_at_least_ctr : forall c c2, wf_store (fst c) -> prune_at_least xs k m c = Some c2 -> ctr xs c c2.
  Proof.
    intros c c2 W H. unfold prune_at_least in H.
    destruct (m <=? card_must xs k (fst c)); [apply some_ctr; assumption|].
    destruct (card_can xs k (fst c) <? m); [discriminate|].
    destruct (_ && _); [|apply some_ctr; assumption].
    eapply force_loop_ctr; [apply incl_refl|exact W|exact H].
  Qed.

  Lemma prune_at_most_ctr : forall c c2, wf_store (fst c) -> prune_at_most xs k m c = Some c2 -> ctr xs c c2.
  Proof.
    intros c c2 W H. unfold prune_at_most in H.
    destruct (m <? card_must xs k (fst c)); [discriminate|].
    destruct (card_must xs k (fst c) =? m); [|apply some_ctr; assumption].
    eapply card_forbid_ctr; [apply incl_refl|exact W|exact H].
  Qed.

  Lemma prune_exactly_ctr : forall c c2, wf_store (fst c) -> prune_exactly xs k m c = Some c2 -> ctr xs c c2.
  Proof.
    intros c c2 W H. unfold prune_exactly in H.
    destruct (m <? card_must xs k (fst c)); [discriminate|].
    destruct (card_can xs k (fst c) <? m); [discriminate|].
    destruct (_ && _); [eapply force_loop_ctr; [apply incl_refl|exact W|exact H]|].
    destruct (_ =? 0); [|apply some_ctr; assumption].
    eapply card_forbid_ctr; [apply incl_refl|exact W|exact H].
  Qed.

  (* all fixed: must = occurrences = can *)
  Lemma card_fixed : forall s a, inst a s -> (forall v, In v xs -> dfixed (sget s v) = true) ->
    card_must xs k s = occurrences xs k a /\ card_can xs k s = occurrences xs k a.
  Proof.
    intros s a Hi Hf. split; apply countb_ext; intros x Hx;
      destruct (fixed_inst a s x Hi (Hf x Hx)) as [E _]; rewrite E; cbn [dmin dmax hd last].
    - rewrite Z.eqb_refl. reflexivity.
    - destruct (Z.eqb_spec (a x) k) as [->|N]; [rewrite Z.leb_refl; reflexivity|].
      destruct (Z.leb_spec (a x) k), (Z.leb_spec k (a x)); cbn [andb]; try reflexivity; lia.
  Qed.

  Lemma prune_at_least_chk : forall s ev a, inst a s -> (forall v, In v xs -> dfixed (sget s v) = true) ->
    prune_at_least xs k m (s, ev) <> None -> m <= occurrences xs k a.
  Proof.
    intros s ev a Hi Hf H. unfold prune_at_least in H. cbn [fst] in H.
    destruct (card_fixed s a Hi Hf) as [E1 E2]. rewrite E1, E2 in H.
    destruct (Z.leb_spec m (occurrences xs k a)) as [L|L]; [exact L|].
    destruct (Z.ltb_spec (occurrences xs k a) m) as [L2|L2]; [exfalso; apply H; reflexivity|lia].
  Qed.

  Lemma prune_at_most_chk : forall s ev a, inst a s -> (forall v, In v xs -> dfixed (sget s v) = true) ->
    prune_at_most xs k m (s, ev) <> None -> occurrences xs k a <= m.
  Proof.
    intros s ev a Hi Hf H. unfold prune_at_most in H. cbn [fst] in H.
    destruct (card_fixed s a Hi Hf) as [E1 E2]. rewrite E1 in H.
    destruct (Z.ltb_spec m (occurrences xs k a)) as [L|L]; [exfalso; apply H; reflexivity|exact L].
  Qed.

  Lemma prune_exactly_chk : forall s ev a, inst a s -> (forall v, In v xs -> dfixed (sget s v) = true) ->
    prune_exactly xs k m (s, ev) <> None -> occurrences xs k a = m.
  Proof.
    intros s ev a Hi Hf H. unfold prune_exactly in H. cbn [fst] in H.
    destruct (card_fixed s a Hi Hf) as [E1 E2]. rewrite E1, E2 in H.
    destruct (Z.ltb_spec m (occurrences xs k a)) as [L|L]; [exfalso; apply H; reflexivity|].
    destruct (Z.ltb_spec (occurrences xs k a) m) as [L2|L2]; [exfalso; apply H; reflexivity|lia].
  Qed.

  Lemma card_reads_frame : forall T c1 c2, incl xs T -> agr T c1 c2 ->
    card_must xs k (fst c1) = card_must xs k (fst c2) /\ card_can xs k (fst c1) = card_can xs k (fst c2).
  Proof.
    intros T c1 c2 HI (_ & HA & _). split; apply countb_ext; intros x Hx; rewrite (HA x (HI x Hx)); reflexivity.
  Qed.

  Lemma prune_at_least_frm : forall c1 c2, agr xs c1 c2 ->
    orel (agr xs) (prune_at_least xs k m c1) (prune_at_least xs k m c2).
  Proof.
    intros c1 c2 Ha. unfold prune_at_least.
    destruct (card_reads_frame xs c1 c2 (incl_refl _) Ha) as [-> ->].
    destruct (m <=? _); [exact Ha|]. destruct (_ <? m); [exact I|].
    destruct (_ && _); [|exact Ha]. apply force_loop_frm; [apply incl_refl|exact Ha].
  Qed.

  Lemma prune_at_most_frm : forall c1 c2, agr xs c1 c2 ->
    orel (agr xs) (prune_at_most xs k m c1) (prune_at_most xs k m c2).
  Proof.
    intros c1 c2 Ha. unfold prune_at_most.
    destruct (card_reads_frame xs c1 c2 (incl_refl _) Ha) as [-> _].
    destruct (m <? _); [exact I|]. destruct (_ =? m); [|exact Ha].
    apply card_forbid_frm; [apply incl_refl|exact Ha].
  Qed.

  Lemma prune_exactly_frm : forall c1 c2, agr xs c1 c2 ->
    orel (agr xs) (prune_exactly xs k m c1) (prune_exactly xs k m c2).
  Proof.
    intros c1 c2 Ha. unfold prune_exactly.
    destruct (card_reads_frame xs c1 c2 (incl_refl _) Ha) as [-> ->].
    destruct (m <? _); [exact I|]. destruct (_ <? m); [exact I|].
    destruct (_ && _); [apply force_loop_frm; [apply incl_refl|exact Ha]|].
    destruct (_ =? 0); [|exact Ha]. apply card_forbid_frm; [apply incl_refl|exact Ha].
  Qed.

  Lemma occ_frame : forall (T : list nat) kk a1 a2, incl xs T -> (forall v, In v T -> a1 v = a2 v) ->
    occurrences xs kk a1 = occurrences xs kk a2.
  Proof. intros T kk a1 a2 HI H. apply countb_ext. intros x Hx. rewrite (H x (HI x Hx)). reflexivity. Qed.
End Card.

Lemma mk_at_least_good : forall xs k m, good (mk_at_least xs k m).
Proof.
  intros xs k m. split; [|split; [|split]].
  - apply contracting_of_ctr. intros c c' W H. exact (prune_at_least_ctr xs k m c c' W H).
  - apply sound_of_okc. intros a n c Hsc O Hs. cbn [sat mk_at_least] in Hs. apply Z.leb_le in Hs.
    exact (prune_at_least_snd xs k m a n c Hsc O Hs).
  - intros s ev a W Hi Hf H. cbn [sat mk_at_least]. apply Z.leb_le.
    exact (prune_at_least_chk xs k m s ev a Hi Hf H).
  - apply frame_of_agr.
    + intros c1 c2 Ha. exact (prune_at_least_frm xs k m c1 c2 Ha).
    + intros a1 a2 H. cbn [sat mk_at_least]. rewrite (occ_frame xs xs k a1 a2 (incl_refl _) H). reflexivity.
Qed.

Lemma mk_at_most_good : forall xs k m, good (mk_at_most xs k m).
Proof.
  intros xs k m. split; [|split; [|split]].
  - apply contracting_of_ctr. intros c c' W H. exact (prune_at_most_ctr xs k m c c' W H).
  - apply sound_of_okc. intros a n c Hsc O Hs. cbn [sat mk_at_most] in Hs. apply Z.leb_le in Hs.
    exact (prune_at_most_snd xs k m a n c Hsc O Hs).
  - intros s ev a W Hi Hf H. cbn [sat mk_at_most]. apply Z.leb_le.
    exact (prune_at_most_chk xs k m s ev a Hi Hf H).
  - apply frame_of_agr.
    + intros c1 c2 Ha. exact (prune_at_most_frm xs k m c1 c2 Ha).
    + intros a1 a2 H. cbn [sat mk_at_most]. rewrite (occ_frame xs xs k a1 a2 (incl_refl _) H). reflexivity.
Qed.

Lemma mk_exactly_good : forall xs k m, good (mk_exactly xs k m).
Proof.
  intros xs k m. split; [|split; [|split]].
  - apply contracting_of_ctr. intros c c' W H. exact (prune_exactly_ctr xs k m c c' W H).
  - apply sound_of_okc. intros a n c Hsc O Hs. cbn [sat mk_exactly] in Hs. apply Z.eqb_eq in Hs.
    exact (prune_exactly_snd xs k m a n c Hsc O Hs).
  - intros s ev a W Hi Hf H. cbn [sat mk_exactly]. apply Z.eqb_eq.
    exact (prune_exactly_chk xs k m s ev a Hi Hf H).
  - apply frame_of_agr.
    + intros c1 c2 Ha. exact (prune_exactly_frm xs k m c1 c2 Ha).
    + intros a1 a2 H. cbn [sat mk_exactly]. rewrite (occ_frame xs xs k a1 a2 (incl_refl _) H). reflexivity.
Qed.

(* ------------------------------------------------------------------------------------------ *)
(* Count *)

Section Count.
  Variables (xs : list nat) (t : view) (cv : nat).
  Hypothesis Ht : view_ok t.
  Let T := xs ++ uvarl t ++ [cv].

  Lemma cnt_xs : incl xs T.
  Proof. intros x Hx. unfold T. apply in_or_app. left. exact Hx. Qed.
  Lemma cnt_t : uin t T.
  Proof. unfold T. apply uin_app_r, uin_app_l, uin_self. Qed.
  Lemma cnt_cv : In cv T.
  Proof. unfold T. apply in_or_app. right. apply in_or_app. right. left. reflexivity. Qed.

  Definition fixp (s : store) (x : nat) : bool :=
    (dmin (sget s x) =? dmax (sget s x)) && (dmin (sget s x) =? vmin t s).
  Definition ovp (s : store) (x : nat) : bool :=
    (dmin (sget s x) <=? vmax t s) && (vmin t s <=? dmax (sget s x)).

  Lemma count_def_unf : forall s, count_def xs t s = if negb (vmin t s =? vmax t s) then 0 else countb (fixp s) xs.
  Proof. reflexivity. Qed.
  Lemma count_pos_unf : forall s, count_pos xs t s = countb (ovp s) xs.
  Proof. reflexivity. Qed.

  Lemma prune_count_ctr : forall c c2, wf_store (fst c) -> prune_count xs t cv c = Some c2 -> ctr T c c2.
  Proof.
    intros c c2 W H. unfold prune_count in H. cbv beta zeta in H.
    eapply bind_ctr; [exact H| |].
    - intros c1 E. eapply cset_min_ctr; [apply cnt_cv|exact W|exact E].
    - intros c1 W1 H1. eapply bind_ctr; [exact H1| |].
      + intros c3 E. eapply cset_max_ctr; [apply cnt_cv|exact W1|exact E].
      + intros c3 W3 H3. cbv beta in H3.
        destruct (_ && _); [|apply some_ctr; assumption].
        destruct (_ =? cvar_min cv c3).
        { rewrite count_forbid_eq in H3. eapply card_forbid_ctr; [apply cnt_xs|exact W3|exact H3]. }
        destruct (_ =? cvar_min cv c3); [|apply some_ctr; assumption].
        eapply force_loop_ctr; [apply cnt_xs|exact W3|exact H3].
  Qed.

  Lemma prune_count_snd : forall a n c, (forall x, In x T -> (x < n)%nat) -> okc a n c ->
    a cv = occurrences xs (vsem t a) a -> exists c2, prune_count xs t cv c = Some c2 /\ okc a n c2.
  Proof.
    intros a n c Hs O Hsat. set (s0 := fst c). set (ta := vsem t a) in *.
    assert (Hxs : forall x, In x xs -> (x < n)%nat) by (intros x Hx; apply Hs, cnt_xs, Hx).
    assert (Hcv : (cv < n)%nat) by (apply Hs, cnt_cv).
    assert (St : uscope t n) by (apply (uscope_of_uin t T n cnt_t Hs)).
    pose proof (cbnd_bounds t a n c Ht St O) as Bt. unfold cmin, cmax in Bt. fold s0 ta in Bt.
    assert (Bx : forall x, In x xs -> dmin (sget s0 x) <= a x <= dmax (sget s0 x)).
    { intros x Hx. exact (cvar_bounds x a n c (Hxs x Hx) O). }
    assert (Ffix : forall x, In x xs -> vmin t s0 = vmax t s0 -> fixp s0 x = true -> (a x =? ta) = true).
    { intros x Hx Et H. unfold fixp in H. apply andb_true_iff in H. destruct H as [H1 H2].
      apply Z.eqb_eq in H1, H2. apply Z.eqb_eq. pose proof (Bx x Hx). lia. }
    assert (Fov : forall x, In x xs -> (a x =? ta) = true -> ovp s0 x = true).
    { intros x Hx H. apply Z.eqb_eq in H. unfold ovp. apply andb_true_iff. rewrite !Z.leb_le.
      pose proof (Bx x Hx). lia. }
    assert (F1 : count_def xs t s0 <= occurrences xs ta a).
    { rewrite count_def_unf. destruct (Z.eqb_spec (vmin t s0) (vmax t s0)) as [Et|Et]; cbn [negb].
      - apply countb_sub. intros x Hx. apply Ffix; assumption.
      - apply countb_nonneg. }
    assert (F2 : occurrences xs ta a <= count_pos xs t s0).
    { rewrite count_pos_unf. apply countb_sub. exact Fov. }
    unfold occurrences in Hsat, F1, F2.
    unfold prune_count. cbv beta zeta. fold s0.
    apply (okc_of_oks a n s0). apply bind_oks.
    { apply cset_min_oks; [apply oks_init; exact O|exact Hcv|lia]. }
    intros c1 O1. apply bind_oks.
    { apply cset_max_oks; [exact O1|exact Hcv|lia]. }
    intros c2 O2.
    destruct ((cvar_min cv c2 =? cvar_max cv c2) && (cmin t c2 =? cmax t c2)) eqn:E; [|apply oks_ret; exact O2].
    apply andb_true_iff in E. destruct E as [E1 E2]. apply Z.eqb_eq in E1, E2.
    pose proof (oks_bounds a n s0 c2 cv O2 Hcv) as Bc.
    pose proof (cbnd_bounds t a n c2 Ht St (proj1 O2)) as Bt2. fold ta in Bt2.
    destruct O2 as (O2 & S2 & W0).
    destruct (vbnd_sub t s0 (fst c2) Ht W0 (proj1 O2) S2) as [V1 V2].
    unfold cmin, cmax in E2, Bt2.
    assert (Eta : vmin t (fst c2) = ta) by lia.
    assert (O2' : oks a n s0 c2) by (split; [exact O2|split; assumption]).
    destruct (Z.eqb_spec (count_def xs t s0) (cvar_min cv c2)) as [E3|E3].
    { rewrite count_forbid_eq. apply card_forbid_oks; [|exact O2'].
      intros x Hx N _ Ea. unfold cmin in Ea. rewrite Eta in Ea.
      assert (Eb : (a x =? ta) = true) by (apply Z.eqb_eq; exact Ea).
      rewrite count_def_unf in E3, F1.
      destruct (Z.eqb_spec (vmin t s0) (vmax t s0)) as [Et|Et]; cbn [negb] in E3, F1.
      - assert (M : fixp s0 x = true).
        { apply (countb_all (fixp s0) (fun x => a x =? ta) xs); [|lia|exact Hx|exact Eb].
          intros z Hz. apply Ffix; assumption. }
        unfold fixp in M. apply andb_true_iff in M. destruct M as [M _]. apply Z.eqb_eq in M. contradiction.
      - assert (Z0' : countb (fun x => a x =? ta) xs <= 0) by lia.
        pose proof (countb_none _ xs Z0' x Hx) as C. cbv beta in C. congruence. }
    destruct (Z.eqb_spec (count_pos xs t s0) (cvar_min cv c2)) as [E4|E4]; [|apply oks_ret; exact O2'].
    apply force_loop_oks; [|exact O2'].
    intros x Hx _ R. unfold cmin in R |- *. rewrite Eta in R |- *.
    apply Z.eqb_eq. rewrite count_pos_unf in E4, F2.
    apply (countb_all (fun x => a x =? ta) (ovp s0) xs); [exact Fov|lia|exact Hx|].
    unfold ovp. apply andb_true_iff. rewrite !Z.leb_le. lia.
  Qed.

  Lemma count_fixed : forall s a, inst a s -> (forall v, In v T -> dfixed (sget s v) = true) ->
    count_def xs t s = occurrences xs (vsem t a) a /\ count_pos xs t s = occurrences xs (vsem t a) a.
  Proof.
    intros s a Hi Hf.
    assert (Ft : forall mx, vbnd t mx s = vsem t a).
    { intros mx. apply vbnd_fixed; [exact Hi|]. apply (fixed_of_uin t T s cnt_t Hf). }
    rewrite count_def_unf, count_pos_unf. unfold vmin, vmax. rewrite !Ft, Z.eqb_refl. cbn [negb].
    split; apply countb_ext; intros x Hx; unfold fixp, ovp, vmin, vmax; rewrite !Ft;
      destruct (fixed_inst a s x Hi (Hf x (cnt_xs x Hx))) as [E _]; rewrite E; cbn [dmin dmax hd last].
    - rewrite Z.eqb_refl. reflexivity.
    - destruct (Z.eqb_spec (a x) (vsem t a)) as [->|N]; [rewrite Z.leb_refl; reflexivity|].
      destruct (Z.leb_spec (a x) (vsem t a)), (Z.leb_spec (vsem t a) (a x)); cbn [andb]; try reflexivity; lia.
  Qed.

  Lemma prune_count_chk : forall s ev a, wf_store s -> inst a s ->
    (forall v, In v T -> dfixed (sget s v) = true) ->
    prune_count xs t cv (s, ev) <> None -> a cv = occurrences xs (vsem t a) a.
  Proof.
    intros s ev a W Hi Hf H. unfold prune_count in H. cbv beta zeta in H. cbn [fst] in H.
    destruct (count_fixed s a Hi Hf) as [E1 E2]. rewrite E1, E2 in H.
    pose proof (fixed_of_uin (VVar cv) T s (uin_var cv T cnt_cv) Hf) as Fc.
    destruct (chk_step (VVar cv) false _ a s ev _ I W Hi Fc H) as [B1 H1]. cbv beta in H1.
    destruct (chk_step (VVar cv) true _ a s ev _ I W Hi Fc H1) as [B2 _].
    unfold bnd_ok in B1, B2. cbn [vsem] in B1, B2. lia.
  Qed.

  Lemma count_reads_frame : forall c1 c2, agr T c1 c2 ->
    count_def xs t (fst c1) = count_def xs t (fst c2) /\ count_pos xs t (fst c1) = count_pos xs t (fst c2).
  Proof.
    intros c1 c2 (_ & HA & _). rewrite !count_def_unf, !count_pos_unf. unfold vmin, vmax.
    rewrite !(vbnd_frame t T (fst c1) (fst c2) cnt_t HA).
    assert (Ef : countb (fixp (fst c1)) xs = countb (fixp (fst c2)) xs).
    { apply countb_ext. intros x Hx. unfold fixp, vmin.
      rewrite (HA x (cnt_xs x Hx)), (vbnd_frame t T (fst c1) (fst c2) cnt_t HA). reflexivity. }
    assert (Eo : countb (ovp (fst c1)) xs = countb (ovp (fst c2)) xs).
    { apply countb_ext. intros x Hx. unfold ovp, vmin, vmax.
      rewrite (HA x (cnt_xs x Hx)), !(vbnd_frame t T (fst c1) (fst c2) cnt_t HA). reflexivity. }
    rewrite Ef, Eo. split; reflexivity.
  Qed.

  Lemma prune_count_frm : forall c1 c2, agr T c1 c2 ->
    orel (agr T) (prune_count xs t cv c1) (prune_count xs t cv c2).
  Proof.
    intros c1 c2 Ha. unfold prune_count. cbv beta zeta.
    destruct (count_reads_frame c1 c2 Ha) as [-> ->].
    apply bind_frm; [apply cset_min_frame; [apply cnt_cv|exact Ha]|].
    intros d1 d2 Hd. apply bind_frm; [apply cset_max_frame; [apply cnt_cv|exact Hd]|].
    intros e1 e2 He.
    rewrite (cvar_min_frame cv T e1 e2 cnt_cv He), (cvar_max_frame cv T e1 e2 cnt_cv He),
            (cmin_frame t T e1 e2 cnt_t He), (cmax_frame t T e1 e2 cnt_t He).
    destruct (_ && _); [|exact He].
    destruct (_ =? cvar_min cv e2).
    { rewrite !count_forbid_eq. apply card_forbid_frm; [apply cnt_xs|exact He]. }
    destruct (_ =? cvar_min cv e2); [|exact He].
    apply force_loop_frm; [apply cnt_xs|exact He].
  Qed.

  Lemma mk_count_good_T : good (mk_count xs t cv).
  Proof.
    split; [|split; [|split]].
    - apply contracting_of_ctr. intros c c' W H. exact (prune_count_ctr c c' W H).
    - apply sound_of_okc. intros a n c Hsc O Hs. cbn [sat mk_count] in Hs. apply Z.eqb_eq in Hs.
      exact (prune_count_snd a n c Hsc O Hs).
    - intros s ev a W Hi Hf H. cbn [sat mk_count]. apply Z.eqb_eq.
      exact (prune_count_chk s ev a W Hi Hf H).
    - apply frame_of_agr.
      + intros c1 c2 Ha. exact (prune_count_frm c1 c2 Ha).
      + intros a1 a2 H. cbn [sat mk_count trig] in *. fold T in H.
        rewrite (H cv cnt_cv), (vsem_frame t T a1 a2 cnt_t H), (occ_frame xs T _ a1 a2 cnt_xs H). reflexivity.
  Qed.
End Count.

Lemma mk_count_good : forall xs t cv, view_ok t -> good (mk_count xs t cv).
Proof. intros xs t cv Ht. exact (mk_count_good_T xs t cv Ht). Qed.

(* ------------------------------------------------------------------------------------------ *)
(* Table *)

Lemma forallb_ext_in : forall {A} (f g : A -> bool) l, (forall x, In x l -> f x = g x) -> forallb f l = forallb g l.
Proof.
  intros A f g. induction l as [|y r IH]; intros H; [reflexivity|]. cbn [forallb].
  rewrite (H y (or_introl eq_refl)), IH; [reflexivity|]. intros x Hx. apply H. right. exact Hx.
Qed.
Lemma existsb_ext_in : forall {A} (f g : A -> bool) l, (forall x, In x l -> f x = g x) -> existsb f l = existsb g l.
Proof.
  intros A f g. induction l as [|y r IH]; intros H; [reflexivity|]. cbn [existsb].
  rewrite (H y (or_introl eq_refl)), IH; [reflexivity|]. intros x Hx. apply H. right. exact Hx.
Qed.
Lemma filter_ext_in' : forall {A} (f g : A -> bool) l, (forall x, In x l -> f x = g x) -> filter f l = filter g l.
Proof.
  intros A f g. induction l as [|y r IH]; intros H; [reflexivity|]. cbn [filter].
  rewrite (H y (or_introl eq_refl)), IH; [reflexivity|]. intros x Hx. apply H. right. exact Hx.
Qed.

Lemma list_min_le : forall l d, list_min d l <= d /\ forall y, In y l -> list_min d l <= y.
Proof.
  induction l as [|x r IH]; intros d; cbn [list_min]; [split; [lia|intros y []]|].
  destruct (IH (Z.min d x)) as [H1 H2]. split; [lia|].
  intros y [<-|Hy]; [lia|apply H2; exact Hy].
Qed.
Lemma list_max_ge : forall l d, d <= list_max d l /\ forall y, In y l -> y <= list_max d l.
Proof.
  induction l as [|x r IH]; intros d; cbn [list_max]; [split; [lia|intros y []]|].
  destruct (IH (Z.max d x)) as [H1 H2]. split; [lia|].
  intros y [<-|Hy]; [lia|apply H2; exact Hy].
Qed.

Lemma tuple_eq_nth : forall a xs tp i x, tuple_eq xs tp a = true -> nth_error xs i = Some x -> a x = nth i tp 0.
Proof.
  intros a. unfold tuple_eq. induction xs as [|y r IH]; intros tp i x H Hn.
  - destruct i; discriminate Hn.
  - destruct tp as [|v tp']; [discriminate H|]. cbn [length combine forallb fst snd] in H.
    apply andb_true_iff in H. destruct H as [HL H]. apply andb_true_iff in H. destruct H as [H1 H2].
    destruct i as [|i]; cbn [nth_error nth] in *.
    + inversion Hn; subst. apply Z.eqb_eq. exact H1.
    + apply IH; [|exact Hn]. apply andb_true_iff. split; [exact HL|exact H2].
Qed.

Definition table_ok (xs : list nat) (tuples : list (list Z)) : Prop :=
  forall tp, In tp tuples -> length tp = length xs.

Section Table.
  Variables (xs : list nat) (tuples : list (list Z)).

  Lemma tab_narrow_ctr : forall T i x c c1, In x T -> wf_store (fst c) ->
    tab_narrow xs tuples i x c = Some c1 -> ctr T c c1.
  Proof.
    intros T i x c c1 Hx W H. unfold tab_narrow in H. cbv beta zeta in H.
    destruct (map _ _) as [|v0 sv]; [discriminate|].
    eapply bind_ctr; [exact H| |].
    - intros d E. clear H. match type of E with (if ?b then _ else _) = _ => destruct b end;
        [eapply cset_min_ctr; eassumption|apply some_ctr; assumption].
    - intros d Wd E. clear H. cbv beta in E. match type of E with (if ?b then _ else _) = _ => destruct b end;
        [eapply cset_max_ctr; eassumption|apply some_ctr; assumption].
  Qed.

  Lemma tab_pass_ctr : forall T rest i ch c ch' c2, incl rest T -> wf_store (fst c) ->
    tab_pass xs tuples rest i ch c = Some (ch', c2) -> ctr T c c2.
  Proof.
    intros T. induction rest as [|x r IH]; intros i ch c ch' c2 HI W H; cbn [tab_pass] in H.
    - inversion H; subst. apply ctr_refl; exact W.
    - destruct (tab_narrow xs tuples i x c) as [c1|] eqn:E; [|discriminate]. cbn [obind] in H.
      assert (C1 : ctr T c c1) by (eapply tab_narrow_ctr; [apply HI; left; reflexivity|exact W|exact E]).
      apply (ctr_trans T c c1 c2 C1). eapply IH; [|exact (ctr_wf _ _ _ C1)|exact H].
      intros z Hz. apply HI. right. exact Hz.
  Qed.

  Lemma tab_loop_ctr : forall T fuel c c2, incl xs T -> wf_store (fst c) ->
    tab_loop fuel xs tuples c = Some c2 -> ctr T c c2.
  Proof.
    intros T. induction fuel as [|f IH]; intros c c2 HI W H; cbn [tab_loop] in H.
    - apply some_ctr; assumption.
    - destruct (tab_pass xs tuples xs 0 false c) as [[ch c1]|] eqn:E; [|discriminate]. cbn [obind] in H.
      assert (C1 : ctr T c c1) by (eapply tab_pass_ctr; [exact HI|exact W|exact E]).
      destruct ch; [|inversion H; subst; exact C1].
      destruct (has_supp xs tuples (fst c1)); [|discriminate].
      apply (ctr_trans T c c1 c2 C1). apply IH; [exact HI|exact (ctr_wf _ _ _ C1)|exact H].
  Qed.

  Lemma prune_table_ctr : forall c c2, wf_store (fst c) -> prune_table xs tuples c = Some c2 -> ctr xs c c2.
  Proof.
    intros c c2 W H. unfold prune_table in H. destruct (has_supp xs tuples (fst c)); [|discriminate].
    eapply tab_loop_ctr; [apply incl_refl|exact W|exact H].
  Qed.

  (* soundness *)
  Section Snd.
    Variables (a : asg) (n : nat) (tp : list Z).
    Hypotheses (Hs : forall x, In x xs -> (x < n)%nat) (Htp : In tp tuples) (Heq : tuple_eq xs tp a = true).

    Lemma supp_of_sat : forall c, okc a n c -> tuple_supp xs tp (fst c) = true.
    Proof.
      intros c O. unfold tuple_supp. apply forallb_forall. intros [x v] Hp. cbn [fst snd].
      pose proof (in_combine_l _ _ _ _ Hp) as Hx.
      assert (Ev : a x = v).
      { unfold tuple_eq in Heq. apply andb_true_iff in Heq. destruct Heq as [_ F].
        rewrite forallb_forall in F. specialize (F (x, v) Hp). cbn [fst snd] in F. apply Z.eqb_eq. exact F. }
      pose proof (cvar_bounds x a n c (Hs x Hx) O) as B. unfold cvar_min, cvar_max in B.
      destruct (Z.ltb_spec v (dmin (sget (fst c) x))); [lia|].
      destruct (Z.ltb_spec (dmax (sget (fst c) x)) v); [lia|]. reflexivity.
    Qed.

    Lemma has_supp_of_sat : forall c, okc a n c -> has_supp xs tuples (fst c) = true.
    Proof.
      intros c O. unfold has_supp. apply existsb_exists. exists tp. split; [exact Htp|apply supp_of_sat; exact O].
    Qed.

    Lemma tab_narrow_snd : forall i x c, nth_error xs i = Some x -> okc a n c ->
      exists c1, tab_narrow xs tuples i x c = Some c1 /\ okc a n c1.
    Proof.
      intros i x c Hn O. unfold tab_narrow. cbv beta zeta.
      assert (Hx : (x < n)%nat) by (apply Hs; eapply nth_error_In; exact Hn).
      assert (Hin : In (a x) (map (fun tp0 => nth i tp0 0) (filter (fun tp0 => tuple_supp xs tp0 (fst c)) tuples))).
      { apply in_map_iff. exists tp. split; [symmetry; apply (tuple_eq_nth a xs tp i x Heq Hn)|].
        apply filter_In. split; [exact Htp|apply supp_of_sat; exact O]. }
      destruct (map _ _) as [|v0 sv] eqn:Esv; [destruct Hin|].
      destruct (list_min_le (v0 :: sv) v0) as [_ Lmin]. destruct (list_max_ge (v0 :: sv) v0) as [_ Lmax].
      specialize (Lmin _ Hin). specialize (Lmax _ Hin).
      apply (okc_of_oks a n (fst c)). apply bind_oks.
      - destruct (_ <? _); [apply cset_min_oks; [apply oks_init; exact O|exact Hx|exact Lmin]|apply oks_ret, oks_init, O].
      - intros c1 O1. destruct (_ <? _); [apply cset_max_oks; [exact O1|exact Hx|exact Lmax]|apply oks_ret, O1].
    Qed.

    Lemma tab_pass_snd : forall rest i ch c,
      (forall j x, nth_error rest j = Some x -> nth_error xs (i + j) = Some x) -> okc a n c ->
      exists ch' c2, tab_pass xs tuples rest i ch c = Some (ch', c2) /\ okc a n c2.
    Proof.
      induction rest as [|x r IH]; intros i ch c Hr O; cbn [tab_pass].
      - exists ch, c. split; [reflexivity|exact O].
      - destruct (tab_narrow_snd i x c) as (c1 & E & O1); [|exact O|].
        { specialize (Hr 0%nat x eq_refl). rewrite Nat.add_0_r in Hr. exact Hr. }
        rewrite E. cbn [obind]. apply IH; [|exact O1].
        intros j z Hj. specialize (Hr (S j) z Hj). rewrite <- plus_n_Sm in Hr. exact Hr.
    Qed.

    Lemma tab_loop_snd : forall fuel c, okc a n c ->
      exists c2, tab_loop fuel xs tuples c = Some c2 /\ okc a n c2.
    Proof.
      induction fuel as [|f IH]; intros c O; cbn [tab_loop].
      - exists c. split; [reflexivity|exact O].
      - destruct (tab_pass_snd xs 0 false c) as (ch & c1 & E & O1); [intros j x Hj; exact Hj|exact O|].
        rewrite E. cbn [obind]. destruct ch; [|exists c1; split; [reflexivity|exact O1]].
        rewrite (has_supp_of_sat c1 O1). apply IH. exact O1.
    Qed.
  End Snd.

  Lemma prune_table_snd : forall a n c, (forall x, In x xs -> (x < n)%nat) -> okc a n c ->
    existsb (fun tp => tuple_eq xs tp a) tuples = true ->
    exists c2, prune_table xs tuples c = Some c2 /\ okc a n c2.
  Proof.
    intros a n c Hs O Hsat. apply existsb_exists in Hsat. destruct Hsat as (tp & Htp & Heq).
    unfold prune_table. rewrite (has_supp_of_sat a n tp Hs Htp Heq c O).
    apply (tab_loop_snd a n tp Hs Htp Heq). exact O.
  Qed.

  Lemma prune_table_chk : forall s ev a, table_ok xs tuples -> inst a s ->
    (forall v, In v xs -> dfixed (sget s v) = true) ->
    prune_table xs tuples (s, ev) <> None -> existsb (fun tp => tuple_eq xs tp a) tuples = true.
  Proof.
    intros s ev a Hok Hi Hf H. unfold prune_table in H. cbn [fst] in H.
    destruct (has_supp xs tuples s) eqn:E; [|exfalso; apply H; reflexivity].
    unfold has_supp in E. apply existsb_exists in E. destruct E as (tp & Htp & Hsp).
    apply existsb_exists. exists tp. split; [exact Htp|]. unfold tuple_eq.
    rewrite (Hok tp Htp), Nat.eqb_refl. cbn [andb]. unfold tuple_supp in Hsp.
    rewrite forallb_forall in Hsp. apply forallb_forall. intros [x v] Hp. cbn [fst snd].
    specialize (Hsp (x, v) Hp). cbn [fst snd] in Hsp.
    destruct (fixed_inst a s x Hi (Hf x (in_combine_l _ _ _ _ Hp))) as [Ex _].
    rewrite Ex in Hsp. cbn [dmin dmax hd last] in Hsp. apply Z.eqb_eq.
    destruct (Z.ltb_spec v (a x)); [discriminate|]. destruct (Z.ltb_spec (a x) v); [discriminate|]. lia.
  Qed.

  (* frame *)
  Lemma tuple_supp_frame : forall T s1 s2 tp, incl xs T -> agree_on T s1 s2 ->
    tuple_supp xs tp s1 = tuple_supp xs tp s2.
  Proof.
    intros T s1 s2 tp HI HA. unfold tuple_supp. apply forallb_ext_in. intros [x v] Hp. cbn [fst snd].
    rewrite (HA x (HI x (in_combine_l _ _ _ _ Hp))). reflexivity.
  Qed.

  Lemma has_supp_frame : forall T s1 s2, incl xs T -> agree_on T s1 s2 ->
    has_supp xs tuples s1 = has_supp xs tuples s2.
  Proof.
    intros T s1 s2 HI HA. unfold has_supp. apply existsb_ext_in. intros tp _. apply (tuple_supp_frame T); assumption.
  Qed.

  Lemma tab_narrow_frm : forall T i x c1 c2, incl xs T -> In x T -> agr T c1 c2 ->
    orel (agr T) (tab_narrow xs tuples i x c1) (tab_narrow xs tuples i x c2).
  Proof.
    intros T i x c1 c2 HI Hx Ha. unfold tab_narrow. cbv beta zeta.
    assert (Ef : filter (fun tp => tuple_supp xs tp (fst c1)) tuples = filter (fun tp => tuple_supp xs tp (fst c2)) tuples).
    { apply filter_ext_in'. intros tp _. apply (tuple_supp_frame T); [exact HI|apply Ha]. }
    rewrite Ef. destruct (map _ _) as [|v0 sv]; [exact I|].
    rewrite (cvar_min_frame x T c1 c2 Hx Ha), (cvar_max_frame x T c1 c2 Hx Ha).
    apply bind_frm.
    - destruct (_ <? _); [apply cset_min_frame; assumption|exact Ha].
    - intros d1 d2 Hd. destruct (_ <? _); [apply cset_max_frame; assumption|exact Hd].
  Qed.

  Definition agrb (T : list nat) (r1 r2 : bool * ctx) : Prop := fst r1 = fst r2 /\ agr T (snd r1) (snd r2).

  Lemma tab_pass_frm : forall T rest i ch c1 c2, incl xs T -> incl rest T -> agr T c1 c2 ->
    orel (agrb T) (tab_pass xs tuples rest i ch c1) (tab_pass xs tuples rest i ch c2).
  Proof.
    intros T. induction rest as [|x r IH]; intros i ch c1 c2 HI HR Ha; cbn [tab_pass].
    - split; [reflexivity|exact Ha].
    - assert (Hx : In x T) by (apply HR; left; reflexivity).
      rewrite (cvar_min_frame x T c1 c2 Hx Ha), (cvar_max_frame x T c1 c2 Hx Ha).
      apply (obind_orel (agr T) (agrb T)); [apply tab_narrow_frm; assumption|].
      intros d1 d2 Hd. rewrite (cvar_min_frame x T d1 d2 Hx Hd), (cvar_max_frame x T d1 d2 Hx Hd).
      apply IH; [exact HI| |exact Hd]. intros z Hz. apply HR. right. exact Hz.
  Qed.

  Lemma tab_loop_frm : forall T fuel c1 c2, incl xs T -> agr T c1 c2 ->
    orel (agr T) (tab_loop fuel xs tuples c1) (tab_loop fuel xs tuples c2).
  Proof.
    intros T. induction fuel as [|f IH]; intros c1 c2 HI Ha; cbn [tab_loop]; [exact Ha|].
    apply (obind_orel (agrb T) (agr T)); [apply tab_pass_frm; assumption|].
    intros [ch1 d1] [ch2 d2] [E Hd]. cbn [fst snd] in E, Hd. subst ch2.
    destruct ch1; [|exact Hd].
    rewrite (has_supp_frame T (fst d1) (fst d2) HI (proj1 (proj2 Hd))).
    destruct (has_supp xs tuples (fst d2)); [apply IH; assumption|exact I].
  Qed.

  Lemma size_sum_frame : forall T l s1 s2, incl l T -> agree_on T s1 s2 -> size_sum l s1 = size_sum l s2.
  Proof.
    intros T. induction l as [|x r IH]; intros s1 s2 HI HA; [reflexivity|]. unfold size_sum in *. cbn [fold_right].
    rewrite (HA x (HI x (or_introl eq_refl))), (IH s1 s2); [reflexivity| |exact HA].
    intros z Hz. apply HI. right. exact Hz.
  Qed.

  Lemma prune_table_frm : forall c1 c2, agr xs c1 c2 ->
    orel (agr xs) (prune_table xs tuples c1) (prune_table xs tuples c2).
  Proof.
    intros c1 c2 Ha. unfold prune_table. pose proof Ha as (_ & HA & _).
    rewrite (has_supp_frame xs (fst c1) (fst c2) (incl_refl _) HA),
            (size_sum_frame xs xs (fst c1) (fst c2) (incl_refl _) HA).
    destruct (has_supp xs tuples (fst c2)); [|exact I].
    apply tab_loop_frm; [apply incl_refl|exact Ha].
  Qed.

  Lemma tuple_eq_frame : forall tp a1 a2, (forall v, In v xs -> a1 v = a2 v) -> tuple_eq xs tp a1 = tuple_eq xs tp a2.
  Proof.
    intros tp a1 a2 H. unfold tuple_eq. f_equal. apply forallb_ext_in. intros [x v] Hp. cbn [fst snd].
    rewrite (H x (in_combine_l _ _ _ _ Hp)). reflexivity.
  Qed.
End Table.

Lemma mk_table_good : forall xs tuples, table_ok xs tuples -> good (mk_table xs tuples).
Proof.
  intros xs tuples Hok. split; [|split; [|split]].
  - apply contracting_of_ctr. intros c c' W H. exact (prune_table_ctr xs tuples c c' W H).
  - apply sound_of_okc. intros a n c Hsc O Hs. exact (prune_table_snd xs tuples a n c Hsc O Hs).
  - intros s ev a W Hi Hf H. exact (prune_table_chk xs tuples s ev a Hok Hi Hf H).
  - apply frame_of_agr.
    + intros c1 c2 Ha. exact (prune_table_frm xs tuples c1 c2 Ha).
    + intros a1 a2 H. cbn [sat mk_table]. apply existsb_ext_in. intros tp _. apply tuple_eq_frame. exact H.
Qed.

Lemma table_okb_ok : forall xs tuples, table_okb xs tuples = true -> table_ok xs tuples.
Proof.
  intros xs tuples H tp Htp. unfold table_okb in H. rewrite forallb_forall in H.
  apply Nat.eqb_eq. apply H. exact Htp.
Qed.

Lemma mk_table_good_b : forall xs tuples, table_okb xs tuples = true -> good (mk_table xs tuples).
Proof. intros xs tuples H. apply mk_table_good, table_okb_ok, H. Qed.

(* the arity side condition is needed only for `checking`: a short row is read through `combine`,
   i.e. as a prefix (in Rust: debug_assert / index panic), while `sat` demands the whole tuple *)
Lemma mk_table_short_row_checking_refuted : ~ checking (mk_table [0%nat; 1%nat] [[1]]).
Proof.
  intros H. specialize (H [[1]; [0]] [] (fun v => match v with O => 1 | _ => 0 end)).
  assert (E : sat (mk_table [0%nat; 1%nat] [[1]]) (fun v => match v with O => 1 | _ => 0 end) = true).
  { apply H.
    - intros v Hv. cbn [length] in Hv. destruct v as [|[|v]]; [| |lia]; cbn; (split; [discriminate|exact I]).
    - intros v Hv. cbn [length] in Hv. destruct v as [|[|v]]; [| |lia]; cbn; left; reflexivity.
    - intros v [<-|[<-|[]]]; reflexivity.
    - vm_compute. discriminate. }
  vm_compute in E. discriminate.
Qed.

(* ------------------------------------------------------------------------------------------ *)
(* Element *)

Lemma zr_aux_In : forall k lo y, In y (zrange_aux lo k) <-> lo <= y < lo + Z.of_nat k.
Proof.
  induction k as [|k IH]; intros lo y; cbn [zrange_aux In]; [lia|]. rewrite IH. lia.
Qed.
Lemma zr_In : forall lo hi y, In y (zrange lo hi) <-> lo <= y < hi.
Proof. intros lo hi y. unfold zrange. rewrite zr_aux_In. lia. Qed.
Lemma zr_aux_sorted : forall k lo, sorted (zrange_aux lo k).
Proof.
  induction k as [|k IH]; intros lo; [exact I|]. cbn [zrange_aux]. apply sorted_cons_iff. split; [|apply IH].
  intros y Hy. apply zr_aux_In in Hy. lia.
Qed.
Lemma zr_sorted : forall lo hi, sorted (zrange lo hi).
Proof. intros. apply zr_aux_sorted. Qed.

(* guarded setters *)
Lemma gset_min_ctr : forall T x b c c1, In x T -> wf_store (fst c) -> gset_min x b c = Some c1 -> ctr T c c1.
Proof.
  intros T x b c c1 Hx W H. unfold gset_min in H.
  destruct (_ <? _); [eapply cset_min_ctr; eassumption|apply some_ctr; assumption].
Qed.
Lemma gset_max_ctr : forall T x b c c1, In x T -> wf_store (fst c) -> gset_max x b c = Some c1 -> ctr T c c1.
Proof.
  intros T x b c c1 Hx W H. unfold gset_max in H.
  destruct (_ <? _); [eapply cset_max_ctr; eassumption|apply some_ctr; assumption].
Qed.
Lemma gset_min_oks : forall a n s0 x b c, oks a n s0 c -> (x < n)%nat -> b <= a x ->
  exists c1, gset_min x b c = Some c1 /\ oks a n s0 c1.
Proof.
  intros a n s0 x b c O Hx Hb. unfold gset_min.
  destruct (_ <? _); [apply cset_min_oks; assumption|apply oks_ret; exact O].
Qed.
Lemma gset_max_oks : forall a n s0 x b c, oks a n s0 c -> (x < n)%nat -> a x <= b ->
  exists c1, gset_max x b c = Some c1 /\ oks a n s0 c1.
Proof.
  intros a n s0 x b c O Hx Hb. unfold gset_max.
  destruct (_ <? _); [apply cset_max_oks; assumption|apply oks_ret; exact O].
Qed.
Lemma gset_min_frm : forall T x b c1 c2, In x T -> agr T c1 c2 -> orel (agr T) (gset_min x b c1) (gset_min x b c2).
Proof.
  intros T x b c1 c2 Hx Ha. unfold gset_min. rewrite (cvar_min_frame x T c1 c2 Hx Ha).
  destruct (_ <? _); [apply cset_min_frame; assumption|exact Ha].
Qed.
Lemma gset_max_frm : forall T x b c1 c2, In x T -> agr T c1 c2 -> orel (agr T) (gset_max x b c1) (gset_max x b c2).
Proof.
  intros T x b c1 c2 Hx Ha. unfold gset_max. rewrite (cvar_max_frame x T c1 c2 Hx Ha).
  destruct (_ <? _); [apply cset_max_frame; assumption|exact Ha].
Qed.

Lemma el_get_In : forall arr i x, el_get arr i = Some x -> In x arr.
Proof. intros arr i x H. unfold el_get in H. eapply nth_error_In. exact H. Qed.

(* compute_possible_values covers every array position it visits *)
Definition covers (acc : option (Z * Z)) (s : store) (x : nat) : Prop :=
  match acc with Some (p, q) => p <= dmin (sget s x) /\ dmax (sget s x) <= q | None => False end.

Lemma el_possible_keep : forall arr s x idxs acc, covers acc s x -> covers (el_possible arr idxs s acc) s x.
Proof.
  intros arr s x. induction idxs as [|i r IH]; intros acc H; cbn [el_possible]; [exact H|].
  destruct (el_get arr i) as [y|]; [|apply IH; exact H]. apply IH.
  destruct acc as [[p q]|]; [|destruct H]. cbn [covers] in *.
  destruct (Z.ltb_spec (dmin (sget s y)) p), (Z.ltb_spec q (dmax (sget s y))); lia.
Qed.

Lemma el_possible_covers : forall arr s x j idxs acc, In j idxs -> el_get arr j = Some x ->
  covers (el_possible arr idxs s acc) s x.
Proof.
  intros arr s x j. induction idxs as [|i r IH]; intros acc Hj Hg; [destruct Hj|]. cbn [el_possible].
  destruct Hj as [->|Hj].
  - rewrite Hg. apply el_possible_keep. destruct acc as [[p q]|]; cbn [covers]; [|lia].
    destruct (Z.ltb_spec (dmin (sget s x)) p), (Z.ltb_spec q (dmax (sget s x))); lia.
  - destruct (el_get arr i); apply IH; assumption.
Qed.

Lemma el_possible_frame : forall T arr s1 s2 idxs acc, incl arr T -> agree_on T s1 s2 ->
  el_possible arr idxs s1 acc = el_possible arr idxs s2 acc.
Proof.
  intros T arr s1 s2. induction idxs as [|i r IH]; intros acc HI HA; cbn [el_possible]; [reflexivity|].
  destruct (el_get arr i) as [y|] eqn:E; [|apply IH; assumption].
  rewrite (HA y (HI y (el_get_In arr i y E))). apply IH; assumption.
Qed.

Lemma fixed_cvar : forall a s ev x, inst a s -> dfixed (sget s x) = true ->
  cvar_min x (s, ev) = a x /\ cvar_max x (s, ev) = a x.
Proof.
  intros a s ev x Hi Hf. destruct (fixed_inst a s x Hi Hf) as [E _]. unfold cvar_min, cvar_max. cbn [fst].
  rewrite E. split; reflexivity.
Qed.

Section Element.
  Variables (arr : list nat) (idx vl : nat).
  Let T := arr ++ [idx; vl].

  Lemma el_arr : incl arr T.
  Proof. intros x Hx. unfold T. apply in_or_app. left. exact Hx. Qed.
  Lemma el_idx : In idx T.
  Proof. unfold T. apply in_or_app. right. left. reflexivity. Qed.
  Lemma el_vl : In vl T.
  Proof. unfold T. apply in_or_app. right. right. left. reflexivity. Qed.
  Lemma el_av : forall i av, el_get arr i = Some av -> In av T.
  Proof. intros i av H. apply el_arr. eapply el_get_In. exact H. Qed.

  (* ---- contraction ---- *)
  Lemma el_from_value_ctr : forall c c2, wf_store (fst c) -> el_from_value arr idx vl c = Some c2 -> ctr T c c2.
  Proof.
    intros c c2 W H. unfold el_from_value in H. cbv beta zeta in H.
    assert (Multi : forall valid,
      match filter (fun i => match el_get arr i with
                             | Some av => negb ((cvar_max av c <? cvar_min vl c) || (cvar_max vl c <? cvar_min av c))
                             | None => false end) valid with
      | [] => None
      | f :: _ => do c0 <- gset_min idx f c;
                  gset_max idx (last (filter (fun i => match el_get arr i with
                             | Some av => negb ((cvar_max av c <? cvar_min vl c) || (cvar_max vl c <? cvar_min av c))
                             | None => false end) valid) 0) c0
      end = Some c2 -> ctr T c c2).
    { intros valid H0. destruct (filter _ valid) as [|f r]; [discriminate|].
      eapply bind_ctr; [exact H0| |].
      - intros d E. eapply gset_min_ctr; [apply el_idx|exact W|exact E].
      - intros d Wd E. eapply gset_max_ctr; [apply el_idx|exact Wd|exact E]. }
    destruct (el_valid (length arr) idx c) as [|i [|i2 r]]; [exact (Multi [] H)| |exact (Multi (i :: i2 :: r) H)].
    destruct (el_get arr i) as [av|] eqn:Eg; [|apply some_ctr; assumption].
    destruct (el_meet av vl c) as [nmn nmx]. destruct (nmx <? nmn); [discriminate|].
    pose proof (el_av i av Eg) as Hav.
    eapply bind_ctr; [exact H| |].
    - intros d E. eapply gset_min_ctr; [exact Hav|exact W|exact E].
    - intros d Wd E. eapply gset_max_ctr; [exact Hav|exact Wd|exact E].
  Qed.

  Lemma el_from_index_ctr : forall c c2, wf_store (fst c) -> el_from_index arr idx vl c = Some c2 -> ctr T c c2.
  Proof.
    intros c c2 W H. unfold el_from_index in H. cbv beta zeta in H.
    assert (Multi : forall valid,
      match el_possible arr valid (fst c) None with
      | Some (pmn, pmx) => do c0 <- gset_min vl pmn c; gset_max vl pmx c0
      | None => Some c
      end = Some c2 -> ctr T c c2).
    { intros valid H0. destruct (el_possible arr valid (fst c) None) as [[pmn pmx]|]; [|apply some_ctr; assumption].
      eapply bind_ctr; [exact H0| |].
      - intros d E. eapply gset_min_ctr; [apply el_vl|exact W|exact E].
      - intros d Wd E. eapply gset_max_ctr; [apply el_vl|exact Wd|exact E]. }
    destruct (el_valid (length arr) idx c) as [|i [|i2 r]]; [discriminate| |exact (Multi (i :: i2 :: r) H)].
    destruct (el_get arr i) as [av|] eqn:Eg; [|apply some_ctr; assumption].
    destruct (el_meet av vl c) as [nmn nmx]. destruct (nmx <? nmn); [discriminate|].
    pose proof (el_av i av Eg) as Hav.
    eapply bind_ctr; [exact H| |].
    { intros d E. eapply gset_min_ctr; [apply el_vl|exact W|exact E]. }
    intros d1 W1 H1. eapply bind_ctr; [exact H1| |].
    { intros d E. eapply gset_max_ctr; [apply el_vl|exact W1|exact E]. }
    intros d2 W2 H2. eapply bind_ctr; [exact H2| |].
    { intros d E. eapply gset_min_ctr; [exact Hav|exact W2|exact E]. }
    intros d3 W3 H3. eapply gset_max_ctr; [exact Hav|exact W3|exact H3].
  Qed.

  Lemma prune_element_ctr : forall c c2, wf_store (fst c) -> prune_element arr idx vl c = Some c2 -> ctr T c c2.
  Proof.
    intros c c2 W H. unfold prune_element in H. cbv beta zeta in H.
    destruct (_ || _); [discriminate|].
    eapply bind_ctr; [exact H| |].
    { intros d E. destruct (_ <? 0); [eapply cset_min_ctr; [apply el_idx|exact W|exact E]|apply some_ctr; assumption]. }
    intros d1 W1 H1. eapply bind_ctr; [exact H1| |].
    { intros d E. cbv beta in E.
      destruct (_ <=? _); [eapply cset_max_ctr; [apply el_idx|exact W1|exact E]|apply some_ctr; assumption]. }
    intros d2 W2 H2. cbv beta in H2.
    destruct (cvar_min idx d2 =? cvar_max idx d2).
    - destruct (el_get arr (cvar_min idx d2)) as [av|] eqn:Eg; [|apply some_ctr; assumption].
      destruct (el_meet av vl d2) as [nmn nmx]. destruct (nmx <? nmn); [discriminate|].
      pose proof (el_av _ av Eg) as Hav.
      eapply bind_ctr; [exact H2| |].
      { intros d E. eapply gset_min_ctr; [exact Hav|exact W2|exact E]. }
      intros d3 W3 H3. eapply bind_ctr; [exact H3| |].
      { intros d E. eapply gset_max_ctr; [exact Hav|exact W3|exact E]. }
      intros d4 W4 H4. eapply bind_ctr; [exact H4| |].
      { intros d E. eapply gset_min_ctr; [apply el_vl|exact W4|exact E]. }
      intros d5 W5 H5. eapply gset_max_ctr; [apply el_vl|exact W5|exact H5].
    - eapply bind_ctr; [exact H2| |].
      { intros d E. eapply el_from_value_ctr; [exact W2|exact E]. }
      intros d3 W3 H3. eapply el_from_index_ctr; [exact W3|exact H3].
  Qed.

  (* ---- soundness ---- *)
  Lemma el_valid_sorted : forall c, sorted (el_valid (length arr) idx c).
  Proof. intros c. unfold el_valid. destruct (_ <=? _); [apply zr_sorted|exact I]. Qed.

  Section Snd.
    Variables (a : asg) (n : nat) (s0 : store) (av : nat).
    Hypotheses (Hs : forall x, In x T -> (x < n)%nat)
               (J0 : 0 <= a idx) (Jg : el_get arr (a idx) = Some av) (Jv : a av = a vl).

    Lemma Hidx : (idx < n)%nat. Proof. apply Hs, el_idx. Qed.
    Lemma Hvl : (vl < n)%nat. Proof. apply Hs, el_vl. Qed.
    Lemma Hav : (av < n)%nat. Proof. apply Hs. eapply el_av. exact Jg. Qed.

    Lemma Jlt : a idx <= Z.of_nat (length arr) - 1.
    Proof.
      unfold el_get in Jg. assert (N : nth_error arr (Z.to_nat (a idx)) <> None) by congruence.
      apply nth_error_Some in N. lia.
    Qed.

    Lemma meet_ok : forall c nmn nmx, oks a n s0 c -> el_meet av vl c = (nmn, nmx) -> nmn <= a av <= nmx.
    Proof.
      intros c nmn nmx O E. unfold el_meet in E. inversion E; subst; clear E.
      pose proof (oks_bounds a n s0 c av O Hav). pose proof (oks_bounds a n s0 c vl O Hvl). lia.
    Qed.

    Lemma valid_in : forall c, oks a n s0 c -> In (a idx) (el_valid (length arr) idx c).
    Proof.
      intros c O. unfold el_valid. pose proof (oks_bounds a n s0 c idx O Hidx). pose proof Jlt.
      destruct (Z.leb_spec (Z.max (cvar_min idx c) 0) (Z.min (cvar_max idx c) (Z.of_nat (length arr) - 1))) as [L|L];
        [apply zr_In|]; lia.
    Qed.

    Lemma meet2_snd : forall x1 x2 (Hx1 : (x1 < n)%nat) (Hx2 : (x2 < n)%nat) nmn nmx c,
      nmn <= a x1 <= nmx -> oks a n s0 c ->
      exists c2, (do c0 <- gset_min x1 nmn c; gset_max x1 nmx c0) = Some c2 /\ oks a n s0 c2.
    Proof.
      intros x1 x2 Hx1 Hx2 nmn nmx c B O. apply bind_oks; [apply gset_min_oks; [exact O|exact Hx1|lia]|].
      intros c1 O1. apply gset_max_oks; [exact O1|exact Hx1|lia].
    Qed.

    Lemma el_from_value_snd : forall c, oks a n s0 c ->
      exists c2, el_from_value arr idx vl c = Some c2 /\ oks a n s0 c2.
    Proof.
      intros c O. unfold el_from_value. cbv beta zeta.
      pose proof (valid_in c O) as Hin. pose proof (el_valid_sorted c) as Hso.
      assert (Multi : forall valid, In (a idx) valid -> sorted valid ->
        exists c2,
        match filter (fun i => match el_get arr i with
                               | Some av => negb ((cvar_max av c <? cvar_min vl c) || (cvar_max vl c <? cvar_min av c))
                               | None => false end) valid with
        | [] => None
        | f :: _ => do c0 <- gset_min idx f c;
                    gset_max idx (last (filter (fun i => match el_get arr i with
                               | Some av => negb ((cvar_max av c <? cvar_min vl c) || (cvar_max vl c <? cvar_min av c))
                               | None => false end) valid) 0) c0
        end = Some c2 /\ oks a n s0 c2).
      { intros valid Hv Hsv.
        set (P := fun i => match el_get arr i with
                           | Some av => negb ((cvar_max av c <? cvar_min vl c) || (cvar_max vl c <? cvar_min av c))
                           | None => false end).
        assert (Hf : In (a idx) (filter P valid)).
        { apply filter_In. split; [exact Hv|]. unfold P. rewrite Jg.
          pose proof (oks_bounds a n s0 c av O Hav). pose proof (oks_bounds a n s0 c vl O Hvl).
          destruct (Z.ltb_spec (cvar_max av c) (cvar_min vl c)); [lia|].
          destruct (Z.ltb_spec (cvar_max vl c) (cvar_min av c)); [lia|]. reflexivity. }
        pose proof (filter_sorted P valid Hsv) as Hsf.
        pose proof (dmin_least _ _ Hsf Hf) as Lo. pose proof (dmax_greatest _ _ Hsf Hf) as Hi.
        destruct (filter P valid) as [|f r] eqn:Ef; [destruct Hf|].
        change (last (f :: r) 0) with (dmax (f :: r)). cbn [dmin hd] in Lo.
        apply bind_oks; [apply gset_min_oks; [exact O|exact Hidx|exact Lo]|].
        intros c1 O1. apply gset_max_oks; [exact O1|exact Hidx|exact Hi]. }
      destruct (el_valid (length arr) idx c) as [|i [|i2 r]] eqn:Ev; [destruct Hin| |exact (Multi _ Hin Hso)].
      destruct Hin as [->|[]]. rewrite Jg.
      destruct (el_meet av vl c) as [nmn nmx] eqn:Em. pose proof (meet_ok c nmn nmx O Em) as B.
      destruct (Z.ltb_spec nmx nmn); [lia|]. exact (meet2_snd av av Hav Hav nmn nmx c B O).
    Qed.

    Lemma el_from_index_snd : forall c, oks a n s0 c ->
      exists c2, el_from_index arr idx vl c = Some c2 /\ oks a n s0 c2.
    Proof.
      intros c O. unfold el_from_index. cbv beta zeta.
      pose proof (valid_in c O) as Hin.
      assert (Multi : forall valid, In (a idx) valid ->
        exists c2,
        match el_possible arr valid (fst c) None with
        | Some (pmn, pmx) => do c0 <- gset_min vl pmn c; gset_max vl pmx c0
        | None => Some c
        end = Some c2 /\ oks a n s0 c2).
      { intros valid Hv. pose proof (el_possible_covers arr (fst c) av (a idx) valid None Hv Jg) as Cv.
        destruct (el_possible arr valid (fst c) None) as [[pmn pmx]|]; [|destruct Cv]. cbn [covers] in Cv.
        pose proof (oks_bounds a n s0 c av O Hav) as Ba. unfold cvar_min, cvar_max in Ba.
        assert (B : pmn <= a vl <= pmx) by lia.
        exact (meet2_snd vl vl Hvl Hvl pmn pmx c B O). }
      destruct (el_valid (length arr) idx c) as [|i [|i2 r]] eqn:Ev; [destruct Hin| |exact (Multi _ Hin)].
      destruct Hin as [->|[]]. rewrite Jg.
      destruct (el_meet av vl c) as [nmn nmx] eqn:Em. pose proof (meet_ok c nmn nmx O Em) as B.
      destruct (Z.ltb_spec nmx nmn); [lia|].
      apply bind_oks; [apply gset_min_oks; [exact O|exact Hvl|lia]|]. intros c1 O1.
      apply bind_oks; [apply gset_max_oks; [exact O1|exact Hvl|lia]|]. intros c2 O2.
      apply bind_oks; [apply gset_min_oks; [exact O2|exact Hav|lia]|]. intros c3 O3.
      apply gset_max_oks; [exact O3|exact Hav|lia].
    Qed.
  End Snd.

  Lemma prune_element_snd : forall a n c, (forall x, In x T -> (x < n)%nat) -> okc a n c ->
    sat (mk_element arr idx vl) a = true -> exists c2, prune_element arr idx vl c = Some c2 /\ okc a n c2.
  Proof.
    intros a n c Hs O Hsat. cbn [sat mk_element] in Hsat. apply andb_true_iff in Hsat. destruct Hsat as [J0 J1].
    apply Z.leb_le in J0.
    destruct (nth_error arr (Z.to_nat (a idx))) as [av|] eqn:Jg; [|discriminate]. apply Z.eqb_eq in J1.
    change (nth_error arr (Z.to_nat (a idx))) with (el_get arr (a idx)) in Jg.
    pose proof (Jlt a av Jg) as Jl. pose proof (Hidx n Hs) as Hi.
    set (s0 := fst c). pose proof (oks_init a n c O) as O0. fold s0 in O0.
    pose proof (oks_bounds a n s0 c idx O0 Hi) as Bi.
    unfold prune_element. cbv beta zeta.
    destruct (Z.ltb_spec (cvar_max idx c) 0) as [L|L]; [lia|].
    destruct (Z.leb_spec (Z.of_nat (length arr)) (cvar_min idx c)) as [L2|L2]; [lia|]. cbn [orb].
    apply (okc_of_oks a n s0). apply bind_oks.
    { destruct (_ <? 0); [apply cset_min_oks; [exact O0|exact Hi|exact J0]|apply oks_ret; exact O0]. }
    intros c1 O1. apply bind_oks.
    { destruct (_ <=? _); [apply cset_max_oks; [exact O1|exact Hi|exact Jl]|apply oks_ret; exact O1]. }
    intros c2 O2. pose proof (oks_bounds a n s0 c2 idx O2 Hi) as B2.
    destruct (Z.eqb_spec (cvar_min idx c2) (cvar_max idx c2)) as [E|E].
    - assert (Ei : cvar_min idx c2 = a idx) by lia. rewrite Ei, Jg.
      destruct (el_meet av vl c2) as [nmn nmx] eqn:Em.
      pose proof (meet_ok a n s0 av Hs Jg J1 c2 nmn nmx O2 Em) as B.
      pose proof (Hav a n av Hs Jg) as Ha. pose proof (Hvl n Hs) as Hv.
      destruct (Z.ltb_spec nmx nmn); [lia|].
      apply bind_oks; [apply gset_min_oks; [exact O2|exact Ha|lia]|]. intros d1 P1.
      apply bind_oks; [apply gset_max_oks; [exact P1|exact Ha|lia]|]. intros d2 P2.
      apply bind_oks; [apply gset_min_oks; [exact P2|exact Hv|lia]|]. intros d3 P3.
      apply gset_max_oks; [exact P3|exact Hv|lia].
    - apply bind_oks; [apply (el_from_value_snd a n s0 av Hs J0 Jg J1); exact O2|].
      intros d1 P1. apply (el_from_index_snd a n s0 av Hs J0 Jg J1); exact P1.
  Qed.

  (* ---- checking ---- *)
  Lemma prune_element_chk : forall s ev a, inst a s -> (forall v, In v T -> dfixed (sget s v) = true) ->
    prune_element arr idx vl (s, ev) <> None -> sat (mk_element arr idx vl) a = true.
  Proof.
    intros s ev a Hi Hf H. unfold prune_element in H. cbv beta zeta in H.
    destruct (fixed_cvar a s ev idx Hi (Hf idx el_idx)) as [Ei1 Ei2].
    destruct (fixed_cvar a s ev vl Hi (Hf vl el_vl)) as [Ev1 Ev2].
    rewrite Ei1, Ei2 in H.
    destruct (Z.ltb_spec (a idx) 0) as [L0|L0]; [exfalso; apply H; reflexivity|].
    destruct (Z.leb_spec (Z.of_nat (length arr)) (a idx)) as [L1|L1]; [exfalso; apply H; reflexivity|].
    cbn [orb obind] in H. rewrite Ei2 in H.
    destruct (Z.leb_spec (Z.of_nat (length arr)) (a idx)) as [L1'|_]; [lia|]. cbn [obind] in H.
    rewrite Ei1, Ei2, Z.eqb_refl in H.
    destruct (el_get arr (a idx)) as [av|] eqn:Eg.
    - destruct (fixed_cvar a s ev av Hi (Hf av (el_av _ av Eg))) as [Ea1 Ea2].
      unfold el_meet in H. rewrite Ea1, Ea2, Ev1, Ev2 in H.
      destruct (Z.ltb_spec (Z.min (a av) (a vl)) (Z.max (a av) (a vl))) as [L2|L2]; [exfalso; apply H; reflexivity|].
      cbn [sat mk_element]. unfold el_get in Eg. rewrite Eg. apply andb_true_iff.
      rewrite Z.leb_le, Z.eqb_eq. lia.
    - exfalso. unfold el_get in Eg. apply nth_error_None in Eg. lia.
  Qed.

  (* ---- frame ---- *)
  Lemma el_valid_frame : forall c1 c2, agr T c1 c2 -> el_valid (length arr) idx c1 = el_valid (length arr) idx c2.
  Proof.
    intros c1 c2 Ha. unfold el_valid.
    rewrite (cvar_min_frame idx T c1 c2 el_idx Ha), (cvar_max_frame idx T c1 c2 el_idx Ha). reflexivity.
  Qed.

  Lemma el_meet_frame : forall av c1 c2, In av T -> agr T c1 c2 -> el_meet av vl c1 = el_meet av vl c2.
  Proof.
    intros av c1 c2 Hav Ha. unfold el_meet.
    rewrite (cvar_min_frame av T c1 c2 Hav Ha), (cvar_max_frame av T c1 c2 Hav Ha),
            (cvar_min_frame vl T c1 c2 el_vl Ha), (cvar_max_frame vl T c1 c2 el_vl Ha). reflexivity.
  Qed.

  Lemma el_from_value_frm : forall c1 c2, agr T c1 c2 ->
    orel (agr T) (el_from_value arr idx vl c1) (el_from_value arr idx vl c2).
  Proof.
    intros c1 c2 Ha. unfold el_from_value. cbv beta zeta.
    assert (Ef : forall valid,
      filter (fun i => match el_get arr i with
                       | Some av => negb ((cvar_max av c1 <? cvar_min vl c1) || (cvar_max vl c1 <? cvar_min av c1))
                       | None => false end) valid =
      filter (fun i => match el_get arr i with
                       | Some av => negb ((cvar_max av c2 <? cvar_min vl c2) || (cvar_max vl c2 <? cvar_min av c2))
                       | None => false end) valid).
    { intros valid. apply filter_ext_in'. intros i _. destruct (el_get arr i) as [av|] eqn:Eg; [|reflexivity].
      pose proof (el_av i av Eg) as Hav.
      rewrite (cvar_min_frame av T c1 c2 Hav Ha), (cvar_max_frame av T c1 c2 Hav Ha),
              (cvar_min_frame vl T c1 c2 el_vl Ha), (cvar_max_frame vl T c1 c2 el_vl Ha). reflexivity. }
    rewrite (el_valid_frame c1 c2 Ha).
    destruct (el_valid (length arr) idx c2) as [|i [|i2 r]].
    - cbn [filter]. exact I.
    - destruct (el_get arr i) as [av|] eqn:Eg; [|exact Ha]. pose proof (el_av i av Eg) as Hav.
      rewrite (el_meet_frame av c1 c2 Hav Ha). destruct (el_meet av vl c2) as [nmn nmx].
      destruct (nmx <? nmn); [exact I|].
      apply bind_frm; [apply gset_min_frm; assumption|]. intros d1 d2 Hd. apply gset_max_frm; assumption.
    - rewrite !Ef. destruct (filter _ (i :: i2 :: r)) as [|f r']; [exact I|].
      apply bind_frm; [apply gset_min_frm; [apply el_idx|exact Ha]|].
      intros d1 d2 Hd. apply gset_max_frm; [apply el_idx|exact Hd].
  Qed.

  Lemma el_from_index_frm : forall c1 c2, agr T c1 c2 ->
    orel (agr T) (el_from_index arr idx vl c1) (el_from_index arr idx vl c2).
  Proof.
    intros c1 c2 Ha. unfold el_from_index. cbv beta zeta.
    rewrite (el_valid_frame c1 c2 Ha).
    destruct (el_valid (length arr) idx c2) as [|i [|i2 r]]; [exact I| |].
    - destruct (el_get arr i) as [av|] eqn:Eg; [|exact Ha]. pose proof (el_av i av Eg) as Hav.
      rewrite (el_meet_frame av c1 c2 Hav Ha). destruct (el_meet av vl c2) as [nmn nmx].
      destruct (nmx <? nmn); [exact I|].
      apply bind_frm; [apply gset_min_frm; [apply el_vl|exact Ha]|]. intros d1 d2 Hd.
      apply bind_frm; [apply gset_max_frm; [apply el_vl|exact Hd]|]. intros e1 e2 He.
      apply bind_frm; [apply gset_min_frm; [exact Hav|exact He]|]. intros g1 g2 Hg.
      apply gset_max_frm; [exact Hav|exact Hg].
    - rewrite (el_possible_frame T arr (fst c1) (fst c2) (i :: i2 :: r) None el_arr (proj1 (proj2 Ha))).
      destruct (el_possible arr (i :: i2 :: r) (fst c2) None) as [[pmn pmx]|]; [|exact Ha].
      apply bind_frm; [apply gset_min_frm; [apply el_vl|exact Ha]|]. intros d1 d2 Hd.
      apply gset_max_frm; [apply el_vl|exact Hd].
  Qed.

  Lemma prune_element_frm : forall c1 c2, agr T c1 c2 ->
    orel (agr T) (prune_element arr idx vl c1) (prune_element arr idx vl c2).
  Proof.
    intros c1 c2 Ha. unfold prune_element. cbv beta zeta.
    rewrite (cvar_min_frame idx T c1 c2 el_idx Ha), (cvar_max_frame idx T c1 c2 el_idx Ha).
    destruct (_ || _); [exact I|].
    apply bind_frm; [destruct (_ <? 0); [apply cset_min_frame; [apply el_idx|exact Ha]|exact Ha]|].
    intros d1 d2 Hd. rewrite (cvar_max_frame idx T d1 d2 el_idx Hd).
    apply bind_frm; [destruct (_ <=? _); [apply cset_max_frame; [apply el_idx|exact Hd]|exact Hd]|].
    intros e1 e2 He. rewrite (cvar_min_frame idx T e1 e2 el_idx He), (cvar_max_frame idx T e1 e2 el_idx He).
    destruct (_ =? _).
    - destruct (el_get arr (cvar_min idx e2)) as [av|] eqn:Eg; [|exact He]. pose proof (el_av _ av Eg) as Hav.
      rewrite (el_meet_frame av e1 e2 Hav He). destruct (el_meet av vl e2) as [nmn nmx].
      destruct (nmx <? nmn); [exact I|].
      apply bind_frm; [apply gset_min_frm; [exact Hav|exact He]|]. intros g1 g2 Hg.
      apply bind_frm; [apply gset_max_frm; [exact Hav|exact Hg]|]. intros h1 h2 Hh.
      apply bind_frm; [apply gset_min_frm; [apply el_vl|exact Hh]|]. intros k1 k2 Hk.
      apply gset_max_frm; [apply el_vl|exact Hk].
    - apply bind_frm; [apply el_from_value_frm; exact He|]. intros g1 g2 Hg. apply el_from_index_frm; exact Hg.
  Qed.

  Lemma mk_element_good_T : good (mk_element arr idx vl).
  Proof.
    split; [|split; [|split]].
    - apply contracting_of_ctr. intros c c' W H. exact (prune_element_ctr c c' W H).
    - apply sound_of_okc. intros a n c Hsc O Hs. exact (prune_element_snd a n c Hsc O Hs).
    - intros s ev a W Hi Hf H. exact (prune_element_chk s ev a Hi Hf H).
    - apply frame_of_agr.
      + intros c1 c2 Ha. exact (prune_element_frm c1 c2 Ha).
      + intros a1 a2 H. cbn [sat mk_element trig] in *. fold T in H.
        rewrite (H idx el_idx), (H vl el_vl).
        destruct (nth_error arr (Z.to_nat (a2 idx))) as [x|] eqn:E; [|reflexivity].
        rewrite (H x (el_arr x (nth_error_In _ _ E))). reflexivity.
  Qed.
End Element.

Lemma mk_element_good : forall arr idx vl, good (mk_element arr idx vl).
Proof. intros. apply mk_element_good_T. Qed.

(* ------------------------------------------------------------------------------------------ *)
(* Table: the fuel of tab_loop is never exhausted -- with any fuel above size_sum the result is the
   same, i.e. prune_table is the unbounded `loop { ... }` of table.rs *)

Lemma dom_len_le : forall d' d : dom, sorted d' -> sorted d -> (forall y, In y d' -> In y d) ->
  (length d' <= length d)%nat /\ (d' <> d -> (length d' < length d)%nat).
Proof.
  intros d' d S' S HI.
  pose proof (NoDup_incl_length (sorted_NoDup d' S') HI) as L. split; [exact L|].
  intros N. destruct (Nat.eq_dec (length d') (length d)) as [E|E]; [|lia].
  exfalso. apply N. apply sorted_ext; [exact S'|exact S|]. intros y. split; [apply HI|].
  apply (NoDup_length_incl (sorted_NoDup d' S')); [lia|exact HI].
Qed.

Lemma sub_dom_facts : forall s' s x, wf_store s' -> wf_store s -> sub_store s' s ->
  sorted (sget s' x) /\ sorted (sget s x) /\ (forall y, In y (sget s' x) -> In y (sget s x)).
Proof.
  intros s' s x W' W [HL HS]. destruct (Nat.lt_ge_cases x (length s)) as [L|L].
  - split; [apply W'; lia|]. split; [apply W; exact L|]. apply HS.
  - rewrite (sget_oob s') by lia. rewrite (sget_oob s) by lia. split; [exact I|]. split; [exact I|]. intros y [].
Qed.

Lemma size_sum_le : forall xs s' s, wf_store s' -> wf_store s -> sub_store s' s ->
  (size_sum xs s' <= size_sum xs s)%nat /\
  ((exists x, In x xs /\ sget s' x <> sget s x) -> (size_sum xs s' < size_sum xs s)%nat).
Proof.
  intros xs s' s W' W S. unfold size_sum. induction xs as [|x r [IH1 IH2]]; cbn [fold_right].
  - split; [lia|]. intros (x & [] & _).
  - destruct (sub_dom_facts s' s x W' W S) as (S1 & S2 & HI).
    destruct (dom_len_le _ _ S1 S2 HI) as [L1 L2]. split; [lia|].
    intros (z & [<-|Hz] & N); [specialize (L2 N); lia|].
    assert (size_sum r s' < size_sum r s)%nat by (apply IH2; exists z; split; assumption).
    unfold size_sum in *. lia.
Qed.

(* a domain that is back to its original after two shrinking steps never moved *)
Lemma squeeze : forall s2 s1 s0 x, wf_store s2 -> wf_store s1 -> wf_store s0 ->
  sub_store s2 s1 -> sub_store s1 s0 -> sget s2 x = sget s0 x -> sget s1 x = sget s0 x.
Proof.
  intros s2 s1 s0 x W2 W1 W0 S21 S10 E.
  destruct (sub_dom_facts s2 s1 x W2 W1 S21) as (_ & So1 & I21).
  destruct (sub_dom_facts s1 s0 x W1 W0 S10) as (_ & So0 & I10).
  apply sorted_ext; [exact So1|exact So0|]. intros y. split; [apply I10|]. intros Hy. apply I21. rewrite E. exact Hy.
Qed.

Section TableFuel.
  Variables (xs : list nat) (tuples : list (list Z)).

  Lemma tab_pass_changed : forall rest i ch c ch' c2, wf_store (fst c) ->
    tab_pass xs tuples rest i ch c = Some (ch', c2) -> ch' = true ->
    ch = true \/ exists x, In x rest /\ sget (fst c2) x <> sget (fst c) x.
  Proof.
    induction rest as [|x r IH]; intros i ch c ch' c2 W H Hc; cbn [tab_pass] in H.
    - inversion H; subst. left. reflexivity.
    - destruct (tab_narrow xs tuples i x c) as [c1|] eqn:E; [|discriminate]. cbn [obind] in H.
      pose proof (tab_narrow_ctr xs tuples (x :: r) i x c c1 (or_introl eq_refl) W E) as C1.
      pose proof (ctr_wf _ _ _ C1) as W1.
      pose proof (tab_pass_ctr xs tuples (x :: r) r (S i) _ c1 ch' c2 (fun z Hz => or_intror Hz) W1 H) as C2.
      pose proof (ctr_wf _ _ _ C2) as W2.
      destruct C1 as (S1 & _). destruct C2 as (S2 & _).
      destruct (IH _ _ _ _ _ W1 H Hc) as [Hch|(z & Hz & N)].
      + apply orb_true_iff in Hch. destruct Hch as [Hch|Hch]; [left; exact Hch|].
        right. exists x. split; [left; reflexivity|]. intros Eq.
        pose proof (squeeze _ _ _ x W2 W1 W S2 S1 Eq) as E1.
        unfold cvar_min, cvar_max in Hch. rewrite E1, !Z.eqb_refl in Hch. discriminate.
      + right. exists z. split; [right; exact Hz|]. intros Eq. apply N.
        rewrite Eq. symmetry. exact (squeeze _ _ _ z W2 W1 W S2 S1 Eq).
  Qed.

  Lemma tab_loop_fuel : forall f1 f2 c, wf_store (fst c) ->
    (size_sum xs (fst c) < f1)%nat -> (size_sum xs (fst c) < f2)%nat ->
    tab_loop f1 xs tuples c = tab_loop f2 xs tuples c.
  Proof.
    induction f1 as [|f1 IH]; intros f2 c W L1 L2; [lia|]. destruct f2 as [|f2]; [lia|]. cbn [tab_loop].
    destruct (tab_pass xs tuples xs 0 false c) as [[ch c1]|] eqn:E; [|reflexivity]. cbn [obind].
    destruct ch; [|reflexivity]. destruct (has_supp xs tuples (fst c1)); [|reflexivity].
    pose proof (tab_pass_ctr xs tuples xs xs 0%nat false c true c1 (incl_refl _) W E) as C1.
    pose proof (ctr_wf _ _ _ C1) as W1. destruct C1 as (S1 & _).
    destruct (tab_pass_changed xs 0%nat false c true c1 W E eq_refl) as [F|Hx]; [discriminate|].
    destruct (size_sum_le xs (fst c1) (fst c) W1 W S1) as [_ Lt]. specialize (Lt Hx).
    apply IH; [exact W1|lia|lia].
  Qed.

  (* more fuel than prune_table provides changes nothing *)
  Lemma prune_table_fuel : forall extra c, wf_store (fst c) ->
    prune_table xs tuples c =
    (if has_supp xs tuples (fst c) then tab_loop (S (size_sum xs (fst c)) + extra) xs tuples c else None).
  Proof.
    intros extra c W. unfold prune_table. destruct (has_supp xs tuples (fst c)); [|reflexivity].
    apply tab_loop_fuel; [exact W|lia|lia].
  Qed.
End TableFuel.
