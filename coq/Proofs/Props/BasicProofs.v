(* The four local contracts (Model/PropDefs.v) for the propagators of Model/Props/Basic.v:
   add, sub, leq, lt, geq, gt, eq, sum are `good`; the no-op not-equals placeholder is
   contracting, sound and framed but NOT checking (finding D3). *)
Require Import Selen.Model.Prelude Selen.Model.Dom Selen.Model.Views Selen.Model.PropDefs Selen.Model.Props.Basic.
Require Import Selen.Proofs.DomProofs Selen.Proofs.ViewsProofs.

(* ------------------------------------------------------------------------------------------ *)
(* Library: one lemma per contract for "run one setter, then continue" (obind), plus stepping
   tactics that peel one `do c <- setter; ...` at a time.  cset_min v / cset_max v are
   definitionally vset (VVar v) false / true, so every setter is a vset. *)

Lemma uin_var : forall v T, In v T -> uin (VVar v) T.
Proof. intros v T H x E. inversion E; subst. exact H. Qed.

Lemma uscope_var : forall v n, (v < n)%nat -> uscope (VVar v) n.
Proof. intros v n H x E. inversion E; subst. exact H. Qed.

(* contraction *)
Lemma ctr_step : forall T w mx b c (k : ctx -> option ctx) c2,
  view_ok w -> uin w T -> wf_store (fst c) -> obind (vset w mx b c) k = Some c2 ->
  exists c1, ctr T c c1 /\ wf_store (fst c1) /\ k c1 = Some c2.
Proof.
  intros T w mx b c k c2 Hok Hin W H. destruct (vset w mx b c) as [c1|] eqn:E; [|discriminate H].
  cbn [obind] in H. exists c1. pose proof (vset_ctr w mx b T c c1 Hok Hin W E) as C.
  split; [exact C|]. split; [exact (ctr_wf _ _ _ C)|exact H].
Qed.

Ltac solve_ok := first [exact I | assumption | (cbn [view_ok]; first [assumption | tauto])].
Ltac solve_uin := first [assumption | (apply uin_var; assumption)].

Ltac ctr_one T w mx b c k c2 W H :=
  let c1 := fresh "c" in let C1 := fresh "C" in let W1 := fresh "W" in let H1 := fresh "H" in
  destruct (ctr_step T w mx b c k c2 ltac:(solve_ok) ltac:(solve_uin) W H) as (c1 & C1 & W1 & H1);
  apply (ctr_trans T c c1 c2 C1); clear C1; ctr_chain T W1 H1
with ctr_chain T W H :=
  cbv beta zeta in H; unfold vset_min, vset_max in H;
  lazymatch type of H with
  | obind (cset_min ?v ?b ?c) ?k = Some ?c2 => ctr_one T (VVar v) false b c k c2 W H
  | obind (cset_max ?v ?b ?c) ?k = Some ?c2 => ctr_one T (VVar v) true b c k c2 W H
  | obind (vset ?w ?mx ?b ?c) ?k = Some ?c2 => ctr_one T w mx b c k c2 W H
  | cset_min ?v ?b ?c = Some ?c2 =>
      exact (vset_ctr (VVar v) false b T c c2 ltac:(solve_ok) ltac:(solve_uin) W H)
  | cset_max ?v ?b ?c = Some ?c2 =>
      exact (vset_ctr (VVar v) true b T c c2 ltac:(solve_ok) ltac:(solve_uin) W H)
  | vset ?w ?mx ?b ?c = Some ?c2 =>
      exact (vset_ctr w mx b T c c2 ltac:(solve_ok) ltac:(solve_uin) W H)
  | _ => idtac
  end.

(* soundness *)
Lemma snd_step : forall a n w mx b c (k : ctx -> option ctx),
  view_ok w -> uscope w n -> okc a n c -> bnd_ok w mx b a ->
  (forall c1, okc a n c1 -> exists c2, k c1 = Some c2 /\ okc a n c2) ->
  exists c2, obind (vset w mx b c) k = Some c2 /\ okc a n c2.
Proof.
  intros a n w mx b c k Hok Hsc O Hb Hk.
  destruct (vset_ok w mx b a n c Hok Hsc O Hb) as (c1 & E & O1 & _).
  rewrite E. cbn [obind]. apply Hk. exact O1.
Qed.

Lemma snd_last : forall a n w mx b c,
  view_ok w -> uscope w n -> okc a n c -> bnd_ok w mx b a ->
  exists c2, vset w mx b c = Some c2 /\ okc a n c2.
Proof.
  intros a n w mx b c Hok Hsc O Hb.
  destruct (vset_ok w mx b a n c Hok Hsc O Hb) as (c1 & E & O1 & _). exists c1. split; assumption.
Qed.

Ltac solve_scope := first [assumption | (apply uscope_var; assumption)].

(* `bt O` must prove the bound obligation `bnd_ok w mx b a` from O : okc a n c *)
Ltac snd_one a n w mx b c k O bt :=
  let c1 := fresh "c" in let O1 := fresh "O" in
  refine (snd_step a n w mx b c k _ _ O _ _);
  [solve_ok | solve_scope | bt O | intros c1 O1; snd_chain a n O1 bt]
with snd_chain a n O bt :=
  cbv beta zeta; unfold vset_min, vset_max;
  lazymatch goal with
  | |- exists c2, obind (cset_min ?v ?b ?c) ?k = Some c2 /\ _ => snd_one a n (VVar v) false b c k O bt
  | |- exists c2, obind (cset_max ?v ?b ?c) ?k = Some c2 /\ _ => snd_one a n (VVar v) true b c k O bt
  | |- exists c2, obind (vset ?w ?mx ?b ?c) ?k = Some c2 /\ _ => snd_one a n w mx b c k O bt
  | |- exists c2, cset_min ?v ?b ?c = Some c2 /\ _ =>
      refine (snd_last a n (VVar v) false b c _ _ O _); [solve_ok | solve_scope | bt O]
  | |- exists c2, cset_max ?v ?b ?c = Some c2 /\ _ =>
      refine (snd_last a n (VVar v) true b c _ _ O _); [solve_ok | solve_scope | bt O]
  | |- exists c2, vset ?w ?mx ?b ?c = Some c2 /\ _ =>
      refine (snd_last a n w mx b c _ _ O _); [solve_ok | solve_scope | bt O]
  | _ => idtac
  end.

Lemma sound_of_okc : forall p,
  (forall a n c, in_scope p n -> okc a n c -> sat p a = true ->
     exists c2, prune p c = Some c2 /\ okc a n c2) -> sound p.
Proof.
  intros p H s ev a W Hsc Hi Hs.
  destruct (H a (length s) (s, ev) Hsc (conj W (conj Hi eq_refl)) Hs) as ([s' ev'] & E & (_ & Hi' & _)).
  exists s', ev'. split; [exact E|exact Hi'].
Qed.

(* bounds of views / variables under an assignment inside the domains *)
Lemma cbnd_bounds : forall w a n c, view_ok w -> uscope w n -> okc a n c ->
  cmin w c <= vsem w a <= cmax w c.
Proof.
  intros w a n c Hok Hsc (W & Hi & L). unfold cmin, cmax.
  apply vbnd_bounds; [exact Hok|exact W|exact Hi|rewrite L; exact Hsc].
Qed.

Lemma cvar_bounds : forall v a n c, (v < n)%nat -> okc a n c -> cvar_min v c <= a v <= cvar_max v c.
Proof. intros v a n c Hv O. exact (cbnd_bounds (VVar v) a n c I (uscope_var v n Hv) O). Qed.

(* checking *)
Lemma chk_step : forall w mx b a s ev (k : ctx -> option ctx),
  view_ok w -> wf_store s -> inst a s -> (forall v, uvar w = Some v -> dfixed (sget s v) = true) ->
  obind (vset w mx b (s, ev)) k <> None -> bnd_ok w mx b a /\ k (s, ev) <> None.
Proof.
  intros w mx b a s ev k Hok W Hi Hf H. destruct (vset w mx b (s, ev)) as [c1|] eqn:E.
  - destruct (vset_fixed w mx b a s ev c1 Hok W Hi Hf E) as [-> Hb]. split; [exact Hb|exact H].
  - exfalso. apply H. reflexivity.
Qed.

Lemma chk_last : forall w mx b a s ev,
  view_ok w -> wf_store s -> inst a s -> (forall v, uvar w = Some v -> dfixed (sget s v) = true) ->
  vset w mx b (s, ev) <> None -> bnd_ok w mx b a.
Proof.
  intros w mx b a s ev Hok W Hi Hf H. destruct (vset w mx b (s, ev)) as [c1|] eqn:E.
  - destruct (vset_fixed w mx b a s ev c1 Hok W Hi Hf E) as [_ Hb]. exact Hb.
  - exfalso. apply H. reflexivity.
Qed.

Lemma fixed_of_uin : forall w T s, uin w T -> (forall v, In v T -> dfixed (sget s v) = true) ->
  forall v, uvar w = Some v -> dfixed (sget s v) = true.
Proof. intros w T s Hin Hf v Hv. apply Hf, Hin, Hv. Qed.

Lemma cbnd_fixed : forall w T a s ev, inst a s -> uin w T ->
  (forall v, In v T -> dfixed (sget s v) = true) ->
  cmin w (s, ev) = vsem w a /\ cmax w (s, ev) = vsem w a.
Proof.
  intros w T a s ev Hi Hin Hf. unfold cmin, cmax, vmin, vmax. cbn [fst].
  split; apply vbnd_fixed; try exact Hi; apply (fixed_of_uin w T s Hin Hf).
Qed.

(* frame *)
Lemma frm_step : forall T w mx b1 b2 c1 c2 (k1 k2 : ctx -> option ctx),
  uin w T -> agr T c1 c2 -> b1 = b2 ->
  (forall d1 d2, agr T d1 d2 -> orel (agr T) (k1 d1) (k2 d2)) ->
  orel (agr T) (obind (vset w mx b1 c1) k1) (obind (vset w mx b2 c2) k2).
Proof.
  intros T w mx b1 b2 c1 c2 k1 k2 Hin Ha -> Hk.
  apply (obind_orel (agr T) (agr T)); [apply vset_frame; assumption|exact Hk].
Qed.

Lemma frm_last : forall T w mx b1 b2 c1 c2, uin w T -> agr T c1 c2 -> b1 = b2 ->
  orel (agr T) (vset w mx b1 c1) (vset w mx b2 c2).
Proof. intros T w mx b1 b2 c1 c2 Hin Ha ->. apply vset_frame; assumption. Qed.

Lemma cmin_frame : forall w T c1 c2, uin w T -> agr T c1 c2 -> cmin w c1 = cmin w c2.
Proof. intros w T c1 c2 Hin (_ & HA & _). unfold cmin, vmin. apply (vbnd_frame w T); assumption. Qed.
Lemma cmax_frame : forall w T c1 c2, uin w T -> agr T c1 c2 -> cmax w c1 = cmax w c2.
Proof. intros w T c1 c2 Hin (_ & HA & _). unfold cmax, vmax. apply (vbnd_frame w T); assumption. Qed.
Lemma cvar_min_frame : forall v T c1 c2, In v T -> agr T c1 c2 -> cvar_min v c1 = cvar_min v c2.
Proof. intros v T c1 c2 Hin (_ & HA & _). unfold cvar_min. rewrite (HA v Hin). reflexivity. Qed.
Lemma cvar_max_frame : forall v T c1 c2, In v T -> agr T c1 c2 -> cvar_max v c1 = cvar_max v c2.
Proof. intros v T c1 c2 Hin (_ & HA & _). unfold cvar_max. rewrite (HA v Hin). reflexivity. Qed.

(* bound expressions computed from agreeing contexts are equal *)
Ltac frm_bnd T :=
  repeat match goal with
  | Ha : agr T ?c1 ?c2 |- context [cmin ?w ?c1] => rewrite (cmin_frame w T c1 c2 ltac:(solve_uin) Ha)
  | Ha : agr T ?c1 ?c2 |- context [cmax ?w ?c1] => rewrite (cmax_frame w T c1 c2 ltac:(solve_uin) Ha)
  | Ha : agr T ?c1 ?c2 |- context [cvar_min ?v ?c1] => rewrite (cvar_min_frame v T c1 c2 ltac:(assumption) Ha)
  | Ha : agr T ?c1 ?c2 |- context [cvar_max ?v ?c1] => rewrite (cvar_max_frame v T c1 c2 ltac:(assumption) Ha)
  end; reflexivity.

Ltac frm_one T w mx b1 b2 c1 c2 k1 k2 Ha :=
  let d1 := fresh "d" in let d2 := fresh "d" in let Ha1 := fresh "Ha" in
  refine (frm_step T w mx b1 b2 c1 c2 k1 k2 _ Ha _ _);
  [solve_uin | frm_bnd T | intros d1 d2 Ha1; frm_chain T Ha1]
with frm_chain T Ha :=
  cbv beta zeta; unfold vset_min, vset_max;
  lazymatch goal with
  | |- orel _ (obind (cset_min ?v ?b1 ?c1) ?k1) (obind (cset_min ?v ?b2 ?c2) ?k2) =>
      frm_one T (VVar v) false b1 b2 c1 c2 k1 k2 Ha
  | |- orel _ (obind (cset_max ?v ?b1 ?c1) ?k1) (obind (cset_max ?v ?b2 ?c2) ?k2) =>
      frm_one T (VVar v) true b1 b2 c1 c2 k1 k2 Ha
  | |- orel _ (obind (vset ?w ?mx ?b1 ?c1) ?k1) (obind (vset ?w ?mx ?b2 ?c2) ?k2) =>
      frm_one T w mx b1 b2 c1 c2 k1 k2 Ha
  | |- orel _ (cset_min ?v ?b1 ?c1) (cset_min ?v ?b2 ?c2) =>
      refine (frm_last T (VVar v) false b1 b2 c1 c2 _ Ha _); [solve_uin | frm_bnd T]
  | |- orel _ (cset_max ?v ?b1 ?c1) (cset_max ?v ?b2 ?c2) =>
      refine (frm_last T (VVar v) true b1 b2 c1 c2 _ Ha _); [solve_uin | frm_bnd T]
  | |- orel _ (vset ?w ?mx ?b1 ?c1) (vset ?w ?mx ?b2 ?c2) =>
      refine (frm_last T w mx b1 b2 c1 c2 _ Ha _); [solve_uin | frm_bnd T]
  | _ => idtac
  end.

Lemma uin_app_l : forall w T T', uin w T -> uin w (T ++ T').
Proof. intros w T T' H x Hx. apply in_or_app. left. apply H, Hx. Qed.
Lemma uin_app_r : forall w T T', uin w T' -> uin w (T ++ T').
Proof. intros w T T' H x Hx. apply in_or_app. right. apply H, Hx. Qed.

(* ------------------------------------------------------------------------------------------ *)
(* Add (and Sub) *)

Section Add.
  Variables (x y : view) (s : nat) (T : list nat).
  Hypotheses (Hx : view_ok x) (Hy : view_ok y) (Ux : uin x T) (Uy : uin y T) (Us : In s T).

  Lemma prune_add_ctr : forall c c', wf_store (fst c) -> prune_add x y s c = Some c' -> ctr T c c'.
  Proof. intros c c' W H. unfold prune_add in H. ctr_chain T W H. Qed.

  Lemma prune_add_snd : forall a n c, uscope x n -> uscope y n -> (s < n)%nat -> okc a n c ->
    vsem x a + vsem y a = a s -> exists c2, prune_add x y s c = Some c2 /\ okc a n c2.
  Proof.
    intros a n c Sx Sy Ss O Hs. unfold prune_add.
    snd_chain a n O ltac:(fun O =>
      let Bx := fresh in let By := fresh in let Bs := fresh in
      pose proof (cbnd_bounds x a n _ Hx Sx O) as Bx;
      pose proof (cbnd_bounds y a n _ Hy Sy O) as By;
      pose proof (cvar_bounds s a n _ Ss O) as Bs;
      unfold bnd_ok; cbn [vsem]; lia).
  Qed.

  Lemma prune_add_chk : forall s0 ev a, wf_store s0 -> inst a s0 ->
    (forall v, In v T -> dfixed (sget s0 v) = true) ->
    prune_add x y s (s0, ev) <> None -> vsem x a + vsem y a = a s.
  Proof.
    intros s0 ev a W Hi Hf H. unfold prune_add in H.
    pose proof (fixed_of_uin (VVar s) T s0 (uin_var s T Us) Hf) as Fs.
    destruct (chk_step (VVar s) false _ a s0 ev _ I W Hi Fs H) as [B1 H1]. cbv beta in H1.
    destruct (chk_step (VVar s) true _ a s0 ev _ I W Hi Fs H1) as [B2 _].
    destruct (cbnd_fixed x T a s0 ev Hi Ux Hf) as [E1 E2].
    destruct (cbnd_fixed y T a s0 ev Hi Uy Hf) as [E3 E4].
    unfold bnd_ok in B1, B2. cbn [vsem] in B1, B2. lia.
  Qed.

  Lemma prune_add_frm : forall c1 c2, agr T c1 c2 -> orel (agr T) (prune_add x y s c1) (prune_add x y s c2).
  Proof. intros c1 c2 Ha. unfold prune_add. frm_chain T Ha. Qed.
End Add.

Lemma mk_add_good : forall x y s, view_ok x -> view_ok y -> good (mk_add x y s).
Proof.
  intros x y s Hx Hy. set (T := trig (mk_add x y s)).
  assert (Ux : uin x T) by (apply (uin_app_r x [s]), uin_app_l, uin_self).
  assert (Uy : uin y T) by (apply (uin_app_r y [s]), uin_app_r, uin_self).
  assert (Us : In s T) by (left; reflexivity).
  split; [|split; [|split]].
  - apply contracting_of_ctr. intros c c' W H. exact (prune_add_ctr x y s T Hx Hy Ux Uy Us c c' W H).
  - apply sound_of_okc. intros a n c Hsc O Hs. cbn [sat mk_add] in Hs. apply Z.eqb_eq in Hs.
    apply (prune_add_snd x y s Hx Hy a n c); try assumption.
    + intros v Hv. apply Hsc, Ux, Hv.
    + intros v Hv. apply Hsc, Uy, Hv.
    + apply Hsc, Us.
  - intros s0 ev a W Hi Hf H. cbn [sat mk_add]. apply Z.eqb_eq.
    exact (prune_add_chk x y s T Ux Uy Us s0 ev a W Hi Hf H).
  - apply frame_of_agr.
    + intros c1 c2 Ha. exact (prune_add_frm x y s T Ux Uy Us c1 c2 Ha).
    + intros a1 a2 H. cbn [sat mk_add].
      rewrite (vsem_frame x T a1 a2 Ux H), (vsem_frame y T a1 a2 Uy H), (H s Us). reflexivity.
Qed.

Lemma mk_sub_good : forall x y s, view_ok x -> view_ok y -> good (mk_sub x y s).
Proof.
  intros x y s Hx Hy. unfold mk_sub. apply mk_add_good; [exact Hx|].
  apply vtimes_neg_ok; [lia|exact Hy].
Qed.

(* ------------------------------------------------------------------------------------------ *)
(* LessThanOrEquals and the postings derived from it *)

Section Leq.
  Variables (x y : view) (T : list nat).
  Hypotheses (Hx : view_ok x) (Hy : view_ok y) (Ux : uin x T) (Uy : uin y T).

  Lemma prune_leq_ctr : forall c c', wf_store (fst c) -> prune_leq x y c = Some c' -> ctr T c c'.
  Proof. intros c c' W H. unfold prune_leq in H. ctr_chain T W H. Qed.

  Lemma prune_leq_snd : forall a n c, uscope x n -> uscope y n -> okc a n c ->
    vsem x a <= vsem y a -> exists c2, prune_leq x y c = Some c2 /\ okc a n c2.
  Proof.
    intros a n c Sx Sy O Hs. unfold prune_leq.
    snd_chain a n O ltac:(fun O =>
      let Bx := fresh in let By := fresh in
      pose proof (cbnd_bounds x a n _ Hx Sx O) as Bx;
      pose proof (cbnd_bounds y a n _ Hy Sy O) as By;
      unfold bnd_ok; lia).
  Qed.

  Lemma prune_leq_chk : forall s0 ev a, wf_store s0 -> inst a s0 ->
    (forall v, In v T -> dfixed (sget s0 v) = true) ->
    prune_leq x y (s0, ev) <> None -> vsem x a <= vsem y a.
  Proof.
    intros s0 ev a W Hi Hf H. unfold prune_leq, vset_max in H.
    destruct (chk_step x true _ a s0 ev _ Hx W Hi (fixed_of_uin x T s0 Ux Hf) H) as [B1 _].
    destruct (cbnd_fixed y T a s0 ev Hi Uy Hf) as [E1 E2].
    unfold bnd_ok in B1. lia.
  Qed.

  Lemma prune_leq_frm : forall c1 c2, agr T c1 c2 -> orel (agr T) (prune_leq x y c1) (prune_leq x y c2).
  Proof. intros c1 c2 Ha. unfold prune_leq. frm_chain T Ha. Qed.
End Leq.

Lemma mk_leq_good : forall x y, view_ok x -> view_ok y -> good (mk_leq x y).
Proof.
  intros x y Hx Hy. set (T := trig (mk_leq x y)).
  assert (Ux : uin x T) by (apply uin_app_l, uin_self).
  assert (Uy : uin y T) by (apply uin_app_r, uin_self).
  split; [|split; [|split]].
  - apply contracting_of_ctr. intros c c' W H. exact (prune_leq_ctr x y T Hx Hy Ux Uy c c' W H).
  - apply sound_of_okc. intros a n c Hsc O Hs. cbn [sat mk_leq] in Hs. apply Z.leb_le in Hs.
    apply (prune_leq_snd x y Hx Hy a n c); try assumption.
    + intros v Hv. apply Hsc, Ux, Hv.
    + intros v Hv. apply Hsc, Uy, Hv.
  - intros s0 ev a W Hi Hf H. cbn [sat mk_leq]. apply Z.leb_le.
    exact (prune_leq_chk x y T Hx Ux Uy s0 ev a W Hi Hf H).
  - apply frame_of_agr.
    + intros c1 c2 Ha. exact (prune_leq_frm x y T Ux Uy c1 c2 Ha).
    + intros a1 a2 H. cbn [sat mk_leq].
      rewrite (vsem_frame x T a1 a2 Ux H), (vsem_frame y T a1 a2 Uy H). reflexivity.
Qed.

Lemma mk_lt_good : forall x y, view_ok x -> view_ok y -> good (mk_lt x y).
Proof. intros x y Hx Hy. unfold mk_lt. apply mk_leq_good; [exact Hx|exact Hy]. Qed.
Lemma mk_geq_good : forall x y, view_ok x -> view_ok y -> good (mk_geq x y).
Proof. intros x y Hx Hy. unfold mk_geq. apply mk_leq_good; [exact Hy|exact Hx]. Qed.
Lemma mk_gt_good : forall x y, view_ok x -> view_ok y -> good (mk_gt x y).
Proof. intros x y Hx Hy. unfold mk_gt. apply mk_leq_good; [exact Hy|exact Hx]. Qed.

(* ------------------------------------------------------------------------------------------ *)
(* Eq *)

Section Eq.
  Variables (x y : view) (T : list nat).
  Hypotheses (Hx : view_ok x) (Hy : view_ok y) (Ux : uin x T) (Uy : uin y T).

  Lemma prune_eq_ctr : forall c c', wf_store (fst c) -> prune_eq x y c = Some c' -> ctr T c c'.
  Proof. intros c c' W H. unfold prune_eq in H. ctr_chain T W H. Qed.

  Lemma prune_eq_snd : forall a n c, uscope x n -> uscope y n -> okc a n c ->
    vsem x a = vsem y a -> exists c2, prune_eq x y c = Some c2 /\ okc a n c2.
  Proof.
    intros a n c Sx Sy O Hs. unfold prune_eq.
    snd_chain a n O ltac:(fun O =>
      let Bx := fresh in let By := fresh in
      pose proof (cbnd_bounds x a n _ Hx Sx O) as Bx;
      pose proof (cbnd_bounds y a n _ Hy Sy O) as By;
      unfold bnd_ok; lia).
  Qed.

  Lemma prune_eq_chk : forall s0 ev a, wf_store s0 -> inst a s0 ->
    (forall v, In v T -> dfixed (sget s0 v) = true) ->
    prune_eq x y (s0, ev) <> None -> vsem x a = vsem y a.
  Proof.
    intros s0 ev a W Hi Hf H. unfold prune_eq, vset_min, vset_max in H.
    pose proof (fixed_of_uin x T s0 Ux Hf) as Fx.
    destruct (chk_step x false _ a s0 ev _ Hx W Hi Fx H) as [B1 H1]. cbv beta in H1.
    destruct (chk_step x true _ a s0 ev _ Hx W Hi Fx H1) as [B2 _].
    destruct (cbnd_fixed y T a s0 ev Hi Uy Hf) as [E1 E2].
    unfold bnd_ok in B1, B2. lia.
  Qed.

  Lemma prune_eq_frm : forall c1 c2, agr T c1 c2 -> orel (agr T) (prune_eq x y c1) (prune_eq x y c2).
  Proof. intros c1 c2 Ha. unfold prune_eq. frm_chain T Ha. Qed.
End Eq.

Lemma mk_eq_good : forall x y, view_ok x -> view_ok y -> good (mk_eq x y).
Proof.
  intros x y Hx Hy. set (T := trig (mk_eq x y)).
  assert (Ux : uin x T) by (apply uin_app_l, uin_self).
  assert (Uy : uin y T) by (apply uin_app_r, uin_self).
  split; [|split; [|split]].
  - apply contracting_of_ctr. intros c c' W H. exact (prune_eq_ctr x y T Hx Hy Ux Uy c c' W H).
  - apply sound_of_okc. intros a n c Hsc O Hs. cbn [sat mk_eq] in Hs. apply Z.eqb_eq in Hs.
    apply (prune_eq_snd x y Hx Hy a n c); try assumption.
    + intros v Hv. apply Hsc, Ux, Hv.
    + intros v Hv. apply Hsc, Uy, Hv.
  - intros s0 ev a W Hi Hf H. cbn [sat mk_eq]. apply Z.eqb_eq.
    exact (prune_eq_chk x y T Hx Ux Uy s0 ev a W Hi Hf H).
  - apply frame_of_agr.
    + intros c1 c2 Ha. exact (prune_eq_frm x y T Ux Uy c1 c2 Ha).
    + intros a1 a2 H. cbn [sat mk_eq].
      rewrite (vsem_frame x T a1 a2 Ux H), (vsem_frame y T a1 a2 Uy H). reflexivity.
Qed.

(* ------------------------------------------------------------------------------------------ *)
(* NotEquals placeholder: contracting, sound, framed -- but it checks nothing (finding D3) *)

Lemma neq_noop_contracting : forall x y, contracting (mk_neq_noop x y).
Proof.
  intros x y. apply contracting_of_ctr. intros c c' W H. cbn [prune mk_neq_noop] in H.
  inversion H; subst. apply ctr_refl. exact W.
Qed.

Lemma neq_noop_sound : forall x y, sound (mk_neq_noop x y).
Proof. intros x y s ev a W _ Hi _. exists s, ev. split; [reflexivity|exact Hi]. Qed.

Lemma neq_noop_frame : forall x y, frame (mk_neq_noop x y).
Proof.
  intros x y. set (T := trig (mk_neq_noop x y)).
  assert (Ux : uin x T) by (apply uin_app_l, uin_self).
  assert (Uy : uin y T) by (apply uin_app_r, uin_self).
  apply frame_of_agr.
  - intros c1 c2 Ha. cbn [prune mk_neq_noop orel]. exact Ha.
  - intros a1 a2 H. cbn [sat mk_neq_noop].
    rewrite (vsem_frame x T a1 a2 Ux H), (vsem_frame y T a1 a2 Uy H). reflexivity.
Qed.

Lemma neq_noop_checking_refuted : exists x y, ~ checking (mk_neq_noop x y).
Proof.
  exists (VConst 0), (VConst 0). intros H.
  assert (W : wf_store []) by (intros v Hv; cbn in Hv; lia).
  assert (Hi : inst (fun _ => 0) []) by (intros v Hv; cbn in Hv; lia).
  specialize (H [] [] (fun _ => 0) W Hi). cbn in H.
  assert (E : false = true); [|discriminate E].
  apply H; [intros v []|discriminate].
Qed.

(* also with genuine variables: two fixed equal variables pass the no-op *)
Lemma neq_noop_checking_refuted_vars : ~ checking (mk_neq_noop (VVar 0) (VVar 1)).
Proof.
  intros H.
  assert (W : wf_store [[3]; [3]]).
  { intros v Hv. destruct v as [|[|v]]; cbn in Hv; try lia; (split; [discriminate|exact I]). }
  assert (Hi : inst (fun _ => 3) [[3]; [3]]).
  { intros v Hv. destruct v as [|[|v]]; cbn in Hv; try lia; left; reflexivity. }
  specialize (H [[3]; [3]] [] (fun _ => 3) W Hi). cbn in H.
  assert (E : false = true); [|discriminate E].
  apply H; [|discriminate]. intros v [<-|[<-|[]]]; reflexivity.
Qed.

(* ------------------------------------------------------------------------------------------ *)
(* Sum *)

Lemma sum_bnd_pt : forall xs a s0, (forall y, In y xs -> vmin y s0 <= vsem y a <= vmax y s0) ->
  sum_bnd xs false s0 <= sum_sem xs a <= sum_bnd xs true s0.
Proof.
  induction xs as [|x r IH]; intros a s0 H; cbn [sum_bnd sum_sem]; [lia|].
  pose proof (H x (or_introl eq_refl)) as Bx. unfold vmin, vmax in Bx.
  specialize (IH a s0 (fun y Hy => H y (or_intror Hy))). lia.
Qed.

(* the sum of the other terms is bounded by the sum of the other bounds *)
Lemma sum_other : forall xs a s0 x, In x xs ->
  (forall y, In y xs -> vmin y s0 <= vsem y a <= vmax y s0) ->
  sum_sem xs a - vsem x a <= sum_bnd xs true s0 - vmax x s0 /\
  sum_bnd xs false s0 - vmin x s0 <= sum_sem xs a - vsem x a.
Proof.
  induction xs as [|z r IH]; intros a s0 x Hin H; [destruct Hin|]. cbn [sum_bnd sum_sem].
  destruct Hin as [->|Hin].
  - pose proof (sum_bnd_pt r a s0 (fun y Hy => H y (or_intror Hy))). unfold vmin, vmax. lia.
  - pose proof (H z (or_introl eq_refl)) as Bz. unfold vmin, vmax in Bz.
    specialize (IH a s0 x Hin (fun y Hy => H y (or_intror Hy))). lia.
Qed.

Lemma sum_bnd_fixed : forall xs T a s0 mx, inst a s0 -> (forall x, In x xs -> uin x T) ->
  (forall v, In v T -> dfixed (sget s0 v) = true) -> sum_bnd xs mx s0 = sum_sem xs a.
Proof.
  induction xs as [|x r IH]; intros T a s0 mx Hi Hin Hf; cbn [sum_bnd sum_sem]; [reflexivity|].
  rewrite (vbnd_fixed x s0 a mx Hi (fixed_of_uin x T s0 (Hin x (or_introl eq_refl)) Hf)).
  rewrite (IH T a s0 mx Hi (fun y Hy => Hin y (or_intror Hy)) Hf). reflexivity.
Qed.

Lemma sum_bnd_frame : forall xs T s1 s2 mx, (forall x, In x xs -> uin x T) -> agree_on T s1 s2 ->
  sum_bnd xs mx s1 = sum_bnd xs mx s2.
Proof.
  induction xs as [|x r IH]; intros T s1 s2 mx Hin Ha; cbn [sum_bnd]; [reflexivity|].
  rewrite (vbnd_frame x T s1 s2 (Hin x (or_introl eq_refl)) Ha mx).
  rewrite (IH T s1 s2 mx (fun y Hy => Hin y (or_intror Hy)) Ha). reflexivity.
Qed.

Lemma sum_sem_frame : forall xs T a1 a2, (forall x, In x xs -> uin x T) ->
  (forall v, In v T -> a1 v = a2 v) -> sum_sem xs a1 = sum_sem xs a2.
Proof.
  induction xs as [|x r IH]; intros T a1 a2 Hin H; cbn [sum_sem]; [reflexivity|].
  rewrite (vsem_frame x T a1 a2 (Hin x (or_introl eq_refl)) H).
  rewrite (IH T a1 a2 (fun y Hy => Hin y (or_intror Hy)) H). reflexivity.
Qed.

Section Sum.
  Variable (T : list nat).

  Lemma sum_terms_ctr : forall r, Forall view_ok r -> (forall x, In x r -> uin x T) ->
    forall smin smax mn mx c c', wf_store (fst c) ->
    sum_terms r smin smax mn mx c = Some c' -> ctr T c c'.
  Proof.
    induction r as [|x r IH]; intros Hok Hin smin smax mn mx c c' W H.
    - cbn [sum_terms] in H. inversion H; subst. apply ctr_refl; exact W.
    - cbn [sum_terms] in H. inversion Hok as [|? ? Hx Hr]; subst.
      assert (Ux : uin x T) by (apply Hin; left; reflexivity).
      ctr_chain T W H.
      match goal with
      | Hs : sum_terms r _ _ _ _ ?c2 = Some _, W2 : wf_store (fst ?c2) |- _ =>
          exact (IH Hr (fun z Hz => Hin z (or_intror Hz)) _ _ _ _ c2 c' W2 Hs)
      end.
  Qed.

  Lemma prune_sum_ctr : forall xs s, Forall view_ok xs -> (forall x, In x xs -> uin x T) -> In s T ->
    forall c c', wf_store (fst c) -> prune_sum xs s c = Some c' -> ctr T c c'.
  Proof.
    intros xs s Hok Hin Us c c' W H. unfold prune_sum in H.
    ctr_chain T W H.
    match goal with
    | Hs : sum_terms xs _ _ _ _ ?c2 = Some _, W2 : wf_store (fst ?c2) |- _ =>
        exact (sum_terms_ctr xs Hok Hin _ _ _ _ c2 c' W2 Hs)
    end.
  Qed.

  Lemma sum_terms_frm : forall r, (forall x, In x r -> uin x T) ->
    forall smin smax mn mx c1 c2, agr T c1 c2 ->
    orel (agr T) (sum_terms r smin smax mn mx c1) (sum_terms r smin smax mn mx c2).
  Proof.
    induction r as [|x r IH]; intros Hin smin smax mn mx c1 c2 Ha; cbn [sum_terms].
    - cbn [orel]. exact Ha.
    - assert (Ux : uin x T) by (apply Hin; left; reflexivity).
      frm_chain T Ha. apply IH; [intros z Hz; apply Hin; right; exact Hz | assumption].
  Qed.

  Lemma prune_sum_frm : forall xs s, (forall x, In x xs -> uin x T) -> In s T ->
    forall c1 c2, agr T c1 c2 -> orel (agr T) (prune_sum xs s c1) (prune_sum xs s c2).
  Proof.
    intros xs s Hin Us c1 c2 Ha. unfold prune_sum. cbv zeta.
    pose proof Ha as (_ & HA & _).
    rewrite !(sum_bnd_frame xs T (fst c1) (fst c2) _ Hin HA).
    frm_chain T Ha.
    match goal with
    | Hd : agr T ?d1 ?d2 |- orel _ (sum_terms _ _ _ _ _ ?d1) (sum_terms _ _ _ _ _ ?d2) =>
        rewrite (cvar_min_frame s T d1 d2 Us Hd), (cvar_max_frame s T d1 d2 Us Hd);
        apply sum_terms_frm; assumption
    end.
  Qed.
End Sum.

Lemma sum_terms_snd : forall r a n s0 smin smax mn mx,
  Forall view_ok r -> (forall x, In x r -> uscope x n) -> wf_store s0 ->
  (forall x, In x r -> smin - (mx - vmax x s0) <= vsem x a /\ vsem x a <= smax - (mn - vmin x s0)) ->
  forall c, okc a n c -> sub_store (fst c) s0 ->
  exists c', sum_terms r smin smax mn mx c = Some c' /\ okc a n c'.
Proof.
  induction r as [|x r IH]; intros a n s0 smin smax mn mx Hok Hsc W0 Hb c O Sub.
  - exists c. split; [reflexivity|exact O].
  - cbn [sum_terms]. cbv zeta. unfold vset_min, vset_max.
    inversion Hok as [|? ? Hx Hr]; subst.
    assert (Sx : uscope x n) by (apply Hsc; left; reflexivity).
    destruct (Hb x (or_introl eq_refl)) as [B1 B2].
    pose proof O as (Wc & _ & _).
    destruct (vbnd_sub x s0 (fst c) Hx W0 Wc Sub) as [M1 M2].
    destruct (vset_ok x false (smin - (mx - cmax x c)) a n c Hx Sx O) as (c1 & E1 & O1 & S1).
    { unfold bnd_ok, cmax. lia. }
    rewrite E1. cbn [obind].
    destruct (vset_ok x true (smax - (mn - cmin x c)) a n c1 Hx Sx O1) as (c2 & E2 & O2 & S2).
    { unfold bnd_ok, cmin. lia. }
    rewrite E2. cbn [obind].
    apply (IH a n s0); try assumption.
    + intros z Hz. apply Hsc. right. exact Hz.
    + intros z Hz. apply Hb. right. exact Hz.
    + eapply sub_store_trans; [exact S2|]. eapply sub_store_trans; [exact S1|exact Sub].
Qed.

Lemma prune_sum_snd : forall xs s a n c, Forall view_ok xs -> (forall x, In x xs -> uscope x n) ->
  (s < n)%nat -> okc a n c -> sum_sem xs a = a s ->
  exists c2, prune_sum xs s c = Some c2 /\ okc a n c2.
Proof.
  intros xs s a n c Hok Hsc Ss O Hs. unfold prune_sum. cbv zeta.
  assert (Hpt : forall y, In y xs -> vmin y (fst c) <= vsem y a <= vmax y (fst c)).
  { intros y Hy. rewrite Forall_forall in Hok.
    exact (cbnd_bounds y a n c (Hok y Hy) (Hsc y Hy) O). }
  pose proof (sum_bnd_pt xs a (fst c) Hpt) as B.
  pose proof O as (W0 & _ & _).
  destruct (vset_ok (VVar s) false (sum_bnd xs false (fst c)) a n c I (uscope_var s n Ss) O)
    as (c1 & E1 & O1 & S1).
  { unfold bnd_ok. cbn [vsem]. lia. }
  cbn [vset] in E1. rewrite E1. cbn [obind].
  destruct (vset_ok (VVar s) true (sum_bnd xs true (fst c)) a n c1 I (uscope_var s n Ss) O1)
    as (c2 & E2 & O2 & S2).
  { unfold bnd_ok. cbn [vsem]. lia. }
  cbn [vset] in E2. rewrite E2. cbn [obind].
  pose proof (cvar_bounds s a n c2 Ss O2) as Bs.
  apply (sum_terms_snd xs a n (fst c)); try assumption.
  - intros x Hx. destruct (sum_other xs a (fst c) x Hx Hpt) as [P1 P2]. lia.
  - eapply sub_store_trans; [exact S2|exact S1].
Qed.

Lemma prune_sum_chk : forall xs s T s0 ev a, (forall x, In x xs -> uin x T) -> In s T ->
  wf_store s0 -> inst a s0 -> (forall v, In v T -> dfixed (sget s0 v) = true) ->
  prune_sum xs s (s0, ev) <> None -> sum_sem xs a = a s.
Proof.
  intros xs s T s0 ev a Hin Us W Hi Hf H. unfold prune_sum in H. cbv zeta in H. cbn [fst] in H.
  pose proof (fixed_of_uin (VVar s) T s0 (uin_var s T Us) Hf) as Fs.
  destruct (chk_step (VVar s) false _ a s0 ev _ I W Hi Fs H) as [B1 H1]. cbv beta in H1.
  destruct (chk_step (VVar s) true _ a s0 ev _ I W Hi Fs H1) as [B2 _].
  rewrite (sum_bnd_fixed xs T a s0 false Hi Hin Hf) in B1.
  rewrite (sum_bnd_fixed xs T a s0 true Hi Hin Hf) in B2.
  unfold bnd_ok in B1, B2. cbn [vsem] in B1, B2. lia.
Qed.

Lemma uin_flat_map : forall xs x, In x xs -> uin x (flat_map uvarl xs).
Proof.
  intros xs x Hx v Hv. apply in_flat_map. exists x. split; [exact Hx|].
  unfold uvarl. rewrite Hv. left. reflexivity.
Qed.

Lemma mk_sum_good : forall xs s, Forall view_ok xs -> good (mk_sum xs s).
Proof.
  intros xs s Hok. set (T := trig (mk_sum xs s)).
  assert (Hin : forall x, In x xs -> uin x T).
  { intros x Hx. apply uin_app_l, uin_flat_map, Hx. }
  assert (Us : In s T) by (apply in_or_app; right; left; reflexivity).
  split; [|split; [|split]].
  - apply contracting_of_ctr. intros c c' W H. exact (prune_sum_ctr T xs s Hok Hin Us c c' W H).
  - apply sound_of_okc. intros a n c Hsc O Hs. cbn [sat mk_sum] in Hs. apply Z.eqb_eq in Hs.
    apply (prune_sum_snd xs s a n c); try assumption.
    + intros x Hx v Hv. apply Hsc. apply (Hin x Hx v Hv).
    + apply Hsc, Us.
  - intros s0 ev a W Hi Hf H. cbn [sat mk_sum]. apply Z.eqb_eq.
    exact (prune_sum_chk xs s T s0 ev a Hin Us W Hi Hf H).
  - apply frame_of_agr.
    + intros c1 c2 Ha. exact (prune_sum_frm T xs s Hin Us c1 c2 Ha).
    + intros a1 a2 H. cbn [sat mk_sum].
      rewrite (sum_sem_frame xs T a1 a2 Hin H), (H s Us). reflexivity.
Qed.
