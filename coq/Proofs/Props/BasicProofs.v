(* The four local contracts (Model/PropDefs.v) for the propagators of Model/Props/Basic.v:
   add, sub, leq, lt, geq, gt, eq, sum are `good`; the no-op not-equals placeholder is
   contracting, sound and framed but NOT checking (finding D3). *)
Require Import Selen.Model.Prelude Selen.Model.Dom Selen.Model.Views Selen.Model.PropDefs Selen.Model.Props.Basic.
Require Import Selen.Proofs.DomProofs Selen.Proofs.ViewsProofs.

(* ------------------------------------------------------------------------------------------ *)
(* Library: one lemma per contract for "run one setter, then continue" (obind), plus stepping
   tactics that peel one `do c <- setter; ...` at a time.  cset_min v / cset_max v are
   definitionally vset (VVar v) false / true, so every setter is a vset. *)

Lemma uin_var : forall v T, In v T -> uin (VVar v) T.
Proof. intros v T H x E. inversion E; subst. exact H. Qed.

Lemma uscope_var : forall v n, (v < n)%nat -> uscope (VVar v) n.
Proof. intros v n H x E. inversion E; subst. exact H. Qed.

(* contraction *)
Lemma ctr_step : forall T w mx b c (k : ctx -> option ctx) c2,
  view_ok w -> uin w T -> wf_store (fst c) -> obind (vset w mx b c) k = Some c2 ->
  exists c1, ctr T c c1 /\ wf_store (fst c1) /\ k c1 = Some c2.
Proof.
  intros T w mx b c k c2 Hok Hin W H. destruct (vset w mx b c) as [c1|] eqn:E; [|discriminate H].
  cbn [obind] in H. exists c1. pose proof (vset_ctr w mx b T c c1 Hok Hin W E) as C.
  split; [exact C|]. split; [exact (ctr_wf _ _ _ C)|exact H].
Qed.

Ltac solve_ok := first [exact I | assumption | (cbn [view_ok]; first [assumption | tauto])].
Ltac solve_uin := first [assumption | (apply uin_var; assumption)].

Ltac ctr_one T w mx b c k c2 W H :=
  let c1 := fresh "c" in let C1 := fresh "C" in let W1 := fresh "W" in let H1 := fresh "H" in
  destruct (ctr_step T w mx b c k c2 ltac:(solve_ok) ltac:(solve_uin) W H) as (c1 & C1 & W1 & H1);
  apply (ctr_trans T c c1 c2 C1); clear C1; ctr_chain T W1 H1
with ctr_chain T W H :=
  cbv beta zeta in H; unfold vset_min, vset_max in H;
  lazymatch type of H with
  | obind (cset_min ?v ?b ?c) ?k = Some ?c2 => ctr_one T (VVar v) false b c k c2 W H
  | obind (cset_max ?v ?b ?c) ?k = Some ?c2 => ctr_one T (VVar v) true b c k c2 W H
  | obind (vset ?w ?mx ?b ?c) ?k = Some ?c2 => ctr_one T w mx b c k c2 W H
  | cset_min ?v ?b ?c = Some ?c2 =>
      exact (vset_ctr (VVar v) false b T c c2 ltac:(solve_ok) ltac:(solve_uin) W H)
  | cset_max ?v ?b ?c = Some ?c2 =>
      exact (vset_ctr (VVar v) true b T c c2 ltac:(solve_ok) ltac:(solve_uin) W H)
  | vset ?w ?mx ?b ?c = Some ?c2 =>
      exact (vset_ctr w mx b T c c2 ltac:(solve_ok) ltac:(solve_uin) W H)
  | _ => idtac
  end.

(* soundness *)
Lemma snd_step : forall a n w mx b c (k : ctx -> option ctx),
  view_ok w -> uscope w n -> okc a n c -> bnd_ok w mx b a ->
  (forall c1, okc a n c1 -> exists c2, k c1 = Some c2 /\ okc a n c2) ->
  exists c2, obind (vset w mx b c) k = Some c2 /\ okc a n c2.
Proof.
  intros a n w mx b c k Hok Hsc O Hb Hk.
  destruct (vset_ok w mx b a n c Hok Hsc O Hb) as (c1 & E & O1 & _).
  rewrite E. cbn [obind]. apply Hk. exact O1.
Qed.

Lemma snd_last : forall a n w mx b c,
  view_ok w -> uscope w n -> okc a n c -> bnd_ok w mx b a ->
  exists c2, vset w mx b c = Some c2 /\ okc a n c2.
Proof.
  intros a n w mx b c Hok Hsc O Hb.
  destruct (vset_ok w mx b a n c Hok Hsc O Hb) as (c1 & E & O1 & _). exists c1. split; assumption.
Qed.

Ltac solve_scope := first [assumption | (apply uscope_var; assumption)].

(* `bt O` must prove the bound obligation `bnd_ok w mx b a` from O : okc a n c *)
Ltac snd_one a n w mx b c k O bt :=
  let c1 := fresh "c" in let O1 := fresh "O" in
  refine (snd_step a n w mx b c k _ _ O _ _);
  [solve_ok | solve_scope | bt O | intros c1 O1; snd_chain a n O1 bt]
with snd_chain a n O bt :=
  cbv beta zeta; unfold vset_min, vset_max;
  lazymatch goal with
  | |- exists c2, obind (cset_min ?v ?b ?c) ?k = Some c2 /\ _ => snd_one a n (VVar v) false b c k O bt
  | |- exists c2, obind (cset_max ?v ?b ?c) ?k = Some c2 /\ _ => snd_one a n (VVar v) true b c k O bt
  | |- exists c2, obind (vset ?w ?mx ?b ?c) ?k = Some c2 /\ _ => snd_one a n w mx b c k O bt
  | |- exists c2, cset_min ?v ?b ?c = Some c2 /\ _ =>
      refine (snd_last a n (VVar v) false b c _ _ O _); [solve_ok | solve_scope | bt O]
  | |- exists c2, cset_max ?v ?b ?c = Some c2 /\ _ =>
      refine (snd_last a n (VVar v) true b c _ _ O _); [solve_ok | solve_scope | bt O]
  | |- exists c2, vset ?w ?mx ?b ?c = Some c2 /\ _ =>
      refine (snd_last a n w mx b c _ _ O _); [solve_ok | solve_scope | bt O]
  | _ => idtac
  end.

Lemma sound_of_okc : forall p,
  (forall a n c, in_scope p n -> okc a n c -> sat p a = true ->
     exists c2, prune p c = Some c2 /\ okc a n c2) -> sound p.
Proof.
  intros p H s ev a W Hsc Hi Hs.
  destruct (H a (length s) (s, ev) Hsc (conj W (conj Hi eq_refl)) Hs) as ([s' ev'] & E & (_ & Hi' & _)).
  exists s', ev'. split; [exact E|exact Hi'].
Qed.

(* bounds of views / variables under an assignment inside the domains *)
Lemma cbnd_bounds : forall w a n c, view_ok w -> uscope w n -> okc a n c ->
  cmin w c <= vsem w a <= cmax w c.
Proof.
  intros w a n c Hok Hsc (W & Hi & L). unfold cmin, cmax.
  apply vbnd_bounds; [exact Hok|exact W|exact Hi|rewrite L; exact Hsc].
Qed.

Lemma cvar_bounds : forall v a n c, (v < n)%nat -> okc a n c -> cvar_min v c <= a v <= cvar_max v c.
Proof. intros v a n c Hv O. exact (cbnd_bounds (VVar v) a n c I (uscope_var v n Hv) O). Qed.

(* checking *)
Lemma chk_step : forall w mx b a s ev (k : ctx -> option ctx),
  view_ok w -> wf_store s -> inst a s -> (forall v, uvar w = Some v -> dfixed (sget s v) = true) ->
  obind (vset w mx b (s, ev)) k <> None -> bnd_ok w mx b a /\ k (s, ev) <> None.
Proof.
  intros w mx b a s ev k Hok W Hi Hf H. destruct (vset w mx b (s, ev)) as [c1|] eqn:E.
  - destruct (vset_fixed w mx b a s ev c1 Hok W Hi Hf E) as [-> Hb]. split; [exact Hb|exact H].
  - exfalso. apply H. reflexivity.
Qed.

Lemma chk_last : forall w mx b a s ev,
  view_ok w -> wf_store s -> inst a s -> (forall v, uvar w = Some v -> dfixed (sget s v) = true) ->
  vset w mx b (s, ev) <> None -> bnd_ok w mx b a.
Proof.
  intros w mx b a s ev Hok W Hi Hf H. destruct (vset w mx b (s, ev)) as [c1|] eqn:E.
  - destruct (vset_fixed w mx b a s ev c1 Hok W Hi Hf E) as [_ Hb]. exact Hb.
  - exfalso. apply H. reflexivity.
Qed.

Lemma fixed_of_uin : forall w T s, uin w T -> (forall v, In v T -> dfixed (sget s v) = true) ->
  forall v, uvar w = Some v -> dfixed (sget s v) = true.
Proof. intros w T s Hin Hf v Hv. apply Hf, Hin, Hv. Qed.

Lemma cbnd_fixed : forall w T a s ev, inst a s -> uin w T ->
  (forall v, In v T -> dfixed (sget s v) = true) ->
  cmin w (s, ev) = vsem w a /\ cmax w (s, ev) = vsem w a.
Proof.
  intros w T a s ev Hi Hin Hf. unfold cmin, cmax, vmin, vmax. cbn [fst].
  split; apply vbnd_fixed; try exact Hi; apply (fixed_of_uin w T s Hin Hf).
Qed.

(* frame *)
Lemma frm_step : forall T w mx b1 b2 c1 c2 (k1 k2 : ctx -> option ctx),
  uin w T -> agr T c1 c2 -> b1 = b2 ->
  (forall d1 d2, agr T d1 d2 -> orel (agr T) (k1 d1) (k2 d2)) ->
  orel (agr T) (obind (vset w mx b1 c1) k1) (obind (vset w mx b2 c2) k2).
Proof.
  intros T w mx b1 b2 c1 c2 k1 k2 Hin Ha -> Hk.
  apply (obind_orel (agr T) (agr T)); [apply vset_frame; assumption|exact Hk].
Qed.

Lemma frm_last : forall T w mx b1 b2 c1 c2, uin w T -> agr T c1 c2 -> b1 = b2 ->
  orel (agr T) (vset w mx b1 c1) (vset w mx b2 c2).
Proof. intros T w mx b1 b2 c1 c2 Hin Ha ->. apply vset_frame; assumption. Qed.

Lemma cmin_frame : forall w T c1 c2, uin w T -> agr T c1 c2 -> cmin w c1 = cmin w c2.
Proof. intros w T c1 c2 Hin (_ & HA & _). unfold cmin, vmin. apply (vbnd_frame w T); assumption. Qed.
Lemma cmax_frame : forall w T c1 c2, uin w T -> agr T c1 c2 -> cmax w c1 = cmax w c2.
Proof. intros w T c1 c2 Hin (_ & HA & _). unfold cmax, vmax. apply (vbnd_frame w T); assumption. Qed.
Lemma cvar_min_frame : forall v T c1 c2, In v T -> agr T c1 c2 -> cvar_min v c1 = cvar_min v c2.
Proof. intros v T c1 c2 Hin (_ & HA & _). unfold cvar_min. rewrite (HA v Hin). reflexivity. Qed.
Lemma cvar_max_frame : forall v T c1 c2, In v T -> agr T c1 c2 -> cvar_max v c1 = cvar_max v c2.
Proof. intros v T c1 c2 Hin (_ & HA & _). unfold cvar_max. rewrite (HA v Hin). reflexivity. Qed.

(* bound expressions computed from agreeing contexts are equal *)
Ltac frm_bnd T Ha :=
  lazymatch type of Ha with
  | agr _ ?c1 ?c2 =>
    repeat match goal with
    | |- context [cmin ?w c1] => rewrite (cmin_frame w T c1 c2 ltac:(solve_uin) Ha)
    | |- context [cmax ?w c1] => rewrite (cmax_frame w T c1 c2 ltac:(solve_uin) Ha)
    | |- context [cvar_min ?v c1] => rewrite (cvar_min_frame v T c1 c2 ltac:(assumption) Ha)
    | |- context [cvar_max ?v c1] => rewrite (cvar_max_frame v T c1 c2 ltac:(assumption) Ha)
    end; reflexivity
  end.

Ltac frm_one T w mx b1 b2 c1 c2 k1 k2 Ha :=
  let d1 := fresh "d" in let d2 := fresh "d" in let Ha1 := fresh "Ha" in
  refine (frm_step T w mx b1 b2 c1 c2 k1 k2 _ Ha _ _);
  [solve_uin | frm_bnd T Ha | intros d1 d2 Ha1; frm_chain T Ha1]
with frm_chain T Ha :=
  cbv beta zeta; unfold vset_min, vset_max;
  lazymatch goal with
  | |- orel _ (obind (cset_min ?v ?b1 ?c1) ?k1) (obind (cset_min ?v ?b2 ?c2) ?k2) =>
      frm_one T (VVar v) false b1 b2 c1 c2 k1 k2 Ha
  | |- orel _ (obind (cset_max ?v ?b1 ?c1) ?k1) (obind (cset_max ?v ?b2 ?c2) ?k2) =>
      frm_one T (VVar v) true b1 b2 c1 c2 k1 k2 Ha
  | |- orel _ (obind (vset ?w ?mx ?b1 ?c1) ?k1) (obind (vset ?w ?mx ?b2 ?c2) ?k2) =>
      frm_one T w mx b1 b2 c1 c2 k1 k2 Ha
  | |- orel _ (cset_min ?v ?b1 ?c1) (cset_min ?v ?b2 ?c2) =>
      refine (frm_last T (VVar v) false b1 b2 c1 c2 _ Ha _); [solve_uin | frm_bnd T Ha]
  | |- orel _ (cset_max ?v ?b1 ?c1) (cset_max ?v ?b2 ?c2) =>
      refine (frm_last T (VVar v) true b1 b2 c1 c2 _ Ha _); [solve_uin | frm_bnd T Ha]
  | |- orel _ (vset ?w ?mx ?b1 ?c1) (vset ?w ?mx ?b2 ?c2) =>
      refine (frm_last T w mx b1 b2 c1 c2 _ Ha _); [solve_uin | frm_bnd T Ha]
  | _ => idtac
  end.

Lemma uin_app_l : forall w T T', uin w T -> uin w (T ++ T').
Proof. intros w T T' H x Hx. apply in_or_app. left. apply H, Hx. Qed.
Lemma uin_app_r : forall w T T', uin w T' -> uin w (T ++ T').
Proof. intros w T T' H x Hx. apply in_or_app. right. apply H, Hx. Qed.

(* ------------------------------------------------------------------------------------------ *)
(* Add (and Sub) *)

Section Add.
  Variables (x y : view) (s : nat) (T : list nat).
  Hypotheses (Hx : view_ok x) (Hy : view_ok y) (Ux : uin x T) (Uy : uin y T) (Us : In s T).

  Lemma prune_add_ctr : forall c c', wf_store (fst c) -> prune_add x y s c = Some c' -> ctr T c c'.
  Proof. intros c c' W H. unfold prune_add in H. ctr_chain T W H. Qed.

  Lemma prune_add_snd : forall a n c, uscope x n -> uscope y n -> (s < n)%nat -> okc a n c ->
    vsem x a + vsem y a = a s -> exists c2, prune_add x y s c = Some c2 /\ okc a n c2.
  Proof.
    intros a n c Sx Sy Ss O Hs. unfold prune_add.
    snd_chain a n O ltac:(fun O =>
      let Bx := fresh in let By := fresh in let Bs := fresh in
      pose proof (cbnd_bounds x a n _ Hx Sx O) as Bx;
      pose proof (cbnd_bounds y a n _ Hy Sy O) as By;
      pose proof (cvar_bounds s a n _ Ss O) as Bs;
      unfold bnd_ok; cbn [vsem]; lia).
  Qed.

  Lemma prune_add_chk : forall s0 ev a, wf_store s0 -> inst a s0 ->
    (forall v, In v T -> dfixed (sget s0 v) = true) ->
    prune_add x y s (s0, ev) <> None -> vsem x a + vsem y a = a s.
  Proof.
    intros s0 ev a W Hi Hf H. unfold prune_add in H.
    pose proof (fixed_of_uin (VVar s) T s0 (uin_var s T Us) Hf) as Fs.
    destruct (chk_step (VVar s) false _ a s0 ev _ I W Hi Fs H) as [B1 H1]. cbv beta in H1.
    destruct (chk_step (VVar s) true _ a s0 ev _ I W Hi Fs H1) as [B2 _].
    destruct (cbnd_fixed x T a s0 ev Hi Ux Hf) as [E1 E2].
    destruct (cbnd_fixed y T a s0 ev Hi Uy Hf) as [E3 E4].
    unfold bnd_ok in B1, B2. cbn [vsem] in B1, B2. lia.
  Qed.

  Lemma prune_add_frm : forall c1 c2, agr T c1 c2 -> orel (agr T) (prune_add x y s c1) (prune_add x y s c2).
  Proof. intros c1 c2 Ha. unfold prune_add. frm_chain T Ha. Qed.
End Add.

Lemma mk_add_good : forall x y s, view_ok x -> view_ok y -> good (mk_add x y s).
Proof.
  intros x y s Hx Hy. set (T := trig (mk_add x y s)).
  assert (Ux : uin x T) by (apply (uin_app_r x [s]), uin_app_l, uin_self).
  assert (Uy : uin y T) by (apply (uin_app_r y [s]), uin_app_r, uin_self).
  assert (Us : In s T) by (left; reflexivity).
  split; [|split; [|split]].
  - apply contracting_of_ctr. intros c c' W H. exact (prune_add_ctr x y s T Hx Hy Ux Uy Us c c' W H).
  - apply sound_of_okc. intros a n c Hsc O Hs. cbn [sat mk_add] in Hs. apply Z.eqb_eq in Hs.
    apply (prune_add_snd x y s Hx Hy a n c); try assumption.
    + intros v Hv. apply Hsc, Ux, Hv.
    + intros v Hv. apply Hsc, Uy, Hv.
    + apply Hsc, Us.
  - intros s0 ev a W Hi Hf H. cbn [sat mk_add]. apply Z.eqb_eq.
    exact (prune_add_chk x y s T Ux Uy Us s0 ev a W Hi Hf H).
  - apply frame_of_agr.
    + intros c1 c2 Ha. exact (prune_add_frm x y s T Ux Uy Us c1 c2 Ha).
    + intros a1 a2 H. cbn [sat mk_add].
      rewrite (vsem_frame x T a1 a2 Ux H), (vsem_frame y T a1 a2 Uy H), (H s Us). reflexivity.
Qed.

Lemma mk_sub_good : forall x y s, view_ok x -> view_ok y -> good (mk_sub x y s).
Proof.
  intros x y s Hx Hy. unfold mk_sub. apply mk_add_good; [exact Hx|].
  apply vtimes_neg_ok; [lia|exact Hy].
Qed.
