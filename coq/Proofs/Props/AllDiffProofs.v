(* The four local contracts for the AllDiff propagator (Model/Props/AllDiff.v): good, with no
   side condition.  Soundness rests on GacProofs.hybrid_alldiff_keep applied to the interval
   relaxation of the store; checking on the fixed-family theorem of the bit-set engine. *)
Require Import Selen.Model.Prelude Selen.Model.Dom Selen.Model.Views Selen.Model.PropDefs.
Require Import Selen.Model.Gac Selen.Model.Props.AllDiff.
Require Import Selen.Proofs.SparseSetProofs Selen.Proofs.DomProofs Selen.Proofs.ViewsProofs Selen.Proofs.GacProofs.

Lemma uin_var' : forall v T, In v T -> uin (VVar v) T.
Proof. intros v T H x E. inversion E; subst. exact H. Qed.
Lemma uscope_var' : forall v n, (v < n)%nat -> uscope (VVar v) n.
Proof. intros v n H x E. inversion E; subst. exact H. Qed.

Lemma nodupb_NoDup : forall l, nodupb l = true <-> NoDup l.
Proof.
  induction l as [|x r IH]; cbn [nodupb]; [split; [constructor|reflexivity]|].
  rewrite andb_true_iff, negb_true_iff, IH. split.
  - intros [H1 H2]. constructor; [|exact H2]. intros Hin. apply memZ_In in Hin. congruence.
  - intros H. inversion H; subst. split; [|assumption].
    destruct (memZ x r) eqn:E; [apply memZ_In in E; contradiction|reflexivity].
Qed.

Lemma drange_In : forall lo hi y, In y (drange lo hi) <-> lo <= y <= hi.
Proof. intros. unfold drange. rewrite zrange_In. lia. Qed.

Lemma zrange_aux_sorted : forall k lo, sorted (zrange_aux lo k).
Proof.
  induction k as [|k IH]; intros lo; [exact I|]. cbn [zrange_aux]. apply sorted_cons_iff. split; [|apply IH].
  intros y Hy. apply zrange_aux_In in Hy. lia.
Qed.
Lemma drange_sorted : forall lo hi, sorted (drange lo hi).
Proof. intros. unfold drange, zrange. apply zrange_aux_sorted. Qed.

Lemma hy_new_dom : forall lo hi, lo <= hi -> snd (hy_new lo hi) = drange lo hi.
Proof.
  intros lo hi H. unfold hy_new. destruct (tag_of_range lo hi) eqn:T; cbn [snd].
  - unfold bs_new. replace (hi <? lo) with false by (symmetry; apply Z.ltb_ge; lia).
    unfold tag_of_range in T. rewrite T. reflexivity.
  - unfold sp_new. replace (hi <? lo) with false by (symmetry; apply Z.ltb_ge; lia). reflexivity.
Qed.

Definition relax (xs : list nat) (s : store) : list (bool * dom) :=
  map (fun p => hy_new (fst p) (snd p)) (ad_bounds xs s).

Lemma relax_length : forall xs s, length (map snd (relax xs s)) = length xs.
Proof. intros. unfold relax, ad_bounds. rewrite !map_length. reflexivity. Qed.

Lemma relax_sget : forall xs s i, (i < length xs)%nat ->
  wf_dom (sget s (nth i xs 0%nat)) ->
  sget (map snd (relax xs s)) i = drange (dmin (sget s (nth i xs 0%nat))) (dmax (sget s (nth i xs 0%nat))).
Proof.
  induction xs as [|x r IH]; intros s i Hi Hw; [cbn in Hi; lia|].
  destruct i as [|i].
  - cbn [nth] in *. unfold relax, ad_bounds, sget. cbn [map nth fst snd].
    apply hy_new_dom. apply dmin_le_dmax. exact Hw.
  - cbn [nth] in *. unfold relax, ad_bounds, sget in *. cbn [map nth]. apply IH; [cbn in Hi; lia|exact Hw].
Qed.

(* write-back, one step *)
Lemma wb_unfold : forall x r i g c,
  ad_writeback (x :: r) i g c =
  match sget g i with
  | [] => None
  | d => obind (cset_min x (dmin d) c) (fun c => obind (cset_max x (dmax d) c) (fun c => ad_writeback r (S i) g c))
  end.
Proof. intros. cbn [ad_writeback]. destruct (sget g i) as [|v [|w t]]; reflexivity. Qed.

(* ---- contracting ---- *)
Lemma wb_ctr : forall T r i g c c', wf_store (fst c) -> incl r T -> ad_writeback r i g c = Some c' -> ctr T c c'.
Proof.
  intros T r. induction r as [|x r IH]; intros i g c c' W Hin H.
  - cbn in H. inversion H; subst. apply ctr_refl. exact W.
  - rewrite wb_unfold in H. destruct (sget g i) as [|v t] eqn:Eg; [discriminate|]. cbv beta iota zeta in H.
    set (d := v :: t) in *. assert (Hx : In x T) by (apply Hin; left; reflexivity).
    revert H.
    destruct (cset_min x (dmin d) c) as [c1|] eqn:E1; cbn [obind]; [|intros H; discriminate H].
    destruct (cset_max x (dmax d) c1) as [c2|] eqn:E2; cbn [obind]; [|intros H; discriminate H]. intros H.
    pose proof (vset_ctr (VVar x) false (dmin d) T c c1 I (uin_var' x T Hx) W E1) as C1.
    pose proof (vset_ctr (VVar x) true (dmax d) T c1 c2 I (uin_var' x T Hx) (ctr_wf _ _ _ C1) E2) as C2.
    apply (ctr_trans T c c1 c'); [exact C1|]. apply (ctr_trans T c1 c2 c'); [exact C2|].
    apply (IH (S i) g c2 c'); [exact (ctr_wf _ _ _ C2) | intros y Hy; apply Hin; right; exact Hy | exact H].
Qed.

Lemma alldiff_contracting : forall xs, contracting (mk_alldiff xs).
Proof.
  intros xs. apply contracting_of_ctr. intros c c' W H. cbn [prune trig mk_alldiff] in *.
  unfold prune_alldiff in H.
  destruct (Nat.leb (length xs) 1); [inversion H; subst; apply ctr_refl; exact W|].
  destruct (existsb (fun x => dempty (sget (fst c) x)) xs); [discriminate|].
  destruct (negb (quick_feasible (ad_bounds xs (fst c)))); [discriminate|].
  cbv zeta in H.
  destruct (hybrid_alldiff _ _ _) as [[g ch] [|]]; [|discriminate].
  apply (wb_ctr xs xs 0%nat g c c' W); [apply incl_refl|exact H].
Qed.

(* ---- sound ---- *)
Lemma wb_sound : forall a n g r i c,
  okc a n c -> (forall x, In x r -> (x < n)%nat) ->
  (forall k, (k < length r)%nat -> sorted (sget g (i + k)) /\ In (a (nth k r 0%nat)) (sget g (i + k))) ->
  exists c', ad_writeback r i g c = Some c' /\ okc a n c'.
Proof.
  intros a n g r. induction r as [|x r IH]; intros i c O Hsc Hg.
  - exists c. split; [reflexivity|exact O].
  - rewrite wb_unfold. destruct (Hg 0%nat ltac:(cbn; lia)) as [Hs Ha]. rewrite Nat.add_0_r in Hs, Ha. cbn [nth] in Ha.
    destruct (sget g i) as [|v t] eqn:Eg; [destruct Ha|]. cbv beta iota zeta. set (d := v :: t) in *.
    assert (Hx : (x < n)%nat) by (apply Hsc; left; reflexivity).
    destruct (vset_ok (VVar x) false (dmin d) a n c I (uscope_var' x n Hx) O) as (c1 & E1 & O1 & _).
    { unfold bnd_ok. cbn [vsem]. apply dmin_least; assumption. }
    change (vset (VVar x) false (dmin d) c) with (cset_min x (dmin d) c) in E1. rewrite E1. cbn [obind].
    destruct (vset_ok (VVar x) true (dmax d) a n c1 I (uscope_var' x n Hx) O1) as (c2 & E2 & O2 & _).
    { unfold bnd_ok. cbn [vsem]. apply dmax_greatest; assumption. }
    change (vset (VVar x) true (dmax d) c1) with (cset_max x (dmax d) c1) in E2. rewrite E2. cbn [obind].
    apply (IH (S i) c2 O2); [intros y Hy; apply Hsc; right; exact Hy|].
    intros k Hk. specialize (Hg (S k) ltac:(cbn; lia)). cbn [nth] in Hg.
    replace (S i + k)%nat with (i + S k)%nat by lia. exact Hg.
Qed.

Lemma alldiff_sound : forall xs, sound (mk_alldiff xs).
Proof.
  intros xs s ev a W Hsc Hi Hsat. cbn [prune sat trig mk_alldiff] in *.
  apply nodupb_NoDup in Hsat.
  assert (Hw : forall x, In x xs -> wf_dom (sget s x)) by (intros x Hx; apply W; apply Hsc; exact Hx).
  unfold prune_alldiff. cbn [fst].
  destruct (Nat.leb (length xs) 1); [exists s, ev; split; [reflexivity|exact Hi]|].
  replace (existsb (fun x => dempty (sget s x)) xs) with false.
  2:{ symmetry. apply not_true_is_false. intros E. apply existsb_exists in E. destruct E as (x & Hx & E).
      apply dempty_true in E. destruct (Hw x Hx) as [N _]. contradiction. }
  (* the quick feasibility check passes *)
  assert (QF : quick_feasible (ad_bounds xs s) = true).
  { unfold quick_feasible. apply andb_true_iff. split.
    - apply negb_true_iff. apply not_true_is_false. intros E. apply existsb_exists in E.
      destruct E as (p & Hp & E). unfold ad_bounds in Hp. apply in_map_iff in Hp. destruct Hp as (x & <- & Hx).
      cbn [fst snd] in E. apply Z.ltb_lt in E. pose proof (dmin_le_dmax _ (Hw x Hx)). lia.
    - apply Nat.leb_le. unfold ad_bounds at 1. rewrite map_length. rewrite <- (map_length a xs).
      apply NoDup_incl_length; [exact Hsat|]. intros v Hv. apply in_map_iff in Hv. destruct Hv as (x & <- & Hx).
      apply nodup_In. apply in_flat_map. exists (dmin (sget s x), dmax (sget s x)). split.
      + unfold ad_bounds. apply in_map_iff. exists x. split; [reflexivity|exact Hx].
      + cbn [fst snd]. apply drange_In. destruct (Hw x Hx) as [N S].
        assert (Ia : In (a x) (sget s x)) by (apply Hi; apply Hsc; exact Hx).
        split; [apply dmin_least|apply dmax_greatest]; assumption. }
  rewrite QF. cbn [negb]. cbv zeta. fold (relax xs s).
  set (cs := map snd (relax xs s)). set (tags := map fst (relax xs s)).
  pose proof (relax_length xs s) as LC. fold cs in LC.
  (* the solution seen by the engine *)
  set (b := fun i => a (nth i xs 0%nat)).
  assert (Hinj : inj_on (seq 0 (length xs)) b).
  { intros i j Hi' Hj' E. apply in_seq in Hi', Hj'. unfold b in E.
    apply (proj1 (NoDup_nth (map a xs) 0) Hsat); rewrite ?map_length; try lia.
    rewrite !(nth_indep (map a xs) 0 (a 0%nat)) by (rewrite map_length; lia). rewrite !map_nth. exact E. }
  assert (Hin : inside (seq 0 (length xs)) b cs).
  { intros i Hi'. apply in_seq in Hi'. unfold cs. rewrite relax_sget by (try lia; apply Hw; apply nth_In; lia).
    assert (Hx : In (nth i xs 0%nat) xs) by (apply nth_In; lia).
    apply drange_In. destruct (Hw _ Hx) as [N S].
    assert (Ia : In (b i) (sget s (nth i xs 0%nat))) by (apply Hi; apply Hsc; exact Hx).
    split; [apply dmin_least|apply dmax_greatest]; assumption. }
  pose proof (hybrid_alldiff_sub tags (seq 0 (length xs)) cs) as FS.
  destruct (hybrid_alldiff tags (seq 0 (length xs)) cs) as [[g ch] ok] eqn:EH.
  destruct (hybrid_alldiff_keep b tags _ cs g ch ok (seq_NoDup _ _) Hinj Hin EH) as [-> K].
  unfold res_sub in FS. cbn [fst] in FS.
  destruct (wb_sound a (length s) g xs 0%nat (s, ev)) as ([s' ev'] & E & (_ & Hi' & _)).
  - split; [exact W|]. split; [exact Hi|reflexivity].
  - exact Hsc.
  - intros k Hk. cbn [Nat.add]. split.
    + apply (fsub_sorted g cs k FS). unfold cs. rewrite relax_sget by (try lia; apply Hw; apply nth_In; lia).
      apply drange_sorted.
    + apply (K k). apply Hin. apply in_seq. lia.
  - exists s', ev'. split; [exact E|exact Hi'].
Qed.

(* ---- checking ---- *)
Lemma relax_fixed : forall xs s a, (forall x, In x xs -> sget s x = [a x]) ->
  map snd (relax xs s) = map (fun x => [a x]) xs /\ map fst (relax xs s) = map (fun _ => true) xs.
Proof.
  induction xs as [|x r IH]; intros s a H; [split; reflexivity|].
  destruct (IH s a (fun y Hy => H y (or_intror Hy))) as [E1 E2].
  unfold relax, ad_bounds in *. cbn [map]. rewrite E1, E2. rewrite (H x (or_introl eq_refl)).
  cbn [dmin dmax hd last fst snd]. unfold hy_new, tag_of_range.
  replace (a x - a x + 1) with 1 by lia. cbn [Z.leb Z.compare Pos.compare Pos.compare_cont fst snd].
  unfold bs_new. rewrite Z.ltb_irrefl. replace (a x - a x + 1) with 1 by lia.
  cbn [Z.leb Z.compare Pos.compare Pos.compare_cont].
  unfold drange, zrange. replace (a x + 1 - a x) with 1 by lia. cbn. split; reflexivity.
Qed.

Lemma alldiff_checking : forall xs, checking (mk_alldiff xs).
Proof.
  intros xs s ev a W Hi Hf Hp. cbn [prune sat trig mk_alldiff] in *. apply nodupb_NoDup.
  unfold prune_alldiff in Hp. cbn [fst] in Hp.
  destruct (Nat.leb (length xs) 1) eqn:L1.
  { apply Nat.leb_le in L1. destruct xs as [|x [|y r]]; cbn in L1; try lia; cbn [map]; repeat constructor; intros []. }
  destruct (existsb (fun x => dempty (sget s x)) xs); [congruence|].
  destruct (negb (quick_feasible (ad_bounds xs s))); [congruence|].
  cbv zeta in Hp. fold (relax xs s) in Hp.
  assert (Hs : forall x, In x xs -> sget s x = [a x]).
  { intros x Hx. destruct (fixed_inst a s x Hi (Hf x Hx)) as [E _]. exact E. }
  destruct (relax_fixed xs s a Hs) as [E1 E2]. rewrite E1, E2 in Hp.
  set (ds := map (fun x => [a x]) xs) in *.
  assert (LD : length ds = length xs) by (unfold ds; apply map_length).
  assert (ET : map (fun _ : nat => true) xs = map (fun _ : dom => true) ds) by (unfold ds; rewrite map_map; reflexivity).
  rewrite ET in Hp. rewrite <- LD in Hp. change (seq 0 (length ds)) with (all_vars ds) in Hp.
  assert (HS : all_single ds).
  { intros d Hd. unfold ds in Hd. apply in_map_iff in Hd. destruct Hd as (x & <- & _). eexists; reflexivity. }
  assert (FV : fixed_values ds = map a xs) by (unfold fixed_values, ds; rewrite map_map; reflexivity).
  rewrite <- FV.
  pose proof (hybrid_all_bitset ds (all_vars ds) ds) as HB.
  destruct (hybrid_alldiff (map (fun _ : dom => true) ds) (all_vars ds) ds) as [[g ch] [|]] eqn:EH; [|congruence].
  cbn [res_opt] in HB.
  destruct (bitset_alldiff (all_vars ds) ds) as [[s' ch'] ok'] eqn:EB.
  assert (ok' = true).
  { specialize (HB ltac:(intros x Hx; unfold all_vars in Hx; apply in_seq in Hx; lia)).
    cbn [res_opt] in HB. destruct ok'; [reflexivity|discriminate]. }
  subst ok'. exact (bitset_fixed_distinct ds s' ch' HS EB).
Qed.

(* ---- frame ---- *)
Lemma wb_frame : forall T r i g c1 c2, incl r T -> agr T c1 c2 ->
  orel (agr T) (ad_writeback r i g c1) (ad_writeback r i g c2).
Proof.
  intros T r. induction r as [|x r IH]; intros i g c1 c2 Hin Ha.
  - cbn [ad_writeback orel]. exact Ha.
  - rewrite !wb_unfold. destruct (sget g i) as [|v t]; [exact I|]. cbv beta iota zeta.
    assert (Hx : In x T) by (apply Hin; left; reflexivity).
    apply (obind_orel (agr T) (agr T)); [apply cset_min_frame; assumption|].
    intros a1 a2 Ha1. apply (obind_orel (agr T) (agr T)); [apply cset_max_frame; assumption|].
    intros b1 b2 Hb. apply IH; [intros y Hy; apply Hin; right; exact Hy|exact Hb].
Qed.

Lemma alldiff_frame : forall xs, frame (mk_alldiff xs).
Proof.
  intros xs. apply frame_of_agr.
  - intros c1 c2 Ha. cbn [prune trig mk_alldiff] in *. pose proof Ha as (HL & HA & HE).
    unfold prune_alldiff.
    destruct (Nat.leb (length xs) 1); [exact Ha|].
    assert (EB : ad_bounds xs (fst c1) = ad_bounds xs (fst c2)).
    { unfold ad_bounds. apply map_ext_in. intros x Hx. rewrite (HA x Hx). reflexivity. }
    assert (EE : existsb (fun x => dempty (sget (fst c1) x)) xs = existsb (fun x => dempty (sget (fst c2) x)) xs).
    { clear -HA. induction xs as [|x r IH]; [reflexivity|]. cbn [existsb].
      rewrite (HA x (or_introl eq_refl)). f_equal. apply IH. intros y Hy. apply HA. right; exact Hy. }
    rewrite EE, EB. clear EE EB. destruct (existsb (fun x => dempty (sget (fst c2) x)) xs); [exact I|].
    destruct (negb (quick_feasible (ad_bounds xs (fst c2)))); [exact I|].
    cbv zeta. destruct (hybrid_alldiff _ _ _) as [[g ch] [|]]; [|exact I].
    apply wb_frame; [apply incl_refl|exact Ha].
  - intros a1 a2 H. cbn [sat trig mk_alldiff] in *. f_equal. apply map_ext_in. exact H.
Qed.

Theorem mk_alldiff_good : forall xs, good (mk_alldiff xs).
Proof.
  intros xs. split; [apply alldiff_contracting|]. split; [apply alldiff_sound|].
  split; [apply alldiff_checking|apply alldiff_frame].
Qed.
