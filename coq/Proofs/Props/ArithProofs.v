(* The four local contracts (Model/PropDefs.v) for the propagators of Model/Props/Arith.v.
   - abs: good.
   - minof / maxof (REPAIRED sources, step 6 removed): good for a non-empty operand list.
   - minof_prefix / maxof_prefix (pinned sources): `sound` refuted (D2); outside the decidable class
     kf_min_step6 / kf_max_step6 a call of the pinned code equals a call of the repaired code.
   - mod_prefix (pinned sources): `sound` refuted (D4 and two further witnesses), `checking` refuted
     (divisor fixed to zero).
   mul: Proofs/Props/ArithMulProofs.v; mod (repaired): Proofs/Props/ArithModProofs.v. *)
Require Import Selen.Model.Prelude Selen.Model.Dom Selen.Model.Views Selen.Model.PropDefs
  Selen.Model.Props.Basic Selen.Model.Props.Arith.
Require Import Selen.Proofs.DomProofs Selen.Proofs.ViewsProofs Selen.Proofs.Props.BasicProofs.

(* boolean tests to propositions *)
Ltac bsplit :=
  repeat match goal with
  | |- context [?a <=? ?b] => destruct (Z.leb_spec a b)
  | |- context [?a <? ?b] => destruct (Z.ltb_spec a b)
  | |- context [?a =? ?b] => destruct (Z.eqb_spec a b)
  | H : context [?a <=? ?b] |- _ => destruct (Z.leb_spec a b)
  | H : context [?a <? ?b] |- _ => destruct (Z.ltb_spec a b)
  | H : context [?a =? ?b] |- _ => destruct (Z.eqb_spec a b)
  end; cbn [andb orb negb] in *.

(* bounds of a view and of a variable under the assignment, from every okc fact in the context *)
Ltac all_bounds a n x s Hx Sx Ss :=
  repeat match goal with
  | O : okc a n ?c |- _ =>
    lazymatch goal with
    | _ : cvar_min s c <= a s <= cvar_max s c |- _ => fail
    | _ => pose proof (cbnd_bounds x a n c Hx Sx O); pose proof (cvar_bounds s a n c Ss O)
    end
  end.

Lemma obind_some : forall {A B} (o : option A) (k : A -> option B) r,
  obind o k = Some r -> exists a, o = Some a /\ k a = Some r.
Proof. intros A B [a|] k r H; [exists a; split; [reflexivity|exact H]|discriminate H]. Qed.

(* ------------------------------------------------------------------------------------------ *)
(* Abs *)
Section Abs.
  Variables (x : view) (s : nat) (T : list nat).
  Hypotheses (Hx : view_ok x) (Ux : uin x T) (Us : In s T).

  Lemma prune_abs_ctr : forall c c', wf_store (fst c) -> prune_abs x s c = Some c' -> ctr T c c'.
  Proof.
    intros c c' W H. unfold prune_abs in H. ctr_chain T W H.
    match goal with Hc : (if _ then _ else _) = Some _ |- _ => rename Hc into HH end.
    match type of HH with (if ?b then _ else _) = _ => destruct b end.
    - match type of HH with (if ?b then _ else _) = _ => destruct b end.
      + ctr_chain T W4 HH.
      + match type of HH with (if ?b then _ else _) = _ => destruct b end.
        * ctr_chain T W4 HH.
        * inversion HH; subst. apply ctr_refl. assumption.
    - inversion HH; subst. apply ctr_refl. assumption.
  Qed.

  Lemma prune_abs_snd : forall a n c, uscope x n -> (s < n)%nat -> okc a n c ->
    Z.abs (vsem x a) = a s -> exists c2, prune_abs x s c = Some c2 /\ okc a n c2.
  Proof.
    intros a n c Sx Ss O Hs. unfold prune_abs.
    snd_chain a n O ltac:(fun O => all_bounds a n x s Hx Sx Ss; unfold bnd_ok; cbn [vsem]; bsplit; lia).
    all_bounds a n x s Hx Sx Ss.
    match goal with |- exists c2, (if ?b then _ else _) = _ /\ _ => destruct b eqn:E1 end.
    - match goal with |- exists c2, (if ?b then _ else _) = _ /\ _ => destruct b eqn:E2 end.
      + snd_chain a n O4 ltac:(fun O => all_bounds a n x s Hx Sx Ss; revert E1 E2; try revert E3; unfold bnd_ok; cbn [vsem]; bsplit; lia).
      + match goal with |- exists c2, (if ?b then _ else _) = _ /\ _ => destruct b eqn:E3 end.
        * snd_chain a n O4 ltac:(fun O => all_bounds a n x s Hx Sx Ss; revert E1 E2; try revert E3; unfold bnd_ok; cbn [vsem]; bsplit; lia).
        * eexists; split; [reflexivity|assumption].
    - eexists; split; [reflexivity|assumption].
  Qed.

  Lemma prune_abs_chk : forall s0 ev a, wf_store s0 -> inst a s0 ->
    (forall v, In v T -> dfixed (sget s0 v) = true) ->
    prune_abs x s (s0, ev) <> None -> Z.abs (vsem x a) = a s.
  Proof.
    intros s0 ev a W Hi Hf H. unfold prune_abs in H.
    pose proof (fixed_of_uin (VVar s) T s0 (uin_var s T Us) Hf) as Fs.
    destruct (cbnd_fixed x T a s0 ev Hi Ux Hf) as [E1 E2].
    destruct (chk_step (VVar s) false _ a s0 ev _ I W Hi Fs H) as [_ H1]. cbv beta zeta in H1.
    destruct (chk_step (VVar s) false _ a s0 ev _ I W Hi Fs H1) as [B2 H2]. cbv beta in H2.
    destruct (chk_step (VVar s) true _ a s0 ev _ I W Hi Fs H2) as [B3 _].
    unfold bnd_ok in B2, B3. cbn [vsem] in B2, B3. rewrite E1, E2 in *.
    revert B2 B3. bsplit; lia.
  Qed.

  Lemma prune_abs_frm : forall c1 c2, agr T c1 c2 -> orel (agr T) (prune_abs x s c1) (prune_abs x s c2).
  Proof.
    intros c1 c2 Ha. unfold prune_abs.
    rewrite (cmin_frame x T c1 c2 Ux Ha), (cmax_frame x T c1 c2 Ux Ha).
    frm_chain T Ha.
    rewrite (cvar_min_frame s T _ _ Us Ha2), (cvar_max_frame s T _ _ Us Ha2).
    rewrite (cmin_frame x T _ _ Ux Ha4), (cmax_frame x T _ _ Ux Ha4).
    match goal with |- orel _ (if ?b then _ else _) _ => destruct b end; [|exact Ha4].
    match goal with |- orel _ (if ?b then _ else _) _ => destruct b end.
    - frm_chain T Ha4.
    - match goal with |- orel _ (if ?b then _ else _) _ => destruct b end; [|exact Ha4].
      frm_chain T Ha4.
  Qed.
End Abs.

Lemma mk_abs_good : forall x s, view_ok x -> good (mk_abs x s).
Proof.
  intros x s Hx. set (T := trig (mk_abs x s)).
  assert (Ux : uin x T) by (apply (uin_app_r x [s]), uin_self).
  assert (Us : In s T) by (left; reflexivity).
  split; [|split; [|split]].
  - apply contracting_of_ctr. intros c c' W H. exact (prune_abs_ctr x s T Hx Ux Us c c' W H).
  - apply sound_of_okc. intros a n c Hsc O Hs. cbn [sat mk_abs] in Hs. apply Z.eqb_eq in Hs.
    apply (prune_abs_snd x s Hx a n c); try assumption.
    + intros v Hv. apply Hsc, Ux, Hv.
    + apply Hsc, Us.
  - intros s0 ev a W Hi Hf H. cbn [sat mk_abs]. apply Z.eqb_eq.
    exact (prune_abs_chk x s T Ux Us s0 ev a W Hi Hf H).
  - apply frame_of_agr.
    + intros c1 c2 Ha. exact (prune_abs_frm x s T Ux Us c1 c2 Ha).
    + intros a1 a2 H. cbn [sat mk_abs].
      rewrite (vsem_frame x T a1 a2 Ux H), (H s Us). reflexivity.
Qed.

(* ------------------------------------------------------------------------------------------ *)
(* Min / Max (repaired sources) *)

(* the running-minimum / running-maximum folds *)
Lemma fold_sel_min_spec : forall (f : nat -> Z) rest d,
  let m := fold_left (fun acc v => let m := f v in if m <? acc then m else acc) rest d in
  m <= d /\ (forall v, In v rest -> m <= f v) /\ (m = d \/ exists v, In v rest /\ m = f v).
Proof.
  intros f rest. induction rest as [|v rest IH]; intros d; cbn [fold_left].
  - split; [lia|]. split; [intros v []|left; reflexivity].
  - cbv zeta. set (d' := if f v <? d then f v else d).
    specialize (IH d'). cbv zeta in IH. destruct IH as (A & B & C).
    assert (Hd : d' <= d /\ d' <= f v /\ (d' = d \/ d' = f v)) by (unfold d'; destruct (Z.ltb_spec (f v) d); lia).
    split; [lia|]. split.
    + intros u [<-|Hu]; [lia|apply B; exact Hu].
    + destruct C as [C|(u & Hu & C)].
      * destruct Hd as (_ & _ & [E|E]); [left; lia|right; exists v; split; [left; reflexivity|lia]].
      * right. exists u. split; [right; exact Hu|exact C].
Qed.

Lemma fold_sel_max_spec : forall (f : nat -> Z) rest d,
  let m := fold_left (fun acc v => let m := f v in if acc <? m then m else acc) rest d in
  d <= m /\ (forall v, In v rest -> f v <= m) /\ (m = d \/ exists v, In v rest /\ m = f v).
Proof.
  intros f rest. induction rest as [|v rest IH]; intros d; cbn [fold_left].
  - split; [lia|]. split; [intros v []|left; reflexivity].
  - cbv zeta. set (d' := if d <? f v then f v else d).
    specialize (IH d'). cbv zeta in IH. destruct IH as (A & B & C).
    assert (Hd : d <= d' /\ f v <= d' /\ (d' = d \/ d' = f v)) by (unfold d'; destruct (Z.ltb_spec d (f v)); lia).
    split; [lia|]. split.
    + intros u [<-|Hu]; [lia|apply B; exact Hu].
    + destruct C as [C|(u & Hu & C)].
      * destruct Hd as (_ & _ & [E|E]); [left; lia|right; exists v; split; [left; reflexivity|lia]].
      * right. exists u. split; [right; exact Hu|exact C].
Qed.

Lemma fold_sel_ext : forall (g : Z -> Z -> bool) (f1 f2 : nat -> Z) rest d,
  (forall v, In v rest -> f1 v = f2 v) ->
  fold_left (fun acc v => let m := f1 v in if g m acc then m else acc) rest d =
  fold_left (fun acc v => let m := f2 v in if g m acc then m else acc) rest d.
Proof.
  intros g f1 f2 rest. induction rest as [|v rest IH]; intros d H; cbn [fold_left]; [reflexivity|].
  cbv zeta. rewrite (H v (or_introl eq_refl)). apply IH. intros u Hu. apply H. right. exact Hu.
Qed.

Lemma list_min_spec : forall l d,
  list_min d l <= d /\ (forall x, In x l -> list_min d l <= x) /\ (list_min d l = d \/ In (list_min d l) l).
Proof.
  induction l as [|y l IH]; intros d; cbn [list_min].
  - split; [lia|]. split; [intros x []|left; reflexivity].
  - destruct (IH (Z.min d y)) as (A & B & C). split; [lia|]. split.
    + intros x [<-|Hx]; [lia|apply B; exact Hx].
    + destruct C as [C|C]; [|right; right; exact C].
      destruct (Z.min_spec d y) as [[_ E]|[_ E]]; [left; lia|right; left; lia].
Qed.

Lemma list_max_spec : forall l d,
  d <= list_max d l /\ (forall x, In x l -> x <= list_max d l) /\ (list_max d l = d \/ In (list_max d l) l).
Proof.
  induction l as [|y l IH]; intros d; cbn [list_max].
  - split; [lia|]. split; [intros x []|left; reflexivity].
  - destruct (IH (Z.max d y)) as (A & B & C). split; [lia|]. split.
    + intros x [<-|Hx]; [lia|apply B; exact Hx].
    + destruct C as [C|C]; [|right; right; exact C].
      destruct (Z.max_spec d y) as [[_ E]|[_ E]]; [right; left; lia|left; lia].
Qed.

(* the loops of step 4 *)
Section Each.
  Variable T : list nat.

  Lemma each_set_ctr : forall (mx : bool) xs b c c', (forall v, In v xs -> In v T) -> wf_store (fst c) ->
    (if mx then each_set_max xs b c else each_set_min xs b c) = Some c' -> ctr T c c'.
  Proof.
    intros mx xs b. induction xs as [|v xs IH]; intros c c' HT W H.
    - destruct mx; cbn in H; inversion H; subst; apply ctr_refl; exact W.
    - assert (Hv : In v T) by (apply HT; left; reflexivity).
      assert (HT' : forall u, In u xs -> In u T) by (intros u Hu; apply HT; right; exact Hu).
      destruct mx; cbn [each_set_max each_set_min] in H; apply obind_some in H; destruct H as (c1 & E & H).
      + pose proof (vset_ctr (VVar v) true b T c c1 I (uin_var v T Hv) W E) as C.
        apply (ctr_trans T c c1 c' C). apply IH; [exact HT'|exact (ctr_wf _ _ _ C)|exact H].
      + pose proof (vset_ctr (VVar v) false b T c c1 I (uin_var v T Hv) W E) as C.
        apply (ctr_trans T c c1 c' C). apply IH; [exact HT'|exact (ctr_wf _ _ _ C)|exact H].
  Qed.

  Lemma each_set_snd : forall (mx : bool) a n xs b c, okc a n c ->
    (forall v, In v xs -> (v < n)%nat /\ (if mx then a v <= b else b <= a v)) ->
    exists c2, (if mx then each_set_max xs b c else each_set_min xs b c) = Some c2 /\ okc a n c2.
  Proof.
    intros mx a n xs b. induction xs as [|v xs IH]; intros c O H.
    - exists c. destruct mx; split; try reflexivity; exact O.
    - destruct (H v (or_introl eq_refl)) as [Hn Hb].
      assert (H' : forall u, In u xs -> (u < n)%nat /\ (if mx then a u <= b else b <= a u))
        by (intros u Hu; apply H; right; exact Hu).
      destruct mx; cbn [each_set_max each_set_min].
      + destruct (vset_ok (VVar v) true b a n c I (uscope_var v n Hn) O Hb) as (c1 & E & O1 & _).
        cbn [vset] in E. rewrite E. cbn [obind]. apply (IH c1 O1 H').
      + destruct (vset_ok (VVar v) false b a n c I (uscope_var v n Hn) O Hb) as (c1 & E & O1 & _).
        cbn [vset] in E. rewrite E. cbn [obind]. apply (IH c1 O1 H').
  Qed.

  Lemma each_set_frm : forall (mx : bool) xs b c1 c2, (forall v, In v xs -> In v T) -> agr T c1 c2 ->
    orel (agr T) (if mx then each_set_max xs b c1 else each_set_min xs b c1)
                 (if mx then each_set_max xs b c2 else each_set_min xs b c2).
  Proof.
    intros mx xs b. induction xs as [|v xs IH]; intros c1 c2 HT Ha.
    - destruct mx; exact Ha.
    - assert (Hv : In v T) by (apply HT; left; reflexivity).
      assert (HT' : forall u, In u xs -> In u T) by (intros u Hu; apply HT; right; exact Hu).
      destruct mx; cbn [each_set_max each_set_min]; apply (obind_orel (agr T) (agr T)).
      + apply cset_max_frame; assumption.
      + intros d1 d2 Hd. apply (IH d1 d2 HT' Hd).
      + apply cset_min_frame; assumption.
      + intros d1 d2 Hd. apply (IH d1 d2 HT' Hd).
  Qed.
End Each.

Lemma chk_step_gen : forall {B} w mx b a s ev (k : ctx -> option B),
  view_ok w -> wf_store s -> inst a s -> (forall v, uvar w = Some v -> dfixed (sget s v) = true) ->
  obind (vset w mx b (s, ev)) k <> None -> bnd_ok w mx b a /\ k (s, ev) <> None.
Proof.
  intros B w mx b a s ev k Hok W Hi Hf H. destruct (vset w mx b (s, ev)) as [c1|] eqn:E.
  - destruct (vset_fixed w mx b a s ev c1 Hok W Hi Hf E) as [-> Hb]. split; [exact Hb|exact H].
  - exfalso. apply H. reflexivity.
Qed.

Lemma existsb_ext_in : forall (f g : nat -> bool) l, (forall v, In v l -> f v = g v) -> existsb f l = existsb g l.
Proof.
  intros f g l. induction l as [|v l IH]; intros H; cbn [existsb]; [reflexivity|].
  rewrite (H v (or_introl eq_refl)), IH; [reflexivity|]. intros u Hu. apply H. right. exact Hu.
Qed.

Section MinMax.
  Variables (v0 : nat) (rest : list nat) (r : nat) (T : list nat).
  Let xs := v0 :: rest.
  Hypotheses (Ur : In r T) (Uxs : forall v, In v xs -> In v T).

  (* --- contraction --- *)
  Lemma min_steps15_ctr : forall c t, wf_store (fst c) -> min_steps15 xs r c = Some t -> ctr T c (fst (fst t)).
  Proof.
    intros c t W H. unfold min_steps15, xs in H. cbv zeta in H.
    apply obind_some in H. destruct H as (c1 & E1 & H).
    pose proof (vset_ctr (VVar r) false _ T c c1 I (uin_var r T Ur) W E1) as C1.
    apply obind_some in H. destruct H as (c2 & E2 & H).
    pose proof (vset_ctr (VVar r) true _ T c1 c2 I (uin_var r T Ur) (ctr_wf _ _ _ C1) E2) as C2.
    apply obind_some in H. destruct H as (c3 & E3 & H).
    pose proof (each_set_ctr T false (v0 :: rest) _ c2 c3 Uxs (ctr_wf _ _ _ C2) E3) as C3.
    match type of H with (if ?b then _ else _) = _ => destruct b end; [discriminate|].
    inversion H; subst. cbn [fst]. exact (ctr_trans T _ _ _ C1 (ctr_trans T _ _ _ C2 C3)).
  Qed.

  Lemma max_steps15_ctr : forall c t, wf_store (fst c) -> max_steps15 xs r c = Some t -> ctr T c (fst (fst t)).
  Proof.
    intros c t W H. unfold max_steps15, xs in H. cbv zeta in H.
    apply obind_some in H. destruct H as (c1 & E1 & H).
    pose proof (vset_ctr (VVar r) false _ T c c1 I (uin_var r T Ur) W E1) as C1.
    apply obind_some in H. destruct H as (c2 & E2 & H).
    pose proof (vset_ctr (VVar r) true _ T c1 c2 I (uin_var r T Ur) (ctr_wf _ _ _ C1) E2) as C2.
    apply obind_some in H. destruct H as (c3 & E3 & H).
    pose proof (each_set_ctr T true (v0 :: rest) _ c2 c3 Uxs (ctr_wf _ _ _ C2) E3) as C3.
    match type of H with (if ?b then _ else _) = _ => destruct b end; [discriminate|].
    inversion H; subst. cbn [fst]. exact (ctr_trans T _ _ _ C1 (ctr_trans T _ _ _ C2 C3)).
  Qed.

  Lemma prune_min_ctr : forall c c', wf_store (fst c) -> prune_min xs r c = Some c' -> ctr T c c'.
  Proof.
    intros c c' W H. unfold prune_min, xs in H. fold xs in H.
    apply obind_some in H. destruct H as (t & E & H). inversion H; subst.
    exact (min_steps15_ctr c t W E).
  Qed.

  Lemma prune_max_ctr : forall c c', wf_store (fst c) -> prune_max xs r c = Some c' -> ctr T c c'.
  Proof.
    intros c c' W H. unfold prune_max, xs in H. fold xs in H.
    apply obind_some in H. destruct H as (t & E & H). inversion H; subst.
    exact (max_steps15_ctr c t W E).
  Qed.

  (* --- soundness --- *)
  Lemma cvar_fixed : forall v a s0 ev, inst a s0 -> In v T -> (forall u, In u T -> dfixed (sget s0 u) = true) ->
    cvar_min v (s0, ev) = a v /\ cvar_max v (s0, ev) = a v.
  Proof.
    intros v a s0 ev Hi Hv Hf. destruct (cbnd_fixed (VVar v) T a s0 ev Hi (uin_var v T Hv) Hf) as [E1 E2].
    unfold cmin, cmax, vmin, vmax in E1, E2. cbn [vbnd vsem fst] in E1, E2.
    unfold cvar_min, cvar_max. cbn [fst]. split; assumption.
  Qed.

  Lemma min_steps15_snd : forall a n c, (r < n)%nat -> (forall v, In v xs -> (v < n)%nat) -> okc a n c ->
    a r = list_min (a v0) (map a rest) ->
    exists t, min_steps15 xs r c = Some t /\ okc a n (fst (fst t)).
  Proof.
    intros a n c Hr Hxs O Hs. unfold min_steps15, xs. cbv zeta.
    pose proof (fold_sel_min_spec (fun v => cvar_min v c) rest (cvar_min v0 c)) as P1.
    pose proof (fold_sel_min_spec (fun v => cvar_max v c) rest (cvar_max v0 c)) as P2.
    cbv zeta beta in P1, P2.
    set (mm := fold_left _ rest (cvar_min v0 c)) in *.
    set (mx := fold_left _ rest (cvar_max v0 c)) in *.
    destruct P1 as (A1 & A2 & _). destruct P2 as (_ & _ & A3).
    destruct (list_min_spec (map a rest) (a v0)) as (M1 & M2 & M3). rewrite <- Hs in *.
    assert (Mall : forall v, In v xs -> a r <= a v).
    { intros v [<-|Hv]; [exact M1|]. apply M2. apply in_map. exact Hv. }
    assert (Mex : exists v, In v xs /\ a v = a r).
    { destruct M3 as [E|Hin]; [exists v0; split; [left; reflexivity|lia]|].
      apply in_map_iff in Hin. destruct Hin as (v & E & Hv). exists v. split; [right; exact Hv|exact E]. }
    assert (B : forall c', okc a n c' -> forall v, In v xs -> cvar_min v c' <= a v <= cvar_max v c').
    { intros c' O' v Hv. apply (cvar_bounds v a n c' (Hxs v Hv) O'). }
    assert (Hb1 : bnd_ok (VVar r) false mm a).
    { unfold bnd_ok. cbn [vsem]. destruct Mex as (v & Hv & E). pose proof (B c O v Hv).
      destruct Hv as [<-|Hv]; [lia|]. pose proof (A2 v Hv). lia. }
    destruct (vset_ok (VVar r) false mm a n c I (uscope_var r n Hr) O Hb1) as (c1 & E1 & O1 & _).
    cbn [vset] in E1. rewrite E1. cbn [obind].
    assert (Hb2 : bnd_ok (VVar r) true mx a).
    { unfold bnd_ok. cbn [vsem]. destruct A3 as [E|(v & Hv & E)].
      - pose proof (B c O v0 (or_introl eq_refl)). pose proof (Mall v0 (or_introl eq_refl)). lia.
      - pose proof (B c O v (or_intror Hv)). pose proof (Mall v (or_intror Hv)). lia. }
    destruct (vset_ok (VVar r) true mx a n c1 I (uscope_var r n Hr) O1 Hb2) as (c2 & E2 & O2 & _).
    cbn [vset] in E2. rewrite E2. cbn [obind].
    pose proof (cvar_bounds r a n c2 Hr O2) as Br.
    destruct (each_set_snd false a n (v0 :: rest) (cvar_min r c2) c2 O2) as (c3 & E3 & O3).
    { intros v Hv. split; [apply Hxs; exact Hv|]. pose proof (Mall v Hv). lia. }
    rewrite E3. cbn [obind].
    match goal with |- exists t, (if ?b then _ else _) = _ /\ _ => destruct b eqn:Eb end.
    - exfalso. apply andb_prop in Eb. destruct Eb as [Eq Ne]. apply Z.eqb_eq in Eq.
      apply negb_true_iff in Ne. destruct Mex as (v & Hv & E).
      assert (Hex : existsb (can_be (cvar_min r c2) c3) (v0 :: rest) = true).
      { apply existsb_exists. exists v. split; [exact Hv|]. pose proof (B c3 O3 v Hv).
        unfold can_be. apply andb_true_intro. split; apply Z.leb_le; lia. }
      congruence.
    - eexists. split; [reflexivity|]. cbn [fst]. exact O3.
  Qed.

  Lemma prune_min_snd : forall a n c, (r < n)%nat -> (forall v, In v xs -> (v < n)%nat) -> okc a n c ->
    a r = list_min (a v0) (map a rest) -> exists c2, prune_min xs r c = Some c2 /\ okc a n c2.
  Proof.
    intros a n c Hr Hxs O Hs. destruct (min_steps15_snd a n c Hr Hxs O Hs) as (t & E & Ot).
    unfold prune_min, xs. fold xs. rewrite E. cbn [obind]. eexists. split; [reflexivity|exact Ot].
  Qed.

  (* --- checking --- *)
  Lemma prune_min_chk : forall s0 ev a, wf_store s0 -> inst a s0 ->
    (forall v, In v T -> dfixed (sget s0 v) = true) ->
    prune_min xs r (s0, ev) <> None -> a r = list_min (a v0) (map a rest).
  Proof.
    intros s0 ev a W Hi Hf H. unfold prune_min, xs in H. fold xs in H.
    destruct (min_steps15 xs r (s0, ev)) as [t|] eqn:E; [clear H|exfalso; apply H; reflexivity].
    unfold min_steps15, xs in E. cbv zeta in E.
    pose proof (fold_sel_min_spec (fun v => cvar_min v (s0, ev)) rest (cvar_min v0 (s0, ev))) as P1.
    pose proof (fold_sel_min_spec (fun v => cvar_max v (s0, ev)) rest (cvar_max v0 (s0, ev))) as P2.
    cbv zeta beta in P1, P2.
    set (mm := fold_left _ rest (cvar_min v0 (s0, ev))) in *.
    set (mx := fold_left _ rest (cvar_max v0 (s0, ev))) in *.
    pose proof (fixed_of_uin (VVar r) T s0 (uin_var r T Ur) Hf) as Fr.
    assert (N1 : obind (vset (VVar r) false mm (s0, ev))
              (fun c => do c2 <- cset_max r mx c;
                        do c3 <- each_set_min (v0 :: rest) (cvar_min r c2) c2;
                        (if (cvar_min r c2 =? cvar_max r c2) && negb (existsb (can_be (cvar_min r c2) c3) (v0 :: rest))
                         then None else Some (c3, cvar_min r c2, cvar_max r c2))) <> None).
    { cbn [vset]. rewrite E. discriminate. }
    destruct (chk_step_gen (VVar r) false mm a s0 ev _ I W Hi Fr N1) as [B1 N2]. cbv beta in N2.
    destruct (chk_step_gen (VVar r) true mx a s0 ev _ I W Hi Fr N2) as [B2 _].
    unfold bnd_ok in B1, B2. cbn [vsem] in B1, B2.
    assert (F : forall v, In v xs -> cvar_min v (s0, ev) = a v /\ cvar_max v (s0, ev) = a v).
    { intros v Hv. apply cvar_fixed; [exact Hi|apply Uxs; exact Hv|exact Hf]. }
    destruct (list_min_spec (map a rest) (a v0)) as (M1 & M2 & M3).
    set (M := list_min (a v0) (map a rest)) in *.
    assert (Mall : forall v, In v xs -> M <= a v).
    { intros v [<-|Hv]; [exact M1|]. apply M2. apply in_map. exact Hv. }
    assert (Mex : exists v, In v xs /\ a v = M).
    { destruct M3 as [E'|Hin]; [exists v0; split; [left; reflexivity|lia]|].
      apply in_map_iff in Hin. destruct Hin as (v & E' & Hv). exists v. split; [right; exact Hv|exact E']. }
    destruct P1 as (A1 & A2 & A3). destruct P2 as (C1 & C2 & C3).
    destruct (F v0 (or_introl eq_refl)) as [F0 F0'].
    assert (Lmm : M <= mm).
    { destruct A3 as [E'|(v & Hv & E')]; [pose proof (Mall v0 (or_introl eq_refl)); lia|].
      destruct (F v (or_intror Hv)). pose proof (Mall v (or_intror Hv)). lia. }
    assert (Umx : mx <= M).
    { destruct Mex as (v & Hv & E'). destruct (F v Hv) as [_ Fv].
      destruct Hv as [<-|Hv]; [lia|]. pose proof (C2 v Hv). lia. }
    lia.
  Qed.

  (* --- frame --- *)
  Definition trel (t1 t2 : ctx * Z * Z) : Prop := agr T (fst (fst t1)) (fst (fst t2)).

  Lemma can_be_frame : forall t c1 c2 v, In v T -> agr T c1 c2 -> can_be t c1 v = can_be t c2 v.
  Proof.
    intros t c1 c2 v Hv Ha. unfold can_be.
    rewrite (cvar_min_frame v T c1 c2 Hv Ha), (cvar_max_frame v T c1 c2 Hv Ha). reflexivity.
  Qed.

  Lemma min_steps15_frm : forall c1 c2, agr T c1 c2 -> orel trel (min_steps15 xs r c1) (min_steps15 xs r c2).
  Proof.
    intros c1 c2 Ha. unfold min_steps15, xs. cbv zeta.
    assert (U0 : In v0 T) by (apply Uxs; left; reflexivity).
    assert (Ur' : forall v, In v rest -> In v T) by (intros v Hv; apply Uxs; right; exact Hv).
    match goal with |- orel _ (obind (cset_min r ?m1 c1) _) (obind (cset_min r ?m2 c2) _) =>
      assert (Em : m1 = m2) end.
    { rewrite (cvar_min_frame v0 T c1 c2 U0 Ha).
      apply (fold_sel_ext Z.ltb (fun v => cvar_min v c1) (fun v => cvar_min v c2)).
      intros v Hv. apply (cvar_min_frame v T c1 c2); [apply Ur'; exact Hv|exact Ha]. }
    rewrite Em. clear Em.
    apply (obind_orel (agr T) trel); [apply cset_min_frame; assumption|]. intros d1 d2 Hd.
    match goal with |- orel _ (obind (cset_max r ?m1 d1) _) (obind (cset_max r ?m2 d2) _) =>
      assert (Em : m1 = m2) end.
    { rewrite (cvar_max_frame v0 T c1 c2 U0 Ha).
      apply (fold_sel_ext Z.ltb (fun v => cvar_max v c1) (fun v => cvar_max v c2)).
      intros v Hv. apply (cvar_max_frame v T c1 c2); [apply Ur'; exact Hv|exact Ha]. }
    rewrite Em. clear Em.
    apply (obind_orel (agr T) trel); [apply cset_max_frame; assumption|]. intros e1 e2 He.
    rewrite (cvar_min_frame r T e1 e2 Ur He), (cvar_max_frame r T e1 e2 Ur He).
    apply (obind_orel (agr T) trel); [apply (each_set_frm T false); assumption|]. intros f1 f2 Hf.
    rewrite (existsb_ext_in (can_be (cvar_min r e2) f1) (can_be (cvar_min r e2) f2)).
    2:{ intros v Hv. apply can_be_frame; [apply Uxs; exact Hv|exact Hf]. }
    match goal with |- orel _ (if ?b then _ else _) _ => destruct b end; [exact I|exact Hf].
  Qed.

  Lemma prune_min_frm : forall c1 c2, agr T c1 c2 -> orel (agr T) (prune_min xs r c1) (prune_min xs r c2).
  Proof.
    intros c1 c2 Ha. unfold prune_min, xs. fold xs.
    apply (obind_orel trel (agr T)); [apply min_steps15_frm; exact Ha|].
    intros t1 t2 Ht. exact Ht.
  Qed.

  (* --- Max: soundness, checking, frame --- *)
  Lemma max_steps15_snd : forall a n c, (r < n)%nat -> (forall v, In v xs -> (v < n)%nat) -> okc a n c ->
    a r = list_max (a v0) (map a rest) ->
    exists t, max_steps15 xs r c = Some t /\ okc a n (fst (fst t)).
  Proof.
    intros a n c Hr Hxs O Hs. unfold max_steps15, xs. cbv zeta.
    pose proof (fold_sel_max_spec (fun v => cvar_min v c) rest (cvar_min v0 c)) as P1.
    pose proof (fold_sel_max_spec (fun v => cvar_max v c) rest (cvar_max v0 c)) as P2.
    cbv zeta beta in P1, P2.
    set (mm := fold_left _ rest (cvar_min v0 c)) in *.
    set (mx := fold_left _ rest (cvar_max v0 c)) in *.
    destruct P1 as (_ & _ & A3). destruct P2 as (A1 & A2 & _).
    destruct (list_max_spec (map a rest) (a v0)) as (M1 & M2 & M3). rewrite <- Hs in *.
    assert (Mall : forall v, In v xs -> a v <= a r).
    { intros v [<-|Hv]; [exact M1|]. apply M2. apply in_map. exact Hv. }
    assert (Mex : exists v, In v xs /\ a v = a r).
    { destruct M3 as [E|Hin]; [exists v0; split; [left; reflexivity|lia]|].
      apply in_map_iff in Hin. destruct Hin as (v & E & Hv). exists v. split; [right; exact Hv|exact E]. }
    assert (B : forall c', okc a n c' -> forall v, In v xs -> cvar_min v c' <= a v <= cvar_max v c').
    { intros c' O' v Hv. apply (cvar_bounds v a n c' (Hxs v Hv) O'). }
    assert (Hb1 : bnd_ok (VVar r) false mm a).
    { unfold bnd_ok. cbn [vsem]. destruct A3 as [E|(v & Hv & E)].
      - pose proof (B c O v0 (or_introl eq_refl)). pose proof (Mall v0 (or_introl eq_refl)). lia.
      - pose proof (B c O v (or_intror Hv)). pose proof (Mall v (or_intror Hv)). lia. }
    destruct (vset_ok (VVar r) false mm a n c I (uscope_var r n Hr) O Hb1) as (c1 & E1 & O1 & _).
    cbn [vset] in E1. rewrite E1. cbn [obind].
    assert (Hb2 : bnd_ok (VVar r) true mx a).
    { unfold bnd_ok. cbn [vsem]. destruct Mex as (v & Hv & E). pose proof (B c O v Hv).
      destruct Hv as [<-|Hv]; [lia|]. pose proof (A2 v Hv). lia. }
    destruct (vset_ok (VVar r) true mx a n c1 I (uscope_var r n Hr) O1 Hb2) as (c2 & E2 & O2 & _).
    cbn [vset] in E2. rewrite E2. cbn [obind].
    pose proof (cvar_bounds r a n c2 Hr O2) as Br.
    destruct (each_set_snd true a n (v0 :: rest) (cvar_max r c2) c2 O2) as (c3 & E3 & O3).
    { intros v Hv. split; [apply Hxs; exact Hv|]. pose proof (Mall v Hv). lia. }
    rewrite E3. cbn [obind].
    match goal with |- exists t, (if ?b then _ else _) = _ /\ _ => destruct b eqn:Eb end.
    - exfalso. apply andb_prop in Eb. destruct Eb as [Eq Ne]. apply Z.eqb_eq in Eq.
      apply negb_true_iff in Ne. destruct Mex as (v & Hv & E).
      assert (Hex : existsb (can_be (cvar_max r c2) c3) (v0 :: rest) = true).
      { apply existsb_exists. exists v. split; [exact Hv|]. pose proof (B c3 O3 v Hv).
        unfold can_be. apply andb_true_intro. split; apply Z.leb_le; lia. }
      congruence.
    - eexists. split; [reflexivity|]. cbn [fst]. exact O3.
  Qed.

  Lemma prune_max_snd : forall a n c, (r < n)%nat -> (forall v, In v xs -> (v < n)%nat) -> okc a n c ->
    a r = list_max (a v0) (map a rest) -> exists c2, prune_max xs r c = Some c2 /\ okc a n c2.
  Proof.
    intros a n c Hr Hxs O Hs. destruct (max_steps15_snd a n c Hr Hxs O Hs) as (t & E & Ot).
    unfold prune_max, xs. fold xs. rewrite E. cbn [obind]. eexists. split; [reflexivity|exact Ot].
  Qed.

  Lemma prune_max_chk : forall s0 ev a, wf_store s0 -> inst a s0 ->
    (forall v, In v T -> dfixed (sget s0 v) = true) ->
    prune_max xs r (s0, ev) <> None -> a r = list_max (a v0) (map a rest).
  Proof.
    intros s0 ev a W Hi Hf H. unfold prune_max, xs in H. fold xs in H.
    destruct (max_steps15 xs r (s0, ev)) as [t|] eqn:E; [clear H|exfalso; apply H; reflexivity].
    unfold max_steps15, xs in E. cbv zeta in E.
    pose proof (fold_sel_max_spec (fun v => cvar_min v (s0, ev)) rest (cvar_min v0 (s0, ev))) as P1.
    pose proof (fold_sel_max_spec (fun v => cvar_max v (s0, ev)) rest (cvar_max v0 (s0, ev))) as P2.
    cbv zeta beta in P1, P2.
    set (mm := fold_left _ rest (cvar_min v0 (s0, ev))) in *.
    set (mx := fold_left _ rest (cvar_max v0 (s0, ev))) in *.
    pose proof (fixed_of_uin (VVar r) T s0 (uin_var r T Ur) Hf) as Fr.
    assert (N1 : obind (vset (VVar r) false mm (s0, ev))
              (fun c => do c2 <- cset_max r mx c;
                        do c3 <- each_set_max (v0 :: rest) (cvar_max r c2) c2;
                        (if (cvar_min r c2 =? cvar_max r c2) && negb (existsb (can_be (cvar_max r c2) c3) (v0 :: rest))
                         then None else Some (c3, cvar_min r c2, cvar_max r c2))) <> None).
    { cbn [vset]. rewrite E. discriminate. }
    destruct (chk_step_gen (VVar r) false mm a s0 ev _ I W Hi Fr N1) as [B1 N2]. cbv beta in N2.
    destruct (chk_step_gen (VVar r) true mx a s0 ev _ I W Hi Fr N2) as [B2 _].
    unfold bnd_ok in B1, B2. cbn [vsem] in B1, B2.
    assert (F : forall v, In v xs -> cvar_min v (s0, ev) = a v /\ cvar_max v (s0, ev) = a v).
    { intros v Hv. apply cvar_fixed; [exact Hi|apply Uxs; exact Hv|exact Hf]. }
    destruct (list_max_spec (map a rest) (a v0)) as (M1 & M2 & M3).
    set (M := list_max (a v0) (map a rest)) in *.
    assert (Mall : forall v, In v xs -> a v <= M).
    { intros v [<-|Hv]; [exact M1|]. apply M2. apply in_map. exact Hv. }
    assert (Mex : exists v, In v xs /\ a v = M).
    { destruct M3 as [E'|Hin]; [exists v0; split; [left; reflexivity|lia]|].
      apply in_map_iff in Hin. destruct Hin as (v & E' & Hv). exists v. split; [right; exact Hv|exact E']. }
    destruct P1 as (A1 & A2 & A3). destruct P2 as (C1 & C2 & C3).
    destruct (F v0 (or_introl eq_refl)) as [F0 F0'].
    assert (Lmm : M <= mm).
    { destruct Mex as (v & Hv & E'). destruct (F v Hv) as [Fv _].
      destruct Hv as [<-|Hv]; [lia|]. pose proof (A2 v Hv). lia. }
    assert (Umx : mx <= M).
    { destruct C3 as [E'|(v & Hv & E')]; [pose proof (Mall v0 (or_introl eq_refl)); lia|].
      destruct (F v (or_intror Hv)). pose proof (Mall v (or_intror Hv)). lia. }
    lia.
  Qed.

  Lemma max_steps15_frm : forall c1 c2, agr T c1 c2 -> orel trel (max_steps15 xs r c1) (max_steps15 xs r c2).
  Proof.
    intros c1 c2 Ha. unfold max_steps15, xs. cbv zeta.
    assert (U0 : In v0 T) by (apply Uxs; left; reflexivity).
    assert (Ur' : forall v, In v rest -> In v T) by (intros v Hv; apply Uxs; right; exact Hv).
    match goal with |- orel _ (obind (cset_min r ?m1 c1) _) (obind (cset_min r ?m2 c2) _) =>
      assert (Em : m1 = m2) end.
    { rewrite (cvar_min_frame v0 T c1 c2 U0 Ha).
      apply (fold_sel_ext (fun m acc => acc <? m) (fun v => cvar_min v c1) (fun v => cvar_min v c2)).
      intros v Hv. apply (cvar_min_frame v T c1 c2); [apply Ur'; exact Hv|exact Ha]. }
    rewrite Em. clear Em.
    apply (obind_orel (agr T) trel); [apply cset_min_frame; assumption|]. intros d1 d2 Hd.
    match goal with |- orel _ (obind (cset_max r ?m1 d1) _) (obind (cset_max r ?m2 d2) _) =>
      assert (Em : m1 = m2) end.
    { rewrite (cvar_max_frame v0 T c1 c2 U0 Ha).
      apply (fold_sel_ext (fun m acc => acc <? m) (fun v => cvar_max v c1) (fun v => cvar_max v c2)).
      intros v Hv. apply (cvar_max_frame v T c1 c2); [apply Ur'; exact Hv|exact Ha]. }
    rewrite Em. clear Em.
    apply (obind_orel (agr T) trel); [apply cset_max_frame; assumption|]. intros e1 e2 He.
    rewrite (cvar_min_frame r T e1 e2 Ur He), (cvar_max_frame r T e1 e2 Ur He).
    apply (obind_orel (agr T) trel); [apply (each_set_frm T true); assumption|]. intros f1 f2 Hf.
    rewrite (existsb_ext_in (can_be (cvar_max r e2) f1) (can_be (cvar_max r e2) f2)).
    2:{ intros v Hv. apply can_be_frame; [apply Uxs; exact Hv|exact Hf]. }
    match goal with |- orel _ (if ?b then _ else _) _ => destruct b end; [exact I|exact Hf].
  Qed.

  Lemma prune_max_frm : forall c1 c2, agr T c1 c2 -> orel (agr T) (prune_max xs r c1) (prune_max xs r c2).
  Proof.
    intros c1 c2 Ha. unfold prune_max, xs. fold xs.
    apply (obind_orel trel (agr T)); [apply max_steps15_frm; exact Ha|].
    intros t1 t2 Ht. exact Ht.
  Qed.
End MinMax.

Lemma mk_minof_good : forall xs r, xs <> [] -> good (mk_minof xs r).
Proof.
  intros [|v0 rest] r Hne; [congruence|]. set (T := trig (mk_minof (v0 :: rest) r)).
  assert (Ur : In r T) by (left; reflexivity).
  assert (Uxs : forall v, In v (v0 :: rest) -> In v T) by (intros v Hv; right; exact Hv).
  split; [|split; [|split]].
  - apply contracting_of_ctr. intros c c' W H. exact (prune_min_ctr v0 rest r T Ur Uxs c c' W H).
  - apply sound_of_okc. intros a n c Hsc O Hs. cbn [sat mk_minof min_sem] in Hs. apply Z.eqb_eq in Hs.
    apply (prune_min_snd v0 rest r a n c); try assumption.
    + apply Hsc, Ur.
    + intros v Hv. apply Hsc, Uxs, Hv.
  - intros s0 ev a W Hi Hf H. cbn [sat mk_minof min_sem]. apply Z.eqb_eq.
    exact (prune_min_chk v0 rest r T Ur Uxs s0 ev a W Hi Hf H).
  - apply frame_of_agr.
    + intros c1 c2 Ha. exact (prune_min_frm v0 rest r T Ur Uxs c1 c2 Ha).
    + intros a1 a2 H. cbn [sat mk_minof min_sem].
      rewrite (H r Ur), (H v0 (Uxs v0 (or_introl eq_refl))).
      rewrite (map_ext_in a1 a2 rest); [reflexivity|]. intros v Hv. apply H, Uxs. right. exact Hv.
Qed.

Lemma mk_maxof_good : forall xs r, xs <> [] -> good (mk_maxof xs r).
Proof.
  intros [|v0 rest] r Hne; [congruence|]. set (T := trig (mk_maxof (v0 :: rest) r)).
  assert (Ur : In r T) by (left; reflexivity).
  assert (Uxs : forall v, In v (v0 :: rest) -> In v T) by (intros v Hv; right; exact Hv).
  split; [|split; [|split]].
  - apply contracting_of_ctr. intros c c' W H. exact (prune_max_ctr v0 rest r T Ur Uxs c c' W H).
  - apply sound_of_okc. intros a n c Hsc O Hs. cbn [sat mk_maxof max_sem] in Hs. apply Z.eqb_eq in Hs.
    apply (prune_max_snd v0 rest r a n c); try assumption.
    + apply Hsc, Ur.
    + intros v Hv. apply Hsc, Uxs, Hv.
  - intros s0 ev a W Hi Hf H. cbn [sat mk_maxof max_sem]. apply Z.eqb_eq.
    exact (prune_max_chk v0 rest r T Ur Uxs s0 ev a W Hi Hf H).
  - apply frame_of_agr.
    + intros c1 c2 Ha. exact (prune_max_frm v0 rest r T Ur Uxs c1 c2 Ha).
    + intros a1 a2 H. cbn [sat mk_maxof max_sem].
      rewrite (H r Ur), (H v0 (Uxs v0 (or_introl eq_refl))).
      rewrite (map_ext_in a1 a2 rest); [reflexivity|]. intros v Hv. apply H, Uxs. right. exact Hv.
Qed.

(* ------------------------------------------------------------------------------------------ *)
(* Sources at the pinned commit: refutations (vm_compute on concrete witnesses) *)

Ltac wf3 := let v := fresh "v" in let Hv := fresh "Hv" in
  intros v Hv; cbn in Hv;
  destruct v as [|[|[|v]]]; [| | |exfalso; lia];
  (split; [discriminate|cbn; repeat split; lia]).
Ltac inst3 := let v := fresh "v" in let Hv := fresh "Hv" in
  intros v Hv; cbn in Hv;
  destruct v as [|[|[|v]]]; [| | |exfalso; lia]; cbn; tauto.
Ltac scope3 := let v := fresh "v" in let Hv := fresh "Hv" in
  intros v Hv; cbn in Hv; cbn; lia.

(* D2, Min: v in {0,1}, w = 1, r in {0,1}; step 6 sets r <= next_min - 1 = 0 and loses (1,1,1).
   case line: 0,1|1|0,1 ; minof x0,x1 x2 *)
Lemma mk_minof_prefix_sound_refuted : exists xs r, xs <> [] /\ ~ sound (mk_minof_prefix xs r).
Proof.
  exists [0%nat; 1%nat], 2%nat. split; [discriminate|]. intros H.
  destruct (H [[0; 1]; [1]; [0; 1]] [] (fun _ => 1)) as (s' & ev' & E & Hi).
  - wf3.
  - scope3.
  - inst3.
  - reflexivity.
  - vm_compute in E. inversion E; subst. specialize (Hi 2%nat). cbn in Hi. lia.
Qed.

(* D2, Max: v in {0,1}, w = 0, r in {0,1}; step 6 sets r >= prev_max + 1 = 1 and loses (0,0,0).
   case line: 0,1|0|0,1 ; maxof x0,x1 x2 *)
Lemma mk_maxof_prefix_sound_refuted : exists xs r, xs <> [] /\ ~ sound (mk_maxof_prefix xs r).
Proof.
  exists [0%nat; 1%nat], 2%nat. split; [discriminate|]. intros H.
  destruct (H [[0; 1]; [0]; [0; 1]] [] (fun _ => 0)) as (s' & ev' & E & Hi).
  - wf3.
  - scope3.
  - inst3.
  - reflexivity.
  - vm_compute in E. inversion E; subst. specialize (Hi 2%nat). cbn in Hi. lia.
Qed.

Definition asg3 (p q w : Z) : asg := fun v => match v with O => p | S O => q | _ => w end.

(* D4, CASE 2: a positive fixed divisor forces s >= 0; x in {-1,0}, y = 2, s in {-1,0} loses (-1,2,-1).
   case line: -1,0|2|-1,0 ; mod x0 x1 x2 *)
Lemma mk_mod_prefix_sound_refuted_case2 : ~ sound (mk_mod_prefix (VVar 0) (VVar 1) 2).
Proof.
  intros H. destruct (H [[-1; 0]; [2]; [-1; 0]] [] (asg3 (-1) 2 (-1))) as (s' & ev' & E & Hi).
  - wf3.
  - scope3.
  - inst3.
  - reflexivity.
  - vm_compute in E. inversion E; subst. specialize (Hi 2%nat). cbn in Hi. lia.
Qed.

(* CASE 4 with a negative fixed divisor: the k range comes out reversed and only its middle is tried;
   x in 0..2, y = -1, s = 0 prunes x to {1} and loses (0,-1,0) and (2,-1,0).
   case line: 0..2|-1|0 ; mod x0 x1 x2 *)
Lemma mk_mod_prefix_sound_refuted_case4 : ~ sound (mk_mod_prefix (VVar 0) (VVar 1) 2).
Proof.
  intros H. destruct (H [[0; 1; 2]; [-1]; [0]] [] (asg3 0 (-1) 0)) as (s' & ev' & E & Hi).
  - wf3.
  - scope3.
  - inst3.
  - reflexivity.
  - vm_compute in E. inversion E; subst. specialize (Hi 0%nat). cbn in Hi. lia.
Qed.

(* CASE 3 boundary sampling: x in 0..20 (wider than the enumeration limit), y in 3..4: the samples
   0%3, 0%4, 20%3, 20%4 give s <= 2 and lose (3,4,3).
   case line: 0..20|3..4|0..10 ; mod x0 x1 x2 *)
Lemma mk_mod_prefix_sound_refuted_case3 : ~ sound (mk_mod_prefix (VVar 0) (VVar 1) 2).
Proof.
  intros H. destruct (H [drange 0 20; [3; 4]; drange 0 10] [] (asg3 3 4 3)) as (s' & ev' & E & Hi).
  - intros v Hv. cbn in Hv. destruct v as [|[|[|v]]]; [| | |exfalso; lia];
      (split; [discriminate|vm_compute; repeat split]).
  - scope3.
  - intros v Hv. cbn in Hv. destruct v as [|[|[|v]]]; [| | |exfalso; lia]; vm_compute; tauto.
  - reflexivity.
  - vm_compute in E. inversion E; subst. assert (L : (2 < 3)%nat) by lia. specialize (Hi 2%nat L). vm_compute in Hi.
    repeat (destruct Hi as [Hi|Hi]; [discriminate Hi|]). exact Hi.
Qed.

Lemma mk_mod_prefix_sound_refuted : exists x y s, view_ok x /\ view_ok y /\ ~ sound (mk_mod_prefix x y s).
Proof. exists (VVar 0), (VVar 1), 2%nat. split; [exact I|]. split; [exact I|]. exact mk_mod_prefix_sound_refuted_case2. Qed.

(* a divisor fixed to zero is never tested: x = y = s = 0 is accepted.
   case line: 0|0|0 ; mod x0 x1 x2 *)
Lemma mk_mod_prefix_checking_refuted : exists x y s, view_ok x /\ view_ok y /\ ~ checking (mk_mod_prefix x y s).
Proof.
  exists (VVar 0), (VVar 1), 2%nat. split; [exact I|]. split; [exact I|]. intros H.
  assert (A : sat (mk_mod_prefix (VVar 0) (VVar 1) 2) (fun _ => 0) = true).
  { apply (H [[0]; [0]; [0]] []).
    - wf3.
    - inst3.
    - intros v Hv. cbn in Hv. destruct Hv as [<-|[<-|[<-|[]]]]; reflexivity.
    - vm_compute. discriminate. }
  vm_compute in A. discriminate.
Qed.

(* ------------------------------------------------------------------------------------------ *)
(* Outside the known classes a call of the pinned code is a call of the repaired code *)
Lemma zlist_eqb_eq : forall l1 l2, zlist_eqb l1 l2 = true -> l1 = l2.
Proof.
  induction l1 as [|x l1 IH]; intros [|y l2] H; cbn in H; try discriminate; [reflexivity|].
  apply andb_prop in H. destruct H as [E H]. apply Z.eqb_eq in E. rewrite E, (IH l2 H). reflexivity.
Qed.
Lemma store_eqb_eq : forall s1 s2, store_eqb s1 s2 = true -> s1 = s2.
Proof.
  induction s1 as [|d s1 IH]; intros [|e s2] H; cbn in H; try discriminate; [reflexivity|].
  apply andb_prop in H. destruct H as [E H]. rewrite (zlist_eqb_eq _ _ E), (IH s2 H). reflexivity.
Qed.
Lemma map_of_nat_inj : forall l1 l2, map Z.of_nat l1 = map Z.of_nat l2 -> l1 = l2.
Proof.
  induction l1 as [|x l1 IH]; intros [|y l2] H; cbn in H; try discriminate; [reflexivity|].
  inversion H. rewrite (IH l2); [|assumption]. f_equal. lia.
Qed.
Lemma same_result_eq : forall o1 o2, same_result o1 o2 = true -> o1 = o2.
Proof.
  intros [[s1 e1]|] [[s2 e2]|] H; cbn in H; try discriminate; [|reflexivity].
  apply andb_prop in H. destruct H as [A B].
  rewrite (store_eqb_eq _ _ A), (map_of_nat_inj _ _ (zlist_eqb_eq _ _ B)). reflexivity.
Qed.

Lemma kf_min_step6_complement : forall xs r c, kf_min_step6 xs r c = false -> prune_min_prefix xs r c = prune_min xs r c.
Proof. intros xs r c H. apply same_result_eq. unfold kf_min_step6 in H. apply negb_false_iff in H. exact H. Qed.
Lemma kf_max_step6_complement : forall xs r c, kf_max_step6 xs r c = false -> prune_max_prefix xs r c = prune_max xs r c.
Proof. intros xs r c H. apply same_result_eq. unfold kf_max_step6 in H. apply negb_false_iff in H. exact H. Qed.
Lemma kf_mod_prefix_complement : forall x y s c, kf_mod_prefix x y s c = false -> prune_mod_prefix x y s c = prune_mod x y s c.
Proof. intros x y s c H. apply same_result_eq. unfold kf_mod_prefix in H. apply negb_false_iff in H. exact H. Qed.

(* the classes are inhabited (the witnesses above) and so are their complements *)
Example kf_min_step6_witness : kf_min_step6 [0%nat; 1%nat] 2 ([[0; 1]; [1]; [0; 1]], []) = true.
Proof. vm_compute. reflexivity. Qed.
Example kf_min_step6_outside : kf_min_step6 [0%nat; 1%nat] 2 ([[-3; 0; 2]; [-1; 4]; [-5; -1; 3; 6]], []) = false.
Proof. vm_compute. reflexivity. Qed.
Example kf_max_step6_witness : kf_max_step6 [0%nat; 1%nat] 2 ([[0; 1]; [0]; [0; 1]], []) = true.
Proof. vm_compute. reflexivity. Qed.
Example kf_mod_prefix_witness : kf_mod_prefix (VVar 0) (VVar 1) 2 ([[-1; 0]; [2]; [-1; 0]], []) = true.
Proof. vm_compute. reflexivity. Qed.
Example kf_mod_prefix_outside : kf_mod_prefix (VVar 0) (VVar 1) 2 ([[2; 5; 9]; [3; 4]; [-2; 0; 1; 7]], []) = false.
Proof. vm_compute. reflexivity. Qed.
