(* The four local contracts (Model/PropDefs.v) for the multiplication propagator
   `mk_mul` of Model/Props/Arith.v (Mul::prune, mul.rs:19-97). *)
Require Import Selen.Model.Prelude Selen.Model.Dom Selen.Model.Views Selen.Model.PropDefs
  Selen.Model.Props.Basic Selen.Model.Props.Arith.
Require Import Selen.Proofs.DomProofs Selen.Proofs.ViewsProofs Selen.Proofs.Props.BasicProofs.
Require Import Psatz.

(* ------------------------------------------------------------------------------------------ *)
(* integer selection folds *)

Lemma sel_min_le : forall l d x, In x (d :: l) -> sel_min l d <= x.
Proof.
  unfold sel_min. induction l as [|y l IH]; intros d x H; cbn [fold_left].
  - destruct H as [<-|[]]. lia.
  - destruct (y <? d) eqn:E.
    + apply Z.ltb_lt in E. destruct H as [<-|[<-|H]].
      * apply Z.le_trans with y; [apply IH; left; reflexivity|lia].
      * apply IH; left; reflexivity.
      * apply IH; right; exact H.
    + apply Z.ltb_ge in E. destruct H as [<-|[<-|H]].
      * apply IH; left; reflexivity.
      * apply Z.le_trans with d; [apply IH; left; reflexivity|lia].
      * apply IH; right; exact H.
Qed.

Lemma sel_max_ge : forall l d x, In x (d :: l) -> x <= sel_max l d.
Proof.
  unfold sel_max. induction l as [|y l IH]; intros d x H; cbn [fold_left].
  - destruct H as [<-|[]]. lia.
  - destruct (d <? y) eqn:E.
    + apply Z.ltb_lt in E. destruct H as [<-|[<-|H]].
      * apply Z.le_trans with y; [lia|apply IH; left; reflexivity].
      * apply IH; left; reflexivity.
      * apply IH; right; exact H.
    + apply Z.ltb_ge in E. destruct H as [<-|[<-|H]].
      * apply IH; left; reflexivity.
      * apply Z.le_trans with d; [lia|apply IH; left; reflexivity].
      * apply IH; right; exact H.
Qed.

(* interval multiplication: X*Y lies between the extreme corner products *)
Lemma mul_corner_lo : forall xmin xmax ymin ymax X Y,
  xmin <= X <= xmax -> ymin <= Y <= ymax ->
  exists p, In p [xmin * ymin; xmin * ymax; xmax * ymin; xmax * ymax] /\ p <= X * Y.
Proof.
  intros xmin xmax ymin ymax X Y HX HY.
  destruct (Z_le_gt_dec 0 Y) as [Y0|Y0].
  - assert (A : xmin * Y <= X * Y) by nia.
    destruct (Z_le_gt_dec 0 xmin) as [M|M].
    + exists (xmin * ymin). split; [cbn; tauto|]. assert (xmin * ymin <= xmin * Y) by nia. lia.
    + exists (xmin * ymax). split; [cbn; tauto|]. assert (xmin * ymax <= xmin * Y) by nia. lia.
  - assert (A : xmax * Y <= X * Y) by nia.
    destruct (Z_le_gt_dec 0 xmax) as [M|M].
    + exists (xmax * ymin). split; [cbn; tauto|]. assert (xmax * ymin <= xmax * Y) by nia. lia.
    + exists (xmax * ymax). split; [cbn; tauto|]. assert (xmax * ymax <= xmax * Y) by nia. lia.
Qed.

Lemma mul_corner_hi : forall xmin xmax ymin ymax X Y,
  xmin <= X <= xmax -> ymin <= Y <= ymax ->
  exists p, In p [xmin * ymin; xmin * ymax; xmax * ymin; xmax * ymax] /\ X * Y <= p.
Proof.
  intros xmin xmax ymin ymax X Y HX HY.
  destruct (Z_le_gt_dec 0 Y) as [Y0|Y0].
  - assert (A : X * Y <= xmax * Y) by nia.
    destruct (Z_le_gt_dec 0 xmax) as [M|M].
    + exists (xmax * ymax). split; [cbn; tauto|]. assert (xmax * Y <= xmax * ymax) by nia. lia.
    + exists (xmax * ymin). split; [cbn; tauto|]. assert (xmax * Y <= xmax * ymin) by nia. lia.
  - assert (A : X * Y <= xmin * Y) by nia.
    destruct (Z_le_gt_dec 0 xmin) as [M|M].
    + exists (xmin * ymax). split; [cbn; tauto|]. assert (xmin * Y <= xmin * ymax) by nia. lia.
    + exists (xmin * ymin). split; [cbn; tauto|]. assert (xmin * Y <= xmin * ymin) by nia. lia.
Qed.

Lemma sel_min_products : forall xmin xmax ymin ymax X Y,
  xmin <= X <= xmax -> ymin <= Y <= ymax ->
  sel_min [xmin * ymin; xmin * ymax; xmax * ymin; xmax * ymax] (xmin * ymin) <= X * Y.
Proof.
  intros xmin xmax ymin ymax X Y HX HY.
  destruct (mul_corner_lo xmin xmax ymin ymax X Y HX HY) as (p & Hp & L).
  apply Z.le_trans with p; [|exact L]. apply sel_min_le. right. exact Hp.
Qed.

Lemma sel_max_products : forall xmin xmax ymin ymax X Y,
  xmin <= X <= xmax -> ymin <= Y <= ymax ->
  X * Y <= sel_max [xmin * ymin; xmin * ymax; xmax * ymin; xmax * ymax] (xmin * ymin).
Proof.
  intros xmin xmax ymin ymax X Y HX HY.
  destruct (mul_corner_hi xmin xmax ymin ymax X Y HX HY) as (p & Hp & L).
  apply Z.le_trans with p; [exact L|]. apply sel_max_ge. right. exact Hp.
Qed.

(* ------------------------------------------------------------------------------------------ *)
(* rationals: order against an integer, ceil / floor *)

Definition rle_val (q : rat) (X : Z) : Prop := fst (rnorm q) <= X * snd (rnorm q).
Definition rge_val (q : rat) (X : Z) : Prop := X * snd (rnorm q) <= fst (rnorm q).
Definition rnz (q : rat) : Prop := snd q <> 0.

Lemma rnorm_pos : forall q, rnz q -> 0 < snd (rnorm q).
Proof.
  intros [a b] H. unfold rnz in H. cbn [snd] in H. unfold rnorm.
  destruct (b <? 0) eqn:E; cbn [snd]; [apply Z.ltb_lt in E|apply Z.ltb_ge in E]; lia.
Qed.

Lemma rlt_spec : forall p q,
  rlt p q = (fst (rnorm p) * snd (rnorm q) <? fst (rnorm q) * snd (rnorm p)).
Proof. intros p q. unfold rlt. destruct (rnorm p), (rnorm q). reflexivity. Qed.

Lemma rle_val_pos : forall s d X, 0 < d -> (rle_val (s, d) X <-> s <= X * d).
Proof.
  intros s d X H. unfold rle_val, rnorm. destruct (d <? 0) eqn:E.
  - apply Z.ltb_lt in E. lia.
  - cbn [fst snd]. tauto.
Qed.
Lemma rle_val_neg : forall s d X, d < 0 -> (rle_val (s, d) X <-> X * d <= s).
Proof.
  intros s d X H. unfold rle_val, rnorm. destruct (d <? 0) eqn:E.
  - cbn [fst snd]. split; intros; lia.
  - apply Z.ltb_ge in E. lia.
Qed.
Lemma rge_val_pos : forall s d X, 0 < d -> (rge_val (s, d) X <-> X * d <= s).
Proof.
  intros s d X H. unfold rge_val, rnorm. destruct (d <? 0) eqn:E.
  - apply Z.ltb_lt in E. lia.
  - cbn [fst snd]. tauto.
Qed.
Lemma rge_val_neg : forall s d X, d < 0 -> (rge_val (s, d) X <-> s <= X * d).
Proof.
  intros s d X H. unfold rge_val, rnorm. destruct (d <? 0) eqn:E.
  - cbn [fst snd]. split; intros; lia.
  - apply Z.ltb_ge in E. lia.
Qed.

Lemma rceil_le : forall q X, rnz q -> rle_val q X -> rceil q <= X.
Proof.
  intros [a b] X N H. unfold rnz in N. cbn [snd] in N.
  unfold rceil, cdiv. cbn [fst snd].
  destruct (Z_lt_ge_dec b 0) as [B|B].
  - apply (proj1 (rle_val_neg a b X B)) in H.
    rewrite <- (Z.div_opp_opp (- a) b N), Z.opp_involutive.
    assert (- X <= a / - b); [|lia].
    apply Z.div_le_lower_bound; [lia|]. lia.
  - apply (proj1 (rle_val_pos a b X ltac:(lia))) in H.
    assert (- X <= - a / b); [|lia].
    apply Z.div_le_lower_bound; [lia|]. lia.
Qed.

Lemma rfloor_ge : forall q X, rnz q -> rge_val q X -> X <= rfloor q.
Proof.
  intros [a b] X N H. unfold rnz in N. cbn [snd] in N.
  unfold rfloor, fdiv. cbn [fst snd].
  destruct (Z_lt_ge_dec b 0) as [B|B].
  - apply (proj1 (rge_val_neg a b X B)) in H.
    rewrite <- (Z.div_opp_opp a b N).
    apply Z.div_le_lower_bound; [lia|]. lia.
  - apply (proj1 (rge_val_pos a b X ltac:(lia))) in H.
    apply Z.div_le_lower_bound; [lia|]. lia.
Qed.

(* transitivity through the comparison used by the folds *)
Lemma rlt_true_le : forall x d X, rnz x -> rnz d -> rlt x d = true -> rle_val d X -> rle_val x X.
Proof.
  intros x d X Nx Nd L H. rewrite rlt_spec in L. apply Z.ltb_lt in L.
  pose proof (rnorm_pos x Nx) as Px. pose proof (rnorm_pos d Nd) as Pd.
  unfold rle_val in *.
  destruct (rnorm x) as [a b], (rnorm d) as [c e]. cbn [fst snd] in *.
  assert (K : c * b <= X * e * b) by (apply Z.mul_le_mono_nonneg_r; lia).
  assert (K2 : a * e < (X * b) * e) by lia.
  apply Z.mul_lt_mono_pos_r in K2; lia.
Qed.

Lemma rlt_false_le : forall x d X, rnz x -> rnz d -> rlt x d = false -> rle_val x X -> rle_val d X.
Proof.
  intros x d X Nx Nd L H. rewrite rlt_spec in L. apply Z.ltb_ge in L.
  pose proof (rnorm_pos x Nx) as Px. pose proof (rnorm_pos d Nd) as Pd.
  unfold rle_val in *.
  destruct (rnorm x) as [a b], (rnorm d) as [c e]. cbn [fst snd] in *.
  assert (K : a * e <= X * b * e) by (apply Z.mul_le_mono_nonneg_r; lia).
  assert (K2 : c * b <= (X * e) * b) by lia.
  apply Z.mul_le_mono_pos_r in K2; lia.
Qed.

Lemma rlt_true_ge : forall d x X, rnz x -> rnz d -> rlt d x = true -> rge_val d X -> rge_val x X.
Proof.
  intros d x X Nx Nd L H. rewrite rlt_spec in L. apply Z.ltb_lt in L.
  pose proof (rnorm_pos x Nx) as Px. pose proof (rnorm_pos d Nd) as Pd.
  unfold rge_val in *.
  destruct (rnorm x) as [a b], (rnorm d) as [c e]. cbn [fst snd] in *.
  assert (K : X * e * b <= c * b) by (apply Z.mul_le_mono_nonneg_r; lia).
  assert (K2 : (X * b) * e < a * e) by lia.
  apply Z.mul_lt_mono_pos_r in K2; lia.
Qed.

Lemma rlt_false_ge : forall d x X, rnz x -> rnz d -> rlt d x = false -> rge_val x X -> rge_val d X.
Proof.
  intros d x X Nx Nd L H. rewrite rlt_spec in L. apply Z.ltb_ge in L.
  pose proof (rnorm_pos x Nx) as Px. pose proof (rnorm_pos d Nd) as Pd.
  unfold rge_val in *.
  destruct (rnorm x) as [a b], (rnorm d) as [c e]. cbn [fst snd] in *.
  assert (K : X * b * e <= a * e) by (apply Z.mul_le_mono_nonneg_r; lia).
  assert (K2 : (X * e) * b <= c * b) by lia.
  apply Z.mul_le_mono_pos_r in K2; lia.
Qed.

(* the folds return a non-zero-denominator candidate on the right side of X *)
Lemma rsel_min_inv : forall X l d, Forall rnz (d :: l) ->
  rnz (rsel_min l d) /\
  ((exists q, In q (d :: l) /\ rle_val q X) -> rle_val (rsel_min l d) X).
Proof.
  intros X. unfold rsel_min. induction l as [|x l IH]; intros d F; cbn [fold_left].
  - inversion F; subst. split; [assumption|]. intros (q & [<-|[]] & H). exact H.
  - inversion F as [|? ? Nd F1]; subst. inversion F1 as [|? ? Nx F2]; subst.
    destruct (rlt x d) eqn:L.
    + destruct (IH x (Forall_cons x Nx F2)) as [N1 I1]. split; [exact N1|].
      intros (q & Hq & H). apply I1. destruct Hq as [<-|[<-|Hq]].
      * exists x. split; [left; reflexivity|]. exact (rlt_true_le x d X Nx Nd L H).
      * exists x. split; [left; reflexivity|exact H].
      * exists q. split; [right; exact Hq|exact H].
    + destruct (IH d (Forall_cons d Nd F2)) as [N1 I1]. split; [exact N1|].
      intros (q & Hq & H). apply I1. destruct Hq as [<-|[<-|Hq]].
      * exists d. split; [left; reflexivity|exact H].
      * exists d. split; [left; reflexivity|]. exact (rlt_false_le x d X Nx Nd L H).
      * exists q. split; [right; exact Hq|exact H].
Qed.

Lemma rsel_max_inv : forall X l d, Forall rnz (d :: l) ->
  rnz (rsel_max l d) /\
  ((exists q, In q (d :: l) /\ rge_val q X) -> rge_val (rsel_max l d) X).
Proof.
  intros X. unfold rsel_max. induction l as [|x l IH]; intros d F; cbn [fold_left].
  - inversion F; subst. split; [assumption|]. intros (q & [<-|[]] & H). exact H.
  - inversion F as [|? ? Nd F1]; subst. inversion F1 as [|? ? Nx F2]; subst.
    destruct (rlt d x) eqn:L.
    + destruct (IH x (Forall_cons x Nx F2)) as [N1 I1]. split; [exact N1|].
      intros (q & Hq & H). apply I1. destruct Hq as [<-|[<-|Hq]].
      * exists x. split; [left; reflexivity|]. exact (rlt_true_ge d x X Nx Nd L H).
      * exists x. split; [left; reflexivity|exact H].
      * exists q. split; [right; exact Hq|exact H].
    + destruct (IH d (Forall_cons d Nd F2)) as [N1 I1]. split; [exact N1|].
      intros (q & Hq & H). apply I1. destruct Hq as [<-|[<-|Hq]].
      * exists d. split; [left; reflexivity|exact H].
      * exists d. split; [left; reflexivity|]. exact (rlt_false_ge d x X Nx Nd L H).
      * exists q. split; [right; exact Hq|exact H].
Qed.

(* ------------------------------------------------------------------------------------------ *)
(* the four corner quotients *)

(* NB: in `back_div` the pattern `q0 :: _ as l` binds l to the TAIL (`as` binds tighter than `::`),
   so the folds run over the last three candidates starting from the first one; the result is the
   same as folding over all four (the head never beats itself under the strict comparison). *)
Definition ctail (smin smax dlo dhi : Z) : list rat := [(smin, dhi); (smax, dlo); (smax, dhi)].
Definition corners (smin smax dlo dhi : Z) : list rat := (smin, dlo) :: ctail smin smax dlo dhi.

Lemma unsafe_range_false : forall dlo dhi, unsafe_range dlo dhi = false -> 0 < dlo \/ dhi < 0.
Proof.
  intros dlo dhi U. unfold unsafe_range in U. apply Bool.andb_false_iff in U.
  destruct U as [U|U]; apply Z.leb_gt in U; [left|right]; exact U.
Qed.

Lemma qcands_corners : forall smin smax dlo dhi, dlo <> 0 -> dhi <> 0 ->
  qcands [smin; smax] [dlo; dhi] = corners smin smax dlo dhi.
Proof.
  intros smin smax dlo dhi H1 H2. unfold qcands, corners, ctail. cbn [flat_map app].
  apply Z.eqb_neq in H1. apply Z.eqb_neq in H2. rewrite H1, H2. reflexivity.
Qed.

Lemma corners_nz : forall smin smax dlo dhi, dlo <> 0 -> dhi <> 0 ->
  Forall rnz (corners smin smax dlo dhi).
Proof. intros. unfold corners, ctail. repeat constructor; unfold rnz; cbn [snd]; assumption. Qed.

Lemma corner_le : forall smin smax dlo dhi X D,
  0 < dlo \/ dhi < 0 -> dlo <= D <= dhi -> dlo <= dhi -> smin <= X * D <= smax ->
  exists q, In q (corners smin smax dlo dhi) /\ rle_val q X.
Proof.
  intros smin smax dlo dhi X D U HD Hd HS. unfold corners, ctail.
  destruct U as [U|U]; destruct (Z_le_gt_dec 0 X) as [X0|X0].
  - exists (smin, dhi). split; [cbn; tauto|]. apply rle_val_pos; [lia|].
    assert (X * D <= X * dhi) by nia. lia.
  - exists (smin, dlo). split; [cbn; tauto|]. apply rle_val_pos; [lia|].
    assert (X * D <= X * dlo) by nia. lia.
  - exists (smax, dlo). split; [cbn; tauto|]. apply rle_val_neg; [lia|].
    assert (X * dlo <= X * D) by nia. lia.
  - exists (smax, dhi). split; [cbn; tauto|]. apply rle_val_neg; [lia|].
    assert (X * dhi <= X * D) by nia. lia.
Qed.

Lemma corner_ge : forall smin smax dlo dhi X D,
  0 < dlo \/ dhi < 0 -> dlo <= D <= dhi -> dlo <= dhi -> smin <= X * D <= smax ->
  exists q, In q (corners smin smax dlo dhi) /\ rge_val q X.
Proof.
  intros smin smax dlo dhi X D U HD Hd HS. unfold corners, ctail.
  destruct U as [U|U]; destruct (Z_le_gt_dec 0 X) as [X0|X0].
  - exists (smax, dlo). split; [cbn; tauto|]. apply rge_val_pos; [lia|].
    assert (X * dlo <= X * D) by nia. lia.
  - exists (smax, dhi). split; [cbn; tauto|]. apply rge_val_pos; [lia|].
    assert (X * dhi <= X * D) by nia. lia.
  - exists (smin, dhi). split; [cbn; tauto|]. apply rge_val_neg; [lia|].
    assert (X * D <= X * dhi) by nia. lia.
  - exists (smin, dlo). split; [cbn; tauto|]. apply rge_val_neg; [lia|].
    assert (X * D <= X * dlo) by nia. lia.
Qed.

(* the mathematical core *)
Lemma back_div_bounds : forall smin smax dlo dhi X D,
  unsafe_range dlo dhi = false -> dlo <= D <= dhi -> smin <= X * D <= smax ->
  let l := ctail smin smax dlo dhi in
  rceil (rsel_min l (smin, dlo)) <= X <= rfloor (rsel_max l (smin, dlo)).
Proof.
  intros smin smax dlo dhi X D U HD HS l. subst l.
  pose proof (unsafe_range_false dlo dhi U) as U'.
  assert (N1 : dlo <> 0) by lia. assert (N2 : dhi <> 0) by lia.
  pose proof (corners_nz smin smax dlo dhi N1 N2) as F.
  split.
  - destruct (rsel_min_inv X _ _ F) as [N I]. apply rceil_le; [exact N|]. apply I.
    apply (corner_le smin smax dlo dhi X D); try assumption; lia.
  - destruct (rsel_max_inv X _ _ F) as [N I]. apply rfloor_ge; [exact N|]. apply I.
    apply (corner_ge smin smax dlo dhi X D); try assumption; lia.
Qed.

(* ------------------------------------------------------------------------------------------ *)
(* back_div *)

Lemma back_div_ctr : forall T w smin smax dlo dhi c c', view_ok w -> uin w T ->
  wf_store (fst c) -> back_div w smin smax dlo dhi c = Some c' -> ctr T c c'.
Proof.
  intros T w smin smax dlo dhi c c' Hw Uw W H. unfold back_div in H.
  destruct (unsafe_range dlo dhi).
  - inversion H; subst. apply ctr_refl; exact W.
  - destruct (qcands [smin; smax] [dlo; dhi]) as [|q0 l'].
    + inversion H; subst. apply ctr_refl; exact W.
    + ctr_chain T W H.
Qed.

Lemma back_div_frm : forall T w smin smax dlo dhi c1 c2, uin w T -> agr T c1 c2 ->
  orel (agr T) (back_div w smin smax dlo dhi c1) (back_div w smin smax dlo dhi c2).
Proof.
  intros T w smin smax dlo dhi c1 c2 Uw Ha. unfold back_div.
  destruct (unsafe_range dlo dhi); [exact Ha|].
  destruct (qcands [smin; smax] [dlo; dhi]) as [|q0 l']; [exact Ha|].
  frm_chain T Ha.
Qed.

Lemma back_div_snd : forall w smin smax dlo dhi a n c D,
  view_ok w -> uscope w n -> okc a n c ->
  dlo <= D <= dhi -> smin <= vsem w a * D <= smax ->
  exists c2, back_div w smin smax dlo dhi c = Some c2 /\ okc a n c2.
Proof.
  intros w smin smax dlo dhi a n c D Hw Sw O HD HS. unfold back_div.
  destruct (unsafe_range dlo dhi) eqn:U.
  - exists c. split; [reflexivity|exact O].
  - pose proof (unsafe_range_false dlo dhi U) as U'.
    rewrite qcands_corners by lia.
    pose proof (back_div_bounds smin smax dlo dhi (vsem w a) D U HD HS) as B.
    cbv zeta in B. unfold corners, ctail in *. cbv beta iota zeta.
    snd_chain a n O ltac:(fun _ => unfold bnd_ok; lia).
Qed.

(* ------------------------------------------------------------------------------------------ *)
(* Mul *)

Section Mul.
  Variables (x y : view) (s : nat) (T : list nat).
  Hypotheses (Hx : view_ok x) (Hy : view_ok y) (Ux : uin x T) (Uy : uin y T) (Us : In s T).

  Lemma prune_mul_ctr : forall c c', wf_store (fst c) -> prune_mul x y s c = Some c' -> ctr T c c'.
  Proof.
    intros c c' W H. unfold prune_mul in H. ctr_chain T W H.
    match goal with
    | H1 : obind (back_div x ?a ?b ?d ?e ?c1) ?k = Some ?c2 |- ctr T ?c1 ?c2 =>
      destruct (back_div x a b d e c1) as [c3|] eqn:E; [|discriminate H1];
      cbn [obind] in H1;
      match goal with W1 : wf_store (fst c1) |- _ =>
        pose proof (back_div_ctr T x a b d e c1 c3 Hx Ux W1 E) as C3;
        apply (ctr_trans T c1 c3 c2 C3);
        apply (back_div_ctr T y _ _ _ _ c3 c2 Hy Uy (ctr_wf _ _ _ C3) H1)
      end
    end.
  Qed.

  Lemma prune_mul_snd : forall a n c, uscope x n -> uscope y n -> (s < n)%nat -> okc a n c ->
    vsem x a * vsem y a = a s -> exists c2, prune_mul x y s c = Some c2 /\ okc a n c2.
  Proof.
    intros a n c Sx Sy Ss O Hs. unfold prune_mul.
    pose proof (cbnd_bounds x a n c Hx Sx O) as Bx.
    pose proof (cbnd_bounds y a n c Hy Sy O) as By.
    snd_chain a n O ltac:(fun _ =>
      unfold bnd_ok; cbn [vsem]; rewrite <- Hs;
      first [apply sel_min_products; assumption | apply sel_max_products; assumption]).
    match goal with
    | O1 : okc a n ?c1 |- exists c2, obind (back_div x ?smin ?smax ?dlo ?dhi ?c1) ?k = Some c2 /\ _ =>
      pose proof (cvar_bounds s a n c1 Ss O1) as Bs;
      destruct (back_div_snd x smin smax dlo dhi a n c1 (vsem y a) Hx Sx O1 By
                  ltac:(rewrite Hs; exact Bs)) as (c3 & E & O3);
      rewrite E; cbn [obind];
      apply (back_div_snd y smin smax _ _ a n c3 (vsem x a) Hy Sy O3 Bx);
      rewrite Z.mul_comm, Hs; exact Bs
    end.
  Qed.

  Lemma prune_mul_chk : forall s0 ev a, wf_store s0 -> inst a s0 ->
    (forall v, In v T -> dfixed (sget s0 v) = true) ->
    prune_mul x y s (s0, ev) <> None -> vsem x a * vsem y a = a s.
  Proof.
    intros s0 ev a W Hi Hf H. unfold prune_mul in H. cbv beta zeta in H.
    pose proof (fixed_of_uin (VVar s) T s0 (uin_var s T Us) Hf) as Fs.
    destruct (chk_step (VVar s) false _ a s0 ev _ I W Hi Fs H) as [B1 H1]. cbv beta in H1.
    destruct (chk_step (VVar s) true _ a s0 ev _ I W Hi Fs H1) as [B2 _].
    destruct (cbnd_fixed x T a s0 ev Hi Ux Hf) as [E1 E2].
    destruct (cbnd_fixed y T a s0 ev Hi Uy Hf) as [E3 E4].
    rewrite E1, E2, E3, E4 in B1, B2.
    unfold bnd_ok, sel_min, sel_max in B1, B2. cbn [fold_left vsem] in B1, B2.
    rewrite !Z.ltb_irrefl in B1, B2. lia.
  Qed.

  Lemma prune_mul_frm : forall c1 c2, agr T c1 c2 -> orel (agr T) (prune_mul x y s c1) (prune_mul x y s c2).
  Proof.
    intros c1 c2 Ha. unfold prune_mul. frm_chain T Ha.
    rewrite (cmin_frame x T c1 c2 Ux Ha), (cmax_frame x T c1 c2 Ux Ha),
            (cmin_frame y T c1 c2 Uy Ha), (cmax_frame y T c1 c2 Uy Ha).
    match goal with
    | Ha1 : agr T ?d1 ?d2 |- orel _ (obind (back_div _ _ _ _ _ ?d1) _) _ =>
      rewrite (cvar_min_frame s T d1 d2 Us Ha1), (cvar_max_frame s T d1 d2 Us Ha1);
      apply (obind_orel (agr T) (agr T));
      [apply back_div_frm; assumption
      |intros e1 e2 Ha2; apply back_div_frm; assumption]
    end.
  Qed.
End Mul.

Lemma mk_mul_good : forall x y s, view_ok x -> view_ok y -> good (mk_mul x y s).
Proof.
  intros x y s Hx Hy. set (T := trig (mk_mul x y s)).
  assert (Ux : uin x T) by (apply (uin_app_r x [s]), uin_app_l, uin_self).
  assert (Uy : uin y T) by (apply (uin_app_r y [s]), uin_app_r, uin_self).
  assert (Us : In s T) by (left; reflexivity).
  split; [|split; [|split]].
  - apply contracting_of_ctr. intros c c' W H. exact (prune_mul_ctr x y s T Hx Hy Ux Uy Us c c' W H).
  - apply sound_of_okc. intros a n c Hsc O Hs. cbn [sat mk_mul] in Hs. apply Z.eqb_eq in Hs.
    apply (prune_mul_snd x y s Hx Hy a n c); try assumption.
    + intros v Hv. apply Hsc, Ux, Hv.
    + intros v Hv. apply Hsc, Uy, Hv.
    + apply Hsc, Us.
  - intros s0 ev a W Hi Hf H. cbn [sat mk_mul]. apply Z.eqb_eq.
    exact (prune_mul_chk x y s T Ux Uy Us s0 ev a W Hi Hf H).
  - apply frame_of_agr.
    + intros c1 c2 Ha. exact (prune_mul_frm x y s T Ux Uy Us c1 c2 Ha).
    + intros a1 a2 H. cbn [sat mk_mul].
      rewrite (vsem_frame x T a1 a2 Ux H), (vsem_frame y T a1 a2 Uy H), (H s Us). reflexivity.
Qed.

Print Assumptions mk_mul_good.
