(* Proofs for Properties/C05_Logic.v: the four local contracts of the propagators of
   Model/Props/Logic.v (bool_and/or/not/xor, int_*_reif, all_equal, between, if_then_else) and
   the refutation witness for the known class alleq_empty.
   Reuses the step-contract library of LinIntProofs.v (cstep, sstep, fr and orel, fixed_set_min, fixed_set_max). *)
Require Import Selen.Model.Prelude Selen.Model.Dom Selen.Model.Views Selen.Model.PropDefs.
Require Import Selen.Model.Props.Basic Selen.Model.Props.LinInt Selen.Model.Props.Logic.
Require Import Selen.Proofs.DomProofs Selen.Proofs.Props.LinIntProofs.

(* ------------------------------------------------------------------------------------------ *)
(* tactics *)

(* boolean equations -> arithmetic facts *)
Ltac b2p :=
  repeat match goal with
  | H : _ && _ = true |- _ => apply andb_true_iff in H; destruct H
  | H : _ || _ = false |- _ => apply orb_false_iff in H; destruct H
  | H : _ && _ = false |- _ => apply andb_false_iff in H; destruct H
  | H : _ || _ = true |- _ => apply orb_true_iff in H; destruct H
  | H : (_ <=? _) = true |- _ => apply Z.leb_le in H
  | H : (_ <=? _) = false |- _ => apply Z.leb_gt in H
  | H : (_ <? _) = true |- _ => apply Z.ltb_lt in H
  | H : (_ <? _) = false |- _ => apply Z.ltb_ge in H
  | H : (_ =? _) = true |- _ => apply Z.eqb_eq in H
  | H : (_ =? _) = false |- _ => apply Z.eqb_neq in H
  | H : negb _ = true |- _ => apply negb_true_iff in H
  | H : negb _ = false |- _ => apply negb_false_iff in H
  | H : xorb ?p ?q = _ |- _ =>
      let P := fresh "P" in let Q := fresh "Q" in
      destruct p eqn:P; destruct q eqn:Q; cbn in H; try discriminate H; clear H
  end.

(* case analysis on every integer comparison occurring in hypothesis H *)
Ltac zcases H :=
  repeat match type of H with
  | context [?a <=? ?b] => destruct (Z.leb_spec a b)
  | context [?a <? ?b] => destruct (Z.ltb_spec a b)
  | context [?a =? ?b] => destruct (Z.eqb_spec a b)
  end; cbn in H; try discriminate H.

(* prove a boolean goal built from integer comparisons *)
Ltac zgoal :=
  repeat match goal with
  | |- context [?a <=? ?b] => destruct (Z.leb_spec a b)
  | |- context [?a <? ?b] => destruct (Z.ltb_spec a b)
  | |- context [?a =? ?b] => destruct (Z.eqb_spec a b)
  end; cbn; try reflexivity; try lia; try (exfalso; lia).

Ltac inL := simpl; tauto.

Lemma cstep_opt_if : forall L b f c, (b = true -> cstep L c (f c)) -> cstep L c (opt_if b f c).
Proof. intros L b f c H. unfold opt_if. destruct b; [apply H; reflexivity | apply cstep_ret]. Qed.

(* contracting: structural *)
Ltac cstep_auto :=
  cbv beta;
  lazymatch goal with
  | |- cstep _ _ (obind _ _) => apply cstep_bind; [cstep_auto | intros ? _; cstep_auto]
  | |- cstep _ _ (if ?b then _ else _) => destruct b; cstep_auto
  | |- cstep _ _ (match ?o with Some _ => _ | None => _ end) => destruct o; cstep_auto
  | |- cstep _ _ (opt_if _ _ _) => apply cstep_opt_if; intros _; cstep_auto
  | |- cstep _ ?c (Some ?c) => apply cstep_ret
  | |- cstep _ _ None => apply cstep_none
  | |- cstep _ _ (cset_min _ _ _) => apply cstep_set_min; inL
  | |- cstep _ _ (cset_max _ _ _) => apply cstep_set_max; inL
  | |- cstep _ _ (set_bool _ _ _) => apply set_bool_cstep; inL
  | |- cstep _ _ (eq_bounds _ _ _ _ _ _ _) => unfold eq_bounds; cbv zeta; cstep_auto
  | |- cstep _ _ (ne_bounds _ _ _ _ _ _ _) => unfold ne_bounds; cstep_auto
  | |- cstep _ _ (lt_bounds _ _ _ _ _) => unfold lt_bounds; cstep_auto
  | |- cstep _ _ (le_bounds _ _ _ _ _) => unfold le_bounds; cstep_auto
  | |- cstep _ _ (gt_bounds _ _ _ _ _) => unfold gt_bounds; cstep_auto
  | |- cstep _ _ (ge_bounds _ _ _ _ _) => unfold ge_bounds; cstep_auto
  end.

(* sound: structural; side goals `x < length (fst c)` and `b <= a x` by lia from the context
   (bounds of the ENTRY store, the decoded `sat`, the branch conditions) *)
Ltac ifs :=
  repeat match goal with
  | H : context [if ?b then _ else _] |- _ => let E := fresh "E" in destruct b eqn:E
  | |- context [if ?b then _ else _] => let E := fresh "E" in destruct b eqn:E
  end.
Ltac sfin := ifs; b2p; unfold cvar_min, cvar_max in *; unfold ctx, store, dom in *; lia.
(* final step of a checking proof: facts collected by kwalk + fixed_value equalities => sat *)
Ltac kfin := unfold cvar_min, cvar_max in *; ifs; b2p; unfold tr, is01; unfold ctx, store, dom in *; zgoal.

Ltac sstep_auto :=
  cbv beta;
  lazymatch goal with
  | |- sstep _ _ (obind _ _) => apply sstep_bind; [sstep_auto | intros ? ?; sstep_auto]
  | |- sstep _ _ (if ?b then _ else _) => let E := fresh "E" in destruct b eqn:E; sstep_auto
  | |- sstep _ _ (opt_if ?b _ _) => let E := fresh "E" in unfold opt_if; destruct b eqn:E; sstep_auto
  | |- sstep _ ?c (Some ?c) => apply sstep_ret
  | |- sstep _ _ (cset_min _ _ _) => apply sstep_set_min; sfin
  | |- sstep _ _ (cset_max _ _ _) => apply sstep_set_max; sfin
  | |- sstep _ _ (set_bool _ _ _) => unfold set_bool; sstep_auto
  | |- sstep _ _ (eq_bounds _ _ _ _ _ _ _) => unfold eq_bounds; cbv zeta; sstep_auto
  | |- sstep _ _ (ne_bounds _ _ _ _ _ _ _) => unfold ne_bounds; sstep_auto
  | |- sstep _ _ (lt_bounds _ _ _ _ _) => unfold lt_bounds; sstep_auto
  | |- sstep _ _ (le_bounds _ _ _ _ _) => unfold le_bounds; sstep_auto
  | |- sstep _ _ (gt_bounds _ _ _ _ _) => unfold gt_bounds; sstep_auto
  | |- sstep _ _ (ge_bounds _ _ _ _ _) => unfold ge_bounds; sstep_auto
  | |- sstep _ _ None => exfalso; sfin
  end.

(* frame: structural, once the entry reads of both sides have been made syntactically equal *)
Lemma fr_cvar : forall L x c1 c2, In x L -> fr L c1 c2 ->
  cvar_min x c1 = cvar_min x c2 /\ cvar_max x c1 = cvar_max x c2.
Proof. intros L x c1 c2 HL F. unfold cvar_min, cvar_max. rewrite (proj1 F x HL). split; reflexivity. Qed.

Ltac fr_rw L x c1 c2 F :=
  let E1 := fresh "E" in let E2 := fresh "E" in
  destruct (fr_cvar L x c1 c2 ltac:(inL) F) as [E1 E2]; rewrite ?E1, ?E2; clear E1 E2.

Ltac fr_auto :=
  cbv beta;
  lazymatch goal with
  | |- orel _ (obind _ _) (obind _ _) => apply orel_bind; [fr_auto | intros ? ? ?; fr_auto]
  | |- orel _ (if ?b then _ else _) (if ?b then _ else _) => destruct b; fr_auto
  | |- orel _ (opt_if ?b _ _) (opt_if ?b _ _) => unfold opt_if; destruct b; fr_auto
  | |- orel _ (Some _) (Some _) => assumption
  | |- orel _ None None => exact I
  | |- orel _ (cset_min _ _ _) (cset_min _ _ _) => apply fr_set_min; [inL | assumption]
  | |- orel _ (cset_max _ _ _) (cset_max _ _ _) => apply fr_set_max; [inL | assumption]
  | |- orel _ (set_bool _ _ _) (set_bool _ _ _) => apply set_bool_fr; [inL | assumption]
  | |- orel _ (eq_bounds _ _ _ _ _ _ _) (eq_bounds _ _ _ _ _ _ _) => unfold eq_bounds; cbv zeta; fr_auto
  | |- orel _ (ne_bounds _ _ _ _ _ _ _) (ne_bounds _ _ _ _ _ _ _) => unfold ne_bounds; fr_auto
  | |- orel _ (lt_bounds _ _ _ _ _) (lt_bounds _ _ _ _ _) => unfold lt_bounds; fr_auto
  | |- orel _ (le_bounds _ _ _ _ _) (le_bounds _ _ _ _ _) => unfold le_bounds; fr_auto
  | |- orel _ (gt_bounds _ _ _ _ _) (gt_bounds _ _ _ _ _) => unfold gt_bounds; fr_auto
  | |- orel _ (ge_bounds _ _ _ _ _) (ge_bounds _ _ _ _ _) => unfold ge_bounds; fr_auto
  end.

(* checking: walk an equation `prune c = Some c'` on a context whose variables are fixed; every
   setter leaves the context unchanged and contributes one inequality *)
Ltac kwalk fx :=
  repeat match goal with
  | H : obind ?r _ = Some _ |- _ =>
      let E := fresh "E" in destruct r eqn:E; [cbn [obind] in H | discriminate H]
  | H : (if ?b then _ else _) = Some _ |- _ => let C := fresh "C" in destruct b eqn:C
  | H : opt_if _ _ _ = Some _ |- _ => unfold opt_if in H
  | H : set_bool _ _ _ = Some _ |- _ => unfold set_bool in H
  | H : eq_bounds _ _ _ _ _ _ _ = Some _ |- _ => unfold eq_bounds in H; cbv zeta in H
  | H : ne_bounds _ _ _ _ _ _ _ = Some _ |- _ => unfold ne_bounds in H
  | H : lt_bounds _ _ _ _ _ = Some _ |- _ => unfold lt_bounds in H
  | H : le_bounds _ _ _ _ _ = Some _ |- _ => unfold le_bounds in H
  | H : gt_bounds _ _ _ _ _ = Some _ |- _ => unfold gt_bounds in H
  | H : ge_bounds _ _ _ _ _ = Some _ |- _ => unfold ge_bounds in H
  | H : Some _ = Some _ |- _ => inversion H; subst; clear H
  | H : None = Some _ |- _ => discriminate H
  | H : cset_min _ _ _ = Some _ |- _ => apply fixed_set_min in H; [destruct H as [-> ?] | fx]
  | H : cset_max _ _ _ = Some _ |- _ => apply fixed_set_max in H; [destruct H as [-> ?] | fx]
  end.

Lemma ne_none_some : forall (r : option ctx), r <> None -> exists c', r = Some c'.
Proof. intros [c'|] H; [exists c'; reflexivity | exfalso; apply H; reflexivity]. Qed.

(* the shape shared by all the fixed-arity proofs *)
Lemma good_intro : forall p,
  (forall c : ctx, cstep (trig p) c (prune p c)) ->
  (forall a (c : ctx), in_scope p (length (fst c)) -> sat p a = true -> sstep a c (prune p c)) ->
  (forall a (c c' : ctx), wf_store (fst c) -> inst a (fst c) ->
     (forall v, In v (trig p) -> dfixed (sget (fst c) v) = true) ->
     prune p c = Some c' -> sat p a = true) ->
  (forall c1 c2 : ctx, fr (trig p) c1 c2 -> orel (fr (trig p)) (prune p c1) (prune p c2)) ->
  (forall a1 a2, (forall v, In v (trig p) -> a1 v = a2 v) -> sat p a1 = sat p a2) ->
  good p.
Proof.
  intros p Hc Hs Hk Hf Hsat. split; [|split; [|split]].
  - apply cstep_contracting. exact Hc.
  - apply sstep_sound. exact Hs.
  - intros s ev a Hwf Hi Hfx Hne. destruct (ne_none_some _ Hne) as [c' E].
    apply (Hk a (s, ev) c'); [exact Hwf | exact Hi | exact Hfx | exact E].
  - apply fr_frame; assumption.
Qed.

(* a block that only writes fixed variables either fails or returns its input context *)
Lemma sub_fixed_eq : forall d d', dfixed d = true -> d' <> [] -> (forall x, In x d' -> In x d) -> sorted d' -> d' = d.
Proof.
  intros d d' Hf Hne Hsub Hs. apply dfixed_single in Hf. destruct Hf as [z ->].
  destruct d' as [|x r]; [contradiction|].
  assert (x = z) by (destruct (Hsub x (or_introl eq_refl)) as [E|[]]; congruence). subst x.
  destruct r as [|y r']; [reflexivity|]. exfalso.
  assert (y = z) by (destruct (Hsub y (or_intror (or_introl eq_refl))) as [E|[]]; congruence). subst y.
  cbn in Hs. lia.
Qed.

Lemma cstep_fixed : forall L (c c1 : ctx) r, cstep L c r -> wf_store (fst c) ->
  (forall v, In v L -> dfixed (sget (fst c) v) = true) -> r = Some c1 -> c1 = c.
Proof.
  intros L [s ev] [s1 ev1] r H Hwf Hf E. cbn [fst snd] in *.
  destruct (H Hwf _ E) as (Hsub & Hwf1 & _ & evn & Hev & Hch & HinL & Hsz). cbn [fst snd] in *.
  assert (Es : s1 = s).
  { apply store_ext; [apply Hsub|]. intros v.
    destruct (list_eq_dec Z.eq_dec (sget s1 v) (sget s v)) as [E1|N1]; [exact E1|].
    pose proof (HinL v (Hch v N1)) as HL. specialize (Hf v HL).
    assert (Hv : (v < length s1)%nat).
    { rewrite (proj1 Hsub). apply sget_nonempty_lt. intros E0. rewrite E0 in Hf. discriminate. }
    destruct (Hwf1 v Hv) as [Hne Hs]. apply sub_fixed_eq; [exact Hf | exact Hne | apply Hsub | exact Hs]. }
  subst s1. destruct evn as [|e r'].
  - rewrite app_nil_r in Hev. subst ev1. reflexivity.
  - exfalso. assert (A : e :: r' <> []) by discriminate. specialize (Hsz A). lia.
Qed.

(* bounds of the ENTRY store for a variable in scope *)
Ltac entry_bounds a c x :=
  let B := fresh "B" in
  assert (B : dmin (sget (fst c) x) <= a x <= dmax (sget (fst c) x))
    by (apply inst_bounds; [assumption | assumption | auto with nocore]).

(* ------------------------------------------------------------------------------------------ *)
(* between *)

Theorem mk_between_good : forall l m u, good (mk_between l m u).
Proof.
  intros l m u. apply good_intro; cbn [prune sat trig mk_between].
  - intros c. unfold prune_between. cbv zeta. cstep_auto.
  - intros a c Hsc Hsat Hwf Hi.
    assert (Sl : (l < length (fst c))%nat) by (apply Hsc; inL).
    assert (Sm : (m < length (fst c))%nat) by (apply Hsc; inL).
    assert (Su : (u < length (fst c))%nat) by (apply Hsc; inL).
    pose proof (inst_bounds a _ l Hwf Hi Sl). pose proof (inst_bounds a _ m Hwf Hi Sm).
    pose proof (inst_bounds a _ u Hwf Hi Su). b2p.
    revert Hwf Hi. change (sstep a c (prune_between l m u c)). unfold prune_between. cbv zeta. sstep_auto.
  - intros a c c' _ Hi Hf E.
    destruct (fixed_value a _ l Hi (Hf l ltac:(inL))). destruct (fixed_value a _ m Hi (Hf m ltac:(inL))).
    destruct (fixed_value a _ u Hi (Hf u ltac:(inL))).
    unfold prune_between in E. cbv zeta in E. kwalk ltac:(apply Hf; inL).
    unfold cvar_min, cvar_max in *. zgoal.
  - intros c1 c2 F. unfold prune_between. cbv zeta.
    fr_rw [l; m; u] l c1 c2 F. fr_rw [l; m; u] m c1 c2 F. fr_rw [l; m; u] u c1 c2 F. fr_auto.
  - intros a1 a2 H. rewrite (H l), (H m), (H u) by inL. reflexivity.
Qed.

(* ------------------------------------------------------------------------------------------ *)
(* reification.rs: b <=> (x REL y), boolean reading b >= 1 / b <= 0 *)

Ltac tern_setup_sound a c x y b Hsc Hwf Hi :=
  let Sx := fresh "Sx" in let Sy := fresh "Sy" in let Sb := fresh "Sb" in
  assert (Sx : (x < length (fst c))%nat) by (apply Hsc; inL);
  assert (Sy : (y < length (fst c))%nat) by (apply Hsc; inL);
  assert (Sb : (b < length (fst c))%nat) by (apply Hsc; inL);
  pose proof (inst_bounds a _ x Hwf Hi Sx); pose proof (inst_bounds a _ y Hwf Hi Sy);
  pose proof (inst_bounds a _ b Hwf Hi Sb).

Ltac tern_setup_fixed a c x y b Hi Hf :=
  destruct (fixed_value a (fst c) x Hi (Hf x ltac:(inL)));
  destruct (fixed_value a (fst c) y Hi (Hf y ltac:(inL)));
  destruct (fixed_value a (fst c) b Hi (Hf b ltac:(inL))).

Ltac reif_good x y b pr :=
  apply good_intro; cbn [prune sat trig mk_reif];
  [ intros c; unfold pr; cbv zeta; cstep_auto
  | let a := fresh "a" in let c := fresh "c" in
    intros a c Hsc Hsat Hwf Hi; tern_setup_sound a c x y b Hsc Hwf Hi;
    unfold tr in Hsat; zcases Hsat;
    (revert Hwf Hi; change (sstep a c (pr x y b c)); unfold pr; cbv zeta; sstep_auto)
  | let a := fresh "a" in let c := fresh "c" in let c' := fresh "c'" in
    intros a c c' _ Hi Hf E; tern_setup_fixed a c x y b Hi Hf;
    unfold pr in E; cbv zeta in E; kwalk ltac:(apply Hf; inL); kfin
  | let c1 := fresh "c1" in let c2 := fresh "c2" in
    intros c1 c2 F; unfold pr; cbv zeta;
    fr_rw [x; y; b] x c1 c2 F; fr_rw [x; y; b] y c1 c2 F; fr_rw [x; y; b] b c1 c2 F; fr_auto
  | intros a1 a2 H; rewrite (H x), (H y), (H b) by inL; reflexivity ].

Theorem mk_eq_reif_good : forall x y b, good (mk_eq_reif x y b).
Proof. intros x y b. unfold mk_eq_reif. reif_good x y b prune_eq_reif. Qed.
Theorem mk_ne_reif_good : forall x y b, good (mk_ne_reif x y b).
Proof. intros x y b. unfold mk_ne_reif. reif_good x y b prune_ne_reif. Qed.
Theorem mk_lt_reif_good : forall x y b, good (mk_lt_reif x y b).
Proof. intros x y b. unfold mk_lt_reif. reif_good x y b prune_lt_reif. Qed.
Theorem mk_le_reif_good : forall x y b, good (mk_le_reif x y b).
Proof. intros x y b. unfold mk_le_reif. reif_good x y b prune_le_reif. Qed.
Theorem mk_gt_reif_good : forall x y b, good (mk_gt_reif x y b).
Proof. intros x y b. unfold mk_gt_reif. reif_good x y b prune_gt_reif. Qed.
Theorem mk_ge_reif_good : forall x y b, good (mk_ge_reif x y b).
Proof. intros x y b. unfold mk_ge_reif. reif_good x y b prune_ge_reif. Qed.

(* ------------------------------------------------------------------------------------------ *)
(* bool_not *)

Theorem mk_bnot_good : forall o r, good (mk_bnot o r).
Proof.
  intros o r. apply good_intro; cbn [prune sat trig mk_bnot].
  - intros c. unfold prune_bnot. cbv zeta. cstep_auto.
  - intros a c Hsc Hsat Hwf Hi.
    assert (So : (o < length (fst c))%nat) by (apply Hsc; inL).
    assert (Sr : (r < length (fst c))%nat) by (apply Hsc; inL).
    pose proof (inst_bounds a _ o Hwf Hi So). pose proof (inst_bounds a _ r Hwf Hi Sr).
    unfold tr, is01 in Hsat. zcases Hsat.
    all: revert Hwf Hi; change (sstep a c (prune_bnot o r c)); unfold prune_bnot; cbv zeta; sstep_auto.
  - intros a c c' _ Hi Hf E.
    destruct (fixed_value a (fst c) o Hi (Hf o ltac:(inL))). destruct (fixed_value a (fst c) r Hi (Hf r ltac:(inL))).
    unfold prune_bnot in E. cbv zeta in E. kwalk ltac:(apply Hf; inL). all: kfin.
  - intros c1 c2 F. unfold prune_bnot. cbv zeta. fr_rw [r; o] o c1 c2 F. fr_rw [r; o] r c1 c2 F. fr_auto.
  - intros a1 a2 H. rewrite (H o), (H r) by inL. reflexivity.
Qed.

(* ------------------------------------------------------------------------------------------ *)
(* bool_xor *)

(* skip a block of a checking walk: on fixed variables it returns its input context *)
Ltac kskip L Hwf Hf :=
  match goal with
  | H : obind ?r _ = Some _ |- _ =>
      let E := fresh "E" in let c1 := fresh "c" in
      destruct r as [c1|] eqn:E; [cbn [obind] in H | discriminate H];
      let X := fresh "X" in
      assert (X : c1 = _) by (eapply (cstep_fixed L); [ | exact Hwf | exact Hf | exact E]; cstep_auto);
      subst c1; clear E
  end.

Theorem mk_bxor_good : forall x y r, good (mk_bxor x y r).
Proof.
  intros x y r. apply good_intro; cbn [prune sat trig mk_bxor].
  - intros c. unfold prune_bxor. cbv zeta. cstep_auto.
  - intros a c Hsc Hsat Hwf Hi. tern_setup_sound a c x y r Hsc Hwf Hi.
    unfold tr, is01 in Hsat. zcases Hsat.
    all: revert Hwf Hi; change (sstep a c (prune_bxor x y r c)); unfold prune_bxor; cbv zeta; sstep_auto.
  - intros a c c' Hwf Hi Hf E. tern_setup_fixed a c x y r Hi Hf.
    unfold prune_bxor in E. cbv zeta in E.
    kskip [r; x; y] Hwf Hf. kskip [r; x; y] Hwf Hf.
    kwalk ltac:(apply Hf; inL). all: kfin.
  - intros c1 c2 F. unfold prune_bxor. cbv zeta.
    fr_rw [r; x; y] x c1 c2 F. fr_rw [r; x; y] y c1 c2 F. fr_rw [r; x; y] r c1 c2 F. fr_auto.
  - intros a1 a2 H. rewrite (H x), (H y), (H r) by inL. reflexivity.
Qed.

(* ------------------------------------------------------------------------------------------ *)
(* conditional.rs *)

Lemma dedup_adj_In : forall l x, In x (dedup_adj l) <-> In x l.
Proof.
  induction l as [|y r IH]; intros x; [reflexivity|].
  cbn [dedup_adj]. destruct r as [|z r'].
  - reflexivity.
  - destruct (Nat.eqb_spec y z) as [->|N].
    + rewrite IH. cbn [In]. tauto.
    + change (In x (y :: dedup_adj (z :: r')) <-> In x (y :: z :: r')). cbn [In]. rewrite IH. cbn [In]. tauto.
Qed.

Lemma ite_cond_in : forall cd th el, In (cond_var cd) (ite_vars cd th el).
Proof. intros. unfold ite_vars. apply dedup_adj_In. left; reflexivity. Qed.
Lemma ite_then_in : forall cd th el, In (simple_var th) (ite_vars cd th el).
Proof. intros. unfold ite_vars. apply dedup_adj_In. right; left; reflexivity. Qed.
Lemma ite_else_in : forall cd th e, In (simple_var e) (ite_vars cd th (Some e)).
Proof. intros. unfold ite_vars. apply dedup_adj_In. right; right; left; reflexivity. Qed.

Lemma simple_apply_cstep : forall L sc c, In (simple_var sc) L -> cstep L c (simple_apply sc c).
Proof.
  intros L [[k v] z] c HL. unfold simple_var in HL. cbn [fst snd] in HL.
  unfold simple_apply. destruct k; cstep_auto.
Qed.

Lemma simple_apply_sound : forall a sc (c : ctx), (simple_var sc < length (fst c))%nat ->
  simple_sem sc a = true -> sstep a c (simple_apply sc c).
Proof.
  intros a [[k v] z] c Hv Hs Hwf Hi. unfold simple_var in Hv. cbn [fst snd] in Hv.
  pose proof (inst_bounds a _ v Hwf Hi Hv). unfold simple_sem in Hs.
  revert Hwf Hi. change (sstep a c (simple_apply (k, v, z) c)). unfold simple_apply.
  destruct k; b2p; sstep_auto.
Qed.

Lemma simple_apply_fr : forall L sc c1 c2, In (simple_var sc) L -> fr L c1 c2 ->
  orel (fr L) (simple_apply sc c1) (simple_apply sc c2).
Proof.
  intros L [[k v] z] c1 c2 HL F. unfold simple_var in HL. cbn [fst snd] in HL.
  unfold simple_apply. destruct (fr_cvar L v c1 c2 HL F) as [E1 E2]. rewrite ?E1, ?E2.
  destruct k; fr_auto.
Qed.

Lemma simple_apply_fixed : forall a sc (c c' : ctx), inst a (fst c) -> dfixed (sget (fst c) (simple_var sc)) = true ->
  simple_apply sc c = Some c' -> simple_sem sc a = true.
Proof.
  intros a [[k v] z] c c' Hi Hf E. unfold simple_var in Hf. cbn [fst snd] in Hf.
  destruct (fixed_value a (fst c) v Hi Hf). unfold simple_apply in E. unfold simple_sem.
  destruct k; kwalk ltac:(exact Hf); kfin.
Qed.

Lemma cond_true_sound : forall a cd s, let v := cond_var cd in
  dmin (sget s v) <= a v <= dmax (sget s v) -> cond_true cd s = true -> cond_sem cd a = true.
Proof.
  intros a [[k v] z] s v0 B H. unfold cond_var in v0. cbn [fst snd] in v0. subst v0.
  unfold cond_true in H. unfold cond_sem. destruct k; b2p; zgoal.
Qed.
Lemma cond_false_sound : forall a cd s, let v := cond_var cd in
  dmin (sget s v) <= a v <= dmax (sget s v) -> cond_false cd s = true -> cond_sem cd a = false.
Proof.
  intros a [[k v] z] s v0 B H. unfold cond_var in v0. cbn [fst snd] in v0. subst v0.
  unfold cond_false in H. unfold cond_sem. destruct k; b2p; zgoal.
Qed.
Lemma cond_fixed : forall a cd s, let v := cond_var cd in
  dmin (sget s v) = a v -> dmax (sget s v) = a v ->
  cond_true cd s = cond_sem cd a /\ cond_false cd s = negb (cond_sem cd a).
Proof.
  intros a [[k v] z] s v0 B1 B2. unfold cond_var in v0. cbn [fst snd] in v0. subst v0.
  unfold cond_true, cond_false, cond_sem. rewrite B1, B2. destruct k; split; zgoal.
Qed.
Lemma cond_agree : forall cd s1 s2, sget s1 (cond_var cd) = sget s2 (cond_var cd) ->
  cond_true cd s1 = cond_true cd s2 /\ cond_false cd s1 = cond_false cd s2.
Proof.
  intros [[k v] z] s1 s2 H. unfold cond_var in H. cbn [fst snd] in H.
  unfold cond_true, cond_false. rewrite H. split; reflexivity.
Qed.

Theorem mk_ite_good : forall cd th el, good (mk_ite cd th el).
Proof.
  intros cd th el. apply good_intro; cbn [prune sat trig mk_ite].
  - intros c. unfold prune_ite.
    destruct (cond_true cd (fst c)); [apply simple_apply_cstep, ite_then_in|].
    destruct (cond_false cd (fst c)); [|apply cstep_ret].
    destruct el as [e|]; [apply simple_apply_cstep, ite_else_in | apply cstep_ret].
  - intros a c Hsc Hsat Hwf Hi.
    assert (Sc : (cond_var cd < length (fst c))%nat) by (apply Hsc, ite_cond_in).
    assert (St : (simple_var th < length (fst c))%nat) by (apply Hsc, ite_then_in).
    pose proof (inst_bounds a _ _ Hwf Hi Sc) as Bc.
    revert Hwf Hi. change (sstep a c (prune_ite cd th el c)). unfold prune_ite.
    destruct (cond_true cd (fst c)) eqn:CT.
    { rewrite (cond_true_sound a cd (fst c) Bc CT) in Hsat. apply simple_apply_sound; assumption. }
    destruct (cond_false cd (fst c)) eqn:CF; [|apply sstep_ret].
    rewrite (cond_false_sound a cd (fst c) Bc CF) in Hsat.
    destruct el as [e|]; [|apply sstep_ret].
    apply simple_apply_sound; [apply Hsc, ite_else_in | exact Hsat].
  - intros a c c' _ Hi Hf E.
    destruct (fixed_value a (fst c) _ Hi (Hf _ (ite_cond_in cd th el))) as [V1 V2].
    destruct (cond_fixed a cd (fst c) V1 V2) as [CT CF].
    unfold prune_ite in E. rewrite CT, CF in E.
    destruct (cond_sem cd a); cbn [negb] in E.
    + eapply simple_apply_fixed; [exact Hi | apply Hf, ite_then_in | exact E].
    + destruct el as [e|]; [|reflexivity].
      eapply simple_apply_fixed; [exact Hi | apply Hf, ite_else_in | exact E].
  - intros c1 c2 F. unfold prune_ite.
    destruct (cond_agree cd (fst c1) (fst c2) (proj1 F _ (ite_cond_in cd th el))) as [-> ->].
    destruct (cond_true cd (fst c2)); [apply simple_apply_fr; [apply ite_then_in | exact F]|].
    destruct (cond_false cd (fst c2)); [|exact F].
    destruct el as [e|]; [apply simple_apply_fr; [apply ite_else_in | exact F] | exact F].
  - intros a1 a2 H.
    assert (Ec : cond_sem cd a1 = cond_sem cd a2).
    { pose proof (H _ (ite_cond_in cd th el)) as E. destruct cd as [[k v] z]. unfold cond_var in E. cbn [fst snd] in E.
      unfold cond_sem. rewrite E. reflexivity. }
    assert (Et : simple_sem th a1 = simple_sem th a2).
    { pose proof (H _ (ite_then_in cd th el)) as E. destruct th as [[k v] z]. unfold simple_var in E. cbn [fst snd] in E.
      unfold simple_sem. rewrite E. reflexivity. }
    rewrite Ec, Et. destruct (cond_sem cd a2); [reflexivity|].
    destruct el as [e|]; [|reflexivity].
    pose proof (H _ (ite_else_in cd th e)) as E. destruct e as [[k v] z]. unfold simple_var in E. cbn [fst snd] in E.
    unfold simple_sem. rewrite E. reflexivity.
Qed.

(* ------------------------------------------------------------------------------------------ *)
(* allequal.rs *)

Lemma all_eq_to_iff : forall v l, all_eq_to v l = true <-> forall y, In y l -> y = v.
Proof.
  intros v. induction l as [|x r IH]; cbn [all_eq_to].
  - split; [intros _ y []|reflexivity].
  - rewrite andb_true_iff, Z.eqb_eq, IH. cbn [In]. split.
    + intros [E H] y [<-|Hy]; [exact E | apply H; exact Hy].
    + intros H. split; [apply H; left; reflexivity | intros y Hy; apply H; right; exact Hy].
Qed.

Lemma inter_bounds_sound : forall a s v r lo hi,
  (forall x, In x r -> a x = v /\ dmin (sget s x) <= a x <= dmax (sget s x)) -> lo <= v <= hi ->
  exists lo' hi', inter_bounds s r lo hi = Some (lo', hi') /\ lo' <= v <= hi'.
Proof.
  intros a s v. induction r as [|x r IH]; intros lo hi H B; cbn [inter_bounds].
  - exists lo, hi. split; [reflexivity | exact B].
  - destruct (H x (or_introl eq_refl)) as [E Bx]. cbv zeta.
    set (lo' := if lo <? dmin (sget s x) then dmin (sget s x) else lo).
    set (hi' := if dmax (sget s x) <? hi then dmax (sget s x) else hi).
    assert (B' : lo' <= v <= hi').
    { subst lo' hi'. destruct (Z.ltb_spec lo (dmin (sget s x))), (Z.ltb_spec (dmax (sget s x)) hi); lia. }
    destruct (Z.ltb_spec hi' lo') as [C|C]; [lia|].
    apply IH; [intros y Hy; apply H; right; exact Hy | exact B'].
Qed.

Lemma inter_bounds_ge : forall s r lo hi lo' hi', inter_bounds s r lo hi = Some (lo', hi') ->
  lo <= lo' /\ forall x, In x r -> dmin (sget s x) <= lo'.
Proof.
  intros s. induction r as [|x r IH]; intros lo hi lo' hi' E; cbn [inter_bounds] in E.
  - inversion E; subst. split; [lia | intros x []].
  - cbv zeta in E.
    destruct (_ <? _) eqn:C in E; [discriminate|].
    apply IH in E. destruct E as [A B]. split.
    + destruct (Z.ltb_spec lo (dmin (sget s x))); lia.
    + intros y [<-|Hy]; [|apply B; exact Hy].
      destruct (Z.ltb_spec lo (dmin (sget s x))); lia.
Qed.

Lemma inter_bounds_agree : forall s1 s2 r lo hi, (forall x, In x r -> sget s1 x = sget s2 x) ->
  inter_bounds s1 r lo hi = inter_bounds s2 r lo hi.
Proof.
  intros s1 s2. induction r as [|x r IH]; intros lo hi H; cbn [inter_bounds]; [reflexivity|].
  rewrite (H x (or_introl eq_refl)). cbv zeta. destruct (_ <? _); [reflexivity|].
  apply IH. intros y Hy. apply H. right. exact Hy.
Qed.

Lemma alleq_apply_cstep : forall L xs lo hi c, (forall x, In x xs -> In x L) -> cstep L c (alleq_apply xs lo hi c).
Proof.
  intros L. induction xs as [|x r IH]; intros lo hi c HL; cbn [alleq_apply]; [apply cstep_ret|].
  assert (Hx : In x L) by (apply HL; left; reflexivity).
  apply cstep_bind; [apply cstep_opt_if; intros _; apply cstep_set_min; exact Hx|]. intros c1 _. cbv beta.
  apply cstep_bind; [apply cstep_opt_if; intros _; apply cstep_set_max; exact Hx|]. intros c2 _. cbv beta.
  apply IH. intros y Hy. apply HL. right. exact Hy.
Qed.

Lemma alleq_apply_sound : forall a v lo hi xs (c : ctx), lo <= v <= hi ->
  (forall x, In x xs -> a x = v /\ (x < length (fst c))%nat) -> sstep a c (alleq_apply xs lo hi c).
Proof.
  intros a v lo hi. induction xs as [|x r IH]; intros c B H; cbn [alleq_apply]; [apply sstep_ret|].
  destruct (H x (or_introl eq_refl)) as [E Sx].
  apply sstep_bind.
  { unfold opt_if. destruct (_ <? _); [|apply sstep_ret]. apply sstep_set_min; [exact Sx | lia]. }
  intros c1 L1. cbv beta. apply sstep_bind.
  { unfold opt_if. destruct (_ <? _); [|apply sstep_ret]. apply sstep_set_max; [lia | lia]. }
  intros c2 L2. cbv beta. apply IH; [exact B|].
  intros y Hy. destruct (H y (or_intror Hy)) as [Ey Sy]. split; [exact Ey | lia].
Qed.

Lemma alleq_apply_fr : forall L xs lo hi c1 c2, (forall x, In x xs -> In x L) -> fr L c1 c2 ->
  orel (fr L) (alleq_apply xs lo hi c1) (alleq_apply xs lo hi c2).
Proof.
  intros L. induction xs as [|x r IH]; intros lo hi c1 c2 HL F; cbn [alleq_apply]; [exact F|].
  assert (Hx : In x L) by (apply HL; left; reflexivity).
  apply orel_bind.
  { destruct (fr_cvar L x c1 c2 Hx F) as [E1 E2]. rewrite E1. unfold opt_if. destruct (_ <? _); [|exact F].
    apply fr_set_min; assumption. }
  intros d1 d2 F1. cbv beta. apply orel_bind.
  { destruct (fr_cvar L x d1 d2 Hx F1) as [E1 E2]. rewrite E2. unfold opt_if. destruct (_ <? _); [|exact F1].
    apply fr_set_max; assumption. }
  intros e1 e2 F2. cbv beta. apply IH; [|exact F2]. intros y Hy. apply HL. right. exact Hy.
Qed.

Lemma alleq_apply_fixed : forall a lo hi xs (c c' : ctx), inst a (fst c) ->
  (forall x, In x xs -> dfixed (sget (fst c) x) = true) ->
  alleq_apply xs lo hi c = Some c' -> forall x, In x xs -> lo <= a x <= hi.
Proof.
  intros a lo hi. induction xs as [|x r IH]; intros c c' Hi Hf E y Hy; [destruct Hy|].
  cbn [alleq_apply] in E.
  assert (Fx : dfixed (sget (fst c) x) = true) by (apply Hf; left; reflexivity).
  destruct (fixed_value a (fst c) x Hi Fx) as [V1 V2].
  destruct (opt_if (cvar_min x c <? lo) (cset_min x lo) c) as [c1|] eqn:E1; [cbn [obind] in E | discriminate E].
  assert (A1 : c1 = c /\ lo <= a x).
  { unfold opt_if in E1. destruct (Z.ltb_spec (cvar_min x c) lo) as [C|C].
    - apply fixed_set_min in E1; [|exact Fx]. destruct E1 as [-> ?]. split; [reflexivity | lia].
    - inversion E1. split; [reflexivity | unfold cvar_min in C; lia]. }
  destruct A1 as [-> A1].
  destruct (opt_if (hi <? cvar_max x c) (cset_max x hi) c) as [c2|] eqn:E2; [cbn [obind] in E | discriminate E].
  assert (A2 : c2 = c /\ a x <= hi).
  { unfold opt_if in E2. destruct (Z.ltb_spec hi (cvar_max x c)) as [C|C].
    - apply fixed_set_max in E2; [|exact Fx]. destruct E2 as [-> ?]. split; [reflexivity | lia].
    - inversion E2. split; [reflexivity | unfold cvar_max in C; lia]. }
  destruct A2 as [-> A2].
  destruct Hy as [<-|Hy]; [lia|].
  apply (IH c c' Hi); [intros z Hz; apply Hf; right; exact Hz | exact E | exact Hy].
Qed.

Lemma alleq_sat_frame : forall (xs : list nat) (a1 a2 : asg), (forall v, In v xs -> a1 v = a2 v) ->
  all_equal_sem (map a1 xs) = all_equal_sem (map a2 xs).
Proof. intros xs a1 a2 H. rewrite (map_ext_in a1 a2 xs H). reflexivity. Qed.

Theorem mk_alleq_good : forall xs, kf_alleq_empty xs = false -> good (mk_alleq xs).
Proof.
  intros [|x0 r] Hk; [discriminate|]. clear Hk.
  apply good_intro; cbn [prune sat trig mk_alleq].
  - intros c. unfold prune_alleq. destruct (inter_bounds _ _ _ _) as [[lo hi]|]; [|apply cstep_none].
    apply alleq_apply_cstep. intros x Hx; exact Hx.
  - intros a c Hsc Hsat Hwf Hi. cbn [map all_equal_sem] in Hsat.
    rewrite all_eq_to_iff in Hsat.
    assert (Hall : forall x, In x (x0 :: r) -> a x = a x0 /\ (x < length (fst c))%nat).
    { intros x Hx. split; [|apply Hsc; exact Hx]. destruct Hx as [<-|Hx]; [reflexivity|].
      apply Hsat. apply in_map. exact Hx. }
    pose proof (inst_bounds a _ x0 Hwf Hi (proj2 (Hall x0 (or_introl eq_refl)))) as B0.
    destruct (inter_bounds_sound a (fst c) (a x0) r (cvar_min x0 c) (cvar_max x0 c)) as (lo & hi & E & B).
    { intros x Hx. destruct (Hall x (or_intror Hx)) as [Ex Sx]. split; [exact Ex|].
      apply inst_bounds; assumption. }
    { exact B0. }
    revert Hwf Hi. change (sstep a c (prune_alleq (x0 :: r) c)). unfold prune_alleq. rewrite E.
    apply (alleq_apply_sound a (a x0)); [exact B | exact Hall].
  - intros a c c' _ Hi Hf E. unfold prune_alleq in E.
    destruct (inter_bounds _ _ _ _) as [[lo hi]|] eqn:EI; [|discriminate E].
    pose proof (alleq_apply_fixed a lo hi _ c c' Hi Hf E) as Hin.
    destruct (inter_bounds_ge _ _ _ _ _ _ EI) as [G0 G].
    assert (Hlo : forall x, In x (x0 :: r) -> a x = lo).
    { intros x Hx. destruct (fixed_value a (fst c) x Hi (Hf x Hx)) as [V1 V2].
      pose proof (Hin x Hx). destruct Hx as [<-|Hx].
      - unfold cvar_min in G0. lia.
      - specialize (G x Hx). lia. }
    cbn [map all_equal_sem]. apply all_eq_to_iff. intros y Hy. apply in_map_iff in Hy.
    destruct Hy as (x & <- & Hx). rewrite (Hlo x (or_intror Hx)), (Hlo x0 (or_introl eq_refl)). reflexivity.
  - intros c1 c2 F. unfold prune_alleq.
    destruct (fr_cvar (x0 :: r) x0 c1 c2 (or_introl eq_refl) F) as [-> ->].
    rewrite (inter_bounds_agree (fst c1) (fst c2) r) by (intros x Hx; apply (proj1 F); right; exact Hx).
    destruct (inter_bounds _ _ _ _) as [[lo hi]|]; [|exact I].
    apply alleq_apply_fr; [intros x Hx; exact Hx | exact F].
  - intros a1 a2 H. apply alleq_sat_frame. exact H.
Qed.

(* known class alleq_empty: the propagator fails on every store although `sat` is constantly true *)
Theorem mk_alleq_empty_sound_refuted : exists xs, kf_alleq_empty xs = true /\ ~ sound (mk_alleq xs).
Proof.
  exists []. split; [reflexivity|]. intros H.
  destruct (H [[0]] [] (fun _ => 0)) as (s' & ev' & E & _).
  - intros v Hv. cbn in Hv. assert (v = 0%nat) by lia. subst v. split; [discriminate | exact I].
  - intros v [].
  - intros v Hv. cbn in Hv. assert (v = 0%nat) by lia. subst v. left; reflexivity.
  - reflexivity.
  - cbn in E. discriminate E.
Qed.

Theorem mk_alleq_empty_others : contracting (mk_alleq []) /\ checking (mk_alleq []) /\ frame (mk_alleq []).
Proof.
  split; [|split].
  - intros s ev s' ev' _ E. cbn in E. discriminate E.
  - intros s ev a _ _ _ Hne. exfalso. apply Hne. reflexivity.
  - split; [intros s1 s2 ev _ _; exact I | intros a1 a2 _; reflexivity].
Qed.

(* the repaired propagator (fixes/alleq_empty.patch) meets all four contracts for every list *)
Theorem mk_alleq_fixed_good : forall xs, good (mk_alleq_fixed xs).
Proof.
  intros [|x0 r].
  - apply good_intro; cbn [prune sat trig mk_alleq_fixed prune_alleq_fixed map all_equal_sem].
    + intros c. apply cstep_ret.
    + intros a c _ _. apply sstep_ret.
    + reflexivity.
    + intros c1 c2 F. exact F.
    + reflexivity.
  - change (good (mk_alleq (x0 :: r))). apply mk_alleq_good. reflexivity.
Qed.

(* ------------------------------------------------------------------------------------------ *)
(* bool_and *)

Lemma forallb_false_ex : forall (f : nat -> bool) l, forallb f l = false -> exists x, In x l /\ f x = false.
Proof.
  intros f. induction l as [|x r IH]; intros H; [discriminate|]. cbn [forallb] in H.
  destruct (f x) eqn:E.
  - destruct (IH H) as (y & Hy & Ey). exists y. split; [right; exact Hy | exact Ey].
  - exists x. split; [left; reflexivity | exact E].
Qed.
Lemma existsb_false_all : forall (f : nat -> bool) l, existsb f l = false -> forall x, In x l -> f x = false.
Proof.
  intros f. induction l as [|x r IH]; intros H y Hy; [destruct Hy|]. cbn [existsb] in H.
  apply orb_false_iff in H. destruct H as [H1 H2]. destruct Hy as [<-|Hy]; [exact H1 | apply IH; assumption].
Qed.

Lemma forallb_ext_in' : forall (f g : nat -> bool) l, (forall x, In x l -> f x = g x) -> forallb f l = forallb g l.
Proof.
  intros f g. induction l as [|x r IH]; intros H; [reflexivity|]. cbn [forallb].
  rewrite (H x (or_introl eq_refl)), IH; [reflexivity|]. intros y Hy. apply H. right. exact Hy.
Qed.
Lemma existsb_ext_in' : forall (f g : nat -> bool) l, (forall x, In x l -> f x = g x) -> existsb f l = existsb g l.
Proof.
  intros f g. induction l as [|x r IH]; intros H; [reflexivity|]. cbn [existsb].
  rewrite (H x (or_introl eq_refl)), IH; [reflexivity|]. intros y Hy. apply H. right. exact Hy.
Qed.

(* set every variable of a list *)
Lemma set_all_min_cstep : forall L xs b c, (forall x, In x xs -> In x L) -> cstep L c (set_all_min xs b c).
Proof.
  intros L. induction xs as [|x r IH]; intros b c HL; cbn [set_all_min]; [apply cstep_ret|].
  apply cstep_bind; [apply cstep_set_min; apply HL; left; reflexivity|]. intros c1 _. cbv beta.
  apply IH. intros y Hy. apply HL. right. exact Hy.
Qed.
Lemma set_all_max_cstep : forall L xs b c, (forall x, In x xs -> In x L) -> cstep L c (set_all_max xs b c).
Proof.
  intros L. induction xs as [|x r IH]; intros b c HL; cbn [set_all_max]; [apply cstep_ret|].
  apply cstep_bind; [apply cstep_set_max; apply HL; left; reflexivity|]. intros c1 _. cbv beta.
  apply IH. intros y Hy. apply HL. right. exact Hy.
Qed.
Lemma set_all_min_sound : forall a b xs (c : ctx),
  (forall x, In x xs -> b <= a x /\ (x < length (fst c))%nat) -> sstep a c (set_all_min xs b c).
Proof.
  intros a b. induction xs as [|x r IH]; intros c H; cbn [set_all_min]; [apply sstep_ret|].
  destruct (H x (or_introl eq_refl)) as [Bx Sx].
  apply sstep_bind; [apply sstep_set_min; assumption|]. intros c1 L1. cbv beta. apply IH.
  intros y Hy. destruct (H y (or_intror Hy)) as [By Sy]. split; [exact By | lia].
Qed.
Lemma set_all_max_sound : forall a b xs (c : ctx),
  (forall x, In x xs -> a x <= b /\ (x < length (fst c))%nat) -> sstep a c (set_all_max xs b c).
Proof.
  intros a b. induction xs as [|x r IH]; intros c H; cbn [set_all_max]; [apply sstep_ret|].
  destruct (H x (or_introl eq_refl)) as [Bx Sx].
  apply sstep_bind; [apply sstep_set_max; assumption|]. intros c1 L1. cbv beta. apply IH.
  intros y Hy. destruct (H y (or_intror Hy)) as [By Sy]. split; [exact By | lia].
Qed.
Lemma set_all_min_fr : forall L xs b c1 c2, (forall x, In x xs -> In x L) -> fr L c1 c2 ->
  orel (fr L) (set_all_min xs b c1) (set_all_min xs b c2).
Proof.
  intros L. induction xs as [|x r IH]; intros b c1 c2 HL F; cbn [set_all_min]; [exact F|].
  apply orel_bind; [apply fr_set_min; [apply HL; left; reflexivity | exact F]|].
  intros d1 d2 F1. cbv beta. apply IH; [|exact F1]. intros y Hy. apply HL. right. exact Hy.
Qed.
Lemma set_all_max_fr : forall L xs b c1 c2, (forall x, In x xs -> In x L) -> fr L c1 c2 ->
  orel (fr L) (set_all_max xs b c1) (set_all_max xs b c2).
Proof.
  intros L. induction xs as [|x r IH]; intros b c1 c2 HL F; cbn [set_all_max]; [exact F|].
  apply orel_bind; [apply fr_set_max; [apply HL; left; reflexivity | exact F]|].
  intros d1 d2 F1. cbv beta. apply IH; [|exact F1]. intros y Hy. apply HL. right. exact Hy.
Qed.

(* the three blocks of BoolAnd::prune for a non-empty operand list *)
Definition band_b1 (xs : list nat) (r : nat) (c0 : ctx) : option ctx :=
  if 1 <=? cvar_min r c0 then set_all_min xs 1 c0 else Some c0.
Definition band_b2 (xs : list nat) (rmax : Z) (c : ctx) : option ctx :=
  if rmax <=? 0 then
    match and_scan (fst c) xs 0 [] with
    | (O, [u]) => cset_max u 0 c
    | _ => Some c
    end
  else Some c.
Definition band_b3 (xs : list nat) (r : nat) (c : ctx) : option ctx :=
  let (any_false, all_true) := and_final (fst c) xs true in
  if any_false then cset_max r 0 c
  else if all_true then cset_min r 1 c
  else Some c.

Lemma prune_band_eq : forall xs r c0, xs <> [] ->
  prune_band xs r c0 = do c <- band_b1 xs r c0; do c <- band_b2 xs (cvar_max r c0) c; band_b3 xs r c.
Proof. intros [|x xs'] r c0 H; [contradiction|]. reflexivity. Qed.

Lemma and_scan_und_in : forall s xs nf und nf' und', and_scan s xs nf und = (nf', und') ->
  forall u, In u und' -> In u und \/ In u xs.
Proof.
  intros s. induction xs as [|x r IH]; intros nf und nf' und' E u Hu; cbn [and_scan] in E.
  - inversion E; subst. left. exact Hu.
  - cbv zeta in E. destruct (dmax (sget s x) <=? 0).
    + destruct (IH _ _ _ _ E u Hu) as [A|A]; [left; exact A | right; right; exact A].
    + destruct ((dmin (sget s x) <=? 0) && (1 <=? dmax (sget s x))).
      * destruct (IH _ _ _ _ E u Hu) as [A|A]; [|right; right; exact A].
        apply in_app_or in A. destruct A as [A|[<-|[]]]; [left; exact A | right; left; reflexivity].
      * destruct (IH _ _ _ _ E u Hu) as [A|A]; [left; exact A | right; right; exact A].
Qed.

Lemma and_scan_false : forall a s xs nf und nf' und', and_scan s xs nf und = (nf', und') ->
  (nf <= nf')%nat /\ (forall u, In u und -> In u und') /\
  forall x, In x xs -> dmin (sget s x) <= a x <= dmax (sget s x) -> a x <= 0 -> (S nf <= nf')%nat \/ In x und'.
Proof.
  intros a s. induction xs as [|x r IH]; intros nf und nf' und' E; cbn [and_scan] in E.
  - inversion E; subst. split; [lia|]. split; [auto|]. intros x [].
  - cbv zeta in E. destruct (Z.leb_spec (dmax (sget s x)) 0) as [C1|C1].
    + destruct (IH _ _ _ _ E) as (A & B & C). split; [lia|]. split; [exact B|].
      intros y [<-|Hy] By Fy; [left; lia|]. destruct (C y Hy By Fy); [left; lia | right; assumption].
    + destruct (Z.leb_spec (dmin (sget s x)) 0) as [C2|C2]; cbn [andb] in E.
      * destruct (Z.leb_spec 1 (dmax (sget s x))) as [C3|C3]; [|lia].
        destruct (IH _ _ _ _ E) as (A & B & C). split; [exact A|].
        split; [intros u Hu; apply B, in_or_app; left; exact Hu|].
        intros y [<-|Hy] By Fy; [right; apply B, in_or_app; right; left; reflexivity | apply C; assumption].
      * destruct (IH _ _ _ _ E) as (A & B & C). split; [exact A|]. split; [exact B|].
        intros y [<-|Hy] By Fy; [lia | apply C; assumption].
Qed.

Lemma and_scan_agree : forall s1 s2 xs nf und, (forall x, In x xs -> sget s1 x = sget s2 x) ->
  and_scan s1 xs nf und = and_scan s2 xs nf und.
Proof.
  intros s1 s2. induction xs as [|x r IH]; intros nf und H; cbn [and_scan]; [reflexivity|].
  rewrite (H x (or_introl eq_refl)). cbv zeta.
  assert (H' : forall y, In y r -> sget s1 y = sget s2 y) by (intros y Hy; apply H; right; exact Hy).
  destruct (_ <=? 0); [apply IH; exact H'|]. destruct (_ && _); apply IH; exact H'.
Qed.

Lemma and_final_spec : forall s xs at0 af at', and_final s xs at0 = (af, at') ->
  (af = true -> exists x, In x xs /\ dmax (sget s x) <= 0) /\
  (af = false -> at' = true -> at0 = true /\ forall x, In x xs -> 1 <= dmin (sget s x)).
Proof.
  intros s. induction xs as [|x r IH]; intros at0 af at' E; cbn [and_final] in E.
  - inversion E; subst. split; [discriminate|]. intros _ H. split; [exact H | intros x []].
  - destruct (Z.leb_spec (dmax (sget s x)) 0) as [C1|C1].
    + inversion E; subst. split; [|discriminate]. intros _. exists x. split; [left; reflexivity | exact C1].
    + destruct (Z.leb_spec (dmin (sget s x)) 0) as [C2|C2].
      * destruct (IH _ _ _ E) as [A B]. split.
        { intros Ha. destruct (A Ha) as (y & Hy & Dy). exists y. split; [right; exact Hy | exact Dy]. }
        { intros Ha Ht. destruct (B Ha Ht) as [X _]. discriminate X. }
      * destruct (IH _ _ _ E) as [A B]. split.
        { intros Ha. destruct (A Ha) as (y & Hy & Dy). exists y. split; [right; exact Hy | exact Dy]. }
        { intros Ha Ht. destruct (B Ha Ht) as [X Y]. split; [exact X|].
          intros y [<-|Hy]; [lia | apply Y; exact Hy]. }
Qed.

Lemma and_final_fixed : forall a s xs at0,
  (forall x, In x xs -> dmin (sget s x) = a x /\ dmax (sget s x) = a x) ->
  and_final s xs at0 = if forallb (fun x => tr (a x)) xs then (false, at0) else (true, snd (and_final s xs at0)).
Proof.
  intros a s. induction xs as [|x r IH]; intros at0 H; cbn [and_final forallb]; [reflexivity|].
  destruct (H x (or_introl eq_refl)) as [V1 V2]. rewrite V1, V2. unfold tr at 1.
  assert (H' : forall y, In y r -> dmin (sget s y) = a y /\ dmax (sget s y) = a y) by (intros y Hy; apply H; right; exact Hy).
  destruct (Z.leb_spec (a x) 0) as [C1|C1].
  - destruct (Z.leb_spec 1 (a x)); [lia|]. reflexivity.
  - destruct (Z.leb_spec 1 (a x)); [|lia]. cbn [andb]. apply IH. exact H'.
Qed.

Lemma and_final_agree : forall s1 s2 xs at0, (forall x, In x xs -> sget s1 x = sget s2 x) ->
  and_final s1 xs at0 = and_final s2 xs at0.
Proof.
  intros s1 s2. induction xs as [|x r IH]; intros at0 H; cbn [and_final]; [reflexivity|].
  rewrite (H x (or_introl eq_refl)).
  assert (H' : forall y, In y r -> sget s1 y = sget s2 y) by (intros y Hy; apply H; right; exact Hy).
  destruct (_ <=? 0); [reflexivity|]. destruct (_ <=? 0); apply IH; exact H'.
Qed.

Lemma band_b1_cstep : forall xs r c, cstep (r :: xs) c (band_b1 xs r c).
Proof.
  intros xs r c. unfold band_b1. destruct (_ <=? _); [|apply cstep_ret].
  apply set_all_min_cstep. intros x Hx. right. exact Hx.
Qed.
Lemma band_b2_cstep : forall xs r rmax c, cstep (r :: xs) c (band_b2 xs rmax c).
Proof.
  intros xs r rmax c. unfold band_b2. destruct (_ <=? _); [|apply cstep_ret].
  destruct (and_scan _ _ _ _) as [nf und] eqn:ES. destruct nf; [|apply cstep_ret].
  destruct und as [|u [|u' und']]; [apply cstep_ret | | apply cstep_ret].
  apply cstep_set_max. destruct (and_scan_und_in _ _ _ _ _ _ ES u (or_introl eq_refl)) as [[]|A]. right. exact A.
Qed.
Lemma band_b3_cstep : forall xs r c, cstep (r :: xs) c (band_b3 xs r c).
Proof.
  intros xs r c. unfold band_b3. destruct (and_final _ _ _) as [af at']. destruct af; [apply cstep_set_max; left; reflexivity|].
  destruct at'; [apply cstep_set_min; left; reflexivity | apply cstep_ret].
Qed.

Definition band_sem (xs : list nat) (r : nat) (a : asg) : Prop :=
  (1 <= a r /\ forall x, In x xs -> 1 <= a x) \/ (a r <= 0 /\ exists x, In x xs /\ a x <= 0).

Lemma band_sem_of_sat : forall xs r a, Bool.eqb (tr (a r)) (forallb (fun x => tr (a x)) xs) = true -> band_sem xs r a.
Proof.
  intros xs r a H. apply eqb_prop in H. unfold tr at 1 in H.
  destruct (forallb _ xs) eqn:F.
  - left. apply Z.leb_le in H. split; [exact H|]. intros x Hx.
    rewrite forallb_forall in F. specialize (F x Hx). unfold tr in F. apply Z.leb_le. exact F.
  - right. apply Z.leb_gt in H. split; [lia|]. destruct (forallb_false_ex _ _ F) as (x & Hx & Ex).
    exists x. split; [exact Hx|]. unfold tr in Ex. apply Z.leb_gt in Ex. lia.
Qed.

Lemma band_sat_of_sem : forall xs r a, band_sem xs r a -> Bool.eqb (tr (a r)) (forallb (fun x => tr (a x)) xs) = true.
Proof.
  intros xs r a [[H1 H2]|[H1 (x & Hx & Ex)]]; unfold tr at 1.
  - destruct (Z.leb_spec 1 (a r)); [|lia].
    replace (forallb _ xs) with true; [reflexivity|]. symmetry. apply forallb_forall. intros x Hx.
    unfold tr. apply Z.leb_le. apply H2. exact Hx.
  - destruct (Z.leb_spec 1 (a r)); [lia|].
    destruct (forallb _ xs) eqn:F; [|reflexivity]. rewrite forallb_forall in F. specialize (F x Hx).
    unfold tr in F. apply Z.leb_le in F. lia.
Qed.

Theorem mk_band_good : forall xs r, good (mk_band xs r).
Proof.
  intros xs r. destruct xs as [|x0 xs'].
  { (* empty AND: result := 1 *)
    apply good_intro; cbn [prune sat trig mk_band prune_band forallb].
    - intros c. cstep_auto.
    - intros a c Hsc Hsat Hwf Hi. assert (Sr : (r < length (fst c))%nat) by (apply Hsc; inL).
      pose proof (inst_bounds a _ r Hwf Hi Sr). unfold tr, is01 in Hsat. zcases Hsat.
      all: revert Hwf Hi; change (sstep a c (do c1 <- cset_min r 1 c; cset_max r 1 c1)); sstep_auto.
    - intros a c c' _ Hi Hf E. destruct (fixed_value a (fst c) r Hi (Hf r ltac:(inL))).
      kwalk ltac:(apply Hf; inL). kfin.
    - intros c1 c2 F. fr_auto.
    - intros a1 a2 H. rewrite (H r) by inL. reflexivity. }
  set (xs := x0 :: xs') in *. assert (Hne : xs <> []) by discriminate.
  apply good_intro; cbn [prune sat trig mk_band]; try rewrite !(prune_band_eq xs r _ Hne).
  - intros c. rewrite (prune_band_eq xs r c Hne).
    apply cstep_bind; [apply band_b1_cstep|]. intros c1 _. cbv beta.
    apply cstep_bind; [apply band_b2_cstep|]. intros c2 _. cbv beta. apply band_b3_cstep.
  - intros a c Hsc Hsat Hwf Hi. rewrite (prune_band_eq xs r c Hne).
    assert (Sr : (r < length (fst c))%nat) by (apply Hsc; left; reflexivity).
    assert (Sx : forall x, In x xs -> (x < length (fst c))%nat) by (intros x Hx; apply Hsc; right; exact Hx).
    pose proof (inst_bounds a _ r Hwf Hi Sr) as Br.
    assert (Hsem : band_sem xs r a) by (apply band_sem_of_sat; subst xs; exact Hsat).
    revert Hwf Hi.
    change (sstep a c (do c1 <- band_b1 xs r c; do c2 <- band_b2 xs (cvar_max r c) c1; band_b3 xs r c2)).
    apply sstep_bind.
    { unfold band_b1, cvar_min. destruct (Z.leb_spec 1 (dmin (sget (fst c) r))) as [C|C]; [|apply sstep_ret].
      apply set_all_min_sound. intros x Hx. split; [|apply Sx; exact Hx].
      destruct Hsem as [[_ H2]|[H1 _]]; [apply H2; exact Hx | lia]. }
    intros c1 L1. cbv beta. apply sstep_bind.
    { unfold band_b2, cvar_max. destruct (Z.leb_spec (dmax (sget (fst c) r)) 0) as [C|C]; [|apply sstep_ret].
      intros Hwf1 Hi1. destruct (and_scan _ _ _ _) as [nf und] eqn:ES.
      destruct nf; [|exact (sstep_ret a c1 Hwf1 Hi1)].
      destruct und as [|u [|u' und']]; [exact (sstep_ret a c1 Hwf1 Hi1) | | exact (sstep_ret a c1 Hwf1 Hi1)].
      destruct Hsem as [[H1 _]|[_ (x & Hx & Ex)]]; [lia|].
      assert (Bx : dmin (sget (fst c1) x) <= a x <= dmax (sget (fst c1) x)).
      { apply inst_bounds; [exact Hwf1 | exact Hi1 | rewrite L1; apply Sx; exact Hx]. }
      destruct (and_scan_false a _ _ _ _ _ _ ES) as (_ & _ & Hf).
      destruct (Hf x Hx Bx Ex) as [A|[->|[]]]; [lia|].
      refine (sstep_set_max a x 0 c1 _ Ex Hwf1 Hi1). rewrite L1. apply Sx. exact Hx. }
    intros c2 L2. cbv beta. unfold band_b3. intros Hwf2 Hi2.
    assert (Bx : forall x, In x xs -> dmin (sget (fst c2) x) <= a x <= dmax (sget (fst c2) x)).
    { intros x Hx. apply inst_bounds; [exact Hwf2 | exact Hi2 | rewrite L2, L1; apply Sx; exact Hx]. }
    assert (Sr2 : (r < length (fst c2))%nat) by lia.
    destruct (and_final _ _ _) as [af at'] eqn:EF. destruct (and_final_spec _ _ _ _ _ EF) as [A B].
    destruct af.
    { destruct (A eq_refl) as (x & Hx & Dx). pose proof (Bx x Hx).
      refine (sstep_set_max a r 0 c2 Sr2 _ Hwf2 Hi2).
      destruct Hsem as [[_ H2]|[H1 _]]; [specialize (H2 x Hx); lia | exact H1]. }
    destruct at'; [|exact (sstep_ret a c2 Hwf2 Hi2)].
    destruct (B eq_refl eq_refl) as [_ Hall].
    refine (sstep_set_min a r 1 c2 Sr2 _ Hwf2 Hi2).
    destruct Hsem as [[H1 _]|[_ (x & Hx & Ex)]]; [exact H1|]. specialize (Hall x Hx). specialize (Bx x Hx). lia.
  - intros a c c' Hwf Hi Hf E. rewrite (prune_band_eq xs r c Hne) in E.
    destruct (band_b1 xs r c) as [c1|] eqn:E1; [cbn [obind] in E | discriminate E].
    assert (c1 = c) by (eapply (cstep_fixed (r :: xs)); [apply band_b1_cstep | exact Hwf | exact Hf | exact E1]).
    subst c1. clear E1.
    destruct (band_b2 xs (cvar_max r c) c) as [c2|] eqn:E2; [cbn [obind] in E | discriminate E].
    assert (c2 = c) by (eapply (cstep_fixed (r :: xs)); [apply (band_b2_cstep xs r) | exact Hwf | exact Hf | exact E2]).
    subst c2. clear E2.
    assert (Fr : dfixed (sget (fst c) r) = true) by (apply Hf; left; reflexivity).
    destruct (fixed_value a (fst c) r Hi Fr) as [R1 R2].
    cbn [andb]. change (x0 :: xs') with xs. apply band_sat_of_sem.
    unfold band_b3 in E.
    rewrite (and_final_fixed a (fst c) xs true) in E
      by (intros x Hx; apply fixed_value; [exact Hi | apply Hf; right; exact Hx]).
    destruct (forallb (fun x => tr (a x)) xs) eqn:F.
    + apply fixed_set_min in E; [|exact Fr]. destruct E as [_ E]. left. split; [lia|].
      intros x Hx. rewrite forallb_forall in F. specialize (F x Hx). unfold tr in F. apply Z.leb_le. exact F.
    + apply fixed_set_max in E; [|exact Fr]. destruct E as [_ E]. right. split; [lia|].
      destruct (forallb_false_ex _ _ F) as (x & Hx & Ex). exists x. split; [exact Hx|].
      unfold tr in Ex. apply Z.leb_gt in Ex. lia.
  - intros c1 c2 F. rewrite (prune_band_eq xs r c1 Hne), (prune_band_eq xs r c2 Hne).
    assert (Ag : forall s1 s2 : ctx, fr (r :: xs) s1 s2 -> forall x, In x xs -> sget (fst s1) x = sget (fst s2) x)
      by (intros s1 s2 G x Hx; apply (proj1 G); right; exact Hx).
    assert (Hxs : forall x, In x xs -> In x (r :: xs)) by (intros x Hx; right; exact Hx).
    destruct (fr_cvar (r :: xs) r c1 c2 (or_introl eq_refl) F) as [E1 E2].
    apply orel_bind.
    { unfold band_b1. rewrite E1. destruct (_ <=? _); [|exact F]. apply set_all_min_fr; assumption. }
    intros d1 d2 F1. cbv beta. rewrite E2. apply orel_bind.
    { unfold band_b2. destruct (_ <=? _); [|exact F1].
      rewrite (and_scan_agree (fst d1) (fst d2) xs 0 [] (Ag d1 d2 F1)).
      destruct (and_scan _ _ _ _) as [nf und] eqn:ES. destruct nf; [|exact F1].
      destruct und as [|u [|u' und']]; [exact F1 | | exact F1].
      apply fr_set_max; [|exact F1].
      destruct (and_scan_und_in _ _ _ _ _ _ ES u (or_introl eq_refl)) as [[]|A]. right. exact A. }
    intros e1 e2 F2. cbv beta. unfold band_b3.
    rewrite (and_final_agree (fst e1) (fst e2) xs true (Ag e1 e2 F2)).
    destruct (and_final _ _ _) as [af at']. destruct af; [apply fr_set_max; [left; reflexivity | exact F2]|].
    destruct at'; [apply fr_set_min; [left; reflexivity | exact F2] | exact F2].
  - intros a1 a2 H. cbn [andb]. rewrite (H r) by (left; reflexivity).
    rewrite (forallb_ext_in' (fun x => tr (a1 x)) (fun x => tr (a2 x)) xs); [reflexivity|].
    intros x Hx. rewrite (H x) by (right; exact Hx). reflexivity.
Qed.

(* ------------------------------------------------------------------------------------------ *)
(* bool_or (dual of bool_and) *)

Definition bor_b1 (xs : list nat) (r : nat) (c0 : ctx) : option ctx :=
  if cvar_max r c0 <=? 0 then set_all_max xs 0 c0 else Some c0.
Definition bor_b2 (xs : list nat) (rmin : Z) (c : ctx) : option ctx :=
  if 1 <=? rmin then
    match or_scan (fst c) xs 0 [] with
    | (O, [u]) => cset_min u 1 c
    | _ => Some c
    end
  else Some c.
Definition bor_b3 (xs : list nat) (r : nat) (c : ctx) : option ctx :=
  let (any_true, all_false) := or_final (fst c) xs true in
  if any_true then cset_min r 1 c
  else if all_false then cset_max r 0 c
  else Some c.

Lemma prune_bor_eq : forall xs r c0, xs <> [] ->
  prune_bor xs r c0 = do c <- bor_b1 xs r c0; do c <- bor_b2 xs (cvar_min r c0) c; bor_b3 xs r c.
Proof. intros [|x xs'] r c0 H; [contradiction|]. reflexivity. Qed.

Lemma or_scan_und_in : forall s xs nt und nt' und', or_scan s xs nt und = (nt', und') ->
  forall u, In u und' -> In u und \/ In u xs.
Proof.
  intros s. induction xs as [|x r IH]; intros nt und nt' und' E u Hu; cbn [or_scan] in E.
  - inversion E; subst. left. exact Hu.
  - cbv zeta in E. destruct (1 <=? dmin (sget s x)).
    + destruct (IH _ _ _ _ E u Hu) as [A|A]; [left; exact A | right; right; exact A].
    + destruct ((dmin (sget s x) <=? 0) && (1 <=? dmax (sget s x))).
      * destruct (IH _ _ _ _ E u Hu) as [A|A]; [|right; right; exact A].
        apply in_app_or in A. destruct A as [A|[<-|[]]]; [left; exact A | right; left; reflexivity].
      * destruct (IH _ _ _ _ E u Hu) as [A|A]; [left; exact A | right; right; exact A].
Qed.

Lemma or_scan_true : forall a s xs nt und nt' und', or_scan s xs nt und = (nt', und') ->
  (nt <= nt')%nat /\ (forall u, In u und -> In u und') /\
  forall x, In x xs -> dmin (sget s x) <= a x <= dmax (sget s x) -> 1 <= a x -> (S nt <= nt')%nat \/ In x und'.
Proof.
  intros a s. induction xs as [|x r IH]; intros nt und nt' und' E; cbn [or_scan] in E.
  - inversion E; subst. split; [lia|]. split; [auto|]. intros x [].
  - cbv zeta in E. destruct (Z.leb_spec 1 (dmin (sget s x))) as [C1|C1].
    + destruct (IH _ _ _ _ E) as (A & B & C). split; [lia|]. split; [exact B|].
      intros y [<-|Hy] By Fy; [left; lia|]. destruct (C y Hy By Fy); [left; lia | right; assumption].
    + destruct (Z.leb_spec (dmin (sget s x)) 0) as [C2|C2]; [|lia]. cbn [andb] in E.
      destruct (Z.leb_spec 1 (dmax (sget s x))) as [C3|C3].
      * destruct (IH _ _ _ _ E) as (A & B & C). split; [exact A|].
        split; [intros u Hu; apply B, in_or_app; left; exact Hu|].
        intros y [<-|Hy] By Fy; [right; apply B, in_or_app; right; left; reflexivity | apply C; assumption].
      * destruct (IH _ _ _ _ E) as (A & B & C). split; [exact A|]. split; [exact B|].
        intros y [<-|Hy] By Fy; [lia | apply C; assumption].
Qed.

Lemma or_scan_agree : forall s1 s2 xs nt und, (forall x, In x xs -> sget s1 x = sget s2 x) ->
  or_scan s1 xs nt und = or_scan s2 xs nt und.
Proof.
  intros s1 s2. induction xs as [|x r IH]; intros nt und H; cbn [or_scan]; [reflexivity|].
  rewrite (H x (or_introl eq_refl)). cbv zeta.
  assert (H' : forall y, In y r -> sget s1 y = sget s2 y) by (intros y Hy; apply H; right; exact Hy).
  destruct (1 <=? _); [apply IH; exact H'|]. destruct (_ && _); apply IH; exact H'.
Qed.

Lemma or_final_spec : forall s xs af0 at' af', or_final s xs af0 = (at', af') ->
  (at' = true -> exists x, In x xs /\ 1 <= dmin (sget s x)) /\
  (at' = false -> af' = true -> af0 = true /\ forall x, In x xs -> dmax (sget s x) <= 0).
Proof.
  intros s. induction xs as [|x r IH]; intros af0 at' af' E; cbn [or_final] in E.
  - inversion E; subst. split; [discriminate|]. intros _ H. split; [exact H | intros x []].
  - destruct (Z.leb_spec 1 (dmin (sget s x))) as [C1|C1].
    + inversion E; subst. split; [|discriminate]. intros _. exists x. split; [left; reflexivity | exact C1].
    + destruct (Z.leb_spec 1 (dmax (sget s x))) as [C2|C2].
      * destruct (IH _ _ _ E) as [A B]. split.
        { intros Ha. destruct (A Ha) as (y & Hy & Dy). exists y. split; [right; exact Hy | exact Dy]. }
        { intros Ha Ht. destruct (B Ha Ht) as [X _]. discriminate X. }
      * destruct (IH _ _ _ E) as [A B]. split.
        { intros Ha. destruct (A Ha) as (y & Hy & Dy). exists y. split; [right; exact Hy | exact Dy]. }
        { intros Ha Ht. destruct (B Ha Ht) as [X Y]. split; [exact X|].
          intros y [<-|Hy]; [lia | apply Y; exact Hy]. }
Qed.

Lemma or_final_fixed : forall a s xs af0,
  (forall x, In x xs -> dmin (sget s x) = a x /\ dmax (sget s x) = a x) ->
  or_final s xs af0 = if existsb (fun x => tr (a x)) xs then (true, snd (or_final s xs af0)) else (false, af0).
Proof.
  intros a s. induction xs as [|x r IH]; intros af0 H; cbn [or_final existsb]; [reflexivity|].
  destruct (H x (or_introl eq_refl)) as [V1 V2]. rewrite V1, V2. unfold tr at 1.
  assert (H' : forall y, In y r -> dmin (sget s y) = a y /\ dmax (sget s y) = a y) by (intros y Hy; apply H; right; exact Hy).
  destruct (Z.leb_spec 1 (a x)) as [C1|C1]; [reflexivity|]. cbn [orb]. apply IH. exact H'.
Qed.

Lemma or_final_agree : forall s1 s2 xs af0, (forall x, In x xs -> sget s1 x = sget s2 x) ->
  or_final s1 xs af0 = or_final s2 xs af0.
Proof.
  intros s1 s2. induction xs as [|x r IH]; intros af0 H; cbn [or_final]; [reflexivity|].
  rewrite (H x (or_introl eq_refl)).
  assert (H' : forall y, In y r -> sget s1 y = sget s2 y) by (intros y Hy; apply H; right; exact Hy).
  destruct (1 <=? _); [reflexivity|]. destruct (1 <=? _); apply IH; exact H'.
Qed.

Lemma bor_b1_cstep : forall xs r c, cstep (r :: xs) c (bor_b1 xs r c).
Proof.
  intros xs r c. unfold bor_b1. destruct (_ <=? _); [|apply cstep_ret].
  apply set_all_max_cstep. intros x Hx. right. exact Hx.
Qed.
Lemma bor_b2_cstep : forall xs r rmin c, cstep (r :: xs) c (bor_b2 xs rmin c).
Proof.
  intros xs r rmin c. unfold bor_b2. destruct (_ <=? _); [|apply cstep_ret].
  destruct (or_scan _ _ _ _) as [nt und] eqn:ES. destruct nt; [|apply cstep_ret].
  destruct und as [|u [|u' und']]; [apply cstep_ret | | apply cstep_ret].
  apply cstep_set_min. destruct (or_scan_und_in _ _ _ _ _ _ ES u (or_introl eq_refl)) as [[]|A]. right. exact A.
Qed.
Lemma bor_b3_cstep : forall xs r c, cstep (r :: xs) c (bor_b3 xs r c).
Proof.
  intros xs r c. unfold bor_b3. destruct (or_final _ _ _) as [at' af']. destruct at'; [apply cstep_set_min; left; reflexivity|].
  destruct af'; [apply cstep_set_max; left; reflexivity | apply cstep_ret].
Qed.

Definition bor_sem (xs : list nat) (r : nat) (a : asg) : Prop :=
  (a r <= 0 /\ forall x, In x xs -> a x <= 0) \/ (1 <= a r /\ exists x, In x xs /\ 1 <= a x).

Lemma bor_sem_of_sat : forall xs r a, Bool.eqb (tr (a r)) (existsb (fun x => tr (a x)) xs) = true -> bor_sem xs r a.
Proof.
  intros xs r a H. apply eqb_prop in H. unfold tr at 1 in H.
  destruct (existsb _ xs) eqn:F.
  - right. apply Z.leb_le in H. split; [exact H|]. apply existsb_exists in F. destruct F as (x & Hx & Ex).
    exists x. split; [exact Hx|]. unfold tr in Ex. apply Z.leb_le. exact Ex.
  - left. apply Z.leb_gt in H. split; [lia|]. intros x Hx.
    pose proof (existsb_false_all _ _ F x Hx) as Ex. unfold tr in Ex. apply Z.leb_gt in Ex. lia.
Qed.

Lemma bor_sat_of_sem : forall xs r a, bor_sem xs r a -> Bool.eqb (tr (a r)) (existsb (fun x => tr (a x)) xs) = true.
Proof.
  intros xs r a [[H1 H2]|[H1 (x & Hx & Ex)]]; unfold tr at 1.
  - destruct (Z.leb_spec 1 (a r)); [lia|].
    destruct (existsb _ xs) eqn:F; [|reflexivity]. apply existsb_exists in F. destruct F as (x & Hx & Ex).
    unfold tr in Ex. apply Z.leb_le in Ex. specialize (H2 x Hx). lia.
  - destruct (Z.leb_spec 1 (a r)); [|lia].
    replace (existsb _ xs) with true; [reflexivity|]. symmetry. apply existsb_exists. exists x.
    split; [exact Hx|]. unfold tr. apply Z.leb_le. exact Ex.
Qed.

Theorem mk_bor_good : forall xs r, good (mk_bor xs r).
Proof.
  intros xs r. destruct xs as [|x0 xs'].
  { (* empty OR: result := 0 *)
    apply good_intro; cbn [prune sat trig mk_bor prune_bor existsb].
    - intros c. cstep_auto.
    - intros a c Hsc Hsat Hwf Hi. assert (Sr : (r < length (fst c))%nat) by (apply Hsc; inL).
      pose proof (inst_bounds a _ r Hwf Hi Sr). unfold tr, is01 in Hsat. zcases Hsat.
      all: revert Hwf Hi; change (sstep a c (do c1 <- cset_min r 0 c; cset_max r 0 c1)); sstep_auto.
    - intros a c c' _ Hi Hf E. destruct (fixed_value a (fst c) r Hi (Hf r ltac:(inL))).
      kwalk ltac:(apply Hf; inL). kfin.
    - intros c1 c2 F. fr_auto.
    - intros a1 a2 H. rewrite (H r) by inL. reflexivity. }
  set (xs := x0 :: xs') in *. assert (Hne : xs <> []) by discriminate.
  apply good_intro; cbn [prune sat trig mk_bor].
  - intros c. rewrite (prune_bor_eq xs r c Hne).
    apply cstep_bind; [apply bor_b1_cstep|]. intros c1 _. cbv beta.
    apply cstep_bind; [apply bor_b2_cstep|]. intros c2 _. cbv beta. apply bor_b3_cstep.
  - intros a c Hsc Hsat Hwf Hi. rewrite (prune_bor_eq xs r c Hne).
    assert (Sr : (r < length (fst c))%nat) by (apply Hsc; left; reflexivity).
    assert (Sx : forall x, In x xs -> (x < length (fst c))%nat) by (intros x Hx; apply Hsc; right; exact Hx).
    pose proof (inst_bounds a _ r Hwf Hi Sr) as Br.
    assert (Hsem : bor_sem xs r a) by (apply bor_sem_of_sat; subst xs; exact Hsat).
    revert Hwf Hi.
    change (sstep a c (do c1 <- bor_b1 xs r c; do c2 <- bor_b2 xs (cvar_min r c) c1; bor_b3 xs r c2)).
    apply sstep_bind.
    { unfold bor_b1, cvar_max. destruct (Z.leb_spec (dmax (sget (fst c) r)) 0) as [C|C]; [|apply sstep_ret].
      apply set_all_max_sound. intros x Hx. split; [|apply Sx; exact Hx].
      destruct Hsem as [[_ H2]|[H1 _]]; [apply H2; exact Hx | lia]. }
    intros c1 L1. cbv beta. apply sstep_bind.
    { unfold bor_b2, cvar_min. destruct (Z.leb_spec 1 (dmin (sget (fst c) r))) as [C|C]; [|apply sstep_ret].
      intros Hwf1 Hi1. destruct (or_scan _ _ _ _) as [nt und] eqn:ES.
      destruct nt; [|exact (sstep_ret a c1 Hwf1 Hi1)].
      destruct und as [|u [|u' und']]; [exact (sstep_ret a c1 Hwf1 Hi1) | | exact (sstep_ret a c1 Hwf1 Hi1)].
      destruct Hsem as [[H1 _]|[_ (x & Hx & Ex)]]; [lia|].
      assert (Bx : dmin (sget (fst c1) x) <= a x <= dmax (sget (fst c1) x)).
      { apply inst_bounds; [exact Hwf1 | exact Hi1 | rewrite L1; apply Sx; exact Hx]. }
      destruct (or_scan_true a _ _ _ _ _ _ ES) as (_ & _ & Hf).
      destruct (Hf x Hx Bx Ex) as [A|[->|[]]]; [lia|].
      refine (sstep_set_min a x 1 c1 _ Ex Hwf1 Hi1). rewrite L1. apply Sx. exact Hx. }
    intros c2 L2. cbv beta. unfold bor_b3. intros Hwf2 Hi2.
    assert (Bx : forall x, In x xs -> dmin (sget (fst c2) x) <= a x <= dmax (sget (fst c2) x)).
    { intros x Hx. apply inst_bounds; [exact Hwf2 | exact Hi2 | rewrite L2, L1; apply Sx; exact Hx]. }
    assert (Sr2 : (r < length (fst c2))%nat) by lia.
    destruct (or_final _ _ _) as [at' af'] eqn:EF. destruct (or_final_spec _ _ _ _ _ EF) as [A B].
    destruct at'.
    { destruct (A eq_refl) as (x & Hx & Dx). pose proof (Bx x Hx).
      refine (sstep_set_min a r 1 c2 Sr2 _ Hwf2 Hi2).
      destruct Hsem as [[_ H2]|[H1 _]]; [specialize (H2 x Hx); lia | exact H1]. }
    destruct af'; [|exact (sstep_ret a c2 Hwf2 Hi2)].
    destruct (B eq_refl eq_refl) as [_ Hall].
    refine (sstep_set_max a r 0 c2 Sr2 _ Hwf2 Hi2).
    destruct Hsem as [[H1 _]|[_ (x & Hx & Ex)]]; [exact H1|]. specialize (Hall x Hx). specialize (Bx x Hx). lia.
  - intros a c c' Hwf Hi Hf E. rewrite (prune_bor_eq xs r c Hne) in E.
    destruct (bor_b1 xs r c) as [c1|] eqn:E1; [cbn [obind] in E | discriminate E].
    assert (c1 = c) by (eapply (cstep_fixed (r :: xs)); [apply bor_b1_cstep | exact Hwf | exact Hf | exact E1]).
    subst c1. clear E1.
    destruct (bor_b2 xs (cvar_min r c) c) as [c2|] eqn:E2; [cbn [obind] in E | discriminate E].
    assert (c2 = c) by (eapply (cstep_fixed (r :: xs)); [apply (bor_b2_cstep xs r) | exact Hwf | exact Hf | exact E2]).
    subst c2. clear E2.
    assert (Fr : dfixed (sget (fst c) r) = true) by (apply Hf; left; reflexivity).
    destruct (fixed_value a (fst c) r Hi Fr) as [R1 R2].
    cbn [andb]. change (x0 :: xs') with xs. apply bor_sat_of_sem.
    unfold bor_b3 in E.
    rewrite (or_final_fixed a (fst c) xs true) in E
      by (intros x Hx; apply fixed_value; [exact Hi | apply Hf; right; exact Hx]).
    destruct (existsb (fun x => tr (a x)) xs) eqn:F.
    + apply fixed_set_min in E; [|exact Fr]. destruct E as [_ E]. right. split; [lia|].
      apply existsb_exists in F. destruct F as (x & Hx & Ex). exists x. split; [exact Hx|].
      unfold tr in Ex. apply Z.leb_le. exact Ex.
    + apply fixed_set_max in E; [|exact Fr]. destruct E as [_ E]. left. split; [lia|].
      intros x Hx. pose proof (existsb_false_all _ _ F x Hx) as Ex. unfold tr in Ex. apply Z.leb_gt in Ex. lia.
  - intros c1 c2 F. rewrite (prune_bor_eq xs r c1 Hne), (prune_bor_eq xs r c2 Hne).
    assert (Ag : forall s1 s2 : ctx, fr (r :: xs) s1 s2 -> forall x, In x xs -> sget (fst s1) x = sget (fst s2) x)
      by (intros s1 s2 G x Hx; apply (proj1 G); right; exact Hx).
    assert (Hxs : forall x, In x xs -> In x (r :: xs)) by (intros x Hx; right; exact Hx).
    destruct (fr_cvar (r :: xs) r c1 c2 (or_introl eq_refl) F) as [E1 E2].
    apply orel_bind.
    { unfold bor_b1. rewrite E2. destruct (_ <=? _); [|exact F]. apply set_all_max_fr; assumption. }
    intros d1 d2 F1. cbv beta. rewrite E1. apply orel_bind.
    { unfold bor_b2. destruct (_ <=? _); [|exact F1].
      rewrite (or_scan_agree (fst d1) (fst d2) xs 0 [] (Ag d1 d2 F1)).
      destruct (or_scan _ _ _ _) as [nt und] eqn:ES. destruct nt; [|exact F1].
      destruct und as [|u [|u' und']]; [exact F1 | | exact F1].
      apply fr_set_min; [|exact F1].
      destruct (or_scan_und_in _ _ _ _ _ _ ES u (or_introl eq_refl)) as [[]|A]. right. exact A. }
    intros e1 e2 F2. cbv beta. unfold bor_b3.
    rewrite (or_final_agree (fst e1) (fst e2) xs true (Ag e1 e2 F2)).
    destruct (or_final _ _ _) as [at' af']. destruct at'; [apply fr_set_min; [left; reflexivity | exact F2]|].
    destruct af'; [apply fr_set_max; [left; reflexivity | exact F2] | exact F2].
  - intros a1 a2 H. cbn [andb]. rewrite (H r) by (left; reflexivity).
    rewrite (existsb_ext_in' (fun x => tr (a1 x)) (fun x => tr (a2 x)) xs); [reflexivity|].
    intros x Hx. rewrite (H x) by (right; exact Hx). reflexivity.
Qed.

(* ------------------------------------------------------------------------------------------ *)
(* On 0/1 assignments every `sat` of the boolean kinds is the plain truth table (true = 1) *)

Lemma tr_01 : forall z, is01 z = true -> tr z = (z =? 1).
Proof. intros z H. unfold is01 in H. unfold tr. zcases H; zgoal. Qed.

Lemma band_sat01 : forall xs r a, is01 (a r) = true -> (forall x, In x xs -> is01 (a x) = true) ->
  sat (mk_band xs r) a = Bool.eqb (a r =? 1) (forallb (fun x => a x =? 1) xs).
Proof.
  intros xs r a Hr Hx. cbn [sat mk_band]. rewrite (tr_01 _ Hr).
  rewrite (forallb_ext_in' (fun x => tr (a x)) (fun x => a x =? 1) xs) by (intros x H; apply tr_01, Hx, H).
  destruct xs; [rewrite Hr|]; reflexivity.
Qed.
Lemma bor_sat01 : forall xs r a, is01 (a r) = true -> (forall x, In x xs -> is01 (a x) = true) ->
  sat (mk_bor xs r) a = Bool.eqb (a r =? 1) (existsb (fun x => a x =? 1) xs).
Proof.
  intros xs r a Hr Hx. cbn [sat mk_bor]. rewrite (tr_01 _ Hr).
  rewrite (existsb_ext_in' (fun x => tr (a x)) (fun x => a x =? 1) xs) by (intros x H; apply tr_01, Hx, H).
  destruct xs; [rewrite Hr|]; reflexivity.
Qed.
Lemma bnot_sat01 : forall o r a, is01 (a o) = true -> is01 (a r) = true ->
  sat (mk_bnot o r) a = Bool.eqb (a r =? 1) (negb (a o =? 1)).
Proof.
  intros o r a Ho Hr. cbn [sat mk_bnot]. rewrite (tr_01 _ Ho), (tr_01 _ Hr), Hr.
  unfold is01 in Ho. zcases Ho; zgoal.
Qed.
Lemma bxor_sat01 : forall x y r a, is01 (a x) = true -> is01 (a y) = true -> is01 (a r) = true ->
  sat (mk_bxor x y r) a = Bool.eqb (a r =? 1) (xorb (a x =? 1) (a y =? 1)).
Proof. intros x y r a Hx Hy Hr. cbn [sat mk_bxor]. rewrite (tr_01 _ Hx), (tr_01 _ Hy), (tr_01 _ Hr), Hr. reflexivity. Qed.
Lemma reif_sat01 : forall pr rel x y b a, is01 (a b) = true ->
  sat (mk_reif pr rel x y b) a = Bool.eqb (a b =? 1) (rel (a x) (a y)).
Proof. intros pr rel x y b a Hb. cbn [sat mk_reif]. rewrite (tr_01 _ Hb). reflexivity. Qed.
